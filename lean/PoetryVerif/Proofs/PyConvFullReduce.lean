/-
`reduce_by_python_constraint` on the full domain (C17): `ReduceCtx` for poetry's own leaf truth and the invariant
`FullLeaf E`, with every component proved — what `get_python_constraint_from_marker` returns is a constraint of
C05's regular setting over Python bounds (`gpc_pyVCok`), exactness for python-only markers, `create_nested_marker`
through `parse_marker` (`createNested_full`), C12's two answers at the probe.
-/
import PoetryVerif.Proofs.PyConvFullNested
import PoetryVerif.Proofs.PyConvReduce
import PoetryVerif.Proofs.PyConvGpcAlts

set_option linter.unusedSimpArgs false
set_option linter.unusedVariables false

namespace Poetry.Marker
open Poetry Poetry.VParser Poetry.Spec.Pep508

theorem pyVCok_any : PyVCok VC.any := by
  refine ⟨⟨⟨by intro e he; simp [VRange.bounds, VRange.any] at he, by intro m M hm; simp [VRange.any] at hm⟩, ?_⟩, ?_⟩
  · show VRange.isStrictlyLower _ _ = false
    simp [VRange.isStrictlyLower, VRange.allowedMin, VRange.allowedMax, VRange.any]
  · intro c hc
    simp only [VC.any, VC.flatten, List.mem_cons, List.mem_nil_iff, or_false] at hc
    subst hc
    refine ⟨⟨by intro e he; simp [VRange.bounds, VRange.any] at he, by intro m M hm; simp [VRange.any] at hm⟩,
      ⟨fun _ => rfl, fun _ => rfl⟩, ?_, ?_⟩
    · show VRange.isStrictlyLower _ _ = false
      simp [VRange.isStrictlyLower, VRange.allowedMin, VRange.allowedMax, VRange.any]
    · intro e he; simp [RC.bounds, RC.view, VRange.bounds, VRange.any, RC.min, RC.max] at he

theorem pyVCok_empty : PyVCok VC.empty := ⟨trivial, by intro c hc; simp [VC.flatten] at hc⟩

variable {ev : Leaf → Bool} {G : Leaf → Prop}

/-- **what `get_python_constraint_from_marker` returns is a constraint of the regular setting over Python
bounds** -/
theorem gpc_pyVCok (S : LeafSpec ev G) (X Y Z : Nat) (m : M) (g : VC) (hg : M.Good G m)
    (hL : ∀ l, G l → convKey l.name = pyKey → LeafAlts ev X Y Z l)
    (h : gpc m = .ok g) : PyVCok g := by
  simp only [gpc, bind, Except.bind] at h
  split at h
  · cases h
  · rename_i pm hpm
    by_cases ha : pm.isAny = true
    · simp [ha, pure, Except.pure] at h; subst h; exact pyVCok_any
    · simp only [ha, Bool.false_eq_true, if_false] at h
      by_cases he : pm.isEmpty = true
      · simp only [he, if_true, pure, Except.pure] at h
        injection h with h; subst h; exact pyVCok_empty
      · simp only [he, Bool.false_eq_true, if_false] at h
        split at h
        · cases h
        · rename_i d0 hd0
          by_cases hde : d0.isEmpty = true
          · simp only [hde, if_true, pure, Except.pure] at h
            injection h with h; subst h; exact pyVCok_empty
          · simp only [hde, Bool.false_eq_true, if_false] at h
            split at h
            · cases h
            · rename_i cm hcm
              simp only [convertMarkersFor, bind, Except.bind] at hcm
              split at hcm
              · cases hcm
              · rename_i d hd
                have hds := dnf_sound S hg hd
                split at hcm
                · cases hcm
                · rename_i groups hgroups
                  by_cases hall : groups.all List.isEmpty = true
                  · simp [hall, pure, Except.pure] at hcm; subst hcm
                    simp [pure, Except.pure] at h; subst h; exact pyVCok_any
                  · simp only [hall, Bool.false_eq_true, if_false, pure, Except.pure] at hcm
                    injection hcm with hcm; subst hcm
                    simp only at h
                    by_cases hc : (dedupGroups groups).contains [] = true
                    · simp only [hc, if_true, pure, Except.pure] at h
                      injection h with h; subst h; exact pyVCok_any
                    · simp only [hc, Bool.false_eq_true, if_false] at h
                      split at h
                      · cases h
                      · rename_i txt htxt
                        have hgne : groups ≠ [] := by intro e; subst e; simp at hall
                        obtain ⟨chss, rfl, f1, f2, f3, _, _⟩ :=
                          gpc_text_facts S X Y Z d hds.1 hL groups hgroups hc hgne txt htxt
                        obtain ⟨vc, hvc, hok⟩ := split_okE chss.flatten f1 f2
                          (fun g hg it hit => (f3 g hg it hit).1) X Y Z
                        rw [hvc] at h; injection h with h; subst h
                        exact hok

/-- **`ReduceCtx` for poetry's own evaluation on the full domain, every component proved** -/
theorem reduceCtx_full {E : Env} {ex : List String} (hX : E.extras = some ex) {X Y Z : Nat} (hE : EnvPy E X Y Z)
    (pc : VC) (hd : PyDomVC pc = true) (hp2 : PyPrec2 pc) (hpcok : PyVCok pc)
    (hpc : pc.allowsPlain (pyV X Y Z) = true) :
    ReduceCtx (leafEval E) (FullLeaf E) (fun _ => True) PyVCok pc (pyV X Y Z) where
  spec := leafSpec_fullDomain hX hE
  canon := fullLeaf_canon
  gpcLeaf_exact := fun l c hg _ hn hgl => by
    obtain ⟨s, item, rfl, hop, hitem, ⟨vc, hvc, hb⟩, hshape⟩ :=
      fullLeaf_clause hE l hg (convKey_of_isPyName hn)
    rw [gpcLeaf_single s item hn hop hitem, hvc] at hgl
    injection hgl with hgl; subst hgl
    refine ⟨?_, hb⟩
    obtain ⟨hok, hstar, vc', hp', hvc'⟩ := hshape
    have hne : item ≠ "*" := by intro e; apply hstar; rw [e]; rfl
    rw [VParser.parseMarkerVersionConstraint, parseConstraintAux_single item true hok.nosep hne, hp'] at hvc
    injection hvc with hvc; subst hvc; exact hvc'
  gpc_lower := fun u g hgu hvu hgpc => by
    have S := leafSpec_fullDomain hX hE
    have hcl : ∀ l, FullLeaf E l → convKey l.name = pyKey → LeafClause (leafEval E) X Y Z l :=
      fun l hl hk => fullLeaf_clause hE l hl hk
    refine ⟨gpc_pyVCok S X Y Z u g hgu (fun l hl hk => leafAlts_of_clause (hcl l hl hk)) hgpc, ?_⟩
    intro hal
    have hvars : ∀ n ∈ M.vars u, pyNames.contains n = true := fun n hn => by simpa using hvu n hn
    have := gpc_exact S X Y Z u g hgu hvars hcl (splitSound_holds X Y Z) (by
      intro d hdd l hl
      have hv := dnf_vars S fullLeaf_canon _ _ u d hgu hdd l.name (leaf_name_mem_vars d l hl)
      exact convKey_of_pyNames (hvars _ hv)) hgpc
    rw [this, hal]
  allowsAll_sound := fun c hw h => allowsAll_py c pc hw hpcok X Y Z h hpc
  allowsAny_sound := fun c hw h hcp => allowsAny_py c pc hw hpcok X Y Z h ⟨hcp, hpc⟩
  nested_true := fun txt pm ht hm => by
    have := createNested_full hX hE pc hd hp2 txt pm ht hm
    exact ⟨this.1, by rw [this.2, hpc]⟩

/-- **`reduce_by_python_constraint` is exact against `validate`, full domain**: for a Python range of C11's domain
with bounds of at least two components that is a well-formed constraint and admits the interpreter `X.Y.Z`, the
reduced marker validates on the environment of `X.Y.Z` to the same value as the original -/
theorem reduce_exact_validate_full {E : Env} {ex : List String} (hX : E.extras = some ex) {X Y Z : Nat}
    (hE : EnvPy E X Y Z) (pc : VC) (hd : PyDomVC pc = true) (hp2 : PyPrec2 pc) (hpcok : PyVCok pc)
    (hpc : pc.allowsPlain (pyV X Y Z) = true) (m r : M) (hg : M.Good (FullLeaf E) m)
    (h : M.reduce pc m = .ok r) :
    M.Good (FullLeaf E) r ∧ M.validate E r = M.validate E m := by
  have C := reduceCtx_full hX hE pc hd hp2 hpcok hpc
  have hr := reduce_exact_aux C m r (M.good_mono (fun l hl => ⟨hl, trivial⟩) m hg) h
  have hev : ∀ x, M.Good (FullLeaf E) x → M.Evaluable E x := fun x hx =>
    M.good_mono (fun l hl => fullLeaf_evaluable hX hE hl) x hx
  exact ⟨hr.1, by rw [M.validate_eq_sem E r (hev r hr.1), M.validate_eq_sem E m (hev m hg), hr.2]⟩

end Poetry.Marker
