/-
C19 (version-constraint part), third helper file: the merge loop of `VersionUnion.of` is total on every SORTED
list of well-formed tidy members — local labels included — hence the whole constraint algebra is total on what
the parser builds, and `parse_constraint` raises `ValueError` only.
-/
import PoetryVerif.Proofs.ParserTotalVC2
import PoetryVerif.Proofs.VRangeSort
import PoetryVerif.Proofs.VRangeSpecFinal

set_option linter.unusedSimpArgs false
set_option linter.unusedVariables false

namespace Poetry.ParserTotal
open Poetry Version VParser EqHash

/-! ## a version that allows a local build of itself sorts strictly below it -/

theorem withoutLocal_lt {m : Version} (hm : m.wf = true) (hl : m.isLocal = true) : vk m.withoutLocal < vk m := by
  rw [vk_lt_iff, cmp_eq_pub_then_loc, pubCmp_withoutLocal_left]
  have h1 : pubCmp m m = .eq := (pubCmp_eq_iff m m).2 rfl
  have h2 : (m.withoutLocal).loc = none := rfl
  rw [h1, h2, locK_none_lt hm hl]; rfl

/-- `v.allows(m)` with `m` a local build and `v ≠ m`: then `v` is the public version of `m`, strictly below -/
theorem lt_of_allows_local {v m : Version} (hm : m.wf = true) (h : v.allows m = true) (hl : m.isLocal = true)
    (hne : Version.eqv v m = false) : vk v < vk m := by
  unfold Version.allows at h
  by_cases hv : v.isLocal = true
  · simp [hv] at h; rw [h] at hne; cases hne
  · simp only [Bool.not_eq_true] at hv
    simp only [hv, hl, Bool.not_false, Bool.and_self, if_true] at h
    rw [(eqv_iff _ _).1 h]
    exact withoutLocal_lt hm hl


/-! ## the merge loop on a sorted list -/

/-- a bare version strictly below the lower bound of `c` sorts before `c` -/
theorem lt_ver_of_min_lt {c : RC} {v m : Version} (hm : c.min = some m) (h : vk v < vk m) :
    RC.lt (.ver v) c = true := by
  cases c with
  | ver b =>
    simp only [RC.min, Option.some.injEq] at hm; subst hm
    simpa [RC.lt] using (lt_iff v b).2 h
  | rng r =>
    have hm' : r.min = some m := hm
    have hg : Version.gt m v = true := (gt_iff m v).2 h
    simp [RC.lt, VRange.cmp, RC.view, RC.min, hm', hg]

/-- whenever the merge loop decides to merge (`allows_any` or adjacent), `a.union(b)` is a single member —
provided the second operand is not a bare version strictly below the first operand's lower bound (which the
sort order excludes) -/
theorem rcUnionSingle_some' (x y : RC) (hx : x.WF) (hy : y.WF)
    (hnl : ∀ r v m, x = .rng r → y = .ver v → r.min = some m → ¬ vk v < vk m)
    (any : Bool) (hany : RC.allowsAny x y = .ok any)
    (hm : (!any && !(x.view.isAdjacentTo y.view)) = false) :
    ∃ u, rcUnionSingle x y = .ok (some u) ∧ (u.min = x.min ∨ u.min = y.min) := by
  cases x with
  | ver a =>
    simp only [rcUnionSingle]
    by_cases h1 : y.allows a = true
    · exact ⟨y, by simp [h1], Or.inr rfl⟩
    · simp only [h1, Bool.false_eq_true, if_false]
      -- `a.allows y.min` must hold
      have key : ∃ m, y.min = some m ∧ a.allows m = true := by
        cases hb : any with
        | true =>
          rw [hb] at hany
          cases y with
          | ver b =>
            simp only [RC.allowsAny, RC.intersect, RC.verIntersectVer, bind, Except.bind, pure, Except.pure] at hany
            by_cases h2 : a.allows b = true
            · exact ⟨b, rfl, h2⟩
            · have h3 : b.allows a = false := by simpa [RC.allows] using h1
              simp [h2, h3, VC.isEmpty] at hany
          | rng r =>
            simp only [RC.allowsAny, RC.intersect, RC.rngIntersectVer, bind, Except.bind, pure, Except.pure] at hany
            have h3 : r.allows a = false := by simpa [RC.allows] using h1
            simp only [h3, Bool.false_eq_true, if_false] at hany
            cases hm' : r.min with
            | none => simp [hm', VC.isEmpty] at hany
            | some m =>
              simp only [hm'] at hany
              by_cases h4 : (m.isLocal && a.allows m) = true
              · simp only [Bool.and_eq_true] at h4; exact ⟨m, hm', h4.2⟩
              · simp [h4, VC.isEmpty] at hany
        | false =>
          rw [hb] at hm
          simp only [Bool.not_false, Bool.true_and, Bool.not_eq_false'] at hm
          simp only [VRange.isAdjacentTo, RC.view, RC.max, RC.imax] at hm
          cases hmin : y.min with
          | none => simp [hmin, optVerEq] at hm
          | some m =>
            simp only [hmin, optVerEq] at hm
            by_cases he : Version.eqv a m = true
            · have hmwf : m.wf = true := hy.wfB m (by simp [RC.bounds, RC.view, VRange.bounds, hmin])
              exact ⟨m, rfl, Version.allows_of_vk_eq hx hmwf ((eqv_iff _ _).1 he).symm⟩
            · simp [he] at hm
      obtain ⟨m, hm1, hm2⟩ := key
      cases y with
      | ver b =>
        have : b = m := by simpa [RC.min] using hm1
        subst this
        exact ⟨RC.ver a, by simp [hm2], Or.inl rfl⟩
      | rng r =>
        have hm1' : r.min = some m := hm1
        exact ⟨RC.rng ⟨r.min, r.max, true, r.imax⟩, by simp [RC.min, RC.max, RC.imax, hm1', hm2], Or.inr rfl⟩
  | rng r =>
    cases y with
    | ver v =>
      simp only [rcUnionSingle]
      by_cases h1 : r.allows v = true
      · exact ⟨.rng r, by simp [h1], Or.inl rfl⟩
      · simp only [h1, Bool.false_eq_true, if_false]
        by_cases h2 : optVerEq (some v) r.min = true
        · exact ⟨.rng ⟨r.min, r.max, true, r.imax⟩, by simp [h2], Or.inl rfl⟩
        · simp only [h2, Bool.false_eq_true, if_false]
          have h3 : optVerEq (some v) r.max = true := by
            cases hb : any with
            | true =>
              rw [hb] at hany
              simp only [RC.allowsAny, Except.ok.injEq, Bool.or_eq_true] at hany
              rcases hany with hany | hany
              · exact absurd hany h1
              · cases hm' : r.min with
                | none => simp [hm'] at hany
                | some m =>
                  simp only [hm', Bool.and_eq_true] at hany
                  have hmwf : m.wf = true := hx.wfB m (by simp [RC.bounds, RC.view, VRange.bounds, RC.min, hm'])
                  have hne : Version.eqv v m = false := by
                    simpa [optVerEq, hm'] using h2
                  exact absurd (lt_of_allows_local hmwf hany.2 hany.1 hne) (hnl r v m rfl rfl hm')
            | false =>
              rw [hb] at hm
              simp only [Bool.not_false, Bool.true_and, Bool.not_eq_false'] at hm
              simp only [VRange.isAdjacentTo, RC.view, RC.min, RC.imin, RC.max, RC.imax] at hm
              cases he : optVerEq r.max (some v)
              · simp [he] at hm
              · rw [VRange.optVerEq_comm]; exact he
          exact ⟨.rng ⟨r.min, r.max, r.imin, true⟩, by simp [h3], Or.inl rfl⟩
    | rng s =>
      have hc : (!(VRange.edgesTouch r s) && (s.isStrictlyLower r || r.isStrictlyLower s)) = false := by
        cases hb : any with
        | true =>
          rw [hb] at hany
          simp only [RC.allowsAny, VRange.isStrictlyHigher, Except.ok.injEq, Bool.not_eq_true'] at hany
          simp [hany]
        | false =>
          rw [hb] at hm
          simp only [Bool.not_false, Bool.true_and, Bool.not_eq_false', RC.view_rng] at hm
          simp [isAdjacentTo_edgesTouch hm]
      refine ⟨_, VRange.rcUnionSingle_rng_some r s hc, ?_⟩
      simp only [RC.min, VRange.hull]
      cases r.allowsLower s <;> simp


/-- no bare version still to come is strictly below the lower bound of an accumulated member -/
def MinOK (acc l : List RC) : Prop :=
  ∀ a ∈ acc, ∀ y ∈ l, ∀ v m, y = RC.ver v → a.min = some m → ¬ vk v < vk m

theorem minOK_of_sorted {c : RC} {rest : List RC} (hs : SortedLt (c :: rest)) :
    ∀ y ∈ rest, ∀ v m, y = RC.ver v → c.min = some m → ¬ vk v < vk m := by
  intro y hy v m hyv hm hlt
  have h1 := (List.pairwise_cons.1 hs).1 y hy
  subst hyv
  rw [lt_ver_of_min_lt hm hlt] at h1; cases h1

/-- **the merge loop of `VersionUnion.of` never raises on a sorted list of well-formed tidy members** — bare
versions and local labels included (no `RecursionError`): the one pair `a.union(b)` cannot merge into a single
member, a range starting at a local build `V+x` followed by the bare `V`, contradicts the sort order. -/
theorem mergeLoop_total_sorted : ∀ (l acc : List RC), Good (l ++ acc) → SortedLt l → MinOK acc l →
    ∃ res, mergeLoop l acc = .ok res
  | [], acc, _, _, _ => ⟨_, rfl⟩
  | c :: rest, [], hg, hs, _ => by
    simp only [mergeLoop]
    refine mergeLoop_total_sorted rest [c] (hg.mono (by simp; grind)) (List.pairwise_cons.1 hs).2 ?_
    intro a ha y hy v m hyv hm
    simp only [List.mem_singleton] at ha; subst ha
    exact minOK_of_sorted hs y hy v m hyv hm
  | c :: rest, last :: more, hg, hs, hi => by
    obtain ⟨any, hany⟩ := RC.allowsAny_ok last c
    simp only [mergeLoop, hany, bind, Except.bind]
    have hl : last ∈ (c :: rest) ++ last :: more := by simp
    have hc : c ∈ (c :: rest) ++ last :: more := by simp
    have hs' : SortedLt rest := (List.pairwise_cons.1 hs).2
    have hi' : MinOK (last :: more) rest := fun a ha y hy => hi a ha y (List.mem_cons_of_mem _ hy)
    by_cases hb : (!any && !(last.view.isAdjacentTo c.view)) = true
    · simp only [hb, if_true]
      refine mergeLoop_total_sorted rest (c :: last :: more) (hg.mono (by simp; grind)) hs' ?_
      intro a ha y hy v m hyv hm
      rcases List.mem_cons.1 ha with rfl | ha
      · exact minOK_of_sorted hs y hy v m hyv hm
      · exact hi' a ha y hy v m hyv hm
    · simp only [hb, Bool.false_eq_true, if_false]
      simp only [Bool.not_eq_true] at hb
      obtain ⟨u, hu, humin⟩ := rcUnionSingle_some' last c (hg last hl).1 (hg c hc).1
        (by
          intro r v m hr hv hm
          exact hi last (by simp) c (by simp) v m hv (by rw [hr]; exact hm))
        any hany hb
      simp only [hu]
      obtain ⟨huwf, hut, _, _⟩ := RC.rcUnionSingle_exact last c (hg last hl).1 (hg c hc).1
        (hg last hl).2 (hg c hc).2 u hu
      have hg' : Good (rest ++ u :: more) := by
        intro x hx
        simp only [List.mem_append, List.mem_cons] at hx
        rcases hx with hx | rfl | hx
        · exact hg x (by simp [hx])
        · exact ⟨huwf, hut⟩
        · exact hg x (by simp [hx])
      refine mergeLoop_total_sorted rest (u :: more) hg' hs' ?_
      intro a ha y hy v m hyv hm
      rcases List.mem_cons.1 ha with rfl | ha
      · rcases humin with h | h
        · exact hi' last (by simp) y hy v m hyv (h ▸ hm)
        · exact minOK_of_sorted hs y hy v m hyv (h ▸ hm)
      · exact hi' a (List.mem_cons_of_mem _ ha) y hy v m hyv hm

/-- **`VersionUnion.of` is total on well-formed tidy members** (it sorts first) and keeps them so -/
theorem unionOfFlat_total_good (l : List RC) (hg : Good l) : ∃ res, unionOfFlat l = .ok res ∧ Good res.flatten := by
  have hex : ∃ res, unionOfFlat l = .ok res := by
    unfold unionOfFlat
    by_cases h1 : l.isEmpty = true
    · exact ⟨.empty, by simp [h1]⟩
    · by_cases h2 : l.any RC.isAny = true
      · exact ⟨VC.any, by simp [h1, h2]⟩
      · obtain ⟨merged, hm⟩ := mergeLoop_total_sorted (sortRCs l) []
          (hg.mono (by intro c hc; simpa [mem_sortRCs] using hc)) (sortRCs_sorted l).1
          (by intro a ha; simp at ha)
        simp only [h1, h2, Bool.false_eq_true, if_false, hm, bind, Except.bind]
        cases merged with
        | nil => exact ⟨_, rfl⟩
        | cons a as => cases as <;> exact ⟨_, rfl⟩
  obtain ⟨res, hres⟩ := hex
  exact ⟨res, hres, (unionOfFlat_sem l res hres hg).1⟩

/-! ## the algebra on well-formed tidy operands -/

/-- every member well-formed (ends well-formed, `min < max`) and tidy (an absent bound is not "included") -/
def GoodVC (c : VC) : Prop := Good c.flatten

theorem GoodVC.empty : GoodVC .empty := by intro r hr; simp [VC.flatten] at hr

theorem unionOf_good (gs : List VC) (h : ∀ g ∈ gs, GoodVC g) : ∃ res, VC.unionOf gs = .ok res ∧ GoodVC res :=
  unionOfFlat_total_good _ (by
    intro c hc
    obtain ⟨g, hg, hcg⟩ := List.mem_flatMap.1 hc
    exact h g hg c hcg)

/-- **member ∩ member is total, not a union, and stays well-formed and tidy** — local labels included -/
theorem rcIntersect_good (a b : RC) (ha : a.WF ∧ a.Tidy) (hb : b.WF ∧ b.Tidy) :
    ∃ i, RC.intersect a b = .ok i ∧ i.notUnion ∧ GoodVC i := by
  obtain ⟨i, hi⟩ := RC.intersect_ok a b ha.1 hb.1
  have s1 := RC.intersect_notUnion a b i hi
  refine ⟨i, hi, s1, fun c hc => ⟨rcIntersect_WF a b ha.1 hb.1 i hi c hc, ?_⟩⟩
  cases c with
  | ver v => trivial
  | rng r =>
    cases a with
    | ver x =>
      cases b with
      | ver y =>
        simp only [RC.intersect, Except.ok.injEq, RC.verIntersectVer] at hi
        subst hi
        split at hc
        · simp [VC.flatten] at hc
        · split at hc <;> simp [VC.flatten] at hc
      | rng s =>
        simp only [RC.intersect, Except.ok.injEq, RC.rngIntersectVer] at hi
        subst hi
        split at hc
        · simp [VC.flatten] at hc
        · split at hc
          · split at hc
            · simp [VC.flatten] at hc; subst hc; exact ⟨fun h => by simp at h, fun h => by simp at h⟩
            · simp [VC.flatten] at hc
          · simp [VC.flatten] at hc
    | rng s =>
      cases b with
      | ver y =>
        simp only [RC.intersect, Except.ok.injEq, RC.rngIntersectVer] at hi
        subst hi
        split at hc
        · simp [VC.flatten] at hc
        · split at hc
          · split at hc
            · simp [VC.flatten] at hc; subst hc; exact ⟨fun h => by simp at h, fun h => by simp at h⟩
            · simp [VC.flatten] at hc
          · simp [VC.flatten] at hc
      | rng t =>
        simp only [RC.intersect] at hi
        cases i with
        | empty => simp [VC.flatten] at hc
        | union ds => exact absurd s1 (by simp [VC.notUnion])
        | single d =>
          simp [VC.flatten] at hc; subst hc
          exact rngIntersectRng_Tidy s t ha.2 hb.2 r hi

/-- **the walk of `VersionUnion.intersect` returns with any fuel above the two lengths** and collects
well-formed tidy parts -/
theorem unionIntersectLoop_good : ∀ (fuel : Nat) (ours theirs : List RC) (acc : List VC),
    ours.length + theirs.length < fuel → Good ours → Good theirs → (∀ q ∈ acc, GoodVC q) →
    ∃ parts, VC.unionIntersectLoop fuel ours theirs acc = .ok parts ∧ ∀ q ∈ parts, GoodVC q
  | 0, _, _, _, hf, _, _, _ => by omega
  | fuel + 1, [], theirs, acc, _, _, _, ha => ⟨acc, by simp [VC.unionIntersectLoop], ha⟩
  | fuel + 1, o :: os, [], acc, _, _, _, ha => ⟨acc, by simp [VC.unionIntersectLoop], ha⟩
  | fuel + 1, o :: os, t :: ts, acc, hf, ho, ht, ha => by
    obtain ⟨i, hi, _, hinv⟩ := rcIntersect_good o t (ho o (by simp)) (ht t (by simp))
    simp only [VC.unionIntersectLoop, bind, Except.bind, hi]
    have ha' : ∀ q ∈ (if i.isEmpty = true then acc else acc ++ [i]), GoodVC q := by
      intro q hq
      split at hq
      · exact ha q hq
      · simp only [List.mem_append, List.mem_singleton] at hq
        rcases hq with h1 | rfl
        · exact ha q h1
        · exact hinv
    split
    · exact unionIntersectLoop_good fuel os (t :: ts) _ (by simp at hf ⊢; omega)
        (fun c hc => ho c (by simp [hc])) ht ha'
    · exact unionIntersectLoop_good fuel (o :: os) ts _ (by simp at hf ⊢; omega)
        ho (fun c hc => ht c (by simp [hc])) ha'

/-- **`a.intersect(b)` is total on well-formed tidy constraints and keeps them so** — unions and local labels
included -/
theorem vcIntersect_good (a b : VC) (ha : GoodVC a) (hb : GoodVC b) : ∃ c, VC.intersect a b = .ok c ∧ GoodVC c := by
  cases a with
  | empty => exact ⟨.empty, rfl, GoodVC.empty⟩
  | single x =>
    cases b with
    | empty => exact ⟨.empty, rfl, GoodVC.empty⟩
    | single y =>
      obtain ⟨i, hi, _, hinv⟩ := rcIntersect_good x y (ha x (by simp [VC.flatten])) (hb y (by simp [VC.flatten]))
      exact ⟨i, hi, hinv⟩
    | union rs =>
      obtain ⟨parts, hp, hpi⟩ := unionIntersectLoop_good (rs.length + 2) rs [x] [] (by simp)
        (fun c hc => hb c hc) (fun c hc => by simp at hc; subst hc; exact ha c (by simp [VC.flatten])) (by simp)
      obtain ⟨res, hres, hri⟩ := unionOf_good parts hpi
      exact ⟨res, by simp [VC.intersect, hp, hres, bind, Except.bind], hri⟩
  | union rs =>
    obtain ⟨parts, hp, hpi⟩ := unionIntersectLoop_good (rs.length + b.flatten.length + 1) rs b.flatten []
      (by omega) (fun c hc => ha c hc) (fun c hc => hb c hc) (by simp)
    obtain ⟨res, hres, hri⟩ := unionOf_good parts hpi
    exact ⟨res, by simp [VC.intersect, hp, hres, bind, Except.bind], hri⟩

theorem reach_good {c : VC} (h : Reach GoodVC c) : GoodVC c := by
  induction h with
  | clause hk => exact hk
  | inter _ hn hi ih =>
    obtain ⟨c', hc', hinv⟩ := vcIntersect_good _ _ ih hn
    rw [hc'] at hi; cases hi; exact hinv

/-- **the algebra is total on everything the parser can build** -/
theorem algebraTotal_good : AlgebraTotal GoodVC where
  inter := by
    intro a n ha hn e he
    obtain ⟨c, hc, _⟩ := vcIntersect_good a n (reach_good ha) hn
    rw [hc] at he; cases he
  union := by
    intro gs hg e he
    obtain ⟨c, hc, _⟩ := unionOf_good gs (fun g hgm => reach_good (hg g hgm))
    rw [hc] at he; cases he

/-- every parsed clause is well-formed and tidy -/
theorem parseSingle_good (p : List Char) (m : Bool) (c : VC) (h : parseSingle p m = .ok c) : GoodVC c :=
  fun r hr => ⟨parseSingle_WF m p c h r hr, (parseSingle_clause p m c h).tidy r hr⟩

theorem GoodVC.any : GoodVC VC.any := by
  intro r hr
  simp [VC.any, VC.flatten] at hr
  subst hr
  exact ⟨⟨by intro e he; simp [RC.bounds, RC.view, VRange.bounds, VRange.any, RC.min, RC.max] at he,
    by intro m M hm; simp [VRange.any] at hm⟩, ⟨fun _ => rfl, fun _ => rfl⟩⟩

/-- **`_parse_constraint` returns a well-formed tidy constraint or raises `ValueError` — every string, both
modes** -/
theorem parseConstraintAux_total (s : String) (m : Bool) :
    (∃ c, parseConstraintAux s m = .ok c ∧ GoodVC c) ∨ parseConstraintAux s m = .error .value := by
  rcases parseConstraintAux_spec' GoodVC s m (fun p _ c hc => parseSingle_good p m c hc) with
    ⟨c, hc, hsh⟩ | ⟨e, he, hb⟩
  · left
    refine ⟨c, hc, ?_⟩
    rcases hsh with rfl | hr | ⟨gs, hg, hu⟩
    · exact GoodVC.any
    · exact reach_good hr
    · obtain ⟨c', hc', hinv⟩ := unionOf_good gs (fun g hgm => reach_good (hg g hgm))
      rw [hc'] at hu; cases hu; exact hinv
  · rw [hb.value algebraTotal_good] at he; exact Or.inr he

/-! ## the same with well-formed BOUNDS only (no `min < max`), for `_inverted` -/

/-- all bounds are well-formed versions -/
def BW (l : List RC) : Prop := ∀ c ∈ l, c.wfB

theorem bounds_of_ends {u x y : RC} (hmin : u.min = x.min ∨ u.min = y.min) (hmax : u.max = x.max ∨ u.max = y.max) :
    ∀ e ∈ u.bounds, e ∈ x.bounds ∨ e ∈ y.bounds := by
  intro e he
  simp only [RC.bounds, RC.view, VRange.bounds, List.mem_append, Option.mem_toList] at he ⊢
  rcases he with he | he
  · rcases hmin with h | h
    · exact Or.inl (Or.inl (h ▸ he))
    · exact Or.inr (Or.inl (h ▸ he))
  · rcases hmax with h | h
    · exact Or.inl (Or.inr (h ▸ he))
    · exact Or.inr (Or.inr (h ▸ he))

/-- the bounds of `a.union(b)`, when it is a single member, are bounds of the operands -/
theorem rcUnionSingle_bounds (x y u : RC) (h : rcUnionSingle x y = .ok (some u)) :
    ∀ e ∈ u.bounds, e ∈ x.bounds ∨ e ∈ y.bounds := by
  cases x with
  | ver a =>
    simp only [rcUnionSingle] at h
    repeat' split at h
    all_goals first
      | (cases h; exact fun e he => Or.inr he)
      | (cases h; exact fun e he => Or.inl he)
      | (cases h; exact bounds_of_ends (Or.inr rfl) (Or.inr rfl))
      | cases h
  | rng r =>
    cases y with
    | ver v =>
      simp only [rcUnionSingle] at h
      repeat' split at h
      all_goals first
        | (cases h; exact fun e he => Or.inl he)
        | (cases h; exact bounds_of_ends (Or.inl rfl) (Or.inl rfl))
        | cases h
    | rng t =>
      simp only [rcUnionSingle, bind, Except.bind, pure, Except.pure, RC.allowsAny] at h
      split at h
      · cases h
      · simp only [Except.ok.injEq, Option.some.injEq] at h
        subst h
        apply bounds_of_ends
        · simp only [RC.min]; split <;> simp
        · simp only [RC.max]; split <;> simp

theorem rcUnionSingle_some_bw (x y : RC) (hx : x.wfB) (hy : y.wfB)
    (hnl : ∀ r v m, x = .rng r → y = .ver v → r.min = some m → ¬ vk v < vk m)
    (any : Bool) (hany : RC.allowsAny x y = .ok any)
    (hm : (!any && !(x.view.isAdjacentTo y.view)) = false) :
    ∃ u, rcUnionSingle x y = .ok (some u) ∧ (u.min = x.min ∨ u.min = y.min) := by
  cases x with
  | ver a =>
    simp only [rcUnionSingle]
    by_cases h1 : y.allows a = true
    · exact ⟨y, by simp [h1], Or.inr rfl⟩
    · simp only [h1, Bool.false_eq_true, if_false]
      -- `a.allows y.min` must hold
      have key : ∃ m, y.min = some m ∧ a.allows m = true := by
        cases hb : any with
        | true =>
          rw [hb] at hany
          cases y with
          | ver b =>
            simp only [RC.allowsAny, RC.intersect, RC.verIntersectVer, bind, Except.bind, pure, Except.pure] at hany
            by_cases h2 : a.allows b = true
            · exact ⟨b, rfl, h2⟩
            · have h3 : b.allows a = false := by simpa [RC.allows] using h1
              simp [h2, h3, VC.isEmpty] at hany
          | rng r =>
            simp only [RC.allowsAny, RC.intersect, RC.rngIntersectVer, bind, Except.bind, pure, Except.pure] at hany
            have h3 : r.allows a = false := by simpa [RC.allows] using h1
            simp only [h3, Bool.false_eq_true, if_false] at hany
            cases hm' : r.min with
            | none => simp [hm', VC.isEmpty] at hany
            | some m =>
              simp only [hm'] at hany
              by_cases h4 : (m.isLocal && a.allows m) = true
              · simp only [Bool.and_eq_true] at h4; exact ⟨m, hm', h4.2⟩
              · simp [h4, VC.isEmpty] at hany
        | false =>
          rw [hb] at hm
          simp only [Bool.not_false, Bool.true_and, Bool.not_eq_false'] at hm
          simp only [VRange.isAdjacentTo, RC.view, RC.max, RC.imax] at hm
          cases hmin : y.min with
          | none => simp [hmin, optVerEq] at hm
          | some m =>
            simp only [hmin, optVerEq] at hm
            by_cases he : Version.eqv a m = true
            · have hmwf : m.wf = true := hy m (by simp [RC.bounds, RC.view, VRange.bounds, hmin])
              exact ⟨m, rfl, Version.allows_of_vk_eq (hx a (by simp [RC.bounds_ver])) hmwf ((eqv_iff _ _).1 he).symm⟩
            · simp [he] at hm
      obtain ⟨m, hm1, hm2⟩ := key
      cases y with
      | ver b =>
        have : b = m := by simpa [RC.min] using hm1
        subst this
        exact ⟨RC.ver a, by simp [hm2], Or.inl rfl⟩
      | rng r =>
        have hm1' : r.min = some m := hm1
        exact ⟨RC.rng ⟨r.min, r.max, true, r.imax⟩, by simp [RC.min, RC.max, RC.imax, hm1', hm2], Or.inr rfl⟩
  | rng r =>
    cases y with
    | ver v =>
      simp only [rcUnionSingle]
      by_cases h1 : r.allows v = true
      · exact ⟨.rng r, by simp [h1], Or.inl rfl⟩
      · simp only [h1, Bool.false_eq_true, if_false]
        by_cases h2 : optVerEq (some v) r.min = true
        · exact ⟨.rng ⟨r.min, r.max, true, r.imax⟩, by simp [h2], Or.inl rfl⟩
        · simp only [h2, Bool.false_eq_true, if_false]
          have h3 : optVerEq (some v) r.max = true := by
            cases hb : any with
            | true =>
              rw [hb] at hany
              simp only [RC.allowsAny, Except.ok.injEq, Bool.or_eq_true] at hany
              rcases hany with hany | hany
              · exact absurd hany h1
              · cases hm' : r.min with
                | none => simp [hm'] at hany
                | some m =>
                  simp only [hm', Bool.and_eq_true] at hany
                  have hmwf : m.wf = true := hx m (by simp [RC.bounds, RC.view, VRange.bounds, RC.min, hm'])
                  have hne : Version.eqv v m = false := by
                    simpa [optVerEq, hm'] using h2
                  exact absurd (lt_of_allows_local hmwf hany.2 hany.1 hne) (hnl r v m rfl rfl hm')
            | false =>
              rw [hb] at hm
              simp only [Bool.not_false, Bool.true_and, Bool.not_eq_false'] at hm
              simp only [VRange.isAdjacentTo, RC.view, RC.min, RC.imin, RC.max, RC.imax] at hm
              cases he : optVerEq r.max (some v)
              · simp [he] at hm
              · rw [VRange.optVerEq_comm]; exact he
          exact ⟨.rng ⟨r.min, r.max, r.imin, true⟩, by simp [h3], Or.inl rfl⟩
    | rng s =>
      have hc : (!(VRange.edgesTouch r s) && (s.isStrictlyLower r || r.isStrictlyLower s)) = false := by
        cases hb : any with
        | true =>
          rw [hb] at hany
          simp only [RC.allowsAny, VRange.isStrictlyHigher, Except.ok.injEq, Bool.not_eq_true'] at hany
          simp [hany]
        | false =>
          rw [hb] at hm
          simp only [Bool.not_false, Bool.true_and, Bool.not_eq_false', RC.view_rng] at hm
          simp [isAdjacentTo_edgesTouch hm]
      refine ⟨_, VRange.rcUnionSingle_rng_some r s hc, ?_⟩
      simp only [RC.min, VRange.hull]
      cases r.allowsLower s <;> simp



/-- the merge loop on a sorted list whose bounds are well-formed versions: total, bounds preserved -/
theorem mergeLoop_total_bw : ∀ (l acc : List RC), BW (l ++ acc) → SortedLt l → MinOK acc l →
    ∃ res, mergeLoop l acc = .ok res ∧ BW res
  | [], acc, hg, _, _ => ⟨_, rfl, fun c hc => hg c (by simpa using hc)⟩
  | c :: rest, [], hg, hs, _ => by
    simp only [mergeLoop]
    refine mergeLoop_total_bw rest [c] (fun x hx => hg x (by simp at hx ⊢; grind)) (List.pairwise_cons.1 hs).2 ?_
    intro a ha y hy v m hyv hm
    simp only [List.mem_singleton] at ha; subst ha
    exact minOK_of_sorted hs y hy v m hyv hm
  | c :: rest, last :: more, hg, hs, hi => by
    obtain ⟨any, hany⟩ := RC.allowsAny_ok last c
    simp only [mergeLoop, hany, bind, Except.bind]
    have hl : last ∈ (c :: rest) ++ last :: more := by simp
    have hc : c ∈ (c :: rest) ++ last :: more := by simp
    have hs' : SortedLt rest := (List.pairwise_cons.1 hs).2
    have hi' : MinOK (last :: more) rest := fun a ha y hy => hi a ha y (List.mem_cons_of_mem _ hy)
    by_cases hb : (!any && !(last.view.isAdjacentTo c.view)) = true
    · simp only [hb, if_true]
      refine mergeLoop_total_bw rest (c :: last :: more) (fun x hx => hg x (by simp at hx ⊢; grind)) hs' ?_
      intro a ha y hy v m hyv hm
      rcases List.mem_cons.1 ha with rfl | ha
      · exact minOK_of_sorted hs y hy v m hyv hm
      · exact hi' a ha y hy v m hyv hm
    · simp only [hb, Bool.false_eq_true, if_false]
      simp only [Bool.not_eq_true] at hb
      obtain ⟨u, hu, humin⟩ := rcUnionSingle_some_bw last c (hg last hl) (hg c hc)
        (by
          intro r v m hr hv hm
          exact hi last (by simp) c (by simp) v m hv (by rw [hr]; exact hm))
        any hany hb
      simp only [hu]
      have hub := rcUnionSingle_bounds last c u hu
      have hg' : BW (rest ++ u :: more) := by
        intro x hx
        simp only [List.mem_append, List.mem_cons] at hx
        rcases hx with hx | rfl | hx
        · exact hg x (by simp [hx])
        · intro e he
          rcases hub e he with h | h
          · exact hg last hl e h
          · exact hg c hc e h
        · exact hg x (by simp [hx])
      refine mergeLoop_total_bw rest (u :: more) hg' hs' ?_
      intro a ha y hy v m hyv hm
      rcases List.mem_cons.1 ha with rfl | ha
      · rcases humin with h | h
        · exact hi' last (by simp) y hy v m hyv (h ▸ hm)
        · exact minOK_of_sorted hs y hy v m hyv (h ▸ hm)
      · exact hi' a (List.mem_cons_of_mem _ ha) y hy v m hyv hm

/-- **`VersionUnion.of` is total whenever all bounds are well-formed versions** — degenerate members included;
a union result has at least one member -/
theorem unionOfFlat_total_bw (l : List RC) (hg : BW l) :
    ∃ res, unionOfFlat l = .ok res ∧ BW res.flatten ∧ ∀ ds, res = .union ds → ds ≠ [] := by
  unfold unionOfFlat
  by_cases h1 : l.isEmpty = true
  · exact ⟨.empty, by simp [h1], by intro c hc; simp [VC.flatten] at hc, by intro ds h; cases h⟩
  · by_cases h2 : l.any RC.isAny = true
    · refine ⟨VC.any, by simp [h1, h2], ?_, by intro ds h; cases h⟩
      intro c hc
      simp [VC.any, VC.flatten] at hc; subst hc
      intro e he; simp [RC.bounds, RC.view, VRange.bounds, VRange.any, RC.min, RC.max] at he
    · obtain ⟨merged, hm, hbw⟩ := mergeLoop_total_bw (sortRCs l) []
        (fun c hc => hg c (by simpa [mem_sortRCs] using hc)) (sortRCs_sorted l).1
        (by intro a ha; simp at ha)
      have hne : merged ≠ [] := mergeLoop_ne_nil (sortRCs l) [] merged hm (by
        cases hl : l with
        | nil => simp [hl] at h1
        | cons a as =>
          intro h
          have : a ∈ sortRCs (a :: as) := (mem_sortRCs a _).2 (by simp)
          simp only [List.append_nil] at h
          rw [h] at this; cases this)
      simp only [h1, h2, Bool.false_eq_true, if_false, hm, bind, Except.bind]
      cases merged with
      | nil => exact absurd rfl hne
      | cons a as =>
        cases as with
        | nil =>
          exact ⟨_, rfl, by simpa [VC.flatten] using hbw, by intro ds h; cases h⟩
        | cons b bs =>
          exact ⟨_, rfl, by simpa [VC.flatten] using hbw, by intro ds h; cases h; simp⟩

/-! ## `_inverted` is total -/

theorem wfB_min {c : RC} (h : c.wfB) {m : Version} (hm : c.min = some m) : m.wf = true :=
  h m (by simp [RC.bounds, RC.view, VRange.bounds, hm])

theorem wfB_max {c : RC} (h : c.wfB) {m : Version} (hm : c.max = some m) : m.wf = true :=
  h m (by simp [RC.bounds, RC.view, VRange.bounds, hm])

theorem wfB_rng_of (mn mx : Option Version) (i j : Bool) (h1 : ∀ m, mn = some m → m.wf = true)
    (h2 : ∀ m, mx = some m → m.wf = true) : (RC.rng ⟨mn, mx, i, j⟩).wfB := by
  intro e he
  simp only [RC.bounds, RC.view, VRange.bounds, RC.min, RC.max, List.mem_append, Option.mem_toList] at he
  rcases he with he | he
  · exact h1 e he
  · exact h2 e he

theorem bw_single {c : RC} (h : c.wfB) : BW (VC.single c).flatten := by
  intro x hx; simp [VC.flatten] at hx; subst hx; exact h

theorem bw_pair {x y : RC} (hx : x.wfB) (hy : y.wfB) : BW [x, y] := by
  intro c hc
  simp only [List.mem_cons, List.mem_nil_iff, or_false] at hc
  rcases hc with rfl | rfl
  · exact hx
  · exact hy

/-- what a difference step may return: members over well-formed bounds; a union has a member -/
def DiffOK (d : VC) : Prop := BW d.flatten ∧ ∀ ds, d = .union ds → ds ≠ []

theorem diffOK_empty : DiffOK .empty := ⟨by intro c hc; simp [VC.flatten] at hc, by intro ds h; cases h⟩
theorem diffOK_single {c : RC} (h : c.wfB) : DiffOK (.single c) := ⟨bw_single h, by intro ds h; cases h⟩

/-- **`a.difference(b)` for two members is total whenever all bounds are well-formed versions** — no
`min < max`, no regularity, local labels allowed -/
theorem difference_total_bw (cur r : RC) (hc : cur.wfB) (hr : r.wfB) :
    ∃ d, RC.difference cur r = .ok d ∧ DiffOK d := by
  cases cur with
  | ver a =>
    simp only [RC.difference, RC.verDifference]
    split
    · exact ⟨_, rfl, diffOK_empty⟩
    · exact ⟨_, rfl, diffOK_single hc⟩
  | rng a =>
    cases r with
    | ver v =>
      have hv : v.wf = true := hr v (by simp [RC.bounds_ver])
      simp only [RC.difference, RC.rngDifferenceVer]
      split
      · exact ⟨_, rfl, diffOK_single hc⟩
      · split
        · split
          · exact ⟨_, rfl, diffOK_single hc⟩
          · exact ⟨_, rfl, diffOK_single (wfB_rng_of _ _ _ _ (fun m hm => wfB_min hc hm) (fun m hm => wfB_max hc hm))⟩
        · split
          · split
            · exact ⟨_, rfl, diffOK_single hc⟩
            · exact ⟨_, rfl, diffOK_single (wfB_rng_of _ _ _ _ (fun m hm => wfB_min hc hm) (fun m hm => wfB_max hc hm))⟩
          · obtain ⟨res, h1, h2, h3⟩ := unionOfFlat_total_bw
              [.rng ⟨a.min, some v, a.imin, false⟩, .rng ⟨some v, a.max, false, a.imax⟩]
              (bw_pair (wfB_rng_of _ _ _ _ (fun m hm => wfB_min hc hm) (fun m hm => by cases hm; exact hv))
                (wfB_rng_of _ _ _ _ (fun m hm => by cases hm; exact hv) (fun m hm => wfB_max hc hm)))
            exact ⟨res, h1, h2, h3⟩
    | rng b =>
      simp only [RC.difference]
      rw [VRange.rngDifferenceRng_eq]
      obtain ⟨o1, h1, s1⟩ := beforePiece_ok a b
      obtain ⟨o2, h2, s2⟩ := afterPiece_ok a b
      have w1 : ∀ x, o1 = some x → x.wfB := by
        intro x hx
        rcases s1 with h | ⟨m, hm, h⟩ | h
        · rw [h] at hx; cases hx
        · rw [h] at hx; cases hx
          intro e he; simp [RC.bounds_ver] at he; subst he; exact wfB_min hc hm
        · rw [h] at hx; cases hx
          exact wfB_rng_of _ _ _ _ (fun m hm => wfB_min hc hm) (fun m hm => wfB_min hr hm)
      have w2 : ∀ x, o2 = some x → x.wfB := by
        intro x hx
        rcases s2 with h | ⟨m, hm, h⟩ | h
        · rw [h] at hx; cases hx
        · rw [h] at hx; cases hx
          intro e he; simp [RC.bounds_ver] at he; subst he; exact wfB_max hc hm
        · rw [h] at hx; cases hx
          exact wfB_rng_of _ _ _ _ (fun m hm => wfB_max hr hm) (fun m hm => wfB_max hc hm)
      simp only [RC.allowsAny, bind, Except.bind, h1, h2, pure, Except.pure]
      split
      · exact ⟨_, rfl, diffOK_single hc⟩
      · cases o1 with
        | none =>
          cases o2 with
          | none => exact ⟨_, rfl, diffOK_empty⟩
          | some y => exact ⟨_, rfl, diffOK_single (w2 y rfl)⟩
        | some x =>
          cases o2 with
          | none => exact ⟨_, rfl, diffOK_single (w1 x rfl)⟩
          | some y =>
            obtain ⟨res, e1, e2, e3⟩ := unionOfFlat_total_bw [x, y] (bw_pair (w1 x rfl) (w2 y rfl))
            exact ⟨res, e1, e2, e3⟩

theorem finish_total_bw (cur : RC) (ranges : List RC) (hc : cur.wfB) (hg : BW ranges) :
    ∃ res, VC.rngDiffFinish cur ranges = .ok res := by
  unfold VC.rngDiffFinish
  split
  · exact ⟨_, rfl⟩
  · obtain ⟨res, h, _⟩ := unionOfFlat_total_bw (ranges ++ [cur]) (by
      intro c hcm
      simp only [List.mem_append, List.mem_singleton] at hcm
      rcases hcm with h | rfl
      · exact hg c h
      · exact hc)
    exact ⟨res, h⟩

/-- **`VersionRange.difference(VersionUnion)` always returns** when all bounds are well-formed versions -/
theorem rngDiffUnionLoop_total_bw : ∀ (rs : List RC) (cur : RC) (ranges : List RC),
    BW rs → cur.wfB → BW ranges → ∃ res, VC.rngDiffUnionLoop rs cur ranges = .ok res
  | [], cur, ranges, _, hc, hg => by
    simp only [VC.rngDiffUnionLoop]; exact finish_total_bw cur ranges hc hg
  | r :: rest, cur, ranges, hrs, hc, hg => by
    have hr : r.wfB := hrs r (by simp)
    have hrest : BW rest := fun c hcm => hrs c (by simp [hcm])
    simp only [VC.rngDiffUnionLoop]
    split
    · exact rngDiffUnionLoop_total_bw rest cur ranges hrest hc hg
    · split
      · exact finish_total_bw cur ranges hc hg
      · obtain ⟨d, hd, hbw, hne⟩ := difference_total_bw cur r hc hr
        simp only [hd, bind, Except.bind]
        cases d with
        | empty =>
          obtain ⟨res, h, _⟩ := unionOfFlat_total_bw ranges hg
          exact ⟨res, h⟩
        | single x =>
          exact rngDiffUnionLoop_total_bw rest x ranges hrest (hbw x (by simp [VC.flatten])) hg
        | union ds =>
          cases ds with
          | nil => exact absurd rfl (hne [] rfl)
          | cons d0 tl =>
            have hl : (d0 :: tl).getLast? = some ((d0 :: tl).getLast (by simp)) := List.getLast?_eq_some_getLast _
            simp only [List.head?_cons, hl]
            refine rngDiffUnionLoop_total_bw rest _ (ranges ++ [d0]) hrest
              (hbw _ (by simp only [VC.flatten]; exact List.getLast_mem _)) ?_
            intro c hcm
            simp only [List.mem_append, List.mem_singleton] at hcm
            rcases hcm with h | rfl
            · exact hg c h
            · exact hbw c (by simp [VC.flatten])

/-- **`VersionUnion._inverted` always returns** when all bounds are well-formed versions -/
theorem inverted_total_bw (rs : List RC) (h : BW rs) : ∃ res, VC.inverted rs = .ok res :=
  rngDiffUnionLoop_total_bw rs (.rng VRange.any) [] h
    (by intro e he; simp [RC.bounds, RC.view, VRange.bounds, VRange.any, RC.min, RC.max] at he)
    (by intro c hc; cases hc)

/-- **every constraint whose bounds are well-formed versions prints** -/
theorem toStr_total_bw (c : VC) (h : BW c.flatten) : ∃ t, c.toStr = .ok t := by
  cases c with
  | empty => exact ⟨_, rfl⟩
  | single d => exact VC.single_toStr_ok d
  | union rs =>
    obtain ⟨res, hres⟩ := inverted_total_bw rs h
    exact VC.union_toStr_ok rs res hres

theorem GoodVC.bw {c : VC} (h : GoodVC c) : BW c.flatten := fun r hr => (h r hr).1.wfB

end Poetry.ParserTotal
