/-
`Dependency.create_from_pep_508 ∘ to_pep_508` on registry dependencies: the printed text is laid out as the pieces
the recogniser theorem of Proofs/ReqPrint.lean reads back, and the dispatch rebuilds the dependency from them.
-/
import PoetryVerif.Proofs.ReqPrint

set_option linter.unusedSimpArgs false
set_option linter.unusedVariables false

namespace Poetry.Dep
open Poetry Poetry.Marker Poetry.Req

/-! ### comment stripping and `strip()` are the identity on printed text -/

/-- no ` #` in the text (the complement of the known finding `marker-literal-with-blank-hash-cut-as-comment`) -/
def NoComment (l : List Char) : Prop := splitOnceL [' ', '#'] l = (l, none)

theorem noComment_of_noHash (l : List Char) (h : ∀ c ∈ l, c ≠ '#') : NoComment l := by
  unfold NoComment
  induction l with
  | nil => rfl
  | cons c cs ih =>
    have ih' := ih (fun x hx => h x (by simp [hx]))
    have hp : stripPrefix? [' ', '#'] (c :: cs) = none := by
      cases cs with
      | nil => simp [stripPrefix?]
      | cons c2 cs2 =>
        have : c2 ≠ '#' := h c2 (by simp)
        by_cases hc : c = ' '
        · subst hc; simp [stripPrefix?, this, Ne.symm this]
        · simp [stripPrefix?, hc, Ne.symm hc]
    simp [splitOnceL, hp, ih']

/-- first and last character are not white space -/
def Trimmed (l : List Char) : Prop :=
  (∃ c r, l = c :: r ∧ isSpace c = false) ∧ (∃ p z, l = p ++ [z] ∧ isSpace z = false)

theorem stripL_trimmed (l : List Char) (h : Trimmed l) : stripL l = l := by
  obtain ⟨⟨c, r, hcr, hc⟩, ⟨p, z, hpz, hz⟩⟩ := h
  unfold stripL
  have h1 : dropSpaces l = l := by rw [hcr]; simp [dropSpaces, hc]
  rw [h1]
  have h2 : l.reverse = z :: p.reverse := by rw [hpz]; simp
  rw [h2]
  simp [dropSpaces, hz]
  rw [hpz]

theorem stripComment_id (l : List Char) (hn : NoComment l) (ht : Trimmed l) : stripComment l = l := by
  unfold stripComment
  rw [hn]
  exact stripL_trimmed l ht

/-! ### strings and character lists -/

theorem joinWith_toList (sep : String) : ∀ (l : List String), (joinWith sep l).toList =
    (match l with | [] => [] | _ => (joinWith sep l).toList)
  | [] => rfl
  | _ :: _ => rfl

theorem joinWith_comma_ofList : ∀ (ts : List (List Char)),
    joinWith "," (ts.map String.ofList) = String.ofList (commaJoin ts)
  | [] => by simp [joinWith, commaJoin]
  | [t] => by simp [joinWith, commaJoin]
  | t :: u :: r => by
    have ih := joinWith_comma_ofList (u :: r)
    simp only [List.map_cons] at ih
    simp only [List.map_cons, joinWith, commaJoin, ih]
    apply String.toList_inj.mp
    simp [String.toList_append, String.toList_ofList]

theorem joinWith_comma_chars : ∀ (fs : List String),
    (joinWith "," fs).toList = commaJoin (fs.map String.toList)
  | [] => by simp [joinWith, commaJoin]
  | [t] => by simp [joinWith, commaJoin]
  | t :: u :: r => by
    have ih := joinWith_comma_chars (u :: r)
    simp only [List.map_cons] at ih
    simp [joinWith, commaJoin, String.toList_append, ih]

theorem featureSuffix_chars (fs : List String) : (featureSuffix fs).toList = extrasText (fs.map String.toList) := by
  cases fs with
  | nil => simp [featureSuffix, extrasText]
  | cons f r =>
    simp [featureSuffix, extrasText, String.toList_append, joinWith_comma_chars]

theorem ident_noColon {n : List Char} (h : Ident n) : n.contains ':' = false := by
  obtain ⟨c, r, rfl, hc, hr⟩ := h
  simp only [List.contains_eq_mem, List.mem_cons, decide_eq_false_iff_not, not_or]
  constructor
  · intro e; subst e; simp [isAlnum, isDigit, isLowerAlpha] at hc
  · intro hm
    have := hr ':' hm
    simp [isNameChar, isAlnum, isDigit, isLowerAlpha] at this

/-! ### the re-parse, as an equation -/

/-- `",".join(children)` of the `version_specification` node, `"*"` without one -/
def ctextOf (ts : List (List Char)) : String :=
  match ts with
  | [] => "*"
  | _ => String.ofList (commaJoin ts)

/-- the marker of the rebuilt dependency: `AnyMarker` without marker text, else what `_compact_markers` builds -/
def RebuiltMarker (so : Option Syn) (m : M) : Prop :=
  match so with
  | none => m = .any
  | some syn => compactTop syn = .ok m

/-- what `create_from_pep_508` does with the pieces of a printed registry requirement -/
def rebuildRegistry (name : List Char) (es ts : List (List Char)) (so : Option Syn) : PyM Dep := do
  let c ← VParser.parseConstraint (ctextOf ts)
  let m ← (match so with
    | some syn => (compactTop syn).map some
    | none => pure none)
  let d ← mkRegistry (String.ofList name) c (es.map String.ofList)
  match m with
  | some m => d.setMarker m
  | none => pure d

/-- **`create_from_pep_508` on a printed registry requirement**: recogniser (proved), `Requirement.__init__` and the
dispatch reduce to `rebuildRegistry` on the printed pieces -/
theorem createFromPep508_registry (t : String) (name : List Char) (es ts : List (List Char)) (mo : Option (List Char))
    (so : Option Syn) (htxt : t.toList = name ++ extrasText es ++ specsText ts ++ markerText mo)
    (hn : Ident name) (he : ∀ e ∈ es, Ident e) (ht : ∀ x ∈ ts, SpecTok x)
    (hm : TailOK mo so)
    (hnc : NoComment t.toList) (htr : Trimmed t.toList) :
    createFromPep508 t = rebuildRegistry name es ts so := by
  unfold createFromPep508 createFromPep508L
  rw [stripComment_id _ hnc htr, htxt]
  unfold Req.parseL
  rw [parseRaw_registry name es ts mo so hn he ht hm]
  have hurl : isUrlName (String.ofList name) = false := by
    have hc := ident_noColon hn
    unfold isUrlName
    rw [String.toList_ofList, hc]
    rfl
  cases ts with
  | nil =>
    cases so with
    | none =>
      simp only [ofRaw, mkRaw, Option.map, constraintTextOf, rebuildRegistry, ctextOf, bind, Except.bind, pure, Except.pure]
      cases hc : VParser.parseConstraint "*" with
      | error e => simp
      | ok c => simp [fromReq, hurl, bind, Except.bind, pure, Except.pure]
    | some syn =>
      simp only [ofRaw, mkRaw, Option.map, constraintTextOf, rebuildRegistry, ctextOf, bind, Except.bind, pure, Except.pure]
      cases hc : VParser.parseConstraint "*" with
      | error e => simp
      | ok c =>
        cases hcm : compactTop syn with
        | error e => simp [Except.map]
        | ok m =>
          simp [Except.map, fromReq, hurl, bind, Except.bind, pure, Except.pure]
  | cons x xs =>
    have hj : joinWith "," ((x :: xs).map String.ofList) = String.ofList (commaJoin (x :: xs)) := joinWith_comma_ofList _
    cases so with
    | none =>
      simp only [ofRaw, mkRaw, Option.map, constraintTextOf, rebuildRegistry, ctextOf, bind, Except.bind, pure, Except.pure, hj]
      cases hc : VParser.parseConstraint (String.ofList (commaJoin (x :: xs))) with
      | error e => simp
      | ok c => simp [fromReq, hurl, bind, Except.bind, pure, Except.pure]
    | some syn =>
      simp only [ofRaw, mkRaw, Option.map, constraintTextOf, rebuildRegistry, ctextOf, bind, Except.bind, pure, Except.pure, hj]
      cases hc : VParser.parseConstraint (String.ofList (commaJoin (x :: xs))) with
      | error e => simp
      | ok c =>
        cases hcm : compactTop syn with
        | error e => simp [Except.map]
        | ok m =>
          simp [Except.map, fromReq, hurl, bind, Except.bind, pure, Except.pure]

/-! ### what the rebuilt dependency is -/

theorem setMarker_fields (d d' : Dep) (m : M) (h : d.setMarker m = .ok d') :
    d'.spec = d.spec ∧ d'.kind = d.kind ∧ d'.constraint = d.constraint ∧ d'.marker = m := by
  unfold Dep.setMarker at h
  simp only [bind, Except.bind, pure, Except.pure] at h
  cases h1 : convertMarkersFor "extra" m with
  | error e => simp [h1] at h
  | ok ex =>
    simp only [h1] at h
    cases h2 : convertMarkersFor "python_version" m with
    | error e => simp [h2] at h
    | ok py =>
      simp only [h2] at h
      cases ex <;> cases py <;> simp only [] at h <;>
        (repeat' split at h) <;> first | (cases h; exact ⟨rfl, rfl, rfl, rfl⟩) | (cases h)

theorem mkRegistry_fields (n : String) (c : VC) (es : List String) (d : Dep) (h : mkRegistry n c es = .ok d) :
    d.spec.name = canonName n ∧ d.spec.features = normFeatures es ∧ d.kind = .registry ∧ d.spec.sourceType = none ∧
    d.constraint = c ∧ d.marker = .any := by
  simp only [mkRegistry, Spec.make, normalizeSourceUrl, truthy, mkDep, bind, Except.bind, pure, Except.pure,
    Bool.false_and, Bool.false_eq_true, if_false] at h
  cases hs : c.toStr with
  | error e => simp [hs] at h
  | ok s => simp only [hs] at h; cases h; exact ⟨rfl, rfl, rfl, rfl, rfl, rfl⟩

/-- the dependency `rebuildRegistry` returns: normalised name and extras of the printed pieces, a registry dependency
without source, the constraint the version parser reads from the printed tokens, and the marker `_compact_markers`
builds from the printed marker's tree -/
theorem rebuildRegistry_ok (name : List Char) (es ts : List (List Char)) (so : Option Syn) (d' : Dep)
    (h : rebuildRegistry name es ts so = .ok d') :
    d'.spec.name = canonName (String.ofList name) ∧ d'.spec.features = normFeatures (es.map String.ofList) ∧
    d'.kind = .registry ∧ d'.spec.sourceType = none ∧
    VParser.parseConstraint (ctextOf ts) = .ok d'.constraint ∧ RebuiltMarker so d'.marker := by
  unfold rebuildRegistry at h
  simp only [bind, Except.bind, pure, Except.pure] at h
  cases hc : VParser.parseConstraint (ctextOf ts) with
  | error e => simp [hc] at h
  | ok c =>
    simp only [hc] at h
    cases so with
    | none =>
      simp only [] at h
      cases hm : mkRegistry (String.ofList name) c (es.map String.ofList) with
      | error e => simp [hm] at h
      | ok d0 =>
        simp only [hm] at h
        cases h
        obtain ⟨a1, a2, a3, a4, a5, a6⟩ := mkRegistry_fields _ _ _ _ hm
        exact ⟨a1, a2, a3, a4, by rw [a5], a6⟩
    | some syn =>
      simp only [Except.map] at h
      cases hcm : compactTop syn with
      | error e => simp [hcm] at h
      | ok m =>
        simp only [hcm] at h
        cases hm : mkRegistry (String.ofList name) c (es.map String.ofList) with
        | error e => simp [hm] at h
        | ok d0 =>
          simp only [hm] at h
          obtain ⟨a1, a2, a3, a4, a5, _⟩ := mkRegistry_fields _ _ _ _ hm
          obtain ⟨b1, b2, b3, b4⟩ := setMarker_fields d0 d' m h
          exact ⟨by rw [b1, a1], by rw [b1, a2], by rw [b2, a3], by rw [b1, a4], by rw [b3, a5], by rw [b4]; exact hcm⟩

/-! ### the printed text of a registry dependency -/

/-- well-formedness of a registry dependency for the text round trip -/
structure RegWF (d : Dep) : Prop where
  kind : d.kind = .registry
  src : d.spec.sourceType = none
  name : d.spec.name = canonName d.spec.prettyName
  ident : Ident d.spec.prettyName.toList
  feats : normFeatures d.spec.features = d.spec.features
  featIdent : ∀ f ∈ d.spec.features, Ident f.toList
  inExtras : d.inExtras = []

/-- the ` (constraint)` part of the printed text is a parenthesised list of printed spec tokens (`ts = []`: the
dependency has no constraint part) -/
def CBody (d : Dep) (ts : List (List Char)) : Prop :=
  ∃ sfx, constraintSuffix d.constraint d.prettyConstraint = .ok sfx ∧ sfx.toList = specsText ts ∧ ∀ x ∈ ts, SpecTok x

/-- the printed marker text: `str(marker)`, with its first character not a blank and its last not white space -/
structure MText (m : M) (mt : String) (syn : Syn) : Prop where
  str : m.toStr = .ok mt
  ok : MarkerOK mt.toList syn
  last : ∃ p z, mt.toList = p ++ [z] ∧ isSpace z = false

theorem alnum_nonspace {c : Char} (hc : isAlnum c = true) : isSpace c = false := by
  cases hsp : isSpace c with
  | false => rfl
  | true =>
    exfalso
    simp only [isAlnum, isDigit, isLowerAlpha, Bool.or_eq_true, Bool.and_eq_true, decide_eq_true_eq] at hc
    simp only [isSpace, Bool.or_eq_true, beq_iff_eq, Bool.and_eq_true, decide_eq_true_eq] at hsp
    have l1 : ∀ a b : Char, a ≤ b ↔ a.toNat ≤ b.toNat := fun a b => Iff.rfl
    simp only [l1] at hc
    have e0 : '0'.toNat = 48 := rfl
    have e9 : '9'.toNat = 57 := rfl
    have ea : 'a'.toNat = 97 := rfl
    have ez : 'z'.toNat = 122 := rfl
    have eA : 'A'.toNat = 65 := rfl
    have eZ : 'Z'.toNat = 90 := rfl
    rw [e0, e9, ea, ez, eA, eZ] at hc
    omega

theorem nameChar_nonspace {c : Char} (hc : isNameChar c = true) : isSpace c = false := by
  by_cases h1 : c = '-'
  · subst h1; decide
  · by_cases h2 : c = '_'
    · subst h2; decide
    · by_cases h3 : c = '.'
      · subst h3; decide
      · have : isAlnum c = true := by simpa [isNameChar, h1, h2, h3] using hc
        exact alnum_nonspace this

theorem ident_trim {n : List Char} (h : Ident n) : (∃ c r, n = c :: r ∧ isSpace c = false) ∧ (∃ p z, n = p ++ [z] ∧ isSpace z = false) := by
  obtain ⟨c, r, rfl, hc, hr⟩ := h
  have hcs : isSpace c = false := alnum_nonspace hc
  refine ⟨⟨c, r, rfl, hcs⟩, ?_⟩
  cases hr' : r.reverse with
  | nil =>
    have : r = [] := by simpa using hr'
    subst this
    exact ⟨[], c, rfl, hcs⟩
  | cons z p =>
    have hrz : r = p.reverse ++ [z] := by
      have := congrArg List.reverse hr'
      simpa using this
    exact ⟨c :: p.reverse, z, by rw [hrz]; simp, nameChar_nonspace (hr z (by rw [hrz]; simp))⟩

theorem printed_trimmed (name : List Char) (es ts : List (List Char)) (mo : Option (List Char)) (hn : Ident name)
    (hm : ∀ m, mo = some m → ∃ p z, m = p ++ [z] ∧ isSpace z = false) :
    Trimmed (name ++ extrasText es ++ specsText ts ++ markerText mo) := by
  obtain ⟨⟨c, r, hcr, hc⟩, ⟨p, z, hpz, hz⟩⟩ := ident_trim hn
  refine ⟨⟨c, r ++ extrasText es ++ specsText ts ++ markerText mo, by rw [hcr]; simp, hc⟩, ?_⟩
  cases mo with
  | some m =>
    obtain ⟨p', z', hm', hz'⟩ := hm m rfl
    exact ⟨name ++ extrasText es ++ specsText ts ++ ' ' :: ';' :: ' ' :: p', z', by simp [markerText, hm'], hz'⟩
  | none =>
    cases ts with
    | cons t ts' =>
      exact ⟨name ++ extrasText es ++ ' ' :: '(' :: commaJoin (t :: ts'), ')', by simp [markerText, specsText], by decide⟩
    | nil =>
      cases es with
      | cons e es' =>
        exact ⟨name ++ '[' :: commaJoin (e :: es'), ']', by simp [markerText, specsText, extrasText], by decide⟩
      | nil => exact ⟨p, z, by simp [markerText, specsText, extrasText, hpz], hz⟩

theorem map_ofList_toList (fs : List String) : (fs.map String.toList).map String.ofList = fs := by
  induction fs with
  | nil => rfl
  | cons f r ih => simp [ih, String.ofList_toList]

/-- **printing a registry dependency without marker and parsing the text back**: `to_pep_508` succeeds and
`create_from_pep_508` of its text is `rebuildRegistry` on the dependency's own pieces -/
theorem registry_print_reparse_nomarker (d : Dep) (ts : List (List Char)) (h : RegWF d) (hb : CBody d ts)
    (hany : d.marker.isAny = true) (hpy : d.pythonVersions = "*")
    (hnc : ∀ t, d.toPep508 = .ok t → NoComment t.toList) :
    ∃ t, d.toPep508 = .ok t ∧
      createFromPep508 t = rebuildRegistry d.spec.prettyName.toList (d.spec.features.map String.toList) ts none := by
  obtain ⟨sfx, hs, hsl, htok⟩ := hb
  have hbase : d.basePep508Name = .ok (d.spec.completePrettyName ++ sfx) := by
    simp [Dep.basePep508Name, h.kind, hs, bind, Except.bind, pure, Except.pure]
  have htp : d.toPep508 = .ok (d.spec.completePrettyName ++ sfx) := by
    simp [Dep.toPep508, hbase, hany, hpy, h.inExtras, joinWith, bind, Except.bind, pure, Except.pure]
  refine ⟨_, htp, ?_⟩
  have hchars : (d.spec.completePrettyName ++ sfx).toList =
      d.spec.prettyName.toList ++ extrasText (d.spec.features.map String.toList) ++ specsText ts ++ markerText none := by
    simp [Spec.completePrettyName, String.toList_append, featureSuffix_chars, hsl, markerText]
  apply createFromPep508_registry _ _ _ _ none none hchars h.ident
  · intro e he
    obtain ⟨f, hf, rfl⟩ := List.mem_map.mp he
    exact h.featIdent f hf
  · exact htok
  · trivial
  · exact hnc _ htp
  · rw [hchars]; exact printed_trimmed _ _ _ none h.ident (by intro m hm; cases hm)

/-- … and with a marker: the text is `base ; str(marker)` -/
theorem registry_print_reparse_marker (d : Dep) (ts : List (List Char)) (h : RegWF d) (hb : CBody d ts)
    (hany : d.marker.isAny = false) (hne : d.marker.isEmpty = false) (mt : String) (syn : Syn)
    (hm : MText d.marker mt syn) (ex : Option (List (List (String × String))))
    (hx : convertMarkersFor "extra" d.marker = .ok ex)
    (hnc : ∀ t, d.toPep508 = .ok t → NoComment t.toList) :
    ∃ t, d.toPep508 = .ok t ∧
      createFromPep508 t = rebuildRegistry d.spec.prettyName.toList (d.spec.features.map String.toList) ts (some syn) := by
  obtain ⟨sfx, hs, hsl, htok⟩ := hb
  have hbase : d.basePep508Name = .ok (d.spec.completePrettyName ++ sfx) := by
    simp [Dep.basePep508Name, h.kind, hs, bind, Except.bind, pure, Except.pure]
  have htp : d.toPep508 = .ok (d.spec.completePrettyName ++ sfx ++ " ; " ++ mt) := by
    simp [Dep.toPep508, hbase, hany, hne, hm.str, hx, h.inExtras, joinWith, bind, Except.bind, pure, Except.pure]
  refine ⟨_, htp, ?_⟩
  have hchars : (d.spec.completePrettyName ++ sfx ++ " ; " ++ mt).toList =
      d.spec.prettyName.toList ++ extrasText (d.spec.features.map String.toList) ++ specsText ts ++ markerText (some mt.toList) := by
    simp [Spec.completePrettyName, String.toList_append, featureSuffix_chars, hsl, markerText]
  apply createFromPep508_registry _ _ _ _ (some mt.toList) (some syn) hchars h.ident
  · intro e he
    obtain ⟨f, hf, rfl⟩ := List.mem_map.mp he
    exact h.featIdent f hf
  · exact htok
  · exact hm.ok
  · exact hnc _ htp
  · rw [hchars]; exact printed_trimmed _ _ _ _ h.ident (by intro m hm'; cases hm'; exact hm.last)

end Poetry.Dep
