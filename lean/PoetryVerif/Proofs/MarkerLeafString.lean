/-
String variables beyond `==`/`!=` (helper lemmas for C06): reversed operands `"lit" in name` (substring) and
`in` / `not in` lists (membership by token): `re.split` across pieces, the lazy scans of both
`STR_CMP_CONSTRAINT` matchers, `splitListValue` against the reference's `tokens`.
-/
import PoetryVerif.Proofs.MarkerLeaf

set_option linter.unusedSimpArgs false
set_option linter.unusedVariables false

namespace Poetry.Marker
open Poetry
open Poetry.Generic (GC GS)

/-! ### substring test: the model's and the reference's coincide -/

theorem stripPrefix?_isSome (p s : List Char) : (stripPrefix? p s).isSome = p.isPrefixOf s := by
  induction p generalizing s with
  | nil => simp [stripPrefix?]
  | cons a as ih =>
    cases s with
    | nil => simp [stripPrefix?]
    | cons c cs =>
      simp only [stripPrefix?, List.isPrefixOf]
      by_cases h : a = c
      · subst h; simp [ih]
      · simp [h]

theorem isInfixL_eq_isInfix (p s : List Char) : Generic.isInfixL p s = Spec.Pep508.isInfix p s := by
  induction s with
  | nil => simp [Generic.isInfixL, Spec.Pep508.isInfix]
  | cons c cs ih => simp [Generic.isInfixL, Spec.Pep508.isInfix, ih, stripPrefix?_isSome]

/-! ### `re.split` across a piece that cannot host a separator -/

/-- no separator match can start inside the piece, whatever follows it -/
def PieceOk (sep : List Char → Option (List Char)) (piece : List Char) : Prop :=
  ∀ t, t ≠ [] → t <:+ piece → ∀ rest, sep (t ++ rest) = none

theorem splitBy_piece (sep : List Char → Option (List Char)) :
    ∀ (piece : List Char), PieceOk sep piece → ∀ (m : Nat) (rest acc : List Char),
      Generic.splitBy sep (piece.length + m) (piece ++ rest) acc = Generic.splitBy sep m rest (piece.reverse ++ acc) := by
  intro piece
  induction piece with
  | nil => intro _ m rest acc; simp
  | cons c p ih =>
    intro hok m rest acc
    have h1 : sep ((c :: p) ++ rest) = none := hok (c :: p) (by simp) (List.suffix_refl _) rest
    have hok' : PieceOk sep p := fun t ht hs rest' => hok t ht (hs.trans (List.suffix_cons c p)) rest'
    have e : (c :: p).length + m = (p.length + m) + 1 := by simp; omega
    rw [e]
    simp only [List.cons_append] at h1 ⊢
    rw [Generic.splitBy, h1]
    simp only
    rw [ih hok' m rest (c :: acc)]
    simp

theorem PieceOk_nil (sep : List Char → Option (List Char)) : PieceOk sep [] := by
  intro t ht hs; exact absurd (List.suffix_nil.1 hs) ht

theorem PieceOk_cons (sep : List Char → Option (List Char)) (c : Char) (p : List Char)
    (h : ∀ rest, sep (c :: (p ++ rest)) = none) (hp : PieceOk sep p) : PieceOk sep (c :: p) := by
  intro t ht hs rest
  rcases List.suffix_cons_iff.1 hs with rfl | hs
  · exact h rest
  · exact hp t ht hs rest

theorem PieceOk_plain_append (sep : List Char → Option (List Char)) (P : Char → Prop)
    (hsep : ∀ c cs, P c → sep (c :: cs) = none) :
    ∀ (pre p : List Char), (∀ c ∈ pre, P c) → PieceOk sep p → PieceOk sep (pre ++ p) := by
  intro pre
  induction pre with
  | nil => intro p _ hp; simpa using hp
  | cons c pre ih =>
    intro p hpre hp
    exact PieceOk_cons sep c (pre ++ p) (fun rest => hsep c _ (hpre c (by simp)))
      (ih p (fun d hd => hpre d (List.mem_cons_of_mem _ hd)) hp)

theorem reSplit_of_PieceOk (sep : List Char → Option (List Char)) (l : List Char) (h : PieceOk sep l) :
    Generic.reSplit sep l = [l] := by
  have := splitBy_piece sep l h 1 [] []
  simp only [List.append_nil] at this
  rw [Generic.reSplit, this]
  simp [Generic.splitBy]

/-- the generic strip leaves a text alone that neither starts nor ends with white space -/
theorem gstrip_ends (c : Char) (mid : List Char) (d : Char) (hc : isSpace c = false) (hd : isSpace d = false) :
    Generic.strip (c :: (mid ++ [d])) = c :: (mid ++ [d]) := by
  unfold Generic.strip
  rw [dropSpaces_of_head c _ hc]
  have : (c :: (mid ++ [d])).reverse = d :: (mid.reverse ++ [c]) := by simp
  rw [this, dropSpaces_of_head d _ hd]
  simp

/-! ### reversed operands: `"lit" in name`, `"lit" not in name` -/

/-- the two list/substring operators with the model's operator tag -/
def inOps : List (String × Generic.Op) := [("in", .in_), ("not in", .nc)]

theorem scanValue_lit (q : Char) (tl o : List Char) (hop : Generic.matchOpTail tl = some o) :
    ∀ (v acc : List Char), (∀ c ∈ v, c ≠ q ∧ c ≠ '\n') → (acc ≠ [] ∨ v ≠ []) →
      Generic.scanValue q (v ++ q :: tl) acc = some (acc.reverse ++ v, o) := by
  intro v
  induction v with
  | nil =>
    intro acc _ hne
    have hacc : acc.isEmpty = false := by
      rcases hne with h | h
      · cases acc with
        | nil => exact absurd rfl h
        | cons _ _ => rfl
      · exact absurd rfl h
    simp [Generic.scanValue, hacc, hop]
  | cons c cs ih =>
    intro acc hv _
    have hc := hv c (by simp)
    have h1 : (c == q) = false := by simpa using hc.1
    have h2 : (c == '\n') = false := by simpa using hc.2
    simp only [List.cons_append, Generic.scanValue, h1, Bool.false_and, Bool.false_eq_true, if_false, h2]
    rw [ih (c :: acc) (fun d hd => hv d (List.mem_cons_of_mem _ hd)) (Or.inl (by simp))]
    simp

theorem tokChar_ne_newline (c : Char) (h : tokChar c) : c ≠ '\n' := notSpace_ne_newline c h.1

theorem go_strCmp (q : Char) (tl : List Char) (o : String) (hop : strCmpTail? tl = some o) :
    ∀ (post pre : List Char), pre ≠ [] → (∀ c ∈ pre ++ post, c ≠ q ∧ c ≠ '\n') → ∀ fuel, post.length < fuel →
      matchStrCmp.go q (pre ++ post ++ q :: tl) pre.length fuel = some (String.ofList (pre ++ post), o) := by
  intro post
  induction post with
  | nil =>
    intro pre hne hall fuel hf
    cases fuel with
    | zero => simp at hf
    | succ fuel =>
      have hnl : (pre.contains '\n') = false := by
        rw [Bool.eq_false_iff]; intro hc
        have := (hall '\n' (by simpa using hc)).2
        exact this rfl
      have hnl' : ¬ '\n' ∈ pre := by simpa using hnl
      simp [matchStrCmp.go, hnl, hnl', hop]
  | cons c post ih =>
    intro pre hne hall fuel hf
    cases fuel with
    | zero => simp at hf
    | succ fuel =>
      have hnl : (pre.contains '\n') = false := by
        rw [Bool.eq_false_iff]; intro hc
        have := (hall '\n' (by simp; left; simpa using hc)).2
        exact this rfl
      have hc := hall c (by simp)
      have h1 : (c == q) = false := by simpa using hc.1
      have hdrop : (pre ++ c :: post ++ q :: tl).drop pre.length = c :: (post ++ q :: tl) := by
        rw [List.append_assoc, List.drop_left]; simp
      have htake : (pre ++ c :: post ++ q :: tl).take pre.length = pre := by
        rw [List.append_assoc, List.take_left]
      rw [matchStrCmp.go]
      simp only [htake, hnl, hdrop, h1]
      have hlen : ¬ pre.length > (pre ++ c :: post ++ q :: tl).length := by simp
      simp only [hlen, if_false, Bool.false_eq_true]
      have := ih (pre ++ [c]) (by simp) (by simpa using hall) fuel (by simpa using hf)
      simpa using this

theorem inOps_facts (ops : String) (gop : Generic.Op) (h : (ops, gop) ∈ inOps) :
    strCmpTail? (' ' :: ops.toList) = some ops ∧ Generic.matchOpTail (' ' :: ops.toList) = some ops.toList ∧
    (∀ val, Generic.Atom.mk? false val (if ops.toList.length > 2 then "not in" else "in") = .ok ⟨val, gop, false⟩) ∧
    (ops = "in" ∨ ops = "not in") := by
  simp only [inOps, List.mem_cons, Prod.mk.injEq, List.mem_nil_iff, or_false] at h
  rcases h with ⟨rfl, rfl⟩ | ⟨rfl, rfl⟩ <;> exact ⟨by decide, by decide, fun _ => rfl, by decide⟩

/-- the characters of `"lit" op` -/
def revChars (v : List Char) (ops : String) : List Char := '"' :: (v ++ '"' :: ' ' :: ops.toList)

theorem revChars_eq (v ops : String) : (itemConstraintString ops v true).toList = revChars v.toList ops := by
  simp [itemConstraintString, revChars]

theorem tokChar_quote (v : List Char) (h : ∀ c ∈ v, tokChar c) : ∀ c ∈ v, c ≠ '"' ∧ c ≠ '\n' :=
  fun c hc => ⟨(h c hc).2.2.2.1, tokChar_ne_newline c (h c hc)⟩

/-- `STR_CMP_CONSTRAINT` (marker side) on `"lit" op` -/
theorem matchStrCmp_rev (v : List Char) (hne : v ≠ []) (hv : ∀ c ∈ v, tokChar c) (ops : String) (gop : Generic.Op)
    (hop : (ops, gop) ∈ inOps) :
    matchStrCmp (revChars v ops) = some (String.ofList v, ops) := by
  obtain ⟨h1, _⟩ := inOps_facts ops gop hop
  cases v with
  | nil => exact absurd rfl hne
  | cons c cs =>
    have := go_strCmp '"' (' ' :: ops.toList) ops h1 cs [c] (by simp) (by simpa using tokChar_quote _ hv)
      ((c :: (cs ++ '"' :: ' ' :: ops.toList)).length + 1) (by simp; omega)
    simp only [List.cons_append, List.nil_append, List.length_singleton] at this
    have hq : ('"' != '"' && '"' != '\'') = false := by decide
    simp only [matchStrCmp, revChars, List.cons_append, hq, Bool.false_eq_true, if_false]
    exact this

theorem sepOr_space (c : Char) (cs : List Char) (h : gPlain c) : Generic.sepOr (' ' :: c :: cs) = none := by
  have : dropSpaces (' ' :: c :: cs) = c :: cs := by
    simp [dropSpaces, h.1, show isSpace ' ' = true by decide]
  unfold Generic.sepOr
  rw [this]
  split
  · rename_i heq; simp at heq; exact absurd heq.1 h.2.1
  · rename_i heq; simp at heq; exact absurd heq.1 h.2.1
  · rfl

theorem sepComma_space (c : Char) (cs : List Char) (h : gPlain c) : Generic.sepComma (' ' :: c :: cs) = none := by
  have : dropSpaces (' ' :: c :: cs) = c :: cs := by
    simp [dropSpaces, h.1, show isSpace ' ' = true by decide]
  unfold Generic.sepComma
  rw [this]
  split
  · rename_i heq; simp at heq; exact absurd heq.1 h.2.2
  · rfl

/-- a separator of the generic grammar: both `re.split` patterns fail on plain characters and on a blank
followed by a plain character -/
structure SepLike (sep : List Char → Option (List Char)) : Prop where
  plain : ∀ c cs, gPlain c → sep (c :: cs) = none
  space : ∀ c cs, gPlain c → sep (' ' :: c :: cs) = none

theorem sepOr_like : SepLike Generic.sepOr :=
  ⟨fun c cs h => sepOr_none c cs ⟨h.1, h.2.1⟩, sepOr_space⟩
theorem sepComma_like : SepLike Generic.sepComma :=
  ⟨fun c cs h => sepComma_none c cs ⟨h.1, h.2.2⟩, sepComma_space⟩

theorem PieceOk_plain {sep : List Char → Option (List Char)} (hs : SepLike sep) (pre p : List Char)
    (hpre : ∀ c ∈ pre, gPlain c) (hp : PieceOk sep p) : PieceOk sep (pre ++ p) :=
  PieceOk_plain_append sep gPlain hs.plain pre p hpre hp

theorem PieceOk_space {sep : List Char → Option (List Char)} (hs : SepLike sep) (c : Char) (p : List Char)
    (hc : gPlain c) (hp : PieceOk sep (c :: p)) : PieceOk sep (' ' :: c :: p) :=
  PieceOk_cons sep ' ' (c :: p) (fun rest => hs.space c _ hc) hp

theorem gPlain_of_tokChar (c : Char) (h : tokChar c) : gPlain c := ⟨h.1, h.2.1, h.2.2.1⟩

theorem revChars_PieceOk {sep : List Char → Option (List Char)} (hs : SepLike sep) (v : List Char)
    (hv : ∀ c ∈ v, tokChar c) (ops : String) (gop : Generic.Op) (hop : (ops, gop) ∈ inOps) :
    PieceOk sep (revChars v ops) := by
  have gq : gPlain '"' := by unfold gPlain; decide
  have gl : ∀ c : Char, c ∈ ['i', 'n', 'o', 't'] → gPlain c := by
    intro c hc; simp at hc; rcases hc with rfl | rfl | rfl | rfl <;> (unfold gPlain; decide)
  have htail : PieceOk sep (' ' :: ops.toList) := by
    rcases (inOps_facts ops gop hop).2.2.2 with rfl | rfl
    · exact PieceOk_space hs 'i' ['n'] (gl _ (by simp))
        (PieceOk_plain hs ['i', 'n'] [] (fun c hc => gl c (by simp at hc ⊢; rcases hc with rfl | rfl <;> simp)) (PieceOk_nil sep))
    · have h2 : PieceOk sep (' ' :: 'i' :: ['n']) :=
        PieceOk_space hs 'i' ['n'] (gl _ (by simp))
          (PieceOk_plain hs ['i', 'n'] [] (fun c hc => gl c (by simp at hc ⊢; rcases hc with rfl | rfl <;> simp)) (PieceOk_nil sep))
      have h3 : PieceOk sep ('n' :: 'o' :: 't' :: ' ' :: 'i' :: ['n']) :=
        PieceOk_plain hs ['n', 'o', 't'] _ (fun c hc => gl c (by simp at hc ⊢; rcases hc with rfl | rfl | rfl <;> simp)) h2
      exact PieceOk_space hs 'n' _ (gl _ (by simp)) h3
  have : revChars v ops = ('"' :: (v ++ ['"'])) ++ (' ' :: ops.toList) := by simp [revChars]
  rw [this]
  apply PieceOk_plain hs _ _ _ htail
  intro c hc
  simp at hc
  rcases hc with rfl | hc | rfl
  · exact gq
  · exact gPlain_of_tokChar c (hv c hc)
  · exact gq

theorem gstrip_head_last (l : List Char) (hne : l ≠ []) (h1 : isSpace (l.head hne) = false)
    (h2 : isSpace (l.getLast hne) = false) : Generic.strip l = l := by
  unfold Generic.strip
  have e1 : dropSpaces l = l := by
    cases l with
    | nil => exact absurd rfl hne
    | cons c cs => exact dropSpaces_of_head c cs h1
  have e2 : l.reverse = l.getLast hne :: l.dropLast.reverse := by
    conv => lhs; rw [← List.dropLast_concat_getLast hne]
    simp
  rw [e1, e2, dropSpaces_of_head _ _ h2, ← e2, List.reverse_reverse]

theorem revChars_strip (v : List Char) (ops : String) (gop : Generic.Op) (hop : (ops, gop) ∈ inOps) :
    Generic.strip (revChars v ops) = revChars v ops := by
  apply gstrip_head_last _ (by simp [revChars])
  · simp [revChars]; decide
  · have e : revChars v ops = ('"' :: v) ++ ('"' :: ' ' :: ops.toList) := by simp [revChars]
    have : (revChars v ops).getLast (by simp [revChars]) = 'n' := by
      simp only [e]
      rw [List.getLast_append_right (by simp)]
      rcases (inOps_facts ops gop hop).2.2.2 with rfl | rfl <;> decide
    rw [this]; decide

/-- the generic parser on `"lit" in` / `"lit" not in` -/
theorem gparseWith_rev (v : List Char) (hne : v ≠ []) (hv : ∀ c ∈ v, tokChar c) (ops : String) (gop : Generic.Op)
    (hop : (ops, gop) ∈ inOps) :
    Generic.parseWith false (String.ofList (revChars v ops)) = .ok (.atom ⟨String.ofList v, gop, false⟩) := by
  obtain ⟨_, h2, h3, _⟩ := inOps_facts ops gop hop
  have hsc := scanValue_lit '"' (' ' :: ops.toList) ops.toList h2 v [] (tokChar_quote v hv) (Or.inr hne)
  have hps : Generic.parseSingle false (revChars v ops) = .ok ⟨String.ofList v, gop, false⟩ := by
    have hvs : Generic.strip v = v := gstrip_noSpace v (fun c hc => (hv c hc).1)
    simp only [Generic.parseSingle, Generic.matchStrCmp, revChars]
    simp [hsc, hvs, h3]
  unfold Generic.parseWith
  rw [show revChars v ops = '"' :: (v ++ '"' :: ' ' :: ops.toList) from rfl, ofList_ne_star _ _ (by decide)]
  rw [show '"' :: (v ++ '"' :: ' ' :: ops.toList) = revChars v ops from rfl]
  simp only [Bool.false_eq_true, if_false, String.toList_ofList, revChars_strip v ops gop hop,
    reSplit_of_PieceOk _ _ (revChars_PieceOk sepOr_like v hv ops gop hop), Generic.mapE, Generic.parseGroup,
    reSplit_of_PieceOk _ _ (revChars_PieceOk sepComma_like v hv ops gop hop), hps, Generic.foldIntersect]

theorem mkSingle_rev (n v : String) (hn : n ∈ stringVarNames) (hv : PlainTok v) (ops : String) (gop : Generic.Op)
    (hop : (ops, gop) ∈ inOps) :
    mkSingle n (itemConstraintString ops v true) true =
      .ok ⟨aliasName n, ops, v, true, .gen (.atom ⟨v, gop, false⟩)⟩ := by
  obtain ⟨f1, f2, f3, _⟩ := stringVar_facts n hn
  have hs : itemConstraintString ops v true = String.ofList (revChars v.toList ops) :=
    str_eq_of_toList (by simp [revChars_eq])
  have hm := matchStrCmp_rev v.toList hv.1 hv.2 ops gop hop
  have hp := gparseWith_rev v.toList hv.1 hv.2 ops gop hop
  simp only [String.ofList_toList] at hm hp
  have hprep : leafPrepare n (itemConstraintString ops v true) true =
      .ok { name := aliasName n, op := ops, value := v, swapped := true,
            cstr := itemConstraintString ops v true, kind := .generic } := by
    have f3' : n ∉ Gen.pythonVersionMarkers := by simpa using f3
    unfold leafPrepare
    simp [revChars_eq, hm, f1, f3, f3']
  rw [hs] at hprep ⊢
  simp only [mkSingle, hprep, bind, Except.bind, parseByKind, Generic.parseConstraint, hp, Except.map,
    pure, Except.pure]

open Spec.Pep508 in
/-- **reversed operands**: `"lit" in name` / `"lit" not in name` is the substring test on the environment value -/
theorem agree_rev (E : Env) (n v ev : String) (hn : n ∈ stringVarNames) (hv : PlainTok v) (ops : String)
    (gop : Generic.Op) (hop : (ops, gop) ∈ inOps) (hev : E.get? (canonVar n) = some ev) :
    ∃ b, itemV E n ops v true = .ok b ∧ evalItem n ops v true E = some b ∧ itemCoherent n ops v true = true := by
  obtain ⟨f1, f2, f3, f4, f5, f6, f7, f8⟩ := stringVar_facts n hn
  have hm := mkSingle_rev n v hn hv ops gop hop
  have hm' := mkSingle_rev (aliasName n) v f8 hv ops gop hop
  have hval : itemV E n ops v true = .ok (GC.den (.atom ⟨v, gop, false⟩) ev) := by
    simp only [itemV, hm]
    exact validateLike_gen _ _ E f7 ev (by rw [f4]; exact hev)
  refine ⟨_, hval, ?_, ?_⟩
  · simp only [inOps, List.mem_cons, Prod.mk.injEq, List.mem_nil_iff, or_false] at hop
    rcases hop with ⟨rfl, rfl⟩ | ⟨rfl, rfl⟩ <;>
      simp [evalItem, f5, hev, Generic.GC.den, Generic.GC.sem, Generic.GS.sem, Generic.Atom.den, Generic.strIn,
        isInfixL_eq_isInfix]
  · simp [itemCoherent, Single.coherent, hm, hm']



/-! ### `in` / `not in` lists -/

/-- `\s*(?P<value>.+)$` takes everything: no white space at the head, no newline anywhere -/
def valueOk' (v : List Char) : Prop := v ≠ [] ∧ (∀ c, v.head? = some c → isSpace c = false) ∧ ∀ c ∈ v, c ≠ '\n'

theorem spacesThenValue?_ok' (v : List Char) (h : valueOk' v) : spacesThenValue? v = some v := by
  obtain ⟨hne, hh, hnl⟩ := h
  cases v with
  | nil => exact absurd rfl hne
  | cons c cs =>
    have hc := hh c rfl
    have hb : ∀ d ∈ c :: cs, (d != '\n') = true := fun d hd => by simpa using hnl d hd
    have h1 : (c :: cs).takeWhile (· != '\n') = c :: cs := takeWhile_all _ _ hb
    have h2 : (c :: cs).dropWhile (· != '\n') = [] := dropWhile_all _ _ hb
    have hd : dotPlusToEnd? (c :: cs) = some (c :: cs) := by
      unfold dotPlusToEnd?
      simp only [h1, h2]; simp
    unfold spacesThenValue?
    simp only [countLeading, hc, Bool.false_eq_true, if_false, Nat.zero_add]
    simp only [spacesThenValue?.go, List.drop_zero, hd]

theorem matchPattern1_in (c : Char) (cs : List Char) (hv : valueOk' (c :: cs)) :
    matchPattern1 ('i' :: 'n' :: c :: cs) = some (some "in", String.ofList (c :: cs)) := by
  have hs := spacesThenValue?_ok' _ hv
  simp [matchPattern1, matchPattern1.tryOps, pattern1Ops, stripPrefixCI?_cons, stripPrefixCI?_nil,
    lc_eq, lc_tilde, lc_bang, lc_gt, lc_lt, lc_n, lc_i, lc_o, lc_t, lc_sp, hs]

theorem matchPattern1_notin (c : Char) (cs : List Char) (hv : valueOk' (c :: cs)) :
    matchPattern1 ('n' :: 'o' :: 't' :: ' ' :: 'i' :: 'n' :: c :: cs) = some (some "not in", String.ofList (c :: cs)) := by
  have hs := spacesThenValue?_ok' _ hv
  simp [matchPattern1, matchPattern1.tryOps, pattern1Ops, stripPrefixCI?_cons, stripPrefixCI?_nil,
    lc_eq, lc_tilde, lc_bang, lc_gt, lc_lt, lc_n, lc_i, lc_o, lc_t, lc_sp, hs]

/-- character level of a list literal: a token, then (separator run, token) pairs -/
def joinToks (t0 : List Char) (rest : List (List Char × List Char)) : List Char :=
  t0 ++ (rest.map (fun p => p.1 ++ p.2)).flatten

def isSepC (c : Char) : Bool := c == ' ' || c == ',' || c == '|'

theorem splitAux_tok (tok : List Char) (htok : ∀ c ∈ tok, isSepC c = false) :
    ∀ (p : Bool) (cur more : List Char), tok ≠ [] →
      splitListValueAux p cur (tok ++ more) = splitListValueAux false (tok.reverse ++ cur) more := by
  induction tok with
  | nil => intro p cur more h; exact absurd rfl h
  | cons c cs ih =>
    intro p cur more _
    have hc : (c == ' ' || c == ',' || c == '|') = false := htok c (by simp)
    simp only [List.cons_append, splitListValueAux, hc, Bool.false_eq_true, if_false]
    cases cs with
    | nil => simp
    | cons d ds =>
      rw [ih (fun e he => htok e (List.mem_cons_of_mem _ he)) false (c :: cur) more (by simp)]
      simp

theorem splitAux_sep_true (s : List Char) (hs : ∀ c ∈ s, isSepC c = true) :
    ∀ (more : List Char), splitListValueAux true [] (s ++ more) = splitListValueAux true [] more := by
  induction s with
  | nil => intro more; rfl
  | cons c cs ih =>
    intro more
    have hc : (c == ' ' || c == ',' || c == '|') = true := hs c (by simp)
    simp only [List.cons_append, splitListValueAux, hc, if_true]
    exact ih (fun e he => hs e (List.mem_cons_of_mem _ he)) more

theorem splitAux_sep (s : List Char) (hne : s ≠ []) (hs : ∀ c ∈ s, isSepC c = true) (cur more : List Char) :
    splitListValueAux false cur (s ++ more) = cur.reverse :: splitListValueAux true [] more := by
  cases s with
  | nil => exact absurd rfl hne
  | cons c cs =>
    have hc : (c == ' ' || c == ',' || c == '|') = true := hs c (by simp)
    simp only [List.cons_append, splitListValueAux, hc, if_true, Bool.false_eq_true, if_false]
    rw [splitAux_sep_true cs (fun e he => hs e (List.mem_cons_of_mem _ he))]

/-- tokens and separator runs of a list literal are what they should be -/
def ListOk (t0 : List Char) (rest : List (List Char × List Char)) : Prop :=
  (t0 ≠ [] ∧ ∀ c ∈ t0, isSepC c = false) ∧
  ∀ p ∈ rest, (p.1 ≠ [] ∧ ∀ c ∈ p.1, isSepC c = true) ∧ (p.2 ≠ [] ∧ ∀ c ∈ p.2, isSepC c = false)

theorem splitAux_join : ∀ (rest : List (List Char × List Char)) (t0 : List Char) (p : Bool) (cur : List Char),
    ListOk t0 rest →
    splitListValueAux p cur (joinToks t0 rest) = (cur.reverse ++ t0) :: rest.map (·.2) := by
  intro rest
  induction rest with
  | nil =>
    intro t0 p cur h
    have := splitAux_tok t0 h.1.2 p cur [] h.1.1
    simp only [List.append_nil] at this
    simp [joinToks, this, splitListValueAux]
  | cons q rest ih =>
    intro t0 p cur h
    have hq := h.2 q (by simp)
    have e : joinToks t0 (q :: rest) = t0 ++ (q.1 ++ joinToks q.2 rest) := by simp [joinToks]
    rw [e, splitAux_tok t0 h.1.2 p cur _ h.1.1, splitAux_sep q.1 hq.1.1 hq.1.2,
      ih q.2 true [] ⟨hq.2, fun r hr => h.2 r (List.mem_cons_of_mem _ hr)⟩]
    simp

/-- `re.split("[ ,|]+", value)` on a list literal: its tokens -/
theorem splitListValue_join (t0 : List Char) (rest : List (List Char × List Char)) (h : ListOk t0 rest) :
    splitListValue (joinToks t0 rest) = t0 :: rest.map (·.2) := by
  have := splitAux_join rest t0 false [] h
  simpa [splitListValue] using this

open Spec.Pep508 in
theorem tokgo_tok (tok : List Char) (htok : ∀ c ∈ tok, isSepC c = false) :
    ∀ (cur more : List Char), tokens.go (tok ++ more) cur = tokens.go more (tok.reverse ++ cur) := by
  induction tok with
  | nil => intro cur more; rfl
  | cons c cs ih =>
    intro cur more
    have hc : isListSep c = false := htok c (by simp)
    simp only [List.cons_append, tokens.go, hc, Bool.false_eq_true, if_false]
    rw [ih (fun e he => htok e (List.mem_cons_of_mem _ he))]
    simp

open Spec.Pep508 in
theorem tokgo_sep_nil (s : List Char) (hs : ∀ c ∈ s, isSepC c = true) :
    ∀ (more : List Char), tokens.go (s ++ more) [] = tokens.go more [] := by
  induction s with
  | nil => intro more; rfl
  | cons c cs ih =>
    intro more
    have hc : isListSep c = true := hs c (by simp)
    simp only [List.cons_append, tokens.go, hc, if_true, List.isEmpty_nil]
    exact ih (fun e he => hs e (List.mem_cons_of_mem _ he)) more

open Spec.Pep508 in
theorem tokgo_join : ∀ (rest : List (List Char × List Char)) (t0 : List Char) (cur : List Char),
    ListOk t0 rest →
    tokens.go (joinToks t0 rest) cur = String.ofList (cur.reverse ++ t0) :: rest.map (fun p => String.ofList p.2) := by
  intro rest
  induction rest with
  | nil =>
    intro t0 cur h
    have hne : (t0.reverse ++ cur).isEmpty = false := by
      cases t0 with
      | nil => exact absurd rfl h.1.1
      | cons c cs => simp
    have := tokgo_tok t0 h.1.2 cur []
    simp only [List.append_nil] at this
    simp [joinToks, this, tokens.go, hne]
  | cons q rest ih =>
    intro t0 cur h
    have hq := h.2 q (by simp)
    have e : joinToks t0 (q :: rest) = t0 ++ (q.1 ++ joinToks q.2 rest) := by simp [joinToks]
    have hne : (t0.reverse ++ cur).isEmpty = false := by
      cases t0 with
      | nil => exact absurd rfl h.1.1
      | cons c cs => simp
    rw [e, tokgo_tok t0 h.1.2]
    cases hs : q.1 with
    | nil => exact absurd hs hq.1.1
    | cons c cs =>
      have hc : isListSep c = true := hq.1.2 c (by simp [hs])
      simp only [List.cons_append, tokens.go, hc, if_true, hne, Bool.false_eq_true, if_false]
      rw [tokgo_sep_nil cs (fun e he => hq.1.2 e (by simp [hs, he])),
        ih q.2 [] ⟨hq.2, fun r hr => h.2 r (List.mem_cons_of_mem _ hr)⟩]
      simp

open Spec.Pep508 in
/-- the reference's tokens of a list literal -/
theorem tokens_join (t0 : List Char) (rest : List (List Char × List Char)) (h : ListOk t0 rest) :
    tokens (String.ofList (joinToks t0 rest)) = String.ofList t0 :: rest.map (fun p => String.ofList p.2) := by
  have := tokgo_join rest t0 [] h
  simpa [tokens] using this

/-! ### `re.split` of a separator-joined text -/

def joinC (S : List Char) : List (List Char) → List Char
  | [] => []
  | [p] => p
  | p :: q :: ps => p ++ S ++ joinC S (q :: ps)

theorem joinWith_toList (sep : String) (xs : List String) :
    (joinWith sep xs).toList = joinC sep.toList (xs.map String.toList) := by
  induction xs with
  | nil => rfl
  | cons x xs ih =>
    cases xs with
    | nil => rfl
    | cons y ys => simp only [joinWith, String.toList_append, ih, List.map_cons, joinC]

theorem splitBy_join (sep : List Char → Option (List Char)) (S : List Char) (hS : S ≠ [])
    (hsep : ∀ c cs, isSpace c = false → sep (S ++ c :: cs) = some (c :: cs)) :
    ∀ (ps : List (List Char)) (p : List Char),
      (∀ q ∈ p :: ps, PieceOk sep q ∧ ∃ c cs, q = c :: cs ∧ isSpace c = false) →
      ∀ (n : Nat) (acc : List Char), (joinC S (p :: ps)).length < n →
        Generic.splitBy sep n (joinC S (p :: ps)) acc = (acc.reverse ++ p) :: ps := by
  obtain ⟨s0, S', rfl⟩ := List.exists_cons_of_ne_nil hS
  intro ps
  induction ps with
  | nil =>
    intro p hp n acc hn
    simp only [joinC] at hn ⊢
    obtain ⟨m, rfl⟩ : ∃ m, n = p.length + m := ⟨n - p.length, by omega⟩
    have := splitBy_piece sep p (hp p (by simp)).1 m [] acc
    simp only [List.append_nil] at this
    rw [this]
    cases m with
    | zero => omega
    | succ m => simp [Generic.splitBy]
  | cons q ps ih =>
    intro p hp n acc hn
    simp only [joinC] at hn ⊢
    obtain ⟨c, cs, hq, hc⟩ := (hp q (by simp)).2
    have hR : ∃ cs', joinC (s0 :: S') (q :: ps) = c :: cs' := by
      cases ps with
      | nil => exact ⟨cs, by simp [joinC, hq]⟩
      | cons r rs => exact ⟨cs ++ (s0 :: S') ++ joinC (s0 :: S') (r :: rs), by simp [joinC, hq]⟩
    obtain ⟨cs', hR⟩ := hR
    obtain ⟨m, rfl⟩ : ∃ m, n = p.length + m := ⟨n - p.length, by simp at hn; omega⟩
    rw [List.append_assoc, splitBy_piece sep p (hp p (by simp)).1 m _ acc]
    have hlen : ((s0 :: S') ++ joinC (s0 :: S') (q :: ps)).length < m := by simp at hn ⊢; omega
    cases m with
    | zero => simp at hlen
    | succ m =>
      have hsp := hsep c cs' hc
      rw [← hR] at hsp
      simp only [List.cons_append] at hsp ⊢
      rw [Generic.splitBy, hsp]
      simp only
      rw [ih q (fun r hr => hp r (List.mem_cons_of_mem _ hr)) m [] (by simp at hlen ⊢; omega)]
      simp

theorem reSplit_join (sep : List Char → Option (List Char)) (S : List Char) (hS : S ≠ [])
    (hsep : ∀ c cs, isSpace c = false → sep (S ++ c :: cs) = some (c :: cs))
    (p : List Char) (ps : List (List Char))
    (hp : ∀ q ∈ p :: ps, PieceOk sep q ∧ ∃ c cs, q = c :: cs ∧ isSpace c = false) :
    Generic.reSplit sep (joinC S (p :: ps)) = p :: ps := by
  have := splitBy_join sep S hS hsep ps p hp ((joinC S (p :: ps)).length + 1) [] (by omega)
  simpa [Generic.reSplit] using this

theorem sepOr_bars (c : Char) (cs : List Char) (h : isSpace c = false) :
    Generic.sepOr ([' ', '|', '|', ' '] ++ c :: cs) = some (c :: cs) := by
  simp [Generic.sepOr, dropSpaces, h, show isSpace ' ' = true by decide, show isSpace '|' = false by decide]

theorem sepComma_comma (c : Char) (cs : List Char) (h : isSpace c = false) :
    Generic.sepComma ([',', ' '] ++ c :: cs) = some (c :: cs) := by
  simp [Generic.sepComma, dropSpaces, h, show isSpace ' ' = true by decide, show isSpace ',' = false by decide]

theorem PieceOk_append (sep : List Char → Option (List Char)) :
    ∀ (A B : List Char), PieceOk sep A → PieceOk sep B → PieceOk sep (A ++ B) := by
  intro A
  induction A with
  | nil => intro B _ hB; simpa using hB
  | cons c A ih =>
    intro B hA hB
    have hA' : PieceOk sep A := fun t ht hs rest => hA t ht (hs.trans (List.suffix_cons c A)) rest
    refine PieceOk_cons sep c (A ++ B) (fun rest => ?_) (ih B hA' hB)
    have := hA (c :: A) (by simp) (List.suffix_refl _) (B ++ rest)
    simpa using this

/-- a clause `== tok` / `!= tok` of the rewritten list -/
def clausePiece (o : Char) (tok : List Char) : List Char := o :: '=' :: ' ' :: tok

def TokOk (tok : List Char) : Prop := tok ≠ [] ∧ ∀ c ∈ tok, gPlain c

theorem clausePiece_ok {sep : List Char → Option (List Char)} (hs : SepLike sep) (o : Char) (ho : gPlain o)
    (tok : List Char) (ht : TokOk tok) : PieceOk sep (clausePiece o tok) := by
  obtain ⟨hne, hp⟩ := ht
  cases tok with
  | nil => exact absurd rfl hne
  | cons c cs =>
    have h1 : PieceOk sep (c :: cs) := by
      have := PieceOk_plain hs (c :: cs) [] hp (PieceOk_nil sep)
      simpa using this
    have h2 := PieceOk_space hs c cs (hp c (by simp)) h1
    have := PieceOk_plain hs [o, '='] _ (by
      intro d hd; simp at hd; rcases hd with rfl | rfl
      · exact ho
      · unfold gPlain; decide) h2
    simpa [clausePiece] using this

theorem matchBasicRest_space (tok : List Char) (ht : TokOk tok) :
    Generic.matchBasicRest (' ' :: tok) = some tok := by
  have hsp : ∀ c ∈ tok, isSpace c = false := fun c hc => (ht.2 c hc).1
  have : dropSpaces (' ' :: tok) = tok := by
    simp only [dropSpaces, show isSpace ' ' = true by decide, if_true]
    exact dropSpaces_noSpace tok hsp
  unfold Generic.matchBasicRest
  rw [this, spanNonSpace_noSpace tok hsp]
  cases tok with
  | nil => exact absurd rfl ht.1
  | cons c cs => simp [dropSpaces]

theorem gparseSingle_eq_sp (x : Bool) (tok : List Char) (ht : TokOk tok) :
    Generic.parseSingle x (clausePiece '=' tok) = .ok ⟨String.ofList tok, .eq, x⟩ := by
  have h1 := matchBasicRest_space tok ht
  have hs := gstrip_noSpace tok (fun c hc => (ht.2 c hc).1)
  simp [clausePiece, Generic.parseSingle, Generic.matchStrCmp, Generic.matchBasic, h1, hs]
  cases x <;> rfl

theorem gparseSingle_ne_sp (x : Bool) (tok : List Char) (ht : TokOk tok) :
    Generic.parseSingle x (clausePiece '!' tok) = .ok ⟨String.ofList tok, .ne, x⟩ := by
  have h1 := matchBasicRest_space tok ht
  have hs := gstrip_noSpace tok (fun c hc => (ht.2 c hc).1)
  simp [clausePiece, Generic.parseSingle, Generic.matchStrCmp, Generic.matchBasic, h1, hs]
  cases x <;> rfl

theorem mapE_map {α β : Type} (f : α → PyM β) (g : α → β) :
    ∀ (l : List α), (∀ a ∈ l, f a = .ok (g a)) → Generic.mapE f l = .ok (l.map g) := by
  intro l
  induction l with
  | nil => intro _; rfl
  | cons a as ih =>
    intro h
    simp [Generic.mapE, h a (by simp), ih (fun b hb => h b (List.mem_cons_of_mem _ hb))]

theorem clausePiece_head (o : Char) (ho : gPlain o) (tok : List Char) :
    ∃ c cs, clausePiece o tok = c :: cs ∧ isSpace c = false := ⟨o, _, rfl, ho.1⟩

theorem joinC_last (S : List Char) : ∀ (ps : List (List Char)) (p : List Char),
    (∀ q ∈ p :: ps, ∃ d, q.getLast? = some d ∧ isSpace d = false) →
    ∃ d, (joinC S (p :: ps)).getLast? = some d ∧ isSpace d = false := by
  intro ps
  induction ps with
  | nil => intro p h; simpa [joinC] using h p (by simp)
  | cons q ps ih =>
    intro p h
    obtain ⟨d, hd, hs⟩ := ih q (fun r hr => h r (List.mem_cons_of_mem _ hr))
    refine ⟨d, ?_, hs⟩
    simp only [joinC, List.append_assoc, List.getLast?_append, hd, Option.some_or]

theorem gstrip_hl (l : List Char) (c d : Char) (h1 : l.head? = some c) (h2 : l.getLast? = some d)
    (hc : isSpace c = false) (hd : isSpace d = false) : Generic.strip l = l := by
  have hne : l ≠ [] := by intro e; simp [e] at h1
  apply gstrip_head_last l hne
  · have : l.head hne = c := by
      cases l with
      | nil => exact absurd rfl hne
      | cons a as => simpa using h1
    rw [this]; exact hc
  · have : l.getLast hne = d := by
      have := List.getLast?_eq_some_getLast hne
      rw [h2] at this; simpa using this.symm
    rw [this]; exact hd

theorem clausePiece_last (o : Char) (tok : List Char) (ht : TokOk tok) :
    ∃ d, (clausePiece o tok).getLast? = some d ∧ isSpace d = false := by
  have hne := ht.1
  have e : clausePiece o tok = [o, '=', ' '] ++ tok := by simp [clausePiece]
  refine ⟨tok.getLast hne, ?_, (ht.2 _ (List.getLast_mem hne)).1⟩
  rw [e, List.getLast?_append, List.getLast?_eq_some_getLast hne]; rfl

theorem gPlain_eq : gPlain '=' := by unfold gPlain; decide
theorem gPlain_bg : gPlain '!' := by unfold gPlain; decide

theorem parseGroup_piece_eq (tok : List Char) (ht : TokOk tok) :
    Generic.parseGroup false (clausePiece '=' tok) = .ok (.atom ⟨String.ofList tok, .eq, false⟩) := by
  simp only [Generic.parseGroup, reSplit_of_PieceOk _ _ (clausePiece_ok sepComma_like '=' gPlain_eq tok ht),
    Generic.mapE, gparseSingle_eq_sp false tok ht, Generic.foldIntersect]

/-- the constraint string of `name in "t0 t1 …"`: `== t0 || == t1 || …` -/
theorem gparseWith_in_list (t0 : List Char) (ts : List (List Char)) (h : ∀ t ∈ t0 :: ts, TokOk t) :
    ∃ c, Generic.parseWith false (String.ofList (joinC " || ".toList ((t0 :: ts).map (clausePiece '=')))) = .ok c ∧
      ∀ ev : String, c.den ev = (t0 :: ts).any (fun t => ev == String.ofList t) := by
  have hpieces : ∀ q ∈ clausePiece '=' t0 :: ts.map (clausePiece '='),
      PieceOk Generic.sepOr q ∧ ∃ c cs, q = c :: cs ∧ isSpace c = false := by
    intro q hq
    rw [← List.map_cons] at hq
    obtain ⟨t, ht, rfl⟩ := List.mem_map.1 hq
    exact ⟨clausePiece_ok sepOr_like '=' gPlain_eq t (h t ht), clausePiece_head '=' gPlain_eq t⟩
  have hsplit := reSplit_join Generic.sepOr " || ".toList (by decide)
    (fun c cs hc => sepOr_bars c cs hc) (clausePiece '=' t0) (ts.map (clausePiece '=')) hpieces
  obtain ⟨d, hd, hds⟩ := joinC_last " || ".toList (ts.map (clausePiece '=')) (clausePiece '=' t0) (by
    intro q hq
    rw [← List.map_cons] at hq
    obtain ⟨t, ht, rfl⟩ := List.mem_map.1 hq
    exact clausePiece_last '=' t (h t ht))
  have hhead : (joinC " || ".toList (clausePiece '=' t0 :: ts.map (clausePiece '='))).head? = some '=' := by
    cases ts <;> simp [joinC, clausePiece]
  have hstrip := gstrip_hl _ '=' d hhead hd (by decide) hds
  have hstar : (String.ofList (joinC " || ".toList (clausePiece '=' t0 :: ts.map (clausePiece '='))) == "*") = false := by
    cases hj : joinC " || ".toList (clausePiece '=' t0 :: ts.map (clausePiece '=')) with
    | nil => rw [hj] at hhead; simp at hhead
    | cons a as =>
      rw [hj] at hhead
      have : a = '=' := by simpa using hhead
      subst this
      exact ofList_ne_star _ _ (by decide)
  have hmap := mapE_map (Generic.parseGroup false)
    (fun p => match p with | _ :: _ :: _ :: tok => GS.atom ⟨String.ofList tok, .eq, false⟩ | _ => GS.any)
    ((t0 :: ts).map (clausePiece '=')) (by
      intro q hq
      obtain ⟨t, ht, rfl⟩ := List.mem_map.1 hq
      simpa [clausePiece] using parseGroup_piece_eq t (h t ht))
  simp only [List.map_cons] at hmap
  unfold Generic.parseWith
  simp only [List.map_cons, hstar, Bool.false_eq_true, if_false, String.toList_ofList, hstrip, hsplit, hmap]
  cases ts with
  | nil =>
    refine ⟨_, rfl, ?_⟩
    intro ev
    simp [clausePiece, Generic.GC.den, Generic.GC.sem, Generic.GS.sem, Generic.Atom.den]
  | cons t1 ts =>
    refine ⟨_, rfl, ?_⟩
    intro ev
    simp [clausePiece, Generic.GC.den, Generic.GC.sem, Generic.GS.sem, Generic.Atom.den, List.any_map]
    rfl

theorem joinC_comma_PieceOk : ∀ (ts : List (List Char)) (t0 : List Char), (∀ t ∈ t0 :: ts, TokOk t) →
    PieceOk Generic.sepOr (joinC ", ".toList ((t0 :: ts).map (clausePiece '!'))) := by
  intro ts
  induction ts with
  | nil => intro t0 h; exact clausePiece_ok sepOr_like '!' gPlain_bg t0 (h t0 (by simp))
  | cons t1 ts ih =>
    intro t0 h
    have h0 := clausePiece_ok sepOr_like '!' gPlain_bg t0 (h t0 (by simp))
    have hrest := ih t1 (fun t ht => h t (List.mem_cons_of_mem _ ht))
    have hhead : ∃ cs, joinC ", ".toList ((t1 :: ts).map (clausePiece '!')) = '!' :: cs := by
      cases ts <;> simp [joinC, clausePiece]
    obtain ⟨cs, hcs⟩ := hhead
    have e : joinC ", ".toList ((t0 :: t1 :: ts).map (clausePiece '!')) =
        clausePiece '!' t0 ++ (',' :: ' ' :: joinC ", ".toList ((t1 :: ts).map (clausePiece '!'))) := by
      simp [joinC]
    rw [e]
    apply PieceOk_append _ _ _ h0
    rw [hcs] at hrest ⊢
    exact PieceOk_cons _ ',' _ (fun rest => sepOr_none ',' _ (by decide))
      (PieceOk_space sepOr_like '!' cs gPlain_bg hrest)

/-- the constraint string of `name not in "t0 t1 …"`: `!= t0, != t1, …` -/
theorem gparseWith_notin_list (t0 : List Char) (ts : List (List Char)) (h : ∀ t ∈ t0 :: ts, TokOk t) :
    ∃ c, Generic.parseWith false (String.ofList (joinC ", ".toList ((t0 :: ts).map (clausePiece '!')))) = .ok c ∧
      ∀ ev : String, c.den ev = (t0 :: ts).all (fun t => ev != String.ofList t) := by
  have hpieces : ∀ q ∈ clausePiece '!' t0 :: ts.map (clausePiece '!'),
      PieceOk Generic.sepComma q ∧ ∃ c cs, q = c :: cs ∧ isSpace c = false := by
    intro q hq
    rw [← List.map_cons] at hq
    obtain ⟨t, ht, rfl⟩ := List.mem_map.1 hq
    exact ⟨clausePiece_ok sepComma_like '!' gPlain_bg t (h t ht), clausePiece_head '!' gPlain_bg t⟩
  have hsplit := reSplit_join Generic.sepComma ", ".toList (by decide)
    (fun c cs hc => sepComma_comma c cs hc) (clausePiece '!' t0) (ts.map (clausePiece '!')) hpieces
  obtain ⟨d, hd, hds⟩ := joinC_last ", ".toList (ts.map (clausePiece '!')) (clausePiece '!' t0) (by
    intro q hq
    rw [← List.map_cons] at hq
    obtain ⟨t, ht, rfl⟩ := List.mem_map.1 hq
    exact clausePiece_last '!' t (h t ht))
  have hhead : (joinC ", ".toList (clausePiece '!' t0 :: ts.map (clausePiece '!'))).head? = some '!' := by
    cases ts <;> simp [joinC, clausePiece]
  have hstrip := gstrip_hl _ '!' d hhead hd (by decide) hds
  have hstar : (String.ofList (joinC ", ".toList (clausePiece '!' t0 :: ts.map (clausePiece '!'))) == "*") = false := by
    cases hj : joinC ", ".toList (clausePiece '!' t0 :: ts.map (clausePiece '!')) with
    | nil => rw [hj] at hhead; simp at hhead
    | cons a as =>
      rw [hj] at hhead
      have : a = '!' := by simpa using hhead
      subst this
      exact ofList_ne_star _ _ (by decide)
  have hor := reSplit_of_PieceOk _ _ (joinC_comma_PieceOk ts t0 h)
  simp only [List.map_cons] at hor
  have hmap := mapE_map (Generic.parseSingle false)
    (fun p => match p with | _ :: _ :: _ :: tok => (⟨String.ofList tok, .ne, false⟩ : Generic.Atom) | _ => ⟨"", .ne, false⟩)
    ((t0 :: ts).map (clausePiece '!')) (by
      intro q hq
      obtain ⟨t, ht, rfl⟩ := List.mem_map.1 hq
      simpa [clausePiece] using gparseSingle_ne_sp false t (h t ht))
  simp only [List.map_cons] at hmap
  -- the fold of `intersect` over `!=` atoms
  obtain ⟨r, hr, _, hsem⟩ := Generic.foldIntersect_exact Generic.algG
    (ts.map (fun t => (⟨String.ofList t, .ne, false⟩ : Generic.Atom)))
    (by intro a ha; obtain ⟨t, _, rfl⟩ := List.mem_map.1 ha; rfl)
    (.atom ⟨String.ofList t0, .ne, false⟩) rfl
  refine ⟨.s r, ?_, ?_⟩
  · unfold Generic.parseWith
    simp only [List.map_cons, hstar, Bool.false_eq_true, if_false, String.toList_ofList, hstrip, hor, Generic.mapE,
      Generic.parseGroup, hsplit, hmap]
    have e : (List.map (fun p => match p with
        | _ :: _ :: _ :: tok => (⟨String.ofList tok, .ne, false⟩ : Generic.Atom) | _ => ⟨"", .ne, false⟩)
        (ts.map (clausePiece '!'))) = ts.map (fun t => (⟨String.ofList t, .ne, false⟩ : Generic.Atom)) := by
      simp [List.map_map, clausePiece, Function.comp_def]
    simp only [clausePiece] at e ⊢
    rw [e, hr]
  · intro ev
    have := hsem (fun a => a.den ev) ⟨ev, rfl⟩
    simp only [Generic.GC.den, Generic.GC.sem] at this ⊢
    rw [this]
    simp [Generic.GS.sem, Generic.Atom.den, List.all_map]
    rfl

/-! ### the list leaves -/

/-- a list literal: plain tokens joined by non-empty runs of the separators ` `, `,`, `|` -/
def listLit (t0 : String) (rest : List (String × String)) : String :=
  t0 ++ String.join (rest.map fun p => p.1 ++ p.2)

/-- a non-empty run of list separators -/
def SepRun (s : String) : Prop := s.toList ≠ [] ∧ ∀ c ∈ s.toList, Spec.Pep508.isListSep c = true

/-- the shape of a list literal -/
def ListLitOk (t0 : String) (rest : List (String × String)) : Prop :=
  PlainTok t0 ∧ ∀ p ∈ rest, SepRun p.1 ∧ PlainTok p.2

def restC (rest : List (String × String)) : List (List Char × List Char) :=
  rest.map fun p => (p.1.toList, p.2.toList)

theorem foldl_append_toList (l : List String) : ∀ init : String,
    (List.foldl (fun r s => r ++ s) init l).toList = init.toList ++ (l.map String.toList).flatten := by
  induction l with
  | nil => intro init; simp
  | cons a as ih => intro init; simp [ih]

theorem join_toList (l : List String) : (String.join l).toList = (l.map String.toList).flatten := by
  have := foldl_append_toList l ""
  simpa [String.join] using this

theorem listLit_toList (t0 : String) (rest : List (String × String)) :
    (listLit t0 rest).toList = joinToks t0.toList (restC rest) := by
  simp only [listLit, String.toList_append, join_toList, joinToks, restC, List.map_map, Function.comp_def]

theorem tokChar_notSep (c : Char) (h : tokChar c) : isSepC c = false := by
  have h1 : c ≠ ' ' := by intro e; subst e; exact absurd h.1 (by decide)
  simp [isSepC, h1, h.2.1, h.2.2.1]

theorem PlainTok.tokOk {v : String} (h : PlainTok v) : TokOk v.toList :=
  ⟨h.1, fun c hc => gPlain_of_tokChar c (h.2 c hc)⟩

theorem ListLitOk.listOk {t0 : String} {rest : List (String × String)} (h : ListLitOk t0 rest) :
    ListOk t0.toList (restC rest) := by
  refine ⟨⟨h.1.1, fun c hc => tokChar_notSep c (h.1.2 c hc)⟩, ?_⟩
  intro p hp
  obtain ⟨q, hq, rfl⟩ := List.mem_map.1 hp
  obtain ⟨hs, ht⟩ := h.2 q hq
  exact ⟨⟨hs.1, hs.2⟩, ⟨ht.1, fun c hc => tokChar_notSep c (ht.2 c hc)⟩⟩

/-- the tokens of a list literal, as strings -/
def listToks (t0 : String) (rest : List (String × String)) : List String := t0 :: rest.map (·.2)

theorem sepC_ne_newline (c : Char) (h : isSepC c = true) : c ≠ '\n' := by
  intro e; subst e; revert h; decide

theorem listLit_valueOk (t0 : String) (rest : List (String × String)) (h : ListLitOk t0 rest) :
    valueOk' (listLit t0 rest).toList := by
  rw [listLit_toList]
  obtain ⟨c, cs, hc⟩ : ∃ c cs, t0.toList = c :: cs := by
    cases ht : t0.toList with
    | nil => exact absurd ht h.1.1
    | cons c cs => exact ⟨c, cs, rfl⟩
  refine ⟨by simp [joinToks, hc], ?_, ?_⟩
  · intro d hd
    simp [joinToks, hc] at hd
    subst hd
    exact (h.1.2 c (by simp [hc])).1
  · intro d hd
    simp only [joinToks, restC, List.mem_append, List.mem_flatten, List.mem_map] at hd
    rcases hd with hd | ⟨l, ⟨p, ⟨q, hq, rfl⟩, rfl⟩, hdl⟩
    · exact tokChar_ne_newline d (h.1.2 d hd)
    · obtain ⟨hs, ht⟩ := h.2 q hq
      simp only [List.mem_append] at hdl
      rcases hdl with hdl | hdl
      · exact sepC_ne_newline d (hs.2 d hdl)
      · exact tokChar_ne_newline d (ht.2 d hdl)

/-- the character-level tokens of a list literal -/
def listToksC (t0 : String) (rest : List (String × String)) : List (List Char) :=
  t0.toList :: (restC rest).map (·.2)

theorem listToksC_ok (t0 : String) (rest : List (String × String)) (h : ListLitOk t0 rest) :
    ∀ t ∈ listToksC t0 rest, TokOk t := by
  intro t ht
  simp only [listToksC, restC, List.map_map, List.mem_cons, List.mem_map, Function.comp] at ht
  rcases ht with rfl | ⟨q, hq, rfl⟩
  · exact h.1.tokOk
  · exact (h.2 q hq).2.tokOk

theorem cstr_in_eq (toks : List (List Char)) :
    joinWith " || " (toks.map fun v => "== " ++ String.ofList v) =
      String.ofList (joinC " || ".toList (toks.map (clausePiece '='))) := by
  apply str_eq_of_toList
  simp only [joinWith_toList, String.toList_ofList, List.map_map]
  congr 1
  apply List.map_congr_left
  intro v _
  simp [clausePiece]

theorem cstr_notin_eq (toks : List (List Char)) :
    joinWith ", " (toks.map fun v => "!= " ++ String.ofList v) =
      String.ofList (joinC ", ".toList (toks.map (clausePiece '!'))) := by
  apply str_eq_of_toList
  simp only [joinWith_toList, String.toList_ofList, List.map_map]
  congr 1
  apply List.map_congr_left
  intro v _
  simp [clausePiece]

theorem leafPrepare_in (n : String) (hn : n ∈ stringVarNames) (t0 : String) (rest : List (String × String))
    (h : ListLitOk t0 rest) :
    leafPrepare n ("in" ++ listLit t0 rest) false =
      .ok { name := aliasName n, op := "in", value := listLit t0 rest, swapped := false,
            cstr := String.ofList (joinC " || ".toList ((listToksC t0 rest).map (clausePiece '='))),
            kind := .generic } := by
  obtain ⟨f1, f2, f3, _⟩ := stringVar_facts n hn
  have f2' : n ∉ Gen.versionLikeMarkerNames := by simpa using f2
  have hvo := listLit_valueOk t0 rest h
  have hsplit : splitListValue (listLit t0 rest).toList = listToksC t0 rest := by
    rw [listLit_toList, splitListValue_join _ _ h.listOk]; rfl
  cases hl : (listLit t0 rest).toList with
  | nil => exact absurd hl hvo.1
  | cons c cs =>
    rw [hl] at hvo hsplit
    have hm := matchPattern1_in c cs hvo
    have hvs : String.ofList (c :: cs) = listLit t0 rest := by rw [← hl]; simp
    unfold leafPrepare
    simp only [Bool.false_eq_true, if_false, String.toList_append, hl]
    have : "in".toList = ['i', 'n'] := rfl
    simp only [this, List.cons_append, List.nil_append, hm, hvs, Option.getD_some]
    simp [f1, f2, f2', hsplit, hl, cstr_in_eq]

theorem leafPrepare_notin (n : String) (hn : n ∈ stringVarNames) (t0 : String) (rest : List (String × String))
    (h : ListLitOk t0 rest) :
    leafPrepare n ("not in" ++ listLit t0 rest) false =
      .ok { name := aliasName n, op := "not in", value := listLit t0 rest, swapped := false,
            cstr := String.ofList (joinC ", ".toList ((listToksC t0 rest).map (clausePiece '!'))),
            kind := .generic } := by
  obtain ⟨f1, f2, f3, _⟩ := stringVar_facts n hn
  have f2' : n ∉ Gen.versionLikeMarkerNames := by simpa using f2
  have hvo := listLit_valueOk t0 rest h
  have hsplit : splitListValue (listLit t0 rest).toList = listToksC t0 rest := by
    rw [listLit_toList, splitListValue_join _ _ h.listOk]; rfl
  cases hl : (listLit t0 rest).toList with
  | nil => exact absurd hl hvo.1
  | cons c cs =>
    rw [hl] at hvo hsplit
    have hm := matchPattern1_notin c cs hvo
    have hvs : String.ofList (c :: cs) = listLit t0 rest := by rw [← hl]; simp
    unfold leafPrepare
    simp only [Bool.false_eq_true, if_false, String.toList_append, hl]
    have : "not in".toList = ['n', 'o', 't', ' ', 'i', 'n'] := rfl
    simp only [this, List.cons_append, List.nil_append, hm, hvs, Option.getD_some]
    simp [f1, f2, f2', hsplit, hl, cstr_notin_eq]

theorem listToksC_cons (t0 : String) (rest : List (String × String)) :
    listToksC t0 rest = t0.toList :: (rest.map fun p => p.2.toList) := by
  simp [listToksC, restC, List.map_map, Function.comp_def]

open Spec.Pep508 in
theorem tokens_listLit (t0 : String) (rest : List (String × String)) (h : ListLitOk t0 rest) :
    tokens (listLit t0 rest) = listToks t0 rest := by
  have := tokens_join t0.toList (restC rest) h.listOk
  rw [← listLit_toList, String.ofList_toList] at this
  rw [this]
  simp [listToks, restC, List.map_map, Function.comp_def]

theorem mem_any_snd (ev : String) (rest : List (String × String)) :
    decide (ev ∈ rest.map (fun x => x.snd)) =
      rest.any ((fun t => ev == String.ofList t) ∘ fun p => p.snd.toList) := by
  induction rest with
  | nil => simp
  | cons p ps ih =>
    simp only [List.map_cons, List.mem_cons, List.any_cons, Function.comp, String.ofList_toList, ← ih]
    by_cases h : ev = p.2 <;> simp [h]

open Spec.Pep508 in
/-- **`name in "t0 t1 …"`**: membership of the environment value among the tokens -/
theorem agree_in_list (E : Env) (n ev : String) (hn : n ∈ stringVarNames) (t0 : String)
    (rest : List (String × String)) (h : ListLitOk t0 rest) (hev : E.get? (canonVar n) = some ev) :
    ∃ b, itemV E n "in" (listLit t0 rest) false = .ok b ∧ evalItem n "in" (listLit t0 rest) false E = some b ∧
      itemCoherent n "in" (listLit t0 rest) false = true := by
  obtain ⟨f1, f2, f3, f4, f5, f6, f7, f8⟩ := stringVar_facts n hn
  have f6' : canonVar n ∉ versionVars := by simpa using f6
  have hto := listToksC_ok t0 rest h
  rw [listToksC_cons] at hto
  obtain ⟨c, hc, hden⟩ := gparseWith_in_list t0.toList (rest.map fun p => p.2.toList) hto
  rw [← listToksC_cons] at hc
  have mk : ∀ m, m ∈ stringVarNames → mkSingle m ("in" ++ listLit t0 rest) false =
      .ok ⟨aliasName m, "in", listLit t0 rest, false, .gen c⟩ := by
    intro m hm
    simp only [mkSingle, leafPrepare_in m hm t0 rest h, bind, Except.bind, parseByKind,
      Generic.parseConstraint, hc, Except.map, pure, Except.pure]
  refine ⟨c.den ev, ?_, ?_, ?_⟩
  · simp only [itemV, itemConstraintString, Bool.false_eq_true, if_false, mk n hn]
    exact validateLike_gen _ _ E f7 ev (by rw [f4]; exact hev)
  · rw [hden ev]
    simp [evalItem, f5, hev, f6', tokens_listLit t0 rest h, listToks, List.any_map, List.contains_eq_any_beq,
      Bool.beq_comm, eq_comm]
    exact congrArg _ (mem_any_snd ev rest)
  · simp [itemCoherent, Single.coherent, itemConstraintString, mk n hn, mk _ f8]

theorem notmem_all_snd (ev : String) (rest : List (String × String)) :
    (!decide (ev ∈ rest.map (fun x => x.snd))) =
      rest.all ((fun t => ev != String.ofList t) ∘ fun p => p.snd.toList) := by
  induction rest with
  | nil => simp
  | cons p ps ih =>
    simp only [List.map_cons, List.mem_cons, List.all_cons, Function.comp, String.ofList_toList, ← ih]
    by_cases h : ev = p.2 <;> simp [h]

open Spec.Pep508 in
/-- **`name not in "t0 t1 …"`** -/
theorem agree_notin_list (E : Env) (n ev : String) (hn : n ∈ stringVarNames) (t0 : String)
    (rest : List (String × String)) (h : ListLitOk t0 rest) (hev : E.get? (canonVar n) = some ev) :
    ∃ b, itemV E n "not in" (listLit t0 rest) false = .ok b ∧
      evalItem n "not in" (listLit t0 rest) false E = some b ∧
      itemCoherent n "not in" (listLit t0 rest) false = true := by
  obtain ⟨f1, f2, f3, f4, f5, f6, f7, f8⟩ := stringVar_facts n hn
  have f6' : canonVar n ∉ versionVars := by simpa using f6
  have hto := listToksC_ok t0 rest h
  rw [listToksC_cons] at hto
  obtain ⟨c, hc, hden⟩ := gparseWith_notin_list t0.toList (rest.map fun p => p.2.toList) hto
  rw [← listToksC_cons] at hc
  have mk : ∀ m, m ∈ stringVarNames → mkSingle m ("not in" ++ listLit t0 rest) false =
      .ok ⟨aliasName m, "not in", listLit t0 rest, false, .gen c⟩ := by
    intro m hm
    simp only [mkSingle, leafPrepare_notin m hm t0 rest h, bind, Except.bind, parseByKind,
      Generic.parseConstraint, hc, Except.map, pure, Except.pure]
  refine ⟨c.den ev, ?_, ?_, ?_⟩
  · simp only [itemV, itemConstraintString, Bool.false_eq_true, if_false, mk n hn]
    exact validateLike_gen _ _ E f7 ev (by rw [f4]; exact hev)
  · rw [hden ev]
    simp [evalItem, f5, hev, f6', tokens_listLit t0 rest h, listToks, List.all_map, List.contains_eq_any_beq,
      Bool.beq_comm, eq_comm]
    rw [notmem_all_snd ev rest]
    rfl
  · simp [itemCoherent, Single.coherent, itemConstraintString, mk n hn, mk _ f8]

end Poetry.Marker
