/-
Text-level facts for the Python range ↔ marker conversions (helper lemmas for C11):
decimal printing and re-reading of release numbers, `Version.parse` on a printed final release.
-/
import PoetryVerif.Model.MarkerOps
import PoetryVerif.Spec.Pep508

set_option linter.unusedSimpArgs false
set_option linter.unusedVariables false

namespace Poetry
open Version

/-! ### decimal digits -/

/-- the decimal digits of `n` as `str(n)` prints them -/
def D (n : Nat) : List Char := Nat.toDigits 10 n

theorem natToString_toList (n : Nat) : (natToString n).toList = D n := by
  simp [natToString, D, Nat.toString_eq_repr, Nat.toList_repr]

theorem isDigit_iff (c : Char) : isDigit c = c.isDigit := by
  simp only [isDigit, Char.isDigit]
  have h1 : ('0' ≤ c) ↔ (48 : UInt32) ≤ c.val := by
    simp [Char.le_def]
  have h2 : (c ≤ '9') ↔ c.val ≤ (57 : UInt32) := by
    simp [Char.le_def]
  simp only [ge_iff_le]
  by_cases a : (48 : UInt32) ≤ c.val <;> by_cases b : c.val ≤ (57 : UInt32) <;> simp [h1, h2, a, b]

theorem D_isDigit (n : Nat) : ∀ c ∈ D n, isDigit c = true := by
  intro c hc
  rw [isDigit_iff]
  exact Nat.isDigit_of_mem_toDigits (by decide) (by decide) hc

theorem D_ne_nil (n : Nat) : D n ≠ [] := Nat.toDigits_ne_nil

theorem digitsToNat_eq (l : List Char) : digitsToNat l = Nat.ofDigitChars 10 l 0 := by
  unfold digitsToNat Nat.ofDigitChars digitVal
  congr 1
  funext acc c
  rw [Nat.mul_comm]

theorem digitsToNat_D (n : Nat) : digitsToNat (D n) = n := by
  rw [digitsToNat_eq]; exact Nat.ofDigitChars_ten_toDigits

/-- the next character does not continue a number -/
def noDigitHead : List Char → Bool
  | [] => true
  | c :: _ => !isDigit c

theorem takeDigits_append (ds rest : List Char) (hd : ∀ c ∈ ds, isDigit c = true)
    (hr : noDigitHead rest = true) : takeDigits (ds ++ rest) = (ds, rest) := by
  induction ds with
  | nil =>
    cases rest with
    | nil => rfl
    | cons c cs => simp [noDigitHead] at hr; simp [takeDigits, hr]
  | cons d ds ih =>
    have := ih (fun c hc => hd c (by simp [hc]))
    simp [takeDigits, hd d (by simp), this]

/-! ### printed releases -/

/-- `.b.c…` -/
def tailChars : List Nat → List Char
  | [] => []
  | b :: r => '.' :: (D b ++ tailChars r)

/-- the characters of `relText (a :: r)` -/
def relChars : List Nat → List Char
  | [] => []
  | a :: r => D a ++ tailChars r

theorem relText_toList : ∀ (r : List Nat), (relText r).toList = relChars r
  | [] => by simp [relText, joinWith, relChars]
  | [a] => by simp [relText, joinWith, relChars, tailChars, natToString_toList]
  | a :: b :: r => by
    have ih := relText_toList (b :: r)
    simp only [relText, List.map_cons, joinWith, String.toList_append, natToString_toList] at ih ⊢
    rw [ih]
    simp [relChars, tailChars]

theorem noDigitHead_tailChars (r : List Nat) : noDigitHead (tailChars r) = true := by
  cases r with
  | nil => rfl
  | cons b r => simp only [tailChars, noDigitHead]; decide

/-- a character that printed releases consist of -/
def plainChar (c : Char) : Bool := isDigit c || c == '.'

theorem plain_tailChars (r : List Nat) : ∀ c ∈ tailChars r, plainChar c = true := by
  induction r with
  | nil => simp [tailChars]
  | cons b r ih =>
    intro c hc
    simp only [tailChars, List.mem_cons, List.mem_append] at hc
    rcases hc with rfl | hc | hc
    · decide
    · simp [plainChar, D_isDigit b c hc]
    · exact ih c hc

theorem plain_relChars (r : List Nat) : ∀ c ∈ relChars r, plainChar c = true := by
  cases r with
  | nil => simp [relChars]
  | cons a r =>
    intro c hc
    simp only [relChars, List.mem_append] at hc
    rcases hc with hc | hc
    · simp [plainChar, D_isDigit a c hc]
    · exact plain_tailChars r c hc

theorem lowerChar_plain (c : Char) (h : plainChar c = true) : lowerChar c = c := by
  simp only [plainChar, Bool.or_eq_true, beq_iff_eq] at h
  unfold lowerChar
  rcases h with h | rfl
  · have : ¬ (('A' ≤ c && c ≤ 'Z') = true) := by
      rw [isDigit_iff] at h
      simp only [Char.isDigit, Bool.and_eq_true, decide_eq_true_eq, ge_iff_le] at h
      simp only [Bool.and_eq_true, decide_eq_true_eq, Char.le_def, not_and]
      intro h1
      have : (65 : UInt32) ≤ c.val := by simpa using h1
      have h2 := h.2
      intro _
      have : (65 : UInt32) ≤ 57 := UInt32.le_trans this h2
      exact absurd this (by decide)
    simp [this]
  · decide

theorem map_lowerChar_plain (l : List Char) (h : ∀ c ∈ l, plainChar c = true) : l.map lowerChar = l := by
  induction l with
  | nil => rfl
  | cons c cs ih => simp [lowerChar_plain c (h c (by simp)), ih (fun d hd => h d (by simp [hd]))]

theorem moreRelease_tailChars (r : List Nat) (fuel : Nat) (hf : r.length ≤ fuel) :
    moreRelease fuel (tailChars r) = (r, []) := by
  induction r generalizing fuel with
  | nil => cases fuel <;> simp [moreRelease, tailChars]
  | cons b r ih =>
    cases fuel with
    | zero => simp at hf
    | succ f =>
      simp only [tailChars, moreRelease]
      rw [takeDigits_append (D b) (tailChars r) (D_isDigit b) (noDigitHead_tailChars r)]
      have hne : (D b).isEmpty = false := by
        cases h : D b with
        | nil => exact absurd h (D_ne_nil b)
        | cons _ _ => rfl
      simp only [hne, Bool.false_eq_true, if_false]
      rw [ih f (by simpa using hf)]
      simp [digitsToNat_D]

theorem length_tailChars (r : List Nat) : r.length ≤ (tailChars r).length := by
  induction r with
  | nil => simp
  | cons b r ih => simp [tailChars]; omega

theorem D_head_notSpace (n : Nat) : ∃ c cs, D n = c :: cs ∧ isDigit c = true := by
  cases h : D n with
  | nil => exact absurd h (D_ne_nil n)
  | cons c cs => exact ⟨c, cs, rfl, D_isDigit n c (by simp [h])⟩

theorem isSpace_of_isDigit {c : Char} (h : isDigit c = true) : isSpace c = false := by
  rw [isDigit_iff] at h
  simp only [Char.isDigit, Bool.and_eq_true, decide_eq_true_eq, ge_iff_le] at h
  have h1 : 48 ≤ c.toNat := by
    have := UInt32.le_iff_toNat_le.1 h.1; exact this
  have h2 : c.toNat ≤ 57 := by
    have := UInt32.le_iff_toNat_le.1 h.2; exact this
  simp only [isSpace]
  simp only [Bool.or_eq_false_iff, beq_eq_false_iff_ne, ne_eq, Bool.and_eq_false_iff, decide_eq_false_iff_not]
  omega

/-- the final release with the given numbers, as the version parser returns it for canonical text -/
def finalV (rel : List Nat) : Version := ⟨0, rel, none, none, none, none, relText rel⟩

theorem relChars_dropSpaces (a : Nat) (r : List Nat) : dropSpaces (relChars (a :: r)) = relChars (a :: r) := by
  obtain ⟨c, cs, hD, hc⟩ := D_head_notSpace a
  simp [relChars, hD, dropSpaces, isSpace_of_isDigit hc]

/-- the body of the version pattern on a printed final release: everything is consumed -/
theorem parseBody_relChars (t : String) (a : Nat) (r : List Nat) :
    parseBody t (relChars (a :: r)) = some (⟨0, a :: r, none, none, none, none, t⟩, []) := by
  obtain ⟨c, cs, hD, hc⟩ := D_head_notSpace a
  have hv : stripV (relChars (a :: r)) = relChars (a :: r) := by
    simp only [relChars, hD, List.cons_append, stripV]
    split
    · rename_i heq; simp at heq; rw [heq.1] at hc; exact absurd hc (by decide)
    · rfl
  have her : parseEpochRelease (relChars (a :: r)) = some (0, a :: r, []) := by
    have htd := takeDigits_append (D a) (tailChars r) (D_isDigit a) (noDigitHead_tailChars r)
    have hne : (D a).isEmpty = false := by simp [hD]
    simp only [parseEpochRelease, relChars, htd, hne, Bool.false_eq_true, if_false]
    have hnb : ∀ cs', tailChars r ≠ '!' :: cs' := by
      intro cs' h; cases r <;> simp [tailChars] at h
    have : (match tailChars r with
        | '!' :: cs =>
          let (d, r') := takeDigits cs
          if d.isEmpty then ((0 : Nat), D a, tailChars r) else (digitsToNat (D a), d, r')
        | _ => (0, D a, tailChars r)) = (0, D a, tailChars r) := by
      split
      · rename_i cs' h; exact absurd h (hnb cs')
      · rfl
    simp only [this]
    rw [moreRelease_tailChars r _ (length_tailChars r)]
    simp [digitsToNat_D]
  unfold parseBody
  simp only [hv, her]
  have e1 : parsePre [] = (none, []) := by decide
  have e2 : parsePost [] = (none, []) := by decide
  have e3 : parseDev [] = (none, []) := by decide
  have e4 : parseLocal [] = (none, []) := by decide
  simp [e1, e2, e3, e4]

/-- **`Version.parse` reads a printed final release back.** -/
theorem parse_relText (a : Nat) (r : List Nat) : Version.parse (relText (a :: r)) = .ok (finalV (a :: r)) := by
  obtain ⟨c, cs, hD, hc⟩ := D_head_notSpace a
  have hlow : (relText (a :: r)).toList.map lowerChar = relChars (a :: r) := by
    rw [relText_toList]; exact map_lowerChar_plain _ (plain_relChars _)
  have hne : (relText (a :: r)).isEmpty = false := by
    have : (relText (a :: r)).toList ≠ [] := by
      rw [relText_toList]; simp [relChars, hD]
    simpa [String.isEmpty_iff, ← String.toList_eq_nil_iff] using this
  unfold Version.parse
  simp only [hlow, relChars_dropSpaces, parseBody_relChars]
  simp [dropSpaces, hne, finalV]

end Poetry
