/-
Helper lemmas for C19 (marker simplifier part): which error values the mutual block of
`Model/MarkerAlg.lean` (`intersection`/`union`/`cnf`/`dnf`/`MultiMarker.of`/`MarkerUnion.of`/…) and
`_merge_single_markers` can return.  One induction on the fuel covers the sixteen functions at once
(`errAt`), parametrised by the class `E` of errors of the leaf merge; the merge is classified separately.
-/
import PoetryVerif.Proofs.ParserTotalReq
import PoetryVerif.Proofs.MarkerAlgSoundOps

set_option linter.unusedSimpArgs false
set_option linter.unusedVariables false

namespace Poetry.ParserTotal
open Poetry Marker

/-! ## the mutual block -/

/-- what the block itself adds to the errors `E` of `_merge_single_markers`: fuel exhaustion (model only)
and the `RecursionError` of `detect_recursion` -/
def BlockErr (E : PyErr → Prop) (e : PyErr) : Prop := e = .fuel ∨ e = .recursion ∨ E e

structure ErrAt (E : PyErr → Prop) (n : Nat) : Prop where
  inter : ∀ stk a b e, mIntersect n stk a b = .error e → BlockErr E e
  uni : ∀ stk a b e, mUnion n stk a b = .error e → BlockErr E e
  interF : ∀ stk ms e, intersectionF n stk ms = .error e → BlockErr E e
  uniF : ∀ stk ms e, unionF n stk ms = .error e → BlockErr E e
  cnf : ∀ stk m e, cnf n stk m = .error e → BlockErr E e
  dnf : ∀ stk m e, dnf n stk m = .error e → BlockErr E e
  mOf : ∀ stk ms e, multiOf n stk ms = .error e → BlockErr E e
  mLoop : ∀ stk old new e, multiOfLoop n stk old new = .error e → BlockErr E e
  mPass : ∀ stk todo new e, multiPass n stk todo new = .error e → BlockErr E e
  mTry : ∀ stk marker all i remaining e, multiTry n stk marker all i remaining = .error e → BlockErr E e
  uOf : ∀ stk ms e, unionOf n stk ms = .error e → BlockErr E e
  uLoop : ∀ stk old new e, unionOfLoop n stk old new = .error e → BlockErr E e
  uPass : ∀ stk todo new e, unionPass n stk todo new = .error e → BlockErr E e
  uTry : ∀ stk marker all i remaining e, unionTry n stk marker all i remaining = .error e → BlockErr E e
  iSimp : ∀ stk ours other e, intersectSimplify n stk ours other = .error e → BlockErr E e
  uSimp : ∀ stk ours other e, unionSimplify n stk ours other = .error e → BlockErr E e

/-- the errors of the leaf merge lie in `E` -/
def MergeErrIn (E : PyErr → Prop) : Prop := ∀ l1 l2 b e, mergeLeaves l1 l2 b = .error e → E e

variable {E : PyErr → Prop}

set_option hygiene false in
/-- close a goal `BlockErr E e` from `h : … = .error e` by an induction hypothesis or a literal error -/
local macro "fin_err" : tactic => `(tactic| first
  | exact ih.inter _ _ _ _ h | exact ih.uni _ _ _ _ h | exact ih.interF _ _ _ h | exact ih.uniF _ _ _ h
  | exact ih.cnf _ _ _ h | exact ih.dnf _ _ _ h | exact ih.mOf _ _ _ h | exact ih.mLoop _ _ _ _ h
  | exact ih.mPass _ _ _ _ h | exact ih.mTry _ _ _ _ _ _ h | exact ih.uOf _ _ _ h
  | exact ih.uLoop _ _ _ _ h | exact ih.uPass _ _ _ _ h | exact ih.uTry _ _ _ _ _ _ h
  | exact ih.iSimp _ _ _ _ h | exact ih.uSimp _ _ _ _ h
  | exact Or.inr (Or.inr (hM _ _ _ _ h))
  | (cases h; done)
  | (cases h; exact Or.inl rfl)
  | (cases h; exact Or.inr (Or.inl rfl))
  | (simp [pure, Except.pure] at h; done))

set_option hygiene false in
local macro "err_auto" : tactic => `(tactic| repeat' (first
  | fin_err
  | (rcases bind_err _ _ _ h with h | ⟨_, _, h⟩)
  | (split at h)))

theorem mapCnf_err {n : Nat} {stk : Stack} (hc : ∀ m e, cnf n stk m = .error e → BlockErr E e) :
    ∀ ms e, mapCnf n stk ms = .error e → BlockErr E e := by
  intro ms
  induction ms with
  | nil => intro e h; rw [mapCnf.eq_def] at h; cases h
  | cons m ms ihl =>
    intro e h
    rw [mapCnf.eq_def] at h
    simp only at h
    rcases bind_err _ _ _ h with h | ⟨_, _, h⟩
    · exact hc _ _ h
    · rcases bind_err _ _ _ h with h | ⟨_, _, h⟩
      · exact ihl _ h
      · simp [pure, Except.pure] at h

theorem mapDnf_err {n : Nat} {stk : Stack} (hc : ∀ m e, dnf n stk m = .error e → BlockErr E e) :
    ∀ ms e, mapDnf n stk ms = .error e → BlockErr E e := by
  intro ms
  induction ms with
  | nil => intro e h; rw [mapDnf.eq_def] at h; cases h
  | cons m ms ihl =>
    intro e h
    rw [mapDnf.eq_def] at h
    simp only at h
    rcases bind_err _ _ _ h with h | ⟨_, _, h⟩
    · exact hc _ _ h
    · rcases bind_err _ _ _ h with h | ⟨_, _, h⟩
      · exact ihl _ h
      · simp [pure, Except.pure] at h

theorem mapUnionOf_err {n : Nat} {stk : Stack} (hc : ∀ m e, unionOf n stk m = .error e → BlockErr E e) :
    ∀ ms e, mapUnionOf n stk ms = .error e → BlockErr E e := by
  intro ms
  induction ms with
  | nil => intro e h; rw [mapUnionOf.eq_def] at h; cases h
  | cons m ms ihl =>
    intro e h
    rw [mapUnionOf.eq_def] at h
    simp only at h
    rcases bind_err _ _ _ h with h | ⟨_, _, h⟩
    · exact hc _ _ h
    · rcases bind_err _ _ _ h with h | ⟨_, _, h⟩
      · exact ihl _ h
      · simp [pure, Except.pure] at h

theorem mapMultiOf_err {n : Nat} {stk : Stack} (hc : ∀ m e, multiOf n stk m = .error e → BlockErr E e) :
    ∀ ms e, mapMultiOf n stk ms = .error e → BlockErr E e := by
  intro ms
  induction ms with
  | nil => intro e h; rw [mapMultiOf.eq_def] at h; cases h
  | cons m ms ihl =>
    intro e h
    rw [mapMultiOf.eq_def] at h
    simp only at h
    rcases bind_err _ _ _ h with h | ⟨_, _, h⟩
    · exact hc _ _ h
    · rcases bind_err _ _ _ h with h | ⟨_, _, h⟩
      · exact ihl _ h
      · simp [pure, Except.pure] at h

theorem mIntersect_estep (hM : MergeErrIn E) {n : Nat} (ih : ErrAt E n) :
    ∀ stk a b e, mIntersect (n + 1) stk a b = .error e → BlockErr E e := by
  intro stk a b e h
  rw [mIntersect.eq_def] at h
  simp only at h
  err_auto

theorem mUnion_estep (hM : MergeErrIn E) {n : Nat} (ih : ErrAt E n) :
    ∀ stk a b e, mUnion (n + 1) stk a b = .error e → BlockErr E e := by
  intro stk a b e h
  rw [mUnion.eq_def] at h
  simp only at h
  err_auto

theorem unionF_estep (hM : MergeErrIn E) {n : Nat} (ih : ErrAt E n) :
    ∀ stk ms e, unionF (n + 1) stk ms = .error e → BlockErr E e := by
  intro stk ms e h
  rw [unionF.eq_def] at h
  simp only [minByComplexity] at h
  split at h
  · cases h; exact Or.inr (Or.inl rfl)
  · generalize unwrapSingleton (ms.length + 2) (mkUnion (ms.filter (fun m => !m.isEmpty))) = U at h
    cases hd : Marker.cnf n ((true, ms) :: stk) U with
    | error e' => simp only [hd] at h; cases h; exact ih.cnf _ _ _ hd
    | ok d =>
      simp only [hd] at h
      split at h
      · rename_i us
        cases hc : Marker.dnf n ((true, ms) :: stk) (M.multi us) with
        | error e' =>
          simp only [hc] at h
          cases e' <;> simp only at h <;> first
            | (cases h; done)
            | (cases h; exact ih.dnf _ _ _ hc)
        | ok c =>
          simp only [hc] at h
          split at h <;> cases h
      · cases h

theorem intersectionF_estep (hM : MergeErrIn E) {n : Nat} (ih : ErrAt E n) :
    ∀ stk ms e, intersectionF (n + 1) stk ms = .error e → BlockErr E e := by
  intro stk ms e h
  rw [intersectionF.eq_def] at h
  simp only [minByComplexity] at h
  split at h
  · cases h; exact Or.inr (Or.inl rfl)
  · generalize unwrapSingleton (ms.length + 2) (mkMulti (ms.filter (fun m => !m.isAny))) = U at h
    cases hd : Marker.dnf n ((false, ms) :: stk) U with
    | error e' => simp only [hd] at h; cases h; exact ih.dnf _ _ _ hd
    | ok d =>
      simp only [hd] at h
      split at h
      · rename_i us
        cases hc : Marker.cnf n ((false, ms) :: stk) (M.union us) with
        | error e' =>
          simp only [hc] at h
          cases e' <;> simp only at h <;> first
            | (cases h; done)
            | (cases h; exact ih.cnf _ _ _ hc)
        | ok c =>
          simp only [hc] at h
          split at h <;> cases h
      · cases h

theorem cnf_estep (hM : MergeErrIn E) {n : Nat} (ih : ErrAt E n) :
    ∀ stk m e, Marker.cnf (n + 1) stk m = .error e → BlockErr E e := by
  intro stk m e h
  rw [cnf.eq_def] at h
  simp only at h
  cases m with
  | union ms =>
    simp only at h
    rcases bind_err _ _ _ h with h | ⟨_, _, h⟩
    · exact mapCnf_err (ih.cnf stk) _ _ h
    · rcases bind_err _ _ _ h with h | ⟨_, _, h⟩
      · exact mapUnionOf_err (ih.uOf stk) _ _ h
      · exact ih.mOf _ _ _ h
  | multi ms =>
    simp only at h
    rcases bind_err _ _ _ h with h | ⟨_, _, h⟩
    · exact mapCnf_err (ih.cnf stk) _ _ h
    · exact ih.mOf _ _ _ h
  | any => simp at h
  | empty => simp at h
  | leaf l => simp at h

theorem dnf_estep (hM : MergeErrIn E) {n : Nat} (ih : ErrAt E n) :
    ∀ stk m e, Marker.dnf (n + 1) stk m = .error e → BlockErr E e := by
  intro stk m e h
  rw [dnf.eq_def] at h
  simp only at h
  cases m with
  | multi ms =>
    simp only at h
    rcases bind_err _ _ _ h with h | ⟨_, _, h⟩
    · exact mapDnf_err (ih.dnf stk) _ _ h
    · rcases bind_err _ _ _ h with h | ⟨_, _, h⟩
      · exact mapMultiOf_err (ih.mOf stk) _ _ h
      · exact ih.uOf _ _ _ h
  | union ms =>
    simp only at h
    rcases bind_err _ _ _ h with h | ⟨_, _, h⟩
    · exact mapDnf_err (ih.dnf stk) _ _ h
    · exact ih.uOf _ _ _ h
  | any => simp at h
  | empty => simp at h
  | leaf l => simp at h

theorem multiOf_estep (hM : MergeErrIn E) {n : Nat} (ih : ErrAt E n) :
    ∀ stk ms e, multiOf (n + 1) stk ms = .error e → BlockErr E e := by
  intro stk ms e h
  rw [multiOf.eq_def] at h
  simp only at h
  err_auto

theorem multiOfLoop_estep (hM : MergeErrIn E) {n : Nat} (ih : ErrAt E n) :
    ∀ stk old new e, multiOfLoop (n + 1) stk old new = .error e → BlockErr E e := by
  intro stk old new e h
  rw [multiOfLoop.eq_def] at h
  simp only at h
  err_auto

theorem multiPass_estep (hM : MergeErrIn E) {n : Nat} (ih : ErrAt E n) :
    ∀ stk todo new e, multiPass (n + 1) stk todo new = .error e → BlockErr E e := by
  intro stk todo new e h
  rw [multiPass.eq_def] at h
  simp only at h
  err_auto

theorem multiTry_estep (hM : MergeErrIn E) {n : Nat} (ih : ErrAt E n) :
    ∀ stk marker all i remaining e, multiTry (n + 1) stk marker all i remaining = .error e → BlockErr E e := by
  intro stk marker all i remaining e h
  rw [multiTry.eq_def] at h
  simp only at h
  err_auto

theorem unionOf_estep (hM : MergeErrIn E) {n : Nat} (ih : ErrAt E n) :
    ∀ stk ms e, unionOf (n + 1) stk ms = .error e → BlockErr E e := by
  intro stk ms e h
  rw [unionOf.eq_def] at h
  simp only at h
  err_auto

theorem unionOfLoop_estep (hM : MergeErrIn E) {n : Nat} (ih : ErrAt E n) :
    ∀ stk old new e, unionOfLoop (n + 1) stk old new = .error e → BlockErr E e := by
  intro stk old new e h
  rw [unionOfLoop.eq_def] at h
  simp only at h
  err_auto

theorem unionPass_estep (hM : MergeErrIn E) {n : Nat} (ih : ErrAt E n) :
    ∀ stk todo new e, unionPass (n + 1) stk todo new = .error e → BlockErr E e := by
  intro stk todo new e h
  rw [unionPass.eq_def] at h
  simp only at h
  err_auto

theorem unionTry_estep (hM : MergeErrIn E) {n : Nat} (ih : ErrAt E n) :
    ∀ stk marker all i remaining e, unionTry (n + 1) stk marker all i remaining = .error e → BlockErr E e := by
  intro stk marker all i remaining e h
  rw [unionTry.eq_def] at h
  simp only at h
  err_auto

theorem intersectSimplify_estep (hM : MergeErrIn E) {n : Nat} (ih : ErrAt E n) :
    ∀ stk ours other e, intersectSimplify (n + 1) stk ours other = .error e → BlockErr E e := by
  intro stk ours other e h
  rw [intersectSimplify.eq_def] at h
  simp only at h
  err_auto

theorem unionSimplify_estep (hM : MergeErrIn E) {n : Nat} (ih : ErrAt E n) :
    ∀ stk ours other e, unionSimplify (n + 1) stk ours other = .error e → BlockErr E e := by
  intro stk ours other e h
  rw [unionSimplify.eq_def] at h
  simp only at h
  err_auto

theorem errAt_zero : ErrAt E 0 where
  inter := by intro stk a b e h; rw [mIntersect.eq_def] at h; cases h; exact .inl rfl
  uni := by intro stk a b e h; rw [mUnion.eq_def] at h; cases h; exact .inl rfl
  interF := by intro stk ms e h; rw [intersectionF.eq_def] at h; cases h; exact .inl rfl
  uniF := by intro stk ms e h; rw [unionF.eq_def] at h; cases h; exact .inl rfl
  cnf := by intro stk m e h; rw [cnf.eq_def] at h; cases h; exact .inl rfl
  dnf := by intro stk m e h; rw [dnf.eq_def] at h; cases h; exact .inl rfl
  mOf := by intro stk ms e h; rw [multiOf.eq_def] at h; cases h; exact .inl rfl
  mLoop := by intro stk old new e h; rw [multiOfLoop.eq_def] at h; cases h; exact .inl rfl
  mPass := by intro stk todo new e h; rw [multiPass.eq_def] at h; cases h; exact .inl rfl
  mTry := by intro stk marker all i remaining e h; rw [multiTry.eq_def] at h; cases h; exact .inl rfl
  uOf := by intro stk ms e h; rw [unionOf.eq_def] at h; cases h; exact .inl rfl
  uLoop := by intro stk old new e h; rw [unionOfLoop.eq_def] at h; cases h; exact .inl rfl
  uPass := by intro stk todo new e h; rw [unionPass.eq_def] at h; cases h; exact .inl rfl
  uTry := by intro stk marker all i remaining e h; rw [unionTry.eq_def] at h; cases h; exact .inl rfl
  iSimp := by intro stk ours other e h; rw [intersectSimplify.eq_def] at h; cases h; exact .inl rfl
  uSimp := by intro stk ours other e h; rw [unionSimplify.eq_def] at h; cases h; exact .inl rfl

/-- **Error classification of the whole mutual block**, by induction on the fuel: for every fuel, recursion
stack and argument, an error is fuel exhaustion, `RecursionError`, or an error of the leaf merge.  In
particular the `RuntimeError` branches after `min(…, key=complexity)` are dead (the candidate list is never
empty), and nothing in the block itself raises `AssertionError`/`IndexError`/`KeyError`/`AttributeError`/… -/
theorem errAt (hM : MergeErrIn E) : ∀ n, ErrAt E n
  | 0 => errAt_zero
  | n + 1 =>
    have ih := errAt hM n
    { inter := mIntersect_estep hM ih
      uni := mUnion_estep hM ih
      interF := intersectionF_estep hM ih
      uniF := unionF_estep hM ih
      cnf := cnf_estep hM ih
      dnf := dnf_estep hM ih
      mOf := multiOf_estep hM ih
      mLoop := multiOfLoop_estep hM ih
      mPass := multiPass_estep hM ih
      mTry := multiTry_estep hM ih
      uOf := unionOf_estep hM ih
      uLoop := unionOfLoop_estep hM ih
      uPass := unionPass_estep hM ih
      uTry := unionTry_estep hM ih
      iSimp := intersectSimplify_estep hM ih
      uSimp := unionSimplify_estep hM ih }

/-! ## the string-constraint algebra: `ValueError` at most, on ALL operands -/

open Generic in
theorem multiIntersectM_err (x : Bool) (cs ds : List Generic.Atom) (e : PyErr)
    (h : multiIntersectM x cs ds = .error e) : e = .value := by
  unfold multiIntersectM at h
  split at h
  · cases h
  · exact mkMulti_err _ _ _ h

open Generic in
theorem intersectS_err (a b : GS) (e : PyErr) (h : a.intersectS b = .error e) : e = .value := by
  cases a <;> cases b <;> simp only [GS.intersectS] at h
  all_goals first
    | (cases h; done)
    | exact intersectA_err _ _ _ h
    | exact multiIntersectA_err _ _ _ _ h
    | exact multiIntersectM_err _ _ _ _ h

open Generic in
theorem crossRow_err (our : GS) : ∀ (ns new : List GS) (e : PyErr), crossRow our ns new = .error e → e = .value := by
  intro ns
  induction ns with
  | nil => intro new e h; simp [crossRow] at h
  | cons t ns ih =>
    intro new e h
    unfold crossRow at h
    cases hi : our.intersectS t with
    | error e' => simp only [hi] at h; cases h; exact intersectS_err _ _ _ hi
    | ok r => simp only [hi] at h; exact ih _ _ h

open Generic in
theorem crossAll_err : ∀ (ms ns new : List GS) (e : PyErr), crossAll ms ns new = .error e → e = .value := by
  intro ms
  induction ms with
  | nil => intro ns new e h; simp [crossAll] at h
  | cons our ms ih =>
    intro ns new e h
    unfold crossAll at h
    cases hi : crossRow our ns new with
    | error e' => simp only [hi] at h; cases h; exact crossRow_err _ _ _ _ hi
    | ok r => simp only [hi] at h; exact ih _ _ _ h

open Generic in
theorem distAll_err : ∀ (ms : List GS) (ds : List Generic.Atom) (new : List GS) (e : PyErr),
    distAll ms ds new = .error e → e = .value := by
  intro ms
  induction ms with
  | nil => intro ds new e h; simp [distAll] at h
  | cons our ms ih =>
    intro ds new e h
    unfold distAll at h
    cases hi : foldIntersect our ds with
    | error e' => simp only [hi] at h; cases h; exact foldIntersect_err _ _ _ hi
    | ok r => simp only [hi] at h; exact ih _ _ _ h

open Generic in
/-- `UnionConstraint.intersect`: its final `assert` is dead (an atom was wrapped, any/empty returned early) -/
theorem unionIntersect_err (ms : List GS) (o : GC) (e : PyErr) (h : unionIntersect ms o = .error e) :
    e = .value := by
  unfold unionIntersect at h
  have fin : ∀ (ns : List GS), (match crossAll ms ns [] with
      | .error e => (Except.error e : PyM GC)
      | .ok new => .ok (finishIntersect new)) = .error e → e = .value := by
    intro ns h'
    cases hc : crossAll ms ns [] with
    | error e' => simp only [hc] at h'; cases h'; exact crossAll_err _ _ _ _ hc
    | ok r => simp [hc] at h'
  cases o with
  | s c =>
    cases c with
    | any => simp [GC.isAny, GS.isAny] at h
    | empty => simp [GC.isAny, GS.isAny, GC.isEmpty, GS.isEmpty] at h
    | atom a =>
      simp only [GC.isAny, GS.isAny, GC.isEmpty, GS.isEmpty, Bool.false_eq_true, if_false] at h
      repeat' split at h
      all_goals first
        | (cases h; done)
        | exact fin _ h
        | (rename_i hc; cases h; exact crossAll_err _ _ _ _ hc)
    | multi x ds =>
      simp only [GC.isAny, GS.isAny, GC.isEmpty, GS.isEmpty, Bool.false_eq_true, if_false] at h
      cases hc : distAll ms ds [] with
      | error e' => simp only [hc] at h; cases h; exact distAll_err _ _ _ _ hc
      | ok r => simp [hc] at h
  | union ns =>
    simp only [GC.isAny, GC.isEmpty, Bool.false_eq_true, if_false] at h
    repeat' split at h
    all_goals first
      | (cases h; done)
      | exact fin _ h
      | (rename_i hc; cases h; exact crossAll_err _ _ _ _ hc)

open Generic in
/-- **`intersect` on string constraints raises `ValueError` at most — every pair of constraint objects.** -/
theorem gc_intersect_err (a b : GC) (e : PyErr) (h : a.intersect b = .error e) : e = .value := by
  unfold GC.intersect at h
  split at h
  · cases h
  · cases h
  · split at h
    · rename_i hi; cases h; exact intersectS_err _ _ _ hi
    · cases h
  · exact unionIntersect_err _ _ _ h
  · exact unionIntersect_err _ _ _ h

open Generic in
theorem unionA_err (a o : Generic.Atom) (e : PyErr) (h : a.unionA o = .error e) : e = .value := by
  unfold Atom.unionA at h
  simp only at h
  repeat' split at h
  all_goals first
    | (cases h; done)
    | (rename_i hc; cases h; exact atom_invert_err _ _ hc)

open Generic in
theorem multiUnionA_err (x : Bool) (cs : List Generic.Atom) (o : Generic.Atom) (e : PyErr)
    (h : multiUnionA x cs o = .error e) : e = .value := by
  unfold multiUnionA at h
  repeat' split at h
  all_goals first
    | (cases h; done)
    | (rename_i hc; cases h; exact mkMulti_err _ _ _ hc)

open Generic in
theorem multiUnionM_err (x : Bool) (cs : List Generic.Atom) (y : Bool) (ds : List Generic.Atom) (e : PyErr)
    (h : multiUnionM x cs y ds = .error e) : e = .value := by
  unfold multiUnionM at h
  simp only at h
  repeat' split at h
  all_goals first
    | (cases h; done)
    | (rename_i hc; cases h; exact mkMulti_err _ _ _ hc)

open Generic in
theorem unionS_err (a b : GS) (e : PyErr) (h : a.unionS b = .error e) : e = .value := by
  cases a <;> cases b <;> simp only [GS.unionS] at h
  all_goals first
    | (cases h; done)
    | exact unionA_err _ _ _ h
    | exact multiUnionA_err _ _ _ _ h
    | exact multiUnionM_err _ _ _ _ _ h

open Generic in
theorem uStep_err (st : UState) (our their : GS) (e : PyErr) (h : uStep st our their = .error e) :
    e = .value := by
  unfold uStep at h
  cases hu : our.unionS their with
  | error e' => simp only [hu] at h; cases h; exact unionS_err _ _ _ hu
  | ok u =>
    simp only [hu] at h
    repeat' split at h
    all_goals (cases h; done)

open Generic in
theorem uRow_err (their : GS) : ∀ (ms : List GS) (st : UState) (e : PyErr), uRow their ms st = .error e →
    e = .value := by
  intro ms
  induction ms with
  | nil => intro st e h; simp [uRow] at h
  | cons our ms ih =>
    intro st e h
    unfold uRow at h
    cases hs : uStep st our their with
    | error e' => simp only [hs] at h; cases h; exact uStep_err _ _ _ _ hs
    | ok r =>
      simp only [hs] at h
      cases r with
      | none => simp at h
      | some st' => simp only at h; exact ih _ _ h

open Generic in
theorem uLoop_err : ∀ (ns ms : List GS) (st : UState) (e : PyErr), uLoop ns ms st = .error e → e = .value := by
  intro ns
  induction ns with
  | nil => intro ms st e h; simp [uLoop] at h
  | cons their ns ih =>
    intro ms st e h
    unfold uLoop at h
    cases hs : uRow their ms st with
    | error e' => simp only [hs] at h; cases h; exact uRow_err _ _ _ _ hs
    | ok r =>
      simp only [hs] at h
      cases r with
      | none => simp at h
      | some st' => simp only at h; exact ih _ _ _ h

open Generic in
/-- `UnionConstraint.union`: its final `assert` is dead -/
theorem unionUnion_err (ms : List GS) (o : GC) (e : PyErr) (h : unionUnion ms o = .error e) : e = .value := by
  unfold unionUnion at h
  have fin : ∀ (ns : List GS), (match uLoop ns ms ⟨[], [], []⟩ with
      | .error e => (Except.error e : PyM GC)
      | .ok none => .ok .any
      | .ok (some st) => .ok (finishUnion ((st.theirs ++ st.merged).foldl addNew st.ours))) = .error e →
      e = .value := by
    intro ns h'
    cases hc : uLoop ns ms ⟨[], [], []⟩ with
    | error e' => simp only [hc] at h'; cases h'; exact uLoop_err _ _ _ _ hc
    | ok r => cases r <;> simp [hc] at h'
  cases o with
  | s c =>
    cases c with
    | any => simp [GC.isAny, GS.isAny] at h
    | empty => simp [GC.isAny, GS.isAny, GC.isEmpty, GS.isEmpty] at h
    | atom a =>
      simp only [GC.isAny, GS.isAny, GC.isEmpty, GS.isEmpty, Bool.false_eq_true, if_false] at h
      split at h
      · cases h
      · exact fin _ h
    | multi x ds =>
      simp only [GC.isAny, GS.isAny, GC.isEmpty, GS.isEmpty, Bool.false_eq_true, if_false] at h
      repeat' split at h
      all_goals (cases h; done)
  | union ns =>
    simp only [GC.isAny, GC.isEmpty, Bool.false_eq_true, if_false] at h
    split at h
    · cases h
    · exact fin _ h

open Generic in
/-- **`union` on string constraints raises `ValueError` at most — every pair of constraint objects.** -/
theorem gc_unionWith_err (a b : GC) (e : PyErr) (h : a.unionWith b = .error e) : e = .value := by
  unfold GC.unionWith at h
  split at h
  · cases h
  · cases h
  · exact unionS_err _ _ _ h
  · exact unionUnion_err _ _ _ h
  · exact unionUnion_err _ _ _ h
  · exact unionUnion_err _ _ _ h

/-! ## `_merge_single_markers` -/

/-- the residue: an error escaping from the VERSION-constraint algebra or printer
(`VersionConstraint.intersect` / `.union`, `is_simple()`, `str()`), on any operands -/
def VCAlgErr (e : PyErr) : Prop :=
  (∃ a b : VC, a.intersect b = .error e) ∨ (∃ a b : VC, a.unionWith b = .error e) ∨
  (∃ c : VC, c.isSimple = .error e) ∨ (∃ c : VC, c.toStr = .error e)

/-- the two `assert isinstance(marker, SingleMarker)` of the python_version / python_full_version case,
reached with an `AtomicMultiMarker`/`AtomicMarkerUnion` named `python_version`/`python_full_version` -/
def PyPairAssert (e : PyErr) : Prop :=
  e = .assertion ∧ ∃ l1 l2 : Leaf,
    ((l1.name == "python_version" && l2.name == "python_full_version") ||
     (l1.name == "python_full_version" && l2.name == "python_version")) = true ∧
    ∀ s1 s2, l1 = .single s1 → l2 = .single s2 → False

/-- error classes of the leaf merge -/
def MergeErr (e : PyErr) : Prop :=
  e = .fuel ∨ e = .syntax ∨ e = .value ∨ e = .unmodelled ∨ VCAlgErr e ∨ PyPairAssert e

theorem MergeErr.ofLeaf {e : PyErr} (h : LeafErr e) : MergeErr e := by
  rcases h with h | h
  · exact .inr (.inr (.inl h))
  · exact .inr (.inr (.inr (.inl h)))

theorem vc_intersect_merr {a b : VC} {e : PyErr} (h : a.intersect b = .error e) : MergeErr e :=
  .inr (.inr (.inr (.inr (.inl (.inl ⟨a, b, h⟩)))))
theorem vc_unionWith_merr {a b : VC} {e : PyErr} (h : a.unionWith b = .error e) : MergeErr e :=
  .inr (.inr (.inr (.inr (.inl (.inr (.inl ⟨a, b, h⟩))))))
theorem vc_isSimple_merr {c : VC} {e : PyErr} (h : c.isSimple = .error e) : MergeErr e :=
  .inr (.inr (.inr (.inr (.inl (.inr (.inr (.inl ⟨c, h⟩)))))))
theorem vc_toStr_merr {c : VC} {e : PyErr} (h : c.toStr = .error e) : MergeErr e :=
  .inr (.inr (.inr (.inr (.inl (.inr (.inr (.inr ⟨c, h⟩)))))))

def SameKind (c1 c2 : LeafC) : Prop :=
  (∃ a b, c1 = .ver a ∧ c2 = .ver b) ∨ (∃ a b, c1 = .gen a ∧ c2 = .gen b)

/-- no `AttributeError` from mixing a version and a string constraint: the merge tests the kinds first -/
theorem leafC_intersect_merr {c1 c2 : LeafC} (hk : SameKind c1 c2) {e : PyErr}
    (h : c1.intersect c2 = .error e) : MergeErr e := by
  rcases hk with ⟨a, b, rfl, rfl⟩ | ⟨a, b, rfl, rfl⟩
  · exact vc_intersect_merr (except_map_err _ _ _ h)
  · exact .inr (.inr (.inl (gc_intersect_err _ _ _ (except_map_err _ _ _ h))))

theorem leafC_union_merr {c1 c2 : LeafC} (hk : SameKind c1 c2) {e : PyErr}
    (h : c1.union c2 = .error e) : MergeErr e := by
  rcases hk with ⟨a, b, rfl, rfl⟩ | ⟨a, b, rfl, rfl⟩
  · exact vc_unionWith_merr (except_map_err _ _ _ h)
  · exact .inr (.inr (.inl (gc_unionWith_err _ _ _ (except_map_err _ _ _ h))))

theorem mkSingleOfC_merr (hvc : VCErrDocumented) {name : String} {c : LeafC} {e : PyErr}
    (h : mkSingleOfC name c = .error e) : MergeErr e := by
  unfold mkSingleOfC at h
  rcases bind_err _ _ _ h with h | ⟨_, _, h⟩
  · cases c with
    | ver vc => exact vc_toStr_merr h
    | gen gc => simp [LeafC.toStr] at h
  · exact .ofLeaf (mkSingle_leafErr hvc _ _ _ _ h)

theorem parseItemMarker_merr (hvc : VCErrDocumented) {text : String} {e : PyErr}
    (h : parseItemMarker text = .error e) : MergeErr e := by
  unfold parseItemMarker at h
  split at h
  · rename_i hp; cases h; exact .inr (.inl (parseText_err _ _ hp))
  · rcases bind_err _ _ _ h with h | ⟨_, _, h⟩
    · exact .ofLeaf (mkSingle_leafErr hvc _ _ _ _ h)
    · simp [pure, Except.pure] at h
  · cases h; exact .inr (.inr (.inr (.inl rfl)))

theorem gpcLeaf_merr (hvc : VCErrDocumented) {l : Leaf} {e : PyErr} (h : gpcLeaf l = .error e) :
    MergeErr e := by
  unfold gpcLeaf at h
  split at h
  · cases h
  · split at h <;>
    · rcases bind_err _ _ _ h with h | ⟨_, _, h⟩
      · exact .inr (.inr (.inl (normalizePyMarkers_err _ _ h)))
      · exact .inr (.inr (.inl (hvc _ _ h)))

theorem sameKind_of_not_mixed {c1 c2 : LeafC} (h1 : ∀ a b, c1 = .ver a → c2 = .gen b → False)
    (h2 : ∀ a b, c1 = .gen a → c2 = .ver b → False) : SameKind c1 c2 := by
  cases c1 <;> cases c2
  · exact .inl ⟨_, _, rfl, rfl⟩
  · exact (h1 _ _ rfl rfl).elim
  · exact (h2 _ _ rfl rfl).elim
  · exact .inr ⟨_, _, rfl, rfl⟩

set_option hygiene false in
local macro "fin_merr" : tactic => `(tactic| first
  | with_reducible exact vc_intersect_merr h | with_reducible exact vc_unionWith_merr h
  | with_reducible exact vc_isSimple_merr h
  | with_reducible exact mkSingleOfC_merr hvc h | with_reducible exact parseItemMarker_merr hvc h
  | with_reducible exact gpcLeaf_merr hvc h
  | with_reducible exact leafC_intersect_merr hk h | with_reducible exact leafC_union_merr hk h
  | (cases h; done)
  | (simp [pure, Except.pure] at h; done))

theorem ite_err {α : Type} {c : Prop} [Decidable c] {a b x : α} (h : (if c then a else b) = x) :
    (c ∧ a = x) ∨ (¬ c ∧ b = x) := by
  by_cases hc : c
  · exact .inl ⟨hc, by rwa [if_pos hc] at h⟩
  · exact .inr ⟨hc, by rwa [if_neg hc] at h⟩

theorem ite_err_iff {α : Type} {c : Prop} [Decidable c] {a b x : α} :
    ((if c then a else b) = x) = ((c ∧ a = x) ∨ (¬ c ∧ b = x)) := by
  by_cases hc : c <;> simp [hc]

set_option hygiene false in
local macro "merr_auto" : tactic => `(tactic| repeat' (first
  | fin_merr
  | (rcases bind_err _ _ _ h with h | ⟨_, _, h⟩)
  | (rw [ite_err_iff] at h; rcases h with ⟨_, h⟩ | ⟨_, h⟩)
  | (split at h)))

/-- `_merge_python_version_single_markers`, given the classification of the nested merge -/
theorem mergePythonVersion_merr (hvc : VCErrDocumented) {d : Nat}
    (ihd : ∀ l1 l2 b e, mergeSingle d l1 l2 b = .error e → MergeErr e) :
    ∀ s1 s2 b e, mergePythonVersion d s1 s2 b = .error e → MergeErr e := by
  intro s1 s2 b e h
  rw [mergePythonVersion.eq_def] at h
  simp only at h
  split at h
  all_goals
  rcases bind_err _ _ _ h with h | ⟨nc, _, h⟩
  · exact gpcLeaf_merr hvc h
  · rcases bind_err _ _ _ h with h | ⟨nm, _, h⟩
    · exact mkSingleOfC_merr hvc h
    · rcases bind_err _ _ _ h with h | ⟨merged, _, h⟩
      · exact ihd _ _ _ _ h
      · split at h
        · simp [pure, Except.pure] at h
        · split at h
          · simp [pure, Except.pure] at h
          · split at h
            · split at h
              · simp [pure, Except.pure] at h
              · rcases bind_err _ _ _ h with h | ⟨_, _, h⟩
                · exact parseItemMarker_merr hvc h
                · simp [pure, Except.pure] at h
            · simp [pure, Except.pure] at h

/-- `_merge_single_markers`, given the classification of `_merge_python_version_single_markers` one level
down -/
theorem mergeSingle_merr (hvc : VCErrDocumented) {depth : Nat}
    (hP : ∀ d, depth = d + 1 → ∀ s1 s2 b e, mergePythonVersion d s1 s2 b = .error e → MergeErr e) :
    ∀ m1 m2 b e, mergeSingle depth m1 m2 b = .error e → MergeErr e := by
  intro m1 m2 isMulti e h
  rw [mergeSingle.eq_def] at h
  simp only at h
  by_cases hp : ((m1.name == "python_version" && m2.name == "python_full_version") ||
      (m1.name == "python_full_version" && m2.name == "python_version")) = true
  · rw [if_pos hp] at h
    cases depth with
    | zero => simp only at h; cases h; exact .inl rfl
    | succ d =>
      simp only at h
      split at h
      · exact hP d rfl _ _ _ _ h
      · rename_i hns
        cases h
        exact .inr (.inr (.inr (.inr (.inr ⟨rfl, m1, m2, hp, hns⟩))))
  · rw [if_neg hp] at h
    rcases ite_err h with ⟨_, h⟩ | ⟨_, h⟩
    · cases h
    · generalize hc1 : m1.c = c1 at h
      generalize hc2 : m2.c = c2 at h
      cases c1 with
      | ver a =>
        cases c2 with
        | gen b => dsimp only at h; cases h
        | ver b =>
          dsimp only at h
          have hk : SameKind (LeafC.ver a) (LeafC.ver b) := .inl ⟨_, _, rfl, rfl⟩
          merr_auto
      | gen a =>
        cases c2 with
        | ver b => dsimp only at h; cases h
        | gen b =>
          dsimp only at h
          have hk : SameKind (LeafC.gen a) (LeafC.gen b) := .inr ⟨_, _, rfl, rfl⟩
          merr_auto

/-- **`_merge_single_markers` as the simplifier calls it** (`VCErrDocumented`: the version-constraint
parser raises `ValueError` only). -/
theorem mergeLeaves_merr (hvc : VCErrDocumented) : MergeErrIn MergeErr := by
  intro l1 l2 b e h
  unfold mergeLeaves at h
  have h0 : ∀ m1 m2 b e, mergeSingle 0 m1 m2 b = .error e → MergeErr e :=
    mergeSingle_merr hvc (fun d hd => by cases hd)
  have h1 : ∀ m1 m2 b e, mergeSingle 1 m1 m2 b = .error e → MergeErr e :=
    mergeSingle_merr hvc (fun d hd => by cases hd; exact mergePythonVersion_merr hvc h0)
  exact mergeSingle_merr hvc (fun d hd => by cases hd; exact mergePythonVersion_merr hvc h1) _ _ _ _ h

/-! ## the simplifier, classified -/

/-- the residue of the simplifier's error classification: an error escaping from the version-constraint
algebra/printer (`VCAlgErr`), or the `assert isinstance(…, SingleMarker)` of the python_version /
python_full_version merge reached with an atomic multi/union marker of that name (`PyPairAssert`; excluded
by the invariant "markers named python_version / python_full_version are SingleMarkers", which holds for
what `_compact_markers` builds but whose preservation by the simplifier is not proved here) -/
def AlgErr (e : PyErr) : Prop := VCAlgErr e ∨ PyPairAssert e

/-- error classes of the marker simplifier -/
def SimplifierErr (e : PyErr) : Prop :=
  e = .fuel ∨ e = .recursion ∨ e = .syntax ∨ e = .value ∨ e = .unmodelled ∨ AlgErr e

theorem SimplifierErr.ofBlock {e : PyErr} (h : BlockErr MergeErr e) : SimplifierErr e := by
  rcases h with h | h | h | h | h | h | h | h
  · exact .inl h
  · exact .inr (.inl h)
  · exact .inl h
  · exact .inr (.inr (.inl h))
  · exact .inr (.inr (.inr (.inl h)))
  · exact .inr (.inr (.inr (.inr (.inl h))))
  · exact .inr (.inr (.inr (.inr (.inr (.inl h)))))
  · exact .inr (.inr (.inr (.inr (.inr (.inr h)))))

theorem simplifier_errAt (hvc : VCErrDocumented) (n : Nat) : ErrAt MergeErr n := errAt (mergeLeaves_merr hvc) n

theorem compactTop_simplifierErr (hvc : VCErrDocumented) (syn : Syn) (e : PyErr)
    (h : Req.compactTop syn = .error e) : SimplifierErr e := by
  rcases compactTop_err hvc syn e h with (h | h) | ⟨subs, _, h⟩
  · exact .inr (.inr (.inr (.inl h)))
  · exact .inr (.inr (.inr (.inr (.inl h))))
  · exact .ofBlock ((simplifier_errAt hvc _).uniF _ _ _ h)

end Poetry.ParserTotal
