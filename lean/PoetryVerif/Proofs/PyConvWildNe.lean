/-
The excluded wildcard `!=X.Y.*` (helper lemmas for C11): `parse_constraint` gives the union
`<X.Y.dev0 || >=X.(Y+1).dev0`.
-/
import PoetryVerif.Proofs.PyConvWildRange

set_option linter.unusedSimpArgs false
set_option linter.unusedVariables false

namespace Poetry.Marker
open Poetry Poetry.Version Poetry.VParser Std

attribute [local instance] lexOrd

theorem cmp_dev_dev (l1 l2 : List Nat) :
    Version.cmp (devV l1) (devV l2) = compare (stripZeros l1) (stripZeros l2) := by
  unfold Version.cmp cmpKey key preK postK devK
  simp only [devV, compare_pair, compare_self_eq, Option.isNone_none, Option.isSome_some, Option.isSome_none,
    Bool.and_self, Bool.and_true, Bool.and_false, Bool.false_eq_true, if_false, if_true]
  cases compare (stripZeros l1) (stripZeros l2) <;> simp [Ordering.then, compare_self_eq]

theorem xRange_inv2_dev (a b : Nat) :
    makeXConstraintRange (finalV [a, b]) true false =
      .ok (.union [.rng ⟨none, some (devV [a, b]), false, false⟩, .rng ⟨some (devV [a, b + 1]), none, true, false⟩]) := by
  have hc : Version.cmp (devV [a, b]) (devV [a, b + 1]) = .lt := by
    rw [cmp_dev_dev, sz_cmp_cons]; exact sz_cmp_lt_head (by omega) _ _
  have hu : (devV [a, b]).isUnstable = true := by simp [Version.isUnstable, Version.isDevrelease, devV]
  have hu' : (devV [a, b + 1]).isUnstable = true := by simp [Version.isUnstable, Version.isDevrelease, devV]
  have hp : (finalV [a, b]).isPostrelease = false := rfl
  have hs : (finalV [a, b]).isStable = true := rfl
  have hdv : (finalV [a, b]).isDevrelease = false := rfl
  have hdv' : (finalV [a, b + 1]).isDevrelease = false := rfl
  simp only [makeXConstraintRange, hdv, hp, hs, finalV_nextStable2, hdv', firstDev_finalV, if_true,
    Bool.false_eq_true, if_false, Bool.not_false]
  have heq : (devV [a, b]).eqv (devV [a, b + 1]) = false := by simp [Version.eqv, hc]
  have hlt : Version.lt (devV [a, b]) (devV [a, b + 1]) = true := by simp [Version.lt, hc]
  have hgt : Version.gt (devV [a, b]) (devV [a, b + 1]) = false := by simp [Version.gt, hc]
  simp [VC.difference, VC.any, RC.difference, RC.rngDifferenceRng, RC.allowsAny, VRange.isStrictlyLower,
    VRange.isStrictlyHigher, VRange.allowedMax, VRange.allowedMin, VRange.any, VRange.allowsLower,
    VRange.allowsHigher, optVerEq, bind, Except.bind, pure, Except.pure, hu, hu', heq, hlt, hgt, unionOfFlat,
    RC.isAny, VRange.isAny, sortRCs, insertSorted, RC.lt, VRange.cmp, RC.view, RC.min, RC.max, RC.imin, RC.imax,
    mergeLoop, VRange.isAdjacentTo]

/-- the union of `!=a.b.*` -/
def neWild (a b : Nat) : VC :=
  .union [.rng ⟨none, some (devV [a, b]), false, false⟩, .rng ⟨some (devV [a, b + 1]), none, true, false⟩]

/-- `parse_constraint("!=a.b.*")` -/
theorem parseConstraint_neStar2 (a b : Nat) :
    parseConstraint ("!=" ++ Version.relText [a, b] ++ ".*") = .ok (neWild a b) := by
  have hl : ("!=" ++ Version.relText [a, b] ++ ".*").toList = '!' :: '=' :: (_root_.Poetry.relChars [a, b] ++ ['.', '*']) := by
    simp [String.toList_append, _root_.Poetry.relText_toList]
  have hns : NoSep ("!=" ++ Version.relText [a, b] ++ ".*").toList := by
    rw [hl]
    exact noSep_cons (sp (by simp)) (noSep_cons (sp (by simp)) (noSep_append (noSep_rel _)
      (noSep_cons (sp (by simp)) (noSep_cons (sp (by simp)) (fun _ h => by cases h)))))
  have hne : "!=" ++ Version.relText [a, b] ++ ".*" ≠ "*" := by
    intro e
    have := congrArg String.toList e
    rw [hl] at this
    simp at this
  rw [parseConstraint, parseConstraintAux_single _ false hns hne, hl,
    _root_.Poetry.parseSingle_neStar false a [b] (xCore_star2 true a b), xRange_inv2_dev, neWild]

/-- a text `(c₁) or (c₂) …` whose members are conjunctions is read as their union -/
theorem parseText_unionChars (ms : List (List Char × Syn)) (hne : ms ≠ []) (hm : ∀ p ∈ ms, ConjParse p.1 p.2)
    (t : String) (ht : t.toList = unionChars (ms.map (·.1))) :
    parseText t = .ok (unionSyn (ms.map (·.2))) := by
  unfold parseText
  rw [ht]
  have hlen2 := length_unionChars (ms.map (·.1))
  simp only [List.length_map] at hlen2
  have hpos : 1 ≤ ms.length := by
    cases ms with
    | nil => exact absurd rfl hne
    | cons _ _ => simp
  obtain ⟨f, hf⟩ : ∃ f, 2 * (unionChars (ms.map (·.1))).length + 2 = f + ms.length + 4 :=
    ⟨2 * (unionChars (ms.map (·.1))).length + 2 - ms.length - 4, by omega⟩
  have := (parseSyn_union ms hne hm f [] (Or.inl rfl)).1
  simp only [List.append_nil] at this
  simp only [hf, this, skipWs, List.isEmpty_nil, if_true]

theorem conjParse_leaf (n op : String) (val : List Char) (hn : PyName n) (hop : CmpOp op) (hv : QFree val) :
    ConjParse (leafChars n op val) (.one (.item n op (String.ofList val) false)) :=
  fun f rest hr => (parseSyn_one (f + 1) n op val rest hn hop hv hr).1

/-- the text `create_nested_marker` prints for `!=a.b.*` -/
def neWildText (a b : Nat) : String :=
  "(" ++ ("python_version" ++ " " ++ "<" ++ " \"" ++ devText [a, b] ++ "\"") ++ ")" ++ " or " ++
    ("(" ++ ("python_version" ++ " " ++ ">=" ++ " \"" ++ devText [a, b + 1] ++ "\"") ++ ")")

theorem createNested_neWildText (a b : Nat) :
    createNestedMarker "python_version" (neWild a b) = .ok (neWildText a b) := by
  have hany : (neWild a b).isAny = false := rfl
  have hp1 : (devV [a, b]).precision = 2 := rfl
  have hp2 : (devV [a, b + 1]).precision = 2 := rfl
  have ht1 : (devV [a, b]).text = devText [a, b] := rfl
  have ht2 : (devV [a, b + 1]).text = devText [a, b + 1] := rfl
  unfold createNestedMarker
  rw [hany]
  simp only [Bool.false_eq_true, if_false, neWild, neWildText]
  simp [joinWith, RC.isAny, VRange.isAny, nestedRC_rng, nestedLo, nestedHi, hp1, hp2, ht1, ht2]

/-- the tree of `(python_version < "a.b.dev0") or (python_version >= "a.(b+1).dev0")` -/
def neWildSyn (a b : Nat) : Syn :=
  .more (.paren (.one (.item "python_version" "<" (devText [a, b]) false))) true
    (.one (.paren (.one (.item "python_version" ">=" (devText [a, b + 1]) false))))

theorem parseText_neWild (a b : Nat) : parseText (neWildText a b) = .ok (neWildSyn a b) := by
  have hp := parseText_unionChars
    [(leafChars "python_version" "<" (devChars [a, b]), .one (.item "python_version" "<" (devText [a, b]) false)),
     (leafChars "python_version" ">=" (devChars [a, b + 1]),
       .one (.item "python_version" ">=" (devText [a, b + 1]) false))]
    (by simp) (by
      intro p hp
      simp only [List.mem_cons, List.mem_nil_iff, or_false] at hp
      rcases hp with rfl | rfl
      · have := conjParse_leaf "python_version" "<" (devChars [a, b]) (Or.inl rfl)
          (Or.inr (Or.inr (Or.inr (Or.inl rfl)))) (devChars_qfree _)
        rwa [ofList_devChars] at this
      · have := conjParse_leaf "python_version" ">=" (devChars [a, b + 1]) (Or.inl rfl) (Or.inl rfl)
          (devChars_qfree _)
        rwa [ofList_devChars] at this)
    (neWildText a b) (by simp [neWildText, unionChars, leafChars, String.toList_append, devText_toList])
  simpa [unionSyn, neWildSyn] using hp

/-- **`!=a.b.*` through `create_nested_marker`, `parse_marker` and `validate`** (relative to the leaf specification
for `CompLeaf E`) -/
theorem createNested_neWild (E : Env) (S : LeafSpec (leafEval E) (CompLeaf E)) (X Y Z : Nat) (hE : EnvPy E X Y Z)
    (a b : Nat) (txt : String) (m : M)
    (ht : createNestedMarker "python_version" (neWild a b) = .ok txt) (hm : parseMarker txt = .ok m) :
    M.Good (CompLeaf E) m ∧ M.validate E m = .ok ((neWild a b).allowsPlain (pyV X Y Z)) := by
  rw [createNested_neWildText] at ht
  injection ht with ht
  subst ht
  obtain ⟨v1, c1⟩ := itemV_lt_dev E a [b] X Y hE.1
  obtain ⟨v2, c2⟩ := itemV_ge_dev E a [b + 1] X Y hE.1
  have hv : SynVal E (neWildSyn a b) := by
    simp only [neWildSyn, SynVal, AtomVal]
    exact ⟨⟨trivial, _, v1, c1⟩, trivial, _, v2, c2⟩
  have hne : (neWildText a b).isEmpty = false := by
    cases h : (neWildText a b).isEmpty with
    | false => rfl
    | true =>
      have : neWildText a b = "" := by simpa [String.isEmpty_iff] using h
      have hp := parseText_neWild a b
      rw [this, parseText_empty] at hp; cases hp
  obtain ⟨g, e⟩ := parseMarker_synV E S _ _ m
    ((compare (stripZeros [X, Y]) (stripZeros [a, b]) == .lt) ||
      (compare (stripZeros [X, Y]) (stripZeros [a, b + 1]) != .lt))
    hne (parseText_neWild a b) hv (by
      simp only [neWildSyn, synV, atomV, v1, v2, conn]
      cases compare (stripZeros [X, Y]) (stripZeros [a, b]) == .lt <;> simp) hm
  refine ⟨g, ?_⟩
  rw [e]
  congr 1
  simp only [neWild, VC.allowsPlain, VC.flatten, List.any_cons, List.any_nil, Bool.or_false, RC.allows,
    show pyV X Y Z = finalV [X, Y, Z] from rfl, allows_lt_dev, allows_ge_dev,
    (cmp_xyz_short X Y Z [a, b] (by simp) (by simp)).2, (cmp_xyz_short X Y Z [a, b + 1] (by simp) (by simp)).1]

end Poetry.Marker
