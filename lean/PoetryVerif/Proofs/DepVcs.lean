/-
`create_from_pep_508 ∘ to_pep_508` on VCS (git) dependencies: `name[extras] @ git+<normal form>[@ref][#subdirectory=dir]`
is read back (recogniser: Proofs/ReqPrint.lean; git grammar: Proofs/DepGit.lean `giturl_inverse`) and dispatched to
`VCSDependency(name, "git", url, rev=ref, directory=dir)` again.
-/
import PoetryVerif.Proofs.DepUrl
import PoetryVerif.Proofs.DepGit

set_option linter.unusedSimpArgs false
set_option linter.unusedVariables false

namespace Poetry.Dep
open Poetry Poetry.Marker Poetry.Req

theorem ofList_ne_empty (l : List Char) (h : l ≠ []) : (String.ofList l != "") = true := by
  simp only [bne_iff_ne, ne_eq]
  intro e
  have := congrArg String.toList e
  rw [String.toList_ofList] at this
  exact h (by simpa using this)

theorem truthy_ofList (l : List Char) (h : l ≠ []) : truthy (some (String.ofList l)) = true := by
  simp [truthy, ofList_ne_empty l h]

/-- the parts without revision and sub-directory: the repository location itself -/
def GitParts.bare (g : GitParts) : GitParts := { g with rev := none, subdir := none }

theorem GitParts.bare_wf {g : GitParts} (h : g.WF) : g.bare.WF :=
  { proto := h.proto, user := h.user, host := h.host, port := h.port, segs := h.segs, rev := trivial, subdir := trivial }

theorem GitParts.bare_text (g : GitParts) : g.bare.text = g.normal := by
  simp [GitParts.text, GitParts.bare, GitParts.normal, GitParts.authority, suffixText]

/-- `_normalize_source_url("git", normal form)` is the normal form -/
theorem normalizeSourceUrl_normal (g : GitParts) (h : g.WF) :
    normalizeSourceUrl (some "git") (some (String.ofList g.normal)) = .ok (some (String.ofList g.normal)) := by
  have hne : g.normal ≠ [] := by
    have := h.proto
    simp only [gitSchemes, List.mem_cons, List.mem_nil_iff, or_false] at this
    intro e
    have : (g.proto.toList ++ "://".toList ++ g.authority ++ '/' :: pathOf g.segs).length = 0 := by
      rw [show g.proto.toList ++ "://".toList ++ g.authority ++ '/' :: pathOf g.segs = g.normal from rfl, e]; rfl
    simp at this
  have hp := (giturl_inverse g.bare (GitParts.bare_wf h)).2
  rw [GitParts.bare_text] at hp
  have hu : g.bare.parsed.url = String.ofList g.normal := hp.2
  unfold normalizeSourceUrl
  have ht1 : truthy (some "git") = true := by decide
  simp only [ht1, truthy_ofList _ hne, Bool.and_self, beq_self_eq_true, if_true, Option.getD, parseGitUrl,
    String.toList_ofList, hp.1, bind, Except.bind, pure, Except.pure, hu]

/-- the printed direct reference of a git dependency -/
def vcsUrlText (g : GitParts) : List Char := "git+".toList ++ g.text

/-- side conditions on the printed URL, all computations of the model's `urlsplit` on it (decidable on every concrete
URL): it is not read as a wheel, has no `%` in its path, and passes the URL check of `Requirement.__init__` -/
structure VcsUrlOK (purl : String) (u : SplitUrl) : Prop where
  split : urlsplit purl = .ok u
  gitp : startsWithS "git+" u.scheme = true
  notFile : (u.scheme == "file") = false
  nopct : u.path.toList.contains '%' = false
  notWheel : (extOf (basenameOf u.path.toList) == ".whl".toList) = false
  check : checkUrl purl = .ok ()
  uri : UriOK purl.toList
  noUnc : startsWithL ['\\', '\\'] purl.toList = false
  last : ∃ p z, purl.toList = p ++ [z] ∧ isSpace z = false

/-- **`create_from_pep_508` on a printed git requirement** is `VCSDependency(name, "git", url, rev=…, directory=…)` -/
theorem createFromPep508_vcs (t : String) (name : List Char) (es : List (List Char)) (g : GitParts) (u : SplitUrl)
    (htxt : t.toList = name ++ extrasText es ++ urlText (some (vcsUrlText g)) ++ markerText none)
    (hn : Ident name) (he : ∀ e ∈ es, Ident e) (hg : g.WF) (hu : VcsUrlOK (String.ofList (vcsUrlText g)) u)
    (hnc : NoComment t.toList) :
    createFromPep508 t = mkVcsDep (String.ofList name) "git" (String.ofList g.normal) none none
      (g.rev.map String.ofList) (g.subdir.map String.ofList) (es.map String.ofList) := by
  have hl := hu.last
  rw [String.toList_ofList] at hl
  have huri := hu.uri
  rw [String.toList_ofList] at huri
  have htr : Trimmed t.toList := by rw [htxt]; exact printed_url_trimmed _ _ _ hn hl
  unfold createFromPep508 createFromPep508L
  rw [stripComment_id _ hnc htr, htxt]
  unfold Req.parseL
  rw [parseRaw_url name es (vcsUrlText g) none none hn he huri trivial]
  have hname : isUrlName (String.ofList name) = false := by
    have hc := ident_noColon hn
    unfold isUrlName
    rw [String.toList_ofList, hc]
    rfl
  obtain ⟨hp1, _, hp3⟩ := giturl_inverse g hg
  have hparse : parseGitUrl (String.ofList (vcsUrlText g)) = .ok g.parsed := by
    unfold parseGitUrl vcsUrlText
    rw [String.toList_ofList]
    exact hp1
  have hrev : g.parsed.rev = g.rev.map String.ofList := rfl
  have hsub : g.parsed.subdirectory = g.subdir.map String.ofList := rfl
  simp only [ofRaw, mkRaw, Option.map_some, Option.map_none, hu.check, constraintTextOf, parseConstraint_star, bind,
    Except.bind, pure, Except.pure]
  simp only [fromReq, hname, hu.noUnc, hu.split, hu.notFile, hu.nopct, hu.notWheel, hu.gitp, hparse, hp3, hrev, hsub,
    withVersion, bind, Except.bind, pure, Except.pure, Bool.false_eq_true, if_false, if_true]
  cases mkVcsDep (String.ofList name) "git" (String.ofList g.normal) none none (g.rev.map String.ofList)
    (g.subdir.map String.ofList) (es.map String.ofList) <;> rfl

/-- what `VCSDependency(name, "git", normal form, rev=R, directory=D)` is -/
theorem mkVcsDep_fields (n : String) (g : GitParts) (hg : g.WF) (b t r dir : Option String) (es : List String) :
    ∃ d, mkVcsDep n "git" (String.ofList g.normal) b t r dir es = .ok d ∧
      d.spec.name = canonName n ∧ d.spec.features = normFeatures es ∧
      d.kind = .vcs "git" (String.ofList g.normal) b t r dir ∧
      d.spec.sourceType = some "git" ∧ d.spec.sourceUrl = some (String.ofList g.normal) ∧
      d.spec.sourceSubdirectory = dir ∧ d.spec.sourceReference = pyOr (pyOr (pyOr b t) r) (some "HEAD") ∧
      d.spec.sourceResolvedReference = none ∧ d.marker = .any := by
  have hl : lowerS "git" = "git" := by decide
  have hnorm := normalizeSourceUrl_normal g hg
  have hne : g.normal ≠ [] := by
    intro e
    have : g.normal.length = 0 := by rw [e]; rfl
    simp [GitParts.normal] at this
  have hsrc : (pyOr (some (String.ofList g.normal)) (some (String.ofList g.normal))).getD (String.ofList g.normal) =
      String.ofList g.normal := by simp [pyOr, truthy_ofList _ hne]
  refine ⟨{ spec := { prettyName := n, name := canonName n, sourceType := some "git",
                      sourceUrl := some (String.ofList g.normal),
                      sourceReference := pyOr (pyOr (pyOr b t) r) (some "HEAD"), sourceResolvedReference := none,
                      sourceSubdirectory := dir, features := normFeatures es },
            constraint := VC.any, prettyConstraint := "*", marker := .any, pythonVersions := "*",
            pythonConstraint := VC.any, inExtras := [], optional := false, activated := true,
            kind := .vcs "git" (String.ofList g.normal) b t r dir }, ?_, rfl, rfl, rfl, rfl, rfl, rfl, rfl, rfl, rfl⟩
  simp only [mkVcsDep, hl, Spec.make, hnorm, mkDepStr, parseConstraint_star, hsrc, bind, Except.bind, pure, Except.pure]

/-- specifications with the same source fields are the same source -/
theorem isSameSourceAs_of_fields (a b : Spec) (h1 : a.sourceType = b.sourceType) (h2 : a.sourceUrl = b.sourceUrl)
    (h3 : a.sourceSubdirectory = b.sourceSubdirectory) (h4 : a.sourceReference = b.sourceReference)
    (h5 : a.sourceResolvedReference = b.sourceResolvedReference) : a.isSameSourceAs b = true := by
  unfold Spec.isSameSourceAs
  rw [h1, h2, h3, h4, h5]
  simp

end Poetry.Dep
