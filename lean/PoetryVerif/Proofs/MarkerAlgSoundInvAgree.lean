/-
Inversion through agreement with the reference evaluator.  `SingleMarker.invert` (every operator but `~=`) prints the
leaf with the operator of the `if/elif` chain and re-parses it; the reference evaluator of PEP 508 items gives the
flipped item the negated value (`evalItem_flip`).  Hence: a marker all of whose leaves are single markers in C06's
agreement domain (model value = reference value, leaf coherent), together with their flipped items, inverts to a
marker that validates to the negation — for EVERY such item class at once (`==`/`!=`, the ordering operators,
`in`/`not in` lists on strings and on the version variables, reversed operands, `extra`).  Inversion never merges
leaves, so no closure under `_merge_single_markers` is needed: the invariant is just "coherent single marker".
-/
import PoetryVerif.Proofs.MarkerSemCongr
import PoetryVerif.Proofs.MarkerEval

set_option linter.unusedSimpArgs false
set_option linter.unusedVariables false

namespace Poetry.Marker
open Poetry Poetry.Spec.Pep508

/-! ### the reference evaluator negates under the operator flip -/

theorem invertOp_mem {op op' : String} (h : invertOp? op = some op') : (op, op') ∈ Gen.markerInvertOps := by
  unfold invertOp? at h
  cases hf : Gen.markerInvertOps.find? (fun p => p.1 == op) with
  | none => simp [hf] at h
  | some p =>
    simp only [hf, Option.map_some, Option.some.injEq] at h
    have hm := List.mem_of_find?_eq_some hf
    have hp := List.find?_some hf
    simp only [beq_iff_eq] at hp
    subst hp; subst h; exact hm

theorem versionOp_flip {op op' : String} (hm : (op, op') ∈ Gen.markerInvertOps) (hs : op' ≠ "<special>")
    (lit cand : Version) (b : Bool) (h : versionOp op lit cand = some b) : versionOp op' lit cand = some (!b) := by
  simp only [Gen.markerInvertOps, List.mem_cons, Prod.mk.injEq, List.mem_nil_iff, or_false] at hm
  unfold versionOp at h ⊢
  by_cases hf : (!(isFinal lit && isFinal cand)) = true
  · simp [hf] at h
  · simp only [hf, Bool.false_eq_true, if_false] at h ⊢
    rcases hm with ⟨rfl, rfl⟩ | ⟨rfl, rfl⟩ | ⟨rfl, rfl⟩ | ⟨rfl, rfl⟩ | ⟨rfl, rfl⟩ | ⟨rfl, rfl⟩ | ⟨rfl, rfl⟩ |
        ⟨rfl, rfl⟩ | ⟨rfl, rfl⟩ | ⟨rfl, rfl⟩ <;>
      first
      | (exact absurd rfl hs)
      | (simp at h; done)
      | (simp at h ⊢; subst h; cases Spec.cmpRef cand lit <;> decide)


theorem evalItem_flip {n op op' v : String} {sw : Bool} {E : Env} {b : Bool}
    (hi : invertOp? op = some op') (hs : op' ≠ "<special>") (h : evalItem n op v sw E = some b) :
    evalItem n op' v sw E = some (!b) := by
  have hm := invertOp_mem hi
  simp only [Gen.markerInvertOps, List.mem_cons, Prod.mk.injEq, List.mem_nil_iff, or_false] at hm
  rcases hm with ⟨rfl, rfl⟩ | ⟨rfl, rfl⟩ | ⟨rfl, rfl⟩ | ⟨rfl, rfl⟩ | ⟨rfl, rfl⟩ | ⟨rfl, rfl⟩ | ⟨rfl, rfl⟩ |
      ⟨rfl, rfl⟩ | ⟨rfl, rfl⟩ | ⟨rfl, rfl⟩
  case inr.inr.inr.inr.inr.inr.inr.inr.inr => exact absurd rfl hs
  all_goals
    unfold evalItem at h ⊢
    simp only at h ⊢
    repeat' split at h
    all_goals first
      | (simp at h; done)
      | (simp_all; done)
      | (have h' := versionOp_flip (invertOp_mem hi) hs _ _ _ h
         simp [*] <;> exact h')
      | skip
  all_goals (simp only [List.contains_iff_mem] at *)
  all_goals (try (have h' := versionOp_flip (invertOp_mem hi) hs _ _ _ h))
  all_goals (simp [*] at h ⊢)
  all_goals (first | (simp_all; done) | skip)
  all_goals (subst h; simp [bne])

/-! ### coherent single markers: marker equality implies equal truth -/

def CohLeaf (l : Leaf) : Prop := ∃ s, l = .single s ∧ s.coherent = true

theorem cohLeaf_congr (E : Env) : LeafCongr (leafEval E) CohLeaf where
  congr := by
    intro a b ha hb h
    obtain ⟨sa, rfl, hca⟩ := ha
    obtain ⟨sb, rfl, hcb⟩ := hb
    simp only [Leaf.beq, Bool.and_eq_true, beq_iff_eq] at h
    obtain ⟨⟨⟨h1, h2⟩, h3⟩, h4⟩ := h
    have hc : sa.c = sb.c := by
      simp only [Single.coherent] at hca hcb
      rw [h1, h2, h3, h4] at hca
      cases hm : mkSingle sb.name (itemConstraintString sb.op sb.value sb.swapped) sb.swapped with
      | error e => simp [hm] at hcb
      | ok s' =>
        simp only [hm, beq_iff_eq] at hca hcb
        rw [← hca, ← hcb]
    simp only [leafEval, Leaf.validate, h1, hc]

/-- coherent single markers that evaluate in `E` -/
def CohEvalLeaf (E : Env) (l : Leaf) : Prop := CohLeaf l ∧ ∃ b, l.validate E = .ok b

theorem cohEvalLeaf_congr (E : Env) : LeafCongr (leafEval E) (CohEvalLeaf E) :=
  ⟨fun a b ha hb h => (cohLeaf_congr E).congr a b ha.1 hb.1 h⟩

/-! ### items of the agreement domain -/

/-- C06's agreement domain: the model evaluates the item, to the reference's value, and the leaf is coherent -/
def ItemOK (E : Env) (n op v : String) (sw : Bool) : Prop :=
  ∃ b, itemV E n op v sw = .ok b ∧ evalItem n op v sw E = some b ∧ itemCoherent n op v sw = true

/-- the leaf carries the item's own name, operator and value (no alias spelling, no padding) -/
def ItemPlain (s : Single) (n op v : String) (sw : Bool) : Prop :=
  s.name = n ∧ s.op = op ∧ s.value = v ∧ s.swapped = sw

/-- a single marker built from an item of the agreement domain whose flipped item is in the domain too -/
def FlipReady (E : Env) (l : Leaf) : Prop :=
  ∃ n op op' v sw s, mkSingle n (itemConstraintString op v sw) sw = .ok s ∧ l = .single s ∧
    ItemPlain s n op v sw ∧ invertOp? op = some op' ∧ op' ≠ "<special>" ∧ (op == "~=") = false ∧
    n ∈ names ∧ op' ∈ ops ∧ ValOk v ∧ ItemOK E n op v sw ∧ ItemOK E n op' v sw

theorem mkSingle_fields {n c : String} {sw : Bool} {s : Single} {p : LeafPrep} (h : mkSingle n c sw = .ok s)
    (hp : leafPrepare n c sw = .ok p) :
    s.name = p.name ∧ s.op = p.op ∧ s.value = p.value ∧ s.swapped = p.swapped := by
  simp only [mkSingle, hp, bind, Except.bind] at h
  cases hk : parseByKind p.kind p.cstr with
  | error e => simp [hk] at h
  | ok c' => simp only [hk, pure, Except.pure, Except.ok.injEq] at h; subst h; exact ⟨rfl, rfl, rfl, rfl⟩

/-- **inverting such a leaf is sound**: the result is the coherent leaf of the flipped item, true exactly where
the operand is false -/
theorem invOK_flip {E : Env} {l : Leaf} (h : FlipReady E l) : InvOK (leafEval E) (CohEvalLeaf E) l := by
  obtain ⟨n, op, op', v, sw, s, hmk, rfl, ⟨f1, f2, f3, f4⟩, hinv, hsp, htilde, hn, hop', hv,
    ⟨b, hb1, hb2, hb3⟩, ⟨b', hf1, hf2, hf3⟩⟩ := h
  intro res hi
  have h1 : Leaf.invert (.single s) = parseItemMarker (leafText n op' v sw) := by
    simp only [Leaf.invert, f2, htilde, Bool.false_eq_true, if_false, invertSimple, hinv, invertedLeafText, f1, f3,
      f4]
  rw [h1, parseItemMarker_leafText n op' v sw hn hop' hv] at hi
  -- the flipped leaf
  cases hm2 : mkSingle n (itemConstraintString op' v sw) sw with
  | error e => simp [itemV, hm2] at hf1
  | ok s2 =>
    simp only [hm2] at hi
    cases hi
    have hcoh : s2.coherent = true := by simpa [itemCoherent, hm2] using hf3
    refine ⟨(M.good_leaf _).2 ⟨⟨s2, rfl, hcoh⟩, b', by simpa [itemV, hm2, Leaf.validate] using hf1⟩, ?_⟩
    have e2 : leafEval E (.single s2) = b' := by
      simp only [itemV, hm2] at hf1
      simp [leafEval, Leaf.validate, hf1]
    have e1 : leafEval E (.single s) = b := by
      simp only [itemV, hmk] at hb1
      simp [leafEval, Leaf.validate, hb1]
    have := evalItem_flip hinv hsp hb2
    rw [hf2] at this
    rw [M.sem_leaf, e1, e2]
    exact Option.some.inj this

/-- **`invert` preserves truth on every marker of single markers in the agreement domain** -/
theorem M.invert_sound_agree {E : Env} {a r : M} (ha : M.Good (FlipReady E) a) (h : M.invert a = .ok r) :
    M.Good (CohEvalLeaf E) r ∧ M.sem (leafEval E) r = !M.sem (leafEval E) a :=
  M.invert_sound_congr (cohEvalLeaf_congr E) a r (M.good_mono (fun l hl => invOK_flip hl) a ha) h

end Poetry.Marker
