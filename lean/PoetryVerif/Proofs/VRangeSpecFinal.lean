/-
C04, first disjunct of the guard: the literal is a final release and the candidate is of the literal's own
release (its dev-, pre-, post-releases and local builds) — the PEP 440 exclusive-comparison and local-label
rules proper (helper lemmas for C04).
-/
import PoetryVerif.Proofs.VRangeSpec

set_option linter.unusedSimpArgs false
set_option linter.unusedVariables false

namespace Poetry
open Version Spec

attribute [local instance] lexOrd

/-! ### the key as (public key, local key) -/

/-- comparison of the public parts -/
def pubCmp (a b : Version) : Ordering := compare (pubKey a) (pubKey b)

theorem cmp_eq_pub_then_loc (a b : Version) :
    Version.cmp a b = (pubCmp a b).then (compare (locK a.loc) (locK b.loc)) := by
  unfold Version.cmp cmpKey pubCmp
  rw [key_eq_pub a, key_eq_pub b]
  generalize pubKey a = pa
  generalize pubKey b = pb
  obtain ⟨a1, a2, a3, a4, a5⟩ := pa
  obtain ⟨b1, b2, b3, b4, b5⟩ := pb
  simp only [compare_pair, Ordering.then_assoc]

theorem pubCmp_withoutLocal_left (a b : Version) : pubCmp a.withoutLocal b = pubCmp a b := rfl

theorem locK_none_le {v : Version} (hv : v.wf = true) : compare (locK none) (locK v.loc) ≠ .gt := by
  cases hl : v.loc with
  | none => simp [compare_self_eq]
  | some ps => rw [noLocal_lt_local ps (wf_loc hv hl)]; simp

theorem locK_none_lt {v : Version} (hv : v.wf = true) (hl : v.isLocal = true) :
    compare (locK none) (locK v.loc) = .lt := by
  cases hl' : v.loc with
  | none => simp [isLocal, hl'] at hl
  | some ps => exact noLocal_lt_local ps (wf_loc hv hl')

/-- for a literal without local label: `withoutLocal v ≤ V` iff the public part of `v` is at most `V`'s -/
theorem withoutLocal_le_iff {V v : Version} (hVl : V.loc = none) :
    vk v.withoutLocal ≤ vk V ↔ pubCmp v V ≠ .gt := by
  rw [vk_le_iff, cmp_eq_pub_then_loc, pubCmp_withoutLocal_left]
  have : (v.withoutLocal).loc = none := rfl
  rw [this, hVl, compare_self_eq]
  cases pubCmp v V <;> simp [Ordering.then]

theorem le_withoutLocal_iff {V v : Version} (hVl : V.loc = none) :
    vk V ≤ vk v.withoutLocal ↔ pubCmp V v ≠ .gt := by
  rw [vk_le_iff, cmp_eq_pub_then_loc]
  have : (v.withoutLocal).loc = none := rfl
  have e : pubCmp V v.withoutLocal = pubCmp V v := rfl
  rw [this, hVl, compare_self_eq, e]
  cases pubCmp V v <;> simp [Ordering.then]

theorem le_iff_pub {V v : Version} (hVl : V.loc = none) (hv : v.wf = true) :
    vk V ≤ vk v ↔ pubCmp V v ≠ .gt := by
  rw [vk_le_iff, cmp_eq_pub_then_loc, hVl]
  have := locK_none_le hv
  cases pubCmp V v <;> simp [Ordering.then, this]

/-- a local build is at most a literal without label iff its public part is strictly below -/
theorem local_le_iff_pub {V v : Version} (hVl : V.loc = none) (hv : v.wf = true) (hl : v.isLocal = true) :
    vk v ≤ vk V ↔ pubCmp v V = .lt := by
  rw [vk_le_iff, cmp_eq_pub_then_loc, hVl]
  have h1 := locK_none_lt hv hl
  have h2 : compare (locK v.loc) (locK none) = .gt := by
    rw [Std.OrientedCmp.eq_swap (cmp := compare) (a := locK v.loc)]; simp [h1]
  cases pubCmp v V <;> simp [Ordering.then, h2]

theorem pubCmp_swap (a b : Version) : pubCmp a b = (pubCmp b a).swap := by
  unfold pubCmp; exact Std.OrientedCmp.eq_swap

theorem pubCmp_eq_iff (a b : Version) : pubCmp a b = .eq ↔ pubKey a = pubKey b := by
  unfold pubCmp; exact Std.compare_eq_iff_eq

/-! ### candidates of the release of a final literal -/

/-- the public key of a final release is the greatest among the versions of its release that carry no
post-release segment -/
theorem pub_le_final_of_no_post {V o : Version} (hV : V.isFinal = true) (ho : o.wf = true)
    (hr : relKey o = relKey V) (hpost : o.post = none) : pubCmp o V ≠ .gt := by
  obtain ⟨f1, f2, f3, _⟩ := final_parts hV
  have he : o.epoch = V.epoch := (Prod.mk.inj hr).1
  have hrel : stripZeros o.release = stripZeros V.release := (Prod.mk.inj hr).2
  simp only [pubCmp, pubKey, compare_pair, he, hrel, compare_self_eq, Ordering.then, preK, postK, devK, f1, f2,
    f3, hpost]
  cases hp : o.pre with
  | some t => simp [compare_preTag_infTag t (wf_pre ho hp)]
  | none =>
    cases hd : o.dev with
    | some d => simp [compare_negInf_inf]
    | none => simp [compare_self_eq]

/-- the public key equals the final literal's iff the candidate has no pre/post/dev segment -/
theorem pub_eq_final_iff {V v : Version} (hV : V.isFinal = true) (hv : v.wf = true)
    (hr : relKey v = relKey V) :
    pubKey v = pubKey V ↔ (v.pre = none ∧ v.post = none ∧ v.dev = none) := by
  obtain ⟨f1, f2, f3, _⟩ := final_parts hV
  have he : v.epoch = V.epoch := (Prod.mk.inj hr).1
  have hrel : stripZeros v.release = stripZeros V.release := (Prod.mk.inj hr).2
  constructor
  · intro h
    simp only [pubKey, Prod.mk.injEq, preK, postK, devK, f1, f2, f3] at h
    obtain ⟨_, _, h3, h4, h5⟩ := h
    have hpost : v.post = none := by
      cases hq : v.post with
      | none => rfl
      | some t => simp [hq, tagK, negInfTagK, NumK.fin, NumK.negInf] at h4
    have hdev : v.dev = none := by
      cases hq : v.dev with
      | none => rfl
      | some t => simp [hq, tagK, infTagK, NumK.fin, NumK.inf] at h5
    have hpre : v.pre = none := by
      cases hq : v.pre with
      | none => rfl
      | some t => simp [hq, hpost, hdev, tagK, infTagK, NumK.fin, NumK.inf] at h3
    exact ⟨hpre, hpost, hdev⟩
  · rintro ⟨h1, h2, h3⟩
    simp [pubKey, he, hrel, preK, postK, devK, f1, f2, f3, h1, h2, h3]

/-! ### the five operators on candidates of the literal's own release -/

/-- `withoutLocal` when needed: the candidate as `VersionRange.allows` compares it against a bound without label -/
def dropLoc (v : Version) : Version := if v.isLocal = true then v.withoutLocal else v

theorem dropLoc_wf {v : Version} (hv : v.wf = true) : (dropLoc v).wf = true := by
  unfold dropLoc; split; exact wf_withoutLocal hv; exact hv

theorem dropLoc_relKey (v : Version) : relKey (dropLoc v) = relKey v := by
  unfold dropLoc; split <;> simp

/-- `withoutLocal v ≤ V` (resp. `≥`) for a literal without label, in terms of `v` itself -/
theorem dropLoc_le_iff {V v : Version} (hVl : V.loc = none) (hv : v.wf = true) :
    vk (dropLoc v) ≤ vk V ↔ pubCmp v V ≠ .gt := by
  unfold dropLoc
  by_cases hl : v.isLocal = true
  · simp only [hl, if_true]; exact withoutLocal_le_iff hVl
  · simp only [hl, Bool.false_eq_true, if_false]
    have hvl : v.loc = none := by simpa [isLocal] using hl
    rw [vk_le_iff, cmp_eq_pub_then_loc, hvl, hVl, compare_self_eq]
    cases pubCmp v V <;> simp [Ordering.then]

theorem le_dropLoc_iff {V v : Version} (hVl : V.loc = none) (hv : v.wf = true) :
    vk V ≤ vk (dropLoc v) ↔ vk V ≤ vk v := by
  rw [le_iff_pub hVl hv]
  unfold dropLoc
  by_cases hl : v.isLocal = true
  · simp only [hl, if_true]; exact le_withoutLocal_iff hVl
  · simp only [hl, Bool.false_eq_true, if_false]; exact le_iff_pub hVl hv

/-- **`>=V`** for a final `V`, every candidate -/
theorem ge_final (V v : Version) (hV : V.wf = true) (hfin : V.isFinal = true) (hv : v.wf = true) :
    (⟨some V, none, true, false⟩ : VRange).allows v = containsGe V v := by
  obtain ⟨_, _, _, f4⟩ := final_parts hfin
  apply bool_eq_of_iff
  rw [spec_ge hV hv]
  have hVl : V.isLocal = false := by simp [isLocal, f4]
  simp only [VRange.allows, VRange.allowsLo, VRange.allowsHi, Bool.and_true, Bool.not_true, Bool.false_and,
    Bool.false_eq_true, if_false, hVl, Bool.not_false, Bool.true_and]
  have : (if v.isLocal = true then v.withoutLocal else v) = dropLoc v := rfl
  rw [this]
  rw [← le_dropLoc_iff f4 hv]
  cases h : Version.lt (dropLoc v) V
  · simp [(lt_false_iff _ _).1 h]
  · simp [not_le.2 ((lt_iff _ _).1 h)]

/-- **`<=V`** for a final `V`, every candidate: a local build of `V` is admitted -/
theorem le_final (V v : Version) (hV : V.wf = true) (hfin : V.isFinal = true) (hv : v.wf = true)
    (hr : relKey v = relKey V) :
    (⟨none, some V, false, true⟩ : VRange).allows v = containsLe V v := by
  obtain ⟨f1, f2, f3, f4⟩ := final_parts hfin
  have hVl : V.isLocal = false := by simp [isLocal, f4]
  have hA : (⟨none, some V, false, true⟩ : VRange).allowedMax = some V := by simp [VRange.allowedMax]
  apply bool_eq_of_iff
  simp only [VRange.allows, VRange.allowsLo, VRange.allowsHi, hA, Bool.true_and, hVl, Bool.not_false, Bool.not_true,
    Bool.false_and, Bool.false_eq_true, if_false]
  have : (if v.isLocal = true then v.withoutLocal else v) = dropLoc v := rfl
  rw [this]
  have hpoetry : (if Version.gt (dropLoc v) V = true then false else true) = true ↔ pubCmp v V ≠ .gt := by
    rw [← dropLoc_le_iff f4 hv]
    cases h : Version.gt (dropLoc v) V
    · simp [(gt_false_iff _ _).1 h]
    · simp [not_le.2 ((gt_iff _ _).1 h)]
  rw [hpoetry]
  -- the reference
  unfold containsLe belowAfterLocals
  rw [Bool.or_eq_true, vGe_iff hV hv]
  have hfam : inLocalFamily V v = true ↔ pubKey v = pubKey V := by
    rw [pub_eq_final_iff hfin hv hr]
    simp [inLocalFamily, (sameRelease_iff V v).2 hr, f1, f2, f3, and_assoc]
  rw [hfam, ← pubCmp_eq_iff]
  by_cases hl : v.isLocal = true
  · rw [local_le_iff_pub f4 hv hl]
    cases pubCmp v V <;> simp
  · have hvl : v.loc = none := by simpa [isLocal] using hl
    rw [vk_le_iff, cmp_eq_pub_then_loc, hvl, f4, compare_self_eq]
    cases pubCmp v V <;> simp [Ordering.then]

/-- **`<V`** for a final `V`: every candidate of V's own release is rejected — V, its local builds and
post-releases, and *its pre-releases and dev-releases* (PEP 440 exclusive ordered comparison) -/
theorem lt_final (V v : Version) (hV : V.wf = true) (hfin : V.isFinal = true) (hv : v.wf = true)
    (hr : relKey v = relKey V) :
    (⟨none, some V, false, false⟩ : VRange).allows v = false ∧ containsLt V v = false := by
  obtain ⟨f1, f2, f3, f4⟩ := final_parts hfin
  have hmin := firstDev_final_le hfin hv hr
  constructor
  · have hA : (⟨none, some V, false, false⟩ : VRange).allowedMax = some V.firstDevrelease := by
      have := VRange.allowedMax_eq_of_lt (r := ⟨none, some V, false, false⟩) (M := V) rfl (by intro m hm; simp at hm)
      rw [this]; simp [isUnstable_of_final hfin]
    have hhi : (⟨none, some V, false, false⟩ : VRange).allowsHi v = false := by
      unfold VRange.allowsHi
      rw [hA]
      simp only [isLocal_firstDev, Bool.not_false, Bool.true_and]
      have : (if v.isLocal = true then v.withoutLocal else v) = dropLoc v := rfl
      rw [this]
      have hle := firstDev_final_le hfin (dropLoc_wf hv) ((dropLoc_relKey v).trans hr)
      rcases lt_or_eq_of_le hle with h | h
      · simp [(gt_iff _ _).2 h]
      · have e1 : Version.gt (dropLoc v) V.firstDevrelease = false := by rw [gt_false_iff, h]
        have e2 : Version.eqv (dropLoc v) V.firstDevrelease = true := (eqv_iff _ _).2 h.symm
        simp [e1, e2]
    simp [VRange.allows, hhi]
  · unfold containsLt
    split
    · rfl
    · have hB : ltBound V = mkV V.epoch V.release V.pre V.post dev0 none := by
        simp [ltBound, isPre, f1, f3]
      have hBwf := wf_ltBound hV f4
      rw [← Bool.not_eq_true, vGt_iff hBwf hv, hB, vk_mkV_firstDev]
      exact not_lt.2 hmin

/-- **`>V`** for a final `V`: every candidate of V's own release is rejected — V, its pre-releases, and *its
post-releases and local builds* (PEP 440 exclusive ordered comparison) -/
theorem gt_final (V v : Version) (hV : V.wf = true) (hfin : V.isFinal = true) (hv : v.wf = true)
    (hr : relKey v = relKey V) :
    (⟨some V, none, false, false⟩ : VRange).allows v = false ∧ containsGt V v = false := by
  obtain ⟨f1, f2, f3, f4⟩ := final_parts hfin
  have hVl : V.isLocal = false := by simp [isLocal, f4]
  have hVp : V.isPostrelease = false := by simp [isPostrelease, f2]
  constructor
  · have hlo : (⟨some V, none, false, false⟩ : VRange).allowsLo v = false := by
      unfold VRange.allowsLo
      simp only [Bool.not_false, Bool.true_and, hVp, hVl]
      generalize ho1 : (if v.isPostrelease = true then v.withoutPostrelease else v) = o1
      have ho1wf : o1.wf = true := by
        rw [← ho1]; split
        · rename_i hp
          obtain ⟨h0, h1, _, _⟩ := wf_parts hv
          simp only [withoutPostrelease, hp, if_true, wf, mk', Bool.and_eq_true, Bool.not_eq_true',
            List.isEmpty_eq_false_iff, optAll]
          simp only [wf, Bool.and_eq_true] at hv
          exact ⟨⟨⟨⟨h0, h1⟩, trivial⟩, trivial⟩, hv.2⟩
        · exact hv
      have ho1r : relKey o1 = relKey V := by rw [← ho1]; split <;> simp [hr]
      have ho1p : o1.post = none := by
        rw [← ho1]; split
        · rename_i hp; simp [withoutPostrelease, hp, mk']
        · rename_i hp; simpa [isPostrelease] using hp
      have : (if o1.isLocal = true then o1.withoutLocal else o1) = dropLoc o1 := rfl
      rw [this]
      have hpub : pubCmp o1 V ≠ .gt := pub_le_final_of_no_post hfin ho1wf ho1r ho1p
      have hle : vk (dropLoc o1) ≤ vk V := (dropLoc_le_iff f4 ho1wf).2 hpub
      rcases lt_or_eq_of_le hle with h | h
      · simp [(lt_iff _ _).2 h]
      · have e1 : Version.lt (dropLoc o1) V = false := by rw [lt_false_iff, h]
        have e2 : Version.eqv (dropLoc o1) V = true := (eqv_iff _ _).2 h
        simp [e1, e2]
    simp [VRange.allows, hlo]
  · simp only [containsGt, f2, f3, aboveAfterPosts]
    cases hp : v.pre with
    | none =>
      have : inPostFamily V v = true := by simp [inPostFamily, (sameRelease_iff V v).2 hr, hp, f1]
      simp [this]
    | some t =>
      -- a pre-release of V is below V
      have hlt : vk v < vk V := by
        apply lt_of_pubKey_lt
        have he : v.epoch = V.epoch := (Prod.mk.inj hr).1
        have hrel : stripZeros v.release = stripZeros V.release := (Prod.mk.inj hr).2
        simp only [pubKey, compare_pair, he, hrel, compare_self_eq, Ordering.then, preK, hp, f1, f2, f3]
        simp [compare_preTag_infTag t (wf_pre hv hp)]
      have : vGe V v = true := (vGe_iff hV hv).2 (le_of_lt hlt)
      simp [this]

/-- **`==V`** for a final `V`, every candidate of V's release: exactly V and its local builds -/
theorem eq_final (V v : Version) (hV : V.wf = true) (hfin : V.isFinal = true) (hv : v.wf = true)
    (hr : relKey v = relKey V) :
    V.allows v = containsEq V v := by
  obtain ⟨f1, f2, f3, f4⟩ := final_parts hfin
  have hVl : V.isLocal = false := by simp [isLocal, f4]
  apply bool_eq_of_iff
  unfold Version.allows
  simp only [hVl, Bool.not_false, Bool.true_and]
  have : (if v.isLocal = true then v.withoutLocal else v) = dropLoc v := rfl
  rw [this, eqv_iff]
  have hpo : vk V = vk (dropLoc v) ↔ pubCmp v V = .eq := by
    constructor
    · intro h
      have h1 := (dropLoc_le_iff f4 hv).1 (le_of_eq h.symm)
      have h2 := (le_iff_pub f4 (dropLoc_wf hv)).1 (le_of_eq h)
      have e : pubCmp V (dropLoc v) = pubCmp V v := by unfold dropLoc; split <;> rfl
      rw [e, pubCmp_swap] at h2
      cases hc : pubCmp v V <;> simp_all [Ordering.swap]
    · intro h
      apply le_antisymm
      · rw [le_dropLoc_iff f4 hv, le_iff_pub f4 hv, pubCmp_swap, h]; simp [Ordering.swap]
      · rw [dropLoc_le_iff f4 hv, h]; simp
  rw [hpo]
  unfold containsEq belowAfterLocals
  have hloc : V.loc.isSome = false := by simp [f4]
  simp only [hloc, Bool.false_eq_true, if_false, Bool.and_eq_true, Bool.or_eq_true]
  rw [vLe_iff hV hv, vGe_iff hV hv, le_iff_pub f4 hv]
  have hfam : inLocalFamily V v = true ↔ pubCmp v V = .eq := by
    rw [pubCmp_eq_iff, pub_eq_final_iff hfin hv hr]
    simp [inLocalFamily, (sameRelease_iff V v).2 hr, f1, f2, f3, and_assoc]
  rw [hfam, pubCmp_swap V v]
  by_cases hl : v.isLocal = true
  · rw [local_le_iff_pub f4 hv hl]
    cases pubCmp v V <;> simp [Ordering.swap]
  · have hvl : v.loc = none := by simpa [isLocal] using hl
    rw [vk_le_iff, cmp_eq_pub_then_loc, hvl, f4, compare_self_eq]
    cases pubCmp v V <;> simp [Ordering.then, Ordering.swap]

/-- **`~=V`** for a final `V` with at least two release components, every candidate -/
theorem compat_final (V v : Version) (hV : V.wf = true) (hfin : V.isFinal = true) (hp : 2 ≤ V.precision)
    (hv : v.wf = true) :
    (⟨some V, some (compatHigh V), true, false⟩ : VRange).allows v = containsCompat V v := by
  by_cases hr : relKey v = relKey V
  · obtain ⟨hHfin, hlt, hHwf, hrk, k2, w2, hlen⟩ := compat_facts V hV hp
    have hlo : (⟨some V, some (compatHigh V), true, false⟩ : VRange).allowsLo v = containsGe V v := by
      rw [← ge_final V v hV hfin hv]
      show _ = ((⟨some V, none, true, false⟩ : VRange).allowsLo v && true)
      rw [Bool.and_true]; rfl
    have hneH : relKey v ≠ relKey (compatHigh V) := by rw [hr]; exact hrk
    have hhi := VRange.allowsHi_iff_denHi ⟨some V, some (compatHigh V), true, false⟩ v hv
      (fun M hM => by simp at hM; subst hM; exact ⟨hHwf, Or.inr hneH⟩)
    have hA := VRange.halfOpen_allowedMax (V := V) hHfin (ne_of_lt hlt)
    simp only [VRange.halfOpen] at hA
    unfold containsCompat
    simp only [hlen, if_false]
    apply bool_eq_of_iff
    unfold VRange.allows
    rw [hlo, Bool.and_eq_true, Bool.and_eq_true, hhi, vGt_iff w2 hv, k2]
    simp [VRange.denHi, hA, containsGe]
  · exact compat_allows V v hV hp hv (Or.inr hr)

end Poetry
