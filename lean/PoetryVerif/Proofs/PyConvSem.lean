/-
Meaning of the python items `create_nested_marker` prints, against `allows` of the range they were
printed from, on the environment of interpreter `X.Y.Z` (helper lemmas for C11).
-/
import PoetryVerif.Proofs.PyConvMarker
import PoetryVerif.Proofs.VRangeSem

set_option linter.unusedSimpArgs false
set_option linter.unusedVariables false

namespace Poetry
open Poetry.Marker Poetry.Spec Poetry.Spec.Pep508 Poetry.Version Std

attribute [local instance] lexOrd

/-- a bound of a Python range: a final release of precision 1–3 without epoch, spelt canonically -/
def PyBound (v : Version) : Bool :=
  v.epoch == 0 && v.pre.isNone && v.post.isNone && v.dev.isNone && v.loc.isNone &&
    decide (1 ≤ v.release.length) && decide (v.release.length ≤ 3) && v.text == relText v.release

/-- the interpreter version `X.Y.Z` -/
def pyV (X Y Z : Nat) : Version := finalV [X, Y, Z]

/-- the environment describes interpreter `X.Y.Z` -/
def EnvPy (E : Env) (X Y Z : Nat) : Prop :=
  E.get? "python_version" = some (relText [X, Y]) ∧ E.get? "python_full_version" = some (relText [X, Y, Z])

theorem PyBound_parts {v : Version} (h : PyBound v = true) :
    v.epoch = 0 ∧ v.pre = none ∧ v.post = none ∧ v.dev = none ∧ v.loc = none ∧ v.text = relText v.release ∧
    ((∃ a, v.release = [a]) ∨ (∃ a b, v.release = [a, b]) ∨ (∃ a b c, v.release = [a, b, c])) := by
  simp only [PyBound, Bool.and_eq_true, beq_iff_eq, Option.isNone_iff_eq_none, decide_eq_true_eq] at h
  obtain ⟨⟨⟨⟨⟨⟨⟨h1, h2⟩, h3⟩, h4⟩, h5⟩, h6⟩, h7⟩, h8⟩ := h
  refine ⟨h1, h2, h3, h4, h5, h8, ?_⟩
  match hr : v.release, h6, h7 with
  | [a], _, _ => exact Or.inl ⟨a, rfl⟩
  | [a, b], _, _ => exact Or.inr (Or.inl ⟨a, b, rfl⟩)
  | [a, b, c], _, _ => exact Or.inr (Or.inr ⟨a, b, c, rfl⟩)
  | [], h6, _ => simp at h6
  | _ :: _ :: _ :: _ :: _, _, h7 => simp at h7

theorem PyBound_wf {v : Version} (h : PyBound v = true) : v.wf = true := by
  obtain ⟨h1, h2, h3, h4, h5, _, hr⟩ := PyBound_parts h
  have : v.release.isEmpty = false := by
    rcases hr with ⟨a, e⟩ | ⟨a, b, e⟩ | ⟨a, b, c, e⟩ <;> simp [e]
  simp [Version.wf, h2, h3, h4, h5, this, optAll]

/-- comparison of two tag-free versions without epoch is comparison of their release keys -/
theorem cmp_plain {a b : Version} (ha : a.epoch = 0 ∧ a.pre = none ∧ a.post = none ∧ a.dev = none ∧ a.loc = none)
    (hb : b.epoch = 0 ∧ b.pre = none ∧ b.post = none ∧ b.dev = none ∧ b.loc = none) :
    Version.cmp a b = compare (stripZeros a.release) (stripZeros b.release) := by
  obtain ⟨a1, a2, a3, a4, a5⟩ := ha
  obtain ⟨b1, b2, b3, b4, b5⟩ := hb
  unfold Version.cmp cmpKey key preK postK devK
  simp only [compare_pair, a1, b1, a2, b2, a3, b3, a4, b4, a5, b5, compare_self_eq, Ordering.then]
  cases compare (stripZeros a.release) (stripZeros b.release) <;> simp [compare_self_eq]

theorem pyV_plain (X Y Z : Nat) :
    (pyV X Y Z).epoch = 0 ∧ (pyV X Y Z).pre = none ∧ (pyV X Y Z).post = none ∧ (pyV X Y Z).dev = none ∧
      (pyV X Y Z).loc = none := ⟨rfl, rfl, rfl, rfl, rfl⟩

theorem pyV_wf (X Y Z : Nat) : (pyV X Y Z).wf = true := by simp [pyV, finalV, Version.wf, optAll]

/-- the padded triple of a bound -/
def pad3 : List Nat → Nat × Nat × Nat
  | [a] => (a, 0, 0)
  | [a, b] => (a, b, 0)
  | [a, b, c] => (a, b, c)
  | _ => (0, 0, 0)

theorem cmp_bound_py {m : Version} (h : PyBound m = true) (X Y Z : Nat) :
    Version.cmp m (pyV X Y Z) = lex3 (pad3 m.release).1 (pad3 m.release).2.1 (pad3 m.release).2.2 X Y Z := by
  obtain ⟨h1, h2, h3, h4, h5, _, hr⟩ := PyBound_parts h
  rw [cmp_plain ⟨h1, h2, h3, h4, h5⟩ (pyV_plain X Y Z)]
  show compare (stripZeros m.release) (stripZeros [X, Y, Z]) = _
  rcases hr with ⟨a, e⟩ | ⟨a, b, e⟩ | ⟨a, b, c, e⟩ <;> rw [e]
  · rw [sz_pad1, sz3]; rfl
  · rw [sz_pad2, sz3]; rfl
  · rw [sz3]; rfl

theorem cmp_py_bound {m : Version} (h : PyBound m = true) (X Y Z : Nat) :
    Version.cmp (pyV X Y Z) m = lex3 X Y Z (pad3 m.release).1 (pad3 m.release).2.1 (pad3 m.release).2.2 := by
  obtain ⟨h1, h2, h3, h4, h5, _, hr⟩ := PyBound_parts h
  rw [cmp_plain (pyV_plain X Y Z) ⟨h1, h2, h3, h4, h5⟩]
  show compare (stripZeros [X, Y, Z]) (stripZeros m.release) = _
  rcases hr with ⟨a, e⟩ | ⟨a, b, e⟩ | ⟨a, b, c, e⟩ <;> rw [e]
  · rw [sz_pad1, sz3]; rfl
  · rw [sz_pad2, sz3]; rfl
  · rw [sz3]; rfl

theorem regular_py {m : Version} (h : PyBound m = true) (X Y Z : Nat) :
    Version.cmp (pyV X Y Z) m = .eq ∨ relKey (pyV X Y Z) ≠ relKey m := by
  obtain ⟨h1, h2, h3, h4, h5, _, hr⟩ := PyBound_parts h
  by_cases e : stripZeros [X, Y, Z] = stripZeros m.release
  · left
    rw [cmp_plain (pyV_plain X Y Z) ⟨h1, h2, h3, h4, h5⟩]
    show compare (stripZeros [X, Y, Z]) (stripZeros m.release) = .eq
    rw [e]; exact compare_self_eq _
  · right
    intro hk
    apply e
    have := congrArg Prod.snd hk
    simpa [relKey, pyV, finalV] using this


/-! ### the two halves of `create_nested_marker` for a range -/

/-- lower-bound clause of `create_nested_marker("python_version", range)` -/
def nestedLo (r : VRange) : List String :=
  match r.min with
  | none => []
  | some v =>
    let n := if v.precision ≥ 3 then "python_full_version" else "python_version"
    if n == "python_version" && !r.imin && v.precision < 3 then
      ["python_full_version > \"" ++ v.text ++ padZeros (3 - v.precision) ++ "\""]
    else [n ++ " " ++ (if r.imin then ">=" else ">") ++ " \"" ++ v.text ++ "\""]

/-- upper-bound clause -/
def nestedHi (r : VRange) : List String :=
  match r.max with
  | none => []
  | some v =>
    let n := if v.precision ≥ 3 then "python_full_version" else "python_version"
    if n == "python_version" && r.imax && v.precision < 3 then
      ["python_full_version <= \"" ++ v.text ++ padZeros (3 - v.precision) ++ "\""]
    else [n ++ " " ++ (if r.imax then "<=" else "<") ++ " \"" ++ v.text ++ "\""]

theorem nestedRC_rng (r : VRange) :
    nestedRC "python_version" (.rng r) = joinWith " and " (nestedLo r ++ nestedHi r) := by
  obtain ⟨mn, mx, imin, imax⟩ := r
  cases mn <;> cases mx <;> simp [nestedRC, nestedLo, nestedHi]

/-- a python item as `create_nested_marker` prints it: `python_version` / `python_full_version`, an ordered
comparison, a printed release (at least three components for `python_full_version`); `Q` is an additional
property of (variable, release) that the producers of such items may establish -/
def PyItemQ (Q : String → String → List Nat → Prop) (n op v : String) : Prop :=
  ∃ lit : List Nat, PyName n ∧ CmpOp op ∧ lit ≠ [] ∧ (n = "python_full_version" → 3 ≤ lit.length) ∧ Q n op lit ∧
    v = relText lit

/-- no additional property -/
def QTrue : String → String → List Nat → Prop := fun _ _ _ => True

abbrev PyItem3 (n op v : String) : Prop := PyItemQ QTrue n op v

mutual
/-- a syntax tree all of whose items are such python items, operands in the usual order -/
def PyAtomQ (Q : String → String → List Nat → Prop) : Atom → Prop
  | .item n op v sw => sw = false ∧ PyItemQ Q n op v
  | .paren m => PySynQ Q m
def PySynQ (Q : String → String → List Nat → Prop) : Syn → Prop
  | .one a => PyAtomQ Q a
  | .more a _ rest => PyAtomQ Q a ∧ PySynQ Q rest
end

abbrev PyAtom : Atom → Prop := PyAtomQ QTrue
abbrev PySyn : Syn → Prop := PySynQ QTrue

/-- the text `s` is one python item whose reference value on `E` is `b` -/
def LeafMeansQ (Q : String → String → List Nat → Prop) (E : Env) (s : String) (b : Bool) : Prop :=
  ∃ n op v, PyItemQ Q n op v ∧ s.toList = leafChars n op v.toList ∧ evalItem n op v false E = some b

abbrev LeafMeans (E : Env) (s : String) (b : Bool) : Prop := LeafMeansQ QTrue E s b

/-- what the producer of the lower clause needs of a bound `m` with inclusion flag `incl`: `Q` holds of the item
printed for it -/
def BoundLoQ (Q : String → String → List Nat → Prop) (incl : Bool) (m : Version) : Prop :=
  (∀ a, m.release = [a] →
    if incl = true then Q "python_version" ">=" [a] else Q "python_full_version" ">" [a, 0, 0]) ∧
  (∀ a b, m.release = [a, b] →
    if incl = true then Q "python_version" ">=" [a, b] else Q "python_full_version" ">" [a, b, 0]) ∧
  (∀ a b c, m.release = [a, b, c] →
    if incl = true then Q "python_full_version" ">=" [a, b, c] else Q "python_full_version" ">" [a, b, c])

/-- the same for the upper clause -/
def BoundHiQ (Q : String → String → List Nat → Prop) (incl : Bool) (m : Version) : Prop :=
  (∀ a, m.release = [a] →
    if incl = true then Q "python_full_version" "<=" [a, 0, 0] else Q "python_version" "<" [a]) ∧
  (∀ a b, m.release = [a, b] →
    if incl = true then Q "python_full_version" "<=" [a, b, 0] else Q "python_version" "<" [a, b]) ∧
  (∀ a b c, m.release = [a, b, c] →
    if incl = true then Q "python_full_version" "<=" [a, b, c] else Q "python_full_version" "<" [a, b, c])

/-- the same for a single version -/
def BoundEqQ (Q : String → String → List Nat → Prop) (m : Version) : Prop :=
  ∀ a b c, m.release = [a, b, c] → Q "python_full_version" "==" [a, b, c]

theorem boundLoQ_true (i : Bool) (m : Version) : BoundLoQ QTrue i m := by
  refine ⟨fun _ _ => ?_, fun _ _ _ => ?_, fun _ _ _ _ => ?_⟩ <;> cases i <;> exact trivial
theorem boundHiQ_true (i : Bool) (m : Version) : BoundHiQ QTrue i m := by
  refine ⟨fun _ _ => ?_, fun _ _ _ => ?_, fun _ _ _ _ => ?_⟩ <;> cases i <;> exact trivial
theorem boundEqQ_true (m : Version) : BoundEqQ QTrue m := fun _ _ _ _ => trivial

variable {Q : String → String → List Nat → Prop}

theorem leafMeans_mk (E : Env) (n op : String) (lit cand : List Nat) (hn : PyName n) (hop : CmpOp op)
    (hlit : lit ≠ []) (hcand : cand ≠ []) (hE : E.get? n = some (relText cand))
    (hq : Q n op lit)
    (hfull : n = "python_full_version" → 3 ≤ lit.length := by simp) :
    LeafMeansQ Q E (n ++ " " ++ op ++ " \"" ++ relText lit ++ "\"")
      (opTest op (compare (stripZeros cand) (stripZeros lit))) := by
  refine ⟨n, op, relText lit, ⟨lit, hn, hop, hlit, hfull, hq, rfl⟩, ?_, ?_⟩
  · simp [leafChars, String.toList_append]
  · exact evalItem_py E n op lit cand hn hop hlit hcand hE

theorem PyItemQ.plain {n op v : String} (h : PyItemQ Q n op v) : PyName n ∧ CmpOp op ∧ Plain v.toList := by
  obtain ⟨lit, hn, hop, _, _, _, rfl⟩ := h
  exact ⟨hn, hop, by rw [relText_toList]; exact plain_relChars lit⟩

theorem relText_pad2 (a b : Nat) : relText [a, b] ++ padZeros 1 = relText [a, b, 0] := by
  have : padZeros 1 = ".0" := by decide
  simp [this, relText, joinWith, natToString, String.append_assoc]
  rfl

theorem relText_pad1 (a : Nat) : relText [a] ++ padZeros 2 = relText [a, 0, 0] := by
  have : padZeros 2 = ".0.0" := by decide
  simp [this, relText, joinWith, natToString, String.append_assoc]
  rfl

theorem opTest_ge (c : Ordering) : opTest ">=" c = true ↔ c ≠ .lt := by cases c <;> simp [opTest]
theorem opTest_gt (c : Ordering) : opTest ">" c = true ↔ c = .gt := by cases c <;> simp [opTest]
theorem opTest_le (c : Ordering) : opTest "<=" c = true ↔ c ≠ .gt := by cases c <;> simp [opTest]
theorem opTest_lt (c : Ordering) : opTest "<" c = true ↔ c = .lt := by cases c <;> simp [opTest]
theorem opTest_eq (c : Ordering) : opTest "==" c = true ↔ c = .eq := by cases c <;> simp [opTest]


theorem denLo_py (r : VRange) {m : Version} (hm : r.min = some m) (hb : PyBound m = true) (X Y Z : Nat) :
    r.denLo (pyV X Y Z) ↔
      (if r.imin then lex3 (pad3 m.release).1 (pad3 m.release).2.1 (pad3 m.release).2.2 X Y Z ≠ .gt
       else lex3 (pad3 m.release).1 (pad3 m.release).2.1 (pad3 m.release).2.2 X Y Z = .lt) := by
  unfold VRange.denLo
  simp only [hm]
  rw [vk_le_iff, vk_lt_iff, cmp_bound_py hb]

theorem rawHi_py (r : VRange) {m : Version} (hm : r.max = some m) (hb : PyBound m = true) (X Y Z : Nat) :
    r.rawHi (pyV X Y Z) ↔
      (if r.imax then lex3 X Y Z (pad3 m.release).1 (pad3 m.release).2.1 (pad3 m.release).2.2 ≠ .gt
       else lex3 X Y Z (pad3 m.release).1 (pad3 m.release).2.1 (pad3 m.release).2.2 = .lt) := by
  unfold VRange.rawHi
  simp only [hm]
  rw [vk_le_iff, vk_lt_iff, cmp_py_bound hb]

theorem ne_gt_iff (c : Ordering) : c ≠ .gt ↔ ¬ c = .gt := Iff.rfl

/-- **lower clause**: printed as one python item whose reference value is membership above the lower bound -/
theorem nestedLo_means (E : Env) (r : VRange) {m : Version} (hm : r.min = some m) (hb : PyBound m = true)
    (hQ : BoundLoQ Q r.imin m) (X Y Z : Nat) (hE : EnvPy E X Y Z) :
    ∃ s b, nestedLo r = [s] ∧ LeafMeansQ Q E s b ∧ (b = true ↔ r.denLo (pyV X Y Z)) := by
  obtain ⟨_, _, _, _, _, ht, hr⟩ := PyBound_parts hb
  have hden := denLo_py r hm hb X Y Z
  rcases hr with ⟨a, e⟩ | ⟨a, b, e⟩ | ⟨a, b, c, e⟩
  · -- precision 1
    cases hi : r.imin
    · refine ⟨_, _, ?_, leafMeans_mk E "python_full_version" ">" [a, 0, 0] [X, Y, Z] (Or.inr rfl)
        (Or.inr (Or.inl rfl)) (by simp) (by simp) hE.2 (by simpa [hi] using hQ.1 a e), ?_⟩
      · simp [nestedLo, hm, Version.precision, e, hi, ht, ← relText_pad1, String.append_assoc]
      · rw [hden, opTest_gt, sz3, lex3_gt]; simp only [hi, e, pad3, lex3_lt, Bool.false_eq_true, if_false]; omega
    · refine ⟨_, _, ?_, leafMeans_mk E "python_version" ">=" [a] [X, Y] (Or.inl rfl)
        (Or.inl rfl) (by simp) (by simp) hE.1 (by simpa [hi] using hQ.1 a e), ?_⟩
      · simp [nestedLo, hm, Version.precision, e, hi, ht]
      · rw [hden, opTest_ge, sz_pad1, sz_pad2, sz3]
        simp only [hi, e, pad3, if_true, ne_eq, lex3_lt, lex3_gt]; omega
  · -- precision 2
    cases hi : r.imin
    · refine ⟨_, _, ?_, leafMeans_mk E "python_full_version" ">" [a, b, 0] [X, Y, Z] (Or.inr rfl)
        (Or.inr (Or.inl rfl)) (by simp) (by simp) hE.2 (by simpa [hi] using hQ.2.1 a b e), ?_⟩
      · simp [nestedLo, hm, Version.precision, e, hi, ht, ← relText_pad2, String.append_assoc]
      · rw [hden, opTest_gt, sz3, lex3_gt]; simp only [hi, e, pad3, lex3_lt, Bool.false_eq_true, if_false]; omega
    · refine ⟨_, _, ?_, leafMeans_mk E "python_version" ">=" [a, b] [X, Y] (Or.inl rfl)
        (Or.inl rfl) (by simp) (by simp) hE.1 (by simpa [hi] using hQ.2.1 a b e), ?_⟩
      · simp [nestedLo, hm, Version.precision, e, hi, ht]
      · rw [hden, opTest_ge, sz_pad2, sz_pad2, sz3]
        simp only [hi, e, pad3, if_true, ne_eq, lex3_lt, lex3_gt]; omega
  · -- precision 3
    cases hi : r.imin
    · refine ⟨_, _, ?_, leafMeans_mk E "python_full_version" ">" [a, b, c] [X, Y, Z] (Or.inr rfl)
        (Or.inr (Or.inl rfl)) (by simp) (by simp) hE.2 (by simpa [hi] using hQ.2.2 a b c e), ?_⟩
      · simp [nestedLo, hm, Version.precision, e, hi, ht]
      · rw [hden, opTest_gt, sz3, lex3_gt]; simp only [hi, e, pad3, lex3_lt, Bool.false_eq_true, if_false]; omega
    · refine ⟨_, _, ?_, leafMeans_mk E "python_full_version" ">=" [a, b, c] [X, Y, Z] (Or.inr rfl)
        (Or.inl rfl) (by simp) (by simp) hE.2 (by simpa [hi] using hQ.2.2 a b c e), ?_⟩
      · simp [nestedLo, hm, Version.precision, e, hi, ht]
      · rw [hden, opTest_ge, sz3]
        simp only [hi, e, pad3, if_true, ne_eq, lex3_lt, lex3_gt]; omega


/-- **upper clause**: printed as one python item whose reference value is membership below the upper bound -/
theorem nestedHi_means (E : Env) (r : VRange) {m : Version} (hm : r.max = some m) (hb : PyBound m = true)
    (hQ : BoundHiQ Q r.imax m) (X Y Z : Nat) (hE : EnvPy E X Y Z) :
    ∃ s b, nestedHi r = [s] ∧ LeafMeansQ Q E s b ∧ (b = true ↔ r.rawHi (pyV X Y Z)) := by
  obtain ⟨_, _, _, _, _, ht, hr⟩ := PyBound_parts hb
  have hden := rawHi_py r hm hb X Y Z
  rcases hr with ⟨a, e⟩ | ⟨a, b, e⟩ | ⟨a, b, c, e⟩
  · -- precision 1
    cases hi : r.imax
    · refine ⟨_, _, ?_, leafMeans_mk E "python_version" "<" [a] [X, Y] (Or.inl rfl)
        (Or.inr (Or.inr (Or.inr (Or.inl rfl)))) (by simp) (by simp) hE.1 (by simpa [hi] using hQ.1 a e), ?_⟩
      · simp [nestedHi, hm, Version.precision, e, hi, ht]
      · rw [hden, opTest_lt, sz_pad1, sz_pad2, sz3]
        simp only [hi, e, pad3, lex3_lt, Bool.false_eq_true, if_false]; omega
    · refine ⟨_, _, ?_, leafMeans_mk E "python_full_version" "<=" [a, 0, 0] [X, Y, Z] (Or.inr rfl)
        (Or.inr (Or.inr (Or.inl rfl))) (by simp) (by simp) hE.2 (by simpa [hi] using hQ.1 a e), ?_⟩
      · simp [nestedHi, hm, Version.precision, e, hi, ht, ← relText_pad1, String.append_assoc]
      · rw [hden, opTest_le, sz3]
        simp only [hi, e, pad3, if_true, ne_eq, lex3_lt, lex3_gt]
  · -- precision 2
    cases hi : r.imax
    · refine ⟨_, _, ?_, leafMeans_mk E "python_version" "<" [a, b] [X, Y] (Or.inl rfl)
        (Or.inr (Or.inr (Or.inr (Or.inl rfl)))) (by simp) (by simp) hE.1 (by simpa [hi] using hQ.2.1 a b e), ?_⟩
      · simp [nestedHi, hm, Version.precision, e, hi, ht]
      · rw [hden, opTest_lt, sz_pad2, sz_pad2, sz3]
        simp only [hi, e, pad3, lex3_lt, Bool.false_eq_true, if_false]; omega
    · refine ⟨_, _, ?_, leafMeans_mk E "python_full_version" "<=" [a, b, 0] [X, Y, Z] (Or.inr rfl)
        (Or.inr (Or.inr (Or.inl rfl))) (by simp) (by simp) hE.2 (by simpa [hi] using hQ.2.1 a b e), ?_⟩
      · simp [nestedHi, hm, Version.precision, e, hi, ht, ← relText_pad2, String.append_assoc]
      · rw [hden, opTest_le, sz3]
        simp only [hi, e, pad3, if_true, ne_eq, lex3_lt, lex3_gt]
  · -- precision 3
    cases hi : r.imax
    · refine ⟨_, _, ?_, leafMeans_mk E "python_full_version" "<" [a, b, c] [X, Y, Z] (Or.inr rfl)
        (Or.inr (Or.inr (Or.inr (Or.inl rfl)))) (by simp) (by simp) hE.2 (by simpa [hi] using hQ.2.2 a b c e), ?_⟩
      · simp [nestedHi, hm, Version.precision, e, hi, ht]
      · rw [hden, opTest_lt, sz3]
        simp only [hi, e, pad3, lex3_lt, Bool.false_eq_true, if_false]
    · refine ⟨_, _, ?_, leafMeans_mk E "python_full_version" "<=" [a, b, c] [X, Y, Z] (Or.inr rfl)
        (Or.inr (Or.inr (Or.inl rfl))) (by simp) (by simp) hE.2 (by simpa [hi] using hQ.2.2 a b c e), ?_⟩
      · simp [nestedHi, hm, Version.precision, e, hi, ht]
      · rw [hden, opTest_le, sz3]
        simp only [hi, e, pad3, if_true, ne_eq, lex3_lt, lex3_gt]


/-! ### one range -/

theorem parseText_of_conj (t : String) (syn : Syn) (h : ConjParse t.toList syn) (hne : t.toList ≠ []) :
    parseText t = .ok syn := by
  unfold parseText
  have hl : 1 ≤ t.toList.length := by
    cases ht : t.toList with
    | nil => exact absurd ht hne
    | cons _ _ => simp
  obtain ⟨f, hf⟩ : ∃ f, 2 * t.toList.length + 2 = f + 3 := ⟨2 * t.toList.length - 1, by omega⟩
  have := h f [] (Or.inl rfl)
  simp only [List.append_nil] at this
  simp only [hf, this, skipWs, List.isEmpty_nil, if_true]

theorem leaf_conjParse {E : Env} {s : String} {b : Bool} (h : LeafMeansQ Q E s b) :
    ∃ syn, ConjParse s.toList syn ∧ evalSyn E syn = some b ∧ PySynQ Q syn := by
  obtain ⟨n, op, v, hi, hs, he⟩ := h
  obtain ⟨hn, hop, hv⟩ := hi.plain
  refine ⟨.one (.item n op v false), ?_, ?_, by simp [PySynQ, PyAtomQ, hi]⟩
  · intro f rest hr
    rw [hs]
    have := (parseSyn_one (f + 1) n op v.toList rest hn hop (plain_qfree hv) hr).1
    rwa [String.ofList_toList] at this
  · simp [evalSyn, evalSynAcc, evalAtom, he, and?]

theorem two_conjParse {E : Env} {s s' : String} {b b' : Bool} (h : LeafMeansQ Q E s b) (h' : LeafMeansQ Q E s' b') :
    ∃ syn, ConjParse (s ++ " and " ++ s').toList syn ∧ evalSyn E syn = some (b && b') ∧ PySynQ Q syn := by
  obtain ⟨n, op, v, hi, hs, he⟩ := h
  obtain ⟨n', op', v', hi', hs', he'⟩ := h'
  obtain ⟨hn, hop, hv⟩ := hi.plain
  obtain ⟨hn', hop', hv'⟩ := hi'.plain
  refine ⟨.more (.item n op v false) false (.one (.item n' op' v' false)), ?_, ?_,
    by simp [PySynQ, PyAtomQ, hi, hi']⟩
  · intro f rest hr
    simp only [String.toList_append, hs, hs', List.append_assoc]
    have := parseSyn_two f n op v.toList n' op' v'.toList rest hn hop (plain_qfree hv) hn' hop' (plain_qfree hv') hr
    rwa [String.ofList_toList, String.ofList_toList] at this
  · simp [evalSyn, evalSynAcc, evalAtom, he, he', and?]

theorem leafChars_ne_nil (n op : String) (val : List Char) (hn : PyName n) : leafChars n op val ≠ [] := by
  rcases hn with rfl | rfl <;> simp [leafChars]

/-- a range whose written bounds are Python bounds, not the universal range -/
def PyRange (r : VRange) : Bool :=
  (match r.min with | none => true | some m => PyBound m) &&
  (match r.max with | none => true | some m => PyBound m) && !r.isAny

theorem allows_py_iff (r : VRange) (hr : PyRange r = true) (X Y Z : Nat) :
    r.allows (pyV X Y Z) = true ↔ r.denLo (pyV X Y Z) ∧ r.rawHi (pyV X Y Z) := by
  simp only [PyRange, Bool.and_eq_true] at hr
  have hb : ∀ e ∈ r.bounds, PyBound e = true := by
    intro e he
    simp only [VRange.bounds, List.mem_append, Option.mem_toList] at he
    rcases he with he | he
    · have := hr.1.1; simpa [he] using this
    · have := hr.1.2; simpa [he] using this
  exact VRange.allows_iff_raw r (pyV X Y Z) (fun e he => PyBound_wf (hb e he)) (pyV_wf X Y Z)
    (fun e he => regular_py (hb e he) X Y Z)

/-- **`create_nested_marker` for one range is exact**: the printed text parses, and its reference value on
the environment of interpreter `X.Y.Z` is membership of `X.Y.Z` in the range. -/
theorem nestedRng_exact (E : Env) (r : VRange) (hr : PyRange r = true)
    (hQ : (∀ m, r.min = some m → BoundLoQ Q r.imin m) ∧ (∀ m, r.max = some m → BoundHiQ Q r.imax m))
    (X Y Z : Nat) (hE : EnvPy E X Y Z) :
    ∃ syn, ConjParse (nestedRC "python_version" (.rng r)).toList syn ∧
      parseText (nestedRC "python_version" (.rng r)) = .ok syn ∧
      evalSyn E syn = some (r.allows (pyV X Y Z)) ∧ PySynQ Q syn := by
  have hall := allows_py_iff r hr X Y Z
  have hr' := hr
  simp only [PyRange, Bool.and_eq_true, Bool.not_eq_true', VRange.isAny, Bool.and_eq_false_iff,
    Option.isNone_eq_false_iff, Option.isSome_iff_exists] at hr'
  rw [nestedRC_rng]
  have key : ∀ (t : String) (syn : Syn) (b : Bool), ConjParse t.toList syn → t.toList ≠ [] →
      evalSyn E syn = some b ∧ PySynQ Q syn → (b = true ↔ r.allows (pyV X Y Z) = true) →
      ∃ syn, ConjParse t.toList syn ∧ parseText t = .ok syn ∧ evalSyn E syn = some (r.allows (pyV X Y Z)) ∧
        PySynQ Q syn := by
    intro t syn b hc hne he hb
    refine ⟨syn, hc, parseText_of_conj t syn hc hne, ?_, he.2⟩
    rw [he.1]; congr 1; exact Bool.eq_iff_iff.2 hb
  cases hmin : r.min with
  | none =>
    cases hmax : r.max with
    | none => rcases hr'.2 with ⟨_, h⟩ | ⟨_, h⟩ <;> simp_all
    | some M =>
      obtain ⟨s, b, hs, hm, hb⟩ := nestedHi_means E r hmax (by simpa [hmax] using hr'.1.2) (hQ.2 _ hmax) X Y Z hE
      obtain ⟨syn, hc, he⟩ := leaf_conjParse hm
      have hlo : nestedLo r = [] := by simp [nestedLo, hmin]
      rw [hlo, hs]
      refine key s syn b hc ?_ he ?_
      · obtain ⟨n, op, v, hi, hs', _⟩ := hm; rw [hs']; exact leafChars_ne_nil n op _ hi.plain.1
      · rw [hall, hb]; simp [VRange.denLo, hmin]
  | some m =>
    obtain ⟨s, b, hs, hm, hb⟩ := nestedLo_means E r hmin (by simpa [hmin] using hr'.1.1) (hQ.1 _ hmin) X Y Z hE
    cases hmax : r.max with
    | none =>
      obtain ⟨syn, hc, he⟩ := leaf_conjParse hm
      have hhi : nestedHi r = [] := by simp [nestedHi, hmax]
      rw [hhi, hs]
      refine key s syn b hc ?_ he ?_
      · obtain ⟨n, op, v, hi, hs', _⟩ := hm; rw [hs']; exact leafChars_ne_nil n op _ hi.plain.1
      · rw [hall, hb]; simp [VRange.rawHi, hmax]
    | some M =>
      obtain ⟨s', b', hs', hm', hb'⟩ := nestedHi_means E r hmax (by simpa [hmax] using hr'.1.2) (hQ.2 _ hmax) X Y Z hE
      obtain ⟨syn, hc, he⟩ := two_conjParse hm hm'
      rw [hs, hs']
      have e : joinWith " and " ([s] ++ [s']) = s ++ " and " ++ s' := by simp [joinWith]
      rw [e]
      refine key _ syn (b && b') hc ?_ he ?_
      · obtain ⟨n, op, v, hi, hs'', _⟩ := hm
        simp only [String.toList_append, hs'']
        have := leafChars_ne_nil n op v.toList hi.plain.1
        simp [this]
      · rw [hall, Bool.and_eq_true, hb, hb']


/-! ### one version (precision 3) -/

theorem nestedVer_exact (E : Env) (v : Version) (hb : PyBound v = true) (hp : v.precision = 3)
    (hQ : BoundEqQ Q v) (X Y Z : Nat) (hE : EnvPy E X Y Z) :
    ∃ syn, ConjParse (nestedRC "python_version" (.ver v)).toList syn ∧
      parseText (nestedRC "python_version" (.ver v)) = .ok syn ∧
      evalSyn E syn = some (v.allows (pyV X Y Z)) ∧ PySynQ Q syn := by
  obtain ⟨_, _, _, _, _, ht, hr⟩ := PyBound_parts hb
  obtain ⟨a, b, c, e⟩ : ∃ a b c, v.release = [a, b, c] := by
    rcases hr with ⟨a, e⟩ | ⟨a, b, e⟩ | ⟨a, b, c, e⟩ <;> simp [Version.precision, e] at hp
    exact ⟨a, b, c, e⟩
  have hm := leafMeans_mk E "python_full_version" "==" [a, b, c] [X, Y, Z] (Or.inr rfl)
    (Or.inr (Or.inr (Or.inr (Or.inr rfl)))) (by simp) (by simp) hE.2 (hQ a b c e)
  have htxt : nestedRC "python_version" (.ver v) =
      "python_full_version" ++ " " ++ "==" ++ " \"" ++ relText [a, b, c] ++ "\"" := by
    simp [nestedRC, hp, ht, e]
  obtain ⟨syn, hc, he, hpy⟩ := leaf_conjParse hm
  rw [htxt]
  refine ⟨syn, hc, parseText_of_conj _ syn hc ?_, ?_, hpy⟩
  · obtain ⟨n, op, v', hi, hs', _⟩ := hm; rw [hs']; exact leafChars_ne_nil n op _ hi.plain.1
  · rw [he]; congr 1
    apply Bool.eq_iff_iff.2
    rw [opTest_eq, sz3, lex3_eq]
    have hal : v.allows (pyV X Y Z) = Version.eqv v (pyV X Y Z) := by
      simp [Version.allows, pyV, finalV, Version.isLocal]
    rw [hal]
    simp only [Version.eqv, beq_iff_eq, cmp_bound_py hb, e, pad3, lex3_eq]
    omega

/-! ### unions -/

def orAll : List Bool → Bool
  | [] => false
  | b :: bs => b || orAll bs

theorem orAll_map {α : Type} (f : α → Bool) (l : List α) : orAll (l.map f) = l.any f := by
  induction l with
  | nil => rfl
  | cons a as ih => simp [orAll, ih]

theorem evalSyn_union (E : Env) (ms : List (Syn × Bool)) (hne : ms ≠ [])
    (h : ∀ p ∈ ms, evalSyn E p.1 = some p.2) :
    evalSyn E (unionSyn (ms.map (·.1))) = some (orAll (ms.map (·.2))) := by
  induction ms with
  | nil => exact absurd rfl hne
  | cons p ps ih =>
    have hp := h p (by simp)
    cases ps with
    | nil =>
      simp only [List.map_cons, List.map_nil, unionSyn, evalSyn, evalSynAcc, evalAtom, orAll] at hp ⊢
      rw [hp]; simp [and?]
    | cons q qs =>
      have ih' := ih (by simp) (fun p hp => h p (by simp [hp]))
      simp only [List.map_cons, unionSyn, evalSyn, evalSynAcc, evalAtom, orAll] at ih' ⊢
      simp only [evalSyn] at hp
      rw [hp, ih']
      simp [and?, or?]


/-- the domain of one range constraint: Python bounds; a single version must have precision 3 (the shape
`Version` of precision < 3 is the known finding `single-version-precision-lt-3`) -/
def PyDom : RC → Bool
  | .ver v => PyBound v && v.precision == 3
  | .rng r => PyRange r

/-- the items printed for the bounds of a range constraint have the property `Q` -/
def RCBoundQ (Q : String → String → List Nat → Prop) : RC → Prop
  | .ver v => BoundEqQ Q v
  | .rng r => (∀ m, r.min = some m → BoundLoQ Q r.imin m) ∧ (∀ m, r.max = some m → BoundHiQ Q r.imax m)

theorem rcBoundQ_true (rc : RC) : RCBoundQ QTrue rc := by
  cases rc with
  | ver v => exact boundEqQ_true v
  | rng r => exact ⟨fun m _ => boundLoQ_true _ m, fun m _ => boundHiQ_true _ m⟩

theorem nestedRC_conj (E : Env) (rc : RC) (hd : PyDom rc = true) (hQ : RCBoundQ Q rc)
    (X Y Z : Nat) (hE : EnvPy E X Y Z) :
    ∃ syn, ConjParse (nestedRC "python_version" rc).toList syn ∧
      parseText (nestedRC "python_version" rc) = .ok syn ∧
      evalSyn E syn = some (rc.allows (pyV X Y Z)) ∧ PySynQ Q syn := by
  cases rc with
  | ver v =>
    simp only [PyDom, Bool.and_eq_true, beq_iff_eq] at hd
    exact nestedVer_exact E v hd.1 hd.2 hQ X Y Z hE
  | rng r => exact nestedRng_exact E r hd hQ X Y Z hE

theorem PyDom_not_any {rc : RC} (h : PyDom rc = true) : rc.isAny = false := by
  cases rc with
  | ver v => rfl
  | rng r =>
    simp only [PyDom, PyRange, Bool.and_eq_true, Bool.not_eq_true'] at h
    exact h.2

theorem unionText_toList (t : RC → String) (rs : List RC) :
    (joinWith " or " (rs.map (fun rc => "(" ++ t rc ++ ")"))).toList =
      unionChars (rs.map (fun rc => (t rc).toList)) := by
  induction rs with
  | nil => simp [joinWith, unionChars]
  | cons a as ih =>
    cases as with
    | nil => simp [joinWith, unionChars, String.toList_append]
    | cons b bs =>
      simp only [List.map_cons, joinWith, unionChars, String.toList_append] at ih ⊢
      rw [ih]
      simp

theorem length_unionChars (cs : List (List Char)) : 2 * cs.length ≤ (unionChars cs).length := by
  induction cs with
  | nil => simp [unionChars]
  | cons a as ih =>
    cases as with
    | nil => simp [unionChars]
    | cons b bs => simp [unionChars] at ih ⊢; omega

theorem pySyn_union (ms : List (List Char × Syn)) (hne : ms ≠ []) (h : ∀ p ∈ ms, PySynQ Q p.2) :
    PySynQ Q (unionSyn (ms.map (·.2))) := by
  induction ms with
  | nil => exact absurd rfl hne
  | cons p ps ih =>
    cases ps with
    | nil => simpa [unionSyn, PySynQ, PyAtomQ] using h p (by simp)
    | cons q qs =>
      have := ih (by simp) (fun x hx => h x (by simp [hx]))
      simp only [List.map_cons, unionSyn, PySynQ, PyAtomQ] at this ⊢
      exact ⟨h p (by simp), this⟩

/-- **`create_nested_marker` for a union is exact**: `(…) or (…)` parses and its reference value is the
disjunction of the members' memberships. -/
theorem nestedUnion_exact (E : Env) (rs : List RC) (hne : rs ≠ []) (hd : ∀ rc ∈ rs, PyDom rc = true)
    (hQ : ∀ rc ∈ rs, RCBoundQ Q rc) (X Y Z : Nat) (hE : EnvPy E X Y Z) :
    ∃ syn, parseText (joinWith " or " (rs.map (fun rc => "(" ++ (if rc.isAny then "" else nestedRC "python_version" rc) ++ ")"))) = .ok syn ∧
      evalSyn E syn = some (rs.any (fun rc => rc.allows (pyV X Y Z))) ∧ PySynQ Q syn := by
  -- per-member syntax trees
  have hmem : ∀ rc ∈ rs, ∃ syn, ConjParse (if rc.isAny then "" else nestedRC "python_version" rc).toList syn ∧
      evalSyn E syn = some (rc.allows (pyV X Y Z)) ∧ PySynQ Q syn := by
    intro rc hrc
    obtain ⟨syn, hc, _, he⟩ := nestedRC_conj E rc (hd rc hrc) (hQ rc hrc) X Y Z hE
    exact ⟨syn, by simpa [PyDom_not_any (hd rc hrc)] using hc, he⟩
  -- choose them along the list
  let t : RC → String := fun rc => if rc.isAny then "" else nestedRC "python_version" rc
  have hlist : ∃ (ms : List (List Char × Syn)) (bs : List (Syn × Bool)),
      ms.map (·.1) = rs.map (fun rc => (t rc).toList) ∧ (∀ p ∈ ms, ConjParse p.1 p.2 ∧ PySynQ Q p.2) ∧
      bs.map (·.1) = ms.map (·.2) ∧ bs.map (·.2) = rs.map (fun rc => rc.allows (pyV X Y Z)) ∧
      ∀ p ∈ bs, evalSyn E p.1 = some p.2 := by
    clear hne hd hQ
    induction rs with
    | nil => exact ⟨[], [], rfl, by simp, rfl, rfl, by simp⟩
    | cons a as ih =>
      obtain ⟨sa, ha, hea, hpa⟩ := hmem a (by simp)
      obtain ⟨ms, bs, h1, h2, h3, h4, h5⟩ := ih (fun rc hrc => hmem rc (by simp [hrc]))
      refine ⟨((t a).toList, sa) :: ms, (sa, a.allows (pyV X Y Z)) :: bs, by simp [h1], ?_, by simp [h3],
        by simp [h4], ?_⟩
      · intro p hp
        rcases List.mem_cons.1 hp with rfl | hp
        · exact ⟨ha, hpa⟩
        · exact h2 p hp
      · intro p hp
        rcases List.mem_cons.1 hp with rfl | hp
        · exact hea
        · exact h5 p hp
  obtain ⟨ms, bs, h1, h2, h3, h4, h5⟩ := hlist
  have hlen : ms.length = rs.length := by
    have := congrArg List.length h1; simpa using this
  have hblen : bs.length = rs.length := by
    have := congrArg List.length h4; simpa using this
  have hpos : 1 ≤ rs.length := by
    cases rs with
    | nil => exact absurd rfl hne
    | cons _ _ => simp
  have hmne : ms ≠ [] := by
    intro h; rw [h] at hlen; simp at hlen; omega
  have hbne : bs ≠ [] := by
    intro h; rw [h] at hblen; simp at hblen; omega
  refine ⟨unionSyn (ms.map (·.2)), ?_, ?_, pySyn_union _ hmne (fun p hp => (h2 p hp).2)⟩
  · unfold parseText
    have htl := unionText_toList t rs
    simp only [t] at htl h1
    rw [htl, ← h1]
    have hlen2 := length_unionChars (ms.map (·.1))
    simp only [List.length_map, hlen] at hlen2
    obtain ⟨f, hf⟩ : ∃ f, 2 * (unionChars (ms.map (·.1))).length + 2 = f + ms.length + 4 :=
      ⟨2 * (unionChars (ms.map (·.1))).length + 2 - ms.length - 4, by omega⟩
    have := (parseSyn_union ms hmne (fun p hp => (h2 p hp).1) f [] (Or.inl rfl)).1
    simp only [List.append_nil] at this
    simp only [hf, this, skipWs, List.isEmpty_nil, if_true]
  · have hev := evalSyn_union E bs hbne h5
    rw [h3, h4] at hev
    rw [hev]
    congr 1
    exact orAll_map _ rs

end Poetry
