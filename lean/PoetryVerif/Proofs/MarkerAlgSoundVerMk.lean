/-
The constructor fact `MkVerOK` for `python_full_version`, when every bound is a final release printed with at
least three components (`LitB`): `SingleMarker("python_full_version", str(c))` for a simple, non-empty,
non-universal, non-union constraint re-reads to the very same constraint (C06's text-level lemmas on
`op ++ "X.Y.Z…"`, plus the operator-less spelling of an exact version).  The one shape left as a hypothesis is
the simple *union* `!= V` (`MkVerOKNe`).
-/
import PoetryVerif.Proofs.MarkerAlgSoundVerInv

set_option linter.unusedSimpArgs false
set_option linter.unusedVariables false

namespace Poetry.Marker
open Poetry Poetry.Version

/-- every bound is a release literal `X.Y.Z…` (at least three components) with its canonical text -/
def LitB (B : List Version) : Prop := ∀ V ∈ B, ∃ x r, 2 ≤ r.length ∧ V = litV x r

theorem digit_startOk (d : Char) (h : isDigit d = true) : StartOk d := by
  have hl := digit_lower d h
  refine ⟨?_, ?_, ?_, ?_, ?_, ?_, ?_, ?_, ?_, ?_⟩ <;>
    first
    | (rw [hl]; exact digit_ne d _ h (by decide))
    | exact digit_ne d _ h (by decide)

theorem matchPattern1_relText (x : Nat) (r : List Nat) :
    matchPattern1 (Version.relText (x :: r)).toList = some (none, Version.relText (x :: r)) := by
  obtain ⟨d, ds, hd, hdig⟩ := relChars_cons x r
  have hvo := relChars_valueOk x r
  rw [relText_toList, hd]
  rw [hd] at hvo
  rw [matchPattern1_bare d ds (digit_startOk d hdig) hvo, ← hd, ofList_relChars]

theorem leafPrepare_pfv_bare (x : Nat) (r : List Nat) (hr : 2 ≤ r.length) :
    leafPrepare "python_full_version" (Version.relText (x :: r)) false =
      .ok { name := "python_full_version", op := "==", value := Version.relText (x :: r), swapped := false,
            cstr := Version.relText (x :: r), kind := .version true } := by
  unfold leafPrepare
  simp only [Bool.false_eq_true, if_false, matchPattern1_relText x r, Option.getD_none]
  have f1 : Gen.versionLikeMarkerNames.contains "python_full_version" = true := by decide
  have f1' : "python_full_version" ∈ Gen.versionLikeMarkerNames := by decide
  have f3 : aliasName "python_full_version" = "python_full_version" := by decide
  have f4 : ("python_full_version" != "platform_release") = true := by decide
  have hp : ¬ (r.length + 1 < 3) := by omega
  simp [f1, f1', f3, f4, countChar_relText, hp]

/-- the operator-less spelling of an exact version -/
theorem mkSingle_pfv_bare (x : Nat) (r : List Nat) (hr : 2 ≤ r.length) :
    mkSingle "python_full_version" (Version.relText (x :: r)) false =
      .ok ⟨"python_full_version", "==", Version.relText (x :: r), false, .ver (.single (.ver (litV x r)))⟩ := by
  simp [mkSingle, leafPrepare_pfv_bare x r hr, bind, Except.bind, parseByKind_ver _ _ (pmvc_bare x r),
    pure, Except.pure]

/-- the constructor fact for the one remaining simple shape, the union `!= V` -/
def MkVerOKNe (B : List Version) (n : String) (p : Version) : Prop :=
  ∀ (rs : List RC) (s : Single), (VC.union rs).WF → (∀ c ∈ (VC.union rs).flatten, RegMember B c) →
    (VC.union rs).isSimple = .ok true → mkSingleOfC n (.ver (.union rs)) = .ok s →
    VerLeaf B n (.single s) ∧ ∀ vc, s.c = .ver vc → vc.allowsPlain p = (VC.union rs).allowsPlain p

theorem litV_text (x : Nat) (r : List Nat) : (litV x r).text = Version.relText (x :: r) := rfl

theorem verLeaf_eqLit {B : List Version} (x : Nat) (r : List Nat) (hr : 2 ≤ r.length) (hB : litV x r ∈ B) :
    VerLeaf B "python_full_version"
      (.single ⟨"python_full_version", "==", Version.relText (x :: r), false, .ver (.single (.ver (litV x r)))⟩) := by
  have hm : RegMember B (.ver (litV x r)) := by
    refine ⟨litV_wf x r, trivial, trivial, ?_⟩
    intro e he
    simp [RC.bounds, RC.view, VRange.bounds, RC.min, RC.max] at he
    rcases he with rfl | rfl <;> exact hB
  refine ⟨rfl, ?_, _, rfl, ⟨hm.1, hm.2.2.1⟩, ?_⟩
  · simp only [Single.coherent, itemConstraintString, Bool.false_eq_true, if_false]
    rw [mkSingle_pfv3 .eq "==" (by decide) x r hr _ rfl]
    simp
  · intro c hc
    simp only [VC.flatten, List.mem_cons, List.mem_nil_iff, or_false] at hc
    subst hc; exact hm

/-- **`MkVerOK` for `python_full_version` over release-literal bounds** (up to the `!= V` shape) -/
theorem mkVerOK_pfv {B : List Version} (hL : LitB B) {p : Version}
    (Hne : MkVerOKNe B "python_full_version" p) : MkVerOK B "python_full_version" p := by
  intro rc s hw hm he ha hsimp hmk
  cases rc with
  | empty => simp [VC.isEmpty] at he
  | union rs => exact Hne rs s hw hm hsimp hmk
  | single c =>
    have hc := hm c (by simp [VC.flatten])
    cases c with
    | ver V =>
      obtain ⟨x, r, hr, rfl⟩ := hL V (hc.2.2.2 V (by simp [RC.bounds, RC.view, VRange.bounds, RC.min]))
      simp only [mkSingleOfC, LeafC.toStr, VC.toStr, RC.toStr, litV_text, bind, Except.bind,
        mkSingle_pfv_bare x r hr] at hmk
      cases hmk
      refine ⟨verLeaf_eqLit x r hr (hc.2.2.2 _ (by simp [RC.bounds, RC.view, VRange.bounds, RC.min])), ?_⟩
      intro vc hvc; cases hvc; rfl
    | rng R =>
      obtain ⟨mn, mx, imin, imax⟩ := R
      have htidy := hc.2.1
      cases mn with
      | none =>
        cases mx with
        | none => simp [VC.isAny, RC.isAny, VRange.isAny] at ha
        | some V =>
          have him : imin = false := htidy.1 rfl
          subst him
          obtain ⟨x, r, hr, rfl⟩ := hL V (hc.2.2.2 V (by simp [RC.bounds, RC.view, VRange.bounds, RC.min, RC.max]))
          have hB := hc.2.2.2 (litV x r) (by simp [RC.bounds, RC.view, VRange.bounds, RC.min, RC.max])
          cases imax with
          | false =>
            have hi : (Spec.SOp.lt, "<", Spec.SOp.ge, ">=") ∈ ineqOps := by decide
            simp only [mkSingleOfC, LeafC.toStr, VC.toStr, RC.toStr, VRange.toStr, litV_text, bind, Except.bind,
              Bool.false_eq_true, if_false, (mkSingle_ineq hi x r hr).1] at hmk
            cases hmk
            exact ⟨verLeaf_ineq hi x r hr hB, fun vc hvc => by cases hvc; rfl⟩
          | true =>
            have hi : (Spec.SOp.le, "<=", Spec.SOp.gt, ">") ∈ ineqOps := by decide
            simp only [mkSingleOfC, LeafC.toStr, VC.toStr, RC.toStr, VRange.toStr, litV_text, bind, Except.bind,
              if_true, (mkSingle_ineq hi x r hr).1] at hmk
            cases hmk
            exact ⟨verLeaf_ineq hi x r hr hB, fun vc hvc => by cases hvc; rfl⟩
      | some V =>
        cases mx with
        | some W => simp [VC.isSimple, RC.isSimple, VRange.isSimple] at hsimp
        | none =>
          have him : imax = false := htidy.2 rfl
          subst him
          obtain ⟨x, r, hr, rfl⟩ := hL V (hc.2.2.2 V (by simp [RC.bounds, RC.view, VRange.bounds, RC.min, RC.max]))
          have hB := hc.2.2.2 (litV x r) (by simp [RC.bounds, RC.view, VRange.bounds, RC.min, RC.max])
          cases imin with
          | false =>
            have hi : (Spec.SOp.gt, ">", Spec.SOp.le, "<=") ∈ ineqOps := by decide
            simp only [mkSingleOfC, LeafC.toStr, VC.toStr, RC.toStr, VRange.toStr, litV_text, bind, Except.bind,
              Bool.false_eq_true, if_false, (mkSingle_ineq hi x r hr).1] at hmk
            cases hmk
            exact ⟨verLeaf_ineq hi x r hr hB, fun vc hvc => by cases hvc; rfl⟩
          | true =>
            have hi : (Spec.SOp.ge, ">=", Spec.SOp.lt, "<") ∈ ineqOps := by decide
            simp only [mkSingleOfC, LeafC.toStr, VC.toStr, RC.toStr, VRange.toStr, litV_text, bind, Except.bind,
              if_true, (mkSingle_ineq hi x r hr).1] at hmk
            cases hmk
            exact ⟨verLeaf_ineq hi x r hr hB, fun vc hvc => by cases hvc; rfl⟩

/-! ### the simple union `!= V` -/

theorem litV_stable (x : Nat) (r : List Nat) : (litV x r).isUnstable = false := by
  have := litV_final x r
  simp only [Spec.Pep508.isFinal, Bool.and_eq_true, Option.isNone_iff_eq_none] at this
  simp [Version.isUnstable, Version.isPrerelease, Version.isDevrelease, this.1.1.1.1.2, this.1.1.2]

/-- `<V || >V` is a well-formed union over regular members -/
theorem neUnion_wf {B : List Version} (V : Version) (hV : V.wf = true) (hst : V.isUnstable = false) (hB : V ∈ B) :
    (VC.union [.rng ⟨none, some V, false, false⟩, .rng ⟨some V, none, false, false⟩]).WF ∧
    ∀ c ∈ (VC.union [.rng ⟨none, some V, false, false⟩, .rng ⟨some V, none, false, false⟩]).flatten,
      RegMember B c := by
  have m1 := ineqRange_member (B := B) .lt (Or.inl rfl) V hV hB
  have m2 := ineqRange_member (B := B) .gt (Or.inr (Or.inr (Or.inl rfl))) V hV hB
  simp only [ineqRange] at m1 m2
  have hlt : Version.lt V.firstDevrelease V = true := (lt_iff _ _).2 (firstDev_lt hst)
  have hsl : VRange.isStrictlyLower ⟨none, some V, false, false⟩ ⟨some V, none, false, false⟩ = true := by
    simp [VRange.isStrictlyLower, VRange.allowedMax, VRange.allowedMin, hst, optVerEq, hlt]
  refine ⟨⟨by simp, ?_, ?_, ?_⟩, ?_⟩
  · intro c hc
    simp only [List.mem_cons, List.mem_nil_iff, or_false] at hc
    rcases hc with rfl | rfl
    · exact ⟨m1.1, m1.2.2.1⟩
    · exact ⟨m2.1, m2.2.2.1⟩
  · simp only [SortedRC, List.pairwise_cons, List.mem_singleton, forall_eq, List.not_mem_nil, false_implies,
      implies_true, List.Pairwise.nil, and_true]
    exact hsl
  · refine ⟨⟨hsl, ?_⟩, trivial⟩
    simp [VRange.isAdjacentTo, RC.view, RC.min, RC.max, RC.imin, RC.imax]
  · intro c hc
    simp only [VC.flatten, List.mem_cons, List.mem_nil_iff, or_false] at hc
    rcases hc with rfl | rfl
    · exact m1
    · exact m2

theorem anyAllows_eq_allowsPlain (rs : List RC) (p : Version) : anyAllows rs p = (VC.union rs).allowsPlain p := by
  simp [anyAllows, VC.allowsPlain, VC.flatten]

/-- **the `!= V` shape**: the constructor on `"!=" ++ V` yields `<V || >V`, which admits the environment's
version exactly when the original simple union does (both exclude exactly `V` among regular probes:
`inverted_sem`, `ver_allows_iff`, `lower_allows`, `upper_allows`) -/
theorem mkVerOKNe_pfv {B : List Version} (hB : RegB B) (hL : LitB B) {p : Version} (hp : p.wf = true)
    (hreg : Regular B p) : MkVerOKNe B "python_full_version" p := by
  intro rs s hw hm hsimp hmk
  have hmr : ∀ c ∈ rs, RegMember B c := by simpa [VC.flatten] using hm
  obtain ⟨hok, hN⟩ := unionOK_of_reg hB rs hmr hw.2.2.1
  -- the excluded single version
  have hex : ∃ v, VC.excludedSingleVersion rs = .ok (some v) := by
    simp only [VC.isSimple, bind, Except.bind, pure, Except.pure] at hsimp
    cases h : VC.excludedSingleVersion rs with
    | error e => simp [h] at hsimp
    | ok o =>
      cases o with
      | none => simp [h] at hsimp
      | some v => exact ⟨v, rfl⟩
  obtain ⟨v, hv⟩ := hex
  have hinv : VC.inverted rs = .ok (.single (.ver v)) := by
    simp only [VC.excludedSingleVersion, bind, Except.bind, pure, Except.pure] at hv
    cases h : VC.inverted rs with
    | error e => simp [h] at hv
    | ok res =>
      simp only [h] at hv
      split at hv
      · rename_i v' ; cases hv; rfl
      · cases hv
  obtain ⟨_, hb, hsem⟩ := inverted_sem rs hok _ hinv
  have hvB : v ∈ B := by
    have := hb v (by simp [VC.bounds, RC.bounds, RC.view, VRange.bounds, RC.min])
    simp only [boundsOf, List.mem_flatMap] at this
    obtain ⟨c, hc, hce⟩ := this
    exact (hmr c hc).2.2.2 v hce
  obtain ⟨x, r, hr, rfl⟩ := hL v hvB
  have hregrs : Regular (boundsOf rs) p := by
    apply hreg.mono
    intro e he
    simp only [boundsOf, List.mem_flatMap] at he
    obtain ⟨c, hc, hce⟩ := he
    exact (hmr c hc).2.2.2 e hce
  -- the new leaf
  have hstr : (LeafC.ver (.union rs)).toStr = .ok ("!=" ++ Version.relText (x :: r)) := by
    simp [LeafC.toStr, VC.toStr, hv, bind, Except.bind, pure, Except.pure, litV_text]
  simp only [mkSingleOfC, hstr, bind, Except.bind,
    mkSingle_pfv3 .ne "!=" (by decide) x r hr _ rfl] at hmk
  cases hmk
  have hne := neUnion_wf (B := B) (litV x r) (litV_wf x r) (litV_stable x r) hvB
  refine ⟨⟨rfl, ?_, _, rfl, hne.1, hne.2⟩, ?_⟩
  · simp only [Single.coherent, itemConstraintString, Bool.false_eq_true, if_false]
    rw [mkSingle_pfv3 .ne "!=" (by decide) x r hr _ rfl]
    simp
  · intro vc hvc
    cases hvc
    have h1 := hsem p hp hregrs
    rw [anyAllows_eq_allowsPlain] at h1
    have hr1 : Reg1 p (litV x r) := hreg.reg1 hvB
    have hva : (VC.single (.ver (litV x r))).allowsPlain p = (litV x r).allows p := by
      simp [VC.allowsPlain, VC.flatten, RC.allows]
    rw [hva] at h1
    have h2 : (VC.union rs).allowsPlain p = !(litV x r).allows p := by rw [h1]; simp
    rw [h2]
    simp only [VC.allowsPlain, VC.flatten, List.any_cons, List.any_nil, Bool.or_false, RC.allows]
    rw [Bool.eq_iff_iff]
    simp only [Bool.or_eq_true, Bool.not_eq_true', ← Bool.not_eq_true,
      upper_allows (litV x r) p false (litV_wf x r) hp hr1, lower_allows (litV x r) p false (litV_wf x r) hp hr1,
      RC.ver_allows_iff (litV x r) p (litV_wf x r) hp hr1, Bool.false_eq_true, if_false]
    exact ⟨fun h => by rcases h with h | h; exact ne_of_lt h; exact fun e => (ne_of_lt h) e.symm,
      fun h => lt_or_gt_of_ne h⟩

/-- **`MkVerOK` for `python_full_version` over release-literal bounds, no hypothesis left** -/
theorem mkVerOK_pfv_full {B : List Version} (hB : RegB B) (hL : LitB B) {p : Version} (hp : p.wf = true)
    (hreg : Regular B p) : MkVerOK B "python_full_version" p :=
  mkVerOK_pfv hL (mkVerOKNe_pfv hB hL hp hreg)

end Poetry.Marker
