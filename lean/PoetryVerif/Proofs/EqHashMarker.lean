/-
C18 helper lemmas, part 3: marker equality (`Leaf.beq`, `M.beq`) is an equivalence, equal markers have equal
hash inputs, and equal coherent markers evaluate alike.
-/
import PoetryVerif.Model.EqHash

set_option linter.unusedSimpArgs false
set_option linter.unusedVariables false

namespace Poetry.EqHash
open Poetry Poetry.Marker Poetry.Generic

/-! ### leaves -/

theorem leaf_beq_refl (l : Leaf) : l.beq l = true := by
  cases l <;> simp [Leaf.beq]

theorem leaf_beq_symm {a b : Leaf} (h : a.beq b = true) : b.beq a = true := by
  cases a <;> cases b <;> simp only [Leaf.beq, Bool.and_eq_true, beq_iff_eq] at h ⊢ <;> grind

theorem leaf_beq_trans {a b c : Leaf} (h1 : a.beq b = true) (h2 : b.beq c = true) : a.beq c = true := by
  cases a <;> cases b <;> cases c <;> simp only [Leaf.beq, Bool.and_eq_true, beq_iff_eq] at h1 h2 ⊢ <;> grind

theorem leafHash_eq {a b : Leaf} (h : a.beq b = true) : leafHash a = leafHash b := by
  cases a <;> cases b <;> simp only [Leaf.beq, Bool.and_eq_true, beq_iff_eq] at h <;>
    simp_all [leafHash]

/-! ### markers -/

mutual
theorem m_beq_refl : ∀ m : M, M.beq m m = true
  | .any => by simp [M.beq]
  | .empty => by simp [M.beq]
  | .leaf l => by simp [M.beq, leaf_beq_refl]
  | .multi ms => by simp [M.beq, m_beqList_refl ms]
  | .union ms => by simp [M.beq, m_beqList_refl ms]
theorem m_beqList_refl : ∀ ms : List M, M.beqList ms ms = true
  | [] => by simp [M.beqList]
  | m :: ms => by simp [M.beqList, m_beq_refl m, m_beqList_refl ms]
end

mutual
theorem m_beq_symm : ∀ (a b : M), M.beq a b = true → M.beq b a = true
  | .any, b, h => by cases b <;> simp_all [M.beq]
  | .empty, b, h => by cases b <;> simp_all [M.beq]
  | .leaf l, b, h => by
    cases b <;> simp_all [M.beq]
    exact leaf_beq_symm h
  | .multi as, b, h => by
    cases b <;> simp_all [M.beq]
    exact m_beqList_symm as _ h
  | .union as, b, h => by
    cases b <;> simp_all [M.beq]
    exact m_beqList_symm as _ h
theorem m_beqList_symm : ∀ (as bs : List M), M.beqList as bs = true → M.beqList bs as = true
  | [], bs, h => by cases bs <;> simp_all [M.beqList]
  | a :: as, bs, h => by
    cases bs with
    | nil => simp [M.beqList] at h
    | cons b bs =>
      simp only [M.beqList, Bool.and_eq_true] at h ⊢
      exact ⟨m_beq_symm a b h.1, m_beqList_symm as bs h.2⟩
end

mutual
theorem m_beq_trans : ∀ (a b c : M), M.beq a b = true → M.beq b c = true → M.beq a c = true
  | .any, b, c, h1, h2 => by cases b <;> cases c <;> simp_all [M.beq]
  | .empty, b, c, h1, h2 => by cases b <;> cases c <;> simp_all [M.beq]
  | .leaf l, b, c, h1, h2 => by
    cases b <;> cases c <;> simp_all [M.beq]
    exact leaf_beq_trans h1 h2
  | .multi as, b, c, h1, h2 => by
    cases b <;> cases c <;> simp_all [M.beq]
    exact m_beqList_trans as _ _ h1 h2
  | .union as, b, c, h1, h2 => by
    cases b <;> cases c <;> simp_all [M.beq]
    exact m_beqList_trans as _ _ h1 h2
theorem m_beqList_trans : ∀ (as bs cs : List M), M.beqList as bs = true → M.beqList bs cs = true →
    M.beqList as cs = true
  | [], bs, cs, h1, h2 => by cases bs <;> cases cs <;> simp_all [M.beqList]
  | a :: as, bs, cs, h1, h2 => by
    cases bs with
    | nil => simp [M.beqList] at h1
    | cons b bs =>
      cases cs with
      | nil => simp [M.beqList] at h2
      | cons c cs =>
        simp only [M.beqList, Bool.and_eq_true] at h1 h2 ⊢
        exact ⟨m_beq_trans a b c h1.1 h2.1, m_beqList_trans as bs cs h1.2 h2.2⟩
end

mutual
theorem mHash_eq : ∀ (a b : M), M.beq a b = true → mHash a = mHash b
  | .any, b, h => by cases b <;> simp_all [M.beq, mHash]
  | .empty, b, h => by cases b <;> simp_all [M.beq, mHash]
  | .leaf l, b, h => by
    cases b <;> simp_all [M.beq, mHash]
    exact leafHash_eq h
  | .multi as, b, h => by
    cases b <;> simp_all [M.beq, mHash]
    exact mHashList_eq as _ h
  | .union as, b, h => by
    cases b <;> simp_all [M.beq, mHash]
    exact mHashList_eq as _ h
theorem mHashList_eq : ∀ (as bs : List M), M.beqList as bs = true → mHashList as = mHashList bs
  | [], bs, h => by cases bs <;> simp_all [M.beqList, mHashList]
  | a :: as, bs, h => by
    cases bs with
    | nil => simp [M.beqList] at h
    | cons b bs =>
      simp only [M.beqList, Bool.and_eq_true] at h
      simp [mHashList, mHash_eq a b h.1, mHashList_eq as bs h.2]
end

/-! ### equal coherent markers are the same marker, hence evaluate alike -/

theorem single_eq_of_key {a b : Single} (ha : singleCoherent a) (hb : singleCoherent b)
    (hn : a.name = b.name) (ho : a.op = b.op) (hv : a.value = b.value) (hs : a.swapped = b.swapped) : a = b := by
  obtain ⟨a', ha1, ha2⟩ := ha
  obtain ⟨b', hb1, hb2⟩ := hb
  rw [hn, ho, hv, hs, hb1] at ha1
  have e : b' = a' := Except.ok.inj ha1
  have hc : a.c = b.c := by rw [← ha2, ← hb2, e]
  cases a; cases b
  simp_all

theorem leaf_eq_of_beq {a b : Leaf} (ha : leafCoherent a) (hb : leafCoherent b) (h : a.beq b = true) : a = b := by
  cases a with
  | single s =>
    cases b with
    | single t =>
      simp only [Leaf.beq, Bool.and_eq_true, beq_iff_eq] at h
      rw [single_eq_of_key ha hb h.1.1.1 h.1.1.2 h.1.2 h.2]
    | amulti n c => simp [Leaf.beq] at h
    | aunion n c => simp [Leaf.beq] at h
  | amulti n c =>
    cases b with
    | single t => simp [Leaf.beq] at h
    | amulti n' c' => simp only [Leaf.beq, Bool.and_eq_true, beq_iff_eq] at h; rw [h.1, h.2]
    | aunion n' c' =>
      simp only [Leaf.beq, Bool.and_eq_true, beq_iff_eq] at h
      obtain ⟨x, cs, h1⟩ := ha; obtain ⟨ms, h2⟩ := hb
      rw [h1, h2] at h; cases h.2
  | aunion n c =>
    cases b with
    | single t => simp [Leaf.beq] at h
    | aunion n' c' => simp only [Leaf.beq, Bool.and_eq_true, beq_iff_eq] at h; rw [h.1, h.2]
    | amulti n' c' =>
      simp only [Leaf.beq, Bool.and_eq_true, beq_iff_eq] at h
      obtain ⟨ms, h1⟩ := ha; obtain ⟨x, cs, h2⟩ := hb
      rw [h1, h2] at h; cases h.2

mutual
theorem m_eq_of_beq : ∀ (a b : M), mCoherent a → mCoherent b → M.beq a b = true → a = b
  | .any, b, _, _, h => by cases b <;> simp_all [M.beq]
  | .empty, b, _, _, h => by cases b <;> simp_all [M.beq]
  | .leaf l, b, ha, hb, h => by
    cases b <;> simp_all [M.beq]
    exact leaf_eq_of_beq (by simpa [mCoherent] using ha) (by simpa [mCoherent] using hb) h
  | .multi as, b, ha, hb, h => by
    cases b <;> simp_all [M.beq]
    exact m_eqList_of_beq as _ (by simpa [mCoherent] using ha) (by simpa [mCoherent] using hb) h
  | .union as, b, ha, hb, h => by
    cases b <;> simp_all [M.beq]
    exact m_eqList_of_beq as _ (by simpa [mCoherent] using ha) (by simpa [mCoherent] using hb) h
theorem m_eqList_of_beq : ∀ (as bs : List M), mCoherentList as → mCoherentList bs → M.beqList as bs = true → as = bs
  | [], bs, _, _, h => by cases bs <;> simp_all [M.beqList]
  | a :: as, bs, ha, hb, h => by
    cases bs with
    | nil => simp [M.beqList] at h
    | cons b bs =>
      simp only [M.beqList, Bool.and_eq_true] at h
      simp only [mCoherentList] at ha hb
      rw [m_eq_of_beq a b ha.1 hb.1 h.1, m_eqList_of_beq as bs ha.2 hb.2 h.2]
end

/-- the executable invariant reflects the stated one -/
theorem singleCoherent_of_B {s : Single} (h : singleCoherentB s = true) : singleCoherent s := by
  unfold singleCoherentB at h
  split at h
  · rename_i t ht; exact ⟨t, ht, by simpa using h⟩
  · cases h

theorem leafCoherent_of_B {l : Leaf} (h : leafCoherentB l = true) : leafCoherent l := by
  cases l with
  | single s => exact singleCoherent_of_B h
  | amulti n c =>
    simp only [leafCoherentB] at h
    split at h
    · rename_i x cs; exact ⟨x, cs, rfl⟩
    · cases h
  | aunion n c =>
    simp only [leafCoherentB] at h
    split at h
    · rename_i ms; exact ⟨ms, rfl⟩
    · cases h

mutual
theorem mCoherent_of_B : ∀ m : M, mCoherentB m = true → mCoherent m
  | .any, _ => by simp [mCoherent]
  | .empty, _ => by simp [mCoherent]
  | .leaf l, h => by simp only [mCoherent]; exact leafCoherent_of_B (by simpa [mCoherentB] using h)
  | .multi ms, h => by simp only [mCoherent]; exact mCoherentList_of_B ms (by simpa [mCoherentB] using h)
  | .union ms, h => by simp only [mCoherent]; exact mCoherentList_of_B ms (by simpa [mCoherentB] using h)
theorem mCoherentList_of_B : ∀ ms : List M, mCoherentListB ms = true → mCoherentList ms
  | [], _ => by simp [mCoherentList]
  | m :: ms, h => by
    simp only [mCoherentListB, Bool.and_eq_true] at h
    simp only [mCoherentList]
    exact ⟨mCoherent_of_B m h.1, mCoherentList_of_B ms h.2⟩
end

end Poetry.EqHash
