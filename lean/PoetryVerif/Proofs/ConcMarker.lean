/-
C20 helper lemmas, part 2: the abstract memo machine instantiated with the CONCRETE cached functions of the
marker model (Model/MarkerAlg.lean) and of the version model (Model/Version.lean).

  * cache keys of `cnf` / `dnf` are markers compared by `M.beq` (and hashed through `mHash`); on coherent markers
    (`mCoherent`, the constructor invariant of C18) equal keys are the same object (`m_eq_of_beq`), so `==`/hash is a
    congruence for ANY function of the key — `MemoSpec.Congr` is discharged, not assumed;
  * `_merge_single_markers` is keyed by `(marker1, marker2, merge_class)`;
  * `parse_marker` is keyed by the text (`str.__eq__` is identity of values);
  * a cache on `PEP440Version.first_devrelease` keyed by version equality would NOT be a congruence (`1.0 == 1.0.0`,
    different `text`).
-/
import PoetryVerif.Proofs.Conc
import PoetryVerif.Proofs.EqHashMarker
import PoetryVerif.Model.VPrint

set_option linter.unusedSimpArgs false
set_option linter.unusedVariables false

namespace Poetry.Conc
open Poetry Poetry.Marker Poetry.EqHash

/-- keys of the marker caches: markers satisfying the constructor invariant -/
abbrev CM := { m : M // mCoherent m }

/-- `functools.cache(fn)` for a one-marker function `fn`; `hashOf` is Python's `hash` of the key tuple (any function) -/
def markerSpec (hashOf : HIn → Nat) (fn : M → PyM M) : MemoSpec CM M :=
  { f := fun k => fn k.1, hash := fun k => hashOf (mHash k.1), eq := fun a b => M.beq a.1 b.1 }

theorem markerSpec_congr (hashOf : HIn → Nat) (fn : M → PyM M) : (markerSpec hashOf fn).Congr := by
  intro k' k h
  simp only [MemoSpec.hit, markerSpec, Bool.and_eq_true] at h
  have : k'.1 = k.1 := m_eq_of_beq k'.1 k.1 k'.2 k.2 h.2
  simp [markerSpec, this]

/-- keys of `_merge_single_markers(marker1, marker2, merge_class)` (`merge_class` as `isMulti`) -/
abbrev CMerge := { p : Leaf × Leaf × Bool // leafCoherent p.1 ∧ leafCoherent p.2.1 }

def mergeSpec (hashOf : List HIn → Nat) : MemoSpec CMerge (Option M) :=
  { f := fun k => mergeLeaves k.1.1 k.1.2.1 k.1.2.2,
    hash := fun k => hashOf [leafHash k.1.1, leafHash k.1.2.1, .bool k.1.2.2],
    eq := fun a b => a.1.1.beq b.1.1 && a.1.2.1.beq b.1.2.1 && a.1.2.2 == b.1.2.2 }

theorem mergeSpec_congr (hashOf : List HIn → Nat) : (mergeSpec hashOf).Congr := by
  intro k' k h
  simp only [MemoSpec.hit, mergeSpec, Bool.and_eq_true, beq_iff_eq] at h
  obtain ⟨_, ⟨h1, h2⟩, h3⟩ := h
  have e1 := leaf_eq_of_beq k'.2.1 k.2.1 h1
  have e2 := leaf_eq_of_beq k'.2.2 k.2.2 h2
  simp [mergeSpec, e1, e2, h3]

/-- `parse_marker(text)`: keyed by the string -/
def parseSpec (hashOf : String → Nat) : MemoSpec String M :=
  { f := parseMarkerTop, hash := hashOf, eq := fun a b => a == b }

theorem parseSpec_congr (hashOf : String → Nat) : (parseSpec hashOf).Congr := by
  intro k' k h
  simp only [MemoSpec.hit, parseSpec, Bool.and_eq_true, beq_iff_eq] at h
  simp [parseSpec, h.2]

/-- a cache in front of `PEP440Version.first_devrelease` keyed the way `Version.__eq__`/`__hash__` compare
(the compare key) -/
def firstDevSpec (hashOf : Version.Key → Nat) : MemoSpec Version Version :=
  { f := fun v => .ok v.firstDevrelease, hash := fun v => hashOf v.key, eq := Version.eqv }

/-- a cache in front of `_single_wildcard_range_string(first, second)` keyed by the version pair as `Version.__eq__` /
`__hash__` compare it (trailing release zeros ignored) -/
def wildcardSpec (hashOf : Version.Key × Version.Key → Nat) : MemoSpec (Version × Version) String :=
  { f := fun p => singleWildcardRangeString p.1 p.2, hash := fun p => hashOf (p.1.key, p.2.key),
    eq := fun a b => Version.eqv a.1 b.1 && Version.eqv a.2 b.2 }

/-! ### the SPDX licence table (`spdx/helpers.py`) -/

/-- `License(id, name, is_osi_approved, is_deprecated)` -/
abbrev Lic := String × String × Bool × Bool

/-- the table: lower-cased key ↦ licence -/
abbrev LicTable := List (List Char × Lic)

/-- `str.lower()` (ASCII) -/
def lowerStr (s : String) : List Char := s.toList.map lowerChar

/-- `licenses.get(identifier.lower(), License(identifier, identifier, False, False))` over the table that the
`lru_cache`d, argument-less `_load_licenses()` returns (keys lower-cased) — what `license_by_id` computes -/
def licenseById (table : List (List Char × Lic)) (identifier : String) : PyM Lic :=
  if identifier.toList.isEmpty then .error .value
  else match table.find? (fun p => p.1 == lowerStr identifier) with
    | some p => .ok p.2
    | none => .ok (identifier, identifier, false, false)

/-- the seeded class `licenses.setdefault(identifier.lower(), License(identifier, …))`: the table itself becomes a memo
cache of `license_by_id`, keyed by the LOWER-CASED identifier (lookup; absent → build the custom licence → store) -/
def licenseSetdefaultSpec (table : List (List Char × Lic)) (hashOf : List Char → Nat) : MemoSpec String Lic :=
  { f := licenseById table, hash := fun k => hashOf (lowerStr k), eq := fun a b => lowerStr a == lowerStr b }

/-- the cache that IS there: `functools.lru_cache` on the argument-less `_load_licenses()` — one key -/
def loadLicensesSpec (load : PyM LicTable) : MemoSpec Unit LicTable :=
  { f := fun _ => load, hash := fun _ => 0, eq := fun _ _ => true }

theorem loadLicensesSpec_congr (load : PyM LicTable) : (loadLicensesSpec load).Congr := by
  intro k' k _; rfl

end Poetry.Conc
