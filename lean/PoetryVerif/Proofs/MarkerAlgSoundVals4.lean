/-
Atom tracking for the four-operator string constraint algebra (`==`, `!=`, `in`, `not in`): the atoms of an
intersection / union come from the operands, by re-instantiating the C16 builder's parametric exactness theorems
(`MemberAlgR`, `alg4`) with "well-formed ∧ every atom satisfies `Wat`".
-/
import PoetryVerif.Proofs.MarkerAlgSoundVals

set_option linter.unusedSimpArgs false
set_option linter.unusedVariables false

namespace Poetry.Generic

variable (Wat : Atom → Prop)

/-- well-formed (four operators) and every atom satisfies `Wat` -/
def P4W (c : GS) : Prop := c.wf4 = true ∧ ∀ x ∈ c.atoms, Wat x

theorem Pc_P4W (c : GC) : Pc (P4W Wat) c ↔ (c.wf4 = true ∧ ∀ x ∈ c.atoms, Wat x) := by
  cases c with
  | s c => rfl
  | union ms =>
    simp only [Pc, P4W, GC.atoms, List.mem_flatMap]
    rw [← Pc_wf4 (.union ms)]
    simp only [Pc]
    constructor
    · rintro ⟨h1, h2⟩
      exact ⟨⟨h1, fun m hm => (h2 m hm).1⟩, fun x ⟨m, hm, hx⟩ => (h2 m hm).2 x hx⟩
    · rintro ⟨⟨h1, h2⟩, h3⟩
      exact ⟨h1, fun m hm => ⟨h2 m hm, fun x hx => h3 x ⟨m, hm, hx⟩⟩⟩

theorem alg4W : MemberAlgR (P4W Wat) FG (fun a b => GS.ncClash a b = false) where
  empty := ⟨rfl, by simp [GS.atoms]⟩
  atoms := fun x cs h c hc => ⟨alg4.atoms x cs h.1 c hc, by
    intro y hy; simp [GS.atoms] at hy; subst hy; exact h.2 y (by simpa [GS.atoms] using hc)⟩
  inter := fun a b ha hb => by
    obtain ⟨r, h1, h2, h3⟩ := alg4.inter a b ha.1 hb.1
    refine ⟨r, h1, ⟨h2, ?_⟩, h3⟩
    intro x hx
    rcases GS.intersectS_atoms a b r h1 x hx with h | h
    · exact ha.2 x h
    · exact hb.2 x h
  union := fun a b ha hb hc => by
    obtain ⟨r, h1, h2, h3⟩ := alg4.union a b ha.1 hb.1 hc
    refine ⟨r, h1, (Pc_P4W Wat r).2 ⟨(Pc_wf4 r).1 h2, ?_⟩, h3⟩
    intro x hx
    rcases GS.unionS_atoms a b r h1 x hx with h | h
    · exact ha.2 x h
    · exact hb.2 x h

/-- **`intersect`, four operators, with atom tracking** -/
theorem GC.intersect_4W (a b : GC) (ha : a.wf4 = true) (hb : b.wf4 = true)
    (hva : ∀ x ∈ a.atoms, Wat x) (hvb : ∀ x ∈ b.atoms, Wat x) :
    ∃ r, a.intersect b = .ok r ∧ r.wf4 = true ∧ (∀ x ∈ r.atoms, Wat x) ∧
      ∀ v, r.den v = (a.den v && b.den v) := by
  obtain ⟨r, h1, h2, h3⟩ := GC.intersect_exactR (alg4W Wat) ⟨rfl, by simp [GS.atoms]⟩ a b
    ((Pc_P4W Wat a).2 ⟨ha, hva⟩) ((Pc_P4W Wat b).2 ⟨hb, hvb⟩)
  have := (Pc_P4W Wat r).1 h2
  exact ⟨r, h1, this.1, this.2, fun v => h3 _ ⟨v, rfl⟩⟩

/-- **`union`, four operators, with atom tracking**, away from the `not in` ∪ `not in` call site -/
theorem GC.unionWith_4W (a b : GC) (ha : a.wf4 = true) (hb : b.wf4 = true) (hc : a.ncCompat b = true)
    (hva : ∀ x ∈ a.atoms, Wat x) (hvb : ∀ x ∈ b.atoms, Wat x) :
    ∃ r, a.unionWith b = .ok r ∧ r.wf4 = true ∧ (∀ x ∈ r.atoms, Wat x) ∧
      ∀ v, r.den v = (a.den v || b.den v) := by
  obtain ⟨r, h1, h2, h3⟩ := GC.unionWith_exactR (alg4W Wat) ⟨rfl, by simp [GS.atoms]⟩
    (fun x y h => by rw [GS.ncClash_symm]; exact h) a b
    ((Pc_P4W Wat a).2 ⟨ha, hva⟩) ((Pc_P4W Wat b).2 ⟨hb, hvb⟩) ((ncCompat_iff a b).mp hc)
  have := (Pc_P4W Wat r).1 h2
  exact ⟨r, h1, this.1, this.2, fun v => h3 _ ⟨v, rfl⟩⟩

end Poetry.Generic
