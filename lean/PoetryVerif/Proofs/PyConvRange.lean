/-
The version-constraint parser on the clause texts `normalize_python_version_markers` produces and on
canonical Python range clauses (helper lemmas for C11).
-/
import PoetryVerif.Proofs.PyConvText
import PoetryVerif.Model.VParser

set_option linter.unusedSimpArgs false
set_option linter.unusedVariables false

namespace Poetry
open Version VParser

theorem relChars_map_lower (a : Nat) (r : List Nat) : (relChars (a :: r)).map lowerChar = relChars (a :: r) :=
  map_lowerChar_plain _ (plain_relChars _)

theorem relChars_ne_nil (a : Nat) (r : List Nat) : relChars (a :: r) ≠ [] := by
  obtain ⟨c, cs, hD, _⟩ := D_head_notSpace a
  simp [relChars, hD]

theorem ofList_relChars (r : List Nat) : String.ofList (relChars r) = relText r := by
  rw [← relText_toList, String.ofList_toList]

theorem relChars_getLast_ne_nl (a : Nat) (r : List Nat) : (relChars (a :: r)).getLast? ≠ some '\n' := by
  intro h
  have hm := List.mem_of_getLast? h
  have := plain_relChars (a :: r) _ hm
  revert this; decide

theorem versionToEnd_relChars (a : Nat) (r : List Nat) :
    versionToEnd? (relChars (a :: r)) = some (relText (a :: r)) := by
  unfold versionToEnd?
  simp only [relChars_map_lower, parseBody_relChars, atEnd, List.isEmpty_nil, Bool.true_or, if_true]
  have := relChars_getLast_ne_nl a r
  simp [this, ofList_relChars]

theorem basicVersion_relChars (a : Nat) (r : List Nat) :
    basicVersion? (relChars (a :: r)) = some (relText (a :: r), false) := by
  unfold basicVersion?
  simp only [relChars_map_lower, parseBody_relChars]
  simp [atEnd, ofList_relChars]


theorem relChars_head (a : Nat) (r : List Nat) :
    ∃ c cs, relChars (a :: r) = c :: cs ∧ isDigit c = true := by
  obtain ⟨c, cs, hD, hc⟩ := D_head_notSpace a
  exact ⟨c, cs ++ tailChars r, by simp [relChars, hD], hc⟩

theorem relText_ne_dev (a : Nat) (r : List Nat) : relText (a :: r) ≠ "dev" := by
  intro h
  have := congrArg String.toList h
  rw [relText_toList] at this
  obtain ⟨c, cs, hc, hd⟩ := relChars_head a r
  rw [hc] at this
  simp at this
  rw [this.1] at hd; exact absurd hd (by decide)

theorem x_none_gt (r : List Char) : xConstraint? ('>' :: r) = none := by
  simp [xConstraint?, dropSpaces, isSpace, takeDigits, isDigit]
theorem x_none_lt (r : List Char) : xConstraint? ('<' :: r) = none := by
  simp [xConstraint?, dropSpaces, isSpace, takeDigits, isDigit]

section
variable (a : Nat) (r : List Nat) (m : Bool)

theorem parseSingle_ge :
    parseSingle ('>' :: '=' :: relChars (a :: r)) m = .ok (.single (.rng ⟨some (finalV (a :: r)), none, true, false⟩)) := by
  have hany : isAnyPattern ('>' :: '=' :: relChars (a :: r)) = false := by simp [isAnyPattern]
  simp [parseSingle, hany, x_none_gt, basicOp, relChars_dropSpaces, basicVersion_relChars, relText_ne_dev,
    parse_relText, parseVersionText, bind, Except.bind, pure, Except.pure]

theorem parseSingle_le :
    parseSingle ('<' :: '=' :: relChars (a :: r)) m = .ok (.single (.rng ⟨none, some (finalV (a :: r)), false, true⟩)) := by
  have hany : isAnyPattern ('<' :: '=' :: relChars (a :: r)) = false := by simp [isAnyPattern]
  simp [parseSingle, hany, x_none_lt, basicOp, relChars_dropSpaces, basicVersion_relChars, relText_ne_dev,
    parse_relText, parseVersionText, bind, Except.bind, pure, Except.pure]

theorem parseSingle_gt :
    parseSingle ('>' :: relChars (a :: r)) m = .ok (.single (.rng ⟨some (finalV (a :: r)), none, false, false⟩)) := by
  obtain ⟨c, cs, hc, hd⟩ := relChars_head a r
  have hne : c ≠ '=' := by intro e; subst e; exact absurd hd (by decide)
  have hb := basicVersion_relChars a r
  have hds := relChars_dropSpaces a r
  rw [hc] at hb hds ⊢
  have hany : isAnyPattern ('>' :: c :: cs) = false := by simp [isAnyPattern]
  simp [parseSingle, hany, x_none_gt, basicOp, hne, hds, hb, relText_ne_dev,
    parse_relText, parseVersionText, bind, Except.bind, pure, Except.pure]

theorem parseSingle_lt :
    parseSingle ('<' :: relChars (a :: r)) m = .ok (.single (.rng ⟨none, some (finalV (a :: r)), false, false⟩)) := by
  obtain ⟨c, cs, hc, hd⟩ := relChars_head a r
  have hne : c ≠ '=' := by intro e; subst e; exact absurd hd (by decide)
  have hne' : c ≠ '>' := by intro e; subst e; exact absurd hd (by decide)
  have hb := basicVersion_relChars a r
  have hds := relChars_dropSpaces a r
  rw [hc] at hb hds ⊢
  have hany : isAnyPattern ('<' :: c :: cs) = false := by simp [isAnyPattern]
  simp [parseSingle, hany, x_none_lt, basicOp, hne, hne', hds, hb, relText_ne_dev,
    parse_relText, parseVersionText, bind, Except.bind, pure, Except.pure]

/-- `~V` -/
theorem parseSingle_tilde :
    parseSingle ('~' :: relChars (a :: r)) m =
      .ok (.single (.rng ⟨some (finalV (a :: r)),
        some (if (finalV (a :: r)).precision == 1 then (finalV (a :: r)).stable.nextMajor
              else (finalV (a :: r)).stable.nextMinor), true, false⟩)) := by
  obtain ⟨c, cs, hc, hd⟩ := relChars_head a r
  have hne : c ≠ '=' := by intro e; subst e; exact absurd hd (by decide)
  have hb := versionToEnd_relChars a r
  have hds := relChars_dropSpaces a r
  rw [hc] at hb hds ⊢
  have hany : isAnyPattern ('~' :: c :: cs) = false := by simp [isAnyPattern]
  simp [parseSingle, hany, hne, hds, hb, parse_relText, parseVersionText, bind, Except.bind, pure, Except.pure]

/-- `~=V` -/
theorem parseSingle_compat :
    parseSingle ('~' :: '=' :: relChars (a :: r)) m =
      .ok (.single (.rng ⟨some (finalV (a :: r)),
        some (if (finalV (a :: r)).precision == 2 then (finalV (a :: r)).stable.nextMajor
          else if (finalV (a :: r)).precision ≤ 3 then (finalV (a :: r)).stable.nextMinor
          else Version.mk' (finalV (a :: r)).epoch (Version.bumpSecondToLast (finalV (a :: r)).release) none none none none),
        true, false⟩)) := by
  have hany : isAnyPattern ('~' :: '=' :: relChars (a :: r)) = false := by simp [isAnyPattern]
  simp [parseSingle, hany, relChars_dropSpaces, versionToEnd_relChars, parse_relText, parseVersionText,
    bind, Except.bind, pure, Except.pure]

/-- `^V` -/
theorem parseSingle_caret :
    parseSingle ('^' :: relChars (a :: r)) m =
      .ok (.single (.rng ⟨some (finalV (a :: r)), some (finalV (a :: r)).nextBreaking, true, false⟩)) := by
  have hany : isAnyPattern ('^' :: relChars (a :: r)) = false := by simp [isAnyPattern]
  simp [parseSingle, hany, relChars_dropSpaces, versionToEnd_relChars, parse_relText, parseVersionText,
    bind, Except.bind, pure, Except.pure]

end

/-! ### the wildcard pattern `X_CONSTRAINT` -/

theorem stars_nil (f n : Nat) : xConstraint?.stars (f + 1) [] n = if n > 0 then some n else none := by
  simp [xConstraint?.stars, atEnd]

theorem tail_head (b : Nat) (r : List Nat) : ∃ c cs, tailChars (b :: r) = '.' :: c :: cs ∧ isDigit c = true := by
  obtain ⟨c, cs, hD, hc⟩ := D_head_notSpace b
  exact ⟨c, cs ++ tailChars r, by simp [tailChars, hD], hc⟩

theorem stars_tail (f n : Nat) (b : Nat) (r : List Nat) : xConstraint?.stars (f + 1) (tailChars (b :: r)) n = none := by
  obtain ⟨c, cs, h, hc⟩ := tail_head b r
  have hne : c ≠ '*' := by intro e; subst e; exact absurd hc (by decide)
  rw [h]
  simp [xConstraint?.stars, atEnd, hne]

theorem takeDigits_tail (b : Nat) (r : List Nat) :
    takeDigits (D b ++ tailChars r) = (D b, tailChars r) :=
  takeDigits_append (D b) (tailChars r) (D_isDigit b) (noDigitHead_tailChars r)

theorem D_isEmpty (b : Nat) : (D b).isEmpty = false := by
  cases h : D b with
  | nil => exact absurd h (D_ne_nil b)
  | cons _ _ => rfl

def xStripV (s : List Char) : List Char := match s with | 'v' :: r => r | _ => s
def xMore (r : List Char) : List Char × List Char :=
  match r with
  | '.' :: cs => let (d, r') := takeDigits cs; if d.isEmpty then ([], r) else ('.' :: d, r')
  | _ => ([], r)
def xTry (invert : Bool) (ver rest : List Char) : Option (Bool × String) :=
  match xConstraint?.stars (rest.length + 1) rest 0 with
  | some _ => some (invert, String.ofList ver)
  | none => none
def xCore (invert : Bool) (s : List Char) : Option (Bool × String) :=
  let s := dropSpaces s
  let s := xStripV s
  let (d1, r1) := takeDigits s
  if d1.isEmpty then none else
  let (d2, r2) := xMore r1
  let (d3, r3) := if d2.isEmpty then ([], r2) else xMore r2
  match xTry invert (d1 ++ d2 ++ d3) r3 with
  | some x => some x
  | none =>
    match xTry invert (d1 ++ d2) r2 with
    | some x => some x
    | none => xTry invert d1 r1

theorem xConstraint_ne (r : List Char) : xConstraint? ('!' :: '=' :: r) = xCore true r := rfl
theorem xConstraint_eqeq (r : List Char) : xConstraint? ('=' :: '=' :: r) = xCore false r := rfl
theorem xConstraint_digit (c : Char) (r : List Char) (hc : isDigit c = true) :
    xConstraint? (c :: r) = xCore false (c :: r) := by
  have h1 : c ≠ '!' := by intro e; subst e; exact absurd hc (by decide)
  have h2 : c ≠ '=' := by intro e; subst e; exact absurd hc (by decide)
  unfold xConstraint?
  split
  rename_i x inv s' heq
  split at heq
  · rename_i h; simp at h; exact absurd h.1 h1
  · rename_i h; simp at h; exact absurd h.1 h2
  · cases heq; rfl

theorem xStripV_digit (c : Char) (r : List Char) (hc : isDigit c = true) : xStripV (c :: r) = c :: r := by
  have hv : c ≠ 'v' := by intro e; subst e; exact absurd hc (by decide)
  unfold xStripV; split
  · rename_i h; simp at h; exact absurd h.1 hv
  · rfl

theorem xMore_nil : xMore [] = ([], []) := rfl
theorem xMore_star (r : List Char) : xMore ('.' :: '*' :: r) = ([], '.' :: '*' :: r) := by
  simp [xMore, takeDigits, isDigit]
theorem xMore_digits (b : Nat) (rest : List Char) (h : noDigitHead rest = true) :
    xMore ('.' :: (D b ++ rest)) = ('.' :: D b, rest) := by
  simp [xMore, takeDigits_append (D b) rest (D_isDigit b) h, D_isEmpty]

theorem xMore_digits_nil (b : Nat) : xMore ('.' :: D b) = ('.' :: D b, []) := by
  simpa using xMore_digits b [] rfl
theorem xTry_nil (inv : Bool) (ver : List Char) : xTry inv ver [] = none := by
  simp [xTry, stars_nil]
theorem xTry_tail (inv : Bool) (ver : List Char) (b : Nat) (rest : List Char) :
    xTry inv ver ('.' :: (D b ++ rest)) = none := by
  obtain ⟨c, cs, hD, hc⟩ := D_head_notSpace b
  have hne : c ≠ '*' := by intro e; subst e; exact absurd hc (by decide)
  simp [xTry, hD, xConstraint?.stars, atEnd, hne]
theorem xTry_tail_nil (inv : Bool) (ver : List Char) (b : Nat) : xTry inv ver ('.' :: D b) = none := by
  simpa using xTry_tail inv ver b []
theorem xTry_star (inv : Bool) (ver : List Char) : xTry inv ver ['.', '*'] = some (inv, String.ofList ver) := by
  simp [xTry, xConstraint?.stars, atEnd]

theorem xCore_head (inv : Bool) (a : Nat) (rest : List Char) (h : noDigitHead rest = true) :
    xCore inv (D a ++ rest) =
      (match xTry inv (D a ++ (xMore rest).1 ++ (if (xMore rest).1.isEmpty then ([], (xMore rest).2) else xMore (xMore rest).2).1)
          (if (xMore rest).1.isEmpty then ([], (xMore rest).2) else xMore (xMore rest).2).2 with
      | some x => some x
      | none =>
        match xTry inv (D a ++ (xMore rest).1) (xMore rest).2 with
        | some x => some x
        | none => xTry inv (D a) rest) := by
  obtain ⟨c, cs, hD, hc⟩ := D_head_notSpace a
  have hds : dropSpaces (D a ++ rest) = D a ++ rest := by simp [hD, dropSpaces, isSpace_of_isDigit hc]
  have hsv : xStripV (D a ++ rest) = D a ++ rest := by
    rw [hD]; exact xStripV_digit c _ hc
  simp only [xCore, hds, hsv, takeDigits_append (D a) rest (D_isDigit a) h, D_isEmpty, Bool.false_eq_true, if_false]

theorem xCore_none1 (inv : Bool) (a : Nat) : xCore inv (relChars [a]) = none := by
  have := xCore_head inv a [] rfl
  simp only [relChars, tailChars]
  rw [this]; simp [xMore_nil, xTry_nil]

theorem xCore_none2 (inv : Bool) (a b : Nat) : xCore inv (relChars [a, b]) = none := by
  have := xCore_head inv a ('.' :: (D b ++ [])) rfl
  simp only [relChars, tailChars]
  rw [this]; simp [xMore_digits_nil, xMore_nil, xTry_nil, xTry_tail_nil, D_isEmpty, D_ne_nil]

theorem xCore_none3 (inv : Bool) (a b c : Nat) : xCore inv (relChars [a, b, c]) = none := by
  have := xCore_head inv a ('.' :: (D b ++ '.' :: (D c ++ []))) rfl
  simp only [relChars, tailChars]
  rw [this]
  simp [xMore_digits b ('.' :: D c) rfl, xMore_digits_nil, xTry_nil, xTry_tail, xTry_tail_nil, D_isEmpty, D_ne_nil]

theorem xCore_star1 (inv : Bool) (a : Nat) : xCore inv (relChars [a] ++ ['.', '*']) = some (inv, relText [a]) := by
  have := xCore_head inv a ['.', '*'] rfl
  simp only [relChars, tailChars, List.append_nil]
  rw [this]
  simp [xMore_star, xTry_star, ← ofList_relChars, relChars, tailChars]

theorem xCore_star2 (inv : Bool) (a b : Nat) :
    xCore inv (relChars [a, b] ++ ['.', '*']) = some (inv, relText [a, b]) := by
  have := xCore_head inv a ('.' :: (D b ++ ['.', '*'])) rfl
  simp only [relChars, tailChars, List.append_nil, List.append_assoc, List.cons_append]
  rw [this]
  simp [xMore_digits b ['.', '*'] rfl, xMore_star, xTry_star, D_isEmpty, D_ne_nil, ← ofList_relChars, relChars, tailChars]


/-! ### `==V`, `!=V`, `V.*`, `!=V.*` -/

section
variable (m : Bool)

theorem isAny_digit (c : Char) (r : List Char) (hc : isDigit c = true) : isAnyPattern (c :: r) = false := by
  have h7 : c ≠ 'v' := by intro e; subst e; exact absurd hc (by decide)
  have h8 : c ≠ 'V' := by intro e; subst e; exact absurd hc (by decide)
  have h9 : c ≠ 'x' := by intro e; subst e; exact absurd hc (by decide)
  have h10 : c ≠ 'X' := by intro e; subst e; exact absurd hc (by decide)
  have h11 : c ≠ '*' := by intro e; subst e; exact absurd hc (by decide)
  simp [isAnyPattern, h7, h8, h9, h10, h11]

theorem parseSingle_eq (a : Nat) (r : List Nat) (hx : xCore false (relChars (a :: r)) = none) :
    parseSingle ('=' :: '=' :: relChars (a :: r)) m = .ok (.single (.ver (finalV (a :: r)))) := by
  have hany : isAnyPattern ('=' :: '=' :: relChars (a :: r)) = false := by simp [isAnyPattern]
  simp [parseSingle, hany, xConstraint_eqeq, hx, basicOp, relChars_dropSpaces, basicVersion_relChars,
    relText_ne_dev, parse_relText, parseVersionText, bind, Except.bind, pure, Except.pure]

theorem parseSingle_ne (a : Nat) (r : List Nat) (hx : xCore true (relChars (a :: r)) = none) :
    parseSingle ('!' :: '=' :: relChars (a :: r)) m =
      .ok (.union [.rng ⟨none, some (finalV (a :: r)), false, false⟩, .rng ⟨some (finalV (a :: r)), none, false, false⟩]) := by
  have hany : isAnyPattern ('!' :: '=' :: relChars (a :: r)) = false := by simp [isAnyPattern]
  simp [parseSingle, hany, xConstraint_ne, hx, basicOp, relChars_dropSpaces, basicVersion_relChars,
    relText_ne_dev, parse_relText, parseVersionText, bind, Except.bind, pure, Except.pure]

theorem parseSingle_neStar (a : Nat) (r : List Nat)
    (hx : xCore true (relChars (a :: r) ++ ['.', '*']) = some (true, relText (a :: r))) :
    parseSingle ('!' :: '=' :: (relChars (a :: r) ++ ['.', '*'])) m = makeXConstraintRange (finalV (a :: r)) true m := by
  have hany : isAnyPattern ('!' :: '=' :: (relChars (a :: r) ++ ['.', '*'])) = false := by simp [isAnyPattern]
  simp [parseSingle, hany, xConstraint_ne, hx, parse_relText, parseVersionText, bind, Except.bind]

theorem parseSingle_star (a : Nat) (r : List Nat)
    (hx : xCore false (relChars (a :: r) ++ ['.', '*']) = some (false, relText (a :: r))) :
    parseSingle (relChars (a :: r) ++ ['.', '*']) m = makeXConstraintRange (finalV (a :: r)) false m := by
  obtain ⟨c, cs, hc, hd⟩ := relChars_head a r
  have h1 : c ≠ '~' := by intro e; subst e; exact absurd hd (by decide)
  have h2 : c ≠ '^' := by intro e; subst e; exact absurd hd (by decide)
  rw [hc] at hx ⊢
  have hany := isAny_digit c (cs ++ ['.', '*']) hd
  have hxx := xConstraint_digit c (cs ++ ['.', '*']) hd
  simp only [List.cons_append] at hx ⊢
  simp [parseSingle, hany, h1, h2, hxx, hx, parse_relText, parseVersionText, bind, Except.bind]

end

/-! ### a text that is one clause -/

/-- no blank, comma or bar: the text is one clause of one group -/
def NoSep (cs : List Char) : Prop := ∀ c ∈ cs, c ≠ ' ' ∧ c ≠ ',' ∧ c ≠ '|' ∧ isSpace c = false

theorem NoSep.tail {c : Char} {cs : List Char} (h : NoSep (c :: cs)) : NoSep cs :=
  fun d hd => h d (by simp [hd])

theorem dropSpaces_noSep {cs : List Char} (h : NoSep cs) : dropSpaces cs = cs := by
  cases cs with
  | nil => rfl
  | cons c cs => simp [dropSpaces, (h c (by simp)).2.2.2]

theorem NoSep.reverse {cs : List Char} (h : NoSep cs) : NoSep cs.reverse :=
  fun d hd => h d (by simpa using hd)

theorem strip_noSep {cs : List Char} (h : NoSep cs) : strip cs = cs := by
  simp [strip, rstripSpaces, dropSpaces_noSep h, dropSpaces_noSep h.reverse]

theorem rstripCommas_noSep {cs : List Char} (h : NoSep cs) : rstripCommas cs = cs := by
  unfold rstripCommas
  have : cs.reverse.dropWhile (· == ',') = cs.reverse := by
    cases hr : cs.reverse with
    | nil => rfl
    | cons c r =>
      have := (h.reverse c (by simp [hr])).2.1
      have hb : (c == ',') = false := by simpa using this
      simp [List.dropWhile, hb]
  rw [this]; simp

theorem orSep_noSep {c : Char} {cs : List Char} (h : NoSep (c :: cs)) : orSep? (c :: cs) = none := by
  have hb := (h c (by simp)).2.2.1
  rw [orSep?, dropSpaces_noSep h]
  split
  · rename_i heq; simp at heq; exact absurd heq.1 hb
  · rename_i heq; simp at heq; exact absurd heq.1 hb
  · rfl

theorem splitOrAux_noSep (cs cur : List Char) (fuel : Nat) (hf : cs.length < fuel) (h : NoSep cs) :
    splitOrAux fuel cs cur = [cur.reverse ++ cs] := by
  induction cs generalizing cur fuel with
  | nil =>
    cases fuel with
    | zero => simp at hf
    | succ f => unfold splitOrAux; simp
  | cons c cs ih =>
    cases fuel with
    | zero => simp at hf
    | succ f =>
      unfold splitOrAux
      simp only [orSep_noSep h]
      rw [ih (c :: cur) f (by simpa using hf) h.tail]
      simp

theorem splitOr_noSep {cs : List Char} (h : NoSep cs) : splitOr cs = [cs] := by
  simp [splitOr, splitOrAux_noSep cs [] (cs.length + 1) (by omega) h]

theorem andSep_noSep (prev : Option Char) {c : Char} {cs : List Char} (h : NoSep (c :: cs)) :
    andSep? prev (c :: cs) = none := by
  have h1 := (h c (by simp)).1
  have h2 := (h c (by simp)).2.1
  cases prev with
  | none => rfl
  | some p =>
    simp only [andSep?]
    split
    · rfl
    · have hk : countSpaces (c :: cs) = 0 := by
        unfold countSpaces; split
        · rename_i heq; simp at heq; exact absurd heq.1 h1
        · rfl
      rw [hk]
      have hm : ∀ (f : List Char → Option (List Char)), (match c :: cs with
          | ',' :: r => f r
          | ' ' :: r => f r
          | _ => none) = none := by
        intro f
        split
        · rename_i heq; simp at heq; exact absurd heq.1 h2
        · rename_i heq; simp at heq; exact absurd heq.1 h1
        · rfl
      simp only [andSep?.go, List.drop_zero]
      have e0 : (if 0 > 0 then ' ' else p) = p := by simp
      rw [e0]
      by_cases hp : (p == '-') = true
      · simp [hp]
      · simp only [hp]
        split
        · rename_i r' heq
          exfalso
          revert heq
          split <;> simp_all
        · simp

theorem splitAndAux_noSep (cs cur : List Char) (prev : Option Char) (fuel : Nat) (hf : cs.length < fuel)
    (h : NoSep cs) : splitAndAux fuel prev cs cur = [cur.reverse ++ cs] := by
  induction cs generalizing cur fuel prev with
  | nil =>
    cases fuel with
    | zero => simp at hf
    | succ f => unfold splitAndAux; simp
  | cons c cs ih =>
    cases fuel with
    | zero => simp at hf
    | succ f =>
      unfold splitAndAux
      simp only [andSep_noSep prev h]
      rw [ih (c :: cur) (some c) f (by simpa using hf) h.tail]
      simp

theorem splitAnd_noSep {cs : List Char} (h : NoSep cs) : splitAnd cs = [cs] := by
  simp [splitAnd, splitAndAux_noSep cs [] none (cs.length + 1) (by omega) h]

/-- a text that is one clause is parsed by `parse_single_constraint` alone -/
theorem parseConstraintAux_single (s : String) (m : Bool) (h : NoSep s.toList) (hs : s ≠ "*") :
    parseConstraintAux s m = parseSingle s.toList m := by
  have hs' : (s == "*") = false := by simpa using hs
  simp only [parseConstraintAux, hs', Bool.false_eq_true, if_false, strip_noSep h, splitOr_noSep h, List.mapM_cons,
    List.mapM_nil, bind, Except.bind, parseGroup, rstripCommas_noSep h]
  have : rstripSpaces s.toList = s.toList := by
    simp [rstripSpaces, dropSpaces_noSep h.reverse]
  simp only [this, splitAnd_noSep h, List.mapM_cons, List.mapM_nil, bind, Except.bind]
  cases parseSingle s.toList m <;> simp [pure, Except.pure, List.foldlM]

end Poetry
