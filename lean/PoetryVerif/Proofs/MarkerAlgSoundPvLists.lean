/-
`python_version in "X0.Y0 X1.Y1 …"` / `python_version not in "…"` as operands of `_merge_single_markers`: the
constraint string `SingleMarker.__init__` builds for the list and the text `normalize_python_version_markers`
prints for it are THE SAME text, read by the constraint parser (C11's `parse_groups` / `parse_groupsE`) as a
constraint of the regular setting over two-component Python bounds — so the leaf's clause and its conversion
coincide, and the abstract-operand merge theorem applies: no exception class for version lists.
-/
import PoetryVerif.Proofs.MarkerAlgSoundPvGen
import PoetryVerif.Proofs.PyConvNotIn

set_option linter.unusedSimpArgs false
set_option linter.unusedVariables false

namespace Poetry.Marker
open Poetry Poetry.Spec Poetry.Spec.Pep508 Poetry.VParser Poetry.Version

/-- the constraint text of a list of two-component versions -/
def listText (isIn : Bool) (p0 : Nat × Nat) (ps : List (Nat × Nat)) : String :=
  if isIn then joinWith " || " ((p0 :: ps).map (fun p => String.ofList (starItem p))) else neEntry p0 ps

theorem starVC_lit2 (p : Nat × Nat) : Lit2 (starVC p) := by
  intro m hm e he
  simp only [starVC, VC.flatten, List.mem_cons, List.mem_nil_iff, or_false] at hm
  subst hm
  simp [RC.bounds, RC.view, VRange.bounds, RC.min, RC.max] at he
  rcases he with rfl | rfl
  · exact ⟨p.1, p.2, rfl⟩
  · exact ⟨p.1, p.2 + 1, rfl⟩

theorem neStarVC2_lit2 (p : Nat × Nat) : Lit2 (neStarVC2 p) := by
  intro m hm e he
  simp only [neStarVC2, VC.flatten, List.mem_cons, List.mem_nil_iff, or_false] at hm
  rcases hm with rfl | rfl <;> simp [RC.bounds, RC.view, VRange.bounds, RC.min, RC.max] at he <;> subst he
  · exact ⟨p.1, p.2, rfl⟩
  · exact ⟨p.1, p.2 + 1, rfl⟩

/-- **the list text is read as a constraint of the regular setting over two-component Python bounds** -/
theorem parse_list_reg (isIn : Bool) (p0 : Nat × Nat) (ps : List (Nat × Nat)) :
    ∃ res B, parseMarkerVersionConstraint (listText isIn p0 ps) = .ok res ∧ RegVC B res ∧
      (∀ e ∈ B, PyBound e = true) ∧ (∀ e ∈ B, ∃ a b, e = litV a [b]) := by
  cases isIn
  · -- `!=X0.Y0.*, !=X1.Y1.*, …`
    let d := neEntryD p0 ps
    have hd := neEntryD_ok p0 ps
    have k3 : ∀ g ∈ [grpOf d []], ∀ q ∈ g.items,
        ItemOK q.1 ∧ q.1 ≠ ['*'] ∧ parseSingle q.1 true = .ok q.2 ∧ PyVCok q.2 := by
      intro g hg q hq
      simp only [List.mem_singleton] at hg
      subst hg
      rw [grpOf_items] at hq
      exact hd q (by simpa using hq)
    obtain ⟨hpb, hreg⟩ := groups_reg _ k3
    obtain ⟨res, hres, hrr, _⟩ := parse_groupsE hpb 0 0 0 [grpOf d []] (by simp) hreg
      (fun g hg q hq => (k3 g hg q hq).2.1) (neEntry p0 ps)
      (by simp [orJoin, grpOf_chars, spJoin, d, neEntry_chars])
    refine ⟨res, _, by simpa [listText, parseMarkerVersionConstraint] using hres, hrr, hpb, ?_⟩
    intro e he
    simp only [boundsOfGroups, List.mem_flatMap, List.mem_singleton] at he
    obtain ⟨g, rfl, q, hq, c, hc, hec⟩ := he
    rw [grpOf_items] at hq
    simp only [List.flatMap_nil, List.append_nil, d, neEntryD, EntryD.items, List.mem_cons, List.mem_map] at hq
    rcases hq with rfl | ⟨p, _, rfl⟩
    · exact neStarVC2_lit2 p0 c hc e hec
    · exact neStarVC2_lit2 p c hc e hec
  · -- `X0.Y0.* || X1.Y1.* || …`
    let gvs : List Grp := (p0 :: ps).map (fun p => ((starItem p, starVC p), []))
    let B : List Version := gvs.flatMap (fun g => g.items.flatMap (fun q => q.2.flatten.flatMap RC.bounds))
    have hmem : ∀ g ∈ gvs, ∀ q ∈ g.items, ∃ p, q = (starItem p, starVC p) := by
      intro g hg q hq
      obtain ⟨p, _, rfl⟩ := List.mem_map.1 hg
      simp [Grp.items] at hq
      exact ⟨p, hq⟩
    have hpb : ∀ e ∈ B, PyBound e = true := by
      intro e he
      simp only [B, List.mem_flatMap] at he
      obtain ⟨g, hg, q, hq, c, hc, hec⟩ := he
      obtain ⟨p, rfl⟩ := hmem g hg q hq
      exact (((starItem_ok p).2.2).2 c hc).2.2.2 e hec
    obtain ⟨res, h1, h2, _⟩ := parse_groups hpb 0 0 0 gvs (by simp [gvs])
      (by
        intro g hg q hq
        obtain ⟨p, rfl⟩ := hmem g hg q hq
        refine ⟨(starItem_ok p).1, parseSingle_starItem p, regVC_of_ok (starItem_ok p).2.2 ?_⟩
        intro m hm e he
        simp only [B, List.mem_flatMap]
        exact ⟨g, hg, _, hq, m, hm, he⟩)
      (by
        intro g hg q hq
        obtain ⟨p, rfl⟩ := hmem g hg q hq
        exact (starItem_ok p).2.1)
      _ (orJoin_single_groups (p0 :: ps))
    refine ⟨res, B, by simpa [listText, parseMarkerVersionConstraint] using h1, h2, hpb, ?_⟩
    intro e he
    simp only [B, List.mem_flatMap] at he
    obtain ⟨g, hg, q, hq, c, hc, hec⟩ := he
    obtain ⟨p, rfl⟩ := hmem g hg q hq
    exact starVC_lit2 p c hc e hec

/-- the constraint string the constructor builds for the list is the list text -/
theorem versionListConstraint_text (isIn : Bool) (p0 : Nat × Nat) (rest : List (String × (Nat × Nat)))
    (hs : ∀ q ∈ rest, SepRun q.1) :
    versionListConstraint isIn (verList2 p0 rest) = listText isIn p0 (rest.map (·.2)) := by
  cases isIn
  · simp [versionListConstraint, versionListItems_notin2 p0 rest hs, listText, neEntry]
  · simp [versionListConstraint, versionListItems_in2 p0 rest hs, listText]

def listOp (isIn : Bool) : String := if isIn then "in" else "not in"

/-- a `python_version` list leaf: what the constructor builds from `in` / `not in` and a list of two-component
versions (`c` is the parse of the list text) -/
def PvListLeaf (l : Leaf) : Prop :=
  ∃ isIn p0 rest res, (∀ q ∈ rest, SepRun q.1) ∧
    parseMarkerVersionConstraint (listText isIn p0 (rest.map (·.2))) = .ok res ∧
    l = .single ⟨"python_version", listOp isIn, verList2 p0 rest, false, .ver res⟩

theorem mkSingle_pvList (isIn : Bool) (p0 : Nat × Nat) (rest : List (String × (Nat × Nat)))
    (hs : ∀ q ∈ rest, SepRun q.1) {res : VC}
    (hres : parseMarkerVersionConstraint (listText isIn p0 (rest.map (·.2))) = .ok res) :
    mkSingle "python_version" (listOp isIn ++ verList2 p0 rest) false =
      .ok ⟨"python_version", listOp isIn, verList2 p0 rest, false, .ver res⟩ := by
  have hvo := listLit_valueOk _ _ (verList2_ok p0 rest hs)
  have hp := leafPrepare_list_ver "python_version" (by decide) (listOp isIn) isIn
    (by cases isIn <;> simp [listOp]) (verList2 p0 rest) hvo
  rw [versionListConstraint_text isIn p0 rest hs] at hp
  simp [mkSingle, hp, bind, Except.bind, parseByKind_ver _ _ hres, pure, Except.pure]

theorem gpcLeaf_pvList (isIn : Bool) (p0 : Nat × Nat) (rest : List (String × (Nat × Nat)))
    (hs : ∀ q ∈ rest, SepRun q.1) (c : LeafC) :
    gpcLeaf (.single ⟨"python_version", listOp isIn, verList2 p0 rest, false, c⟩) =
      parseMarkerVersionConstraint (listText isIn p0 (rest.map (·.2))) := by
  have hpy : isPyName "python_version" = true := by decide
  cases isIn
  · simp only [gpcLeaf, Leaf.name, hpy, Bool.not_true, Bool.false_eq_true, if_false, listOp,
      normalize_notin2 p0 rest hs, bind, Except.bind, listText]
  · simp only [gpcLeaf, Leaf.name, hpy, Bool.not_true, Bool.false_eq_true, if_false, listOp, if_true,
      normalize_in2 p0 rest hs, bind, Except.bind, listText]

/-- **a list leaf is an operand of the abstract merge theorem**: its clause and its conversion are the same
constraint -/
theorem pvOperand_list {E : Env} {X Y : Nat} (hE : E.get? "python_version" = some (Version.relText [X, Y]))
    {l : Leaf} (h : PvListLeaf l) : ∃ s, l = .single s ∧ PvOperand E X Y s := by
  obtain ⟨isIn, p0, rest, res, hs, hres, rfl⟩ := h
  obtain ⟨res', B, hres', hreg, hpb, hlit⟩ := parse_list_reg isIn p0 (rest.map (·.2))
  rw [hres] at hres'
  cases hres'
  have hok := pyVCok_of_reg hpb hreg
  have hl2 := lit2_of_reg hlit hreg
  have hev : leafEval E (.single ⟨"python_version", listOp isIn, verList2 p0 rest, false, .ver res⟩) =
      res.allowsPlain (pvProbe X Y) := by
    have : (Leaf.single ⟨"python_version", listOp isIn, verList2 p0 rest, false, .ver res⟩).validate E =
        .ok (res.allowsPlain (pvProbe X Y)) := by
      simp only [Leaf.validate]
      rw [validateLike_ver "python_version" (by decide) _ E X [Y] hE]
      exact VC.allows_of_reg (regB_of_pyBound _ hpb) _ hreg.1 hreg.2 _
    simp [leafEval, this]
  exact ⟨_, rfl, rfl, res, rfl, hok, hl2, hev, res, by rw [gpcLeaf_pvList isIn p0 rest hs, hres], hok, hl2, hev.symm⟩

/-- comparison leaves, `~=` leaves and list leaves on `python_version` -/
def PvLeafL (l : Leaf) : Prop := PvLeafC l ∨ PvListLeaf l

theorem pvLeafL_operand {E : Env} {X Y : Nat} (hE : E.get? "python_version" = some (Version.relText [X, Y]))
    {l : Leaf} (h : PvLeafL l) : ∃ s, l = .single s ∧ PvOperand E X Y s := by
  rcases h with h | h
  · exact pvLeafC_operand hE h
  · exact pvOperand_list hE h

theorem pvLeafL_merge {E : Env} {X Y : Nat} (hE : E.get? "python_version" = some (Version.relText [X, Y]))
    (l1 l2 : Leaf) (im : Bool) (r : M) (h1 : PvLeafL l1) (h2 : PvLeafL l2)
    (h : mergeLeaves l1 l2 im = .ok (some r)) :
    M.Good PvLeafL r ∧
      M.sem (leafEval E) r = (if im then (leafEval E l1 && leafEval E l2) else (leafEval E l1 || leafEval E l2)) := by
  obtain ⟨s1, rfl, o1⟩ := pvLeafL_operand hE h1
  obtain ⟨s2, rfl, o2⟩ := pvLeafL_operand hE h2
  obtain ⟨hout, hsem⟩ := pvOperand_merge hE s1 s2 im r o1 o2 h
  refine ⟨?_, hsem⟩
  rcases hout with rfl | rfl | rfl | rfl | ⟨l, rfl, hl⟩
  · exact M.good_empty
  · exact M.good_any
  · exact (M.good_leaf _).2 h1
  · exact (M.good_leaf _).2 h2
  · exact (M.good_leaf _).2 (Or.inl (Or.inl hl))

/-- every leaf of the fragment is rebuilt by the constructor from its own text -/
theorem pvLeafL_self {l : Leaf} (hl : PvLeafL l) : ∃ s, l = .single s ∧
    mkSingle s.name (itemConstraintString s.op s.value s.swapped) s.swapped = .ok s := by
  rcases hl with (⟨sop, ops, a, b, hm, rfl⟩ | ⟨a, b, rfl⟩) | ⟨isIn, p0, rest, res, hs, hres, rfl⟩
  · exact ⟨_, rfl, by simpa [pvLeafOf, itemConstraintString] using mkSingle_pvLeaf hm a b⟩
  · exact ⟨_, rfl, by simpa [pvCompatOf, itemConstraintString] using mkSingle_pvCompat a b⟩
  · exact ⟨_, rfl, by simpa [itemConstraintString] using mkSingle_pvList isIn p0 rest hs hres⟩

/-- **`LeafSpec` on same-name `python_version` leaves: the seven operators and `in` / `not in` lists**, no hypothesis,
no exception class -/
theorem leafSpec_pvL {E : Env} {X Y : Nat} (hE : E.get? "python_version" = some (Version.relText [X, Y])) :
    LeafSpec (leafEval E) PvLeafL where
  congr := by
    intro a b ha hb h
    obtain ⟨sa, rfl, ma⟩ := pvLeafL_self ha
    obtain ⟨sb, rfl, mb⟩ := pvLeafL_self hb
    simp only [Leaf.beq, Bool.and_eq_true, beq_iff_eq] at h
    obtain ⟨⟨⟨h1, h2⟩, h3⟩, h4⟩ := h
    rw [h1, h2, h3, h4, mb] at ma
    rw [Except.ok.inj ma]
  merge := fun l1 l2 im r h1 h2 h => pvLeafL_merge hE l1 l2 im r h1 h2 h

theorem pvLeafL_evaluable {E : Env} {X Y : Nat} (hE : E.get? "python_version" = some (Version.relText [X, Y]))
    {l : Leaf} (h : PvLeafL l) : ∃ b, l.validate E = .ok b := by
  rcases h with h | ⟨isIn, p0, rest, res, hs, hres, rfl⟩
  · exact pvLeafC_evaluable hE h
  · obtain ⟨res', B, hres', hreg, hpb, _⟩ := parse_list_reg isIn p0 (rest.map (·.2))
    rw [hres] at hres'; cases hres'
    refine ⟨res.allowsPlain (litV X [Y]), ?_⟩
    simp only [Leaf.validate]
    rw [validateLike_ver "python_version" (by decide) _ E X [Y] hE]
    exact VC.allows_of_reg (regB_of_pyBound _ hpb) _ hreg.1 hreg.2 _

theorem pvLeafL_name {l : Leaf} (h : PvLeafL l) : l.name = "python_version" := by
  rcases h with h | ⟨_, _, _, _, _, _, rfl⟩
  · exact pvLeafC_name h
  · rfl

/-- the list leaves exist: the constructor builds them -/
theorem pvListLeaf_built (isIn : Bool) (p0 : Nat × Nat) (rest : List (String × (Nat × Nat)))
    (hs : ∀ q ∈ rest, SepRun q.1) :
    ∃ s, mkSingle "python_version" (listOp isIn ++ verList2 p0 rest) false = .ok s ∧ PvListLeaf (.single s) := by
  obtain ⟨res, B, hres, _⟩ := parse_list_reg isIn p0 (rest.map (·.2))
  exact ⟨_, mkSingle_pvList isIn p0 rest hs hres, isIn, p0, rest, res, hs, hres, rfl⟩

end Poetry.Marker
