/-
Helper lemmas for C02 (Requires-Dist / Requires-Python / Provides-Extra mean what pyproject declared):
the three steps of `Factory.create_dependency`'s marker computation composed from C11 (`createNested_exact`,
`parseMarker_sem`) and C07 (`mIntersect_sound`), the `marker` setter, the selection of `Metadata.from_package`,
`Provides-Extra`, and the structure of `format_python_constraint`'s output.
-/
import PoetryVerif.Model.Dep02
import PoetryVerif.Props.C11
import PoetryVerif.Proofs.Dep

set_option linter.unusedSimpArgs false
set_option linter.unusedVariables false

namespace Poetry.Dep02
open Poetry Poetry.Marker Poetry.Dep Poetry.C11

/-! ### what a declaration means -/

/-- reference value of an optional marker text of the table (`markers = "…"`; absent or empty: no condition) -/
def declRef (E : Env) (o : Option String) : Option Bool :=
  if truthy o then refEval E (o.getD "") else some true

/-- the declared python range admits interpreter `X.Y.Z` (absent or empty: no condition); the range must be in C11's
domain of ranges (`PyDomVC`) -/
def PyDecl (o : Option String) (X Y Z : Nat) (b : Bool) : Prop :=
  if truthy o then ∃ c, VParser.parseConstraint (o.getD "") = .ok c ∧ PyDomVC c = true ∧ b = c.allowsPlain (pyV X Y Z)
  else b = true

/-- the marker text `create_nested_marker("sys_platform", parse_generic_constraint(platform))` has reference value `b`
in `E` (absent or empty: no condition) -/
def PlatformDecl (E : Env) (o : Option String) (b : Bool) : Prop :=
  if truthy o then ∀ gc txt, Generic.parseConstraint (o.getD "") = .ok gc →
      (if gc.isAny then pure "" else nestedGC "sys_platform" gc) = .ok txt → refEval E txt = some b
  else b = true

variable {E : Env} {ev : Leaf → Bool} {G : Leaf → Prop}

theorem stepMarkers_sem (S : LeafSpec ev G) (hC : CompactAgree E ev G) (o : Option String) (b : Bool) (m : M)
    (hr : declRef E o = some b) (h : stepMarkers o = .ok m) : M.Good G m ∧ M.sem ev m = b := by
  unfold stepMarkers at h
  unfold declRef at hr
  by_cases ht : truthy o = true
  · simp only [ht, if_true] at h hr
    exact parseMarker_sem S hC _ b m hr h
  · simp only [ht, Bool.false_eq_true, if_false, pure, Except.pure] at h hr
    cases h; cases hr
    simp [M.Good, M.sem]

theorem stepPython_sem (S : LeafSpec ev G) (hC : CompactAgree E ev G) (o : Option String) (X Y Z : Nat) (hE : EnvPy E X Y Z)
    (b : Bool) (m r : M) (hm : M.Good G m) (hd : PyDecl o X Y Z b) (h : stepPython m o = .ok r) :
    M.Good G r ∧ M.sem ev r = (M.sem ev m && b) := by
  unfold stepPython at h
  unfold PyDecl at hd
  by_cases ht : truthy o = true
  · simp only [ht, if_true] at h hd
    obtain ⟨c, hc, hdom, hb⟩ := hd
    simp only [hc, bind, Except.bind] at h
    cases htx : createNestedMarker "python_version" c with
    | error e => simp [htx] at h
    | ok txt =>
      simp only [htx] at h
      cases hpm : parseMarker txt with
      | error e => simp [hpm] at h
      | ok pm =>
        simp only [hpm] at h
        have hp := createNested_poetry_of_agree S hC c hdom X Y Z hE txt pm htx hpm
        have := mIntersect_sound S hm hp.1 h
        exact ⟨this.1, by rw [this.2, hp.2, hb]⟩
  · simp only [ht, Bool.false_eq_true, if_false, pure, Except.pure] at h hd
    cases h
    subst hd
    simp [hm]

theorem stepPlatform_sem (S : LeafSpec ev G) (hC : CompactAgree E ev G) (o : Option String)
    (b : Bool) (m r : M) (hm : M.Good G m) (hd : PlatformDecl E o b) (h : stepPlatform m o = .ok r) :
    M.Good G r ∧ M.sem ev r = (M.sem ev m && b) := by
  unfold stepPlatform at h
  unfold PlatformDecl at hd
  by_cases ht : truthy o = true
  · simp only [ht, if_true] at h hd
    cases hg : Generic.parseConstraint (o.getD "") with
    | error e => simp [hg, bind, Except.bind] at h
    | ok gc =>
      simp only [hg, bind, Except.bind] at h
      cases htx : (if gc.isAny then (pure "" : PyM String) else nestedGC "sys_platform" gc) with
      | error e => simp [htx] at h
      | ok txt =>
        simp only [htx] at h
        cases hpm : parseMarker txt with
        | error e => simp [hpm] at h
        | ok pm =>
          simp only [hpm] at h
          have hr := hd gc txt hg htx
          have hp := parseMarker_sem S hC txt b pm hr hpm
          have := mIntersect_sound S hm hp.1 h
          exact ⟨this.1, by rw [this.2, hp.2]⟩
  · simp only [ht, Bool.false_eq_true, if_false, pure, Except.pure] at h hd
    cases h
    subst hd
    simp [hm]

/-- the marker `create_dependency` computes is the conjunction of the three declared conditions -/
theorem declMarker_sem (S : LeafSpec ev G) (hC : CompactAgree E ev G) (D : Decl) (X Y Z : Nat) (hE : EnvPy E X Y Z)
    (bM bPy bPl : Bool) (m : M) (hM : declRef E D.markers = some bM) (hPy : PyDecl D.python X Y Z bPy)
    (hPl : PlatformDecl E D.platform bPl) (h : declMarker D = .ok m) :
    M.Good G m ∧ M.sem ev m = (bM && bPy && bPl) := by
  unfold declMarker at h
  cases h0 : stepMarkers D.markers with
  | error e => simp [h0, bind, Except.bind] at h
  | ok m0 =>
    simp only [h0, bind, Except.bind] at h
    cases h1 : stepPython m0 D.python with
    | error e => simp [h1] at h
    | ok m1 =>
      simp only [h1] at h
      have s0 := stepMarkers_sem S hC D.markers bM m0 hM h0
      have s1 := stepPython_sem S hC D.python X Y Z hE bPy m0 m1 s0.1 hPy h1
      have s2 := stepPlatform_sem S hC D.platform bPl m1 m s1.1 hPl h
      exact ⟨s2.1, by rw [s2.2, s1.2, s0.2]⟩

/-! ### the same against poetry's own evaluation, the compaction agreement discharged per text -/

/-- the declared `markers` text is in C06's proved domain on `E` -/
def MarkersAgree (E : Env) (o : Option String) : Prop := truthy o = true → TextAgree E (o.getD "")

/-- the `sys_platform` clause printed for the declared platform is in C06's proved domain on `E` -/
def PlatformAgree (E : Env) (o : Option String) : Prop :=
  truthy o = true → ∀ gc txt, Generic.parseConstraint (o.getD "") = .ok gc →
    (if gc.isAny then pure "" else nestedGC "sys_platform" gc) = .ok txt → TextAgree E txt

theorem declMarker_sem_validate (S : LeafSpec (leafEval E) (CompLeaf E)) (D : Decl) (X Y Z : Nat)
    (hE : EnvPy E X Y Z) (bM bPy bPl : Bool) (m : M) (hM : declRef E D.markers = some bM)
    (hMa : MarkersAgree E D.markers) (hPy : PyDecl D.python X Y Z bPy)
    (hPl : PlatformDecl E D.platform bPl) (hPa : PlatformAgree E D.platform) (h : declMarker D = .ok m) :
    M.Good (CompLeaf E) m ∧ M.sem (leafEval E) m = (bM && bPy && bPl) := by
  unfold declMarker at h
  cases h0 : stepMarkers D.markers with
  | error e => simp [h0, bind, Except.bind] at h
  | ok m0 =>
    simp only [h0, bind, Except.bind] at h
    cases h1 : stepPython m0 D.python with
    | error e => simp [h1] at h
    | ok m1 =>
      simp only [h1] at h
      -- markers
      have s0 : M.Good (CompLeaf E) m0 ∧ M.sem (leafEval E) m0 = bM := by
        unfold stepMarkers at h0
        unfold declRef at hM
        by_cases ht : truthy D.markers = true
        · simp only [ht, if_true] at h0 hM
          exact parseMarker_sem_agree E S _ bM m0 (hMa ht) hM h0
        · simp only [ht, Bool.false_eq_true, if_false, pure, Except.pure] at h0 hM
          cases h0; cases hM
          simp [M.Good, M.sem]
      -- python
      have s1 : M.Good (CompLeaf E) m1 ∧ M.sem (leafEval E) m1 = (M.sem (leafEval E) m0 && bPy) := by
        unfold stepPython at h1
        unfold PyDecl at hPy
        by_cases ht : truthy D.python = true
        · simp only [ht, if_true] at h1 hPy
          obtain ⟨c, hc, hdom, hb⟩ := hPy
          simp only [hc, bind, Except.bind] at h1
          cases htx : createNestedMarker "python_version" c with
          | error e => simp [htx] at h1
          | ok txt =>
            simp only [htx] at h1
            cases hpm : parseMarker txt with
            | error e => simp [hpm] at h1
            | ok pm =>
              simp only [hpm] at h1
              have hp := createNested_poetry E S c hdom X Y Z hE txt pm htx hpm
              have := mIntersect_sound S s0.1 hp.1 h1
              exact ⟨this.1, by rw [this.2, hp.2.1, hb]⟩
        · simp only [ht, Bool.false_eq_true, if_false, pure, Except.pure] at h1 hPy
          cases h1
          subst hPy
          simp [s0.1]
      -- platform
      have s2 : M.Good (CompLeaf E) m ∧ M.sem (leafEval E) m = (M.sem (leafEval E) m1 && bPl) := by
        unfold stepPlatform at h
        unfold PlatformDecl at hPl
        by_cases ht : truthy D.platform = true
        · simp only [ht, if_true] at h hPl
          cases hg : Generic.parseConstraint (D.platform.getD "") with
          | error e => simp [hg, bind, Except.bind] at h
          | ok gc =>
            simp only [hg, bind, Except.bind] at h
            cases htx : (if gc.isAny then (pure "" : PyM String) else nestedGC "sys_platform" gc) with
            | error e => simp [htx] at h
            | ok txt =>
              simp only [htx] at h
              cases hpm : parseMarker txt with
              | error e => simp [hpm] at h
              | ok pm =>
                simp only [hpm] at h
                have hr := hPl gc txt hg htx
                have hp := parseMarker_sem_agree E S txt bPl pm (hPa ht gc txt hg htx) hr hpm
                have := mIntersect_sound S s1.1 hp.1 h
                exact ⟨this.1, by rw [this.2, hp.2]⟩
        · simp only [ht, Bool.false_eq_true, if_false, pure, Except.pure] at h hPl
          cases h
          subst hPl
          simp [s1.1]
      exact ⟨s2.1, by rw [s2.2, s1.2, s0.2]⟩

/-! ### the `marker` setter and the dependency object -/

theorem setMarker_marker (d d' : Dep) (m : M) (h : d.setMarker m = .ok d') : d'.marker = m := by
  unfold Dep.setMarker at h
  simp only [bind, Except.bind, pure, Except.pure] at h
  cases h1 : convertMarkersFor "extra" m with
  | error e => simp [h1] at h
  | ok ex =>
    simp only [h1] at h
    cases h2 : convertMarkersFor "python_version" m with
    | error e => simp [h2] at h
    | ok py =>
      simp only [h2] at h
      cases ex <;> cases py <;> simp only [] at h <;>
        (repeat' split at h) <;> first | (cases h; rfl) | (cases h)

theorem isAny_eq {m : M} (h : m.isAny = true) : m = .any := by
  cases m <;> simp [M.isAny] at h ⊢

/-- `dependency.marker` after `create_dependency` is the computed marker (an `AnyMarker` is not assigned, the
dependency then keeps its initial `AnyMarker`) -/
theorem createDependency_marker (D : Decl) (d : Dep) (h : createDependency D = .ok d) :
    ∃ m, declMarker D = .ok m ∧ d.marker = m := by
  unfold createDependency at h
  cases hb : baseDependency D with
  | error e => simp [hb, bind, Except.bind] at h
  | ok d0 =>
    simp only [hb, bind, Except.bind] at h
    cases hm : declMarker D with
    | error e => simp [hm] at h
    | ok m =>
      simp only [hm] at h
      refine ⟨m, rfl, ?_⟩
      by_cases ha : m.isAny = true
      · simp only [ha, Bool.not_true, Bool.false_eq_true, if_false, pure, Except.pure] at h
        have : d0.marker = M.any := by
          unfold baseDependency at hb
          simp only [bind, Except.bind, pure, Except.pure] at hb
          cases hs : Spec.make D.name none none none none none D.extras with
          | error e => simp [hs] at hb
          | ok spec =>
            simp only [hs] at hb
            cases hd : mkDepStr spec D.version .registry with
            | error e => simp [hd] at hb
            | ok d1 =>
              simp only [hd] at hb
              cases hb
              unfold mkDepStr at hd
              simp only [bind, Except.bind, pure, Except.pure] at hd
              cases hv : VParser.parseConstraint D.version with
              | error e => simp [hv] at hd
              | ok vc => simp only [hv] at hd; cases hd; rfl
        cases h
        rw [this, isAny_eq ha]
      · have ha' : m.isAny = false := by simpa using ha
        simp only [ha', Bool.not_false, if_true] at h
        exact setMarker_marker d0 d m h

theorem wireExtras_marker (d : Dep) (l : List String) : (wireExtras d l).marker = d.marker := rfl
theorem wireExtras_optional (d : Dep) (l : List String) : (wireExtras d l).optional = d.optional := rfl

/-! ### Provides-Extra -/

theorem mem_dedupKeep (l : List String) (x : String) : x ∈ dedupKeep l ↔ x ∈ l := by
  have key : ∀ (l acc : List String) (x : String),
      x ∈ l.foldl (fun acc x => if acc.contains x then acc else acc ++ [x]) acc ↔ x ∈ acc ∨ x ∈ l := by
    intro l
    induction l with
    | nil => intro acc x; simp
    | cons y ys ih =>
      intro acc x
      simp only [List.foldl]
      rw [ih]
      by_cases hc : acc.contains y = true
      · have : y ∈ acc := by simpa using hc
        simp only [hc, if_true, List.mem_cons]
        constructor
        · rintro (h | h); exact Or.inl h; exact Or.inr (Or.inr h)
        · rintro (h | rfl | h); exact Or.inl h; exact Or.inl this; exact Or.inr h
      · simp only [hc, Bool.false_eq_true, if_false]
        rw [List.mem_append, List.mem_singleton, List.mem_cons]
        constructor
        · rintro ((h | h) | h); exact Or.inl h; exact Or.inr (Or.inl h); exact Or.inr (Or.inr h)
        · rintro (h | h | h); exact Or.inl (Or.inl h); exact Or.inl (Or.inr h); exact Or.inr h
  simpa [dedupKeep] using key l [] x

theorem dedupKeep_nodup (l : List String) : (dedupKeep l).Nodup := by
  have key : ∀ (l acc : List String), acc.Nodup →
      (l.foldl (fun acc x => if acc.contains x then acc else acc ++ [x]) acc).Nodup := by
    intro l
    induction l with
    | nil => intro acc h; exact h
    | cons y ys ih =>
      intro acc h
      simp only [List.foldl]
      apply ih
      by_cases hc : acc.contains y = true
      · simp only [hc, if_true]; exact h
      · have : y ∉ acc := by simpa using hc
        simp only [hc, Bool.false_eq_true, if_false]
        rw [List.nodup_append]
        exact ⟨h, by simp, by intro a ha b hb; simp at hb; subst hb; intro e; subst e; exact this ha⟩
  exact key l [] (by simp)

/-! ### `format_python_constraint` -/

/-- every item the `VersionUnion` branch emits is `!=V` for a table entry `V` that the constraint does not intersect,
and every accepted entry is one the constraint intersects -/
theorem formatUnion_items (c : VC) (vs : List String) (f a : List String) (h : formatUnion c vs = .ok (f, a)) :
    (∀ x ∈ f, ∃ v ∈ vs, x = "!=" ++ v ∧ ∃ vc, VParser.parseConstraint v = .ok vc ∧ c.allowsAny vc = .ok false) ∧
    (∀ v ∈ a, v ∈ vs ∧ ∃ vc, VParser.parseConstraint v = .ok vc ∧ c.allowsAny vc = .ok true) := by
  induction vs generalizing f a with
  | nil =>
    simp only [formatUnion, pure, Except.pure] at h
    cases h
    simp
  | cons v rest ih =>
    simp only [formatUnion, bind, Except.bind, pure, Except.pure] at h
    cases hv : VParser.parseConstraint v with
    | error e => simp [hv] at h
    | ok vc =>
      simp only [hv] at h
      cases hh : c.allowsAny vc with
      | error e => simp [hh] at h
      | ok hit =>
        simp only [hh] at h
        cases hr : formatUnion c rest with
        | error e => simp [hr] at h
        | ok p =>
          obtain ⟨f', a'⟩ := p
          simp only [hr] at h
          have ih' := ih f' a' hr
          cases hit with
          | true =>
            simp only [if_true] at h
            cases h
            refine ⟨?_, ?_⟩
            · intro x hx
              obtain ⟨w, hw, rest'⟩ := ih'.1 x hx
              exact ⟨w, by simp [hw], rest'⟩
            · intro w hw
              simp only [List.mem_cons] at hw
              rcases hw with rfl | hw
              · exact ⟨by simp, vc, hv, hh⟩
              · exact ⟨by simp [(ih'.2 w hw).1], (ih'.2 w hw).2⟩
          | false =>
            simp only [Bool.false_eq_true, if_false] at h
            cases h
            refine ⟨?_, ?_⟩
            · intro x hx
              simp only [List.mem_cons] at hx
              rcases hx with rfl | hx
              · exact ⟨v, by simp, rfl, vc, hv, hh⟩
              · obtain ⟨w, hw, rest'⟩ := ih'.1 x hx
                exact ⟨w, by simp [hw], rest'⟩
            · intro w hw
              exact ⟨by simp [(ih'.2 w hw).1], (ih'.2 w hw).2⟩

end Poetry.Dep02
