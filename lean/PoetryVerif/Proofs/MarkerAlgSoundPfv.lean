/-
Same-name leaves on `python_full_version` with their text: `python_full_version <op> "X.Y.Z"` with a comparison
operator and a three-component literal.  `SingleMarker("python_full_version", str(c))` for a simple constraint
over Python bounds of one to three components (the one- and two-component ones receive the `.0` padding of
`SingleMarker.__init__`) is such a leaf, admitting final releases exactly when `c` does; the outcomes of
`_merge_single_markers` on the variable are tracked with their text (needed by the
python_version/python_full_version pairing, which re-parses the text of the merged leaf).
-/
import PoetryVerif.Proofs.MarkerAlgSoundPv

set_option linter.unusedSimpArgs false
set_option linter.unusedVariables false

namespace Poetry.Marker
open Poetry Poetry.Version

/-- `python_full_version op "x.r…"` -/
def pfvLeafOf (sop : Spec.SOp) (ops : String) (x : Nat) (r : List Nat) : Single :=
  ⟨"python_full_version", ops, Version.relText (x :: r), false, .ver (pvClause sop (litV x r))⟩

/-- the fragment: comparison operators, three-component literals -/
def Pfv3Leaf (l : Leaf) : Prop :=
  ∃ sop ops a b c, (sop, ops) ∈ pvOps ∧ l = .single (pfvLeafOf sop ops a [b, c])

/-- the release tail after the padding of `SingleMarker.__init__` (to three components) -/
def padR (r : List Nat) : List Nat := r ++ List.replicate (2 - r.length) 0

theorem padR_long {r : List Nat} (h : 2 ≤ r.length) : padR r = r := by
  have : 2 - r.length = 0 := by omega
  simp [padR, this]

theorem padR_two {r : List Nat} (h : r.length ≤ 2) : ∃ b c, padR r = [b, c] := by
  match r, h with
  | [], _ => exact ⟨0, 0, rfl⟩
  | [y], _ => exact ⟨y, 0, rfl⟩
  | [y, z], _ => exact ⟨y, z, rfl⟩

theorem relText_pad1 (x : Nat) : Version.relText [x] ++ ".0.0" = Version.relText [x, 0, 0] :=
  str_eq_of_toList (by simp [relText_toList, relChars, relTail, dg_zero])

theorem relText_padR (x : Nat) (r : List Nat) (h : r.length < 2) :
    Version.relText (x :: r) ++ String.join (List.replicate (2 - r.length) ".0") =
      Version.relText (x :: padR r) := by
  have hj2 : String.join (List.replicate 2 ".0") = ".0.0" := by decide
  have hj1 : String.join (List.replicate 1 ".0") = ".0" := by decide
  match r, h with
  | [], _ =>
    show Version.relText [x] ++ String.join (List.replicate 2 ".0") = _
    rw [hj2]; exact relText_pad1 x
  | [y], _ =>
    show Version.relText [x, y] ++ String.join (List.replicate 1 ".0") = _
    rw [hj1]; exact relText_pad x y

/-- `SingleMarker.__init__` on `python_full_version` with a one- or two-component numeric value: value and
constraint string are padded to three components -/
theorem leafPrepare_pfv_pad (cstr : String) (opG : Option String) (x : Nat) (r : List Nat)
    (hm : matchPattern1 cstr.toList = some (opG, Version.relText (x :: r)))
    (l1 : (opG.getD "==" == "in") = false) (l2 : (opG.getD "==" == "not in") = false) (hr : r.length < 2) :
    leafPrepare "python_full_version" cstr false =
      .ok { name := "python_full_version", op := opG.getD "==", value := Version.relText (x :: padR r),
            swapped := false,
            cstr := cstr ++ String.join (List.replicate (2 - r.length) ".0"), kind := .version true } := by
  unfold leafPrepare
  simp only [Bool.false_eq_true, if_false, hm, l1, l2, Bool.false_and, Bool.or_false]
  have f1 : Gen.versionLikeMarkerNames.contains "python_full_version" = true := by decide
  have f1' : "python_full_version" ∈ Gen.versionLikeMarkerNames := by decide
  have f3 : aliasName "python_full_version" = "python_full_version" := by decide
  have f4 : ("python_full_version" != "platform_release") = true := by decide
  have hdec := relChars_decimal x r
  rw [← relText_toList] at hdec
  have hp : r.length + 1 < 3 := by omega
  simp [f1, f1', f3, f4, countChar_relText, hdec, hp, relText_padR x r hr]

theorem mkSingle_pfvLeaf {sop ops} (h : (sop, ops) ∈ pvOps) (x : Nat) (r : List Nat) :
    mkSingle "python_full_version" (ops ++ Version.relText (x :: r)) false = .ok (pfvLeafOf sop ops x (padR r)) := by
  obtain ⟨h1, h2, _⟩ := pvOps_facts h (litV x (padR r))
  by_cases hr : 2 ≤ r.length
  · rw [padR_long hr] at h1 ⊢
    exact mkSingle_pfv3 sop ops h2 x r hr _ h1
  · have hr' : r.length < 2 := by omega
    obtain ⟨l1, l2⟩ := verOp_not_list sop ops h2
    have hp := pmvc_op sop ops h2 x (padR r)
    rw [h1] at hp
    have hprep := leafPrepare_pfv_pad (ops ++ Version.relText (x :: r)) (some ops) x r
      (matchPattern1_ver sop ops h2 x r) (by simpa using l1) (by simpa using l2) hr'
    rw [String.append_assoc, relText_padR x r hr'] at hprep
    simp [mkSingle, hprep, bind, Except.bind, parseByKind_ver _ _ hp, pure, Except.pure, pfvLeafOf]

theorem mkSingle_pfv_bareP (x : Nat) (r : List Nat) :
    mkSingle "python_full_version" (Version.relText (x :: r)) false = .ok (pfvLeafOf .eq "==" x (padR r)) := by
  by_cases hr : 2 ≤ r.length
  · rw [padR_long hr]
    simpa [pfvLeafOf, pvClause] using mkSingle_pfv_bare x r hr
  · have hr' : r.length < 2 := by omega
    have hprep := leafPrepare_pfv_pad (Version.relText (x :: r)) none x r
      (matchPattern1_relText x r) (by decide) (by decide) hr'
    rw [relText_padR x r hr'] at hprep
    simp [mkSingle, hprep, bind, Except.bind, parseByKind_ver _ _ (pmvc_bare x (padR r)), pure, Except.pure,
      pfvLeafOf, pvClause]

/-! ### the padded bound is an equal version -/

theorem stripZeros_zeros (k : Nat) : stripZeros (List.replicate k 0) = [] := by
  induction k with
  | zero => rfl
  | succ k ih => simp [List.replicate_succ, stripZeros, ih]

theorem stripZeros_append_zeros (l : List Nat) (k : Nat) : stripZeros (l ++ List.replicate k 0) = stripZeros l := by
  induction l with
  | nil => simp [stripZeros_zeros, stripZeros]
  | cons a l ih => simp [stripZeros, ih]

theorem pad_eqv (x : Nat) (r : List Nat) : Version.eqv (litV x (padR r)) (litV x r) = true := by
  simp only [Version.eqv, litV_eq_finalV, cmp_finalV, padR, beq_iff_eq]
  rw [← List.cons_append, stripZeros_append_zeros]; exact compare_self_eq _

theorem pyBound_lit {e : Version} (h : PyBound e = true) : ∃ x r, r.length ≤ 2 ∧ e = litV x r := by
  obtain ⟨h1, h2, h3, h4, h5, h6, hr⟩ := PyBound_parts h
  obtain ⟨ep, rel, pre, post, dev, loc, text⟩ := e
  simp only at h1 h2 h3 h4 h5 h6 hr
  subst h1 h2 h3 h4 h5 h6
  rcases hr with ⟨a, rfl⟩ | ⟨a, b, rfl⟩ | ⟨a, b, c, rfl⟩
  · exact ⟨a, [], by simp, rfl⟩
  · exact ⟨a, [b], by simp, rfl⟩
  · exact ⟨a, [b, c], by simp, rfl⟩

theorem pb_pad (x : Nat) {r : List Nat} (h : r.length ≤ 2) : PyBound (litV x (padR r)) = true := by
  obtain ⟨b, c, e⟩ := padR_two h
  rw [e]; exact pb [x, b, c]

theorem pvClause_okV {sop ops} (h : (sop, ops) ∈ pvOps) {V : Version} (hb : PyBound V = true) :
    PyVCok (pvClause sop V) := by
  simp only [pvOps, List.mem_cons, List.mem_nil_iff, or_false, Prod.mk.injEq] at h
  rcases h with ⟨rfl, rfl⟩ | ⟨rfl, rfl⟩ | ⟨rfl, rfl⟩ | ⟨rfl, rfl⟩ | ⟨rfl, rfl⟩ | ⟨rfl, rfl⟩
  · exact ok_ver _ hb
  · exact ok_ne _ hb
  · exact ok_hi _ false hb
  · exact ok_hi _ true hb
  · exact ok_lo _ false hb
  · exact ok_lo _ true hb

theorem pvClause_eqv {sop ops} (h : (sop, ops) ∈ pvOps) {V' V : Version} (he : Version.eqv V' V = true) :
    VC.eqv (pvClause sop V') (pvClause sop V) = true := by
  simp only [pvOps, List.mem_cons, List.mem_nil_iff, or_false, Prod.mk.injEq] at h
  rcases h with ⟨rfl, rfl⟩ | ⟨rfl, rfl⟩ | ⟨rfl, rfl⟩ | ⟨rfl, rfl⟩ | ⟨rfl, rfl⟩ | ⟨rfl, rfl⟩ <;>
    simp [pvClause, VC.eqv, RC.eqv, VRange.eqv, RC.view, optVerEq, ineqRange, RC.min, RC.max, RC.imin, RC.imax, he]

/-- the clause on the padded literal admits what the clause on the literal admits -/
theorem pvClause_pad {sop ops} (h : (sop, ops) ∈ pvOps) (x : Nat) {r : List Nat} (hr : r.length ≤ 2) (p : Version) :
    (pvClause sop (litV x (padR r))).allowsPlain p = (pvClause sop (litV x r)).allowsPlain p := by
  have hb : PyBound (litV x r) = true := pb (x :: r) (by simp) (by simp; omega)
  exact eqvAllows' _ _ (fun c hc => ((pvClause_okV h (pb_pad x hr)).2 c hc).1)
    (fun c hc => ((pvClause_okV h hb).2 c hc).1) (pvClause_eqv h (pad_eqv x r)) p

/-- **`SingleMarker("python_full_version", str(c))` for a simple constraint over Python bounds** (one to three
components; the short ones are padded by the constructor) is a leaf of the fragment whose clause admits the final
releases exactly when `c` does -/
theorem mkSingleOfC_pfv {rc : VC} (hok : PyVCok rc) (he : rc.isEmpty = false) (ha : rc.isAny = false)
    (hs : rc.isSimple = .ok true) {s : Single} (hmk : mkSingleOfC "python_full_version" (.ver rc) = .ok s) :
    ∃ sop ops x r, (sop, ops) ∈ pvOps ∧ r.length ≤ 2 ∧ litV x r ∈ boundsOf rc.flatten ∧
      s = pfvLeafOf sop ops x (padR r) ∧
      ∀ l, l ≠ [] → (pvClause sop (litV x (padR r))).allowsPlain (finalV l) = rc.allowsPlain (finalV l) := by
  cases rc with
  | empty => simp [VC.isEmpty] at he
  | single c =>
    have hcm := hok.2 c (by simp [VC.flatten])
    cases c with
    | ver V =>
      obtain ⟨x, r, hr, rfl⟩ := pyBound_lit (hcm.2.2.2 V (by simp [RC.bounds, RC.view, VRange.bounds, RC.min]))
      simp only [mkSingleOfC, LeafC.toStr, VC.toStr, RC.toStr, litV_text, bind, Except.bind,
        mkSingle_pfv_bareP x r] at hmk
      cases hmk
      exact ⟨.eq, "==", x, r, by decide, hr,
        by simp [boundsOf, VC.flatten, RC.bounds, RC.view, VRange.bounds, RC.min], rfl,
        fun l _ => pvClause_pad (sop := .eq) (ops := "==") (by decide) x hr _⟩
    | rng R =>
      obtain ⟨mn, mx, imin, imax⟩ := R
      have htidy := hcm.2.1
      cases mn with
      | none =>
        cases mx with
        | none => simp [VC.isAny, RC.isAny, VRange.isAny] at ha
        | some V =>
          have him : imin = false := htidy.1 rfl
          subst him
          obtain ⟨x, r, hr, rfl⟩ := pyBound_lit (hcm.2.2.2 V
            (by simp [RC.bounds, RC.view, VRange.bounds, RC.min, RC.max]))
          cases imax with
          | false =>
            simp only [mkSingleOfC, LeafC.toStr, VC.toStr, RC.toStr, VRange.toStr, litV_text, bind, Except.bind,
              Bool.false_eq_true, if_false, mkSingle_pfvLeaf (sop := .lt) (ops := "<") (by decide) x r] at hmk
            cases hmk
            exact ⟨.lt, "<", x, r, by decide, hr,
              by simp [boundsOf, VC.flatten, RC.bounds, RC.view, VRange.bounds, RC.min, RC.max], rfl,
              fun l _ => pvClause_pad (sop := .lt) (ops := "<") (by decide) x hr _⟩
          | true =>
            simp only [mkSingleOfC, LeafC.toStr, VC.toStr, RC.toStr, VRange.toStr, litV_text, bind, Except.bind,
              if_true, mkSingle_pfvLeaf (sop := .le) (ops := "<=") (by decide) x r] at hmk
            cases hmk
            exact ⟨.le, "<=", x, r, by decide, hr,
              by simp [boundsOf, VC.flatten, RC.bounds, RC.view, VRange.bounds, RC.min, RC.max], rfl,
              fun l _ => pvClause_pad (sop := .le) (ops := "<=") (by decide) x hr _⟩
      | some V =>
        cases mx with
        | some W => simp [VC.isSimple, RC.isSimple, VRange.isSimple] at hs
        | none =>
          have him : imax = false := htidy.2 rfl
          subst him
          obtain ⟨x, r, hr, rfl⟩ := pyBound_lit (hcm.2.2.2 V
            (by simp [RC.bounds, RC.view, VRange.bounds, RC.min, RC.max]))
          cases imin with
          | false =>
            simp only [mkSingleOfC, LeafC.toStr, VC.toStr, RC.toStr, VRange.toStr, litV_text, bind, Except.bind,
              Bool.false_eq_true, if_false, mkSingle_pfvLeaf (sop := .gt) (ops := ">") (by decide) x r] at hmk
            cases hmk
            exact ⟨.gt, ">", x, r, by decide, hr,
              by simp [boundsOf, VC.flatten, RC.bounds, RC.view, VRange.bounds, RC.min, RC.max], rfl,
              fun l _ => pvClause_pad (sop := .gt) (ops := ">") (by decide) x hr _⟩
          | true =>
            simp only [mkSingleOfC, LeafC.toStr, VC.toStr, RC.toStr, VRange.toStr, litV_text, bind, Except.bind,
              if_true, mkSingle_pfvLeaf (sop := .ge) (ops := ">=") (by decide) x r] at hmk
            cases hmk
            exact ⟨.ge, ">=", x, r, by decide, hr,
              by simp [boundsOf, VC.flatten, RC.bounds, RC.view, VRange.bounds, RC.min, RC.max], rfl,
              fun l _ => pvClause_pad (sop := .ge) (ops := ">=") (by decide) x hr _⟩
  | union rs =>
    -- the `!= V` shape
    let B : List Version := boundsOf rs
    have hpb : ∀ e ∈ B, PyBound e = true := by
      intro e he'
      simp only [B, boundsOf, List.mem_flatMap] at he'
      obtain ⟨c, hc, hec⟩ := he'
      exact (hok.2 c (by simpa [VC.flatten] using hc)).2.2.2 e hec
    have hB := regB_of_pyBound B hpb
    have hreg := regVC_of_ok (B := B) hok (fun c hc e he' => by
      simp only [B, boundsOf, List.mem_flatMap]; exact ⟨c, by simpa [VC.flatten] using hc, he'⟩)
    have hmr : ∀ c ∈ rs, RegMember B c := by simpa [VC.flatten] using hreg.2
    obtain ⟨hUok, hN⟩ := unionOK_of_reg hB rs hmr hok.1.2.2.1
    have hex : ∃ v, VC.excludedSingleVersion rs = .ok (some v) := by
      simp only [VC.isSimple, bind, Except.bind, pure, Except.pure] at hs
      cases h : VC.excludedSingleVersion rs with
      | error e => simp [h] at hs
      | ok o =>
        cases o with
        | none => simp [h] at hs
        | some v => exact ⟨v, rfl⟩
    obtain ⟨v, hv⟩ := hex
    have hinv : VC.inverted rs = .ok (.single (.ver v)) := by
      simp only [VC.excludedSingleVersion, bind, Except.bind, pure, Except.pure] at hv
      cases h : VC.inverted rs with
      | error e => simp [h] at hv
      | ok res =>
        simp only [h] at hv
        split at hv
        · cases hv; rfl
        · cases hv
    obtain ⟨_, hb, hsem⟩ := inverted_sem rs hUok _ hinv
    have hvB : v ∈ B := hb v (by simp [VC.bounds, RC.bounds, RC.view, VRange.bounds, RC.min])
    have hvb := hpb v hvB
    obtain ⟨x, r, hr, rfl⟩ := pyBound_lit hvb
    have hstr : (LeafC.ver (.union rs)).toStr = .ok ("!=" ++ Version.relText (x :: r)) := by
      simp [LeafC.toStr, VC.toStr, hv, bind, Except.bind, pure, Except.pure, litV_text]
    simp only [mkSingleOfC, hstr, bind, Except.bind,
      mkSingle_pfvLeaf (sop := .ne) (ops := "!=") (by decide) x r] at hmk
    cases hmk
    refine ⟨.ne, "!=", x, r, by decide, hr, by simpa [VC.flatten, B] using hvB, rfl, ?_⟩
    intro l hl
    rw [pvClause_pad (sop := .ne) (ops := "!=") (by decide) x hr]
    have hp : (finalV l).wf = true := finalV_wf l hl
    have hregp := regular_final B hpb l
    have h1 := hsem (finalV l) hp hregp
    rw [anyAllows_eq_allowsPlain] at h1
    have hr1 : Reg1 (finalV l) (litV x r) := reg1_final l hvb
    have hva : (VC.single (.ver (litV x r))).allowsPlain (finalV l) = (litV x r).allows (finalV l) := by
      simp [VC.allowsPlain, VC.flatten, RC.allows]
    rw [hva] at h1
    have h2' : (VC.union rs).allowsPlain (finalV l) = !(litV x r).allows (finalV l) := by rw [h1]; simp
    rw [h2']
    simp only [pvClause, VC.allowsPlain, VC.flatten, List.any_cons, List.any_nil, Bool.or_false, RC.allows]
    rw [Bool.eq_iff_iff]
    simp only [Bool.or_eq_true, Bool.not_eq_true', ← Bool.not_eq_true,
      upper_allows (litV x r) (finalV l) false (litV_wf x r) hp hr1,
      lower_allows (litV x r) (finalV l) false (litV_wf x r) hp hr1,
      RC.ver_allows_iff (litV x r) (finalV l) (litV_wf x r) hp hr1, Bool.false_eq_true, if_false]
    exact ⟨fun h => by rcases h with h | h; exact ne_of_lt h; exact fun e => (ne_of_lt h) e.symm,
      fun h => lt_or_gt_of_ne h⟩

/-! ### the merge on `python_full_version`, with the text of the result -/

/-- an environment whose `python_full_version` is a final release is an environment of C05's regular setting for
every list of Python bounds -/
theorem verEnv_final {B : List Version} (hpb : ∀ e ∈ B, PyBound e = true) {E : Env} (x : Nat) (r : List Nat)
    (hE : E.get? "python_full_version" = some (Version.relText (x :: r))) :
    VerEnv B E "python_full_version" (litV x r) where
  get := ⟨_, hE, by
    have f4 : ("python_full_version" != "platform_release") = true := by decide
    simp [parseVersionKind, f4, pmvc_bare x r, Except.map]⟩
  wf := litV_wf x r
  reg := regular_final B hpb (x :: r)

theorem pvClause_bounds {sop ops} (h : (sop, ops) ∈ pvOps) (V : Version) :
    ∀ c ∈ (pvClause sop V).flatten, ∀ e ∈ c.bounds, e = V := by
  intro c hc e he
  simp only [pvOps, List.mem_cons, List.mem_nil_iff, or_false, Prod.mk.injEq] at h
  rcases h with ⟨rfl, rfl⟩ | ⟨rfl, rfl⟩ | ⟨rfl, rfl⟩ | ⟨rfl, rfl⟩ | ⟨rfl, rfl⟩ | ⟨rfl, rfl⟩ <;>
    simp only [pvClause, ineqRange, VC.flatten, List.mem_cons, List.mem_nil_iff, or_false] at hc <;>
    (try rcases hc with rfl | rfl) <;> (try subst hc) <;>
    simp [RC.bounds, RC.view, VRange.bounds, RC.min, RC.max] at he <;>
    (first
      | (rcases he with rfl | rfl <;> rfl)
      | (subst he; rfl))

/-- a leaf of the text-tracking fragment is a leaf of the regular fragment -/
theorem pfv3_verLeaf {B : List Version} {sop ops} (h : (sop, ops) ∈ pvOps) (a b c : Nat)
    (hB : litV a [b, c] ∈ B) : VerLeaf B "python_full_version" (.single (pfvLeafOf sop ops a [b, c])) := by
  have hok := pvClause_okV h (pb [a, b, c])
  have hreg := regVC_of_ok (B := B) hok (fun m hm e he => by rw [pvClause_bounds h _ m hm e he]; exact hB)
  refine ⟨rfl, ?_, _, rfl, hreg.1, hreg.2⟩
  simp only [Single.coherent, pfvLeafOf, itemConstraintString, Bool.false_eq_true, if_false]
  rw [mkSingle_pfvLeaf h a [b, c]]
  simp [pfvLeafOf, padR]

/-- what `_merge_single_markers` returns on two `python_full_version` leaves -/
def PfvOutcome (l1 l2 : Leaf) (r : M) : Prop :=
  r = .empty ∨ r = .any ∨ r = .leaf l1 ∨ r = .leaf l2 ∨ ∃ s, r = .leaf (.single s) ∧ Pfv3Leaf (.single s)

set_option hygiene false in
macro "pfv_tail" : tactic => `(tactic| (
  by_cases q1 : (LeafC.ver r0).isEmpty = true
  · rw [if_pos q1, pure_ok] at h; cases h
    have := vc_allowsPlain_of_isEmpty (c := r0) q1 p
    exact ⟨M.good_empty, by rw [M.sem_empty, this], Or.inl rfl⟩
  rw [if_neg q1] at h
  by_cases q2 : (LeafC.ver r0).isAny = true
  · rw [if_pos q2, pure_ok] at h; cases h
    have := vc_allowsPlain_of_isAny (c := r0) q2 p
    exact ⟨M.good_any, by rw [M.sem_any, this], Or.inr (Or.inl rfl)⟩
  rw [if_neg q2] at h
  by_cases q3 : (LeafC.ver r0).eqv (LeafC.ver v1) = true
  · rw [if_pos q3, pure_ok] at h; cases h
    refine ⟨(M.good_leaf _).2 h1', ?_, Or.inr (Or.inr (Or.inl rfl))⟩
    rw [M.sem_leaf, e1]
    exact (eqvAllows B r0 v1 hw0 hw1 hm0 hm1 q3 p).symm
  rw [if_neg q3] at h
  by_cases q4 : (LeafC.ver r0).eqv (LeafC.ver v2) = true
  · rw [if_pos q4, pure_ok] at h; cases h
    refine ⟨(M.good_leaf _).2 h2', ?_, Or.inr (Or.inr (Or.inr (Or.inl rfl)))⟩
    rw [M.sem_leaf, e2]
    exact (eqvAllows B r0 v2 hw0 hw2 hm0 hm2 q4 p).symm
  rw [if_neg q4] at h
  obtain ⟨b, hb, h⟩ := bind_ok.1 h
  cases b
  · rw [if_neg Bool.false_ne_true] at h
    dsimp only at h
    rw [if_pos (by decide)] at h
    rw [pure_ok] at h; cases h
  · rw [if_pos rfl] at h
    obtain ⟨s, hs, h⟩ := bind_ok.1 h
    rw [pure_ok] at h; cases h
    obtain ⟨sop, ops, x, r, hmem, hr, hxB, rfl, hall⟩ := mkSingleOfC_pfv (pyVCok_of_reg hpb ⟨hw0, hm0⟩)
      (by simpa [LeafC.isEmpty] using q1) (by simpa [LeafC.isAny] using q2) hb hs
    obtain ⟨b', c', hbc⟩ := padR_two hr
    have hxB' : litV x (padR r) ∈ B := hpad x r (by
      simp only [boundsOf, List.mem_flatMap] at hxB
      obtain ⟨m, hm, hxm⟩ := hxB
      exact (hm0 m hm).2.2.2 _ hxm)
    rw [hbc] at hxB' hall ⊢
    have g := pfv3_verLeaf hmem x b' c' hxB'
    refine ⟨(M.good_leaf _).2 g, ?_, Or.inr (Or.inr (Or.inr (Or.inr ⟨_, rfl, sop, ops, x, b', c', hmem, rfl⟩)))⟩
    obtain ⟨hns, _, vs, hvs, hws, hms⟩ := g
    rw [M.sem_leaf]
    simp only [leafEval, verLeaf_eval hB hE (by decide) hns hvs hws hms]
    cases hvs
    exact hall (X :: R) (by simp)))

/-- **`_merge_single_markers` on two `python_full_version` leaves of the regular fragment over Python bounds**:
exact, and the result is Empty, Any, one of the operands, or a leaf `python_full_version <op> "a.b.c"` of the
text-tracking fragment.  `B` must contain the padded form of its one- and two-component bounds (the
constructor pads); the environment's `python_full_version` is any final release.  Stated for every `depth`
(the same-name branch does not use it). -/
theorem verLeaf_merge_text {B : List Version} (hpb : ∀ e ∈ B, PyBound e = true)
    (hpad : ∀ x r, litV x r ∈ B → litV x (padR r) ∈ B) {E : Env} {X : Nat} {R : List Nat}
    (hX : E.get? "python_full_version" = some (Version.relText (X :: R)))
    (d : Nat) (l1 l2 : Leaf) (im : Bool) (r : M)
    (h1 : VerLeaf B "python_full_version" l1) (h2 : VerLeaf B "python_full_version" l2)
    (h : mergeSingle d l1 l2 im = .ok (some r)) :
    M.Good (VerLeaf B "python_full_version") r ∧
      M.sem (leafEval E) r = (if im then (leafEval E l1 && leafEval E l2) else (leafEval E l1 || leafEval E l2)) ∧
      PfvOutcome l1 l2 r := by
  have hB := regB_of_pyBound B hpb
  have hE := verEnv_final hpb X R hX
  let p : Version := litV X R
  cases l1 with
  | amulti _ _ => exact h1.elim
  | aunion _ _ => exact h1.elim
  | single s1 =>
  cases l2 with
  | amulti _ _ => exact h2.elim
  | aunion _ _ => exact h2.elim
  | single s2 =>
  have h1' := h1
  have h2' := h2
  obtain ⟨hn1, _, v1, hv1, hw1, hm1⟩ := h1
  obtain ⟨hn2, _, v2, hv2, hw2, hm2⟩ := h2
  have e1 : leafEval E (.single s1) = v1.allowsPlain p := by
    simp [leafEval, verLeaf_eval hB hE (by decide) hn1 hv1 hw1 hm1, p]
  have e2 : leafEval E (.single s2) = v2.allowsPlain p := by
    simp [leafEval, verLeaf_eval hB hE (by decide) hn2 hv2 hw2 hm2, p]
  have hreg := regular_of_members hE.reg hm1 hm2
  rw [mergeSingle.eq_def] at h
  dsimp only at h
  simp only [Leaf.name, hn1, hn2, show ("python_full_version" == "python_version") = false from by decide,
    Bool.false_and, Bool.and_false, Bool.or_self, Bool.false_eq_true,
    if_false, bne_self_eq_false, Leaf.c, hv1, hv2] at h
  have key : ∃ r0, (if im = true then (LeafC.ver v1).intersect (.ver v2) else (LeafC.ver v1).union (.ver v2)) =
        .ok (.ver r0) ∧ r0.WF ∧ (∀ c ∈ r0.flatten, RegMember B c) ∧
        r0.allowsPlain p = (if im = true then (v1.allowsPlain p && v2.allowsPlain p)
          else (v1.allowsPlain p || v2.allowsPlain p)) := by
    cases im
    · obtain ⟨r0, a, b, c, d⟩ := VC.unionWith_reg hB v1 v2 hw1 hw2 hm1 hm2
      exact ⟨r0, by simp [LeafC.union, a, Except.map], b, c, by simp [d p hE.wf hreg]⟩
    · obtain ⟨r0, a, b, c, d⟩ := VC.intersect_reg hB v1 v2 hw1 hw2 hm1 hm2
      exact ⟨r0, by simp [LeafC.intersect, a, Except.map], b, c, by simp [d p hE.wf hreg]⟩
  obtain ⟨r0, hk, hw0, hm0, hden⟩ := key
  have hgoal : (if im = true then (leafEval E (.single s1) && leafEval E (.single s2))
      else (leafEval E (.single s1) || leafEval E (.single s2))) = r0.allowsPlain p := by
    rw [hden, e1, e2]
  rw [hgoal]
  clear hgoal hden
  cases im
  · simp only [Bool.false_eq_true, if_false] at h hk ⊢
    obtain ⟨rc, hrc, h⟩ := bind_ok.1 h
    rw [hk] at hrc; cases hrc
    pfv_tail
  · simp only [if_true] at h hk ⊢
    obtain ⟨rc, hrc, h⟩ := bind_ok.1 h
    rw [hk] at hrc; cases hrc
    pfv_tail

/-- **the constructor fact for `python_full_version` over Python bounds of one to three components** (`B` contains
the padded form of its short bounds), at every final release -/
theorem mkVerOK_pfv_py {B : List Version} (hpb : ∀ e ∈ B, PyBound e = true)
    (hpad : ∀ x r, litV x r ∈ B → litV x (padR r) ∈ B) (X : Nat) (R : List Nat) :
    MkVerOK B "python_full_version" (litV X R) := by
  intro rc s hw hm he ha hsimp hmk
  obtain ⟨sop, ops, x, r, hmem, hr, hxB, rfl, hall⟩ :=
    mkSingleOfC_pfv (pyVCok_of_reg hpb ⟨hw, hm⟩) he ha hsimp hmk
  obtain ⟨b', c', hbc⟩ := padR_two hr
  have hxB' : litV x (padR r) ∈ B := hpad x r (by
    simp only [boundsOf, List.mem_flatMap] at hxB
    obtain ⟨m, hm', hxm⟩ := hxB
    exact (hm m hm').2.2.2 _ hxm)
  rw [hbc] at hxB' hall ⊢
  exact ⟨pfv3_verLeaf hmem x b' c' hxB', fun vc hvc => by cases hvc; exact hall (X :: R) (by simp)⟩

/-! ### `LeafSpec` on the text-tracking fragment -/

theorem litV_release (x : Nat) (r : List Nat) : (litV x r).release = x :: r := rfl

theorem padR_of_mem3 {B : List Version} (hB : ∀ e ∈ B, ∃ a b c, e = litV a [b, c]) :
    ∀ x r, litV x r ∈ B → litV x (padR r) ∈ B := by
  intro x r h
  obtain ⟨a, b, c, e⟩ := hB _ h
  have := congrArg Version.release e
  simp only [litV_release, List.cons.injEq] at this
  obtain ⟨rfl, rfl⟩ := this
  exact h

theorem pfv3_eval {E : Env} {X : Nat} {R : List Nat}
    (hX : E.get? "python_full_version" = some (Version.relText (X :: R))) {sop ops} (h : (sop, ops) ∈ pvOps)
    (a b c : Nat) :
    (Leaf.single (pfvLeafOf sop ops a [b, c])).validate E =
      .ok ((pvClause sop (litV a [b, c])).allowsPlain (litV X R)) := by
  have hpb : ∀ e ∈ [litV a [b, c]], PyBound e = true := by
    intro e he; simp only [List.mem_singleton] at he; subst he; exact pb [a, b, c]
  obtain ⟨hns, _, vs, hvs, hws, hms⟩ := pfv3_verLeaf (B := [litV a [b, c]]) h a b c (by simp)
  cases hvs
  exact verLeaf_eval (regB_of_pyBound _ hpb) (verEnv_final hpb X R hX) (by decide) hns rfl hws hms

theorem pfv3_merge {E : Env} {X : Nat} {R : List Nat}
    (hX : E.get? "python_full_version" = some (Version.relText (X :: R)))
    (l1 l2 : Leaf) (im : Bool) (r : M) (h1 : Pfv3Leaf l1) (h2 : Pfv3Leaf l2)
    (h : mergeLeaves l1 l2 im = .ok (some r)) :
    M.Good Pfv3Leaf r ∧
      M.sem (leafEval E) r = (if im then (leafEval E l1 && leafEval E l2) else (leafEval E l1 || leafEval E l2)) := by
  have h1' := h1
  have h2' := h2
  obtain ⟨s1, o1, a1, b1, c1, hm1, rfl⟩ := h1
  obtain ⟨s2, o2, a2, b2, c2, hm2, rfl⟩ := h2
  let B : List Version := [litV a1 [b1, c1], litV a2 [b2, c2]]
  have hpb : ∀ e ∈ B, PyBound e = true := by
    intro e he
    simp only [B, List.mem_cons, List.mem_nil_iff, or_false] at he
    rcases he with rfl | rfl
    · exact pb [a1, b1, c1]
    · exact pb [a2, b2, c2]
  have hlB : ∀ e ∈ B, ∃ a b c, e = litV a [b, c] := by
    intro e he
    simp only [B, List.mem_cons, List.mem_nil_iff, or_false] at he
    rcases he with rfl | rfl
    · exact ⟨_, _, _, rfl⟩
    · exact ⟨_, _, _, rfl⟩
  obtain ⟨_, hsem, hout⟩ := verLeaf_merge_text hpb (padR_of_mem3 hlB) hX 2 _ _ im r
    (pfv3_verLeaf (B := B) hm1 a1 b1 c1 (by simp [B])) (pfv3_verLeaf (B := B) hm2 a2 b2 c2 (by simp [B])) h
  refine ⟨?_, hsem⟩
  rcases hout with rfl | rfl | rfl | rfl | ⟨s, rfl, hs⟩
  · exact M.good_empty
  · exact M.good_any
  · exact (M.good_leaf _).2 h1'
  · exact (M.good_leaf _).2 h2'
  · exact (M.good_leaf _).2 hs

/-- **`LeafSpec` on same-name `python_full_version` leaves with three-component literals** (comparison
operators), in every environment whose `python_full_version` is a final release: no hypothesis left. -/
theorem leafSpec_pfv3 {E : Env} {X : Nat} {R : List Nat}
    (hX : E.get? "python_full_version" = some (Version.relText (X :: R))) : LeafSpec (leafEval E) Pfv3Leaf where
  congr := by
    intro a b ha hb h
    obtain ⟨s1, o1, a1, b1, c1, hm1, rfl⟩ := ha
    obtain ⟨s2, o2, a2, b2, c2, hm2, rfl⟩ := hb
    simp only [Leaf.beq, pfvLeafOf, Bool.and_eq_true, beq_iff_eq] at h
    obtain ⟨⟨⟨_, ho⟩, hv⟩, _⟩ := h
    have m1 := mkSingle_pfvLeaf hm1 a1 [b1, c1]
    have m2 := mkSingle_pfvLeaf hm2 a2 [b2, c2]
    rw [ho, hv, m2] at m1
    subst ho
    have := Except.ok.inj m1
    simp only [padR, List.length_cons, List.length_nil, List.replicate, List.append_nil, Nat.sub_self] at this
    rw [← this]
  merge := fun l1 l2 im r h1 h2 h => pfv3_merge hX l1 l2 im r h1 h2 h

theorem pfv3_evaluable {E : Env} {X : Nat} {R : List Nat}
    (hX : E.get? "python_full_version" = some (Version.relText (X :: R))) {l : Leaf} (h : Pfv3Leaf l) :
    ∃ b, l.validate E = .ok b := by
  obtain ⟨sop, ops, a, b, c, hm, rfl⟩ := h
  exact ⟨_, pfv3_eval hX hm a b c⟩

theorem pfv3_name {l : Leaf} (h : Pfv3Leaf l) : l.name = "python_full_version" := by
  obtain ⟨_, _, _, _, _, _, rfl⟩ := h; rfl

/-- the same-name branch of `_merge_single_markers` does not look at the depth of the pairing recursion -/
theorem mergeSingle_depth (d d' : Nat) (l1 l2 : Leaf) (im : Bool) (h : pyPair l1 l2 = false) :
    mergeSingle d l1 l2 im = mergeSingle d' l1 l2 im := by
  rw [mergeSingle.eq_def, mergeSingle.eq_def (depth := d')]
  simp only [pyPair] at h
  dsimp only
  rw [h]
  simp only [Bool.false_eq_true, if_false]

/-! ### assembling the python leaves: the two same-name fragments and the pairing -/

/-- the python_version/python_full_version pairing of `_merge_single_markers` is exact between two fragments
and lands in their disjunction -/
def PairSound (ev : Leaf → Bool) (G1 G2 : Leaf → Prop) : Prop :=
  ∀ (l1 l2 : Leaf) (im : Bool) (r : M), (G1 l1 ∧ G2 l2) ∨ (G2 l1 ∧ G1 l2) →
    mergeLeaves l1 l2 im = .ok (some r) →
    M.Good (fun l => G1 l ∨ G2 l) r ∧
      M.sem ev r = (if im then (ev l1 && ev l2) else (ev l1 || ev l2))

/-- two fragments on different variables whose cross merges are given by `PairSound` combine -/
theorem LeafSpec.pair {ev : Leaf → Bool} {G1 G2 : Leaf → Prop} (S1 : LeafSpec ev G1) (S2 : LeafSpec ev G2)
    (hd : ∀ a b, G1 a → G2 b → (a.name != b.name) = true) (HP : PairSound ev G1 G2) :
    LeafSpec ev (fun l => G1 l ∨ G2 l) where
  congr := by
    intro a b ha hb h
    have hn := Leaf.beq_name h
    rcases ha with ha | ha <;> rcases hb with hb | hb
    · exact S1.congr a b ha hb h
    · have := hd a b ha hb; simp [hn] at this
    · have := hd b a hb ha; simp [hn] at this
    · exact S2.congr a b ha hb h
  merge := by
    intro l1 l2 im r h1 h2 h
    rcases h1 with h1 | h1 <;> rcases h2 with h2 | h2
    · obtain ⟨g, e⟩ := S1.merge l1 l2 im r h1 h2 h
      exact ⟨M.good_mono (fun l hl => Or.inl hl) r g, e⟩
    · exact HP l1 l2 im r (Or.inl ⟨h1, h2⟩) h
    · exact HP l1 l2 im r (Or.inr ⟨h1, h2⟩) h
    · obtain ⟨g, e⟩ := S2.merge l1 l2 im r h1 h2 h
      exact ⟨M.good_mono (fun l hl => Or.inr hl) r g, e⟩

/-- the python leaves: `python_version <op> "X.Y"` and `python_full_version <op> "X.Y.Z"` -/
def PyLeaf (l : Leaf) : Prop := PvLeaf l ∨ Pfv3Leaf l

/-- the leaf facts on the python leaves, given the pairing -/
theorem leafSpec_py {E : Env} {X Y Z : Nat} (hE : EnvPy E X Y Z)
    (HP : PairSound (leafEval E) PvLeaf Pfv3Leaf) : LeafSpec (leafEval E) PyLeaf :=
  LeafSpec.pair (leafSpec_pv hE.1) (leafSpec_pfv3 hE.2)
    (fun a b ha hb => by rw [pvLeaf_name ha, pfv3_name hb]; decide) HP

theorem pyLeaf_evaluable {E : Env} {X Y Z : Nat} (hE : EnvPy E X Y Z) {l : Leaf} (h : PyLeaf l) :
    ∃ b, l.validate E = .ok b := by
  rcases h with h | h
  · exact pvLeaf_evaluable hE.1 h
  · exact pfv3_evaluable hE.2 h

/-- plain string variables, `extra`, and the python leaves -/
def FullLeaf (E : Env) (l : Leaf) : Prop := PlainLeaf E l ∨ PyLeaf l

theorem leafSpec_full {E : Env} {ex : List String} (hX : E.extras = some ex) {X Y Z : Nat} (hE : EnvPy E X Y Z)
    (HP : PairSound (leafEval E) PvLeaf Pfv3Leaf) : LeafSpec (leafEval E) (FullLeaf E) := by
  refine LeafSpec.or (leafSpec_plain hX) (leafSpec_py hE HP) ?_
  intro a b ha hb
  have hb' : b.name = "python_version" ∨ b.name = "python_full_version" := by
    rcases hb with hb | hb
    · exact Or.inl (pvLeaf_name hb)
    · exact Or.inr (pfv3_name hb)
  rcases plainLeaf_name ha with h | h
  · rcases hb' with hb' | hb' <;> (rw [pyPair, pyPair, h, hb']; decide)
  · simp only [plainStringVars, List.mem_cons, List.mem_nil_iff, or_false] at h
    rcases hb' with hb' | hb' <;>
      rcases h with h | h | h | h | h | h | h <;> (rw [pyPair, pyPair, h, hb']; decide)

theorem fullLeaf_evaluable {E : Env} {ex : List String} (hX : E.extras = some ex) {X Y Z : Nat}
    (hE : EnvPy E X Y Z) {l : Leaf} (h : FullLeaf E l) : ∃ b, l.validate E = .ok b := by
  rcases h with h | h
  · exact plainLeaf_evaluable hX h
  · exact pyLeaf_evaluable hE h

end Poetry.Marker
