/-
`VersionUnion.of` and `intersect` at one probe when members may be POINTS (`Version` members), outside `RegB`
(helper lemmas for C04/C05): the per-member invariant `RC.MSem` (a range member with the per-probe facts, or a
`Version` the probe is regular for), kept by the pairwise intersections (no `NoPoint` any more: two inclusive ends
on one key give a point, which is a member of the class) and by every step of the merge loop (`rcUnionSingle` on
point/point, point/range, range/point, range/range), with exactness at the probe whenever the operation returns.
-/
import PoetryVerif.Proofs.VRangeInterAt

set_option linter.unusedSimpArgs false
set_option linter.unusedVariables false

namespace Poetry
open Version

namespace VRange

/-- the per-probe facts of a range member, without the lists of inclusive ends -/
def PSem0 (r : VRange) (p : Version) : Prop :=
  r.WF ∧ r.Tidy ∧ r.NE ∧ (∀ e ∈ r.bounds, e.isLocal = false) ∧ r.LoOK' p ∧ r.HiOK p

theorem PSem0.lift {r : VRange} {p : Version} (h : r.PSem0 p) (L : List Version) (hL : ∀ e ∈ r.bounds, e ∈ L) :
    r.PSem L L p :=
  ⟨h.1, h.2.1, h.2.2.2.1, h.2.2.2.2.1, h.2.2.2.2.2,
    fun m hm _ => hL m (mem_bounds_min hm), fun M hM _ => hL M (mem_bounds_max hM)⟩

theorem PSem.drop {LoI HiI : List Version} {r : VRange} {p : Version} (h : r.PSem LoI HiI p) (hne : r.NE) :
    r.PSem0 p := ⟨h.1, h.2.1, hne, h.2.2.1, h.2.2.2.1, h.2.2.2.2.1⟩

theorem PSem0.okat {r : VRange} {p : Version} (h : r.PSem0 p) : r.OKat p :=
  ⟨fun m hm => (h.2.2.2.2.1 m hm).elim Or.inr (fun x => Or.inl x.1), h.2.2.2.2.2⟩

/-- making the lower end inclusive adds exactly the key of that end, at a probe regular for it -/
theorem widenLo_at (r : VRange) (m p : Version) (hp : p.wf = true) (hr : r.PSem0 p) (hm : r.min = some m)
    (hreg : Reg1 p m) :
    (⟨r.min, r.max, true, r.imax⟩ : VRange).PSem0 p ∧
      ((⟨r.min, r.max, true, r.imax⟩ : VRange).allows p = true ↔ (r.allows p = true ∨ vk p = vk m)) := by
  obtain ⟨hwf, htd, hne, hnl, hlo, hhi⟩ := hr
  have hps : (⟨r.min, r.max, true, r.imax⟩ : VRange).PSem0 p := by
    refine ⟨⟨fun e he => hwf.1 e he, fun a b ha hb => hwf.2 a b ha hb⟩, ⟨fun h => by simp [hm] at h, htd.2⟩,
      NE_imin_true hwf.2 hne, hnl, ?_, hhi⟩
    intro m' hm'
    have : m' = m := by simpa [hm] using hm'.symm
    subst this; exact Or.inl hreg
  refine ⟨hps, ?_⟩
  have okr : r.OKat p := PSem0.okat ⟨hwf, htd, hne, hnl, hlo, hhi⟩
  rw [allows_iff_den_at _ p hps.1.1 hp hps.okat, allows_iff_den_at r p hwf.1 hp okr]
  unfold den
  have eh : (⟨r.min, r.max, true, r.imax⟩ : VRange).denHi p ↔ r.denHi p :=
    denHi_congr (r := ⟨r.min, r.max, true, r.imax⟩) (s := r) rfl rfl (fun a b ha hb => hwf.2.ne a b ha hb)
      (fun a b ha hb => hwf.2.ne a b ha hb) p
  rw [eh]
  have el : (⟨r.min, r.max, true, r.imax⟩ : VRange).denLo p ↔ (r.denLo p ∨ vk p = vk m) := by
    simp only [denLo, hm, if_true]
    cases r.imin
    · simp only [Bool.false_eq_true, if_false]
      constructor
      · intro h; rcases lt_or_eq_of_le h with h | h
        · exact Or.inl h
        · exact Or.inr h.symm
      · rintro (h | h)
        · exact le_of_lt h
        · rw [h]
    · simp only [if_true]
      constructor
      · exact Or.inl
      · rintro (h | h)
        · exact h
        · rw [h]
  rw [el]
  constructor
  · rintro ⟨h1 | h1, h2⟩
    · exact Or.inl ⟨h1, h2⟩
    · exact Or.inr h1
  · rintro (⟨h1, h2⟩ | h)
    · exact ⟨Or.inl h1, h2⟩
    · refine ⟨Or.inr h, ?_⟩
      -- the end itself lies below the upper end
      unfold denHi
      have hne' := hne
      unfold NE isStrictlyLower allowedMin at hne'
      rw [hm] at hne'
      cases hA : r.allowedMax with
      | none => trivial
      | some A =>
        rw [hA] at hne'
        simp only at hne' ⊢
        rw [h]
        by_cases h1 : Version.lt A m = true
        · simp [h1] at hne'
        · by_cases h2 : Version.gt A m = true
          · have := (gt_iff A m).1 h2
            split
            · exact le_of_lt this
            · exact this
          · simp [h1, h2] at hne'
            have hle : vk m ≤ vk A := (lt_false_iff A m).1 (by simpa using h1)
            simp [hne'.1, hle]

/-- making the upper end inclusive adds exactly the key of that end, at a probe regular for it -/
theorem widenHi_at (r : VRange) (M p : Version) (hp : p.wf = true) (hr : r.PSem0 p) (hM : r.max = some M)
    (hreg : Reg1 p M) :
    (⟨r.min, r.max, r.imin, true⟩ : VRange).PSem0 p ∧
      ((⟨r.min, r.max, r.imin, true⟩ : VRange).allows p = true ↔ (r.allows p = true ∨ vk p = vk M)) := by
  obtain ⟨hwf, htd, hne, hnl, hlo, hhi⟩ := hr
  have hps : (⟨r.min, r.max, r.imin, true⟩ : VRange).PSem0 p := by
    refine ⟨⟨fun e he => hwf.1 e he, fun a b ha hb => hwf.2 a b ha hb⟩, ⟨htd.1, fun h => by simp [hM] at h⟩,
      NE_of_imax (r := ⟨r.min, r.max, r.imin, true⟩) (fun a b ha hb => hwf.2 a b ha hb) rfl, hnl, hlo, ?_⟩
    intro M' hM'
    have : M' = M := by simpa [hM] using hM'.symm
    subst this; exact Or.inr hreg
  refine ⟨hps, ?_⟩
  have okr : r.OKat p := PSem0.okat ⟨hwf, htd, hne, hnl, hlo, hhi⟩
  have regM : ∀ M', r.max = some M' → Reg1 p M' := by
    intro M' hM'
    have : M' = M := by simpa [hM] using hM'.symm
    subst this; exact hreg
  rw [allows_iff_den_at _ p hps.1.1 hp hps.okat, allows_iff_den_at r p hwf.1 hp okr]
  unfold den
  rw [denHi_iff_rawHi (⟨r.min, r.max, r.imin, true⟩ : VRange) p (fun M' h => regM M' h), denHi_iff_rawHi r p regM]
  have el : (⟨r.min, r.max, r.imin, true⟩ : VRange).denLo p ↔ r.denLo p := Iff.rfl
  rw [el]
  have eh : (⟨r.min, r.max, r.imin, true⟩ : VRange).rawHi p ↔ (r.rawHi p ∨ vk p = vk M) := by
    simp only [rawHi, hM, if_true]
    cases r.imax
    · simp only [Bool.false_eq_true, if_false]
      constructor
      · intro h; rcases lt_or_eq_of_le h with h | h
        · exact Or.inl h
        · exact Or.inr h
      · rintro (h | h)
        · exact le_of_lt h
        · rw [h]
    · simp only [if_true]
      constructor
      · exact Or.inl
      · rintro (h | h)
        · exact h
        · rw [h]
  rw [eh]
  constructor
  · rintro ⟨h1, h2 | h2⟩
    · exact Or.inl ⟨h1, h2⟩
    · exact Or.inr h2
  · rintro (⟨h1, h2⟩ | h)
    · exact ⟨h1, Or.inl h2⟩
    · refine ⟨?_, Or.inr h⟩
      unfold denLo
      cases hm : r.min with
      | none => trivial
      | some m =>
        have hlt : vk m < vk M := hwf.2 m M hm hM
        simp only
        rw [h]
        split
        · exact le_of_lt hlt
        · exact hlt

end VRange

/-- a member at the probe: a range member with the per-probe facts, or a `Version` the probe is regular for -/
def RC.MSem (c : RC) (p : Version) : Prop :=
  (∃ r, c = .rng r ∧ r.PSem0 p) ∨ (∃ x, c = .ver x ∧ x.wf = true ∧ Reg1 p x)

theorem RC.MSem.base {c : RC} {p : Version} (h : c.MSem p) : c.WF ∧ c.OKat p ∧ c.RngNoLocal := by
  rcases h with ⟨r, rfl, hr⟩ | ⟨x, rfl, hx, hr⟩
  · exact ⟨hr.1, hr.okat, hr.2.2.2.1⟩
  · exact ⟨hx, hr, trivial⟩

/-- two points, one admitting the other: they admit the same regular probes -/
theorem pt_pt_allows {a b p : Version} (ha : a.wf = true) (hb : b.wf = true) (hp : p.wf = true)
    (h : b.allows a = true) (hrb : Reg1 p b) (hra : Reg1 p a) (hap : a.allows p = true) : b.allows p = true := by
  have hk : vk p = vk a := (RC.ver_allows_iff a p ha hp hra).1 hap
  have hrk : relKey b = relKey a := Version.allows_relKey h
  rcases hrb with h1 | h1
  · exact Version.allows_of_vk_eq hb hp h1
  · exact absurd ((relKey_of_vk_eq hk).trans hrk.symm) h1

theorem pt_pt_allows' {a b p : Version} (ha : a.wf = true) (hb : b.wf = true) (hp : p.wf = true)
    (h : a.allows b = true) (hrb : Reg1 p b) (hra : Reg1 p a) (hbp : b.allows p = true) : a.allows p = true := by
  have hk : vk p = vk b := (RC.ver_allows_iff b p hb hp hrb).1 hbp
  have hrk : relKey a = relKey b := Version.allows_relKey h
  rcases hra with h1 | h1
  · exact Version.allows_of_vk_eq ha hp h1
  · exact absurd ((relKey_of_vk_eq hk).trans hrk.symm) h1

/-- a point inside a range: the range admits every regular probe the point admits -/
theorem pt_rng_allows {a p : Version} {r : VRange} (ha : a.wf = true) (hp : p.wf = true) (hr : r.PSem0 p)
    (hra : Reg1 p a) (h : r.allows a = true) (hap : a.allows p = true) : r.allows p = true := by
  have hk : vk p = vk a := (RC.ver_allows_iff a p ha hp hra).1 hap
  rw [VRange.allows_congr_at r hr.1.1 hp ha hr.okat hk]; exact h

/-- the two "widen" outcomes of a point against a range -/
theorem widen_lo_member {a m p : Version} {r : VRange} (ha : a.wf = true) (hp : p.wf = true) (hr : r.PSem0 p)
    (hra : Reg1 p a) (hm : r.min = some m) (hk : vk a = vk m) :
    (RC.rng ⟨r.min, r.max, true, r.imax⟩).MSem p ∧
      (⟨r.min, r.max, true, r.imax⟩ : VRange).allows p = (a.allows p || r.allows p) := by
  obtain ⟨h1, h2⟩ := VRange.widenLo_at r m p hp hr hm (reg1_vk_congr hra hk)
  refine ⟨Or.inl ⟨_, rfl, h1⟩, ?_⟩
  apply bool_eq_of_iff
  rw [h2, Bool.or_eq_true, RC.ver_allows_iff a p ha hp hra, hk]
  exact Or.comm

theorem widen_hi_member {a M p : Version} {r : VRange} (ha : a.wf = true) (hp : p.wf = true) (hr : r.PSem0 p)
    (hra : Reg1 p a) (hM : r.max = some M) (hk : vk a = vk M) :
    (RC.rng ⟨r.min, r.max, r.imin, true⟩).MSem p ∧
      (⟨r.min, r.max, r.imin, true⟩ : VRange).allows p = (a.allows p || r.allows p) := by
  obtain ⟨h1, h2⟩ := VRange.widenHi_at r M p hp hr hM (reg1_vk_congr hra hk)
  refine ⟨Or.inl ⟨_, rfl, h1⟩, ?_⟩
  apply bool_eq_of_iff
  rw [h2, Bool.or_eq_true, RC.ver_allows_iff a p ha hp hra, hk]
  exact Or.comm

/-- **one merge step of `VersionUnion.of` at the probe, point members included**: whatever single member
`rcUnionSingle` returns is of the class and admits the probe exactly when one of the two does -/
theorem rcUnionSingle_at (p : Version) (hp : p.wf = true) (x y u : RC) (hx : x.MSem p) (hy : y.MSem p)
    (h : rcUnionSingle x y = .ok (some u)) : u.MSem p ∧ u.allows p = (x.allows p || y.allows p) := by
  rcases hx with ⟨a, rfl, har⟩ | ⟨a, rfl, ha, hra⟩
  · rcases hy with ⟨b, rfl, hbr⟩ | ⟨v, rfl, hv, hrv⟩
    · -- range / range: the hull
      by_cases hcond : (!(VRange.edgesTouch a b) && (b.isStrictlyLower a || a.isStrictlyLower b)) = true
      · rw [VRange.rcUnionSingle_rng_none a b hcond] at h; simp at h
      · simp only [Bool.not_eq_true] at hcond
        rw [VRange.rcUnionSingle_rng_some a b hcond] at h
        simp only [Except.ok.injEq, Option.some.injEq] at h
        subst h
        obtain ⟨hups, hex⟩ := VRange.hull_at a b p hp (har.lift (a.bounds ++ b.bounds) (fun e he => by simp [he]))
          (hbr.lift (a.bounds ++ b.bounds) (fun e he => by simp [he])) hcond
        exact ⟨Or.inl ⟨_, rfl, hups.drop (VRange.hull_NE' a b har.1 hbr.1 har.2.2.1 hbr.2.2.1)⟩, hex⟩
    · -- range / point
      simp only [rcUnionSingle] at h
      by_cases h1 : a.allows v = true
      · simp only [h1, if_true, Except.ok.injEq, Option.some.injEq] at h
        subst h
        refine ⟨Or.inl ⟨_, rfl, har⟩, ?_⟩
        simp only [RC.allows]
        cases hvp : v.allows p
        · simp
        · simp [pt_rng_allows hv hp har hrv h1 hvp]
      · simp only [h1, Bool.false_eq_true, if_false] at h
        by_cases h2 : optVerEq (some v) a.min = true
        · simp only [h2, if_true, Except.ok.injEq, Option.some.injEq] at h
          subst h
          cases hm : a.min with
          | none => rw [hm] at h2; simp [optVerEq] at h2
          | some m =>
            have hk : vk v = vk m := (eqv_iff _ _).1 (by simpa [hm, optVerEq] using h2)
            obtain ⟨g1, g2⟩ := widen_lo_member hv hp har hrv hm hk
            rw [hm] at g1 g2
            refine ⟨g1, ?_⟩
            simp only [RC.allows]; rw [g2, Bool.or_comm]
        · simp only [h2, Bool.false_eq_true, if_false] at h
          by_cases h3 : optVerEq (some v) a.max = true
          · simp only [h3, if_true, Except.ok.injEq, Option.some.injEq] at h
            subst h
            cases hM : a.max with
            | none => rw [hM] at h3; simp [optVerEq] at h3
            | some M =>
              have hk : vk v = vk M := (eqv_iff _ _).1 (by simpa [hM, optVerEq] using h3)
              obtain ⟨g1, g2⟩ := widen_hi_member hv hp har hrv hM hk
              rw [hM] at g1 g2
              refine ⟨g1, ?_⟩
              simp only [RC.allows]; rw [g2, Bool.or_comm]
          · simp [h3] at h
  · rcases hy with ⟨b, rfl, hbr⟩ | ⟨v, rfl, hv, hrv⟩
    · -- point / range
      simp only [rcUnionSingle, RC.allows, RC.min, RC.max, RC.imin, RC.imax] at h
      by_cases h1 : b.allows a = true
      · simp only [h1, if_true, Except.ok.injEq, Option.some.injEq] at h
        subst h
        refine ⟨Or.inl ⟨_, rfl, hbr⟩, ?_⟩
        simp only [RC.allows]
        cases hap : a.allows p
        · simp
        · simp [pt_rng_allows ha hp hbr hra h1 hap]
      · simp only [h1, Bool.false_eq_true, if_false] at h
        cases hm : b.min with
        | none =>
          cases hM : b.max with
          | none => simp [hm, hM] at h
          | some M =>
            simp only [hm, hM] at h
            by_cases h3 : a.allows M = true
            · simp only [h3, if_true, Bool.false_eq_true, if_false, Except.ok.injEq, Option.some.injEq] at h
              subst h
              have hk : vk a = vk M := (eqv_iff _ _).1 (by
                rw [← Version.allows_eq_eqv (hbr.2.2.2.1 M (VRange.mem_bounds_max hM))]; exact h3)
              obtain ⟨g1, g2⟩ := widen_hi_member ha hp hbr hra hM hk
              rw [hm, hM] at g1 g2
              exact ⟨g1, by simp only [RC.allows]; exact g2⟩
            · simp [h3] at h
        | some m =>
          simp only [hm] at h
          by_cases h2 : a.allows m = true
          · simp only [h2, if_true, Except.ok.injEq, Option.some.injEq] at h
            subst h
            have hk : vk a = vk m := (eqv_iff _ _).1 (by
              rw [← Version.allows_eq_eqv (hbr.2.2.2.1 m (VRange.mem_bounds_min hm))]; exact h2)
            obtain ⟨g1, g2⟩ := widen_lo_member ha hp hbr hra hm hk
            rw [hm] at g1 g2
            exact ⟨g1, by simp only [RC.allows]; exact g2⟩
          · simp only [h2, Bool.false_eq_true, if_false] at h
            cases hM : b.max with
            | none => simp [hM] at h
            | some M =>
              simp only [hM] at h
              by_cases h3 : a.allows M = true
              · simp only [h3, if_true, Except.ok.injEq, Option.some.injEq] at h
                subst h
                have hk : vk a = vk M := (eqv_iff _ _).1 (by
                  rw [← Version.allows_eq_eqv (hbr.2.2.2.1 M (VRange.mem_bounds_max hM))]; exact h3)
                obtain ⟨g1, g2⟩ := widen_hi_member ha hp hbr hra hM hk
                rw [hm, hM] at g1 g2
                exact ⟨g1, by simp only [RC.allows]; exact g2⟩
              · simp [h3] at h
    · -- point / point
      simp only [rcUnionSingle, RC.allows, RC.min, RC.max] at h
      by_cases h1 : v.allows a = true
      · simp only [h1, if_true, Except.ok.injEq, Option.some.injEq] at h
        subst h
        refine ⟨Or.inr ⟨_, rfl, hv, hrv⟩, ?_⟩
        simp only [RC.allows]
        cases hap : a.allows p
        · simp
        · simp [pt_pt_allows ha hv hp h1 hrv hra hap]
      · simp only [h1, Bool.false_eq_true, if_false] at h
        by_cases h2 : a.allows v = true
        · simp only [h2, if_true, Except.ok.injEq, Option.some.injEq] at h
          subst h
          refine ⟨Or.inr ⟨_, rfl, ha, hra⟩, ?_⟩
          simp only [RC.allows]
          cases hvp : v.allows p
          · simp
          · simp [pt_pt_allows' ha hv hp h2 hrv hra hvp]
        · simp [h2] at h

/-- **the merge loop of `VersionUnion.of` at the probe, point members included**: whenever it returns, the merged
members are of the class and admit the probe exactly when an input does -/
theorem mergeLoop_atM (p : Version) (hp : p.wf = true) :
    ∀ (l acc res : List RC), mergeLoop l acc = .ok res →
    (∀ c ∈ l ++ acc, c.MSem p) → (∀ c ∈ res, c.MSem p) ∧ anyAllows res p = anyAllows (l ++ acc) p
  | [], acc, res, h, hg => by
    simp only [mergeLoop, Except.ok.injEq] at h
    subst h
    exact ⟨fun c hc => hg c (by simpa using hc), by simp [anyAllows, List.any_reverse]⟩
  | c :: rest, [], res, h, hg => by
    simp only [mergeLoop] at h
    have ih := mergeLoop_atM p hp rest [c] res h (fun x hx => hg x (by simp at hx ⊢; grind))
    refine ⟨ih.1, ?_⟩
    rw [ih.2]
    simp [anyAllows, List.any_append, Bool.or_comm]
  | c :: rest, last :: more, res, h, hg => by
    obtain ⟨any, hany⟩ := RC.allowsAny_ok last c
    simp only [mergeLoop, hany, bind, Except.bind] at h
    by_cases hb : (!any && !(last.view.isAdjacentTo c.view)) = true
    · simp only [hb, if_true] at h
      have ih := mergeLoop_atM p hp rest (c :: last :: more) res h (fun x hx => hg x (by simp at hx ⊢; grind))
      refine ⟨ih.1, ?_⟩
      rw [ih.2]
      simp only [anyAllows, List.any_append, List.any_cons]
      cases c.allows p <;> cases last.allows p <;> cases (rest.any fun c => c.allows p) <;> simp
    · simp only [hb, Bool.false_eq_true, if_false] at h
      cases hu : rcUnionSingle last c with
      | error e => simp [hu] at h
      | ok o =>
        cases o with
        | none => simp [hu] at h
        | some u =>
          simp only [hu] at h
          obtain ⟨hum, hex⟩ := rcUnionSingle_at p hp last c u (hg last (by simp)) (hg c (by simp)) hu
          have ih := mergeLoop_atM p hp rest (u :: more) res h (by
            intro x hx
            simp only [List.mem_append, List.mem_cons] at hx
            rcases hx with hx | rfl | hx
            · exact hg x (by simp [hx])
            · exact hum
            · exact hg x (by simp [hx]))
          refine ⟨ih.1, ?_⟩
          rw [ih.2]
          simp only [anyAllows, List.any_append, List.any_cons, hex]
          cases last.allows p <;> cases c.allows p <;> cases (rest.any fun c => c.allows p) <;> simp

theorem MSem_any (p : Version) : (RC.rng VRange.any).MSem p := by
  have hanyWF : VRange.any.WF :=
    ⟨by intro e he; simp [VRange.bounds, VRange.any] at he, by intro m M hm'; simp [VRange.any] at hm'⟩
  refine Or.inl ⟨_, rfl, hanyWF, ⟨fun _ => rfl, fun _ => rfl⟩, ?_, ?_, ?_, ?_⟩
  · show VRange.any.isStrictlyLower VRange.any = false
    simp [VRange.isStrictlyLower, VRange.any, VRange.allowedMax]
  · intro e he; simp [VRange.bounds, VRange.any] at he
  · intro m hm'; simp [VRange.any] at hm'
  · intro M hM; simp [VRange.any] at hM

/-- **`VersionUnion.of` at the probe, point members included**: whenever it returns, the members of the result are
of the class and the result admits the probe exactly when an input does -/
theorem unionOfFlat_atM (p : Version) (hp : p.wf = true) (l : List RC) (res : VC) (h : unionOfFlat l = .ok res)
    (hm : ∀ c ∈ l, c.MSem p) : (∀ c ∈ res.flatten, c.MSem p) ∧ res.allowsPlain p = anyAllows l p := by
  unfold unionOfFlat at h
  by_cases h1 : l.isEmpty = true
  · simp only [h1, if_true, Except.ok.injEq] at h
    subst h
    have : l = [] := by simpa using h1
    simp [this, VC.allowsPlain, VC.flatten, anyAllows]
  · by_cases h2 : l.any RC.isAny = true
    · simp only [h1, h2, Bool.false_eq_true, if_false, if_true, Except.ok.injEq] at h
      subst h
      refine ⟨?_, ?_⟩
      · intro c hc
        simp only [VC.any, VC.flatten, List.mem_singleton] at hc
        subst hc; exact MSem_any p
      · obtain ⟨c, hc, hca⟩ := List.any_eq_true.1 h2
        have : c.allows p = true := by
          cases c with
          | ver x => simp [RC.isAny] at hca
          | rng r =>
            simp only [RC.isAny, VRange.isAny, Bool.and_eq_true, Option.isNone_iff_eq_none] at hca
            simp [RC.allows, VRange.allows, VRange.allowsLo, VRange.allowsHi, hca.1, hca.2]
        have e : anyAllows l p = true := List.any_eq_true.2 ⟨c, hc, this⟩
        rw [e]
        simp [VC.any, VC.allowsPlain, VC.flatten, RC.allows, VRange.allows, VRange.allowsLo, VRange.allowsHi, VRange.any]
    · simp only [h1, h2, Bool.false_eq_true, if_false, bind, Except.bind] at h
      cases hmer : mergeLoop (sortRCs l) [] with
      | error e => simp [hmer] at h
      | ok merged =>
        simp only [hmer] at h
        obtain ⟨hps, hsem⟩ := mergeLoop_atM p hp (sortRCs l) [] merged hmer
          (fun c hc => hm c (by simpa [mem_sortRCs] using hc))
        have hsem' : anyAllows merged p = anyAllows l p := by
          rw [hsem, List.append_nil]
          exact anyAllows_eq_of_mem (fun c => mem_sortRCs c l) p
        have hflat : res.flatten = merged := by
          split at h <;> (simp only [pure, Except.pure, Except.ok.injEq] at h; subst h; simp [VC.flatten])
        refine ⟨fun c hc => hps c (hflat ▸ hc), ?_⟩
        rw [← hsem']
        simp [VC.allowsPlain, hflat, anyAllows]

/-- range ∩ range stays in the class: two inclusive ends on one key give a point the probe is regular for -/
theorem rng_intersect_msem (a b : VRange) (p : Version) (hp : p.wf = true) (ha : a.PSem0 p) (hb : b.PSem0 p)
    (c : VC) (h : RC.rngIntersectRng a b = .ok c) : ∀ x ∈ c.flatten, x.MSem p := by
  obtain ⟨c', h1, _, hmem, _, _⟩ := VRange.intersect_exact_at a b ha.1 hb.1 p hp ha.okat hb.okat
  rw [h] at h1; injection h1 with h1; subst h1
  have pick : ∀ L : VRange, L = a ∨ L = b → L.PSem0 p := by
    intro L hL; rcases hL with rfl | rfl <;> assumption
  rcases VRange.rngIntersectRng_shape a b _ h with he | ⟨L, H, hL, hH, hf⟩
  · rw [he]; simp [VC.flatten]
  · rcases VRange.interFinish_shape _ _ _ _ _ hf with ⟨_, _, hc⟩ | ⟨x, hmn, hov, hi, hj, hc⟩ | ⟨_, hc⟩
    · rw [hc]; intro z hz; simp [VC.flatten] at hz; subst hz; exact MSem_any p
    · rw [hc]; intro z hz; simp [VC.flatten] at hz; subst hz
      cases hM : H.max with
      | none => rw [hmn, hM] at hov; simp [optVerEq] at hov
      | some M =>
        rw [hmn, hM] at hov
        have hk : vk x = vk M := (eqv_iff _ _).1 (by simpa [optVerEq] using hov)
        have hRM : Reg1 p M := by
          rcases (pick H hH).2.2.2.2.2 M hM with h' | h'
          · rw [hj] at h'; cases h'
          · exact h'
        exact Or.inr ⟨x, rfl, (pick L hL).1.1 x (VRange.mem_bounds_min hmn), reg1_vk_congr hRM hk.symm⟩
    · have hrw := (hmem (.rng ⟨L.min, H.max, L.imin, H.imax⟩) (by rw [hc]; simp [VC.flatten])).1
      have htn := VRange.intersect_rng_Tidy_NE a b ha.1 hb.1 ha.2.1 hb.2.1 ha.2.2.1 hb.2.2.1 _ (hc ▸ h)
      rw [hc]; intro z hz; simp [VC.flatten] at hz; subst hz
      refine Or.inl ⟨_, rfl, hrw, htn.1, htn.2, ?_, ?_, ?_⟩
      · intro e he
        simp only [VRange.bounds, List.mem_append, Option.mem_toList] at he
        rcases he with he | he
        · exact (pick L hL).2.2.2.1 e (VRange.mem_bounds_min he)
        · exact (pick H hH).2.2.2.1 e (VRange.mem_bounds_max he)
      · intro m hm; exact (pick L hL).2.2.2.2.1 m hm
      · intro M hM; exact (pick H hH).2.2.2.2.2 M hM

/-- **the pairwise intersection of two members stays in the class** -/
theorem RC.intersect_atM (p : Version) (hp : p.wf = true) (o t : RC) (i : VC) (ho : o.MSem p) (ht : t.MSem p)
    (h : RC.intersect o t = .ok i) : ∀ x ∈ i.flatten, x.MSem p := by
  have rv : ∀ (r : VRange) (v : Version), r.PSem0 p → v.wf = true → Reg1 p v →
      ∀ x ∈ (RC.rngIntersectVer r v).flatten, x.MSem p := by
    intro r v hr hv hrv
    rcases (RC.rngIntersectVer_at r v p hr.1.1 hv hp hr.okat hrv
      (fun m hm => hr.2.2.2.1 m (VRange.mem_bounds_min hm))).2 with e | e
    · rw [e]; intro z hz; simp [VC.flatten] at hz; subst hz; exact Or.inr ⟨v, rfl, hv, hrv⟩
    · rw [e]; simp [VC.flatten]
  rcases ho with ⟨r, rfl, hr⟩ | ⟨a, rfl, ha, hra⟩
  · rcases ht with ⟨s, rfl, hs⟩ | ⟨v, rfl, hv, hrv⟩
    · exact rng_intersect_msem r s p hp hr hs i h
    · simp only [RC.intersect, Except.ok.injEq] at h; subst h
      exact rv r v hr hv hrv
  · rcases ht with ⟨s, rfl, hs⟩ | ⟨v, rfl, hv, hrv⟩
    · simp only [RC.intersect, Except.ok.injEq] at h; subst h
      exact rv s a hs ha hra
    · simp only [RC.intersect, Except.ok.injEq] at h; subst h
      unfold RC.verIntersectVer
      split
      · intro z hz; simp [VC.flatten] at hz; subst hz; exact Or.inr ⟨v, rfl, hv, hrv⟩
      · split
        · intro z hz; simp [VC.flatten] at hz; subst hz; exact Or.inr ⟨a, rfl, ha, hra⟩
        · simp [VC.flatten]

/-- **`intersect` of two constraints whose members may be points, at the probe, outside `RegB`**: for sorted
operands over members of the class, whenever `intersect` returns, the result's members are of the class and it
admits the probe exactly when both operands do — no `NoPoint` -/
theorem VC.intersect_atM (p : Version) (hp : p.wf = true) (a b c : VC)
    (hsa : SortedRC a.flatten) (hsb : SortedRC b.flatten)
    (ha : ∀ x ∈ a.flatten, x.MSem p) (hb : ∀ x ∈ b.flatten, x.MSem p) (h : VC.intersect a b = .ok c) :
    (∀ x ∈ c.flatten, x.MSem p) ∧ c.allowsPlain p = (a.allowsPlain p && b.allowsPlain p) := by
  have walk : ∀ (fuel : Nat) (ours theirs : List RC), ours.length + theirs.length < fuel →
      (∀ x ∈ ours, x.MSem p) → (∀ x ∈ theirs, x.MSem p) → SortedRC ours → SortedRC theirs →
      (do let parts ← VC.unionIntersectLoop fuel ours theirs []; VC.unionOf parts) = .ok c →
      (∀ x ∈ c.flatten, x.MSem p) ∧ c.allowsPlain p = (anyAllows ours p && anyAllows theirs p) := by
    intro fuel ours theirs hf ho ht hso hst hc
    obtain ⟨parts, hparts, hsem, _⟩ := unionIntersectLoop_at p hp fuel ours theirs [] hf
      (fun x hx => (ho x hx).base) (fun x hx => (ht x hx).base) hso hst
    have hQ := loop_parts_inv (fun x => x.MSem p) (fun x => x.MSem p) (fun q => ∀ x ∈ q.flatten, x.MSem p)
      (fun o t i h1 h2 h3 => RC.intersect_atM p hp o t i h1 h2 h3) fuel ours theirs [] parts hparts ho ht (by simp)
    simp only [hparts, bind, Except.bind, VC.unionOf] at hc
    obtain ⟨g1, g2⟩ := unionOfFlat_atM p hp _ c hc (by
      intro x hx
      obtain ⟨q, hq, hxq⟩ := List.mem_flatMap.1 hx
      exact hQ q hq x hxq)
    refine ⟨g1, ?_⟩
    rw [g2]
    apply bool_eq_of_iff
    rw [anyAllows_flatMap_parts, hsem, Bool.and_eq_true]
    simp [anyPart]
  cases a with
  | empty =>
    simp only [VC.intersect, Except.ok.injEq] at h; subst h
    simp [VC.allowsPlain, VC.flatten]
  | single x =>
    have hx := ha x (by simp [VC.flatten])
    cases b with
    | empty =>
      simp only [VC.intersect, Except.ok.injEq] at h; subst h
      simp [VC.allowsPlain, VC.flatten]
    | single y =>
      have hy := hb y (by simp [VC.flatten])
      have h' : RC.intersect x y = .ok c := h
      obtain ⟨c', e1, _, _, e4⟩ := RC.intersect_exact_at x y hx.base.1 hy.base.1 p hp hx.base.2.1 hy.base.2.1
        hx.base.2.2 hy.base.2.2
      rw [h'] at e1; injection e1 with e1; subst e1
      exact ⟨RC.intersect_atM p hp x y c hx hy h', by simpa [VC.allowsPlain, VC.flatten] using e4⟩
    | union rs =>
      rw [VC.intersect_single_union] at h
      obtain ⟨g1, g2⟩ := walk (rs.length + 2) rs [x] (by simp)
        (fun z hz => hb z (by simpa [VC.flatten] using hz)) (by intro z hz; simp at hz; subst hz; exact hx)
        (by simpa [VC.flatten] using hsb) (by simp [SortedRC]) (by simpa [VC.intersect, VC.flatten] using h)
      refine ⟨g1, ?_⟩
      rw [g2, Bool.and_comm]
      simp [VC.allowsPlain, VC.flatten, anyAllows]
  | union rs =>
    obtain ⟨g1, g2⟩ := walk (rs.length + b.flatten.length + 1) rs b.flatten (by omega)
      (fun z hz => ha z (by simpa [VC.flatten] using hz)) hb (by simpa [VC.flatten] using hsa) hsb
      (by simpa [VC.intersect] using h)
    refine ⟨g1, ?_⟩
    rw [g2]
    simp [VC.allowsPlain, VC.flatten, anyAllows]

end Poetry
