/-
Semantic bridge for version ranges (helper lemmas for C04, C05, C12, C15).

* `VRange.den`  — interval membership over the *effective* endpoints (`min`, `allowedMax`);
* `VRange.raw`  — interval membership over the written endpoints (`min`, `max`);
* `Regular B v` — the probe `v` is, for every bound `e ∈ B`, either equal to `e` or of a different
  release (PEP 440 leaves gaps around a bound's own pre/post/local variants);
* `allows_iff_den`, `den_iff_raw` for regular well-formed probes;
* the bound-comparison lemmas for `allowsLower`, `allowsHigher`, `isStrictlyLower`, `isAdjacentTo`.
-/
import PoetryVerif.Proofs.VRangeOrder

set_option linter.unusedSimpArgs false
set_option linter.unusedVariables false

namespace Poetry
open Version

/-- the probe is regular for the bounds `B` -/
def Regular (B : List Version) (v : Version) : Prop :=
  ∀ e ∈ B, Version.cmp v e = .eq ∨ relKey v ≠ relKey e

/-- regularity for one bound, in the vocabulary of the linear order -/
def Reg1 (v e : Version) : Prop := vk v = vk e ∨ relKey v ≠ relKey e

theorem Regular.reg1 {B : List Version} {v e : Version} (h : Regular B v) (he : e ∈ B) : Reg1 v e := by
  rcases h e he with h | h
  · exact Or.inl ((vk_eq_iff v e).2 h)
  · exact Or.inr h

theorem Regular.mono {B B' : List Version} {v : Version} (h : Regular B v) (hs : ∀ e ∈ B', e ∈ B) :
    Regular B' v := fun e he => h e (hs e he)

theorem Regular.append_left {B B' : List Version} {v : Version} (h : Regular (B ++ B') v) : Regular B v :=
  h.mono (fun e he => List.mem_append_left _ he)

theorem Regular.append_right {B B' : List Version} {v : Version} (h : Regular (B ++ B') v) : Regular B' v :=
  h.mono (fun e he => List.mem_append_right _ he)

theorem reg1_vk_congr {v e e' : Version} (h : Reg1 v e) (he : vk e = vk e') : Reg1 v e' := by
  rcases h with h | h
  · exact Or.inl (h.trans he)
  · exact Or.inr (fun x => h (x.trans (relKey_of_vk_eq he).symm))

namespace VRange

def bounds (r : VRange) : List Version := r.min.toList ++ r.max.toList

theorem mem_bounds_min {r : VRange} {m : Version} (h : r.min = some m) : m ∈ r.bounds := by
  simp [bounds, h]
theorem mem_bounds_max {r : VRange} {m : Version} (h : r.max = some m) : m ∈ r.bounds := by
  simp [bounds, h]

/-- all bounds are well-formed versions -/
def wfB (r : VRange) : Prop := ∀ e ∈ r.bounds, e.wf = true

/-! ### denotations -/

def denLo (r : VRange) (v : Version) : Prop :=
  match r.min with
  | none => True
  | some m => if r.imin then vk m ≤ vk v else vk m < vk v

/-- upper half over the effective endpoint `allowedMax` -/
def denHi (r : VRange) (v : Version) : Prop :=
  match r.allowedMax with
  | none => True
  | some M' => if r.imax then vk v ≤ vk M' else vk v < vk M'

/-- upper half over the written endpoint `max` -/
def rawHi (r : VRange) (v : Version) : Prop :=
  match r.max with
  | none => True
  | some M => if r.imax then vk v ≤ vk M else vk v < vk M

/-- plain interval membership over the effective endpoints -/
def den (r : VRange) (v : Version) : Prop := r.denLo v ∧ r.denHi v

/-- plain interval membership over the written endpoints -/
def raw (r : VRange) (v : Version) : Prop := r.denLo v ∧ r.rawHi v

/-! ### `allowedMax` -/

theorem allowedMax_none {r : VRange} (h : r.max = none) : r.allowedMax = none := by
  simp [allowedMax, h]

theorem allowedMax_cases {r : VRange} {M : Version} (h : r.max = some M) :
    r.allowedMax = some M ∨
    (r.allowedMax = some M.firstDevrelease ∧ r.imax = false ∧ M.isUnstable = false) := by
  unfold allowedMax
  rw [h]
  simp only
  by_cases h1 : (r.imax || M.isUnstable) = true
  · simp [h1]
  · by_cases h2 : (optVerEq r.min (some M) && (r.imin || r.imax)) = true
    · simp [h1, h2]
    · right
      simp only [h1, h2]
      simp at h1
      simp [h1.1, h1.2]

theorem allowedMax_isSome {r : VRange} : r.allowedMax.isSome = r.max.isSome := by
  cases h : r.max with
  | none => simp [allowedMax_none h]
  | some M =>
    rcases allowedMax_cases h with h' | h'
    · simp [h']
    · simp [h'.1]

/-- `allowedMax` depends on (`max`, `imax`) only, unless the range is the degenerate `[M, M)` -/
theorem allowedMax_eq_of_lt {r : VRange} {M : Version} (h : r.max = some M)
    (hlt : ∀ m, r.min = some m → vk m ≠ vk M) :
    r.allowedMax = some (if r.imax || M.isUnstable then M else M.firstDevrelease) := by
  unfold allowedMax
  rw [h]
  simp only
  by_cases h1 : (r.imax || M.isUnstable) = true
  · simp [h1]
  · have h2 : optVerEq r.min (some M) = false := by
      cases hm : r.min with
      | none => simp [optVerEq]
      | some m =>
        simp only [optVerEq]
        exact (eqv_false_iff m M).2 (hlt m hm)
    simp [h1, h2]

/-! ### bridge: the lower bound -/

theorem allowsLo_iff_denLo (r : VRange) (v : Version) (hv : v.wf = true)
    (hm : ∀ m, r.min = some m → m.wf = true ∧ Reg1 v m) :
    r.allowsLo v = true ↔ r.denLo v := by
  unfold allowsLo denLo
  cases hmin : r.min with
  | none => simp
  | some m =>
    obtain ⟨hmwf, hreg⟩ := hm m hmin
    simp only
    rcases hreg with heq | hne
    · -- the probe equals the bound
      have hp : v.isPostrelease = m.isPostrelease := isPost_of_vk_eq heq
      have hl : v.isLocal = m.isLocal := isLocal_of_vk_eq hv hmwf heq
      have e1 : (if (!r.imin && !m.isPostrelease && v.isPostrelease) = true then v.withoutPostrelease else v) = v := by
        rw [hp]; cases m.isPostrelease <;> simp
      rw [e1]
      have e2 : (if (!m.isLocal && v.isLocal) = true then v.withoutLocal else v) = v := by
        rw [hl]; cases m.isLocal <;> simp
      rw [e2]
      have h1 : Version.lt v m = false := by rw [lt_false_iff, heq]
      have h2 : Version.eqv v m = true := (eqv_iff v m).2 heq
      cases hi : r.imin <;> simp [h1, h2, heq]
    · -- a different release: the adjustments do not change the comparison
      generalize ho1 : (if (!r.imin && !m.isPostrelease && v.isPostrelease) = true then v.withoutPostrelease else v) = o1
      have hr1 : relKey o1 = relKey v := by rw [← ho1]; split <;> simp
      generalize ho2 : (if (!m.isLocal && o1.isLocal) = true then o1.withoutLocal else o1) = o2
      have hr2 : relKey o2 = relKey v := by rw [← ho2]; split <;> simp [hr1]
      have hne2 : relKey o2 ≠ relKey m := by rw [hr2]; exact hne
      have hlt : vk o2 < vk m ↔ vk v < vk m := lt_congr_left hr2 hne2
      have hneq : vk o2 ≠ vk m := vk_ne_of_relKey_ne hne2
      have hneq' : vk v ≠ vk m := vk_ne_of_relKey_ne hne
      have e1 : Version.eqv o2 m = false := (eqv_false_iff _ _).2 hneq
      by_cases hc : vk v < vk m
      · have : Version.lt o2 m = true := (lt_iff _ _).2 (hlt.2 hc)
        simp only [this, if_true]
        cases hi : r.imin <;> simp <;> grind
      · have : Version.lt o2 m = false := by
          rw [lt_false_iff]; exact not_lt.1 (fun h => hc (hlt.1 h))
        simp only [this, e1]
        cases hi : r.imin <;> simp <;> grind

/-! ### bridge: the upper bound -/

theorem relKey_allowedMax {r : VRange} {M M' : Version} (h : r.max = some M) (h' : r.allowedMax = some M') :
    relKey M' = relKey M := by
  rcases allowedMax_cases h with h1 | h1
  · rw [h1] at h'; cases h'; rfl
  · rw [h1.1] at h'; cases h'; simp

theorem allowsHi_iff_denHi (r : VRange) (v : Version) (hv : v.wf = true)
    (hM : ∀ M, r.max = some M → M.wf = true ∧ Reg1 v M) :
    r.allowsHi v = true ↔ r.denHi v := by
  unfold allowsHi denHi
  cases hmax : r.max with
  | none => simp [allowedMax_none hmax]
  | some M =>
    obtain ⟨hMwf, hreg⟩ := hM M hmax
    rcases hreg with heq | hne
    · -- the probe equals the bound
      have hl : v.isLocal = M.isLocal := isLocal_of_vk_eq hv hMwf heq
      rcases allowedMax_cases hmax with h1 | ⟨h1, himax, hst⟩
      · rw [h1]
        simp only
        have e2 : (if (!M.isLocal && v.isLocal) = true then v.withoutLocal else v) = v := by
          rw [hl]; cases M.isLocal <;> simp
        rw [e2]
        have g1 : Version.gt v M = false := by rw [gt_false_iff, heq]
        have g2 : Version.eqv v M = true := (eqv_iff v M).2 heq
        cases hi : r.imax <;> simp [g1, g2, heq]
      · rw [h1]
        simp only [isLocal_firstDev, Bool.not_false, Bool.true_and]
        have hpub : pubKey (if v.isLocal = true then v.withoutLocal else v) = pubKey M := by
          split
          · rw [pubKey_withoutLocal]; exact pubKey_of_vk_eq heq
          · exact pubKey_of_vk_eq heq
        have hlt := firstDev_lt_pub hst hpub
        have g1 : Version.gt (if v.isLocal = true then v.withoutLocal else v) M.firstDevrelease = true :=
          (gt_iff _ _).2 hlt
        have hlt2 : vk M.firstDevrelease < vk v := heq ▸ firstDev_lt hst
        simp [g1, himax]
        exact le_of_lt hlt2
    · -- a different release
      have hneq' : vk v ≠ vk M := vk_ne_of_relKey_ne hne
      cases hM' : r.allowedMax with
      | none => have := allowedMax_isSome (r := r); simp [hM', hmax] at this
      | some M' =>
        have hrk : relKey M' = relKey M := relKey_allowedMax hmax hM'
        simp only
        generalize ho : (if (!M'.isLocal && v.isLocal) = true then v.withoutLocal else v) = o
        have hr : relKey o = relKey v := by rw [← ho]; split <;> simp
        have hneM : relKey o ≠ relKey M := by rw [hr]; exact hne
        have hneM' : relKey o ≠ relKey M' := by rw [hr, hrk]; exact hne
        have hneV' : relKey v ≠ relKey M' := by rw [hrk]; exact hne
        have e1 : Version.eqv o M = false := (eqv_false_iff _ _).2 (vk_ne_of_relKey_ne hneM)
        have e2 : Version.eqv o M' = false := (eqv_false_iff _ _).2 (vk_ne_of_relKey_ne hneM')
        have hgt : vk M' < vk o ↔ vk M' < vk v := lt_congr_right hr hneM'
        have hneq2 : vk v ≠ vk M' := vk_ne_of_relKey_ne hneV'
        by_cases hc : vk M' < vk v
        · have : Version.gt o M' = true := (gt_iff _ _).2 (hgt.2 hc)
          simp only [this, if_true]
          cases hi : r.imax <;> simp <;> grind
        · have : Version.gt o M' = false := by
            rw [gt_false_iff]; exact not_lt.1 (fun h => hc (hgt.1 h))
          simp only [this, e1, e2]
          cases hi : r.imax <;> simp <;> grind

/-- **Semantic bridge.**  For a well-formed probe that is regular for the bounds of a range with
well-formed bounds, the real `allows` algorithm is plain interval membership. -/
theorem allows_iff_den (r : VRange) (v : Version) (hr : r.wfB) (hv : v.wf = true)
    (hreg : Regular r.bounds v) : r.allows v = true ↔ r.den v := by
  unfold allows den
  rw [Bool.and_eq_true,
    allowsLo_iff_denLo r v hv (fun m hm => ⟨hr m (mem_bounds_min hm), hreg.reg1 (mem_bounds_min hm)⟩),
    allowsHi_iff_denHi r v hv (fun m hm => ⟨hr m (mem_bounds_max hm), hreg.reg1 (mem_bounds_max hm)⟩)]

/-- on regular probes the effective and the written upper endpoint describe the same set -/
theorem denHi_iff_rawHi (r : VRange) (v : Version) (hM : ∀ M, r.max = some M → Reg1 v M) :
    r.denHi v ↔ r.rawHi v := by
  unfold denHi rawHi
  cases hmax : r.max with
  | none => simp [allowedMax_none hmax]
  | some M =>
    rcases allowedMax_cases hmax with h1 | ⟨h1, himax, hst⟩
    · rw [h1]
    · rw [h1]
      simp only [himax]
      have hlt := firstDev_lt hst
      rcases hM M hmax with heq | hne
      · rw [heq]
        have : ¬ vk M < vk M.firstDevrelease := not_lt.2 (le_of_lt hlt)
        simp [this]
      · exact (lt_congr_right (a := M.firstDevrelease) (a' := M) (b := v) (by simp)
          (by simpa using fun e => hne e.symm))

theorem den_iff_raw (r : VRange) (v : Version) (hreg : Regular r.bounds v) : r.den v ↔ r.raw v := by
  unfold den raw
  rw [denHi_iff_rawHi r v (fun M hM => hreg.reg1 (mem_bounds_max hM))]

theorem allows_iff_raw (r : VRange) (v : Version) (hr : r.wfB) (hv : v.wf = true)
    (hreg : Regular r.bounds v) : r.allows v = true ↔ r.raw v :=
  (allows_iff_den r v hr hv hreg).trans (den_iff_raw r v hreg)

/-! ### bound comparison -/

theorem allowsLower_true {a b : VRange} (h : a.allowsLower b = true) (v : Version) :
    b.denLo v → a.denLo v := by
  obtain ⟨amin, amax, aimin, aimax⟩ := a
  obtain ⟨bmin, bmax, bimin, bimax⟩ := b
  cases amin <;> cases bmin <;> cases aimin <;> cases bimin <;>
    simp [allowsLower, allowedMin, denLo, lt_iff, gt_iff] at * <;> grind

theorem allowsLower_false {a b : VRange} (h : a.allowsLower b = false) (v : Version) :
    a.denLo v → b.denLo v := by
  obtain ⟨amin, amax, aimin, aimax⟩ := a
  obtain ⟨bmin, bmax, bimin, bimax⟩ := b
  cases amin <;> cases bmin <;> cases aimin <;> cases bimin <;>
    simp [allowsLower, allowedMin, denLo, lt_iff, gt_iff] at * <;> grind

theorem allowsHigher_true {a b : VRange} (h : a.allowsHigher b = true) (v : Version) :
    b.denHi v → a.denHi v := by
  unfold allowsHigher at h; unfold denHi
  cases ha : a.allowedMax <;> cases hb : b.allowedMax <;> cases hia : a.imax <;> cases hib : b.imax <;>
    simp [ha, hb, hia, hib, lt_iff, gt_iff] at * <;> grind

theorem allowsHigher_false {a b : VRange} (h : a.allowsHigher b = false) (v : Version) :
    a.denHi v → b.denHi v := by
  unfold allowsHigher at h; unfold denHi
  cases ha : a.allowedMax <;> cases hb : b.allowedMax <;> cases hia : a.imax <;> cases hib : b.imax <;>
    simp [ha, hb, hia, hib, lt_iff, gt_iff] at * <;> grind

theorem strictlyLower_true {a b : VRange} (h : a.isStrictlyLower b = true) (v : Version) :
    ¬ (a.denHi v ∧ b.denLo v) := by
  unfold isStrictlyLower allowedMin at h; unfold denHi denLo
  cases ha : a.allowedMax <;> cases hb : b.min <;> cases hia : a.imax <;> cases hib : b.imin <;>
    simp [ha, hb, hia, hib, lt_iff, gt_iff] at * <;> grind

/-- when `a` is not strictly below `b`, `a`'s effective upper end reaches `b`'s lower end -/
theorem strictlyLower_false {a b : VRange} (h : a.isStrictlyLower b = false) :
    match a.allowedMax, b.min with
    | some x, some y => vk y < vk x ∨ (vk y = vk x ∧ a.imax = true ∧ b.imin = true)
    | _, _ => True := by
  unfold isStrictlyLower allowedMin at h
  cases ha : a.allowedMax <;> cases hb : b.min <;> cases hia : a.imax <;> cases hib : b.imin <;>
    simp [ha, hb, hia, hib, lt_iff, gt_iff] at * <;> grind

/-- adjacency: the written upper end of `a` is the lower end of `b` and exactly one side includes it -/
theorem isAdjacentTo_iff {a b : VRange} :
    a.isAdjacentTo b = true ↔
      ∃ x y, a.max = some x ∧ b.min = some y ∧ vk x = vk y ∧ (a.imax = !b.imin) ∨
      (a.max = none ∧ b.min = none ∧ (a.imax = !b.imin)) := by
  unfold isAdjacentTo
  cases ha : a.max <;> cases hb : b.min <;> cases hia : a.imax <;> cases hib : b.imin <;>
    simp [optVerEq, eqv_iff]

end VRange
end Poetry
