/-
C14: the metadata of a build is a function of the project description alone — the model has no state that one
build could leave for the next (the subject of the `history` stream of vp/c14.py).  Core Lean only.
-/
import PoetryVerif.Model.Meta

namespace Poetry.Meta
open Poetry

/-- everything `Factory.create_poetry` + `Metadata.from_package` + `get_metadata_content` read for one build -/
structure BuildInput where
  proj : ProjectT
  tool : ToolT
  spdx : List (String × License)
  readmeStored : Option String
  extras : List String
  requiresDist : List String
  readmeTexts : List String
  formatPython : String

/-- one build: configure the package, derive the `Metadata`, render it -/
def buildMetadata (i : BuildInput) : PyM String :=
  ((configure i.proj i.tool (fun raw => i.spdx.lookup raw) i.readmeStored i.extras i.requiresDist).toMeta
    i.readmeTexts i.formatPython).map render

/-- a session: builds done back to back in one process, each result recorded -/
def buildSession (inputs : List BuildInput) : List (PyM String) := inputs.map buildMetadata

def renderSession (ms : List Meta) : List String := ms.map render

/-- **`render` is history free**: in any session, the document rendered for a record is `render` of that record —
whatever was rendered before or after it, and however often. -/
theorem render_history_free (before after : List Meta) (m : Meta) :
    (renderSession (before ++ m :: after))[before.length]? = some (render m) := by
  simp [renderSession]

/-- the same record gives the same document in any two sessions, at any positions -/
theorem render_history_free_two (b₁ a₁ b₂ a₂ : List Meta) (m : Meta) :
    (renderSession (b₁ ++ m :: a₁))[b₁.length]? = (renderSession (b₂ ++ m :: a₂))[b₂.length]? := by
  rw [render_history_free, render_history_free]

/-- **the whole pipeline is history free**: the METADATA of a project description is the same whatever descriptions
(e.g. re-cased variants of one field) were built before it in the same session -/
theorem build_history_free (before after : List BuildInput) (i : BuildInput) :
    (buildSession (before ++ i :: after))[before.length]? = some (buildMetadata i) := by
  simp [buildSession]

theorem build_history_free_two (b₁ a₁ b₂ a₂ : List BuildInput) (i : BuildInput) :
    (buildSession (b₁ ++ i :: a₁))[b₁.length]? = (buildSession (b₂ ++ i :: a₂))[b₂.length]? := by
  rw [build_history_free, build_history_free]

end Poetry.Meta
