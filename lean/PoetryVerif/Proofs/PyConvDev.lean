/-
Wildcard Python ranges (`X.*`, `X.Y.*`, `!=X.Y.*`): their bounds are dev-releases (`3.8.dev0`), literals outside the
formalised PEP 508 reference; the conversion is therefore proved against poetry's own evaluation
(`parse_marker` + `validate`) — helper lemmas for C11.  This file: the version grammar and the constraint parser on
`X.Y.dev0`.
-/
import PoetryVerif.Proofs.PyConvRange
import PoetryVerif.Proofs.PyConvNorm

set_option linter.unusedSimpArgs false
set_option linter.unusedVariables false

namespace Poetry
open Version VParser

/-- the characters of `X.Y.dev0` -/
def devChars (lit : List Nat) : List Char := relChars lit ++ ['.', 'd', 'e', 'v', '0']

/-- the text of `X.Y.dev0` -/
def devText (lit : List Nat) : String := relText lit ++ ".dev0"

theorem devText_toList (lit : List Nat) : (devText lit).toList = devChars lit := by
  simp [devText, devChars, relText_toList]

/-- the first dev-release of a final release, as the version parser returns it for canonical text -/
def devV (lit : List Nat) : Version := ⟨0, lit, none, none, some ⟨.dev, 0⟩, none, devText lit⟩

theorem moreRelease_tail_dev (r : List Nat) (fuel : Nat) (hf : r.length < fuel) :
    moreRelease fuel (tailChars r ++ ['.', 'd', 'e', 'v', '0']) = (r, ['.', 'd', 'e', 'v', '0']) := by
  induction r generalizing fuel with
  | nil =>
    cases fuel with
    | zero => simp at hf
    | succ f => simp [moreRelease, tailChars, takeDigits, isDigit]
  | cons b r ih =>
    cases fuel with
    | zero => simp at hf
    | succ f =>
      simp only [tailChars, List.cons_append, List.append_assoc, moreRelease]
      have hnd : noDigitHead (tailChars r ++ ['.', 'd', 'e', 'v', '0']) = true := by
        cases r <;> simp [tailChars, noDigitHead, isDigit]
      rw [takeDigits_append (D b) _ (D_isDigit b) hnd]
      have hne : (D b).isEmpty = false := by
        cases h : D b with
        | nil => exact absurd h (D_ne_nil b)
        | cons _ _ => rfl
      simp only [hne, Bool.false_eq_true, if_false]
      rw [ih f (by simpa using hf)]
      simp [digitsToNat_D]

theorem parseBody_devChars (t : String) (a : Nat) (r : List Nat) :
    parseBody t (devChars (a :: r)) = some (⟨0, a :: r, none, none, some ⟨.dev, 0⟩, none, t⟩, []) := by
  obtain ⟨c, cs, hD, hc⟩ := D_head_notSpace a
  have hv : stripV (devChars (a :: r)) = devChars (a :: r) := by
    simp only [devChars, relChars, hD, List.cons_append, stripV]
    split
    · rename_i heq; simp at heq; rw [heq.1] at hc; exact absurd hc (by decide)
    · rfl
  have her : parseEpochRelease (devChars (a :: r)) = some (0, a :: r, ['.', 'd', 'e', 'v', '0']) := by
    have hnd : noDigitHead (tailChars r ++ ['.', 'd', 'e', 'v', '0']) = true := by
      cases r <;> simp [tailChars, noDigitHead, isDigit]
    have htd := takeDigits_append (D a) (tailChars r ++ ['.', 'd', 'e', 'v', '0']) (D_isDigit a) hnd
    have hne : (D a).isEmpty = false := by simp [hD]
    have e : devChars (a :: r) = D a ++ (tailChars r ++ ['.', 'd', 'e', 'v', '0']) := by simp [devChars, relChars]
    simp only [parseEpochRelease, e, htd, hne, Bool.false_eq_true, if_false]
    have hnb : ∀ cs', tailChars r ++ ['.', 'd', 'e', 'v', '0'] ≠ '!' :: cs' := by
      intro cs' h; cases r <;> simp [tailChars] at h
    have : (match tailChars r ++ ['.', 'd', 'e', 'v', '0'] with
        | '!' :: cs =>
          let (d, r') := takeDigits cs
          if d.isEmpty then ((0 : Nat), D a, tailChars r ++ ['.', 'd', 'e', 'v', '0']) else (digitsToNat (D a), d, r')
        | _ => (0, D a, tailChars r ++ ['.', 'd', 'e', 'v', '0'])) = (0, D a, tailChars r ++ ['.', 'd', 'e', 'v', '0']) := by
      split
      · rename_i cs' h; exact absurd h (hnb cs')
      · rfl
    simp only [this]
    rw [moreRelease_tail_dev r _ (by simp; have := length_tailChars r; omega)]
    simp [digitsToNat_D]
  unfold parseBody
  simp only [hv, her]
  have e1 : parsePre ['.', 'd', 'e', 'v', '0'] = (none, ['.', 'd', 'e', 'v', '0']) := by decide
  have e2 : parsePost ['.', 'd', 'e', 'v', '0'] = (none, ['.', 'd', 'e', 'v', '0']) := by decide
  have e3 : parseDev ['.', 'd', 'e', 'v', '0'] = (some ⟨.dev, 0⟩, []) := by decide
  have e4 : parseLocal [] = (none, []) := by decide
  simp [e1, e2, e3, e4]


theorem devChars_map_lower (lit : List Nat) : (devChars lit).map lowerChar = devChars lit := by
  simp only [devChars, List.map_append, map_lowerChar_plain _ (plain_relChars lit)]
  congr 1

theorem devChars_dropSpaces (a : Nat) (r : List Nat) : dropSpaces (devChars (a :: r)) = devChars (a :: r) := by
  obtain ⟨c, cs, hD, hc⟩ := D_head_notSpace a
  simp [devChars, relChars, hD, dropSpaces, isSpace_of_isDigit hc]

theorem ofList_devChars (lit : List Nat) : String.ofList (devChars lit) = devText lit := by
  rw [← devText_toList, String.ofList_toList]

theorem parse_devText (a : Nat) (r : List Nat) : Version.parse (devText (a :: r)) = .ok (devV (a :: r)) := by
  have hne : (devText (a :: r)).isEmpty = false := by
    have : (devText (a :: r)).toList ≠ [] := by rw [devText_toList]; simp [devChars]
    simpa [String.isEmpty_iff, ← String.toList_eq_nil_iff] using this
  unfold Version.parse
  simp only [devText_toList, devChars_map_lower, devChars_dropSpaces, parseBody_devChars]
  simp [dropSpaces, hne, devV]

theorem basicVersion_devChars (a : Nat) (r : List Nat) :
    basicVersion? (devChars (a :: r)) = some (devText (a :: r), false) := by
  unfold basicVersion?
  simp only [devChars_map_lower, parseBody_devChars]
  simp [atEnd, ofList_devChars]

theorem devText_ne_dev (a : Nat) (r : List Nat) : devText (a :: r) ≠ "dev" := by
  intro h
  have := congrArg String.toList h
  rw [devText_toList] at this
  obtain ⟨c, cs, hc, hd⟩ := relChars_head a r
  simp only [devChars, hc, List.cons_append] at this
  have h2 : "dev".toList = ['d', 'e', 'v'] := rfl
  rw [h2] at this
  have h1 : c = 'd' := (List.cons.inj this).1
  rw [h1] at hd; exact absurd hd (by decide)

section
variable (a : Nat) (r : List Nat) (m : Bool)

theorem parseSingle_ge_dev :
    parseSingle ('>' :: '=' :: devChars (a :: r)) m = .ok (.single (.rng ⟨some (devV (a :: r)), none, true, false⟩)) := by
  have hany : isAnyPattern ('>' :: '=' :: devChars (a :: r)) = false := by simp [isAnyPattern]
  simp [parseSingle, hany, x_none_gt, basicOp, devChars_dropSpaces, basicVersion_devChars, devText_ne_dev,
    parse_devText, parseVersionText, bind, Except.bind, pure, Except.pure]

theorem parseSingle_lt_dev :
    parseSingle ('<' :: devChars (a :: r)) m = .ok (.single (.rng ⟨none, some (devV (a :: r)), false, false⟩)) := by
  obtain ⟨c, cs, hc, hd⟩ := relChars_head a r
  have hne : c ≠ '=' := by intro e; subst e; exact absurd hd (by decide)
  have hne' : c ≠ '>' := by intro e; subst e; exact absurd hd (by decide)
  have hb := basicVersion_devChars a r
  have hds := devChars_dropSpaces a r
  have e : devChars (a :: r) = c :: (cs ++ ['.', 'd', 'e', 'v', '0']) := by simp [devChars, hc]
  rw [e] at hb hds ⊢
  have hany : isAnyPattern ('<' :: c :: (cs ++ ['.', 'd', 'e', 'v', '0'])) = false := by simp [isAnyPattern]
  simp [parseSingle, hany, x_none_lt, basicOp, hne, hne', hds, hb, devText_ne_dev,
    parse_devText, parseVersionText, bind, Except.bind, pure, Except.pure]

end

theorem noSep_devChars (lit : List Nat) : NoSep (devChars lit) := by
  refine noSep_append (noSep_rel lit) ?_
  intro c hc
  simp at hc
  rcases hc with rfl | rfl | rfl | rfl | rfl <;> decide

theorem pmvc_ge_dev (a : Nat) (r : List Nat) :
    parseMarkerVersionConstraint (">=" ++ devText (a :: r)) =
      .ok (.single (.rng ⟨some (devV (a :: r)), none, true, false⟩)) := by
  have hl : (">=" ++ devText (a :: r)).toList = '>' :: '=' :: devChars (a :: r) := by simp [devText_toList]
  rw [parseMarkerVersionConstraint, parseConstraintAux_single _ true
    (by rw [hl]; exact noSep_cons (sp (by simp)) (noSep_cons (sp (by simp)) (noSep_devChars _)))
    (by intro e; have := congrArg String.toList e; rw [hl] at this; simp at this), hl]
  exact parseSingle_ge_dev a r true

theorem pmvc_lt_dev (a : Nat) (r : List Nat) :
    parseMarkerVersionConstraint ("<" ++ devText (a :: r)) =
      .ok (.single (.rng ⟨none, some (devV (a :: r)), false, false⟩)) := by
  have hl : ("<" ++ devText (a :: r)).toList = '<' :: devChars (a :: r) := by simp [devText_toList]
  rw [parseMarkerVersionConstraint, parseConstraintAux_single _ true
    (by rw [hl]; exact noSep_cons (sp (by simp)) (noSep_devChars _))
    (by intro e; have := congrArg String.toList e; rw [hl] at this; simp at this), hl]
  exact parseSingle_lt_dev a r true

end Poetry
