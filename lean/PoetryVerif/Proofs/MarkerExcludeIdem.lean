/-
`exclude` on a conjunction of single-marker-likes, at the level of the member list (no simplifier involved):
the surviving members do not mention the removed variable, removing a variable that is not mentioned changes
nothing, removing twice is removing once, and removals of two variables commute (helper lemmas for C17).
-/
import PoetryVerif.Proofs.MarkerProj

set_option linter.unusedSimpArgs false
set_option linter.unusedVariables false

namespace Poetry.Marker

/-- no member is a single-marker-like on `x` -/
def noneNamed (x : String) : List M → Bool
  | [] => true
  | m :: ms => !isLeafNamed x m && noneNamed x ms

theorem excludeList_noneNamed (x : String) (ms : List M) (hl : allLeaves ms = true)
    (hn : noneNamed x ms = true) : M.excludeList x ms = .ok ms := by
  induction ms with
  | nil => simp [M.excludeList]
  | cons m rest ih =>
    cases m with
    | leaf l =>
      simp only [noneNamed, isLeafNamed, Bool.and_eq_true, Bool.not_eq_true'] at hn
      have hr := ih (by simpa [allLeaves] using hl) hn.2
      simp only [M.excludeList, isLeafNamed, hn.1, M.exclude, bind, Except.bind, hr, pure, Except.pure]
      simp
    | any => simp [allLeaves] at hl
    | empty => simp [allLeaves] at hl
    | multi _ => simp [allLeaves] at hl
    | union _ => simp [allLeaves] at hl

/-- what `excludeList` answers on single-marker-likes: the members not on `x`, in order -/
def dropNamed (x : String) : List M → List M
  | [] => []
  | m :: ms => if isLeafNamed x m then dropNamed x ms else m :: dropNamed x ms

theorem excludeList_eq_dropNamed (x : String) (ms : List M) (hl : allLeaves ms = true) :
    M.excludeList x ms = .ok (dropNamed x ms) := by
  induction ms with
  | nil => simp [M.excludeList, dropNamed]
  | cons m rest ih =>
    cases m with
    | leaf l =>
      have hr := ih (by simpa [allLeaves] using hl)
      by_cases hn : (l.name == x) = true
      · simp only [M.excludeList, isLeafNamed, hn, if_true, dropNamed]; exact hr
      · simp only [M.excludeList, isLeafNamed, hn, M.exclude, bind, Except.bind, hr, pure, Except.pure,
          dropNamed]
        simp
    | any => simp [allLeaves] at hl
    | empty => simp [allLeaves] at hl
    | multi _ => simp [allLeaves] at hl
    | union _ => simp [allLeaves] at hl

theorem dropNamed_allLeaves (x : String) (ms : List M) (hl : allLeaves ms = true) :
    allLeaves (dropNamed x ms) = true := by
  induction ms with
  | nil => rfl
  | cons m rest ih =>
    cases m with
    | leaf l =>
      have hr := ih (by simpa [allLeaves] using hl)
      by_cases hn : (l.name == x) = true
      · simpa [dropNamed, isLeafNamed, hn] using hr
      · simpa [dropNamed, isLeafNamed, hn, allLeaves] using hr
    | any => simp [allLeaves] at hl
    | empty => simp [allLeaves] at hl
    | multi _ => simp [allLeaves] at hl
    | union _ => simp [allLeaves] at hl

theorem dropNamed_noneNamed (x : String) (ms : List M) : noneNamed x (dropNamed x ms) = true := by
  induction ms with
  | nil => rfl
  | cons m rest ih =>
    by_cases hn : isLeafNamed x m = true
    · simpa [dropNamed, hn] using ih
    · simp [dropNamed, hn, noneNamed, ih]

theorem dropNamed_comm (x y : String) (ms : List M) :
    dropNamed x (dropNamed y ms) = dropNamed y (dropNamed x ms) := by
  induction ms with
  | nil => rfl
  | cons m rest ih =>
    by_cases hx : isLeafNamed x m = true <;> by_cases hy : isLeafNamed y m = true <;>
      simp [dropNamed, hx, hy, ih]

/-- a variable that no single-marker-like member is on is not among the variables of an all-leaves list -/
theorem noneNamed_not_mem_vars (x : String) (ms : List M) (hl : allLeaves ms = true)
    (hn : noneNamed x ms = true) : x ∉ M.varsList ms := by
  induction ms with
  | nil => simp [M.varsList]
  | cons m rest ih =>
    cases m with
    | leaf l =>
      simp only [noneNamed, isLeafNamed, Bool.and_eq_true, Bool.not_eq_true'] at hn
      have hr := ih (by simpa [allLeaves] using hl) hn.2
      have hne : ¬ x = l.name := by
        intro h; have : (l.name == x) = true := by simp [h]
        rw [hn.1] at this; exact Bool.noConfusion this
      simp [M.varsList, M.vars, hr, hne]
    | any => simp [allLeaves] at hl
    | empty => simp [allLeaves] at hl
    | multi _ => simp [allLeaves] at hl
    | union _ => simp [allLeaves] at hl

end Poetry.Marker
