/-
Soundness of the marker simplifier (the mutual block of Model/MarkerAlg.lean) for every fuel value and
every `detect_recursion` stack, relative to `LeafSpec ev G` (Proofs/MarkerSem.lean).
-/
import PoetryVerif.Proofs.MarkerSem

set_option linter.unusedSimpArgs false
set_option linter.unusedVariables false

namespace Poetry.Marker

variable {ev : Leaf → Bool} {G : Leaf → Prop}

theorem bind_ok {α β : Type} {x : PyM α} {f : α → PyM β} {r : β} :
    (x >>= f) = .ok r ↔ ∃ a, x = .ok a ∧ f a = .ok r := by
  cases x <;> simp [bind, Except.bind]

theorem pure_ok {α : Type} {a r : α} : (pure a : PyM α) = .ok r ↔ a = r := by
  simp [pure, Except.pure]

/-- result of one `for i, mark in enumerate(new_markers)` scan of `MultiMarker.of` -/
def TryAllOK (ev : Leaf → Bool) (G : Leaf → Prop) (all : List M) (marker : M) :
    Unit ⊕ Option (List M) → Prop
  | .inl () => (all.all (M.sem ev) && M.sem ev marker) = false
  | .inr (some l) => (∀ x ∈ l, M.Good G x) ∧ l.all (M.sem ev) = (all.all (M.sem ev) && M.sem ev marker)
  | .inr none => True

def TryAnyOK (ev : Leaf → Bool) (G : Leaf → Prop) (all : List M) (marker : M) :
    Unit ⊕ Option (List M) → Prop
  | .inl () => (all.any (M.sem ev) || M.sem ev marker) = true
  | .inr (some l) => (∀ x ∈ l, M.Good G x) ∧ l.any (M.sem ev) = (all.any (M.sem ev) || M.sem ev marker)
  | .inr none => True

def PassAllOK (ev : Leaf → Bool) (G : Leaf → Prop) (new todo : List M) : Option (List M) → Prop
  | none => (new.all (M.sem ev) && todo.all (M.sem ev)) = false
  | some l => (∀ x ∈ l, M.Good G x) ∧ l.all (M.sem ev) = (new.all (M.sem ev) && todo.all (M.sem ev))

def PassAnyOK (ev : Leaf → Bool) (G : Leaf → Prop) (new todo : List M) : Option (List M) → Prop
  | none => (new.any (M.sem ev) || todo.any (M.sem ev)) = true
  | some l => (∀ x ∈ l, M.Good G x) ∧ l.any (M.sem ev) = (new.any (M.sem ev) || todo.any (M.sem ev))

/-- the soundness statements of all functions of the mutual block at one fuel value -/
structure SoundAt (ev : Leaf → Bool) (G : Leaf → Prop) (n : Nat) : Prop where
  inter : ∀ stk a b r, M.Good G a → M.Good G b → mIntersect n stk a b = .ok r →
    M.Good G r ∧ M.sem ev r = (M.sem ev a && M.sem ev b)
  uni : ∀ stk a b r, M.Good G a → M.Good G b → mUnion n stk a b = .ok r →
    M.Good G r ∧ M.sem ev r = (M.sem ev a || M.sem ev b)
  interF : ∀ stk ms r, (∀ x ∈ ms, M.Good G x) → intersectionF n stk ms = .ok r →
    M.Good G r ∧ M.sem ev r = ms.all (M.sem ev)
  uniF : ∀ stk ms r, (∀ x ∈ ms, M.Good G x) → unionF n stk ms = .ok r →
    M.Good G r ∧ M.sem ev r = ms.any (M.sem ev)
  cnf : ∀ stk m r, M.Good G m → cnf n stk m = .ok r → M.Good G r ∧ M.sem ev r = M.sem ev m
  dnf : ∀ stk m r, M.Good G m → dnf n stk m = .ok r → M.Good G r ∧ M.sem ev r = M.sem ev m
  mOf : ∀ stk ms r, (∀ x ∈ ms, M.Good G x) → multiOf n stk ms = .ok r →
    M.Good G r ∧ M.sem ev r = ms.all (M.sem ev)
  mLoop : ∀ stk old new r, (∀ x ∈ new, M.Good G x) → multiOfLoop n stk old new = .ok r →
    M.Good G r ∧ M.sem ev r = new.all (M.sem ev)
  mPass : ∀ stk todo new r, (∀ x ∈ todo, M.Good G x) → (∀ x ∈ new, M.Good G x) →
    multiPass n stk todo new = .ok r → PassAllOK ev G new todo r
  mTry : ∀ stk marker pre remaining r, M.Good G marker → (∀ x ∈ pre ++ remaining, M.Good G x) →
    multiTry n stk marker (pre ++ remaining) pre.length remaining = .ok r →
    TryAllOK ev G (pre ++ remaining) marker r
  uOf : ∀ stk ms r, (∀ x ∈ ms, M.Good G x) → unionOf n stk ms = .ok r →
    M.Good G r ∧ M.sem ev r = ms.any (M.sem ev)
  uLoop : ∀ stk old new r, (∀ x ∈ new, M.Good G x) → unionOfLoop n stk old new = .ok r →
    M.Good G r ∧ M.sem ev r = new.any (M.sem ev)
  uPass : ∀ stk todo new r, (∀ x ∈ todo, M.Good G x) → (∀ x ∈ new, M.Good G x) →
    unionPass n stk todo new = .ok r → PassAnyOK ev G new todo r
  uTry : ∀ stk marker pre remaining r, M.Good G marker → (∀ x ∈ pre ++ remaining, M.Good G x) →
    unionTry n stk marker (pre ++ remaining) pre.length remaining = .ok r →
    TryAnyOK ev G (pre ++ remaining) marker r
  iSimp : ∀ stk ours other r, (∀ x ∈ ours, M.Good G x) → M.Good G other →
    intersectSimplify n stk ours other = .ok (some r) →
    M.Good G r ∧ M.sem ev r = (ours.any (M.sem ev) && M.sem ev other)
  uSimp : ∀ stk ours other r, (∀ x ∈ ours, M.Good G x) → M.Good G other →
    unionSimplify n stk ours other = .ok (some r) →
    M.Good G r ∧ M.sem ev r = (ours.all (M.sem ev) || M.sem ev other)

theorem tryAll_set {pre more : List M} {mark x marker : M}
    (hall : ∀ y ∈ pre ++ mark :: more, M.Good G y) (hx : M.Good G x)
    (hsem : M.sem ev x = (M.sem ev mark && M.sem ev marker)) :
    TryAllOK ev G (pre ++ mark :: more) marker
      (.inr (some (setAt (pre ++ mark :: more) pre.length x))) := by
  rw [setAt_spec]
  refine ⟨?_, ?_⟩
  · intro y hy
    simp at hy
    rcases hy with hy | rfl | hy
    · exact hall y (by simp [hy])
    · exact hx
    · exact hall y (by simp [hy])
  · simp only [List.all_append, List.all_cons, hsem]
    generalize pre.all (M.sem ev) = a
    generalize more.all (M.sem ev) = b
    generalize M.sem ev mark = c
    generalize M.sem ev marker = d
    cases a <;> cases b <;> cases c <;> cases d <;> rfl

theorem tryAll_rec {n : Nat} (ih : SoundAt ev G n) {stk : Stack} {pre more : List M} {mark marker : M}
    {r : Unit ⊕ Option (List M)} (hmk : M.Good G marker)
    (hall : ∀ y ∈ pre ++ mark :: more, M.Good G y)
    (h : multiTry n stk marker (pre ++ mark :: more) (pre.length + 1) more = .ok r) :
    TryAllOK ev G (pre ++ mark :: more) marker r := by
  have := ih.mTry stk marker (pre ++ [mark]) more r hmk (by simpa using hall) (by simpa using h)
  simpa using this

theorem tryAll_empty {pre more : List M} {mark marker : M}
    (hsem : (M.sem ev mark && M.sem ev marker) = false) :
    TryAllOK ev G (pre ++ mark :: more) marker (.inl ()) := by
  simp only [TryAllOK, List.all_append, List.all_cons]
  generalize pre.all (M.sem ev) = a at *
  generalize more.all (M.sem ev) = b at *
  generalize M.sem ev mark = c at *
  generalize M.sem ev marker = d at *
  cases a <;> cases b <;> cases c <;> cases d <;> simp at hsem ⊢

theorem multiTry_step (S : LeafSpec ev G) {n : Nat} (ih : SoundAt ev G n) :
    ∀ stk marker pre remaining r, M.Good G marker → (∀ x ∈ pre ++ remaining, M.Good G x) →
    multiTry (n + 1) stk marker (pre ++ remaining) pre.length remaining = .ok r →
    TryAllOK ev G (pre ++ remaining) marker r := by
  intro stk marker pre remaining r hmk hall h
  rw [multiTry.eq_def] at h
  simp only at h
  cases remaining with
  | nil => simp at h; subst h; trivial
  | cons mark more =>
    simp only at h
    have hmark : M.Good G mark := hall mark (by simp)
    -- the common tail once no simplification applied and `mark` is a leaf
    have leafTail : ∀ l, mark = .leaf l →
        (do
          let nm ← mIntersect n stk mark marker
          if nm.isEmpty = true then pure (Sum.inl ())
          else
            match nm with
            | M.leaf l => pure (Sum.inr (some (setAt (pre ++ mark :: more) pre.length nm)))
            | x => multiTry n stk marker (pre ++ mark :: more) (pre.length + 1) more) = Except.ok r →
        TryAllOK ev G (pre ++ mark :: more) marker r := by
      intro l hl h
      obtain ⟨nm, h1, h2⟩ := bind_ok.1 h
      have hs := ih.inter stk mark marker nm hmark hmk h1
      by_cases he : nm.isEmpty = true
      · simp only [he, if_true] at h2
        rw [pure_ok] at h2; subst h2
        apply tryAll_empty
        rw [← hs.2]; exact M.isEmpty_sem he
      · simp only [he] at h2
        cases nm with
        | leaf l' =>
          simp only [if_false, Bool.false_eq_true] at h2
          rw [pure_ok] at h2; subst h2
          exact tryAll_set hall hs.1 hs.2
        | _ => exact tryAll_rec ih hmk hall (by simpa using h2)
    split at h
    · rename_i x0 us
      obtain ⟨r0, h1, h2⟩ := bind_ok.1 h
      cases r0 with
      | some x =>
        have hs := ih.iSimp stk us marker x (by simpa using hmark) hmk h1
        simp [pure, Except.pure, bind, Except.bind] at h2; subst h2
        exact tryAll_set hall hs.1 (by rw [hs.2]; simp)
      | none =>
        simp [pure, Except.pure, bind, Except.bind] at h2
        exact tryAll_rec ih hmk hall h2
    · rename_i us _
      obtain ⟨r0, h1, h2⟩ := bind_ok.1 h
      cases r0 with
      | some x =>
        have hs := ih.iSimp stk us mark x (by simpa using hmk) hmark h1
        simp [pure, Except.pure, bind, Except.bind] at h2; subst h2
        exact tryAll_set hall hs.1 (by rw [hs.2]; simp [Bool.and_comm])
      | none =>
        simp [pure, Except.pure, bind, Except.bind] at h2
        exact tryAll_rec ih hmk hall h2
    · rw [pure_bind] at h
      simp only at h
      cases mark with
      | leaf l => exact leafTail l rfl h
      | _ => exact tryAll_rec ih hmk hall (by simpa using h)

theorem passAll_of {new new' rest : List M} {marker : M} {r : Option (List M)}
    (h : PassAllOK ev G new' rest r)
    (e : new'.all (M.sem ev) = (new.all (M.sem ev) && M.sem ev marker)) :
    PassAllOK ev G new (marker :: rest) r := by
  cases r with
  | none =>
    simp only [PassAllOK, List.all_cons] at h ⊢
    rw [e] at h; rw [← h]; simp [Bool.and_assoc]
  | some l =>
    refine ⟨h.1, ?_⟩
    rw [h.2, e]; simp [Bool.and_assoc]

theorem multiPass_step (S : LeafSpec ev G) {n : Nat} (ih : SoundAt ev G n) :
    ∀ stk todo new r, (∀ x ∈ todo, M.Good G x) → (∀ x ∈ new, M.Good G x) →
    multiPass (n + 1) stk todo new = .ok r → PassAllOK ev G new todo r := by
  intro stk todo new r ht hn h
  rw [multiPass.eq_def] at h
  simp only at h
  cases todo with
  | nil => simp at h; subst h; exact ⟨hn, by simp⟩
  | cons marker rest =>
    simp only at h
    have hmk := ht marker (by simp)
    have hrest : ∀ x ∈ rest, M.Good G x := fun x hx => ht x (by simp [hx])
    by_cases hmem : M.mem marker new = true
    · simp only [hmem, if_true] at h
      exact passAll_of (ih.mPass stk rest new r hrest hn h) (M.mem_all S hmk hn hmem).symm
    · simp only [hmem, if_false, Bool.false_eq_true] at h
      by_cases hany : marker.isAny = true
      · simp only [hany, if_true] at h
        exact passAll_of (ih.mPass stk rest new r hrest hn h) (by simp [M.isAny_sem hany])
      · simp only [hany, if_false, Bool.false_eq_true] at h
        obtain ⟨t, h1, h2⟩ := bind_ok.1 h
        have ht := ih.mTry stk marker [] new t hmk (by simpa using hn) (by simpa using h1)
        simp only [List.nil_append] at ht
        match t, ht, h2 with
        | .inl (), ht, h2 =>
          simp only [pure_ok] at h2; subst h2
          simp only [PassAllOK, TryAllOK, List.all_cons] at ht ⊢
          rw [← Bool.and_assoc, ht]; simp
        | .inr (some new'), ht, h2 =>
          simp only at h2
          have hf := flattenMulti_spec S new' ht.1
          exact passAll_of (ih.mPass stk rest _ r hrest hf.1 h2) (by rw [hf.2, ht.2])
        | .inr none, ht, h2 =>
          simp only at h2
          have hg : ∀ x ∈ new ++ [marker], M.Good G x := by
            intro x hx; simp at hx; rcases hx with hx | rfl
            · exact hn x hx
            · exact hmk
          exact passAll_of (ih.mPass stk rest _ r hrest hg h2) (by simp)

theorem multiOfLoop_step (S : LeafSpec ev G) {n : Nat} (ih : SoundAt ev G n) :
    ∀ stk old new r, (∀ x ∈ new, M.Good G x) → multiOfLoop (n + 1) stk old new = .ok r →
    M.Good G r ∧ M.sem ev r = new.all (M.sem ev) := by
  intro stk old new r hn h
  rw [multiOfLoop.eq_def] at h
  simp only at h
  by_cases hb : M.beqList old new = true
  · simp only [hb, if_true] at h
    by_cases he : new.any M.isEmpty = true
    · simp only [he, if_true] at h
      cases h
      refine ⟨by simp, ?_⟩
      simp only [List.any_eq_true] at he
      obtain ⟨x, hx, hxe⟩ := he
      simp only [M.sem_empty]
      symm
      simp only [List.all_eq_false]
      exact ⟨x, hx, by simp [M.isEmpty_sem hxe]⟩
    · simp only [he, if_false, Bool.false_eq_true] at h
      match new, hn, h with
      | [], _, h => cases h; simp
      | [x], hn, h => cases h; exact ⟨hn _ (by simp), by simp⟩
      | a :: b :: l, hn, h =>
        simp only at h; cases h
        exact mkMulti_spec S _ hn
  · simp only [hb, if_false, Bool.false_eq_true] at h
    obtain ⟨p, h1, h2⟩ := bind_ok.1 h
    have hp := ih.mPass stk new [] p hn (by simp) h1
    cases p with
    | none =>
      simp only [pure_ok] at h2; subst h2
      simp only [PassAllOK, List.all_nil, Bool.true_and] at hp
      simp [hp]
    | some new' =>
      simp only at h2
      have := ih.mLoop stk new new' r hp.1 h2
      refine ⟨this.1, ?_⟩
      rw [this.2, hp.2]; simp

theorem multiOf_step (S : LeafSpec ev G) {n : Nat} (ih : SoundAt ev G n) :
    ∀ stk ms r, (∀ x ∈ ms, M.Good G x) → multiOf (n + 1) stk ms = .ok r →
    M.Good G r ∧ M.sem ev r = ms.all (M.sem ev) := by
  intro stk ms r hm h
  rw [multiOf.eq_def] at h
  simp only at h
  have hf := flattenMulti_spec S ms hm
  have := ih.mLoop stk [] _ r hf.1 h
  exact ⟨this.1, by rw [this.2, hf.2]⟩

/-! ### the same for `MarkerUnion.of` -/

theorem tryAny_set {pre more : List M} {mark x marker : M}
    (hall : ∀ y ∈ pre ++ mark :: more, M.Good G y) (hx : M.Good G x)
    (hsem : M.sem ev x = (M.sem ev mark || M.sem ev marker)) :
    TryAnyOK ev G (pre ++ mark :: more) marker
      (.inr (some (setAt (pre ++ mark :: more) pre.length x))) := by
  rw [setAt_spec]
  refine ⟨?_, ?_⟩
  · intro y hy
    simp at hy
    rcases hy with hy | rfl | hy
    · exact hall y (by simp [hy])
    · exact hx
    · exact hall y (by simp [hy])
  · simp only [List.any_append, List.any_cons, hsem]
    generalize pre.any (M.sem ev) = a
    generalize more.any (M.sem ev) = b
    generalize M.sem ev mark = c
    generalize M.sem ev marker = d
    cases a <;> cases b <;> cases c <;> cases d <;> rfl

theorem tryAny_rec {n : Nat} (ih : SoundAt ev G n) {stk : Stack} {pre more : List M} {mark marker : M}
    {r : Unit ⊕ Option (List M)} (hmk : M.Good G marker)
    (hall : ∀ y ∈ pre ++ mark :: more, M.Good G y)
    (h : unionTry n stk marker (pre ++ mark :: more) (pre.length + 1) more = .ok r) :
    TryAnyOK ev G (pre ++ mark :: more) marker r := by
  have := ih.uTry stk marker (pre ++ [mark]) more r hmk (by simpa using hall) (by simpa using h)
  simpa using this

theorem tryAny_empty {pre more : List M} {mark marker : M}
    (hsem : (M.sem ev mark || M.sem ev marker) = true) :
    TryAnyOK ev G (pre ++ mark :: more) marker (.inl ()) := by
  simp only [TryAnyOK, List.any_append, List.any_cons]
  generalize pre.any (M.sem ev) = a at *
  generalize more.any (M.sem ev) = b at *
  generalize M.sem ev mark = c at *
  generalize M.sem ev marker = d at *
  cases a <;> cases b <;> cases c <;> cases d <;> simp at hsem ⊢

theorem unionTry_step (S : LeafSpec ev G) {n : Nat} (ih : SoundAt ev G n) :
    ∀ stk marker pre remaining r, M.Good G marker → (∀ x ∈ pre ++ remaining, M.Good G x) →
    unionTry (n + 1) stk marker (pre ++ remaining) pre.length remaining = .ok r →
    TryAnyOK ev G (pre ++ remaining) marker r := by
  intro stk marker pre remaining r hmk hall h
  rw [unionTry.eq_def] at h
  simp only at h
  cases remaining with
  | nil => simp at h; subst h; trivial
  | cons mark more =>
    simp only at h
    have hmark : M.Good G mark := hall mark (by simp)
    -- the common tail once no simplification applied and `mark` is a leaf
    have leafTail : ∀ l, mark = .leaf l →
        (do
          let nm ← mUnion n stk mark marker
          if nm.isAny = true then pure (Sum.inl ())
          else
            match nm with
            | M.leaf l => pure (Sum.inr (some (setAt (pre ++ mark :: more) pre.length nm)))
            | x => unionTry n stk marker (pre ++ mark :: more) (pre.length + 1) more) = Except.ok r →
        TryAnyOK ev G (pre ++ mark :: more) marker r := by
      intro l hl h
      obtain ⟨nm, h1, h2⟩ := bind_ok.1 h
      have hs := ih.uni stk mark marker nm hmark hmk h1
      by_cases he : nm.isAny = true
      · simp only [he, if_true] at h2
        rw [pure_ok] at h2; subst h2
        apply tryAny_empty
        rw [← hs.2]; exact M.isAny_sem he
      · simp only [he] at h2
        cases nm with
        | leaf l' =>
          simp only [if_false, Bool.false_eq_true] at h2
          rw [pure_ok] at h2; subst h2
          exact tryAny_set hall hs.1 hs.2
        | _ => exact tryAny_rec ih hmk hall (by simpa using h2)
    split at h
    · rename_i x0 us
      obtain ⟨r0, h1, h2⟩ := bind_ok.1 h
      cases r0 with
      | some x =>
        have hs := ih.uSimp stk us marker x (by simpa using hmark) hmk h1
        simp [pure, Except.pure, bind, Except.bind] at h2; subst h2
        exact tryAny_set hall hs.1 (by rw [hs.2]; simp)
      | none =>
        simp [pure, Except.pure, bind, Except.bind] at h2
        exact tryAny_rec ih hmk hall h2
    · rename_i us _
      obtain ⟨r0, h1, h2⟩ := bind_ok.1 h
      cases r0 with
      | some x =>
        have hs := ih.uSimp stk us mark x (by simpa using hmk) hmark h1
        simp [pure, Except.pure, bind, Except.bind] at h2; subst h2
        exact tryAny_set hall hs.1 (by rw [hs.2]; simp [Bool.or_comm])
      | none =>
        simp [pure, Except.pure, bind, Except.bind] at h2
        exact tryAny_rec ih hmk hall h2
    · rw [pure_bind] at h
      simp only at h
      cases mark with
      | leaf l => exact leafTail l rfl h
      | _ => exact tryAny_rec ih hmk hall (by simpa using h)

theorem passAny_of {new new' rest : List M} {marker : M} {r : Option (List M)}
    (h : PassAnyOK ev G new' rest r)
    (e : new'.any (M.sem ev) = (new.any (M.sem ev) || M.sem ev marker)) :
    PassAnyOK ev G new (marker :: rest) r := by
  cases r with
  | none =>
    simp only [PassAnyOK, List.any_cons] at h ⊢
    rw [e] at h; rw [← h]; simp [Bool.or_assoc]
  | some l =>
    refine ⟨h.1, ?_⟩
    rw [h.2, e]; simp [Bool.or_assoc]

theorem unionPass_step (S : LeafSpec ev G) {n : Nat} (ih : SoundAt ev G n) :
    ∀ stk todo new r, (∀ x ∈ todo, M.Good G x) → (∀ x ∈ new, M.Good G x) →
    unionPass (n + 1) stk todo new = .ok r → PassAnyOK ev G new todo r := by
  intro stk todo new r ht hn h
  rw [unionPass.eq_def] at h
  simp only at h
  cases todo with
  | nil => simp at h; subst h; exact ⟨hn, by simp⟩
  | cons marker rest =>
    simp only at h
    have hmk := ht marker (by simp)
    have hrest : ∀ x ∈ rest, M.Good G x := fun x hx => ht x (by simp [hx])
    by_cases hmem : M.mem marker new = true
    · simp only [hmem, if_true] at h
      exact passAny_of (ih.uPass stk rest new r hrest hn h) (M.mem_any S hmk hn hmem).symm
    · simp only [hmem, if_false, Bool.false_eq_true] at h
      by_cases hany : marker.isEmpty = true
      · simp only [hany, if_true] at h
        exact passAny_of (ih.uPass stk rest new r hrest hn h) (by simp [M.isEmpty_sem hany])
      · simp only [hany, if_false, Bool.false_eq_true] at h
        obtain ⟨t, h1, h2⟩ := bind_ok.1 h
        have ht := ih.uTry stk marker [] new t hmk (by simpa using hn) (by simpa using h1)
        simp only [List.nil_append] at ht
        match t, ht, h2 with
        | .inl (), ht, h2 =>
          simp only [pure_ok] at h2; subst h2
          simp only [PassAnyOK, TryAnyOK, List.any_cons] at ht ⊢
          rw [← Bool.or_assoc, ht]; simp
        | .inr (some new'), ht, h2 =>
          simp only at h2
          have hf := flattenUnion_spec S new' ht.1
          exact passAny_of (ih.uPass stk rest _ r hrest hf.1 h2) (by rw [hf.2, ht.2])
        | .inr none, ht, h2 =>
          simp only at h2
          have hg : ∀ x ∈ new ++ [marker], M.Good G x := by
            intro x hx; simp at hx; rcases hx with hx | rfl
            · exact hn x hx
            · exact hmk
          exact passAny_of (ih.uPass stk rest _ r hrest hg h2) (by simp)

theorem unionOfLoop_step (S : LeafSpec ev G) {n : Nat} (ih : SoundAt ev G n) :
    ∀ stk old new r, (∀ x ∈ new, M.Good G x) → unionOfLoop (n + 1) stk old new = .ok r →
    M.Good G r ∧ M.sem ev r = new.any (M.sem ev) := by
  intro stk old new r hn h
  rw [unionOfLoop.eq_def] at h
  simp only at h
  by_cases hb : M.beqList old new = true
  · simp only [hb, if_true] at h
    by_cases he : new.any M.isAny = true
    · simp only [he, if_true] at h
      cases h
      refine ⟨by simp, ?_⟩
      simp only [List.any_eq_true] at he
      obtain ⟨x, hx, hxe⟩ := he
      simp only [M.sem_any]
      symm
      simp only [List.any_eq_true]
      exact ⟨x, hx, M.isAny_sem hxe⟩
    · simp only [he, if_false, Bool.false_eq_true] at h
      match new, hn, h with
      | [], _, h => cases h; simp
      | [x], hn, h => cases h; exact ⟨hn _ (by simp), by simp⟩
      | a :: b :: l, hn, h =>
        simp only at h; cases h
        exact mkUnion_spec S _ hn
  · simp only [hb, if_false, Bool.false_eq_true] at h
    obtain ⟨p, h1, h2⟩ := bind_ok.1 h
    have hp := ih.uPass stk new [] p hn (by simp) h1
    cases p with
    | none =>
      simp only [pure_ok] at h2; subst h2
      simp only [PassAnyOK, List.any_nil, Bool.false_or] at hp
      simp [hp]
    | some new' =>
      simp only at h2
      have := ih.uLoop stk new new' r hp.1 h2
      refine ⟨this.1, ?_⟩
      rw [this.2, hp.2]; simp

theorem unionOf_step (S : LeafSpec ev G) {n : Nat} (ih : SoundAt ev G n) :
    ∀ stk ms r, (∀ x ∈ ms, M.Good G x) → unionOf (n + 1) stk ms = .ok r →
    M.Good G r ∧ M.sem ev r = ms.any (M.sem ev) := by
  intro stk ms r hm h
  rw [unionOf.eq_def] at h
  simp only at h
  have hf := flattenUnion_spec S ms hm
  have := ih.uLoop stk [] _ r hf.1 h
  exact ⟨this.1, by rw [this.2, hf.2]⟩

/-! ### `cnf` / `dnf` -/

theorem all_of_map_eq {l1 l2 : List M} {f : M → Bool} (h : l1.map f = l2.map f) : l1.all f = l2.all f := by
  have e : ∀ l : List M, l.all f = (l.map f).all id := by intro l; simp [List.all_map]
  rw [e l1, e l2, h]

theorem any_of_map_eq {l1 l2 : List M} {f : M → Bool} (h : l1.map f = l2.map f) : l1.any f = l2.any f := by
  have e : ∀ l : List M, l.any f = (l.map f).any id := by intro l; simp [List.any_map]
  rw [e l1, e l2, h]

theorem any_congr' {l : List M} {f g : M → Bool} (h : ∀ a ∈ l, f a = g a) : l.any f = l.any g := by
  induction l with
  | nil => rfl
  | cons a l ih => simp [h a (by simp), ih (fun b hb => h b (by simp [hb]))]

theorem all_congr' {l : List M} {f g : M → Bool} (h : ∀ a ∈ l, f a = g a) : l.all f = l.all g := by
  induction l with
  | nil => rfl
  | cons a l ih => simp [h a (by simp), ih (fun b hb => h b (by simp [hb]))]

theorem membersIfMulti_spec (c : M) (hg : M.Good G c) :
    (∀ x ∈ membersIfMulti c, M.Good G x) ∧ (membersIfMulti c).all (M.sem ev) = M.sem ev c := by
  cases c <;> simp [membersIfMulti] at hg ⊢ <;> exact hg

theorem membersIfUnion_spec (c : M) (hg : M.Good G c) :
    (∀ x ∈ membersIfUnion c, M.Good G x) ∧ (membersIfUnion c).any (M.sem ev) = M.sem ev c := by
  cases c <;> simp [membersIfUnion] at hg ⊢ <;> exact hg

theorem mapCnf_spec {n : Nat} {stk : Stack}
    (hc : ∀ m r, M.Good G m → cnf n stk m = .ok r → M.Good G r ∧ M.sem ev r = M.sem ev m) :
    ∀ ms rs, (∀ x ∈ ms, M.Good G x) → mapCnf n stk ms = .ok rs →
      (∀ x ∈ rs, M.Good G x) ∧ rs.map (M.sem ev) = ms.map (M.sem ev) := by
  intro ms
  induction ms with
  | nil => intro rs _ h; rw [mapCnf.eq_def] at h; cases h; simp
  | cons m ms ihl =>
    intro rs hg h
    rw [mapCnf.eq_def] at h
    simp only at h
    obtain ⟨x, h1, h⟩ := bind_ok.1 h
    obtain ⟨xs, h2, h3⟩ := bind_ok.1 h
    rw [pure_ok] at h3; subst h3
    have a := hc m x (hg m (by simp)) h1
    have b := ihl xs (fun y hy => hg y (by simp [hy])) h2
    refine ⟨?_, by simp [a.2, b.2]⟩
    intro y hy; simp at hy; rcases hy with rfl | hy
    · exact a.1
    · exact b.1 y hy

theorem mapDnf_spec {n : Nat} {stk : Stack}
    (hc : ∀ m r, M.Good G m → dnf n stk m = .ok r → M.Good G r ∧ M.sem ev r = M.sem ev m) :
    ∀ ms rs, (∀ x ∈ ms, M.Good G x) → mapDnf n stk ms = .ok rs →
      (∀ x ∈ rs, M.Good G x) ∧ rs.map (M.sem ev) = ms.map (M.sem ev) := by
  intro ms
  induction ms with
  | nil => intro rs _ h; rw [mapDnf.eq_def] at h; cases h; simp
  | cons m ms ihl =>
    intro rs hg h
    rw [mapDnf.eq_def] at h
    simp only at h
    obtain ⟨x, h1, h⟩ := bind_ok.1 h
    obtain ⟨xs, h2, h3⟩ := bind_ok.1 h
    rw [pure_ok] at h3; subst h3
    have a := hc m x (hg m (by simp)) h1
    have b := ihl xs (fun y hy => hg y (by simp [hy])) h2
    refine ⟨?_, by simp [a.2, b.2]⟩
    intro y hy; simp at hy; rcases hy with rfl | hy
    · exact a.1
    · exact b.1 y hy

theorem mapUnionOf_spec {n : Nat} {stk : Stack}
    (hu : ∀ c r, (∀ x ∈ c, M.Good G x) → unionOf n stk c = .ok r →
      M.Good G r ∧ M.sem ev r = c.any (M.sem ev)) :
    ∀ cs rs, (∀ c ∈ cs, ∀ x ∈ c, M.Good G x) → mapUnionOf n stk cs = .ok rs →
      (∀ x ∈ rs, M.Good G x) ∧ rs.map (M.sem ev) = cs.map (fun c => c.any (M.sem ev)) := by
  intro cs
  induction cs with
  | nil => intro rs _ h; rw [mapUnionOf.eq_def] at h; cases h; simp
  | cons c cs ihl =>
    intro rs hg h
    rw [mapUnionOf.eq_def] at h
    simp only at h
    obtain ⟨x, h1, h⟩ := bind_ok.1 h
    obtain ⟨xs, h2, h3⟩ := bind_ok.1 h
    rw [pure_ok] at h3; subst h3
    have a := hu c x (hg c (by simp)) h1
    have b := ihl xs (fun y hy => hg y (by simp [hy])) h2
    refine ⟨?_, by simp [a.2, b.2]⟩
    intro y hy; simp at hy; rcases hy with rfl | hy
    · exact a.1
    · exact b.1 y hy

theorem mapMultiOf_spec {n : Nat} {stk : Stack}
    (hu : ∀ c r, (∀ x ∈ c, M.Good G x) → multiOf n stk c = .ok r →
      M.Good G r ∧ M.sem ev r = c.all (M.sem ev)) :
    ∀ cs rs, (∀ c ∈ cs, ∀ x ∈ c, M.Good G x) → mapMultiOf n stk cs = .ok rs →
      (∀ x ∈ rs, M.Good G x) ∧ rs.map (M.sem ev) = cs.map (fun c => c.all (M.sem ev)) := by
  intro cs
  induction cs with
  | nil => intro rs _ h; rw [mapMultiOf.eq_def] at h; cases h; simp
  | cons c cs ihl =>
    intro rs hg h
    rw [mapMultiOf.eq_def] at h
    simp only at h
    obtain ⟨x, h1, h⟩ := bind_ok.1 h
    obtain ⟨xs, h2, h3⟩ := bind_ok.1 h
    rw [pure_ok] at h3; subst h3
    have a := hu c x (hg c (by simp)) h1
    have b := ihl xs (fun y hy => hg y (by simp [hy])) h2
    refine ⟨?_, by simp [a.2, b.2]⟩
    intro y hy; simp at hy; rcases hy with rfl | hy
    · exact a.1
    · exact b.1 y hy

theorem cnf_step (S : LeafSpec ev G) {n : Nat} (ih : SoundAt ev G n) :
    ∀ stk m r, M.Good G m → cnf (n + 1) stk m = .ok r → M.Good G r ∧ M.sem ev r = M.sem ev m := by
  intro stk m r hg h
  rw [cnf.eq_def] at h
  simp only at h
  cases m with
  | union ms =>
    simp only at h
    obtain ⟨cs, h1, h⟩ := bind_ok.1 h
    obtain ⟨unions, h2, h3⟩ := bind_ok.1 h
    have hcs := mapCnf_spec (ih.cnf stk) ms cs (by simpa using hg) h1
    have hprod : ∀ c ∈ product (cs.map membersIfMulti), ∀ x ∈ c, M.Good G x := by
      intro c hc x hx
      obtain ⟨l, hl, hxl⟩ := product_mem hc x hx
      simp only [List.mem_map] at hl
      obtain ⟨c0, hc0, rfl⟩ := hl
      exact (membersIfMulti_spec (ev := ev) c0 (hcs.1 c0 hc0)).1 x hxl
    have hun := mapUnionOf_spec (ih.uOf stk) _ unions hprod h2
    have hr := ih.mOf stk unions r hun.1 h3
    refine ⟨hr.1, ?_⟩
    rw [hr.2]
    have e1 : unions.all (M.sem ev) = (unions.map (M.sem ev)).all id := by simp [List.all_map]
    rw [e1, hun.2]
    simp only [List.all_map, Function.comp_def, id]
    rw [product_all_any]
    simp only [List.any_map, Function.comp_def, M.sem_union]
    rw [← any_of_map_eq hcs.2]
    apply any_congr'
    intro c hc
    exact (membersIfMulti_spec c (hcs.1 c hc)).2
  | multi ms =>
    simp only at h
    obtain ⟨cs, h1, h3⟩ := bind_ok.1 h
    have hcs := mapCnf_spec (ih.cnf stk) ms cs (by simpa using hg) h1
    have hr := ih.mOf stk cs r hcs.1 h3
    refine ⟨hr.1, ?_⟩
    rw [hr.2, all_of_map_eq hcs.2]; simp
  | any => simp at h; subst h; exact ⟨hg, rfl⟩
  | empty => simp at h; subst h; exact ⟨hg, rfl⟩
  | leaf l => simp at h; subst h; exact ⟨hg, rfl⟩

theorem dnf_step (S : LeafSpec ev G) {n : Nat} (ih : SoundAt ev G n) :
    ∀ stk m r, M.Good G m → dnf (n + 1) stk m = .ok r → M.Good G r ∧ M.sem ev r = M.sem ev m := by
  intro stk m r hg h
  rw [dnf.eq_def] at h
  simp only at h
  cases m with
  | multi ms =>
    simp only at h
    obtain ⟨cs, h1, h⟩ := bind_ok.1 h
    obtain ⟨multis, h2, h3⟩ := bind_ok.1 h
    have hcs := mapDnf_spec (ih.dnf stk) ms cs (by simpa using hg) h1
    have hprod : ∀ c ∈ product (cs.map membersIfUnion), ∀ x ∈ c, M.Good G x := by
      intro c hc x hx
      obtain ⟨l, hl, hxl⟩ := product_mem hc x hx
      simp only [List.mem_map] at hl
      obtain ⟨c0, hc0, rfl⟩ := hl
      exact (membersIfUnion_spec (ev := ev) c0 (hcs.1 c0 hc0)).1 x hxl
    have hun := mapMultiOf_spec (ih.mOf stk) _ multis hprod h2
    have hr := ih.uOf stk multis r hun.1 h3
    refine ⟨hr.1, ?_⟩
    rw [hr.2]
    have e1 : multis.any (M.sem ev) = (multis.map (M.sem ev)).any id := by simp [List.any_map]
    rw [e1, hun.2]
    simp only [List.any_map, Function.comp_def, id]
    rw [product_any_all]
    simp only [List.all_map, Function.comp_def, M.sem_multi]
    rw [← all_of_map_eq hcs.2]
    apply all_congr'
    intro c hc
    exact (membersIfUnion_spec c (hcs.1 c hc)).2
  | union ms =>
    simp only at h
    obtain ⟨cs, h1, h3⟩ := bind_ok.1 h
    have hcs := mapDnf_spec (ih.dnf stk) ms cs (by simpa using hg) h1
    have hr := ih.uOf stk cs r hcs.1 h3
    refine ⟨hr.1, ?_⟩
    rw [hr.2, any_of_map_eq hcs.2]; simp
  | any => simp at h; subst h; exact ⟨hg, rfl⟩
  | empty => simp at h; subst h; exact ⟨hg, rfl⟩
  | leaf l => simp at h; subst h; exact ⟨hg, rfl⟩

/-! ### `intersection()` / `union()` -/

theorem filter_notAny_all (ms : List M) :
    (ms.filter (fun m => !m.isAny)).all (M.sem ev) = ms.all (M.sem ev) := by
  induction ms with
  | nil => rfl
  | cons m ms ih =>
    by_cases h : m.isAny = true
    · simp [List.filter, h, ih, M.isAny_sem h]
    · simp [List.filter, h, ih]

theorem filter_notEmpty_any (ms : List M) :
    (ms.filter (fun m => !m.isEmpty)).any (M.sem ev) = ms.any (M.sem ev) := by
  induction ms with
  | nil => rfl
  | cons m ms ih =>
    by_cases h : m.isEmpty = true
    · simp [List.filter, h, ih, M.isEmpty_sem h]
    · simp [List.filter, h, ih]

theorem min_pick {cs : List M} {r : M} {P : M → Prop}
    (h : (match minByComplexity cs with
          | some r => (Except.ok r : PyM M)
          | none => Except.error PyErr.runtime) = .ok r)
    (hP : ∀ c ∈ cs, P c) : P r := by
  cases hm : minByComplexity cs with
  | none => simp [hm] at h
  | some x =>
    simp [hm] at h; subst h
    exact hP x (minByComplexity_mem hm)

theorem intersectionF_step (S : LeafSpec ev G) {n : Nat} (ih : SoundAt ev G n) :
    ∀ stk ms r, (∀ x ∈ ms, M.Good G x) → intersectionF (n + 1) stk ms = .ok r →
    M.Good G r ∧ M.sem ev r = ms.all (M.sem ev) := by
  intro stk ms r hm h
  rw [intersectionF.eq_def] at h
  simp only at h
  by_cases hs : Stack.has stk false ms = true
  · simp [hs] at h
  · simp only [hs, if_false, Bool.false_eq_true] at h
    have hfil : ∀ x ∈ ms.filter (fun m => !m.isAny), M.Good G x :=
      fun x hx => hm x (List.mem_filter.1 hx).1
    have hmk := mkMulti_spec (ev := ev) S _ hfil
    have hun := unwrapSingleton_spec (ev := ev) (ms.length + 2) _ hmk.1
    have hunsem := hun.2
    rw [hmk.2, filter_notAny_all] at hunsem
    have hung := hun.1
    generalize unwrapSingleton (ms.length + 2) (mkMulti (ms.filter (fun m => !m.isAny))) = U at h hung hunsem
    cases hd : dnf n ((false, ms) :: stk) U with
    | error e => simp [hd] at h
    | ok d =>
      simp only [hd] at h
      have hds := ih.dnf _ U d hung hd
      have hdP : M.Good G d ∧ M.sem ev d = ms.all (M.sem ev) := ⟨hds.1, by rw [hds.2, hunsem]⟩
      have hUP : M.Good G U ∧ M.sem ev U = ms.all (M.sem ev) := ⟨hung, hunsem⟩
      split at h
      · rename_i us
        cases hc : cnf n ((false, ms) :: stk) (M.union us) with
        | error e =>
          simp only [hc] at h
          cases e <;> simp only at h <;> first
            | exact min_pick (cs := [_, _]) (P := fun r => M.Good G r ∧ M.sem ev r = ms.all (M.sem ev)) h
                (by intro c hc'; simp only [List.mem_cons, List.not_mem_nil, or_false] at hc'
                    rcases hc' with rfl | rfl <;> assumption)
            | cases h
        | ok c =>
          simp only [hc] at h
          have hcs := ih.cnf _ _ c hdP.1 hc
          have hcP : M.Good G c ∧ M.sem ev c = ms.all (M.sem ev) := ⟨hcs.1, by rw [hcs.2, hdP.2]⟩
          split at h
          · exact min_pick (cs := [_, _, _]) (P := fun r => M.Good G r ∧ M.sem ev r = ms.all (M.sem ev)) h
              (by intro c' hc'; simp only [List.mem_cons, List.not_mem_nil, or_false] at hc'
                  rcases hc' with rfl | rfl | rfl <;> assumption)
          · cases h; exact hcP
      · cases h; exact hdP

theorem unionF_step (S : LeafSpec ev G) {n : Nat} (ih : SoundAt ev G n) :
    ∀ stk ms r, (∀ x ∈ ms, M.Good G x) → unionF (n + 1) stk ms = .ok r →
    M.Good G r ∧ M.sem ev r = ms.any (M.sem ev) := by
  intro stk ms r hm h
  rw [unionF.eq_def] at h
  simp only at h
  by_cases hs : Stack.has stk true ms = true
  · simp [hs] at h
  · simp only [hs, if_false, Bool.false_eq_true] at h
    have hfil : ∀ x ∈ ms.filter (fun m => !m.isEmpty), M.Good G x :=
      fun x hx => hm x (List.mem_filter.1 hx).1
    have hmk := mkUnion_spec (ev := ev) S _ hfil
    have hun := unwrapSingleton_spec (ev := ev) (ms.length + 2) _ hmk.1
    have hunsem := hun.2
    rw [hmk.2, filter_notEmpty_any] at hunsem
    have hung := hun.1
    generalize unwrapSingleton (ms.length + 2) (mkUnion (ms.filter (fun m => !m.isEmpty))) = U at h hung hunsem
    cases hd : cnf n ((true, ms) :: stk) U with
    | error e => simp [hd] at h
    | ok d =>
      simp only [hd] at h
      have hds := ih.cnf _ U d hung hd
      have hdP : M.Good G d ∧ M.sem ev d = ms.any (M.sem ev) := ⟨hds.1, by rw [hds.2, hunsem]⟩
      have hUP : M.Good G U ∧ M.sem ev U = ms.any (M.sem ev) := ⟨hung, hunsem⟩
      split at h
      · rename_i us
        cases hc : dnf n ((true, ms) :: stk) (M.multi us) with
        | error e =>
          simp only [hc] at h
          cases e <;> simp only at h <;> first
            | exact min_pick (cs := [_, _]) (P := fun r => M.Good G r ∧ M.sem ev r = ms.any (M.sem ev)) h
                (by intro c hc'; simp only [List.mem_cons, List.not_mem_nil, or_false] at hc'
                    rcases hc' with rfl | rfl <;> assumption)
            | cases h
        | ok c =>
          simp only [hc] at h
          have hcs := ih.dnf _ _ c hdP.1 hc
          have hcP : M.Good G c ∧ M.sem ev c = ms.any (M.sem ev) := ⟨hcs.1, by rw [hcs.2, hdP.2]⟩
          split at h
          · exact min_pick (cs := [_, _, _]) (P := fun r => M.Good G r ∧ M.sem ev r = ms.any (M.sem ev)) h
              (by intro c' hc'; simp only [List.mem_cons, List.not_mem_nil, or_false] at hc'
                  rcases hc' with rfl | rfl | rfl <;> assumption)
          · cases h; exact hcP
      · cases h; exact hdP

/-! ### method dispatch -/

theorem mIntersect_step (S : LeafSpec ev G) {n : Nat} (ih : SoundAt ev G n) :
    ∀ stk a b r, M.Good G a → M.Good G b → mIntersect (n + 1) stk a b = .ok r →
    M.Good G r ∧ M.sem ev r = (M.sem ev a && M.sem ev b) := by
  intro stk a b r ha hb h
  rw [mIntersect.eq_def] at h
  simp only at h
  cases a with
  | any => cases h; exact ⟨hb, by simp⟩
  | empty => cases h; simp
  | leaf la =>
    cases b with
    | leaf lb =>
      simp only at h
      obtain ⟨o, h1, h2⟩ := bind_ok.1 h
      cases o with
      | some x =>
        rw [pure_ok] at h2; subst h2
        have := S.merge la lb true x (by simpa using ha) (by simpa using hb) h1
        simpa using this
      | none =>
        rw [pure_ok] at h2; subst h2
        have := mkMulti_spec (ev := ev) S [.leaf la, .leaf lb]
          (by intro x hx; simp at hx; rcases hx with rfl | rfl <;> assumption)
        simpa using this
    | any => have := ih.inter stk _ _ r hb ha h; exact ⟨this.1, by rw [this.2, Bool.and_comm]⟩
    | empty => have := ih.inter stk _ _ r hb ha h; exact ⟨this.1, by rw [this.2, Bool.and_comm]⟩
    | multi _ => have := ih.inter stk _ _ r hb ha h; exact ⟨this.1, by rw [this.2, Bool.and_comm]⟩
    | union _ => have := ih.inter stk _ _ r hb ha h; exact ⟨this.1, by rw [this.2, Bool.and_comm]⟩
  | multi ms =>
    have := ih.interF stk [.multi ms, b] r
      (by intro x hx; simp at hx; rcases hx with rfl | rfl <;> assumption) h
    simpa using this
  | union ms =>
    have := ih.interF stk [.union ms, b] r
      (by intro x hx; simp at hx; rcases hx with rfl | rfl <;> assumption) h
    simpa using this

theorem mUnion_step (S : LeafSpec ev G) {n : Nat} (ih : SoundAt ev G n) :
    ∀ stk a b r, M.Good G a → M.Good G b → mUnion (n + 1) stk a b = .ok r →
    M.Good G r ∧ M.sem ev r = (M.sem ev a || M.sem ev b) := by
  intro stk a b r ha hb h
  rw [mUnion.eq_def] at h
  simp only at h
  cases a with
  | any => cases h; simp
  | empty => cases h; exact ⟨hb, by simp⟩
  | leaf la =>
    cases b with
    | leaf lb =>
      simp only at h
      obtain ⟨o, h1, h2⟩ := bind_ok.1 h
      cases o with
      | some x =>
        rw [pure_ok] at h2; subst h2
        have := S.merge la lb false x (by simpa using ha) (by simpa using hb) h1
        simpa using this
      | none =>
        rw [pure_ok] at h2; subst h2
        have := mkUnion_spec (ev := ev) S [.leaf la, .leaf lb]
          (by intro x hx; simp at hx; rcases hx with rfl | rfl <;> assumption)
        simpa using this
    | any => have := ih.uni stk _ _ r hb ha h; exact ⟨this.1, by rw [this.2, Bool.or_comm]⟩
    | empty => have := ih.uni stk _ _ r hb ha h; exact ⟨this.1, by rw [this.2, Bool.or_comm]⟩
    | multi _ => have := ih.uni stk _ _ r hb ha h; exact ⟨this.1, by rw [this.2, Bool.or_comm]⟩
    | union _ => have := ih.uni stk _ _ r hb ha h; exact ⟨this.1, by rw [this.2, Bool.or_comm]⟩
  | multi ms =>
    have := ih.uniF stk [.multi ms, b] r
      (by intro x hx; simp at hx; rcases hx with rfl | rfl <;> assumption) h
    simpa using this
  | union ms =>
    have := ih.uniF stk [.union ms, b] r
      (by intro x hx; simp at hx; rcases hx with rfl | rfl <;> assumption) h
    simpa using this

/-! ### `intersect_simplify` / `union_simplify` -/

theorem mem_iff {m : M} {l : List M} : M.mem m l = true ↔ ∃ x ∈ l, M.beq m x = true := by
  simp [M.mem, List.any_eq_true]

/-- a member of `theirs` that is "in" `ours` has a twin in `ours` that is "in" `theirs` -/
theorem mem_twin (S : LeafSpec ev G) {ours theirs : List M} (ho : ∀ x ∈ ours, M.Good G x)
    (ht : ∀ x ∈ theirs, M.Good G x) {x : M} (hx : x ∈ theirs) (hm : M.mem x ours = true) :
    ∃ y ∈ ours, M.mem y theirs = true ∧ M.sem ev y = M.sem ev x := by
  obtain ⟨y, hy, hb⟩ := mem_iff.1 hm
  refine ⟨y, hy, mem_iff.2 ⟨x, hx, by rw [M.beq_symm]; exact hb⟩, ?_⟩
  exact (M.beq_sem S x y (ht x hx) (ho y hy) hb).symm

theorem isSubset_any (S : LeafSpec ev G) {a b : List M} (ha : ∀ x ∈ a, M.Good G x)
    (hb : ∀ x ∈ b, M.Good G x) (h : isSubset a b = true) (h1 : a.any (M.sem ev) = true) :
    b.any (M.sem ev) = true := by
  simp only [isSubset, List.all_eq_true] at h
  simp only [List.any_eq_true] at h1 ⊢
  obtain ⟨x, hx, hs⟩ := h1
  obtain ⟨y, hy, he⟩ := M.mem_sem S (ha x hx) hb (h x hx)
  exact ⟨y, hy, by rw [he, hs]⟩

theorem isSubset_all (S : LeafSpec ev G) {a b : List M} (ha : ∀ x ∈ a, M.Good G x)
    (hb : ∀ x ∈ b, M.Good G x) (h : isSubset a b = true) (h1 : b.all (M.sem ev) = true) :
    a.all (M.sem ev) = true := by
  simp only [isSubset, List.all_eq_true] at h
  simp only [List.all_eq_true] at h1 ⊢
  intro x hx
  obtain ⟨y, hy, he⟩ := M.mem_sem S (ha x hx) hb (h x hx)
  rw [← he]; exact h1 y hy

theorem partition_any (p : M → Bool) (f : M → Bool) (l : List M) :
    l.any f = ((l.filter (fun m => !p m)).any f || (l.filter p).any f) := by
  induction l with
  | nil => rfl
  | cons a l ih =>
    cases hp : p a <;> simp [List.filter, hp, ih] <;> cases f a <;> simp

theorem partition_all (p : M → Bool) (f : M → Bool) (l : List M) :
    l.all f = ((l.filter (fun m => !p m)).all f && (l.filter p).all f) := by
  induction l with
  | nil => rfl
  | cons a l ih =>
    cases hp : p a <;> simp [List.filter, hp, ih] <;> cases f a <;> simp

/-- absorption/distribution over the common members: `(U ∨ C) ∧ (U' ∨ C) = (U ∧ U') ∨ C` -/
theorem simplify_any_core (S : LeafSpec ev G) {ours theirs : List M} (ho : ∀ x ∈ ours, M.Good G x)
    (ht : ∀ x ∈ theirs, M.Good G x) :
    (((ours.filter (fun m => !M.mem m theirs)).any (M.sem ev) &&
      (theirs.filter (fun m => !M.mem m ours)).any (M.sem ev)) ||
      (ours.filter (fun m => M.mem m theirs)).any (M.sem ev)) =
    (ours.any (M.sem ev) && theirs.any (M.sem ev)) := by
  have hA := partition_any (fun m => M.mem m theirs) (M.sem ev) ours
  have hB1 : theirs.any (M.sem ev) = true →
      (theirs.filter (fun m => !M.mem m ours)).any (M.sem ev) = true ∨
      (ours.filter (fun m => M.mem m theirs)).any (M.sem ev) = true := by
    intro h
    simp only [List.any_eq_true] at h
    obtain ⟨x, hx, hs⟩ := h
    by_cases hm : M.mem x ours = true
    · obtain ⟨y, hy, hmy, he⟩ := mem_twin S ho ht hx hm
      right
      simp only [List.any_eq_true, List.mem_filter]
      exact ⟨y, ⟨hy, hmy⟩, by rw [he, hs]⟩
    · left
      simp only [List.any_eq_true, List.mem_filter]
      exact ⟨x, ⟨hx, by simpa using hm⟩, hs⟩
  have hB2 : (ours.filter (fun m => M.mem m theirs)).any (M.sem ev) = true →
      theirs.any (M.sem ev) = true := by
    intro h
    simp only [List.any_eq_true, List.mem_filter] at h ⊢
    obtain ⟨y, ⟨hy, hmy⟩, hs⟩ := h
    obtain ⟨z, hz, he⟩ := M.mem_sem S (ho y hy) ht hmy
    exact ⟨z, hz, by rw [he, hs]⟩
  have hB3 : (theirs.filter (fun m => !M.mem m ours)).any (M.sem ev) = true →
      theirs.any (M.sem ev) = true := by
    intro h
    simp only [List.any_eq_true, List.mem_filter] at h ⊢
    obtain ⟨y, ⟨hy, _⟩, hs⟩ := h
    exact ⟨y, hy, hs⟩
  rw [hA]
  generalize (ours.filter (fun m => !M.mem m theirs)).any (M.sem ev) = u at *
  generalize (theirs.filter (fun m => !M.mem m ours)).any (M.sem ev) = ou at *
  generalize (ours.filter (fun m => M.mem m theirs)).any (M.sem ev) = c at *
  generalize theirs.any (M.sem ev) = t at *
  cases u <;> cases ou <;> cases c <;> cases t <;> simp at hB1 hB2 hB3 ⊢

theorem simplify_all_core (S : LeafSpec ev G) {ours theirs : List M} (ho : ∀ x ∈ ours, M.Good G x)
    (ht : ∀ x ∈ theirs, M.Good G x) :
    (((ours.filter (fun m => !M.mem m theirs)).all (M.sem ev) ||
      (theirs.filter (fun m => !M.mem m ours)).all (M.sem ev)) &&
      (ours.filter (fun m => M.mem m theirs)).all (M.sem ev)) =
    (ours.all (M.sem ev) || theirs.all (M.sem ev)) := by
  have hA := partition_all (fun m => M.mem m theirs) (M.sem ev) ours
  have hB1 : theirs.all (M.sem ev) = true →
      (ours.filter (fun m => M.mem m theirs)).all (M.sem ev) = true := by
    intro h
    simp only [List.all_eq_true, List.mem_filter] at h ⊢
    rintro y ⟨hy, hmy⟩
    obtain ⟨z, hz, he⟩ := M.mem_sem S (ho y hy) ht hmy
    rw [← he]; exact h z hz
  have hB2 : theirs.all (M.sem ev) = true →
      (theirs.filter (fun m => !M.mem m ours)).all (M.sem ev) = true := by
    intro h
    simp only [List.all_eq_true, List.mem_filter] at h ⊢
    rintro y ⟨hy, _⟩
    exact h y hy
  have hB3 : (theirs.filter (fun m => !M.mem m ours)).all (M.sem ev) = true →
      (ours.filter (fun m => M.mem m theirs)).all (M.sem ev) = true →
      theirs.all (M.sem ev) = true := by
    intro h1 h2
    simp only [List.all_eq_true, List.mem_filter] at h1 h2 ⊢
    intro x hx
    by_cases hm : M.mem x ours = true
    · obtain ⟨y, hy, hmy, he⟩ := mem_twin S ho ht hx hm
      rw [← he]; exact h2 y ⟨hy, hmy⟩
    · exact h1 x ⟨hx, by simpa using hm⟩
  rw [hA]
  generalize (ours.filter (fun m => !M.mem m theirs)).all (M.sem ev) = u at *
  generalize (theirs.filter (fun m => !M.mem m ours)).all (M.sem ev) = ou at *
  generalize (ours.filter (fun m => M.mem m theirs)).all (M.sem ev) = c at *
  generalize theirs.all (M.sem ev) = t at *
  cases u <;> cases ou <;> cases c <;> cases t <;> simp at hB1 hB2 hB3 ⊢

theorem intersectSimplify_step (S : LeafSpec ev G) {n : Nat} (ih : SoundAt ev G n) :
    ∀ stk ours other r, (∀ x ∈ ours, M.Good G x) → M.Good G other →
    intersectSimplify (n + 1) stk ours other = .ok (some r) →
    M.Good G r ∧ M.sem ev r = (ours.any (M.sem ev) && M.sem ev other) := by
  intro stk ours other r ho hoth h
  rw [intersectSimplify.eq_def] at h
  simp only at h
  by_cases hmem : M.mem other ours = true
  · simp only [hmem, if_true] at h
    cases h
    refine ⟨hoth, ?_⟩
    have := M.mem_any S hoth ho hmem
    generalize ours.any (M.sem ev) = a at *
    generalize M.sem ev other = b at *
    cases a <;> cases b <;> simp at this ⊢
  · simp only [hmem, if_false, Bool.false_eq_true] at h
    cases other with
    | union theirs =>
      simp only at h
      have ht : ∀ x ∈ theirs, M.Good G x := by simpa using hoth
      by_cases h1 : isSubset ours theirs = true
      · simp only [h1, if_true] at h
        cases h
        refine ⟨by simpa using ho, ?_⟩
        have := isSubset_any S ho ht h1
        simp only [M.sem_union]
        generalize ours.any (M.sem ev) = a at *
        generalize theirs.any (M.sem ev) = b at *
        cases a <;> cases b <;> simp at this ⊢
      · simp only [h1, if_false, Bool.false_eq_true] at h
        by_cases h2 : isSubset theirs ours = true
        · simp only [h2, if_true] at h
          cases h
          refine ⟨hoth, ?_⟩
          have := isSubset_any S ht ho h2
          simp only [M.sem_union]
          generalize ours.any (M.sem ev) = a at *
          generalize theirs.any (M.sem ev) = b at *
          cases a <;> cases b <;> simp at this ⊢
        · simp only [h2, if_false, Bool.false_eq_true] at h
          by_cases h3 : (!(ours.any (fun m => M.mem m theirs))) = true
          · simp only [h3, if_true] at h; cases h
          · simp only [h3, if_false, Bool.false_eq_true] at h
            obtain ⟨ui, hi1, hi2⟩ := bind_ok.1 h
            have gU : ∀ x ∈ ours.filter (fun m => !M.mem m theirs), M.Good G x :=
              fun x hx => ho x (List.mem_filter.1 hx).1
            have gOU : ∀ x ∈ theirs.filter (fun m => !M.mem m ours), M.Good G x :=
              fun x hx => ht x (List.mem_filter.1 hx).1
            have gC : ∀ x ∈ ours.filter (fun m => M.mem m theirs), M.Good G x :=
              fun x hx => ho x (List.mem_filter.1 hx).1
            have sU := mkUnion_spec (ev := ev) S _ gU
            have sOU := mkUnion_spec (ev := ev) S _ gOU
            have sC := mkUnion_spec (ev := ev) S _ gC
            have hui := ih.inter stk _ _ ui sU.1 sOU.1 hi1
            have fin : ∀ r', mUnion n stk ui (mkUnion (ours.filter (fun m => M.mem m theirs))) = .ok r' →
                M.Good G r' ∧ M.sem ev r' = (ours.any (M.sem ev) && M.sem ev (M.union theirs)) := by
              intro r' hr'
              have := ih.uni stk _ _ r' hui.1 sC.1 hr'
              refine ⟨this.1, ?_⟩
              rw [this.2, hui.2, sU.2, sOU.2, sC.2, M.sem_union]
              exact simplify_any_core S ho ht
            cases ui with
            | leaf l =>
              simp only at hi2
              obtain ⟨r', hr1, hr2⟩ := bind_ok.1 hi2
              rw [pure_ok] at hr2; cases hr2
              exact fin r hr1
            | empty =>
              simp only at hi2
              obtain ⟨r', hr1, hr2⟩ := bind_ok.1 hi2
              rw [pure_ok] at hr2; cases hr2
              exact fin r hr1
            | any => simp only [pure_ok] at hi2; cases hi2
            | multi _ => simp only [pure_ok] at hi2; cases hi2
            | union _ => simp only [pure_ok] at hi2; cases hi2
    | any => cases h
    | empty => cases h
    | leaf _ => cases h
    | multi _ => cases h

theorem unionSimplify_step (S : LeafSpec ev G) {n : Nat} (ih : SoundAt ev G n) :
    ∀ stk ours other r, (∀ x ∈ ours, M.Good G x) → M.Good G other →
    unionSimplify (n + 1) stk ours other = .ok (some r) →
    M.Good G r ∧ M.sem ev r = (ours.all (M.sem ev) || M.sem ev other) := by
  intro stk ours other r ho hoth h
  rw [unionSimplify.eq_def] at h
  simp only at h
  by_cases hmem : M.mem other ours = true
  · simp only [hmem, if_true] at h
    cases h
    refine ⟨hoth, ?_⟩
    have := M.mem_all S hoth ho hmem
    generalize ours.all (M.sem ev) = a at *
    generalize M.sem ev other = b at *
    cases a <;> cases b <;> simp at this ⊢
  · simp only [hmem, if_false, Bool.false_eq_true] at h
    cases other with
    | multi theirs =>
      simp only at h
      have ht : ∀ x ∈ theirs, M.Good G x := by simpa using hoth
      by_cases h1 : isSubset ours theirs = true
      · simp only [h1, if_true] at h
        cases h
        refine ⟨by simpa using ho, ?_⟩
        have := isSubset_all S ho ht h1
        simp only [M.sem_multi]
        generalize ours.all (M.sem ev) = a at *
        generalize theirs.all (M.sem ev) = b at *
        cases a <;> cases b <;> simp at this ⊢
      · simp only [h1, if_false, Bool.false_eq_true] at h
        by_cases h2 : isSubset theirs ours = true
        · simp only [h2, if_true] at h
          cases h
          refine ⟨hoth, ?_⟩
          have := isSubset_all S ht ho h2
          simp only [M.sem_multi]
          generalize ours.all (M.sem ev) = a at *
          generalize theirs.all (M.sem ev) = b at *
          cases a <;> cases b <;> simp at this ⊢
        · simp only [h2, if_false, Bool.false_eq_true] at h
          by_cases h3 : (!(ours.any (fun m => M.mem m theirs))) = true
          · simp only [h3, if_true] at h; cases h
          · simp only [h3, if_false, Bool.false_eq_true] at h
            obtain ⟨ui, hi1, hi2⟩ := bind_ok.1 h
            have gU : ∀ x ∈ ours.filter (fun m => !M.mem m theirs), M.Good G x :=
              fun x hx => ho x (List.mem_filter.1 hx).1
            have gOU : ∀ x ∈ theirs.filter (fun m => !M.mem m ours), M.Good G x :=
              fun x hx => ht x (List.mem_filter.1 hx).1
            have gC : ∀ x ∈ ours.filter (fun m => M.mem m theirs), M.Good G x :=
              fun x hx => ho x (List.mem_filter.1 hx).1
            have sU := mkMulti_spec (ev := ev) S _ gU
            have sOU := mkMulti_spec (ev := ev) S _ gOU
            have sC := mkMulti_spec (ev := ev) S _ gC
            have hui := ih.uni stk _ _ ui sU.1 sOU.1 hi1
            have fin : ∀ r', mIntersect n stk ui (mkMulti (ours.filter (fun m => M.mem m theirs))) = .ok r' →
                M.Good G r' ∧ M.sem ev r' = (ours.all (M.sem ev) || M.sem ev (M.multi theirs)) := by
              intro r' hr'
              have := ih.inter stk _ _ r' hui.1 sC.1 hr'
              refine ⟨this.1, ?_⟩
              rw [this.2, hui.2, sU.2, sOU.2, sC.2, M.sem_multi]
              exact simplify_all_core S ho ht
            cases ui with
            | leaf l =>
              simp only at hi2
              obtain ⟨r', hr1, hr2⟩ := bind_ok.1 hi2
              rw [pure_ok] at hr2; cases hr2
              exact fin r hr1
            | any =>
              simp only at hi2
              obtain ⟨r', hr1, hr2⟩ := bind_ok.1 hi2
              rw [pure_ok] at hr2; cases hr2
              exact fin r hr1
            | empty => simp only [pure_ok] at hi2; cases hi2
            | multi _ => simp only [pure_ok] at hi2; cases hi2
            | union _ => simp only [pure_ok] at hi2; cases hi2
    | any => cases h
    | empty => cases h
    | leaf _ => cases h
    | union _ => cases h

/-! ### assembly: every fuel value -/

theorem soundAt_zero : SoundAt ev G 0 where
  inter := by intro stk a b r _ _ h; rw [mIntersect.eq_def] at h; cases h
  uni := by intro stk a b r _ _ h; rw [mUnion.eq_def] at h; cases h
  interF := by intro stk ms r _ h; rw [intersectionF.eq_def] at h; cases h
  uniF := by intro stk ms r _ h; rw [unionF.eq_def] at h; cases h
  cnf := by intro stk m r _ h; rw [cnf.eq_def] at h; cases h
  dnf := by intro stk m r _ h; rw [dnf.eq_def] at h; cases h
  mOf := by intro stk ms r _ h; rw [multiOf.eq_def] at h; cases h
  mLoop := by intro stk old new r _ h; rw [multiOfLoop.eq_def] at h; cases h
  mPass := by intro stk todo new r _ _ h; rw [multiPass.eq_def] at h; cases h
  mTry := by intro stk marker pre remaining r _ _ h; rw [multiTry.eq_def] at h; cases h
  uOf := by intro stk ms r _ h; rw [unionOf.eq_def] at h; cases h
  uLoop := by intro stk old new r _ h; rw [unionOfLoop.eq_def] at h; cases h
  uPass := by intro stk todo new r _ _ h; rw [unionPass.eq_def] at h; cases h
  uTry := by intro stk marker pre remaining r _ _ h; rw [unionTry.eq_def] at h; cases h
  iSimp := by intro stk ours other r _ _ h; rw [intersectSimplify.eq_def] at h; cases h
  uSimp := by intro stk ours other r _ _ h; rw [unionSimplify.eq_def] at h; cases h

/-- **Soundness of the whole mutual block**, by induction on the fuel. -/
theorem soundAt (S : LeafSpec ev G) : ∀ n, SoundAt ev G n
  | 0 => soundAt_zero
  | n + 1 =>
    have ih := soundAt S n
    { inter := mIntersect_step S ih
      uni := mUnion_step S ih
      interF := intersectionF_step S ih
      uniF := unionF_step S ih
      cnf := cnf_step S ih
      dnf := dnf_step S ih
      mOf := multiOf_step S ih
      mLoop := multiOfLoop_step S ih
      mPass := multiPass_step S ih
      mTry := multiTry_step S ih
      uOf := unionOf_step S ih
      uLoop := unionOfLoop_step S ih
      uPass := unionPass_step S ih
      uTry := unionTry_step S ih
      iSimp := intersectSimplify_step S ih
      uSimp := unionSimplify_step S ih }

/-! ### the exported statements (names are stable; used by the C07, C13, C11, C17 theorems) -/

variable {fuel : Nat} {stk : Stack}

theorem mIntersect_sound (S : LeafSpec ev G) {a b r : M} (ha : M.Good G a) (hb : M.Good G b)
    (h : mIntersect fuel stk a b = .ok r) :
    M.Good G r ∧ M.sem ev r = (M.sem ev a && M.sem ev b) :=
  (soundAt S fuel).inter stk a b r ha hb h

theorem mUnion_sound (S : LeafSpec ev G) {a b r : M} (ha : M.Good G a) (hb : M.Good G b)
    (h : mUnion fuel stk a b = .ok r) :
    M.Good G r ∧ M.sem ev r = (M.sem ev a || M.sem ev b) :=
  (soundAt S fuel).uni stk a b r ha hb h

theorem intersectionF_sound (S : LeafSpec ev G) {ms : List M} {r : M} (hg : M.GoodAll G ms)
    (h : intersectionF fuel stk ms = .ok r) : M.Good G r ∧ M.sem ev r = M.semAll ev ms := by
  rw [M.semAll_eq]; exact (soundAt S fuel).interF stk ms r ((M.goodAll_iff ms).1 hg) h

theorem unionF_sound (S : LeafSpec ev G) {ms : List M} {r : M} (hg : M.GoodAll G ms)
    (h : unionF fuel stk ms = .ok r) : M.Good G r ∧ M.sem ev r = M.semAny ev ms := by
  rw [M.semAny_eq]; exact (soundAt S fuel).uniF stk ms r ((M.goodAll_iff ms).1 hg) h

theorem cnf_sound (S : LeafSpec ev G) {m r : M} (hg : M.Good G m) (h : cnf fuel stk m = .ok r) :
    M.Good G r ∧ M.sem ev r = M.sem ev m :=
  (soundAt S fuel).cnf stk m r hg h

theorem dnf_sound (S : LeafSpec ev G) {m r : M} (hg : M.Good G m) (h : dnf fuel stk m = .ok r) :
    M.Good G r ∧ M.sem ev r = M.sem ev m :=
  (soundAt S fuel).dnf stk m r hg h

theorem multiOf_sound (S : LeafSpec ev G) {ms : List M} {r : M} (hg : M.GoodAll G ms)
    (h : multiOf fuel stk ms = .ok r) : M.Good G r ∧ M.sem ev r = M.semAll ev ms := by
  rw [M.semAll_eq]; exact (soundAt S fuel).mOf stk ms r ((M.goodAll_iff ms).1 hg) h

theorem unionOf_sound (S : LeafSpec ev G) {ms : List M} {r : M} (hg : M.GoodAll G ms)
    (h : unionOf fuel stk ms = .ok r) : M.Good G r ∧ M.sem ev r = M.semAny ev ms := by
  rw [M.semAny_eq]; exact (soundAt S fuel).uOf stk ms r ((M.goodAll_iff ms).1 hg) h

theorem intersectSimplify_sound (S : LeafSpec ev G) {ours : List M} {other r : M}
    (hg : M.GoodAll G ours) (ho : M.Good G other)
    (h : intersectSimplify fuel stk ours other = .ok (some r)) :
    M.Good G r ∧ M.sem ev r = (M.semAny ev ours && M.sem ev other) := by
  rw [M.semAny_eq]; exact (soundAt S fuel).iSimp stk ours other r ((M.goodAll_iff ours).1 hg) ho h

theorem unionSimplify_sound (S : LeafSpec ev G) {ours : List M} {other r : M}
    (hg : M.GoodAll G ours) (ho : M.Good G other)
    (h : unionSimplify fuel stk ours other = .ok (some r)) :
    M.Good G r ∧ M.sem ev r = (M.semAll ev ours || M.sem ev other) := by
  rw [M.semAll_eq]; exact (soundAt S fuel).uSimp stk ours other r ((M.goodAll_iff ours).1 hg) ho h

end Poetry.Marker
