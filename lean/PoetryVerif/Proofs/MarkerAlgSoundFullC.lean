/-
The full comparison-operator domain with `~=` leaves on the python variables: inversion and marker text.
-/
import PoetryVerif.Proofs.MarkerAlgSoundCompatInv
import PoetryVerif.Proofs.MarkerPrintPy

set_option linter.unusedSimpArgs false
set_option linter.unusedVariables false

namespace Poetry.Marker
open Poetry Poetry.Version

theorem pyLeaf_pyLeafC {l : Leaf} (h : PyLeaf l) : PyLeafC l := by
  rcases h with h | h
  · exact Or.inl (Or.inl h)
  · exact Or.inr (Or.inl h)

/-- every python leaf (comparison operators and `~=`) inverts soundly, into the python leaves -/
theorem invOK_pyC {E : Env} {X Y Z : Nat} (hE : EnvPy E X Y Z) {l : Leaf} (h : PyLeafC l) :
    InvOK (leafEval E) PyLeafC l := by
  rcases h with (h | ⟨a, b, rfl⟩) | (h | ⟨a, b, c, rfl⟩)
  · exact (invOK_py hE (Or.inl h)).mono (fun l hl => pyLeaf_pyLeafC hl)
  · exact (invOK_pvCompat hE.1 a b).mono (fun l hl => Or.inl (Or.inl hl))
  · exact (invOK_py hE (Or.inr h)).mono (fun l hl => pyLeaf_pyLeafC hl)
  · exact (invOK_pfvCompat hE.2 a b c).mono (fun l hl => Or.inr (Or.inl hl))

/-- quotable string / `extra` leaves together with the python leaves (with `~=`) -/
def FullInvLeafC (E : Env) (l : Leaf) : Prop := InvLeaf E l ∨ PyLeafC l

/-- leaves of that domain that are ready to be inverted -/
def FullInvReadyC (E : Env) (l : Leaf) : Prop := InvReady E l ∨ PyLeafC l

theorem leafSpec_fullInvC {E : Env} {ex : List String} (hX : E.extras = some ex) {X Y Z : Nat} (hE : EnvPy E X Y Z)
    (HP : PairSound (leafEval E) PvLeafC Pfv3LeafC) : LeafSpec (leafEval E) (FullInvLeafC E) := by
  refine LeafSpec.or (leafSpec_inv hX) (leafSpec_pyC hE HP) ?_
  intro a b ha hb
  have hb' := pyLeafC_name hb
  rcases invLeaf_name ha with h | h
  · rcases hb' with hb' | hb' <;> (rw [pyPair, pyPair, h, hb']; decide)
  · simp only [plainStringVars, List.mem_cons, List.mem_nil_iff, or_false] at h
    rcases hb' with hb' | hb' <;>
      rcases h with h | h | h | h | h | h | h <;> (rw [pyPair, pyPair, h, hb']; decide)

theorem M.invert_sound_fullC {E : Env} {ex : List String} (hX : E.extras = some ex) {X Y Z : Nat}
    (hE : EnvPy E X Y Z) (HP : PairSound (leafEval E) PvLeafC Pfv3LeafC) {a r : M}
    (ha : M.Good (FullInvReadyC E) a) (h : M.invert a = .ok r) :
    M.Good (FullInvLeafC E) r ∧ M.sem (leafEval E) r = !M.sem (leafEval E) a := by
  refine M.invert_sound_on (leafSpec_fullInvC hX hE HP) a r (M.good_mono ?_ a ha) h
  intro l hl
  rcases hl with hl | hl
  · obtain ⟨g, ok⟩ := invReady_ok hX hl
    exact ⟨Or.inl g, ok.mono (fun l hl => Or.inl hl)⟩
  · exact ⟨Or.inr hl, (invOK_pyC hE hl).mono (fun l hl => Or.inr hl)⟩

theorem fullInvLeafC_evaluable {E : Env} {ex : List String} (hX : E.extras = some ex) {X Y Z : Nat}
    (hE : EnvPy E X Y Z) {l : Leaf} (h : FullInvLeafC E l) : ∃ b, l.validate E = .ok b := by
  rcases h with h | h
  · exact invLeaf_evaluable hX h
  · exact pyLeafC_evaluable hE h

/-! ### marker text -/

theorem printOK_pyC {ev : Leaf → Bool} : ∀ l, PyLeafC l → LeafPrintOK ev PyLeafC l := by
  intro l hl
  have hl' := hl
  rcases hl with (h | ⟨a, b, rfl⟩) | (h | ⟨a, b, c, rfl⟩)
  · exact (printOK_py l (Or.inl h)).mono (fun l hl => pyLeaf_pyLeafC hl)
  · exact leafPrintOK_single hl' (by simpa [pvCompatOf, itemConstraintString] using mkSingle_pvCompat a b)
  · exact (printOK_py l (Or.inr h)).mono (fun l hl => pyLeaf_pyLeafC hl)
  · exact leafPrintOK_single hl' (by simpa [pfvCompatOf, itemConstraintString] using mkSingle_pfvCompat a b c)

theorem lexable_pyC : ∀ l, PyLeafC l → Leaf.Lexable l := by
  intro l hl
  rcases hl with (h | ⟨a, b, rfl⟩) | (h | ⟨a, b, c, rfl⟩)
  · exact lexable_py l (Or.inl h)
  · exact leafLexable_single (show "python_version" ∈ names by decide) (show "~=" ∈ ops by decide)
      (relText_valOk a [b])
  · exact lexable_py l (Or.inr h)
  · exact leafLexable_single (show "python_full_version" ∈ names by decide) (show "~=" ∈ ops by decide)
      (relText_valOk a [b, c])

theorem printOK_fullInvC {E : Env} {ex : List String} (hX : E.extras = some ex) :
    ∀ l, FullInvLeafC E l → LeafPrintOK (leafEval E) (FullInvLeafC E) l := by
  intro l hl
  rcases hl with hl | hl
  · exact (printOK_inv hX l hl).mono (fun l h => Or.inl h)
  · exact (printOK_pyC l hl).mono (fun l h => Or.inr h)

theorem lexable_fullInvC {E : Env} : ∀ l, FullInvLeafC E l → Leaf.Lexable l := by
  intro l hl
  rcases hl with hl | hl
  · exact lexable_inv l hl
  · exact lexable_pyC l hl

end Poetry.Marker
