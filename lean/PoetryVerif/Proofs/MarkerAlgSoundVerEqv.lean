/-
`EqvAllows`: version constraints that compare equal under `==` (as `_merge_single_markers` tests) admit the
same versions — from the C18 builder's congruence lemmas (Proofs/EqHashAllows.lean); well-formed ranges are
never degenerate (their ends are strictly ordered).
-/
import PoetryVerif.Proofs.MarkerAlgSoundVer
import PoetryVerif.Proofs.EqHashAllows

set_option linter.unusedSimpArgs false
set_option linter.unusedVariables false

namespace Poetry.Marker
open Poetry Poetry.Version Poetry.EqHash

theorem rcNonDegenerate_of_WF {c : RC} (h : c.WF) : rcNonDegenerate c = true := by
  cases c with
  | ver v => rfl
  | rng r =>
    simp only [rcNonDegenerate, degenerate, Bool.not_eq_true']
    cases hm : r.min with
    | none => rfl
    | some m =>
      cases hM : r.max with
      | none => rfl
      | some M =>
        have := h.2 m M hm hM
        simp only
        rw [eqv_false_iff]
        exact ne_of_lt this

theorem eqvAllows (B : List Version) : EqvAllows B := by
  intro a b ha hb hma hmb h p
  have nda : ∀ c ∈ a.flatten, rcNonDegenerate c = true := fun c hc => rcNonDegenerate_of_WF (hma c hc).1
  have ndb : ∀ c ∈ b.flatten, rcNonDegenerate c = true := fun c hc => rcNonDegenerate_of_WF (hmb c hc).1
  have wa : ∀ c ∈ a.flatten, c.wfB := fun c hc => (hma c hc).1.wfB
  have wb : ∀ c ∈ b.flatten, c.wfB := fun c hc => (hmb c hc).1.wfB
  cases a with
  | empty =>
    have : b.isEmpty = true := by simpa [VC.eqv] using h
    cases b <;> simp_all [VC.isEmpty, VC.allowsPlain, VC.flatten]
  | single x =>
    cases b with
    | empty => simp [VC.eqv, VC.isEmpty] at h
    | single y =>
      simp only [VC.eqv] at h
      simp only [VC.allowsPlain, VC.flatten, List.any_cons, List.any_nil, Bool.or_false]
      exact rc_allows_congr (nda x (by simp [VC.flatten])) (ndb y (by simp [VC.flatten]))
        (wa x (by simp [VC.flatten])) (wb y (by simp [VC.flatten])) h p
    | union ys => simp [VC.eqv] at h
  | union xs =>
    cases b with
    | empty => simp [VC.eqv, VC.isEmpty] at h
    | single y => simp [VC.eqv] at h
    | union ys =>
      rw [vc_eqv_union] at h
      simp only [VC.allowsPlain, VC.flatten]
      exact rcList_any_allows_congr (by simpa [List.all_eq_true, VC.flatten] using nda)
        (by simpa [List.all_eq_true, VC.flatten] using ndb)
        (by simpa [VC.flatten] using wa) (by simpa [VC.flatten] using wb) h p

/-- `LeafSpec` on the same-name version fragment with `EqvAllows` discharged -/
theorem leafSpec_ver' {B : List Version} (hB : RegB B) {E : Env} {n : String} {p : Version}
    (hE : VerEnv B E n p) (hn : (n == "extra") = false) (hpv : (n == "python_version") = false)
    (HM : MkVerOK B n p) : LeafSpec (leafEval E) (VerLeaf B n) :=
  leafSpec_ver hB hE hn hpv (eqvAllows B) HM

/-- plain string / `extra` leaves together with `python_full_version` leaves in the regular setting -/
def DomLeaf (B : List Version) (E : Env) (l : Leaf) : Prop :=
  PlainLeaf E l ∨ VerLeaf B "python_full_version" l

theorem verLeaf_name {B : List Version} {n : String} {l : Leaf} (h : VerLeaf B n l) : l.name = n := by
  cases l with
  | single s => exact h.1
  | amulti _ _ => exact h.elim
  | aunion _ _ => exact h.elim

theorem plainLeaf_name {E : Env} {l : Leaf} (h : PlainLeaf E l) :
    l.name = "extra" ∨ l.name ∈ plainStringVars := by
  rcases h with h | h
  · exact Or.inr h.2.1
  · exact Or.inl (xLeaf_name h.1)

theorem leafSpec_dom {B : List Version} (hB : RegB B) {E : Env} {ex : List String} (hX : E.extras = some ex)
    {p : Version} (hE : VerEnv B E "python_full_version" p) (HM : MkVerOK B "python_full_version" p) :
    LeafSpec (leafEval E) (DomLeaf B E) := by
  refine LeafSpec.or (leafSpec_plain hX) (leafSpec_ver' hB hE (by decide) (by decide) HM) ?_
  intro a b ha hb
  have hb' := verLeaf_name hb
  rcases plainLeaf_name ha with h | h
  · rw [pyPair, pyPair, h, hb']; decide
  · simp only [plainStringVars, List.mem_cons, List.mem_nil_iff, or_false] at h
    rcases h with h | h | h | h | h | h | h <;> (rw [pyPair, pyPair, h, hb']; decide)

theorem domLeaf_evaluable {B : List Version} (hB : RegB B) {E : Env} {ex : List String} (hX : E.extras = some ex)
    {p : Version} (hE : VerEnv B E "python_full_version" p) {l : Leaf} (h : DomLeaf B E l) :
    ∃ b, l.validate E = .ok b := by
  rcases h with h | h
  · exact plainLeaf_evaluable hX h
  · exact verLeaf_evaluable hB hE (by decide) h

end Poetry.Marker
