/-
C11 / C17 on the full domain with `python_version` lists (`FullLeafLs E`: plain string variables, `extra`,
`python_version op "a.b"` with a comparison operator or `~=`, `python_version in / not in "X0.Y0 X1.Y1 …"`,
`python_full_version op "a.b.c"`): C07's leaf specification holds there with no hypothesis (the pairing with lists:
`pairSound_pyLists`), so `get_python_constraint_from_marker` against `validate` covers conjunctions and
disjunctions with any number of list clauses.
-/
import PoetryVerif.Proofs.MarkerAlgSoundListCtor
import PoetryVerif.Proofs.PyConvFullC
import PoetryVerif.Proofs.PyConvLeafAlts

set_option linter.unusedSimpArgs false
set_option linter.unusedVariables false

namespace Poetry.Marker
open Poetry Poetry.Spec.Pep508

/-- plain string variables, `extra`, and the python leaves with `~=` and `python_version` lists -/
def FullLeafLs (E : Env) (l : Leaf) : Prop := PlainLeaf E l ∨ PyLeafL l

theorem fullLeafC_Ls {E : Env} {l : Leaf} (h : FullLeafC E l) : FullLeafLs E l := by
  rcases h with h | h | h
  · exact Or.inl h
  · exact Or.inr (Or.inl (Or.inl h))
  · exact Or.inr (Or.inr h)

/-- **C07's leaf specification on the full domain with lists, no hypothesis left** -/
theorem leafSpec_fullLs {E : Env} {ex : List String} (hX : E.extras = some ex) {X Y Z : Nat} (hE : EnvPy E X Y Z) :
    LeafSpec (leafEval E) (FullLeafLs E) := by
  refine LeafSpec.or (leafSpec_plain hX) (leafSpec_pyL hE (pairSound_pyLists hE)) ?_
  intro a b ha hb
  have hb' := pyLeafL_name hb
  rcases plainLeaf_name ha with h | h
  · rcases hb' with hb' | hb' <;> (rw [pyPair, pyPair, h, hb']; decide)
  · simp only [plainStringVars, List.mem_cons, List.mem_nil_iff, or_false] at h
    rcases hb' with hb' | hb' <;>
      rcases h with h | h | h | h | h | h | h <;> (rw [pyPair, pyPair, h, hb']; decide)

theorem fullLeafLs_evaluable {E : Env} {ex : List String} (hX : E.extras = some ex) {X Y Z : Nat}
    (hE : EnvPy E X Y Z) {l : Leaf} (h : FullLeafLs E l) : ∃ b, l.validate E = .ok b := by
  rcases h with h | h
  · exact plainLeaf_evaluable hX h
  · exact pyLeafL_evaluable hE h

/-- a list leaf is what `_compact_markers` builds, of the list shape -/
theorem pvListLeaf_comp {E : Env} {X Y : Nat} (hE : E.get? "python_version" = some (Version.relText [X, Y]))
    {l : Leaf} (h : PvListLeaf l) : CompLeaf E l ∧ PyShapedL l := by
  have hev := pvLeafL_evaluable hE (Or.inr h)
  obtain ⟨isIn, p0, rest, res, hs, hres, rfl⟩ := h
  refine ⟨⟨_, rfl, ?_, hev, by simp [Canon, Leaf.name]; decide⟩, ?_⟩
  · simp only [Single.coherent, itemConstraintString, Bool.false_eq_true, if_false,
      mkSingle_pvList isIn p0 rest hs hres]
    simp
  · intro _
    cases isIn
    · exact Or.inr (Or.inr ⟨_, p0, rest, rfl, rfl, rfl, rfl, rfl, hs⟩)
    · exact Or.inr (Or.inl ⟨_, p0, rest, rfl, rfl, rfl, rfl, rfl, hs⟩)

/-- every python leaf of the domain with the alternatives the normaliser prints for it -/
theorem fullLeafLs_alts {E : Env} {X Y Z : Nat} (hE : EnvPy E X Y Z) (l : Leaf) (h : FullLeafLs E l)
    (hk : convKey l.name = pyKey) : LeafAlts (leafEval E) X Y Z l := by
  rcases h with h | (h | h) | h
  · exact leafAlts_of_clause (fullLeafC_clause hE l (Or.inl h) hk)
  · exact leafAlts_of_clause (fullLeafC_clause hE l (Or.inr (Or.inl h)) hk)
  · obtain ⟨hc, hs⟩ := pvListLeaf_comp hE.1 h
    exact leafAlts_of_comp E X Y Z hE l hc hs hk
  · exact leafAlts_of_clause (fullLeafC_clause hE l (Or.inr (Or.inr h)) hk)

theorem fullLeafLs_canon {E : Env} (l : Leaf) (h : FullLeafLs E l) : Canon l := by
  rcases h with h | (h | h) | h
  · exact fullLeafC_canon (E := E) l (Or.inl h)
  · exact fullLeafC_canon (E := E) l (Or.inr (Or.inl h))
  · simp only [Canon]; rw [pvLeafL_name (Or.inr h)]; decide
  · exact fullLeafC_canon (E := E) l (Or.inr (Or.inr h))

/-- **`get_python_constraint_from_marker` is an upper bound against `validate`**, lists included -/
theorem gpc_upper_validate_fullLs {E : Env} {ex : List String} (hX : E.extras = some ex) {X Y Z : Nat}
    (hE : EnvPy E X Y Z) (m : M) (g : VC) (hg : M.Good (FullLeafLs E) m) (h : gpc m = .ok g)
    (hv : M.validate E m = .ok true) : g.allowsPlain (pyV X Y Z) = true := by
  rw [M.validate_eq_sem E m (good_evaluable E (fun l hl => fullLeafLs_evaluable hX hE hl) m hg)] at hv
  injection hv with hv
  exact gpc_upper_alts (leafSpec_fullLs hX hE) X Y Z m g hg (fun l hl hk => fullLeafLs_alts hE l hl hk) h hv

/-- **`get_python_constraint_from_marker` is exact against `validate`** on python-only markers, lists included -/
theorem gpc_exact_validate_fullLs {E : Env} {ex : List String} (hX : E.extras = some ex) {X Y Z : Nat}
    (hE : EnvPy E X Y Z) (m : M) (g : VC) (hg : M.Good (FullLeafLs E) m)
    (hvars : ∀ n ∈ M.vars m, pyNames.contains n = true) (h : gpc m = .ok g) :
    M.validate E m = .ok (g.allowsPlain (pyV X Y Z)) := by
  have S := leafSpec_fullLs hX hE
  rw [M.validate_eq_sem E m (good_evaluable E (fun l hl => fullLeafLs_evaluable hX hE hl) m hg)]
  congr 1
  refine gpc_exact_alts S X Y Z m g hg hvars (fun l hl hk => fullLeafLs_alts hE l hl hk) ?_ h
  intro d hd l hl
  have hv := dnf_vars S fullLeafLs_canon _ _ m d hg hd l.name (leaf_name_mem_vars d l hl)
  exact convKey_of_pyNames (hvars _ hv)

theorem only_mentions_fullLs {E : Env} {ex : List String} (hX : E.extras = some ex) {X Y Z : Nat}
    (hE : EnvPy E X Y Z) (names : List String) (m r : M) (hg : M.Good (FullLeafLs E) m)
    (h : m.only names = .ok r) : ∀ n ∈ M.vars r, n ∈ names :=
  only_mentions_thm (leafSpec_fullLs hX hE) fullLeafLs_canon names m r hg h

/-! ### reduction by a Python range -/

/-- the truth of a coherent single marker is the model's value of its item -/
theorem leafEval_of_itemV (E : Env) (s : Single) (hsw : s.swapped = false) (hcoh : s.coherent = true)
    (hcanon : aliasName s.name = s.name) (b : Bool) (h : itemV E s.name s.op s.value false = .ok b) :
    leafEval E (.single s) = b := by
  simp only [Single.coherent, hsw] at hcoh
  simp only [itemV] at h
  cases hm : mkSingle s.name (itemConstraintString s.op s.value false) false with
  | error e => rw [hm] at hcoh; cases hcoh
  | ok s2 =>
    rw [hm] at hcoh h
    have hc2 : s2.c = s.c := by simpa using hcoh
    have hn2 : s2.name = s.name := by rw [mkSingle_name _ _ _ _ hm, hcanon]
    simp only [hc2, hn2] at h
    simp [leafEval, Leaf.validate, h]

/-- `get_python_constraint_from_marker` of a list leaf is exact at `X.Y.Z` and of the regular setting -/
theorem listLeaf_gpc_exact {E : Env} {X Y Z : Nat} (hE : EnvPy E X Y Z) {l : Leaf} (h : PvListLeaf l) (c : VC)
    (hg : gpcLeaf l = .ok c) : PyVCok c ∧ c.allowsPlain (pyV X Y Z) = leafEval E l := by
  obtain ⟨⟨s0, he0, hcoh, _, hcan⟩, _⟩ := pvListLeaf_comp hE.1 h
  obtain ⟨isIn, p0, rest, res, hs, hres, rfl⟩ := h
  cases he0
  have hc : c = res := by
    rw [gpcLeaf_pvList isIn p0 rest hs, hres] at hg
    exact (Except.ok.inj hg).symm
  subst hc
  obtain ⟨res', B, hres', hreg, hpb, _⟩ := parse_list_reg isIn p0 (rest.map (·.2))
  rw [hres] at hres'; cases hres'
  refine ⟨pyVCok_of_reg hpb hreg, ?_⟩
  cases isIn
  · obtain ⟨vc, b, h1, h2, h3⟩ := gpcLeaf_notin2 E X Y Z hE
      ⟨"python_version", listOp false, verList2 p0 rest, false, .ver c⟩ p0 rest hs rfl rfl rfl
    rw [hg] at h1; cases h1
    obtain ⟨b', hb1, hb2, _⟩ := agree_pv_notin E p0 rest hs X Y hE.1
    have hbb : b' = b := by
      have : evalItem "python_version" "not in" (verList2 p0 rest) false E = some b := h3
      rw [hb2] at this; exact Option.some.inj this
    subst hbb
    rw [h2]
    exact (leafEval_of_itemV E _ rfl hcoh hcan b' hb1).symm
  · obtain ⟨vc, b, h1, h2, _, h3⟩ := gpcLeaf_in2 E X Y Z hE
      ⟨"python_version", listOp true, verList2 p0 rest, false, .ver c⟩ p0 rest hs rfl rfl rfl
    rw [hg] at h1; cases h1
    obtain ⟨b', hb1, hb2, _⟩ := agree_pv_in E p0 rest hs X Y hE.1
    have hbb : b' = b := by
      have : evalItem "python_version" "in" (verList2 p0 rest) false E = some b := h3
      rw [hb2] at this; exact Option.some.inj this
    subst hbb
    rw [h2]
    exact (leafEval_of_itemV E _ rfl hcoh hcan b' hb1).symm

/-- **`ReduceCtx` on the full domain with lists** -/
theorem reduceCtx_fullLs {E : Env} {ex : List String} (hX : E.extras = some ex) {X Y Z : Nat} (hE : EnvPy E X Y Z)
    (pc : VC) (hd : PyDomVC pc = true) (hp2 : PyPrec2 pc) (hpcok : PyVCok pc)
    (hpc : pc.allowsPlain (pyV X Y Z) = true) :
    ReduceCtx (leafEval E) (FullLeafLs E) (fun _ => True) PyVCok pc (pyV X Y Z) where
  spec := leafSpec_fullLs hX hE
  canon := fullLeafLs_canon
  gpcLeaf_exact := fun l c hg _ hn hgl => by
    rcases hg with hg | (hg | hg) | hg
    · exact (reduceCtx_fullC hX hE pc hd hp2 hpcok hpc).gpcLeaf_exact l c (Or.inl hg) trivial hn hgl
    · exact (reduceCtx_fullC hX hE pc hd hp2 hpcok hpc).gpcLeaf_exact l c (Or.inr (Or.inl hg)) trivial hn hgl
    · exact listLeaf_gpc_exact hE hg c hgl
    · exact (reduceCtx_fullC hX hE pc hd hp2 hpcok hpc).gpcLeaf_exact l c (Or.inr (Or.inr hg)) trivial hn hgl
  gpc_lower := fun u g hgu hvu hgpc => by
    have S := leafSpec_fullLs hX hE
    have hal : ∀ l, FullLeafLs E l → convKey l.name = pyKey → LeafAlts (leafEval E) X Y Z l :=
      fun l hl hk => fullLeafLs_alts hE l hl hk
    refine ⟨gpc_pyVCok S X Y Z u g hgu hal hgpc, ?_⟩
    intro hall
    have hvars : ∀ n ∈ M.vars u, pyNames.contains n = true := fun n hn => by simpa using hvu n hn
    have := gpc_exact_alts S X Y Z u g hgu hvars hal (by
      intro d hdd l hl
      have hv := dnf_vars S fullLeafLs_canon _ _ u d hgu hdd l.name (leaf_name_mem_vars d l hl)
      exact convKey_of_pyNames (hvars _ hv)) hgpc
    rw [this, hall]
  allowsAll_sound := fun c hw h => allowsAll_py c pc hw hpcok X Y Z h hpc
  allowsAny_sound := fun c hw h hcp => allowsAny_py c pc hw hpcok X Y Z h ⟨hcp, hpc⟩
  nested_true := fun txt pm ht hm => by
    have := createNested_full hX hE pc hd hp2 txt pm ht hm
    exact ⟨M.good_mono (fun l hl => fullLeafC_Ls (fullLeaf_C hl)) pm this.1, by rw [this.2, hpc]⟩

/-- **`reduce_by_python_constraint` is exact against `validate`, lists included** -/
theorem reduce_exact_validate_fullLs {E : Env} {ex : List String} (hX : E.extras = some ex) {X Y Z : Nat}
    (hE : EnvPy E X Y Z) (pc : VC) (hd : PyDomVC pc = true) (hp2 : PyPrec2 pc) (hpcok : PyVCok pc)
    (hpc : pc.allowsPlain (pyV X Y Z) = true) (m r : M) (hg : M.Good (FullLeafLs E) m)
    (h : M.reduce pc m = .ok r) :
    M.Good (FullLeafLs E) r ∧ M.validate E r = M.validate E m := by
  have C := reduceCtx_fullLs hX hE pc hd hp2 hpcok hpc
  have hr := reduce_exact_aux C m r (M.good_mono (fun l hl => ⟨hl, trivial⟩) m hg) h
  have hev : ∀ x, M.Good (FullLeafLs E) x → M.Evaluable E x := fun x hx =>
    M.good_mono (fun l hl => fullLeafLs_evaluable hX hE hl) x hx
  exact ⟨hr.1, by rw [M.validate_eq_sem E r (hev r hr.1), M.validate_eq_sem E m (hev m hg), hr.2]⟩

end Poetry.Marker
