/-
Helper lemmas about the build model (Model/Build.lean) for C01 and C08:
permission bits of the GENERATED `normalizeFilePermissions`, the record state machine, names, paths,
sorting independent of listing order, timestamps.
-/
import PoetryVerif.Model.Build

set_option linter.unusedSimpArgs false
set_option linter.unusedVariables false

namespace Poetry.Build
open Poetry Std

/-! ## constants regenerated from the source: the values the proofs below rely on (re-checked on every run) -/

theorem gen_wheelFileSuffix : Gen.wheelFileSuffix = ".whl" := rfl
theorem gen_distInfoSuffix : Gen.distInfoSuffix = ".dist-info" := rfl
theorem gen_dataFolderSuffix : Gen.dataFolderSuffix = ".data" := rfl
theorem gen_attrMask : Gen.wheelAttrMask = 65535 := rfl
theorem gen_attrShift : Gen.wheelAttrShift = 16 := rfl
theorem gen_dirFlag : Gen.wheelDirFlag = 16 := rfl
theorem gen_sorted : Gen.wheelModuleFilesSorted = true ∧ Gen.wheelDistInfoSorted = true ∧ Gen.sdistFilesSorted = true :=
  ⟨rfl, rfl, rfl⟩
theorem gen_recordHashPrefix : Gen.recordHashPrefix = "sha256=" := rfl
theorem gen_recordSuffix : Gen.recordSuffix = "/RECORD" := rfl

/-! ## permission bits -/

/-- closed form of the generated function on the low 9 bits -/
def low9 (r : Nat) : Nat := if r &&& 64 != 0 then 493 else 420

theorem norm_unfold (m : Nat) : Gen.normalizeFilePermissions m =
    if (m &&& 64) != 0 then (((m ||| 420) ^^^ ((m ||| 420) &&& 91)) ||| 73) else ((m ||| 420) ^^^ ((m ||| 420) &&& 91)) := by
  unfold Gen.normalizeFilePermissions
  simp only [Id.run, pure]

theorem low_table : ∀ r : Fin 512,
    (if (r.val &&& 64) != 0 then (((r.val ||| 420) ^^^ ((r.val ||| 420) &&& 91)) ||| 73) else ((r.val ||| 420) ^^^ ((r.val ||| 420) &&& 91)))
      = low9 r.val := by decide +kernel

theorem and64_mod (m : Nat) : m &&& 64 = (m % 512) &&& 64 := by
  have h : m &&& 64 < 2 ^ 9 := Nat.lt_of_le_of_lt Nat.and_le_right (by decide)
  have := Nat.and_mod_two_pow (a := m) (b := 64) (n := 9)
  rw [Nat.mod_eq_of_lt h] at this
  rw [this]

theorem norm_mod (m : Nat) : Gen.normalizeFilePermissions m % 512 = low9 (m % 512) := by
  rw [norm_unfold, ← low_table ⟨m % 512, Nat.mod_lt _ (by decide)⟩]
  simp only
  rw [← and64_mod m]
  have e : (512 : Nat) = 2 ^ 9 := rfl
  split
  · rw [e]; simp only [Nat.or_mod_two_pow, Nat.xor_mod_two_pow, Nat.and_mod_two_pow]
  · rw [e]; simp only [Nat.or_mod_two_pow, Nat.xor_mod_two_pow, Nat.and_mod_two_pow]

theorem norm_div (m : Nat) : Gen.normalizeFilePermissions m / 512 = m / 512 := by
  rw [norm_unfold]
  have e : (512 : Nat) = 2 ^ 9 := rfl
  rw [e]
  simp only [← Nat.shiftRight_eq_div_pow]
  split <;> simp [Nat.shiftRight_or_distrib, Nat.shiftRight_xor_distrib, Nat.shiftRight_and_distrib]

/-! ## record state machine -/

/-- the member an operation writes -/
def Op.member : Op → Member
  | .addFile p m d n => ⟨p, addFileAttr m, d, n⟩
  | .writeToZip p d n => ⟨p, writeAttr, d, n⟩

theorem Op.member_path (o : Op) : o.member.path = o.target := by cases o <;> rfl

theorem step_eq (s : St) (o : Op) :
    step s o = { members := s.members ++ [o.member], records := s.records ++ [o.member.row] } := by
  cases o <;> rfl

theorem run_eq (s : St) (ops : List Op) :
    run s ops = { members := s.members ++ ops.map Op.member,
                  records := s.records ++ ops.map (fun o => o.member.row) } := by
  induction ops generalizing s with
  | nil => simp [run]
  | cons o os ih =>
    have : run s (o :: os) = run (step s o) os := rfl
    rw [this, ih, step_eq]; simp

/-- invariant of the record bookkeeping -/
def Inv (s : St) : Prop := s.records = s.members.map Member.row

theorem inv_init : Inv {} := rfl

theorem step_inv (s : St) (o : Op) (h : Inv s) : Inv (step s o) := by
  unfold Inv at *; rw [step_eq]; simp [h]

theorem run_inv (s : St) (ops : List Op) (h : Inv s) : Inv (run s ops) := by
  induction ops generalizing s with
  | nil => exact h
  | cons o os ih => exact ih (step s o) (step_inv s o h)

theorem writeRecord_inv (H : String → String) (di : String) (s : St) (h : Inv s) : Inv (writeRecord H di s) :=
  step_inv s _ h

/-- the row `_write_record` prints for a member -/
def memberRow (m : Member) : List String := [m.path, "sha256=" ++ m.digest, toString m.size]

theorem recordRow_row (m : Member) : recordRow m.row = memberRow m := rfl

theorem recordRows_of_inv (di : String) (s : St) (h : Inv s) :
    recordRows di s.records = s.members.map memberRow ++ [[recordPath di, "", ""]] := by
  unfold recordRows; rw [h]; simp [List.map_map, Function.comp_def, recordRow_row]

theorem writeRecord_members (H : String → String) (di : String) (s : St) :
    (writeRecord H di s).members =
      s.members ++ [⟨recordPath di, writeAttr, H (recordText di s.records), (recordText di s.records).utf8ByteSize⟩] := rfl

theorem nodup_append_singleton {α : Type} {l : List α} {a : α} (h : l.Nodup) (ha : a ∉ l) : (l ++ [a]).Nodup := by
  rw [List.nodup_append]
  refine ⟨h, by simp, ?_⟩
  intro x hx y hy
  simp at hy; subst hy
  intro e; subst e; exact ha hx

/-! ## names and paths -/

theorem splitOnChar_ne_nil (c : Char) (s : List Char) : splitOnChar c s ≠ [] := by
  induction s with
  | nil => simp [splitOnChar]
  | cons x xs ih =>
    unfold splitOnChar
    split
    · simp
    · split <;> simp

theorem splitOnChar_of_not_mem (c : Char) (a : List Char) (h : c ∉ a) : splitOnChar c a = [a] := by
  induction a with
  | nil => rfl
  | cons x xs ih =>
    have hx : (x == c) = false := by
      simp only [List.mem_cons, not_or] at h
      simp; exact fun e => h.1 e.symm
    have hxs : c ∉ xs := fun m => h (List.mem_cons_of_mem _ m)
    unfold splitOnChar
    simp [hx, ih hxs]

theorem splitOnChar_append (c : Char) (a rest : List Char) (h : c ∉ a) :
    splitOnChar c (a ++ c :: rest) = a :: splitOnChar c rest := by
  induction a with
  | nil => simp [splitOnChar]
  | cons x xs ih =>
    have hx : (x == c) = false := by
      simp only [List.mem_cons, not_or] at h
      simp; exact fun e => h.1 e.symm
    have hxs : c ∉ xs := fun m => h (List.mem_cons_of_mem _ m)
    rw [List.cons_append, splitOnChar]
    simp [hx, ih hxs]

theorem distNameChars_no_dash (cs : List Char) : '-' ∉ distNameChars cs := by
  unfold distNameChars
  intro h
  rw [List.mem_map] at h
  obtain ⟨c, _, hc⟩ := h
  by_cases e : c = '-'
  · subst e; simp at hc
  · have : (c == '-') = false := by simp [e]
    simp [this] at hc; exact e hc

theorem split_tag (b : Bool) : splitOnChar '-' (tagChars b ++ ".whl".toList) =
    [if b then "py2.py3".toList else "py3".toList, "none".toList, "any.whl".toList] := by
  cases b <;> decide

theorem split_wheelFilename (dn ver : List Char) (b : Bool) (hd : '-' ∉ dn) (hv : '-' ∉ ver) :
    splitOnChar '-' (wheelFilenameChars dn ver (tagChars b)) =
      [dn, ver, if b then "py2.py3".toList else "py3".toList, "none".toList, "any.whl".toList] := by
  unfold wheelFilenameChars
  rw [gen_wheelFileSuffix, splitOnChar_append _ _ _ hd]
  rw [splitOnChar_append _ _ _ hv, split_tag]

theorem split_distInfo (dn ver : List Char) (hd : '-' ∉ dn) (hv : '-' ∉ ver) :
    splitOnChar '-' (distInfoChars dn ver) = [dn, ver ++ ".dist".toList, "info".toList] := by
  unfold distInfoChars
  rw [gen_distInfoSuffix]
  have e : ver ++ ".dist-info".toList = (ver ++ ".dist".toList) ++ ('-' :: "info".toList) := by simp
  have hv' : '-' ∉ ver ++ ".dist".toList := by
    intro m; rw [List.mem_append] at m; rcases m with m | m
    · exact hv m
    · revert m; decide
  rw [splitOnChar_append _ _ _ hd, e, splitOnChar_append _ _ _ hv']; rfl

theorem split_join (comps : List (List Char)) (hne : comps ≠ []) (h : ∀ c ∈ comps, '/' ∉ c) :
    splitOnChar '/' (joinSlash comps) = comps := by
  induction comps with
  | nil => exact absurd rfl hne
  | cons c cs ih =>
    cases cs with
    | nil => simp [joinSlash]; exact splitOnChar_of_not_mem _ _ (h c (by simp))
    | cons c' cs' =>
      have : joinSlash (c :: c' :: cs') = c ++ '/' :: joinSlash (c' :: cs') := rfl
      rw [this, splitOnChar_append _ _ _ (h c (by simp)), ih (by simp) (fun x hx => h x (List.mem_cons_of_mem _ hx))]


/-! ## modes of members; dist-info members -/

theorem low9_cases (r : Nat) : low9 r = 420 ∨ low9 r = 493 := by
  unfold low9; split <;> simp

theorem writeAttr_mode : (writeAttr >>> 16) = 420 := by decide

theorem addFileAttr_mode (m : Nat) : (addFileAttr m) >>> 16 = Gen.normalizeFilePermissions m % 65536 := by
  unfold addFileAttr
  rw [gen_attrMask, gen_attrShift, gen_dirFlag]
  have e : (65535 : Nat) = 2 ^ 16 - 1 := rfl
  simp only
  split
  · rw [Nat.shiftRight_or_distrib, Nat.shiftLeft_shiftRight, e, Nat.and_two_pow_sub_one_eq_mod]; simp
  · rw [Nat.shiftLeft_shiftRight, e, Nat.and_two_pow_sub_one_eq_mod]

theorem op_member_mode (o : Op) : o.member.mode % 512 = 420 ∨ o.member.mode % 512 = 493 := by
  cases o with
  | addFile p m d n =>
    show ((addFileAttr m) >>> 16) % 512 = 420 ∨ ((addFileAttr m) >>> 16) % 512 = 493
    rw [addFileAttr_mode, Nat.mod_mod_of_dvd _ (by decide : 512 ∣ 65536), norm_mod]
    exact low9_cases _
  | writeToZip p d n => left; show (writeAttr >>> 16) % 512 = 420; rw [writeAttr_mode]

theorem mem_sortBy {α : Type} (key : α → PathKey) (xs : List α) (x : α) : x ∈ sortBy key xs ↔ x ∈ xs := by
  unfold sortBy; exact (List.mergeSort_perm xs _).mem_iff

theorem run_members (ops : List Op) : (run {} ops).members = ops.map Op.member := by
  rw [run_eq]; simp

theorem buildWheel_members (H : String → String) (p : WheelPlan) :
    (buildWheel H p).members = (wheelOps p).map Op.member ++
      [⟨recordPath p.distInfo, writeAttr, H (recordText p.distInfo (run {} (wheelOps p)).records),
        (recordText p.distInfo (run {} (wheelOps p)).records).utf8ByteSize⟩] := by
  unfold buildWheel; rw [writeRecord_members, run_members]

theorem distInfo_member (H : String → String) (p : WheelPlan) (f : DiFile) (hf : f ∈ p.diFiles) :
    (⟨p.distInfo ++ "/" ++ posix f.rel, addFileAttr f.stMode, f.digest, f.size⟩ : Member) ∈ (buildWheel H p).members := by
  rw [buildWheel_members]
  apply List.mem_append_left
  rw [List.mem_map]
  refine ⟨.addFile (p.distInfo ++ "/" ++ posix f.rel) f.stMode f.digest f.size, ?_, rfl⟩
  unfold wheelOps
  apply List.mem_append_right
  unfold copyDistInfoOps
  rw [List.mem_map]
  exact ⟨f, (mem_sortBy _ _ _).2 hf, rfl⟩


/-! ## path order, calendar, sorting, modes (C08) -/

instance : TransOrd PathKey := inferInstance
instance : LawfulEqOrd PathKey := inferInstance
instance : OrientedOrd PathKey := inferInstance

theorem pathLe_trans (a b c : PathKey) (h1 : pathLe a b = true) (h2 : pathLe b c = true) : pathLe a c = true :=
  TransOrd.isLE_trans h1 h2

theorem pathLe_total (a b : PathKey) : (pathLe a b || pathLe b a) = true := by
  unfold pathLe
  rw [OrientedCmp.eq_swap (cmp := compare) (a := a) (b := b)]
  cases compare b a <;> rfl

theorem pathLe_antisymm (a b : PathKey) (h1 : pathLe a b = true) (h2 : pathLe b a = true) : a = b := by
  unfold pathLe at *
  rw [OrientedCmp.eq_swap (cmp := compare) (a := a) (b := b)] at h1
  have : compare b a = .eq := by cases h : compare b a <;> simp [h] at h1 h2 ⊢
  exact (compare_eq_iff_eq.1 this).symm

theorem compare_append_left (r a b : PathKey) : compare (r ++ a) (r ++ b) = compare a b := by
  induction r with
  | nil => rfl
  | cons x xs ih =>
    show compare (x :: (xs ++ a)) (x :: (xs ++ b)) = _
    rw [List.compare_cons_cons, ReflCmp.compare_self (cmp := compare) (a := x), Ordering.eq_then, ih]
theorem civil_year_ge (z0 : Int) (h : 3652 ≤ z0) : 1980 ≤ (civilFromDays z0).1 := by
  unfold civilFromDays
  simp only
  by_cases h5 : 730485 ≤ z0 + 719468
  · split <;> split <;> omega
  · have hc : (z0 + 719468) / 146097 = 4 := by omega
    have hd : (z0 + 719468) % 146097 = z0 + 719468 - 584388 := by omega
    rw [hc, hd]
    by_cases h6 : 138792 ≤ z0 + 719468 - 584388
    · split <;> split <;> omega
    · split <;> split <;> omega

theorem civil_year_lt (z0 : Int) (h : z0 < 3652) : (civilFromDays z0).1 < 1980 := by
  unfold civilFromDays
  simp only
  by_cases h5 : z0 + 719468 < 584388
  · split <;> split <;> omega
  · have hc : (z0 + 719468) / 146097 = 4 := by omega
    have hd : (z0 + 719468) % 146097 = z0 + 719468 - 584388 := by omega
    rw [hc, hd]
    by_cases h6 : z0 + 719468 - 584388 < 138426
    · split <;> split <;> omega
    · split <;> split <;> omega

/-! ## sorting is independent of the listing order -/

theorem sortBy_perm {α : Type} (key : α → PathKey) (l₁ l₂ : List α) (hp : l₁.Perm l₂)
    (hinj : ∀ a ∈ l₁, ∀ b ∈ l₁, key a = key b → a = b) : sortBy key l₁ = sortBy key l₂ := by
  unfold sortBy
  have tr : ∀ a b c : α, pathLe (key a) (key b) = true → pathLe (key b) (key c) = true → pathLe (key a) (key c) = true :=
    fun a b c => pathLe_trans _ _ _
  have tot : ∀ a b : α, (pathLe (key a) (key b) || pathLe (key b) (key a)) = true := fun a b => pathLe_total _ _
  apply List.Perm.eq_of_pairwise (le := fun a b => pathLe (key a) (key b) = true)
  · intro a b ha hb h1 h2
    have ha' : a ∈ l₁ := (List.mergeSort_perm l₁ _).mem_iff.1 ha
    have hb' : b ∈ l₁ := hp.mem_iff.2 ((List.mergeSort_perm l₂ _).mem_iff.1 hb)
    exact hinj a ha' b hb' (pathLe_antisymm _ _ h1 h2)
  · exact List.pairwise_mergeSort tr tot l₁
  · exact List.pairwise_mergeSort tr tot l₂
  · exact (List.mergeSort_perm l₁ _).trans (hp.trans (List.mergeSort_perm l₂ _).symm)

theorem sortBy_root {α : Type} (root : PathKey) (key : α → PathKey) (l : List α) :
    sortBy (fun a => root ++ key a) l = sortBy key l := by
  unfold sortBy
  congr 1
  funext a b
  simp [pathLe, compare_append_left]

theorem sortBy_map {α : Type} (key : α → PathKey) (h : α → α) (hk : ∀ a, key (h a) = key a) (l : List α) :
    sortBy key (l.map h) = (sortBy key l).map h := by
  unfold sortBy
  rw [List.map_mergeSort (s := fun a b => pathLe (key a) (key b))]
  intro a _ b _
  simp [hk]

theorem inj_of_nodup_map {α β : Type} (f : α → β) (l : List α) (h : (l.map f).Nodup) :
    ∀ a ∈ l, ∀ b ∈ l, f a = f b → a = b := by
  induction l with
  | nil => intro a ha; cases ha
  | cons x xs ih =>
    rw [List.map_cons, List.nodup_cons] at h
    intro a ha b hb e
    rcases List.mem_cons.1 ha with rfl | ha' <;> rcases List.mem_cons.1 hb with rfl | hb'
    · rfl
    · exact absurd (List.mem_map.2 ⟨b, hb', e.symm⟩) h.1
    · exact absurd (List.mem_map.2 ⟨a, ha', e⟩) h.1
    · exact ih h.2 a ha' b hb' e

/-! ## closed form of the permission normalisation; what it does not read -/

theorem norm_closed (m : Nat) : Gen.normalizeFilePermissions m = 512 * (m / 512) + low9 (m % 512) := by
  have := Nat.div_add_mod (Gen.normalizeFilePermissions m) 512
  rw [norm_div, norm_mod] at this
  exact this.symm

/-- two modes that differ at most in the permission bits other than owner-execute -/
def ModeEquiv (m m' : Nat) : Prop := m / 512 = m' / 512 ∧ (m &&& 64) = (m' &&& 64)

theorem norm_congr (m m' : Nat) (h : ModeEquiv m m') :
    Gen.normalizeFilePermissions m = Gen.normalizeFilePermissions m' := by
  rw [norm_closed, norm_closed, h.1]
  unfold low9
  rw [← and64_mod, ← and64_mod, h.2]

theorem and_high (m : Nat) : m &&& 61440 = ((m / 512) &&& 120) * 512 := by
  apply Nat.eq_of_testBit_eq
  intro i
  have e1 : (61440 : Nat) = 120 <<< 9 := by decide
  have e2 : ((m / 512) &&& 120) * 512 = ((m >>> 9) &&& 120) <<< 9 := by
    rw [Nat.shiftLeft_eq, Nat.shiftRight_eq_div_pow]
  rw [e2, e1]
  simp only [Nat.testBit_and, Nat.testBit_shiftLeft, Nat.testBit_shiftRight]
  by_cases h : 9 ≤ i
  · simp [h]
  · simp [h]

theorem sIsDir_congr (m m' : Nat) (h : ModeEquiv m m') : sIsDir m = sIsDir m' := by
  unfold sIsDir; rw [and_high m, and_high m', h.1]

theorem addFileAttr_congr (m m' : Nat) (h : ModeEquiv m m') : addFileAttr m = addFileAttr m' := by
  unfold addFileAttr; rw [norm_congr m m' h, sIsDir_congr m m' h]

theorem sIMode_eq (m : Nat) : sIMode m = m % 4096 := by
  unfold sIMode
  have : (4095 : Nat) = 2 ^ 12 - 1 := rfl
  rw [this, Nat.and_two_pow_sub_one_eq_mod]

theorem modeEquiv_sIMode (m m' : Nat) (h : ModeEquiv m m') : ModeEquiv (sIMode m) (sIMode m') := by
  obtain ⟨h1, h2⟩ := h
  constructor
  · rw [sIMode_eq, sIMode_eq]; omega
  · rw [and64_mod (sIMode m), and64_mod (sIMode m'), sIMode_eq, sIMode_eq]
    have a : m % 4096 % 512 = m % 512 := by omega
    have b : m' % 4096 % 512 = m' % 512 := by omega
    rw [a, b, ← and64_mod, ← and64_mod, h2]


/-! ## descriptions are functions of the sorted (key, member) pairs -/

theorem sort_map_key {α β : Type} (key : α → PathKey) (f : α → β) (l : List α) :
    (sortBy key l).map f =
      ((l.map (fun a => (key a, f a))).mergeSort (fun x y => pathLe x.1 y.1)).map Prod.snd := by
  unfold sortBy
  rw [← List.map_mergeSort (r := fun a b => pathLe (key a) (key b)) (f := fun a => (key a, f a))
        (s := fun x y => pathLe x.1 y.1) (l := l) (fun a _ b _ => rfl)]
  simp [List.map_map, Function.comp_def]

theorem run_congr (ops ops' : List Op) (h : ops.map Op.member = ops'.map Op.member) : run {} ops = run {} ops' := by
  rw [run_eq, run_eq]
  have : ops.map (fun o => o.member.row) = ops'.map (fun o => o.member.row) := by
    have := congrArg (List.map Member.row) h
    simpa [List.map_map, Function.comp_def] using this
  simp [h, this]

theorem buildWheel_congr (H : String → String) (p p' : WheelPlan) (hd : p.distInfo = p'.distInfo)
    (h : (wheelOps p).map Op.member = (wheelOps p').map Op.member) : buildWheel H p = buildWheel H p' := by
  unfold buildWheel; rw [run_congr _ _ h, hd]

theorem describeWheel_congr (H : String → String) (sde : Option String) (p p' : WheelPlan)
    (h : buildWheel H p = buildWheel H p') : describeWheel H sde p = describeWheel H sde p' := by
  unfold describeWheel; rw [h]

/-- the member `_copy_module` writes for a selected file -/
def SelFile.member (f : SelFile) : Member := ⟨f.target, addFileAttr f.stMode, f.digest, f.size⟩

theorem copyModule_members (root : PathKey) (l : List SelFile) :
    (copyModuleOps root l).map Op.member =
      ((l.map (fun f => (f.src, f.member))).mergeSort (fun x y => pathLe x.1 y.1)).map Prod.snd := by
  unfold copyModuleOps
  rw [sortBy_root, List.map_map, ← sort_map_key]
  rfl

theorem selectWheel_mem (rules : List IncludeRule) (tree : List FileEntry) (a : SelFile)
    (h : a ∈ selectWheel rules tree) : ∃ f ∈ tree, a.src = f.rel ∧
      a = ⟨f.rel, ((rules.find? fun r => r.sel f.rel).map fun r => r.target f.rel).getD "", f.stMode, f.digest, f.size⟩ := by
  unfold selectWheel at h
  rw [List.mem_filterMap] at h
  obtain ⟨f, hf, e⟩ := h
  refine ⟨f, hf, ?_⟩
  cases hr : (rules.find? fun r => r.sel f.rel) with
  | none => simp [hr] at e
  | some r => simp [hr] at e; subst e; simp

theorem selectWheel_inj (rules : List IncludeRule) (tree : List FileEntry) (nd : (tree.map (·.rel)).Nodup) :
    ∀ a ∈ selectWheel rules tree, ∀ b ∈ selectWheel rules tree, a.src = b.src → a = b := by
  intro a ha b hb e
  obtain ⟨f, hf, ef, ea⟩ := selectWheel_mem rules tree a ha
  obtain ⟨g, hg, eg, eb⟩ := selectWheel_mem rules tree b hb
  have : f = g := inj_of_nodup_map (·.rel) tree nd f hf g hg (by rw [← ef, ← eg, e])
  subst this; rw [ea, eb]

theorem selectSdist_inj (sel : PathKey → Bool) (tree : List FileEntry) (nd : (tree.map (·.rel)).Nodup) :
    ∀ a ∈ selectSdist sel tree, ∀ b ∈ selectSdist sel tree, a.rel = b.rel → a = b := by
  intro a ha b hb e
  unfold selectSdist at ha hb
  rw [List.mem_map] at ha hb
  obtain ⟨f, hf, rfl⟩ := ha
  obtain ⟨g, hg, rfl⟩ := hb
  have : f = g := inj_of_nodup_map (·.rel) tree nd f (List.mem_filter.1 hf).1 g (List.mem_filter.1 hg).1 e
  subst this; rfl


/-! ## what the descriptions do not read -/

/-- the cleaned header of a selected sdist file -/
def sdistEntry (mt : Int) (tarDir : String) (f : SdistFile) : TarMeta :=
  cleanTarinfo mt { name := tarDir ++ "/" ++ posix f.rel, mode := f.mode, uid := f.uid, gid := f.gid,
                    uname := f.uname, gname := f.gname, mtime := f.mtime, size := f.size, digest := f.digest }

theorem sdistEntries_eq (sde : Option String) (p : SdistPlan) :
    sdistEntries sde p = (sortBy (fun f => f.rel) p.files).map (sdistEntry (archiveMtime sde) p.tarDir) ++
      (match p.setupPy with
        | some (d, n) => [cleanTarinfo (archiveMtime sde) (freshTarInfo (p.tarDir ++ "/setup.py") n d)]
        | none => []) ++
      [cleanTarinfo (archiveMtime sde) (freshTarInfo (p.tarDir ++ "/PKG-INFO") p.pkgInfoSize p.pkgInfoDigest)] := rfl

theorem mem_setupEntry (mt : Int) (tarDir : String) (su : Option (String × Nat)) (e : TarMeta)
    (h : e ∈ (match su with
      | some (d, n) => [cleanTarinfo mt (freshTarInfo (tarDir ++ "/setup.py") n d)]
      | none => [])) :
    ∃ d n, e = cleanTarinfo mt (freshTarInfo (tarDir ++ "/setup.py") n d) := by
  cases su with
  | none => simp at h
  | some x => obtain ⟨d, n⟩ := x; simp at h; exact ⟨d, n, h⟩

theorem sdistEntry_val (mt : Int) (tarDir : String) (f : SdistFile) :
    sdistEntry mt tarDir f =
      ⟨tarDir ++ "/" ++ posix f.rel, Gen.normalizeFilePermissions f.mode, 0, 0, "", "", mt, f.size, f.digest⟩ := rfl

theorem sdist_files_congr (sde : Option String) (tarDir : String) (pd : String) (pn : Nat) (su : Option (String × Nat)) (l l' : List SdistFile)
    (h : l.map (fun f => (f.rel, sdistEntry (archiveMtime sde) tarDir f)) =
         l'.map (fun f => (f.rel, sdistEntry (archiveMtime sde) tarDir f))) :
    describeSdist sde ⟨tarDir, l, pd, pn, su⟩ = describeSdist sde ⟨tarDir, l', pd, pn, su⟩ := by
  unfold describeSdist
  rw [sdistEntries_eq, sdistEntries_eq]
  simp only
  rw [sort_map_key, sort_map_key, h]

theorem selectWheel_map (rules : List IncludeRule) (tree : List FileEntry) (g : FileEntry → FileEntry)
    (hg : ∀ f, (g f).rel = f.rel ∧ (g f).digest = f.digest ∧ (g f).size = f.size ∧ ModeEquiv (g f).stMode f.stMode) :
    (selectWheel rules (tree.map g)).map (fun f => (f.src, f.member)) =
      (selectWheel rules tree).map (fun f => (f.src, f.member)) := by
  unfold selectWheel
  rw [List.filterMap_map, List.map_filterMap, List.map_filterMap]
  have key : ∀ f : FileEntry,
      Option.map (fun f : SelFile => (f.src, f.member))
        (((fun f : FileEntry => Option.map (fun r : IncludeRule => (⟨f.rel, r.target f.rel, f.stMode, f.digest, f.size⟩ : SelFile))
          (List.find? (fun r => r.sel f.rel) rules)) ∘ g) f) =
      Option.map (fun f : SelFile => (f.src, f.member))
        (Option.map (fun r : IncludeRule => (⟨f.rel, r.target f.rel, f.stMode, f.digest, f.size⟩ : SelFile))
          (List.find? (fun r => r.sel f.rel) rules)) := by
    intro f
    obtain ⟨h1, h2, h3, h4⟩ := hg f
    simp only [Function.comp, h1]
    cases (rules.find? fun r => r.sel f.rel) with
    | none => rfl
    | some r => simp [SelFile.member, h2, h3, addFileAttr_congr _ _ h4]
  simp only [key]

theorem selectSdist_map (sde : Option String) (tarDir : String) (sel : PathKey → Bool) (tree : List FileEntry)
    (g : FileEntry → FileEntry)
    (hg : ∀ f, (g f).rel = f.rel ∧ (g f).digest = f.digest ∧ (g f).size = f.size ∧ ModeEquiv (g f).stMode f.stMode) :
    (selectSdist sel (tree.map g)).map (fun f => (f.rel, sdistEntry (archiveMtime sde) tarDir f)) =
      (selectSdist sel tree).map (fun f => (f.rel, sdistEntry (archiveMtime sde) tarDir f)) := by
  unfold selectSdist
  rw [List.filter_map, List.map_map, List.map_map, List.map_map]
  have hf : (fun f => sel f.rel) ∘ g = fun f => sel f.rel := by funext f; simp [(hg f).1]
  rw [hf]
  apply List.map_congr_left
  intro f _
  obtain ⟨h1, h2, h3, h4⟩ := hg f
  simp [sdistEntry_val, h1, h2, h3, norm_congr _ _ (modeEquiv_sIMode _ _ h4)]


/-! ## RECORD text is read back exactly by a csv reader -/

/-- inside quotes: the escaped field followed by the closing quote is read back exactly -/
theorem csvGo_quoted (f cur : List Char) (row : List (List Char)) (acc : List (List (List Char))) (rest : List Char) :
    csvGo .quo cur row acc (csvEscape f ++ '"' :: rest) = csvGo .qq (f.reverse ++ cur) row acc rest := by
  induction f generalizing cur with
  | nil => simp [csvEscape, csvGo]
  | cons c cs ih =>
    by_cases hc : c = '"'
    · subst hc
      simp only [csvEscape, if_pos, List.cons_append, csvGo, beq_self_eq_true, ite_true]
      rw [ih]; simp
    · have : (c == '"') = false := by simp [hc]
      simp [csvEscape, this, csvGo, ih]

/-- outside quotes: a field without special characters is read back exactly -/
theorem csvGo_plain (f cur : List Char) (row : List (List Char)) (acc : List (List (List Char))) (rest : List Char)
    (h : f.any csvSpecial = false) (hne : f ≠ []) :
    csvGo .unq cur row acc (f ++ rest) = csvGo .unq (f.reverse ++ cur) row acc rest ∧
    csvGo .start cur row acc (f ++ rest) = csvGo .unq (f.reverse ++ cur) row acc rest := by
  induction f generalizing cur with
  | nil => exact absurd rfl hne
  | cons c cs ih =>
    simp only [List.any_cons, Bool.or_eq_false_iff] at h
    obtain ⟨hc, hcs⟩ := h
    have h1 : (c == ',') = false ∧ (c == '"') = false ∧ (c == '\n') = false := by
      unfold csvSpecial at hc; simp only [Bool.or_eq_false_iff] at hc; exact ⟨hc.1.1, hc.1.2, hc.2⟩
    by_cases hn : cs = []
    · subst hn; simp [csvGo, h1.1, h1.2.1, h1.2.2]
    · have := ih (c :: cur) hcs hn
      simp only [List.cons_append, csvGo, h1.1, h1.2.1, h1.2.2, Bool.false_eq_true, if_false]
      rw [this.1]; simp

theorem csvGo_field (f : List Char) (row : List (List Char)) (acc : List (List (List Char))) (rest : List Char) :
    csvGo .start [] row acc (csvFieldC f ++ ',' :: rest) = csvGo .start [] (f :: row) acc rest ∧
    csvGo .start [] row acc (csvFieldC f ++ '\n' :: rest) = csvGo .start [] [] ((f :: row).reverse :: acc) rest := by
  unfold csvFieldC
  by_cases hs : f.any csvSpecial = true
  · simp only [hs, if_true, List.cons_append, List.append_assoc, List.singleton_append]
    constructor
    · rw [csvGo]; simp only [beq_self_eq_true, if_true]
      rw [csvGo_quoted]; simp [csvGo]
    · rw [csvGo]; simp only [beq_self_eq_true, if_true]
      rw [csvGo_quoted]; simp [csvGo]
  · have hs' : f.any csvSpecial = false := by simpa using hs
    simp only [hs', Bool.false_eq_true, if_false]
    by_cases hn : f = []
    · subst hn; simp [csvGo]
    · constructor
      · rw [(csvGo_plain f [] row acc _ hs' hn).2, csvGo]; simp
      · rw [(csvGo_plain f [] row acc _ hs' hn).2, csvGo]; simp

theorem csvGo_row (fields : List (List Char)) (hne : fields ≠ []) (row : List (List Char))
    (acc : List (List (List Char))) (rest : List Char) :
    csvGo .start [] row acc (csvRowC fields ++ rest) =
      csvGo .start [] [] ((fields.reverse ++ row).reverse :: acc) rest := by
  induction fields generalizing row with
  | nil => exact absurd rfl hne
  | cons f fs ih =>
    cases fs with
    | nil =>
      simp only [csvRowC, List.append_assoc, List.singleton_append]
      rw [(csvGo_field f row acc rest).2]; simp
    | cons g gs =>
      have : csvRowC (f :: g :: gs) = csvFieldC f ++ (',' :: csvRowC (g :: gs)) := rfl
      rw [this, List.append_assoc, List.cons_append, (csvGo_field f row acc _).1, ih (by simp)]
      simp

theorem csvGo_text (rows : List (List (List Char))) (hne : ∀ r ∈ rows, r ≠ []) (acc : List (List (List Char)))
    (rest : List Char) :
    csvGo .start [] [] acc (csvTextC rows ++ rest) = csvGo .start [] [] (rows.reverse ++ acc) rest := by
  induction rows generalizing acc with
  | nil => simp [csvTextC]
  | cons r rs ih =>
    have : csvTextC (r :: rs) = csvRowC r ++ csvTextC rs := by simp [csvTextC]
    rw [this, List.append_assoc, csvGo_row r (hne r (by simp)), ih (fun x hx => hne x (List.mem_cons_of_mem _ hx))]
    simp

/-- **a csv reader recovers exactly the rows that were written** -/
theorem csv_roundtrip (rows : List (List (List Char))) (hne : ∀ r ∈ rows, r ≠ []) :
    csvParse (csvTextC rows) = rows := by
  have := csvGo_text rows hne [] []
  simp only [List.append_nil] at this
  unfold csvParse
  rw [this]
  simp [csvGo]


/-! bridge from the `String` renderer of the model to the character-list renderer -/

theorem csvField_toList (s : String) : (csvField s).toList = csvFieldC s.toList := by
  unfold csvField csvFieldC
  by_cases h : s.toList.any csvSpecial = true
  · simp only [h, if_true, String.toList_ofList]
  · simp only [h, Bool.false_eq_true, if_false]

theorem joinWith_comma_toList (fs : List String) (hne : fs ≠ []) :
    (joinWith "," (fs.map csvField) ++ "\n").toList = csvRowC (fs.map String.toList) := by
  induction fs with
  | nil => exact absurd rfl hne
  | cons f gs ih =>
    cases gs with
    | nil => simp [joinWith, csvRowC, String.toList_append, csvField_toList]
    | cons g hs =>
      have ih' := ih (by simp)
      simp only [List.map_cons, joinWith, csvRowC, String.toList_append, csvField_toList] at ih' ⊢
      simp only [List.append_assoc]
      rw [ih']
      rfl

theorem csvLine_toList (fs : List String) (hne : fs ≠ []) : (csvLine fs).toList = csvRowC (fs.map String.toList) := by
  unfold csvLine; exact joinWith_comma_toList fs hne

theorem foldl_append_toList (l : List String) (acc : String) :
    (l.foldl (fun r s => r ++ s) acc).toList = acc.toList ++ (l.map String.toList).flatten := by
  induction l generalizing acc with
  | nil => simp
  | cons x xs ih => simp [ih, String.toList_append]

theorem join_toList (l : List String) : (String.join l).toList = (l.map String.toList).flatten := by
  unfold String.join; rw [foldl_append_toList]; simp

theorem recordText_toList (di : String) (recs : List Rec) :
    (recordText di recs).toList = csvTextC ((recordRows di recs).map (·.map String.toList)) := by
  unfold recordText csvTextC
  rw [join_toList, List.map_map, List.map_map]
  congr 1
  apply List.map_congr_left
  intro r hr
  have hne : r ≠ [] := by
    unfold recordRows at hr
    simp only [List.mem_append, List.mem_map, List.mem_singleton] at hr
    rcases hr with ⟨x, _, rfl⟩ | rfl <;> simp [recordRow]
  simp [Function.comp, csvLine_toList r hne]

theorem recordRows_ne (di : String) (recs : List Rec) : ∀ r ∈ (recordRows di recs).map (·.map String.toList), r ≠ [] := by
  intro r hr
  simp only [List.mem_map] at hr
  obtain ⟨x, hx, rfl⟩ := hr
  unfold recordRows at hx
  simp only [List.mem_append, List.mem_map, List.mem_singleton] at hx
  rcases hx with ⟨y, _, rfl⟩ | rfl <;> simp [recordRow]

/-- reading RECORD back with a csv reader gives exactly the rows `_write_record` wrote -/
theorem record_csv_roundtrip (di : String) (recs : List Rec) :
    csvParse (recordText di recs).toList = (recordRows di recs).map (·.map String.toList) := by
  rw [recordText_toList, csv_roundtrip _ (recordRows_ne di recs)]


/-! ## find_packages: the setup.py lists do not depend on the walk order -/

theorem strLe_trans (a b c : String) (h1 : strLe a b = true) (h2 : strLe b c = true) : strLe a c = true :=
  TransOrd.isLE_trans h1 h2

theorem strLe_total (a b : String) : (strLe a b || strLe b a) = true := by
  unfold strLe
  rw [OrientedCmp.eq_swap (cmp := compare) (a := a) (b := b)]
  cases compare b a <;> rfl

theorem strLe_antisymm (a b : String) (h1 : strLe a b = true) (h2 : strLe b a = true) : a = b := by
  unfold strLe at *
  rw [OrientedCmp.eq_swap (cmp := compare) (a := a) (b := b)] at h1
  have : compare b a = .eq := by cases h : compare b a <;> simp [h] at h1 h2 ⊢
  exact (compare_eq_iff_eq.1 this).symm

theorem sortStr_perm (l₁ l₂ : List String) (hp : l₁.Perm l₂) : sortStr l₁ = sortStr l₂ := by
  unfold sortStr
  apply List.Perm.eq_of_pairwise (le := fun a b => strLe a b = true)
  · intro a b _ _ h1 h2; exact strLe_antisymm a b h1 h2
  · exact List.pairwise_mergeSort strLe_trans strLe_total l₁
  · exact List.pairwise_mergeSort strLe_trans strLe_total l₂
  · exact (List.mergeSort_perm l₁ _).trans (hp.trans (List.mergeSort_perm l₂ _).symm)

theorem subPkgs_perm (w w' : List WalkDir) (h : w'.Perm w) : (subPkgs w').Perm (subPkgs w) :=
  (h.filter _).map _

theorem nearestPkg_perm (n : String) (s s' : List PathKey) (h : s'.Perm s) (r : PathKey) :
    nearestPkg n s' r = nearestPkg n s r := by
  unfold nearestPkg
  have : (fun i => s'.contains (List.take i r)) = (fun i => s.contains (List.take i r)) := by
    funext i
    have := h.mem_iff (a := List.take i r)
    by_cases hm : List.take i r ∈ s
    · simp [hm, this.2 hm]
    · have hm' : List.take i r ∉ s' := fun x => hm (this.1 x)
      simp [hm, hm']
  rw [this]

theorem dirEntries_perm (n : String) (s s' : List PathKey) (h : s'.Perm s) (d : WalkDir) :
    dirEntries n s' d = dirEntries n s d := by
  unfold dirEntries; rw [nearestPkg_perm n s s' h]

theorem pkgDataPairs_perm (n : String) (w w' : List WalkDir) (h : w'.Perm w) :
    (pkgDataPairs n w').Perm (pkgDataPairs n w) := by
  unfold pkgDataPairs
  apply List.Perm.cons
  have e : dirEntries n (subPkgs w') = dirEntries n (subPkgs w) := by
    funext d; exact dirEntries_perm n _ _ (subPkgs_perm w w' h) d
  rw [e]
  exact List.Perm.flatMap_right _ h


theorem gen_setup_sorted : Gen.sdistPackagesSorted = true ∧ Gen.sdistPackageDataSorted = true := ⟨rfl, rfl⟩

theorem setupPackages_perm (n : String) (w w' : List WalkDir) (h : w'.Perm w) :
    setupPackages n w' = setupPackages n w := by
  unfold setupPackages
  simp only [gen_setup_sorted.1, if_true]
  exact sortStr_perm _ _ (List.Perm.cons _ ((subPkgs_perm w w' h).map _))

theorem setupPackageData_perm (n : String) (w w' : List WalkDir) (h : w'.Perm w) :
    setupPackageData n w' = setupPackageData n w := by
  unfold setupPackageData
  have hp := pkgDataPairs_perm n w w' h
  simp only [gen_setup_sorted.2, if_true]
  rw [sortStr_perm _ _ (hp.map (·.1))]
  apply List.map_congr_left
  intro k _
  rw [sortStr_perm _ _ ((hp.filter _).map _)]


/-! ## the builder's own call sequence has distinct targets under ConfigDistinct -/

theorem under_append (d x : String) : under d (d ++ "/" ++ x) = true := by
  unfold under
  rw [List.isPrefixOf_iff_prefix]
  refine ⟨x.toList, ?_⟩
  simp [String.toList_append]

theorem under_scripts (d b : String) : under d (d ++ "/scripts/" ++ b) = true := by
  unfold under
  rw [List.isPrefixOf_iff_prefix]
  refine ⟨"scripts/".toList ++ b.toList, ?_⟩
  simp [String.toList_append]

theorem under_incomparable (d e t : String) (h1 : under d t = true) (h2 : under e t = true) :
    under d (e ++ "/") = true ∨ under e (d ++ "/") = true := by
  unfold under at *
  rw [List.isPrefixOf_iff_prefix] at *
  rcases List.prefix_or_prefix_of_prefix h1 h2 with h | h
  · left; simpa [String.toList_append] using h
  · right; simpa [String.toList_append] using h

theorem sortBy_perm_self {α : Type} (key : α → PathKey) (l : List α) : (sortBy key l).Perm l := by
  unfold sortBy; exact List.mergeSort_perm _ _

theorem wheelOps_targets_perm (p : WheelPlan) :
    ((wheelOps p).map Op.target).Perm (bodyTargets p ++ scriptTargets p ++ diTargets p) := by
  unfold wheelOps
  rw [List.map_append, List.map_append]
  apply List.Perm.append
  · apply List.Perm.append
    · unfold bodyTargets
      cases p.editable
      · simp only [Bool.false_eq_true, if_false]
        unfold copyModuleOps
        rw [if_pos gen_sorted.1, List.map_map]
        exact (sortBy_perm_self _ _).map _
      · simp [Op.target]
    · unfold copyFileScriptsOps scriptTargets
      rw [List.map_map]; exact List.Perm.refl _
  · unfold copyDistInfoOps diTargets
    rw [if_pos gen_sorted.2.1, List.map_map]
    exact (sortBy_perm_self _ _).map _

theorem nodup_map_append_left (pre : String) (l : List String) (h : l.Nodup) : (l.map (fun x => pre ++ x)).Nodup := by
  induction l with
  | nil => simp
  | cons a as ih =>
    rw [List.nodup_cons] at h
    rw [List.map_cons, List.nodup_cons]
    refine ⟨?_, ih h.2⟩
    intro hm
    rw [List.mem_map] at hm
    obtain ⟨b, hb, e⟩ := hm
    have : b = a := (String.append_right_inj pre).1 e
    subst this; exact h.1 hb

theorem builder_distinct_targets (p : WheelPlan) (h : ConfigDistinct p) : DistinctTargets p.distInfo (wheelOps p) := by
  obtain ⟨hb, hbu, hs, hd, hrec, hinc1, hinc2⟩ := h
  have hsT : (scriptTargets p).Nodup := by
    unfold scriptTargets
    have := nodup_map_append_left (p.dataFolder ++ "/scripts/") _ hs
    rw [List.map_map] at this; exact this
  have hdT : (diTargets p).Nodup := by
    unfold diTargets
    have := nodup_map_append_left (p.distInfo ++ "/") _ hd
    rw [List.map_map] at this; exact this
  have us : ∀ t ∈ scriptTargets p, under p.dataFolder t = true := by
    intro t ht; unfold scriptTargets at ht; rw [List.mem_map] at ht
    obtain ⟨s, _, rfl⟩ := ht; exact under_scripts _ _
  have ud : ∀ t ∈ diTargets p, under p.distInfo t = true := by
    intro t ht; unfold diTargets at ht; rw [List.mem_map] at ht
    obtain ⟨f, _, rfl⟩ := ht; exact under_append _ _
  have incomp : ∀ t, under p.dataFolder t = true → under p.distInfo t = true → False := by
    intro t h1 h2
    rcases under_incomparable _ _ _ h1 h2 with h | h
    · rw [hinc2] at h; cases h
    · rw [hinc1] at h; cases h
  have hall : (bodyTargets p ++ scriptTargets p ++ diTargets p).Nodup := by
    rw [List.nodup_append]
    refine ⟨?_, hdT, ?_⟩
    · rw [List.nodup_append]
      refine ⟨hb, hsT, ?_⟩
      intro a ha b hb' e; subst e
      have := (hbu a ha).1; rw [us a hb'] at this; cases this
    · intro a ha b hb' e; subst e
      rw [List.mem_append] at ha
      rcases ha with ha | ha
      · have := (hbu a ha).2; rw [ud a hb'] at this; cases this
      · exact incomp a (us a ha) (ud a hb')
  have hrecT : recordPath p.distInfo ∉ bodyTargets p ++ scriptTargets p ++ diTargets p := by
    have ur : under p.distInfo (recordPath p.distInfo) = true := by
      unfold recordPath; rw [gen_recordSuffix]
      have := under_append p.distInfo "RECORD"
      have e : p.distInfo ++ "/" ++ "RECORD" = p.distInfo ++ "/RECORD" := by
        rw [String.append_assoc]; rfl
      rw [e] at this; exact this
    intro hm
    rw [List.mem_append, List.mem_append] at hm
    rcases hm with (hm | hm) | hm
    · have := (hbu _ hm).2; rw [ur] at this; cases this
    · exact incomp _ (us _ hm) ur
    · unfold diTargets at hm; rw [List.mem_map] at hm
      obtain ⟨f, hf, e⟩ := hm
      unfold recordPath at e; rw [gen_recordSuffix] at e
      have e' : p.distInfo ++ "/" ++ posix f.rel = p.distInfo ++ "/" ++ "RECORD" := by
        rw [e, String.append_assoc]; rfl
      have := (String.append_right_inj (p.distInfo ++ "/")).1 e'
      exact hrec (List.mem_map.2 ⟨f, hf, this⟩)
  have perm := wheelOps_targets_perm p
  exact ⟨perm.nodup_iff.2 hall, fun hm => hrecT (perm.mem_iff.1 hm)⟩


/-! ## glob rules that avoid a top-level directory select nothing below it -/

theorem matchSegs_not_reached (pat : Select.Pattern) (D : String) (h : patternReaches pat D = false)
    (isDir : Bool) (rest : List String) : Select.matchSegs pat.dirOnly isDir pat.segs (D :: rest) = false := by
  unfold patternReaches at h
  cases hs : pat.segs with
  | nil => rw [hs] at h; cases h
  | cons s ss =>
    rw [hs] at h
    cases s with
    | dstar => cases h
    | wild w => simp only at h; simp [Select.matchSegs, h]

theorem matchSegs_nil_wild (pat : Select.Pattern) (D : String) (h : patternReaches pat D = false) (isDir : Bool) :
    Select.matchSegs pat.dirOnly isDir pat.segs [] = false := by
  unfold patternReaches at h
  cases hs : pat.segs with
  | nil => rw [hs] at h; cases h
  | cons s ss =>
    rw [hs] at h
    cases s with
    | dstar => cases h
    | wild w => simp [Select.matchSegs]

theorem sel_avoided (g : GlobSpec) (D : String) (h : g.avoids D = true) (x : String) (rest : List String) :
    g.sel (D :: x :: rest) = false := by
  unfold GlobSpec.sel
  unfold GlobSpec.avoids at h
  cases hb : g.base with
  | nil =>
    rw [hb] at h
    have hr : patternReaches g.pat D = false := by simpa using h
    simp only [Select.stripBase]
    have h1 : Select.globMatch g.pat (D :: x :: rest) false = false := matchSegs_not_reached g.pat D hr false _
    have h2 : ((List.range (D :: x :: rest).length).any fun k => Select.globMatch g.pat ((D :: x :: rest).take k) true) = false := by
      rw [List.any_eq_false]
      intro k _
      cases k with
      | zero => simpa [Select.globMatch] using matchSegs_nil_wild g.pat D hr true
      | succ k => simpa [Select.globMatch] using matchSegs_not_reached g.pat D hr true _
    rw [h1, h2]; simp
  | cons b bs =>
    rw [hb] at h
    have : (b == D) = false := by simpa using h
    simp [Select.stripBase, this]

theorem sel_pycache (g : GlobSpec) (p : PathKey) (h : p.contains Gen.pycacheDirName = true) : g.sel p = false := by
  unfold GlobSpec.sel; simp only [h, Bool.not_true, Bool.false_and]

theorem sel_leftover (g : GlobSpec) (tops : List String) (hav : ∀ D ∈ tops, g.avoids D = true) (p : PathKey)
    (hl : isLeftover tops p = true) : g.sel p = false := by
  unfold isLeftover at hl
  by_cases hp : p.contains Gen.pycacheDirName = true
  · exact sel_pycache g p hp
  · simp only [hp, Bool.false_or] at hl
    match p, hl with
    | D :: x :: rest, hl =>
      have : D ∈ tops := by simpa using hl
      exact sel_avoided g D (hav D this) x rest

theorem wheelOps_length (p : WheelPlan) (he : p.editable = false) :
    (wheelOps p).length = p.toAdd.length + p.scripts.length + p.diFiles.length := by
  unfold wheelOps copyModuleOps copyFileScriptsOps copyDistInfoOps
  simp only [he, Bool.false_eq_true, if_false, List.length_append, List.length_map, if_pos gen_sorted.1, if_pos gen_sorted.2.1]
  rw [(sortBy_perm_self _ _).length_eq, (sortBy_perm_self _ _).length_eq]

theorem describeWheel_none_length (H : String → String) (p : WheelPlan) (he : p.editable = false) :
    ∃ es, describeWheel H none p = .ok es ∧ es.length = p.toAdd.length + p.scripts.length + p.diFiles.length + 1 := by
  refine ⟨(buildWheel H p).members.map fun m => ⟨m, wheelDefault⟩, rfl, ?_⟩
  rw [List.length_map, buildWheel_members, List.length_append, List.length_map, wheelOps_length p he]
  rfl


/-! ## the guarded writers (repo fix a8f41e9): success ⇔ distinct targets -/

/-- no operation targets a name that is already there or that an earlier one used -/
def fresh : List String → List Op → Bool
  | _, [] => true
  | names, o :: os => !names.contains o.target && fresh (names ++ [o.target]) os

theorem step_paths (s : St) (o : Op) : (step s o).members.map (·.path) = s.members.map (·.path) ++ [o.target] := by
  rw [step_eq]; simp [Op.member_path]

theorem runC_eq (s : St) (ops : List Op) :
    runC s ops = if fresh (s.members.map (·.path)) ops then .ok (run s ops) else .error .runtime := by
  induction ops generalizing s with
  | nil => simp [runC, fresh, run]
  | cons o os ih =>
    show (match stepC s o with | .ok s' => runC s' os | .error e => .error e) = _
    unfold stepC
    by_cases h : (s.members.map (·.path)).contains o.target = true
    · rw [if_pos h]
      have : fresh (s.members.map (·.path)) (o :: os) = false := by simp only [fresh, h, Bool.not_true, Bool.false_and]
      rw [this]; rfl
    · rw [if_neg h]
      have h' : (s.members.map (·.path)).contains o.target = false := by simpa using h
      have : fresh (s.members.map (·.path)) (o :: os) = fresh (s.members.map (·.path) ++ [o.target]) os := by
        simp only [fresh, h', Bool.not_false, Bool.true_and]
      rw [this]
      show runC (step s o) os = _
      rw [ih, step_paths]
      rfl

theorem fresh_iff (names : List String) (ops : List Op) :
    fresh names ops = true ↔ (ops.map Op.target).Nodup ∧ ∀ t ∈ ops.map Op.target, t ∉ names := by
  induction ops generalizing names with
  | nil => simp [fresh]
  | cons o os ih =>
    rw [fresh, Bool.and_eq_true, ih, List.map_cons, List.nodup_cons]
    have hc : (!names.contains o.target) = true ↔ o.target ∉ names := by simp
    rw [hc]
    constructor
    · rintro ⟨h1, h2, h3⟩
      refine ⟨⟨fun hm => ?_, h2⟩, fun t ht => ?_⟩
      · exact h3 _ hm (List.mem_append_right _ (List.mem_singleton.2 rfl))
      · rcases List.mem_cons.1 ht with rfl | ht'
        · exact h1
        · exact fun hn => h3 t ht' (List.mem_append_left _ hn)
    · rintro ⟨⟨h1, h2⟩, h3⟩
      refine ⟨h3 _ (List.mem_cons_self), h2, fun t ht hm => ?_⟩
      rcases List.mem_append.1 hm with hm | hm
      · exact h3 t (List.mem_cons_of_mem _ ht) hm
      · rw [List.mem_singleton] at hm; subst hm; exact h1 ht

theorem runC_ok_iff (ops : List Op) (s : St) :
    runC {} ops = .ok s ↔ (ops.map Op.target).Nodup ∧ s = run {} ops := by
  rw [runC_eq]
  have : fresh (({} : St).members.map (·.path)) ops = true ↔ (ops.map Op.target).Nodup := by
    rw [fresh_iff]; simp
  by_cases h : fresh (({} : St).members.map (·.path)) ops = true
  · simp only [h, if_true, Except.ok.injEq]
    exact ⟨fun e => ⟨this.1 h, e.symm⟩, fun e => e.2.symm⟩
  · simp only [h, Bool.false_eq_true, if_false]
    constructor
    · intro e; cases e
    · intro e; exact absurd (this.2 e.1) h

/-- **the guarded build succeeds exactly on `DistinctTargets`, and then it is the bookkeeping result** -/
theorem buildWheelC_ok_iff (H : String → String) (p : WheelPlan) (s : St) :
    buildWheelC H p = .ok s ↔ DistinctTargets p.distInfo (wheelOps p) ∧ s = buildWheel H p := by
  unfold buildWheelC DistinctTargets
  cases hr : runC {} (wheelOps p) with
  | error e =>
    simp only
    constructor
    · intro h; cases h
    · rintro ⟨⟨hn, _⟩, _⟩
      have := (runC_ok_iff (wheelOps p) (run {} (wheelOps p))).2 ⟨hn, rfl⟩
      rw [hr] at this; cases this
  | ok s0 =>
    obtain ⟨hn, rfl⟩ := (runC_ok_iff _ _).1 hr
    simp only [writeRecordC, stepC, Op.target]
    have hp : (run {} (wheelOps p)).members.map (·.path) = (wheelOps p).map Op.target := by
      rw [run_members, List.map_map]; exact List.map_congr_left (fun o _ => Op.member_path o)
    rw [hp]
    by_cases hm : ((wheelOps p).map Op.target).contains (recordPath p.distInfo) = true
    · simp only [hm, if_true]
      constructor
      · intro h; cases h
      · rintro ⟨⟨_, hne⟩, _⟩; exact absurd (by simpa using hm) hne
    · have hm' : ((wheelOps p).map Op.target).contains (recordPath p.distInfo) = false := by simpa using hm
      simp only [hm', Bool.false_eq_true, if_false, Except.ok.injEq]
      constructor
      · intro e; exact ⟨⟨hn, by simpa using hm'⟩, e.symm⟩
      · rintro ⟨_, e⟩; exact e.symm

/-! ## the guarded build depends on the operations only through the members they write -/

theorem runC_congr (ops ops' : List Op) (h : ops.map Op.member = ops'.map Op.member) : runC {} ops = runC {} ops' := by
  rw [runC_eq, runC_eq, run_congr _ _ h]
  have ht : ops.map Op.target = ops'.map Op.target := by
    have := congrArg (List.map (·.path)) h
    simp only [List.map_map] at this
    rw [← List.map_congr_left (fun o _ => Op.member_path o), ← List.map_congr_left (fun o _ => Op.member_path o)]
    exact this
  have hf : fresh (({} : St).members.map (·.path)) ops = fresh (({} : St).members.map (·.path)) ops' := by
    rw [Bool.eq_iff_iff, fresh_iff, fresh_iff, ht]
  rw [hf]

theorem buildWheelC_congr (H : String → String) (p p' : WheelPlan) (hd : p.distInfo = p'.distInfo)
    (h : (wheelOps p).map Op.member = (wheelOps p').map Op.member) : buildWheelC H p = buildWheelC H p' := by
  unfold buildWheelC; rw [runC_congr _ _ h, hd]

theorem describe_both_congr (H : String → String) (sde : Option String) (p p' : WheelPlan) (hd : p.distInfo = p'.distInfo)
    (h : (wheelOps p).map Op.member = (wheelOps p').map Op.member) :
    describeWheel H sde p = describeWheel H sde p' ∧ describeWheelC H sde p = describeWheelC H sde p' := by
  refine ⟨describeWheel_congr H sde p p' (buildWheel_congr H p p' hd h), ?_⟩
  unfold describeWheelC; rw [buildWheelC_congr H p p' hd h]

/-- on success the wheel really written is the one the bookkeeping describes -/
theorem describeWheelC_ok (H : String → String) (sde : Option String) (p : WheelPlan) (es : List ZipEntry)
    (h : describeWheelC H sde p = .ok es) : describeWheel H sde p = .ok es ∧ DistinctTargets p.distInfo (wheelOps p) := by
  unfold describeWheelC at h
  unfold describeWheel
  cases hz : zipfileDateTime sde with
  | error e => simp [hz] at h
  | ok dt =>
    simp only [hz] at h ⊢
    cases hb : buildWheelC H p with
    | error e => simp [hb] at h
    | ok s =>
      simp only [hb, Except.ok.injEq] at h
      obtain ⟨hd, rfl⟩ := (buildWheelC_ok_iff H p s).1 hb
      exact ⟨by rw [h], hd⟩

/-- member lists agree under a permutation of the walk and of the dist-info listing -/
theorem perm_members_eq (p : WheelPlan) (rules : List IncludeRule) (tree tree' : List FileEntry) (di' : List DiFile)
    (ht : tree'.Perm tree) (hd : di'.Perm p.diFiles)
    (ndt : (tree.map (·.rel)).Nodup) (ndd : (p.diFiles.map (·.rel)).Nodup) :
    wheelOps { p with toAdd := selectWheel rules tree', diFiles := di' } =
    wheelOps { p with toAdd := selectWheel rules tree } := by
  have h1 : copyModuleOps p.root (selectWheel rules tree') = copyModuleOps p.root (selectWheel rules tree) := by
    unfold copyModuleOps
    rw [if_pos gen_sorted.1, if_pos gen_sorted.1, sortBy_root, sortBy_root]
    have ndt' : (tree'.map (·.rel)).Nodup := (ht.map _).nodup_iff.2 ndt
    have hp : (selectWheel rules tree').Perm (selectWheel rules tree) := List.Perm.filterMap _ ht
    rw [sortBy_perm _ _ _ hp (selectWheel_inj rules tree' ndt')]
  have h2 : copyDistInfoOps p.diSource p.distInfo di' = copyDistInfoOps p.diSource p.distInfo p.diFiles := by
    unfold copyDistInfoOps
    rw [if_pos gen_sorted.2.1, if_pos gen_sorted.2.1, sortBy_root, sortBy_root]
    have ndd' : (di'.map (·.rel)).Nodup := (hd.map _).nodup_iff.2 ndd
    rw [sortBy_perm _ _ _ hd (inj_of_nodup_map _ _ ndd')]
  simp only [wheelOps, h1, h2]

theorem meta_members_eq (p : WheelPlan) (rules : List IncludeRule) (tree : List FileEntry) (root' : PathKey)
    (g : FileEntry → FileEntry)
    (hg : ∀ f, (g f).rel = f.rel ∧ (g f).digest = f.digest ∧ (g f).size = f.size ∧ ModeEquiv (g f).stMode f.stMode) :
    (wheelOps { p with root := root', toAdd := selectWheel rules (tree.map g) }).map Op.member =
    (wheelOps { p with toAdd := selectWheel rules tree }).map Op.member := by
  simp only [wheelOps]
  cases p.editable
  · simp only [Bool.false_eq_true, if_false, List.map_append, copyModule_members, selectWheel_map rules tree g hg]
  · rfl

end Poetry.Build
