/-
Helper lemmas about the build model (Model/Build.lean) for C01 and C08:
permission bits of the GENERATED `normalizeFilePermissions`, the record state machine, names, paths,
sorting independent of listing order, timestamps.
-/
import PoetryVerif.Model.Build

set_option linter.unusedSimpArgs false
set_option linter.unusedVariables false

namespace Poetry.Build
open Poetry

/-! ## permission bits -/

/-- closed form of the generated function on the low 9 bits -/
def low9 (r : Nat) : Nat := if r &&& 64 != 0 then 493 else 420

theorem norm_unfold (m : Nat) : Gen.normalizeFilePermissions m =
    if (m &&& 64) != 0 then (((m ||| 420) ^^^ ((m ||| 420) &&& 91)) ||| 73) else ((m ||| 420) ^^^ ((m ||| 420) &&& 91)) := by
  unfold Gen.normalizeFilePermissions
  simp only [Id.run, pure]

theorem low_table : ∀ r : Fin 512,
    (if (r.val &&& 64) != 0 then (((r.val ||| 420) ^^^ ((r.val ||| 420) &&& 91)) ||| 73) else ((r.val ||| 420) ^^^ ((r.val ||| 420) &&& 91)))
      = low9 r.val := by decide +kernel

theorem and64_mod (m : Nat) : m &&& 64 = (m % 512) &&& 64 := by
  have h : m &&& 64 < 2 ^ 9 := Nat.lt_of_le_of_lt Nat.and_le_right (by decide)
  have := Nat.and_mod_two_pow (a := m) (b := 64) (n := 9)
  rw [Nat.mod_eq_of_lt h] at this
  rw [this]

theorem norm_mod (m : Nat) : Gen.normalizeFilePermissions m % 512 = low9 (m % 512) := by
  rw [norm_unfold, ← low_table ⟨m % 512, Nat.mod_lt _ (by decide)⟩]
  simp only
  rw [← and64_mod m]
  have e : (512 : Nat) = 2 ^ 9 := rfl
  split
  · rw [e]; simp only [Nat.or_mod_two_pow, Nat.xor_mod_two_pow, Nat.and_mod_two_pow]
  · rw [e]; simp only [Nat.or_mod_two_pow, Nat.xor_mod_two_pow, Nat.and_mod_two_pow]

theorem norm_div (m : Nat) : Gen.normalizeFilePermissions m / 512 = m / 512 := by
  rw [norm_unfold]
  have e : (512 : Nat) = 2 ^ 9 := rfl
  rw [e]
  simp only [← Nat.shiftRight_eq_div_pow]
  split <;> simp [Nat.shiftRight_or_distrib, Nat.shiftRight_xor_distrib, Nat.shiftRight_and_distrib]

/-! ## record state machine -/

/-- the member an operation writes -/
def Op.member : Op → Member
  | .addFile p m d n => ⟨p, addFileAttr m, d, n⟩
  | .writeToZip p d n => ⟨p, writeAttr, d, n⟩

theorem Op.member_path (o : Op) : o.member.path = o.target := by cases o <;> rfl

theorem step_eq (s : St) (o : Op) :
    step s o = { members := s.members ++ [o.member], records := s.records ++ [o.member.row] } := by
  cases o <;> rfl

theorem run_eq (s : St) (ops : List Op) :
    run s ops = { members := s.members ++ ops.map Op.member,
                  records := s.records ++ ops.map (fun o => o.member.row) } := by
  induction ops generalizing s with
  | nil => simp [run]
  | cons o os ih =>
    have : run s (o :: os) = run (step s o) os := rfl
    rw [this, ih, step_eq]; simp

/-- invariant of the record bookkeeping -/
def Inv (s : St) : Prop := s.records = s.members.map Member.row

theorem inv_init : Inv {} := rfl

theorem step_inv (s : St) (o : Op) (h : Inv s) : Inv (step s o) := by
  unfold Inv at *; rw [step_eq]; simp [h]

theorem run_inv (s : St) (ops : List Op) (h : Inv s) : Inv (run s ops) := by
  induction ops generalizing s with
  | nil => exact h
  | cons o os ih => exact ih (step s o) (step_inv s o h)

theorem writeRecord_inv (H : String → String) (di : String) (s : St) (h : Inv s) : Inv (writeRecord H di s) :=
  step_inv s _ h

/-- the row `_write_record` prints for a member -/
def memberRow (m : Member) : List String := [m.path, "sha256=" ++ m.digest, toString m.size]

theorem recordRow_row (m : Member) : recordRow m.row = memberRow m := rfl

theorem recordRows_of_inv (di : String) (s : St) (h : Inv s) :
    recordRows di s.records = s.members.map memberRow ++ [[recordPath di, "", ""]] := by
  unfold recordRows; rw [h]; simp [List.map_map, Function.comp_def, recordRow_row]

theorem writeRecord_members (H : String → String) (di : String) (s : St) :
    (writeRecord H di s).members =
      s.members ++ [⟨recordPath di, writeAttr, H (recordText di s.records), (recordText di s.records).utf8ByteSize⟩] := rfl

theorem nodup_append_singleton {α : Type} {l : List α} {a : α} (h : l.Nodup) (ha : a ∉ l) : (l ++ [a]).Nodup := by
  rw [List.nodup_append]
  refine ⟨h, by simp, ?_⟩
  intro x hx y hy
  simp at hy; subst hy
  intro e; subst e; exact ha hx

/-! ## names and paths -/

theorem splitOnChar_ne_nil (c : Char) (s : List Char) : splitOnChar c s ≠ [] := by
  induction s with
  | nil => simp [splitOnChar]
  | cons x xs ih =>
    unfold splitOnChar
    split
    · simp
    · split <;> simp

theorem splitOnChar_of_not_mem (c : Char) (a : List Char) (h : c ∉ a) : splitOnChar c a = [a] := by
  induction a with
  | nil => rfl
  | cons x xs ih =>
    have hx : (x == c) = false := by
      simp only [List.mem_cons, not_or] at h
      simp; exact fun e => h.1 e.symm
    have hxs : c ∉ xs := fun m => h (List.mem_cons_of_mem _ m)
    unfold splitOnChar
    simp [hx, ih hxs]

theorem splitOnChar_append (c : Char) (a rest : List Char) (h : c ∉ a) :
    splitOnChar c (a ++ c :: rest) = a :: splitOnChar c rest := by
  induction a with
  | nil => simp [splitOnChar]
  | cons x xs ih =>
    have hx : (x == c) = false := by
      simp only [List.mem_cons, not_or] at h
      simp; exact fun e => h.1 e.symm
    have hxs : c ∉ xs := fun m => h (List.mem_cons_of_mem _ m)
    rw [List.cons_append, splitOnChar]
    simp [hx, ih hxs]

theorem distNameChars_no_dash (cs : List Char) : '-' ∉ distNameChars cs := by
  unfold distNameChars
  intro h
  rw [List.mem_map] at h
  obtain ⟨c, _, hc⟩ := h
  by_cases e : c = '-'
  · subst e; simp at hc
  · have : (c == '-') = false := by simp [e]
    simp [this] at hc; exact e hc

theorem split_tag (b : Bool) : splitOnChar '-' (tagChars b ++ ".whl".toList) =
    [if b then "py2.py3".toList else "py3".toList, "none".toList, "any.whl".toList] := by
  cases b <;> decide

theorem split_wheelFilename (dn ver : List Char) (b : Bool) (hd : '-' ∉ dn) (hv : '-' ∉ ver) :
    splitOnChar '-' (wheelFilenameChars dn ver (tagChars b)) =
      [dn, ver, if b then "py2.py3".toList else "py3".toList, "none".toList, "any.whl".toList] := by
  unfold wheelFilenameChars
  rw [splitOnChar_append _ _ _ hd]
  rw [splitOnChar_append _ _ _ hv, split_tag]

theorem split_distInfo (dn ver : List Char) (hd : '-' ∉ dn) (hv : '-' ∉ ver) :
    splitOnChar '-' (distInfoChars dn ver) = [dn, ver ++ ".dist".toList, "info".toList] := by
  unfold distInfoChars
  have e : ver ++ ".dist-info".toList = (ver ++ ".dist".toList) ++ ('-' :: "info".toList) := by simp
  have hv' : '-' ∉ ver ++ ".dist".toList := by
    intro m; rw [List.mem_append] at m; rcases m with m | m
    · exact hv m
    · revert m; decide
  rw [splitOnChar_append _ _ _ hd, e, splitOnChar_append _ _ _ hv']; rfl

theorem split_join (comps : List (List Char)) (hne : comps ≠ []) (h : ∀ c ∈ comps, '/' ∉ c) :
    splitOnChar '/' (joinSlash comps) = comps := by
  induction comps with
  | nil => exact absurd rfl hne
  | cons c cs ih =>
    cases cs with
    | nil => simp [joinSlash]; exact splitOnChar_of_not_mem _ _ (h c (by simp))
    | cons c' cs' =>
      have : joinSlash (c :: c' :: cs') = c ++ '/' :: joinSlash (c' :: cs') := rfl
      rw [this, splitOnChar_append _ _ _ (h c (by simp)), ih (by simp) (fun x hx => h x (List.mem_cons_of_mem _ hx))]


/-! ## modes of members; dist-info members -/

theorem low9_cases (r : Nat) : low9 r = 420 ∨ low9 r = 493 := by
  unfold low9; split <;> simp

theorem writeAttr_mode : (writeAttr >>> 16) = 420 := by decide

theorem addFileAttr_mode (m : Nat) : (addFileAttr m) >>> 16 = Gen.normalizeFilePermissions m % 65536 := by
  unfold addFileAttr
  have e : (65535 : Nat) = 2 ^ 16 - 1 := rfl
  simp only
  split
  · rw [Nat.shiftRight_or_distrib, Nat.shiftLeft_shiftRight, e, Nat.and_two_pow_sub_one_eq_mod]; simp
  · rw [Nat.shiftLeft_shiftRight, e, Nat.and_two_pow_sub_one_eq_mod]

theorem op_member_mode (o : Op) : o.member.mode % 512 = 420 ∨ o.member.mode % 512 = 493 := by
  cases o with
  | addFile p m d n =>
    show ((addFileAttr m) >>> 16) % 512 = 420 ∨ ((addFileAttr m) >>> 16) % 512 = 493
    rw [addFileAttr_mode, Nat.mod_mod_of_dvd _ (by decide : 512 ∣ 65536), norm_mod]
    exact low9_cases _
  | writeToZip p d n => left; show (writeAttr >>> 16) % 512 = 420; rw [writeAttr_mode]

theorem mem_sortBy {α : Type} (key : α → PathKey) (xs : List α) (x : α) : x ∈ sortBy key xs ↔ x ∈ xs := by
  unfold sortBy; exact (List.mergeSort_perm xs _).mem_iff

theorem run_members (ops : List Op) : (run {} ops).members = ops.map Op.member := by
  rw [run_eq]; simp

theorem buildWheel_members (H : String → String) (p : WheelPlan) :
    (buildWheel H p).members = (wheelOps p).map Op.member ++
      [⟨recordPath p.distInfo, writeAttr, H (recordText p.distInfo (run {} (wheelOps p)).records),
        (recordText p.distInfo (run {} (wheelOps p)).records).utf8ByteSize⟩] := by
  unfold buildWheel; rw [writeRecord_members, run_members]

theorem distInfo_member (H : String → String) (p : WheelPlan) (f : DiFile) (hf : f ∈ p.diFiles) :
    (⟨p.distInfo ++ "/" ++ posix f.rel, addFileAttr f.stMode, f.digest, f.size⟩ : Member) ∈ (buildWheel H p).members := by
  rw [buildWheel_members]
  apply List.mem_append_left
  rw [List.mem_map]
  refine ⟨.addFile (p.distInfo ++ "/" ++ posix f.rel) f.stMode f.digest f.size, ?_, rfl⟩
  unfold wheelOps
  apply List.mem_append_right
  unfold copyDistInfoOps
  rw [List.mem_map]
  exact ⟨f, (mem_sortBy _ _ _).2 hf, rfl⟩

end Poetry.Build
