/-
Discharge of `LeafSpec` on the `extra` fragment: `extra == "a"` / `extra != "a"` leaves and the
`AtomicMultiMarker` / `AtomicMarkerUnion` leaves on `extra` that the simplifier builds, in environments
that define the set of active extras.  The truth of such a leaf is the `extra` denotation `GC.denX` of its
constraint at the (canonicalised) set of active extras; same-variable merging is sound because the
`extra` constraint algebra is exact (C16: `GC.intersect_X`, `GC.unionWith_X`).  Hypothesis left: the
constructor fact `MkExtraOK` (`SingleMarker("extra", str(atom))` stores that atom again — also what
`AtomicMultiMarker.expand()` uses when an atomic `extra` leaf is evaluated); proved on plain values.
-/
import PoetryVerif.Proofs.MarkerAlgSoundStr

set_option linter.unusedSimpArgs false
set_option linter.unusedVariables false

namespace Poetry.Marker
open Poetry.Generic

/-- the set of active extras, as the predicate `extra == v` evaluates -/
def extrasPred (ex : List String) : String → Bool := fun v => (ex.map canonName).contains (canonName v)

/-- the `SingleMarker` on `extra` carrying the atom `a` -/
def sOfAtom (a : Generic.Atom) : Single := ⟨"extra", a.op.str, a.value, false, .gen (.s (.atom a))⟩

/-- `SingleMarker("extra", str(atom))` is the leaf carrying that atom -/
def MkExtraOKW (W : String → Prop) : Prop :=
  ∀ a : Generic.Atom, W a.value → a.x = true → a.isEqNe = true →
    mkSingleOfC "extra" (.gen (.s (.atom a))) = .ok (sOfAtom a)

/-- the universal form -/
def MkExtraOK : Prop := MkExtraOKW (fun _ => True)

def XLeaf : Leaf → Prop
  | .single s => s.name = "extra" ∧ s.swapped = false ∧
      ∃ a : Generic.Atom, s.c = .gen (.s (.atom a)) ∧ a.x = true ∧ a.isEqNe = true ∧ s.op = a.op.str ∧ s.value = a.value
  | .amulti n c => n = "extra" ∧ c.wfX = true ∧ ∃ x cs, c = .s (.multi x cs)
  | .aunion n c => n = "extra" ∧ c.wfX = true ∧ ∃ ms, c = .union ms ∧ ms.all (atomOpsWithin [.eq, .ne]) = true

theorem validateLike_extra_atom (E : Env) (ex : List String) (hE : E.extras = some ex) (a : Generic.Atom)
    (he : a.isEqNe = true) :
    validateLike "extra" (.gen (.s (.atom a))) E = .ok (a.denX (extrasPred ex)) := by
  cases a with | mk v op x =>
  cases op <;> simp [validateLike, hE, Atom.denX, extrasPred, Atom.isEqNe] at he ⊢

theorem allPy_ok {α : Type} (f : α → PyM Bool) (g : α → Bool) : ∀ (l : List α), (∀ x ∈ l, f x = .ok (g x)) →
    allPy f l = .ok (l.all g)
  | [], _ => rfl
  | x :: xs, h => by
      have h1 := h x (by simp)
      have h2 := allPy_ok f g xs (fun y hy => h y (by simp [hy]))
      simp only [allPy, h1, List.all_cons]
      cases g x <;> simp [h2]

theorem anyPy_ok {α : Type} (f : α → PyM Bool) (g : α → Bool) : ∀ (l : List α), (∀ x ∈ l, f x = .ok (g x)) →
    anyPy f l = .ok (l.any g)
  | [], _ => rfl
  | x :: xs, h => by
      have h1 := h x (by simp)
      have h2 := anyPy_ok f g xs (fun y hy => h y (by simp [hy]))
      simp only [anyPy, h1, List.any_cons]
      cases g x <;> simp [h2]

theorem mapM_ok {α β : Type} (f : α → PyM β) (g : α → β) : ∀ (l : List α), (∀ x ∈ l, f x = .ok (g x)) →
    l.mapM f = .ok (l.map g)
  | [], _ => rfl
  | x :: xs, h => by
      have h1 := h x (by simp)
      have h2 := mapM_ok f g xs (fun y hy => h y (by simp [hy]))
      simp [List.mapM_cons, h1, h2, bind, Except.bind, pure, Except.pure]

/-- the members of a union of atoms -/
theorem atoms_of_all {ops : List Generic.Op} : ∀ (ms : List GS), ms.all (atomOpsWithin ops) = true →
    ∃ as : List Generic.Atom, ms = as.map GS.atom
  | [], _ => ⟨[], rfl⟩
  | m :: ms, h => by
      simp only [List.all_cons, Bool.and_eq_true] at h
      obtain ⟨as, has⟩ := atoms_of_all ms h.2
      cases m with
      | atom a => exact ⟨a :: as, by simp [has]⟩
      | _ => simp [atomOpsWithin] at h

/-- evaluating an atomic `extra` leaf expands it into single markers again -/
theorem expand_eval {W : String → Prop} (H : MkExtraOKW W) (E : Env) (ex : List String) (hE : E.extras = some ex)
    (as : List Generic.Atom) (hw : ∀ a ∈ as, a.x = true ∧ a.isEqNe = true) (hW : ∀ a ∈ as, W a.value) :
    (as.map (fun a => GC.s (.atom a))).mapM (fun m => mkSingleOfC "extra" (.gen m)) = .ok (as.map sOfAtom) ∧
    (∀ s ∈ as.map sOfAtom, ∃ a ∈ as, s = sOfAtom a) := by
  refine ⟨?_, ?_⟩
  · have := mapM_ok (fun m => mkSingleOfC "extra" (.gen m))
      (fun m => match m with | GC.s (.atom a) => sOfAtom a | _ => default)
      (as.map (fun a => GC.s (.atom a)))
      (by
        intro m hm
        simp only [List.mem_map] at hm
        obtain ⟨a, ha, rfl⟩ := hm
        exact H a (hW a ha) (hw a ha).1 (hw a ha).2)
    rw [this]; simp [List.map_map, Function.comp_def]
  · intro s hs; simp only [List.mem_map] at hs; obtain ⟨a, ha, rfl⟩ := hs; exact ⟨a, ha, rfl⟩

/-- what a leaf of the fragment is, and its truth value -/
theorem xLeaf_view {W : String → Prop} (H : MkExtraOKW W) {E : Env} {ex : List String} (hE : E.extras = some ex)
    {l : Leaf} (h : XLeaf l) (hWl : ∀ x ∈ leafAtoms l, W x.value) :
    l.name = "extra" ∧ ∃ gc, l.c = .gen gc ∧ gc.wfX = true ∧ l.validate E = .ok (gc.denX (extrasPred ex)) := by
  cases l with
  | single s =>
    obtain ⟨h1, h2, a, hc, hx, he, _, _⟩ := h
    refine ⟨h1, .s (.atom a), hc, by simp [GC.wfX, GS.wfX, hx, he], ?_⟩
    simp only [Leaf.validate, h1, hc]
    exact validateLike_extra_atom E ex hE a he
  | amulti n c =>
    obtain ⟨rfl, hw, x, cs, rfl⟩ := h
    refine ⟨rfl, _, rfl, hw, ?_⟩
    have hwa : ∀ a ∈ cs, a.x = true ∧ a.isEqNe = true := by
      have := hw; simp only [GC.wfX, GS.wfX, Bool.and_eq_true, List.all_eq_true] at this
      exact fun a ha => this.1.2 a ha
    obtain ⟨hm, _⟩ := expand_eval H E ex hE cs hwa (by simpa [leafAtoms, Leaf.c, GC.atoms, GS.atoms] using hWl)
    simp only [Leaf.validate, beq_self_eq_true, if_true, expandLeaves, gcMembers, hm, bind, Except.bind]
    rw [allPy_ok _ (fun s => match s.c with | .gen (.s (.atom a)) => a.denX (extrasPred ex) | _ => false)]
    · simp [GC.denX, GC.sem, GS.sem, List.all_map, sOfAtom, Function.comp_def]
    · intro s hs
      simp only [List.mem_map] at hs
      obtain ⟨a, ha, rfl⟩ := hs
      simpa [sOfAtom] using validateLike_extra_atom E ex hE a (hwa a ha).2
  | aunion n c =>
    obtain ⟨rfl, hw, ms, rfl, hall⟩ := h
    refine ⟨rfl, _, rfl, hw, ?_⟩
    obtain ⟨as, rfl⟩ := atoms_of_all ms hall
    have hwa : ∀ a ∈ as, a.x = true ∧ a.isEqNe = true := by
      have := hw; simp only [GC.wfX, Bool.and_eq_true, List.all_eq_true, List.mem_map] at this
      intro a ha
      have := this.2 (.atom a) ⟨a, ha, rfl⟩
      simpa [GS.wfX] using this
    obtain ⟨hm, _⟩ := expand_eval H E ex hE as hwa (by
      intro a ha; apply hWl; simp only [leafAtoms, Leaf.c, GC.atoms, List.mem_flatMap, List.mem_map]
      exact ⟨.atom a, ⟨a, ha, rfl⟩, by simp [GS.atoms]⟩)
    have hmem : gcMembers (.union (as.map GS.atom)) = as.map (fun a => GC.s (.atom a)) := by
      simp [gcMembers, List.map_map, Function.comp_def]
    simp only [Leaf.validate, beq_self_eq_true, if_true, expandLeaves, hmem, hm, bind, Except.bind]
    rw [anyPy_ok _ (fun s => match s.c with | .gen (.s (.atom a)) => a.denX (extrasPred ex) | _ => false)]
    · simp [GC.denX, GC.sem, GS.sem, List.any_map, sOfAtom, Function.comp_def]
    · intro s hs
      simp only [List.mem_map] at hs
      obtain ⟨a, ha, rfl⟩ := hs
      simpa [sOfAtom] using validateLike_extra_atom E ex hE a (hwa a ha).2

/-- the `extra` fragment with atom values in `W` -/
def XLeafW (W : String → Prop) (l : Leaf) : Prop := XLeaf l ∧ ∀ x ∈ leafAtoms l, W x.value

variable {W : String → Prop}

theorem xLeaf_eval (H : MkExtraOKW W) {E : Env} {ex : List String} (hE : E.extras = some ex) {l : Leaf}
    (h : XLeafW W l) {gc : GC} (hc : l.c = .gen gc) : leafEval E l = gc.denX (extrasPred ex) := by
  obtain ⟨_, g', hc', _, hv⟩ := xLeaf_view H hE h.1 h.2
  rw [hc] at hc'; cases hc'
  simp [leafEval, hv]

theorem xLeaf_evaluable (H : MkExtraOKW W) {E : Env} {ex : List String} (hE : E.extras = some ex) {l : Leaf}
    (h : XLeafW W l) : ∃ b, l.validate E = .ok b := by
  obtain ⟨_, _, _, _, hv⟩ := xLeaf_view H hE h.1 h.2
  exact ⟨_, hv⟩

theorem xLeaf_congr (H : MkExtraOKW W) {E : Env} {ex : List String} (hE : E.extras = some ex) (a b : Leaf)
    (ha' : XLeafW W a) (hb' : XLeafW W b) (h : Leaf.beq a b = true) : leafEval E a = leafEval E b := by
  have ha := ha'.1
  have hb := hb'.1
  obtain ⟨_, ga, hca, _, hva⟩ := xLeaf_view H hE ha ha'.2
  obtain ⟨_, gb, hcb, _, hvb⟩ := xLeaf_view H hE hb hb'.2
  have key : ga = gb → leafEval E a = leafEval E b := by
    intro e; subst e; simp [leafEval, hva, hvb]
  apply key
  cases a with
  | single sa =>
    cases b with
    | single sb =>
      obtain ⟨_, _, a1, hca', hxa, hea, hoa, hva'⟩ := ha
      obtain ⟨_, _, b1, hcb', hxb, heb, hob, hvb'⟩ := hb
      simp only [Leaf.beq, Bool.and_eq_true, beq_iff_eq] at h
      obtain ⟨⟨⟨hn, ho⟩, hv⟩, hs⟩ := h
      have hop : a1.op = b1.op := Op.str_inj_eqne hea heb (by rw [← hoa, ← hob, ho])
      have hab : a1 = b1 := by cases a1; cases b1; simp_all
      simp only [Leaf.c] at hca hcb
      rw [hca'] at hca; rw [hcb'] at hcb
      cases hca; cases hcb; rw [hab]
    | amulti _ _ => simp [Leaf.beq] at h
    | aunion _ _ => simp [Leaf.beq] at h
  | amulti n c =>
    cases b with
    | single _ => simp [Leaf.beq] at h
    | amulti n' c' =>
      simp only [Leaf.beq, Bool.and_eq_true, beq_iff_eq] at h
      simp only [Leaf.c] at hca hcb; cases hca; cases hcb; exact h.2
    | aunion n' c' =>
      simp only [Leaf.beq, Bool.and_eq_true, beq_iff_eq] at h
      simp only [Leaf.c] at hca hcb; cases hca; cases hcb; exact h.2
  | aunion n c =>
    cases b with
    | single _ => simp [Leaf.beq] at h
    | amulti n' c' =>
      simp only [Leaf.beq, Bool.and_eq_true, beq_iff_eq] at h
      simp only [Leaf.c] at hca hcb; cases hca; cases hcb; exact h.2
    | aunion n' c' =>
      simp only [Leaf.beq, Bool.and_eq_true, beq_iff_eq] at h
      simp only [Leaf.c] at hca hcb; cases hca; cases hcb; exact h.2

theorem gc_denX_of_isEmpty {c : GC} {P : String → Bool} (h : (LeafC.gen c).isEmpty = true) : c.denX P = false := by
  match c, h with
  | .s .empty, _ => rfl

theorem gc_denX_of_isAny {c : GC} {P : String → Bool} (h : (LeafC.gen c).isAny = true) : c.denX P = true := by
  match c, h with
  | .s .any, _ => rfl

set_option hygiene false in
/-- the tail of `_merge_single_markers` on `extra` once the merged constraint `r0` is known -/
macro "extra_tail" : tactic => `(tactic| (
  by_cases q1 : (LeafC.gen r0).isEmpty = true
  · rw [if_pos q1, pure_ok] at h; cases h
    exact ⟨by simp, by simp [gc_denX_of_isEmpty q1]⟩
  rw [if_neg q1] at h
  by_cases q2 : (LeafC.gen r0).isAny = true
  · rw [if_pos q2, pure_ok] at h; cases h
    exact ⟨by simp, by simp [gc_denX_of_isAny q2]⟩
  rw [if_neg q2] at h
  by_cases q3 : (LeafC.gen r0).eqv (LeafC.gen g1) = true
  · rw [if_pos q3, pure_ok] at h; cases h
    have hr : r0 = g1 := by simpa [LeafC.eqv] using q3
    exact ⟨(M.good_leaf _).2 hh1, by simp [e1, hr]⟩
  rw [if_neg q3] at h
  by_cases q4 : (LeafC.gen r0).eqv (LeafC.gen g2) = true
  · rw [if_pos q4, pure_ok] at h; cases h
    have hr : r0 = g2 := by simpa [LeafC.eqv] using q4
    exact ⟨(M.good_leaf _).2 hh2, by simp [e2, hr]⟩
  rw [if_neg q4] at h
  obtain ⟨b, hb, h⟩ := bind_ok.1 h
  cases b
  · rw [if_neg Bool.false_ne_true] at h
    cases r0 with
    | union ms =>
      dsimp only at h
      simp only [hn1, beq_self_eq_true, if_true] at h
      split at h
      · rename_i hall
        rw [pure_ok] at h; cases h
        have hs : XLeafW W (.aunion "extra" (.union ms)) := ⟨⟨rfl, hw0, ms, rfl, hall⟩, hv0⟩
        exact ⟨(M.good_leaf _).2 hs, by simpa using xLeaf_eval H hE hs rfl⟩
      · rw [pure_ok] at h; cases h
    | s gs =>
      cases gs with
      | multi x cs =>
        dsimp only at h
        simp only [hn1, beq_self_eq_true, if_true] at h
        split at h
        · rw [pure_ok] at h; cases h
          have hs : XLeafW W (.amulti "extra" (.s (.multi x cs))) := ⟨⟨rfl, hw0, x, cs, rfl⟩, hv0⟩
          exact ⟨(M.good_leaf _).2 hs, by simpa using xLeaf_eval H hE hs rfl⟩
        · rw [pure_ok] at h; cases h
      | any => dsimp only at h; rw [pure_ok] at h; cases h
      | empty => dsimp only at h; rw [pure_ok] at h; cases h
      | atom a => dsimp only at hb; cases hb
  · rw [if_pos rfl] at h
    obtain ⟨s, hs, h⟩ := bind_ok.1 h
    rw [pure_ok] at h; cases h
    cases r0 with
    | union ms => dsimp only at hb; cases hb
    | s gs =>
      cases gs with
      | atom a =>
        have hwa : a.x = true ∧ a.isEqNe = true := by
          have := hw0; simpa [GC.wfX, GS.wfX] using this
        have hWa : W a.value := hv0 a (by simp [GC.atoms, GS.atoms])
        rw [H a hWa hwa.1 hwa.2] at hs; cases hs
        have hsl : XLeafW W (.single (sOfAtom a)) := by
          refine ⟨⟨rfl, rfl, a, rfl, hwa.1, hwa.2, rfl, rfl⟩, ?_⟩
          intro x hx
          simp only [leafAtoms, Leaf.c, sOfAtom, GC.atoms, GS.atoms, List.mem_singleton] at hx
          subst hx; exact hWa
        exact ⟨(M.good_leaf _).2 hsl, by simpa using xLeaf_eval H hE hsl rfl⟩
      | any => dsimp only at hb; cases hb
      | empty => dsimp only at hb; cases hb
      | multi x cs => dsimp only at hb; cases hb))

theorem xLeaf_merge (H : MkExtraOKW W) {E : Env} {ex : List String} (hE : E.extras = some ex)
    (l1 l2 : Leaf) (im : Bool) (r : M)
    (hh1 : XLeafW W l1) (hh2 : XLeafW W l2) (h : mergeLeaves l1 l2 im = .ok (some r)) :
    M.Good (XLeafW W) r ∧
      M.sem (leafEval E) r = (if im then (leafEval E l1 && leafEval E l2) else (leafEval E l1 || leafEval E l2)) := by
  obtain ⟨hn1, g1, hc1, hw1, _⟩ := xLeaf_view H hE hh1.1 hh1.2
  obtain ⟨hn2, g2, hc2, hw2, _⟩ := xLeaf_view H hE hh2.1 hh2.2
  have hW1 : ∀ x ∈ g1.atoms, W x.value := by have := hh1.2; simpa [leafAtoms, hc1] using this
  have hW2 : ∀ x ∈ g2.atoms, W x.value := by have := hh2.2; simpa [leafAtoms, hc2] using this
  have e1 := xLeaf_eval H hE hh1 hc1
  have e2 := xLeaf_eval H hE hh2 hc2
  simp only [mergeLeaves] at h
  rw [mergeSingle.eq_def] at h
  dsimp only at h
  rw [hn1, hn2] at h
  simp only [show ("extra" == "python_version") = false from by decide,
    show ("extra" == "python_full_version") = false from by decide,
    show ("extra" != "extra") = false from by decide,
    Bool.false_and, Bool.or_self, Bool.false_eq_true, if_false] at h
  rw [hc1, hc2] at h
  dsimp only at h
  have key : ∃ r0, (if im = true then (LeafC.gen g1).intersect (.gen g2) else (LeafC.gen g1).union (.gen g2)) =
        .ok (.gen r0) ∧ r0.wfX = true ∧ (∀ x ∈ r0.atoms, W x.value) ∧
        r0.denX (extrasPred ex) = (if im = true then (g1.denX (extrasPred ex) && g2.denX (extrasPred ex))
          else (g1.denX (extrasPred ex) || g2.denX (extrasPred ex))) := by
    cases im
    · obtain ⟨r0, a, b, c, d⟩ := GC.unionWith_XW W g1 g2 hw1 hw2 hW1 hW2
      exact ⟨r0, by simp [LeafC.union, a, Except.map], b, c, by simp [d]⟩
    · obtain ⟨r0, a, b, c, d⟩ := GC.intersect_XW W g1 g2 hw1 hw2 hW1 hW2
      exact ⟨r0, by simp [LeafC.intersect, a, Except.map], b, c, by simp [d]⟩
  obtain ⟨r0, hk, hw0, hv0, hden⟩ := key
  have hgoal : (if im = true then (leafEval E l1 && leafEval E l2) else (leafEval E l1 || leafEval E l2)) =
      r0.denX (extrasPred ex) := by rw [hden, e1, e2]
  rw [hgoal]
  clear hgoal hden
  cases im
  · simp only [Bool.false_eq_true, if_false] at h hk ⊢
    obtain ⟨rc, hrc, h⟩ := bind_ok.1 h
    rw [hk] at hrc; cases hrc
    extra_tail
  · simp only [if_true] at h hk ⊢
    obtain ⟨rc, hrc, h⟩ := bind_ok.1 h
    rw [hk] at hrc; cases hrc
    extra_tail

/-- **`LeafSpec` holds on the `extra` fragment** (atom values in `W`), given the constructor fact -/
theorem leafSpec_extraW (H : MkExtraOKW W) {E : Env} {ex : List String} (hE : E.extras = some ex) :
    LeafSpec (leafEval E) (XLeafW W) where
  congr := xLeaf_congr H hE
  merge := fun l1 l2 im r h1 h2 h => xLeaf_merge H hE l1 l2 im r h1 h2 h

/-- the unrestricted form, given the universal constructor fact -/
theorem leafSpec_extra (H : MkExtraOK) {E : Env} {ex : List String} (hE : E.extras = some ex) :
    LeafSpec (leafEval E) XLeaf :=
  LeafSpec.of_iff (G := XLeafW (fun _ => True))
    (fun l => ⟨fun h => h.1, fun h => ⟨h, fun _ _ => trivial⟩⟩) (leafSpec_extraW H hE)

/-! ### the constructor fact on plain values -/

theorem mkSingle_extra_bare (v : String) (hv : PlainTok v) (hst : ∀ c, v.toList.head? = some c → StartOk c) :
    mkSingle "extra" v false = .ok ⟨"extra", "==", v, false, .gen (.atom ⟨v, .eq, true⟩)⟩ := by
  have hvo := hv.valueOk
  cases hl : v.toList with
  | nil => exact absurd hl hv.1
  | cons c cs =>
    rw [hl] at hvo
    have hc : StartOk c := hst c (by simp [hl])
    have htok := hv.2 c (by simp [hl])
    have hm := matchPattern1_bare c cs hc hvo
    have hvs : String.ofList (c :: cs) = v := by rw [← hl]; simp
    have hp := gparseWith_bare true c cs ⟨htok.2.2.2.1, htok.2.2.2.2⟩ ⟨hc.2.2.2.2.2.2.2.2.1, hc.2.2.2.2.2.2.2.2.2⟩
      hc.2.2.2.2.2.2.2.1 (by rw [← hl]; exact hv.gPlain)
    rw [hvs] at hp
    have hprep : leafPrepare "extra" v false =
        .ok { name := "extra", op := "==", value := v, swapped := false, cstr := v, kind := .extra } := by
      unfold leafPrepare
      have f2 : Gen.versionLikeMarkerNames.contains "extra" = false := by decide
      have f3 : aliasName "extra" = "extra" := by decide
      simp only [Bool.false_eq_true, if_false, hl, hm, hvs, Option.getD_none, f2, f3, Bool.false_and]
      simp
    simp only [mkSingle, hprep, bind, Except.bind, parseByKind,
      Generic.parseExtraConstraint, hp, Except.map, pure, Except.pure]

/-- **`MkExtraOK` on plain values** -/
theorem mkExtraOK_plain (a : Generic.Atom) (hv : PlainValue a.value) (hx : a.x = true) (he : a.isEqNe = true) :
    mkSingleOfC "extra" (.gen (.s (.atom a))) = .ok (sOfAtom a) := by
  cases a with | mk v op x =>
  simp only at hx hv; subst hx
  cases op with
  | eq =>
    have := mkSingle_extra_eq v hv.1 hv.2
    simp only [mkSingleOfC, LeafC.toStr, GC.toStr, GS.toStr, Generic.Atom.toStr, bind, Except.bind]
    simp
    rw [this]; simp [sOfAtom, Generic.Op.str]
  | ne =>
    have := mkSingle_extra_ne v hv.1
    simp only [mkSingleOfC, LeafC.toStr, GC.toStr, GS.toStr, Generic.Atom.toStr, bind, Except.bind]
    simp [Generic.Op.str]
    rw [this]; simp [sOfAtom, Generic.Op.str]
  | in_ => simp [Generic.Atom.isEqNe] at he
  | nc => simp [Generic.Atom.isEqNe] at he

theorem mkExtraOKW_plain : MkExtraOKW PlainValue := fun a hv hx he => mkExtraOK_plain a hv hx he

/-- **`LeafSpec` on the plain `extra` fragment, no hypothesis left** (environments defining the extras) -/
theorem leafSpec_extraPlain {E : Env} {ex : List String} (hE : E.extras = some ex) :
    LeafSpec (leafEval E) (XLeafW PlainValue) := leafSpec_extraW mkExtraOKW_plain hE

end Poetry.Marker
