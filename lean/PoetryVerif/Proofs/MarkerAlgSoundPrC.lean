/-
`platform_release ~= "x.y"` / `~= "x.y.z"`: leaves of the regular fragment on `platform_release`, their inversion,
and the full domain with `~=` on all three version-like variables.
-/
import PoetryVerif.Proofs.MarkerAlgSoundFullC

set_option linter.unusedSimpArgs false
set_option linter.unusedVariables false

namespace Poetry.Marker
open Poetry Poetry.Version

/-- `platform_release ~= "x.r…"` with upper bound `hi` -/
def prCompatOf (x : Nat) (r : List Nat) (hi : Version) : Single :=
  ⟨"platform_release", "~=", Version.relText (x :: r), false, .ver (compatVC (litV x r) hi)⟩

theorem mkSingle_prCompat (x : Nat) (r : List Nat) :
    mkSingle "platform_release" ("~=" ++ Version.relText (x :: r)) false =
      .ok (prCompatOf x r (compatHigh (litV x r))) := by
  obtain ⟨l1, l2⟩ := verOp_not_list .compat "~=" compat_mem
  have hp := pmvc_op .compat "~=" compat_mem x r
  have hprep := leafPrepare_pr ("~=" ++ Version.relText (x :: r)) (some "~=") _
    (matchPattern1_ver .compat "~=" compat_mem x r) (by simpa using l1) (by simpa using l2)
  simp [mkSingle, hprep, bind, Except.bind, parseByKind_verF _ _ hp, pure, Except.pure, prCompatOf, compatVC,
    clauseVC]

/-- the two literal shapes: `~= "a.b"` is `[a.b, (a+1).0)`, `~= "a.b.c"` is `[a.b.c, a.(b+1).0)` -/
def PrCompatLeaf (B : List Version) (l : Leaf) : Prop :=
  (∃ a b, litV a [b] ∈ B ∧ litV (a + 1) [0] ∈ B ∧ l = .single (prCompatOf a [b] (litV (a + 1) [0]))) ∨
  (∃ a b c, litV a [b, c] ∈ B ∧ litV a [b + 1, 0] ∈ B ∧ l = .single (prCompatOf a [b, c] (litV a [b + 1, 0])))

theorem prCompat_verLeaf {B : List Version} {l : Leaf} (h : PrCompatLeaf B l) :
    VerLeaf B "platform_release" l := by
  rcases h with ⟨a, b, h1, h2, rfl⟩ | ⟨a, b, c, h1, h2, rfl⟩
  · have hok := compatVC_ok2 a b
    have hreg := regVC_of_ok (B := B) hok (fun m hm e he => by
      rcases compatVC_bounds _ _ m hm e he with rfl | rfl <;> assumption)
    refine ⟨rfl, ?_, _, rfl, hreg.1, hreg.2⟩
    simp only [Single.coherent, prCompatOf, itemConstraintString, Bool.false_eq_true, if_false]
    rw [mkSingle_prCompat a [b], compatHigh2]
    simp [prCompatOf]
  · have hok := compatVC_ok3 a b c
    have hreg := regVC_of_ok (B := B) hok (fun m hm e he => by
      rcases compatVC_bounds _ _ m hm e he with rfl | rfl <;> assumption)
    refine ⟨rfl, ?_, _, rfl, hreg.1, hreg.2⟩
    simp only [Single.coherent, prCompatOf, itemConstraintString, Bool.false_eq_true, if_false]
    rw [mkSingle_prCompat a [b, c], compatHigh3]
    simp [prCompatOf]

/-! ### inversion -/

theorem mkSingle_pr_sp (x : Nat) (r : List Nat) :
    mkSingle "platform_release" (">= " ++ Version.relText (x :: r)) false = .ok (prLeafOf .ge ">=" x r) ∧
    mkSingle "platform_release" ("< " ++ Version.relText (x :: r)) false = .ok (prLeafOf .lt "<" x r) := by
  obtain ⟨m1, m2⟩ := matchPattern1_sp x r
  have p1 := leafPrepare_pr _ (some ">=") _ m1 (by decide) (by decide)
  have p2 := leafPrepare_pr _ (some "<") _ m2 (by decide) (by decide)
  constructor
  · simp [mkSingle, p1, bind, Except.bind, parseByKind_verF _ _ (_root_.Poetry.pmvc_ge_sp x r), pure, Except.pure,
      prLeafOf, pvClause, ineqRange, litV_finalV']
  · simp [mkSingle, p2, bind, Except.bind, parseByKind_verF _ _ (_root_.Poetry.pmvc_lt_sp x r), pure, Except.pure,
      prLeafOf, pvClause, ineqRange, litV_finalV']

theorem invert_prCompat (x : Nat) (r : List Nat) (hx : Nat) (hr : List Nat) :
    Leaf.invert (.single (prCompatOf x r (litV hx hr))) =
      .ok (mkUnion [.leaf (.single (prLeafOf .lt "<" x r)), .leaf (.single (prLeafOf .ge ">=" hx hr))]) := by
  have i1 : invertSimple (prLeafOf .ge ">=" x r) = .ok (.leaf (.single (prLeafOf .lt "<" x r))) := by
    rw [invertSimple_eq _ (by simp [prLeafOf])]; exact invert_pr (by decide) x r
  have i2 : invertSimple (prLeafOf .lt "<" hx hr) = .ok (.leaf (.single (prLeafOf .ge ">=" hx hr))) := by
    rw [invertSimple_eq _ (by simp [prLeafOf])]; exact invert_pr (by decide) hx hr
  have hb : Leaf.beq (.single (prLeafOf .lt "<" hx hr)) (.single (prLeafOf .ge ">=" x r)) = false := by
    simp [Leaf.beq, prLeafOf]
  simp only [Leaf.invert, prCompatOf, compatVC, show ("~=" == "~=") = true by decide, if_true, RC.imin, RC.imax,
    RC.min, RC.max, optVerStr, litV_text, bind, Except.bind, sp_ge, sp_lt, Bool.false_eq_true, if_false,
    (mkSingle_pr_sp x r).1, (mkSingle_pr_sp hx hr).2, flatten2 true _ _ hb, List.mapM_cons, List.mapM_nil, i1, i2,
    pure, Except.pure]

/-- **inverting a `platform_release ~=` leaf is sound** -/
theorem invOK_prCompat {B : List Version} (hpb : ∀ e ∈ B, PyBound e = true) {E : Env} {X : Nat} {R : List Nat}
    (hE : E.get? "platform_release" = some (Version.relText (X :: R))) {l : Leaf} (h : PrCompatLeaf B l) :
    InvOK (leafEval E) (VerLeaf B "platform_release") l := by
  have hv := prCompat_verLeaf h
  have key : ∀ (x : Nat) (r : List Nat) (hx : Nat) (hr : List Nat), litV x r ∈ B → litV hx hr ∈ B →
      VerLeaf B "platform_release" (.single (prCompatOf x r (litV hx hr))) →
      InvOK (leafEval E) (VerLeaf B "platform_release") (.single (prCompatOf x r (litV hx hr))) := by
    intro x r hx hr h1 h2 hv res hi
    rw [invert_prCompat x r hx hr] at hi; cases hi
    have b1 := hpb _ h1
    have b2 := hpb _ h2
    have g1 := pr_verLeaf (B := B) (sop := .lt) (ops := "<") (by decide) x r b1 h1
    have g2 := pr_verLeaf (B := B) (sop := .ge) (ops := ">=") (by decide) hx hr b2 h2
    have g : ∀ y ∈ [M.leaf (.single (prLeafOf .lt "<" x r)), M.leaf (.single (prLeafOf .ge ">=" hx hr))],
        M.Good (VerLeaf B "platform_release") y := by
      intro y hy
      simp only [List.mem_cons, List.mem_nil_iff, or_false] at hy
      rcases hy with rfl | rfl
      · exact (M.good_leaf _).2 g1
      · exact (M.good_leaf _).2 g2
    obtain ⟨hg, hs⟩ := mkUnion_spec (leafSpec_pr hpb hE) _ g
    refine ⟨hg, ?_⟩
    rw [hs]
    have hB := regB_of_pyBound B hpb
    have hV := verEnv_pr hpb X R hE
    obtain ⟨_, _, v1, hv1, hw1, hm1⟩ := g1
    obtain ⟨_, _, v2, hv2, hw2, hm2⟩ := g2
    obtain ⟨_, _, v0, hv0, hw0, hm0⟩ := hv
    have e1 := verLeaf_eval hB hV (by decide) (s := prLeafOf .lt "<" x r) rfl hv1 hw1 hm1
    have e2 := verLeaf_eval hB hV (by decide) (s := prLeafOf .ge ">=" hx hr) rfl hv2 hw2 hm2
    have e0 := verLeaf_eval hB hV (by decide) (s := prCompatOf x r (litV hx hr)) rfl hv0 hw0 hm0
    simp only [prLeafOf] at hv1 hv2
    simp only [prCompatOf] at hv0
    cases hv1; cases hv2; cases hv0
    have hc := compat_complement (litV x r) (litV hx hr) (X :: R) (by simp) b1 b2
    simp only [List.any_cons, List.any_nil, Bool.or_false, M.sem_leaf, leafEval, e1, e2, e0]
    exact hc
  rcases h with ⟨a, b, h1, h2, rfl⟩ | ⟨a, b, c, h1, h2, rfl⟩
  · exact key a [b] (a + 1) [0] h1 h2 hv
  · exact key a [b, c] a [b + 1, 0] h1 h2 hv

/-! ### the full domain with `~=` on the three version-like variables -/

def FullLeafCR (B : List Version) (E : Env) (l : Leaf) : Prop := FullLeafC E l ∨ VerLeaf B "platform_release" l

theorem fullLeafC_name {E : Env} {l : Leaf} (h : FullLeafC E l) :
    l.name = "extra" ∨ l.name ∈ plainStringVars ∨ l.name = "python_version" ∨ l.name = "python_full_version" := by
  rcases h with h | h
  · rcases plainLeaf_name h with h | h
    · exact Or.inl h
    · exact Or.inr (Or.inl h)
  · rcases pyLeafC_name h with h | h
    · exact Or.inr (Or.inr (Or.inl h))
    · exact Or.inr (Or.inr (Or.inr h))

theorem leafSpec_fullCR {B : List Version} (hpb : ∀ e ∈ B, PyBound e = true) {E : Env} {ex : List String}
    (hX : E.extras = some ex) {X Y Z : Nat} (hE : EnvPy E X Y Z) {P : Nat} {Q : List Nat}
    (hP : E.get? "platform_release" = some (Version.relText (P :: Q)))
    (HP : PairSound (leafEval E) PvLeafC Pfv3LeafC) : LeafSpec (leafEval E) (FullLeafCR B E) := by
  refine LeafSpec.or (leafSpec_fullC hX hE HP) (leafSpec_pr hpb hP) ?_
  intro a b ha hb
  have hb' := verLeaf_name hb
  rcases fullLeafC_name ha with h | h | h | h
  · rw [pyPair, pyPair, h, hb']; decide
  · simp only [plainStringVars, List.mem_cons, List.mem_nil_iff, or_false] at h
    rcases h with h | h | h | h | h | h | h <;> (rw [pyPair, pyPair, h, hb']; decide)
  · rw [pyPair, pyPair, h, hb']; decide
  · rw [pyPair, pyPair, h, hb']; decide

theorem fullLeafCR_evaluable {B : List Version} (hpb : ∀ e ∈ B, PyBound e = true) {E : Env} {ex : List String}
    (hX : E.extras = some ex) {X Y Z : Nat} (hE : EnvPy E X Y Z) {P : Nat} {Q : List Nat}
    (hP : E.get? "platform_release" = some (Version.relText (P :: Q))) {l : Leaf} (h : FullLeafCR B E l) :
    ∃ b, l.validate E = .ok b := by
  rcases h with h | h
  · exact fullLeafC_evaluable hX hE h
  · exact verLeaf_evaluable (regB_of_pyBound B hpb) (verEnv_pr hpb P Q hP) (by decide) h

def FullInvLeafCR (B : List Version) (E : Env) (l : Leaf) : Prop :=
  FullInvLeafC E l ∨ VerLeaf B "platform_release" l

def FullInvReadyCR (B : List Version) (E : Env) (l : Leaf) : Prop :=
  FullInvReadyC E l ∨ PrLeafIn B l ∨ PrCompatLeaf B l

theorem leafSpec_fullInvCR {B : List Version} (hpb : ∀ e ∈ B, PyBound e = true) {E : Env} {ex : List String}
    (hX : E.extras = some ex) {X Y Z : Nat} (hE : EnvPy E X Y Z) {P : Nat} {Q : List Nat}
    (hP : E.get? "platform_release" = some (Version.relText (P :: Q)))
    (HP : PairSound (leafEval E) PvLeafC Pfv3LeafC) : LeafSpec (leafEval E) (FullInvLeafCR B E) := by
  refine LeafSpec.or (leafSpec_fullInvC hX hE HP) (leafSpec_pr hpb hP) ?_
  intro a b ha hb
  have hb' := verLeaf_name hb
  have ha' : a.name = "extra" ∨ a.name ∈ plainStringVars ∨ a.name = "python_version" ∨
      a.name = "python_full_version" := by
    rcases ha with ha | ha
    · rcases invLeaf_name ha with h | h
      · exact Or.inl h
      · exact Or.inr (Or.inl h)
    · rcases pyLeafC_name ha with h | h
      · exact Or.inr (Or.inr (Or.inl h))
      · exact Or.inr (Or.inr (Or.inr h))
  rcases ha' with h | h | h | h
  · rw [pyPair, pyPair, h, hb']; decide
  · simp only [plainStringVars, List.mem_cons, List.mem_nil_iff, or_false] at h
    rcases h with h | h | h | h | h | h | h <;> (rw [pyPair, pyPair, h, hb']; decide)
  · rw [pyPair, pyPair, h, hb']; decide
  · rw [pyPair, pyPair, h, hb']; decide

theorem M.invert_sound_fullCR {B : List Version} (hpb : ∀ e ∈ B, PyBound e = true) {E : Env} {ex : List String}
    (hX : E.extras = some ex) {X Y Z : Nat} (hE : EnvPy E X Y Z) {P : Nat} {Q : List Nat}
    (hP : E.get? "platform_release" = some (Version.relText (P :: Q)))
    (HP : PairSound (leafEval E) PvLeafC Pfv3LeafC) {a r : M}
    (ha : M.Good (FullInvReadyCR B E) a) (h : M.invert a = .ok r) :
    M.Good (FullInvLeafCR B E) r ∧ M.sem (leafEval E) r = !M.sem (leafEval E) a := by
  refine M.invert_sound_on (leafSpec_fullInvCR hpb hX hE hP HP) a r (M.good_mono ?_ a ha) h
  intro l hl
  rcases hl with (hl | hl) | hl | hl
  · obtain ⟨g, ok⟩ := invReady_ok hX hl
    exact ⟨Or.inl (Or.inl g), ok.mono (fun l hl => Or.inl (Or.inl hl))⟩
  · exact ⟨Or.inl (Or.inr hl), (invOK_pyC hE hl).mono (fun l hl => Or.inl (Or.inr hl))⟩
  · exact ⟨Or.inr (prLeafIn_verLeaf hpb hl), (invOK_pr hpb hP hl).mono (fun l hl => Or.inr hl)⟩
  · exact ⟨Or.inr (prCompat_verLeaf hl), (invOK_prCompat hpb hP hl).mono (fun l hl => Or.inr hl)⟩

theorem fullInvLeafCR_evaluable {B : List Version} (hpb : ∀ e ∈ B, PyBound e = true) {E : Env} {ex : List String}
    (hX : E.extras = some ex) {X Y Z : Nat} (hE : EnvPy E X Y Z) {P : Nat} {Q : List Nat}
    (hP : E.get? "platform_release" = some (Version.relText (P :: Q))) {l : Leaf} (h : FullInvLeafCR B E l) :
    ∃ b, l.validate E = .ok b := by
  rcases h with h | h
  · exact fullInvLeafC_evaluable hX hE h
  · exact verLeaf_evaluable (regB_of_pyBound B hpb) (verEnv_pr hpb P Q hP) (by decide) h

end Poetry.Marker
