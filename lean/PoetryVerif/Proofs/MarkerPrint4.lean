/-
Marker text for the four-operator string fragment and for `python_version` lists: the quotable variants of the
fragments (values that can stand between double quotes), their leaf facts, per-leaf text facts and lexability.
-/
import PoetryVerif.Proofs.MarkerAlgSoundFullL
import PoetryVerif.Proofs.MarkerAlgSoundFullC
import PoetryVerif.Proofs.MarkerAlgSoundInvLists

set_option linter.unusedSimpArgs false
set_option linter.unusedVariables false

namespace Poetry.Marker
open Poetry Poetry.Generic

/-- string leaves with the four operators, quotable values -/
def Str4Q (C : String → Prop) (E : Env) (l : Leaf) : Prop := Str4LeafW QuotableValue ValOk C E l

theorem leafSpec_str4Q {C : String → Prop} (hC : ∀ u v, C u → C v → strIn u v = true ∨ strIn v u = true)
    (E : Env) : LeafSpec (leafEval E) (Str4Q C E) := leafSpec_str4W (fun _ h => h.1) hC E

theorem printOK_str4Q {C : String → Prop} {E : Env} : ∀ l, Str4Q C E l → LeafPrintOK (leafEval E) (Str4Q C E) l := by
  intro l hl
  have hl' := hl
  rcases hl with hl | ⟨n, ops, gop, v, hop, hn, hv, hq, hev, hC, rfl⟩
  · exact (printOK_str hl).mono (fun l h => Or.inl h)
  · obtain ⟨hn1, hn2⟩ := plainStringVars_facts n hn
    refine leafPrintOK_single hl' ?_
    have := mkSingle_rev n v hn1 hv ops gop hop
    rw [hn2] at this
    exact this

theorem inOps_ops {ops : String} {gop : Generic.Op} (h : (ops, gop) ∈ inOps) : ops ∈ Marker.ops := by
  simp only [inOps, List.mem_cons, Prod.mk.injEq, List.mem_nil_iff, or_false] at h
  rcases h with ⟨rfl, _⟩ | ⟨rfl, _⟩ <;> decide

theorem plainStringVars_names' {n : String} (h : n ∈ plainStringVars) : n ∈ names := by
  simp only [plainStringVars, List.mem_cons, List.mem_nil_iff, or_false] at h
  rcases h with rfl | rfl | rfl | rfl | rfl | rfl | rfl <;> decide

theorem lexable_str4Q {C : String → Prop} {E : Env} : ∀ l, Str4Q C E l → Leaf.Lexable l := by
  intro l hl
  rcases hl with hl | ⟨n, ops, gop, v, hop, hn, hv, hq, hev, hC, rfl⟩
  · exact lexable_inv (E := E) l (Or.inl hl)
  · exact leafLexable_single (plainStringVars_names' hn) (inOps_ops hop) hq

/-- four-operator strings and `extra`, quotable values -/
def Plain4Q (C : String → Prop) (E : Env) (l : Leaf) : Prop := Str4Q C E l ∨ XLeafW QuotableValue l

theorem leafSpec_plain4Q {C : String → Prop} (hC : ∀ u v, C u → C v → strIn u v = true ∨ strIn v u = true)
    {E : Env} {ex : List String} (hX : E.extras = some ex) : LeafSpec (leafEval E) (Plain4Q C E) := by
  refine LeafSpec.or (leafSpec_str4Q hC E) (leafSpec_extraW mkExtraOKW_quotable hX) ?_
  intro a b ha hb
  obtain ⟨hx, hp, _⟩ := str4Leaf_view ha
  have hb' := xLeaf_name hb.1
  obtain ⟨p1, p2⟩ := isPyName_false hp
  refine ⟨?_, ?_, ?_⟩
  · rw [hb']; simpa using hx
  · simp [pyPair, p1, p2]
  · simp [pyPair, p1, p2]

theorem plain4Q_name {C : String → Prop} {E : Env} {l : Leaf} (h : Plain4Q C E l) :
    l.name = "extra" ∨ l.name ∈ plainStringVars := by
  rcases h with h | h
  · exact Or.inr (str4Leaf_view h).2.2.1
  · exact Or.inl (xLeaf_name h.1)

theorem plain4Q_evaluable {C : String → Prop} {E : Env} {ex : List String} (hX : E.extras = some ex) {l : Leaf}
    (h : Plain4Q C E l) : ∃ b, l.validate E = .ok b := by
  rcases h with h | h
  · exact str4Leaf_evaluable h
  · exact xLeaf_evaluable mkExtraOKW_quotable hX h

theorem printOK_plain4Q {C : String → Prop} {E : Env} {ex : List String} (hX : E.extras = some ex) :
    ∀ l, Plain4Q C E l → LeafPrintOK (leafEval E) (Plain4Q C E) l := by
  intro l hl
  rcases hl with hl | hl
  · exact (printOK_str4Q l hl).mono (fun l h => Or.inl h)
  · exact (printOK_extra hX hl).mono (fun l h => Or.inr h)

theorem lexable_plain4Q {C : String → Prop} {E : Env} : ∀ l, Plain4Q C E l → Leaf.Lexable l := by
  intro l hl
  rcases hl with hl | hl
  · exact lexable_str4Q l hl
  · exact lexable_inv (E := E) l (Or.inr hl)

/-! ### version lists -/

theorem listOp_ops (isIn : Bool) : listOp isIn ∈ Marker.ops := by cases isIn <;> decide

theorem printOK_pvL {ev : Leaf → Bool} : ∀ l, PvLeafL l → LeafPrintOK ev PvLeafL l := by
  intro l hl
  obtain ⟨s, rfl, hs⟩ := pvLeafL_self hl
  exact leafPrintOK_single hl hs

theorem lexable_pvL : ∀ l, PvLeafL l → Leaf.Lexable l := by
  intro l hl
  rcases hl with hl | ⟨isIn, p0, rest, res, hs, hres, rfl⟩
  · exact lexable_pyC l (Or.inl hl)
  · exact leafLexable_single (show "python_version" ∈ names by decide) (listOp_ops isIn) (valOk_verList2 p0 rest hs)

/-! ### the two printable domains -/

/-- four-operator strings, `extra`, the python leaves with the seven operators (pairing included) -/
def FullQ4 (C : String → Prop) (E : Env) (l : Leaf) : Prop := Plain4Q C E l ∨ PyLeafC l

/-- four-operator strings, `extra`, `python_version` with the seven operators and lists -/
def FullQL (C : String → Prop) (E : Env) (l : Leaf) : Prop := Plain4Q C E l ∨ PvLeafL l

theorem leafSpec_fullQ4 {C : String → Prop} (hC : ∀ u v, C u → C v → strIn u v = true ∨ strIn v u = true)
    {E : Env} {ex : List String} (hX : E.extras = some ex) {X Y Z : Nat} (hE : EnvPy E X Y Z)
    (HP : PairSound (leafEval E) PvLeafC Pfv3LeafC) : LeafSpec (leafEval E) (FullQ4 C E) := by
  refine LeafSpec.or (leafSpec_plain4Q hC hX) (leafSpec_pyC hE HP) ?_
  intro a b ha hb
  have hb' := pyLeafC_name hb
  rcases plain4Q_name ha with h | h
  · rcases hb' with hb' | hb' <;> (rw [pyPair, pyPair, h, hb']; decide)
  · simp only [plainStringVars, List.mem_cons, List.mem_nil_iff, or_false] at h
    rcases hb' with hb' | hb' <;>
      rcases h with h | h | h | h | h | h | h <;> (rw [pyPair, pyPair, h, hb']; decide)

theorem leafSpec_fullQL {C : String → Prop} (hC : ∀ u v, C u → C v → strIn u v = true ∨ strIn v u = true)
    {E : Env} {ex : List String} (hX : E.extras = some ex) {X Y : Nat}
    (hE : E.get? "python_version" = some (Version.relText [X, Y])) : LeafSpec (leafEval E) (FullQL C E) := by
  refine LeafSpec.or (leafSpec_plain4Q hC hX) (leafSpec_pvL hE) ?_
  intro a b ha hb
  have hb' := pvLeafL_name hb
  rcases plain4Q_name ha with h | h
  · rw [pyPair, pyPair, h, hb']; decide
  · simp only [plainStringVars, List.mem_cons, List.mem_nil_iff, or_false] at h
    rcases h with h | h | h | h | h | h | h <;> (rw [pyPair, pyPair, h, hb']; decide)

theorem printOK_fullQ4 {C : String → Prop} {E : Env} {ex : List String} (hX : E.extras = some ex) :
    ∀ l, FullQ4 C E l → LeafPrintOK (leafEval E) (FullQ4 C E) l := by
  intro l hl
  rcases hl with hl | hl
  · exact (printOK_plain4Q hX l hl).mono (fun l h => Or.inl h)
  · exact (printOK_pyC l hl).mono (fun l h => Or.inr h)

theorem printOK_fullQL {C : String → Prop} {E : Env} {ex : List String} (hX : E.extras = some ex) :
    ∀ l, FullQL C E l → LeafPrintOK (leafEval E) (FullQL C E) l := by
  intro l hl
  rcases hl with hl | hl
  · exact (printOK_plain4Q hX l hl).mono (fun l h => Or.inl h)
  · exact (printOK_pvL l hl).mono (fun l h => Or.inr h)

theorem lexable_fullQ4 {C : String → Prop} {E : Env} : ∀ l, FullQ4 C E l → Leaf.Lexable l := by
  intro l hl
  rcases hl with hl | hl
  · exact lexable_plain4Q l hl
  · exact lexable_pyC l hl

theorem lexable_fullQL {C : String → Prop} {E : Env} : ∀ l, FullQL C E l → Leaf.Lexable l := by
  intro l hl
  rcases hl with hl | hl
  · exact lexable_plain4Q l hl
  · exact lexable_pvL l hl

theorem fullQ4_evaluable {C : String → Prop} {E : Env} {ex : List String} (hX : E.extras = some ex) {X Y Z : Nat}
    (hE : EnvPy E X Y Z) {l : Leaf} (h : FullQ4 C E l) : ∃ b, l.validate E = .ok b := by
  rcases h with h | h
  · exact plain4Q_evaluable hX h
  · exact pyLeafC_evaluable hE h

theorem fullQL_evaluable {C : String → Prop} {E : Env} {ex : List String} (hX : E.extras = some ex) {X Y : Nat}
    (hE : E.get? "python_version" = some (Version.relText [X, Y])) {l : Leaf} (h : FullQL C E l) :
    ∃ b, l.validate E = .ok b := by
  rcases h with h | h
  · exact plain4Q_evaluable hX h
  · exact pvLeafL_evaluable hE h

end Poetry.Marker
