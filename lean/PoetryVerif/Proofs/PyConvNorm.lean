/-
Normalised python clauses and canonical Python range clauses: bump functions on final releases, the
listed range operators land in the domain of `create_nested_marker` exactness, and the meaning of the
clause `normalize_python_version_markers` prints for one `(op, value)` pair (helper lemmas for C11).
-/
import PoetryVerif.Proofs.PyConvRange
import PoetryVerif.Proofs.PyConvSem
import PoetryVerif.Proofs.VRangeOps
set_option linter.unusedSimpArgs false
set_option linter.unusedVariables false

namespace Poetry
open Poetry.Marker Poetry.Spec Poetry.Spec.Pep508 Poetry.Version VParser Std

theorem toStr_final (rel : List Nat) : Version.toStr 0 rel none none none none = relText rel := by
  simp only [Version.toStr]
  have : (relText rel).toList.map lowerChar = (relText rel).toList := by
    rw [relText_toList]; exact map_lowerChar_plain _ (plain_relChars rel)
  simp [this, String.ofList_toList]

/-- a final release built by the bump functions -/
def bumpV (rel : List Nat) : Version := Version.mk' 0 rel none none none none

theorem bumpV_eq (rel : List Nat) : bumpV rel = finalV rel := by
  simp [bumpV, Version.mk', finalV, toStr_final]

theorem finalV_stable (rel : List Nat) : (finalV rel).stable = finalV rel := by
  simp [Version.stable, Version.isStable, Version.isUnstable, Version.isPrerelease, Version.isDevrelease, finalV]

theorem finalV_nextMinor (rel : List Nat) : (finalV rel).nextMinor = finalV (relNextMinor rel) := by
  rw [← bumpV_eq (relNextMinor rel)]
  simp [Version.nextMinor, Version.isIncrementRequired, Version.isStable, Version.isUnstable,
    Version.isPrerelease, Version.isDevrelease, finalV, bumpV]

theorem finalV_nextMajor (rel : List Nat) : (finalV rel).nextMajor = finalV (relNextMajor rel) := by
  rw [← bumpV_eq (relNextMajor rel)]
  simp [Version.nextMajor, Version.isIncrementRequired, Version.isStable, Version.isUnstable,
    Version.isPrerelease, Version.isDevrelease, finalV, bumpV]

theorem PyBound_finalV (rel : List Nat) (h1 : 1 ≤ rel.length) (h3 : rel.length ≤ 3) : PyBound (finalV rel) = true := by
  simp [PyBound, finalV, h1, h3]


theorem finalV_nextPatch (rel : List Nat) : (finalV rel).nextPatch = finalV (relNextPatch rel) := by
  rw [← bumpV_eq (relNextPatch rel)]
  simp [Version.nextPatch, Version.isIncrementRequired, Version.isStable, Version.isUnstable,
    Version.isPrerelease, Version.isDevrelease, finalV, bumpV]

/-- shapes of a release of precision 1–3 -/
theorem shape13 (rel : List Nat) (h1 : 1 ≤ rel.length) (h3 : rel.length ≤ 3) :
    (∃ a, rel = [a]) ∨ (∃ a b, rel = [a, b]) ∨ (∃ a b c, rel = [a, b, c]) := by
  match rel, h1, h3 with
  | [a], _, _ => exact Or.inl ⟨a, rfl⟩
  | [a, b], _, _ => exact Or.inr (Or.inl ⟨a, b, rfl⟩)
  | [a, b, c], _, _ => exact Or.inr (Or.inr ⟨a, b, c, rfl⟩)
  | [], h1, _ => simp at h1
  | _ :: _ :: _ :: _ :: _, _, h3 => simp at h3

theorem nextBreaking_final (rel : List Nat) (h1 : 1 ≤ rel.length) (h3 : rel.length ≤ 3) :
    ∃ rel', (finalV rel).nextBreaking = finalV rel' ∧ rel'.length = rel.length := by
  simp only [Version.nextBreaking, finalV_stable, finalV_nextMajor, finalV_nextMinor, finalV_nextPatch]
  rcases shape13 rel h1 h3 with ⟨a, rfl⟩ | ⟨a, b, rfl⟩ | ⟨a, b, c, rfl⟩
  · exact ⟨relNextMajor [a], by simp [finalV, relMinor], by simp [relNextMajor, zeros]⟩
  · by_cases ha : a > 0
    · exact ⟨relNextMajor [a, b], by simp [finalV, relMajor, ha], by simp [relNextMajor, zeros]⟩
    · exact ⟨relNextMinor [a, b], by simp [finalV, relMajor, relMinor, relPatch, ha], by simp [relNextMinor, zeros]⟩
  · by_cases ha : a > 0
    · exact ⟨relNextMajor [a, b, c], by simp [finalV, relMajor, ha], by simp [relNextMajor, zeros]⟩
    · by_cases hb : b > 0
      · exact ⟨relNextMinor [a, b, c], by simp [finalV, relMajor, relMinor, relPatch, ha, hb], by simp [relNextMinor, zeros]⟩
      · exact ⟨relNextPatch [a, b, c], by simp [finalV, relMajor, relMinor, relPatch, ha, hb], by simp [relNextPatch, zeros]⟩


/-! ### the listed range operators land in the domain -/

section
variable (a : Nat) (r : List Nat) (m : Bool) (h3 : (a :: r).length ≤ 3)
include h3

theorem dom_ge : ∃ rc, parseSingle ('>' :: '=' :: relChars (a :: r)) m = .ok (.single rc) ∧ PyDom rc = true :=
  ⟨_, parseSingle_ge a r m, by simp [PyDom, PyRange, PyBound_finalV (a :: r) (by simp) h3, VRange.isAny]⟩
theorem dom_gt : ∃ rc, parseSingle ('>' :: relChars (a :: r)) m = .ok (.single rc) ∧ PyDom rc = true :=
  ⟨_, parseSingle_gt a r m, by simp [PyDom, PyRange, PyBound_finalV (a :: r) (by simp) h3, VRange.isAny]⟩
theorem dom_le : ∃ rc, parseSingle ('<' :: '=' :: relChars (a :: r)) m = .ok (.single rc) ∧ PyDom rc = true :=
  ⟨_, parseSingle_le a r m, by simp [PyDom, PyRange, PyBound_finalV (a :: r) (by simp) h3, VRange.isAny]⟩
theorem dom_lt : ∃ rc, parseSingle ('<' :: relChars (a :: r)) m = .ok (.single rc) ∧ PyDom rc = true :=
  ⟨_, parseSingle_lt a r m, by simp [PyDom, PyRange, PyBound_finalV (a :: r) (by simp) h3, VRange.isAny]⟩

theorem dom_caret : ∃ rc, parseSingle ('^' :: relChars (a :: r)) m = .ok (.single rc) ∧ PyDom rc = true := by
  obtain ⟨rel', hn, hl⟩ := nextBreaking_final (a :: r) (by simp) h3
  refine ⟨_, parseSingle_caret a r m, ?_⟩
  rw [hn]
  simp [PyDom, PyRange, PyBound_finalV (a :: r) (by simp) h3, VRange.isAny,
    PyBound_finalV rel' (by rw [hl]; simp) (by rw [hl]; exact h3)]

theorem dom_tilde : ∃ rc, parseSingle ('~' :: relChars (a :: r)) m = .ok (.single rc) ∧ PyDom rc = true := by
  refine ⟨_, parseSingle_tilde a r m, ?_⟩
  simp only [finalV_stable, finalV_nextMajor, finalV_nextMinor]
  have hb := PyBound_finalV (a :: r) (by simp) h3
  rcases shape13 (a :: r) (by simp) h3 with ⟨x, e⟩ | ⟨x, y, e⟩ | ⟨x, y, z, e⟩ <;> rw [e] at hb ⊢ <;>
    simp [PyDom, PyRange, hb, VRange.isAny, Version.precision, finalV, PyBound, relNextMajor, relNextMinor, relMajor, zeros]

theorem dom_compat : ∃ rc, parseSingle ('~' :: '=' :: relChars (a :: r)) m = .ok (.single rc) ∧ PyDom rc = true := by
  refine ⟨_, parseSingle_compat a r m, ?_⟩
  simp only [finalV_stable, finalV_nextMajor, finalV_nextMinor]
  have hb := PyBound_finalV (a :: r) (by simp) h3
  rcases shape13 (a :: r) (by simp) h3 with ⟨x, e⟩ | ⟨x, y, e⟩ | ⟨x, y, z, e⟩ <;> rw [e] at hb ⊢ <;>
    simp [PyDom, PyRange, hb, VRange.isAny, Version.precision, finalV, PyBound, relNextMajor, relNextMinor, relMajor, zeros]

end

theorem dom_eq3 (a b c : Nat) (m : Bool) :
    ∃ rc, parseSingle ('=' :: '=' :: relChars [a, b, c]) m = .ok (.single rc) ∧ PyDom rc = true :=
  ⟨_, parseSingle_eq m a [b, c] (xCore_none3 false a b c), by
    have := PyBound_finalV [a, b, c] (by simp) (by simp)
    simp [PyDom, this, Version.precision, finalV]
    simpa [finalV] using this⟩

/-! ### `normalize_python_version_markers` on one pair -/

theorem filter_dot_D (n : Nat) : (D n).filter (· == '.') = [] := by
  rw [List.filter_eq_nil_iff]
  intro c hc
  have := D_isDigit n c hc
  intro h
  have : c = '.' := by simpa using h
  subst this; revert ‹isDigit '.' = true›; decide

theorem filter_dot_tail (r : List Nat) : ((tailChars r).filter (· == '.')).length = r.length := by
  induction r with
  | nil => rfl
  | cons b r ih => simp [tailChars, List.filter_append, filter_dot_D, ih]

theorem countDots (a : Nat) (r : List Nat) : countChar '.' (relText (a :: r)) = r.length := by
  simp [countChar, relText_toList, relChars, List.filter_append, filter_dot_D, filter_dot_tail]

theorem noStar (rel : List Nat) : (relText rel).toList.contains '*' = false := by
  rw [relText_toList]
  cases h : (relChars rel).contains '*' with
  | false => rfl
  | true =>
    have hm : '*' ∈ relChars rel := by simpa using h
    have := plain_relChars rel _ hm
    revert this; decide

theorem normPair2 (op : String) (a b : Nat) :
    normalizePyPair op (relText [a, b]) = .ok (
      if op == "==" then "~" ++ relText [a, b]
      else if op == "!=" then "!=" ++ relText [a, b] ++ ".*"
      else if op == "<=" then "<" ++ relText [a, b + 1]
      else if op == ">" then ">=" ++ relText [a, b + 1]
      else op ++ relText [a, b]) := by
  have hp : Version.parse (relText [a, b]) = .ok (finalV [a, b]) := parse_relText a [b]
  have hn : (finalV [a, b]).nextMinor.text = relText [a, b + 1] := by
    rw [finalV_nextMinor]; rfl
  simp only [normalizePyPair, noStar, countDots, hp]
  by_cases h1 : op = "=="
  · subst h1; simp
  · by_cases h2 : op = "!="
    · subst h2; simp
    · by_cases h3 : op = "<="
      · subst h3; simp [Version.precision, finalV, hn]
        simpa [finalV] using hn
      · by_cases h4 : op = ">"
        · subst h4; simp [Version.precision, finalV, hn]
          simpa [finalV] using hn
        · simp [h1, h2, h3, h4]

theorem normPair3 (op : String) (a b c : Nat) :
    normalizePyPair op (relText [a, b, c]) = .ok (op ++ relText [a, b, c]) := by
  have hp : Version.parse (relText [a, b, c]) = .ok (finalV [a, b, c]) := parse_relText a [b, c]
  simp only [normalizePyPair, noStar, countDots, hp]
  by_cases h3 : op = "<=" ∨ op = ">"
  · rcases h3 with rfl | rfl <;> simp [Version.precision, finalV]
  · simp only [not_or] at h3
    simp [h3.1, h3.2]

theorem evalItem_py_ne (E : Env) (n : String) (lit cand : List Nat)
    (hn : n = "python_version" ∨ n = "python_full_version")
    (hlit : lit ≠ []) (hcand : cand ≠ []) (hE : E.get? n = some (relText cand)) :
    evalItem n "!=" (relText lit) false E = some (compare (stripZeros cand) (stripZeros lit) != .eq) := by
  obtain ⟨a, r, rfl⟩ : ∃ a r, lit = a :: r := by cases lit <;> simp_all
  obtain ⟨b, q, rfl⟩ : ∃ a r, cand = a :: r := by cases cand <;> simp_all
  have hk : canonVar n = n := by rcases hn with rfl | rfl <;> decide
  have hx : (n == "extra") = false := by rcases hn with rfl | rfl <;> decide
  have hv : versionVars.contains n = true := by rcases hn with rfl | rfl <;> decide
  unfold evalItem
  simp only [hk, hx, hE, hv, Bool.false_eq_true, if_false, if_true]
  simp [parseFinal_relText, versionOp, isFinal_finalV, cmpRef_finalV]

theorem evalItem_py_compat (E : Env) (n : String) (a b : Nat) (r cand : List Nat)
    (hn : n = "python_version" ∨ n = "python_full_version")
    (hcand : cand ≠ []) (hE : E.get? n = some (relText cand)) :
    evalItem n "~=" (relText (a :: b :: r)) false E =
      some (compare (stripZeros cand) (stripZeros (a :: b :: r)) != .lt &&
        prefixMatch (a :: b :: r).dropLast cand) := by
  obtain ⟨c, q, rfl⟩ : ∃ a r, cand = a :: r := by cases cand <;> simp_all
  have hk : canonVar n = n := by rcases hn with rfl | rfl <;> decide
  have hx : (n == "extra") = false := by rcases hn with rfl | rfl <;> decide
  have hv : versionVars.contains n = true := by rcases hn with rfl | rfl <;> decide
  unfold evalItem
  simp only [hk, hx, hE, hv, Bool.false_eq_true, if_false, if_true]
  have hrel : ∀ l, (finalV l).release = l := fun _ => rfl
  simp [parseFinal_relText, versionOp, isFinal_finalV, cmpRef_finalV, hrel]


/-! ### `!=a.b.*` -/

theorem finalV_nextStable2 (a b : Nat) : (finalV [a, b]).nextStable = finalV [a, b + 1] := by
  rw [← bumpV_eq [a, b + 1]]
  simp [Version.nextStable, Version.isStable, Version.isUnstable, Version.isPrerelease, Version.isDevrelease,
    finalV, bumpV, relNext, relNextMinor, zeros]

theorem lt_step2 (a b : Nat) : Version.cmp (finalV [a, b]) (finalV [a, b + 1]) = .lt := by
  refine cmp_lt_of_rel_lt (a := finalV [a, b]) (b := finalV [a, b + 1]) ?_ ?_
  · rfl
  show compare (stripZeros [a, b]) (stripZeros [a, b + 1]) = .lt
  rw [sz_cmp_cons]; exact sz_cmp_lt_head (by omega) _ _

theorem firstDev_lt_step2 (a b : Nat) : Version.cmp (finalV [a, b]).firstDevrelease (finalV [a, b + 1]) = .lt := by
  refine cmp_lt_of_rel_lt (a := (finalV [a, b]).firstDevrelease) (b := finalV [a, b + 1]) ?_ ?_
  · rfl
  show compare (stripZeros [a, b]) (stripZeros [a, b + 1]) = .lt
  rw [sz_cmp_cons]; exact sz_cmp_lt_head (by omega) _ _

theorem xRange_inv2 (a b : Nat) :
    makeXConstraintRange (finalV [a, b]) true true =
      .ok (.union [.rng ⟨none, some (finalV [a, b]), false, false⟩, .rng ⟨some (finalV [a, b + 1]), none, true, false⟩]) := by
  have h1 := lt_step2 a b
  have h2 := firstDev_lt_step2 a b
  have hu : (finalV [a, b]).isUnstable = false := rfl
  have hp : (finalV [a, b]).isPostrelease = false := rfl
  have hs : (finalV [a, b]).isStable = true := rfl
  have hdv : (finalV [a, b]).isDevrelease = false := rfl
  simp only [makeXConstraintRange, hdv, hp, hs, finalV_nextStable2, if_true, Bool.false_eq_true, if_false]
  simp [VC.difference, VC.any, RC.difference, RC.rngDifferenceRng, RC.allowsAny, VRange.isStrictlyLower, VRange.isStrictlyHigher,
    VRange.allowedMax, VRange.allowedMin, VRange.any, VRange.allowsLower, VRange.allowsHigher, optVerEq, bind, Except.bind,
    pure, Except.pure, hu]
  have hu' : (finalV [a, b + 1]).isUnstable = false := rfl
  have heq : (finalV [a, b]).eqv (finalV [a, b + 1]) = false := by simp [Version.eqv, h1]
  have hlt : Version.lt (finalV [a, b]).firstDevrelease (finalV [a, b + 1]) = true := by simp [Version.lt, h2]
  simp [hu', heq, unionOfFlat, RC.isAny, VRange.isAny, sortRCs, insertSorted, RC.lt, VRange.cmp, RC.view, RC.min, RC.max,
    RC.imin, RC.imax, mergeLoop, RC.allowsAny, VRange.isStrictlyLower, VRange.isStrictlyHigher, VRange.allowedMax,
    VRange.allowedMin, optVerEq, hu, hlt, VRange.isAdjacentTo, bind, Except.bind, pure, Except.pure]

/-! ### membership of `X.Y.Z` in ranges with final bounds, as arithmetic -/

theorem allows_lo (v : Version) (imin : Bool) (hb : PyBound v = true) (X Y Z : Nat) :
    (VRange.mk (some v) none imin false).allows (pyV X Y Z) = true ↔
      (if imin then lex3 (pad3 v.release).1 (pad3 v.release).2.1 (pad3 v.release).2.2 X Y Z ≠ .gt
       else lex3 (pad3 v.release).1 (pad3 v.release).2.1 (pad3 v.release).2.2 X Y Z = .lt) := by
  rw [allows_py_iff _ (by simp [PyRange, hb, VRange.isAny]), denLo_py _ rfl hb]
  simp [VRange.rawHi]

theorem allows_hi (v : Version) (imax : Bool) (hb : PyBound v = true) (X Y Z : Nat) :
    (VRange.mk none (some v) false imax).allows (pyV X Y Z) = true ↔
      (if imax then lex3 X Y Z (pad3 v.release).1 (pad3 v.release).2.1 (pad3 v.release).2.2 ≠ .gt
       else lex3 X Y Z (pad3 v.release).1 (pad3 v.release).2.1 (pad3 v.release).2.2 = .lt) := by
  rw [allows_py_iff _ (by simp [PyRange, hb, VRange.isAny]), rawHi_py _ rfl hb]
  simp [VRange.denLo]

theorem allows_both (v w : Version) (imin imax : Bool) (hv : PyBound v = true) (hw : PyBound w = true)
    (X Y Z : Nat) :
    (VRange.mk (some v) (some w) imin imax).allows (pyV X Y Z) = true ↔
      (if imin then lex3 (pad3 v.release).1 (pad3 v.release).2.1 (pad3 v.release).2.2 X Y Z ≠ .gt
       else lex3 (pad3 v.release).1 (pad3 v.release).2.1 (pad3 v.release).2.2 X Y Z = .lt) ∧
      (if imax then lex3 X Y Z (pad3 w.release).1 (pad3 w.release).2.1 (pad3 w.release).2.2 ≠ .gt
       else lex3 X Y Z (pad3 w.release).1 (pad3 w.release).2.1 (pad3 w.release).2.2 = .lt) := by
  rw [allows_py_iff _ (by simp [PyRange, hv, hw, VRange.isAny]), denLo_py _ rfl hv, rawHi_py _ rfl hw]

/-! ### one normalised clause -/

theorem plain_noSep {cs : List Char} (h : Plain cs) : NoSep cs := by
  intro c hc
  have hp := h c hc
  refine ⟨plain_ne hp (by decide), plain_ne hp (by decide), plain_ne hp (by decide), ?_⟩
  rcases plain_toNat hp with h | h
  · simp only [isSpace]
    simp only [Bool.or_eq_false_iff, beq_eq_false_iff_ne, ne_eq, Bool.and_eq_false_iff, decide_eq_false_iff_not]
    omega
  · subst h; decide

theorem noSep_cons {c : Char} {cs : List Char} (hc : c ≠ ' ' ∧ c ≠ ',' ∧ c ≠ '|' ∧ isSpace c = false)
    (h : NoSep cs) : NoSep (c :: cs) := by
  intro d hd
  rcases List.mem_cons.1 hd with rfl | hd
  · exact hc
  · exact h d hd

theorem noSep_append {as bs : List Char} (ha : NoSep as) (hb : NoSep bs) : NoSep (as ++ bs) := by
  intro d hd
  rcases List.mem_append.1 hd with hd | hd
  · exact ha d hd
  · exact hb d hd

theorem noSep_rel (rel : List Nat) : NoSep (relChars rel) := plain_noSep (plain_relChars rel)


theorem clause_of_parse (item : String) (cs : List Char) (hcs : item.toList = cs) (hns : NoSep cs)
    (hne : cs ≠ ['*']) (vc : VC) (hp : parseSingle cs true = .ok vc) :
    parseMarkerVersionConstraint item = .ok vc := by
  have h1 : item ≠ "*" := by
    intro e; apply hne; rw [← hcs, e]; rfl
  rw [parseMarkerVersionConstraint, parseConstraintAux_single item true (hcs ▸ hns) h1, hcs, hp]

/-- the clause text `item` is read by the constraint parser as a constraint admitting `X.Y.Z` exactly when `b` -/
def ClauseMeans (item : String) (X Y Z : Nat) (b : Bool) : Prop :=
  ∃ vc, parseMarkerVersionConstraint item = .ok vc ∧ vc.allowsPlain (pyV X Y Z) = b

theorem sp {c : Char} (h : c = '~' ∨ c = '=' ∨ c = '!' ∨ c = '<' ∨ c = '>' ∨ c = '*' ∨ c = '.') :
    c ≠ ' ' ∧ c ≠ ',' ∧ c ≠ '|' ∧ isSpace c = false := by
  rcases h with rfl | rfl | rfl | rfl | rfl | rfl | rfl <;> decide

theorem bool_iff {x y : Bool} (h : x = true ↔ y = true) : x = y := by
  cases x <;> cases y <;> simp_all

section
variable (E : Env) (X Y Z : Nat) (hE : EnvPy E X Y Z)
include hE

/-- `python_version == "a.b"` ↦ `~a.b` -/
theorem norm2_eq (a b : Nat) : ∃ item bb, normalizePyPair "==" (relText [a, b]) = .ok item ∧
    ClauseMeans item X Y Z bb ∧ evalItem "python_version" "==" (relText [a, b]) false E = some bb := by
  refine ⟨_, _, by rw [normPair2], ⟨_, clause_of_parse _ ('~' :: relChars [a, b]) (by simp [relText_toList])
    (noSep_cons (sp (by simp)) (noSep_rel _)) (by simp) _ (parseSingle_tilde a [b] true), rfl⟩, ?_⟩
  rw [evalItem_py E _ _ [a, b] [X, Y] (Or.inl rfl) (by simp [CmpOp]) (by simp) (by simp) hE.1]
  congr 1
  apply bool_iff
  have hprec : ∀ l, (finalV l).precision = l.length := fun _ => rfl
  have hrel : ∀ l, (finalV l).release = l := fun _ => rfl
  simp only [VC.allowsPlain, VC.flatten, List.any_cons, List.any_nil, Bool.or_false, RC.allows,
    finalV_stable, finalV_nextMinor, hprec, List.length_cons, List.length_nil, Nat.reduceAdd, Nat.reduceBEq,
    Bool.false_eq_true, if_false]
  rw [opTest_eq, sz_pad2, sz_pad2, sz3, lex3_eq,
    allows_both (finalV [a, b]) (finalV (relNextMinor [a, b])) true false
      (PyBound_finalV _ (by simp) (by simp)) (PyBound_finalV _ (by simp [relNextMinor, zeros]) (by simp [relNextMinor, zeros])) X Y Z]
  simp only [hrel, pad3, relNextMinor, zeros, List.length_nil, List.replicate, if_true, ne_eq, lex3_gt, lex3_lt,
    Bool.false_eq_true, if_false]
  simp only [and_true]
  omega


/-- `python_version < "a.b"` ↦ `<a.b` -/
theorem norm2_lt (a b : Nat) : ∃ item bb, normalizePyPair "<" (relText [a, b]) = .ok item ∧
    ClauseMeans item X Y Z bb ∧ evalItem "python_version" "<" (relText [a, b]) false E = some bb := by
  refine ⟨_, _, by rw [normPair2], ⟨_, clause_of_parse _ ('<' :: relChars [a, b]) (by simp [relText_toList])
    (noSep_cons (sp (by simp)) (noSep_rel _)) (by simp) _ (parseSingle_lt a [b] true), rfl⟩, ?_⟩
  rw [evalItem_py E _ _ [a, b] [X, Y] (Or.inl rfl) (by simp [CmpOp]) (by simp) (by simp) hE.1]
  congr 1
  apply bool_iff
  have hprec : ∀ l, (finalV l).precision = l.length := fun _ => rfl
  have hrel : ∀ l, (finalV l).release = l := fun _ => rfl
  simp only [VC.allowsPlain, VC.flatten, List.any_cons, List.any_nil, Bool.or_false, RC.allows]
  rw [opTest_lt, sz_pad2, sz_pad2, sz3, allows_hi (finalV [a, b]) false (PyBound_finalV _ (by simp) (by simp)) X Y Z]
  simp only [hrel, pad3, if_true, ne_eq, lex3_gt, lex3_lt, lex3_eq, Bool.false_eq_true, if_false, and_true]
  try omega


/-- `python_version <= "a.b"` ↦ `<a.(b+1)` -/
theorem norm2_le (a b : Nat) : ∃ item bb, normalizePyPair "<=" (relText [a, b]) = .ok item ∧
    ClauseMeans item X Y Z bb ∧ evalItem "python_version" "<=" (relText [a, b]) false E = some bb := by
  refine ⟨_, _, by rw [normPair2], ⟨_, clause_of_parse _ ('<' :: relChars [a, b + 1]) (by simp [relText_toList])
    (noSep_cons (sp (by simp)) (noSep_rel _)) (by simp) _ (parseSingle_lt a [b + 1] true), rfl⟩, ?_⟩
  rw [evalItem_py E _ _ [a, b] [X, Y] (Or.inl rfl) (by simp [CmpOp]) (by simp) (by simp) hE.1]
  congr 1
  apply bool_iff
  have hprec : ∀ l, (finalV l).precision = l.length := fun _ => rfl
  have hrel : ∀ l, (finalV l).release = l := fun _ => rfl
  simp only [VC.allowsPlain, VC.flatten, List.any_cons, List.any_nil, Bool.or_false, RC.allows]
  rw [opTest_le, sz_pad2, sz_pad2, sz3, allows_hi (finalV [a, b + 1]) false (PyBound_finalV _ (by simp) (by simp)) X Y Z]
  simp only [hrel, pad3, if_true, ne_eq, lex3_gt, lex3_lt, lex3_eq, Bool.false_eq_true, if_false, and_true]
  try omega


/-- `python_version > "a.b"` ↦ `>=a.(b+1)` -/
theorem norm2_gt (a b : Nat) : ∃ item bb, normalizePyPair ">" (relText [a, b]) = .ok item ∧
    ClauseMeans item X Y Z bb ∧ evalItem "python_version" ">" (relText [a, b]) false E = some bb := by
  refine ⟨_, _, by rw [normPair2], ⟨_, clause_of_parse _ ('>' :: '=' :: relChars [a, b + 1]) (by simp [relText_toList])
    (noSep_cons (sp (by simp)) (noSep_cons (sp (by simp)) (noSep_rel _))) (by simp) _ (parseSingle_ge a [b + 1] true), rfl⟩, ?_⟩
  rw [evalItem_py E _ _ [a, b] [X, Y] (Or.inl rfl) (by simp [CmpOp]) (by simp) (by simp) hE.1]
  congr 1
  apply bool_iff
  have hprec : ∀ l, (finalV l).precision = l.length := fun _ => rfl
  have hrel : ∀ l, (finalV l).release = l := fun _ => rfl
  simp only [VC.allowsPlain, VC.flatten, List.any_cons, List.any_nil, Bool.or_false, RC.allows]
  rw [opTest_gt, sz_pad2, sz_pad2, sz3, allows_lo (finalV [a, b + 1]) true (PyBound_finalV _ (by simp) (by simp)) X Y Z]
  simp only [hrel, pad3, if_true, ne_eq, lex3_gt, lex3_lt, lex3_eq, Bool.false_eq_true, if_false, and_true]
  try omega


/-- `python_version >= "a.b"` ↦ `>=a.b` -/
theorem norm2_ge (a b : Nat) : ∃ item bb, normalizePyPair ">=" (relText [a, b]) = .ok item ∧
    ClauseMeans item X Y Z bb ∧ evalItem "python_version" ">=" (relText [a, b]) false E = some bb := by
  refine ⟨_, _, by rw [normPair2], ⟨_, clause_of_parse _ ('>' :: '=' :: relChars [a, b]) (by simp [relText_toList])
    (noSep_cons (sp (by simp)) (noSep_cons (sp (by simp)) (noSep_rel _))) (by simp) _ (parseSingle_ge a [b] true), rfl⟩, ?_⟩
  rw [evalItem_py E _ _ [a, b] [X, Y] (Or.inl rfl) (by simp [CmpOp]) (by simp) (by simp) hE.1]
  congr 1
  apply bool_iff
  have hprec : ∀ l, (finalV l).precision = l.length := fun _ => rfl
  have hrel : ∀ l, (finalV l).release = l := fun _ => rfl
  simp only [VC.allowsPlain, VC.flatten, List.any_cons, List.any_nil, Bool.or_false, RC.allows]
  rw [opTest_ge, sz_pad2, sz_pad2, sz3, allows_lo (finalV [a, b]) true (PyBound_finalV _ (by simp) (by simp)) X Y Z]
  simp only [hrel, pad3, if_true, ne_eq, lex3_gt, lex3_lt, lex3_eq, Bool.false_eq_true, if_false, and_true]
  try omega


/-- `python_full_version < "a.b.c"` ↦ `<a.b.c` -/
theorem norm3_lt (a b c : Nat) : ∃ item bb, normalizePyPair "<" (relText [a, b, c]) = .ok item ∧
    ClauseMeans item X Y Z bb ∧ evalItem "python_full_version" "<" (relText [a, b, c]) false E = some bb := by
  refine ⟨_, _, by rw [normPair3], ⟨_, clause_of_parse _ ('<' :: relChars [a, b, c]) (by simp [relText_toList])
    (noSep_cons (sp (by simp)) (noSep_rel _)) (by simp) _ (parseSingle_lt a [b, c] true), rfl⟩, ?_⟩
  rw [evalItem_py E _ _ [a, b, c] [X, Y, Z] (Or.inr rfl) (by simp [CmpOp]) (by simp) (by simp) hE.2]
  congr 1
  apply bool_iff
  have hprec : ∀ l, (finalV l).precision = l.length := fun _ => rfl
  have hrel : ∀ l, (finalV l).release = l := fun _ => rfl
  simp only [VC.allowsPlain, VC.flatten, List.any_cons, List.any_nil, Bool.or_false, RC.allows]
  rw [opTest_lt, sz3, allows_hi (finalV [a, b, c]) false (PyBound_finalV _ (by simp) (by simp)) X Y Z]
  simp only [hrel, pad3, if_true, ne_eq, lex3_gt, lex3_lt, lex3_eq, Bool.false_eq_true, if_false, and_true]
  try omega


/-- `python_full_version <= "a.b.c"` ↦ `<=a.b.c` -/
theorem norm3_le (a b c : Nat) : ∃ item bb, normalizePyPair "<=" (relText [a, b, c]) = .ok item ∧
    ClauseMeans item X Y Z bb ∧ evalItem "python_full_version" "<=" (relText [a, b, c]) false E = some bb := by
  refine ⟨_, _, by rw [normPair3], ⟨_, clause_of_parse _ ('<' :: '=' :: relChars [a, b, c]) (by simp [relText_toList])
    (noSep_cons (sp (by simp)) (noSep_cons (sp (by simp)) (noSep_rel _))) (by simp) _ (parseSingle_le a [b, c] true), rfl⟩, ?_⟩
  rw [evalItem_py E _ _ [a, b, c] [X, Y, Z] (Or.inr rfl) (by simp [CmpOp]) (by simp) (by simp) hE.2]
  congr 1
  apply bool_iff
  have hprec : ∀ l, (finalV l).precision = l.length := fun _ => rfl
  have hrel : ∀ l, (finalV l).release = l := fun _ => rfl
  simp only [VC.allowsPlain, VC.flatten, List.any_cons, List.any_nil, Bool.or_false, RC.allows]
  rw [opTest_le, sz3, allows_hi (finalV [a, b, c]) true (PyBound_finalV _ (by simp) (by simp)) X Y Z]
  simp only [hrel, pad3, if_true, ne_eq, lex3_gt, lex3_lt, lex3_eq, Bool.false_eq_true, if_false, and_true]
  try omega


/-- `python_full_version > "a.b.c"` ↦ `>a.b.c` -/
theorem norm3_gt (a b c : Nat) : ∃ item bb, normalizePyPair ">" (relText [a, b, c]) = .ok item ∧
    ClauseMeans item X Y Z bb ∧ evalItem "python_full_version" ">" (relText [a, b, c]) false E = some bb := by
  refine ⟨_, _, by rw [normPair3], ⟨_, clause_of_parse _ ('>' :: relChars [a, b, c]) (by simp [relText_toList])
    (noSep_cons (sp (by simp)) (noSep_rel _)) (by simp) _ (parseSingle_gt a [b, c] true), rfl⟩, ?_⟩
  rw [evalItem_py E _ _ [a, b, c] [X, Y, Z] (Or.inr rfl) (by simp [CmpOp]) (by simp) (by simp) hE.2]
  congr 1
  apply bool_iff
  have hprec : ∀ l, (finalV l).precision = l.length := fun _ => rfl
  have hrel : ∀ l, (finalV l).release = l := fun _ => rfl
  simp only [VC.allowsPlain, VC.flatten, List.any_cons, List.any_nil, Bool.or_false, RC.allows]
  rw [opTest_gt, sz3, allows_lo (finalV [a, b, c]) false (PyBound_finalV _ (by simp) (by simp)) X Y Z]
  simp only [hrel, pad3, if_true, ne_eq, lex3_gt, lex3_lt, lex3_eq, Bool.false_eq_true, if_false, and_true]
  try omega


/-- `python_full_version >= "a.b.c"` ↦ `>=a.b.c` -/
theorem norm3_ge (a b c : Nat) : ∃ item bb, normalizePyPair ">=" (relText [a, b, c]) = .ok item ∧
    ClauseMeans item X Y Z bb ∧ evalItem "python_full_version" ">=" (relText [a, b, c]) false E = some bb := by
  refine ⟨_, _, by rw [normPair3], ⟨_, clause_of_parse _ ('>' :: '=' :: relChars [a, b, c]) (by simp [relText_toList])
    (noSep_cons (sp (by simp)) (noSep_cons (sp (by simp)) (noSep_rel _))) (by simp) _ (parseSingle_ge a [b, c] true), rfl⟩, ?_⟩
  rw [evalItem_py E _ _ [a, b, c] [X, Y, Z] (Or.inr rfl) (by simp [CmpOp]) (by simp) (by simp) hE.2]
  congr 1
  apply bool_iff
  have hprec : ∀ l, (finalV l).precision = l.length := fun _ => rfl
  have hrel : ∀ l, (finalV l).release = l := fun _ => rfl
  simp only [VC.allowsPlain, VC.flatten, List.any_cons, List.any_nil, Bool.or_false, RC.allows]
  rw [opTest_ge, sz3, allows_lo (finalV [a, b, c]) true (PyBound_finalV _ (by simp) (by simp)) X Y Z]
  simp only [hrel, pad3, if_true, ne_eq, lex3_gt, lex3_lt, lex3_eq, Bool.false_eq_true, if_false, and_true]
  try omega


/-- `python_full_version == "a.b.c"` ↦ `==a.b.c` -/
theorem norm3_eq (a b c : Nat) : ∃ item bb, normalizePyPair "==" (relText [a, b, c]) = .ok item ∧
    ClauseMeans item X Y Z bb ∧ evalItem "python_full_version" "==" (relText [a, b, c]) false E = some bb := by
  refine ⟨_, _, by rw [normPair3], ⟨_, clause_of_parse _ ('=' :: '=' :: relChars [a, b, c]) (by simp [relText_toList])
    (noSep_cons (sp (by simp)) (noSep_cons (sp (by simp)) (noSep_rel _))) (by simp) _ (parseSingle_eq true a [b, c] (xCore_none3 false a b c)), rfl⟩, ?_⟩
  rw [evalItem_py E _ _ [a, b, c] [X, Y, Z] (Or.inr rfl) (by simp [CmpOp]) (by simp) (by simp) hE.2]
  congr 1
  apply bool_iff
  have hprec : ∀ l, (finalV l).precision = l.length := fun _ => rfl
  have hrel : ∀ l, (finalV l).release = l := fun _ => rfl
  simp only [VC.allowsPlain, VC.flatten, List.any_cons, List.any_nil, Bool.or_false, RC.allows]
  have hal : (finalV [a, b, c]).allows (pyV X Y Z) = Version.eqv (finalV [a, b, c]) (pyV X Y Z) := by
    simp [Version.allows, pyV, finalV, Version.isLocal]
  rw [opTest_eq, sz3, hal]
  simp only [Version.eqv, beq_iff_eq, cmp_bound_py (PyBound_finalV [a, b, c] (by simp) (by simp))]
  simp only [hrel, pad3, if_true, ne_eq, lex3_gt, lex3_lt, lex3_eq, Bool.false_eq_true, if_false, and_true]
  try omega



/-- `python_version ~= "a.b"` ↦ `~=a.b` -/
theorem norm2_compat (a b : Nat) : ∃ item bb, normalizePyPair "~=" (relText [a, b]) = .ok item ∧
    ClauseMeans item X Y Z bb ∧ evalItem "python_version" "~=" (relText [a, b]) false E = some bb := by
  refine ⟨_, _, by rw [normPair2], ⟨_, clause_of_parse _ ('~' :: '=' :: relChars [a, b]) (by simp [relText_toList])
    (noSep_cons (sp (by simp)) (noSep_cons (sp (by simp)) (noSep_rel _))) (by simp) _ (parseSingle_compat a [b] true), rfl⟩, ?_⟩
  rw [evalItem_py_compat E _ a b [] [X, Y] (Or.inl rfl) (by simp) hE.1]
  congr 1
  apply bool_iff
  have hprec : ∀ l, (finalV l).precision = l.length := fun _ => rfl
  have hrel : ∀ l, (finalV l).release = l := fun _ => rfl
  simp only [VC.allowsPlain, VC.flatten, List.any_cons, List.any_nil, Bool.or_false, RC.allows,
    finalV_stable, finalV_nextMajor, hprec, List.length_cons, List.length_nil, Nat.reduceAdd, Nat.reduceBEq, if_true]
  rw [allows_both (finalV [a, b]) (finalV (relNextMajor [a, b])) true false
      (PyBound_finalV _ (by simp) (by simp)) (PyBound_finalV _ (by simp [relNextMajor, zeros]) (by simp [relNextMajor, zeros])) X Y Z]
  simp only [Bool.and_eq_true, bne_iff_ne, ne_eq, sz_pad2, sz3, prefixMatch, List.dropLast, List.length_cons,
    List.length_nil, beq_iff_eq]
  simp only [hrel, pad3, relNextMajor, relMajor, zeros, List.headD, if_true, ne_eq, lex3_gt, lex3_lt, Bool.false_eq_true, if_false]
  simp
  omega

/-- `python_full_version ~= "a.b.c"` ↦ `~=a.b.c` -/
theorem norm3_compat (a b c : Nat) : ∃ item bb, normalizePyPair "~=" (relText [a, b, c]) = .ok item ∧
    ClauseMeans item X Y Z bb ∧ evalItem "python_full_version" "~=" (relText [a, b, c]) false E = some bb := by
  refine ⟨_, _, by rw [normPair3], ⟨_, clause_of_parse _ ('~' :: '=' :: relChars [a, b, c]) (by simp [relText_toList])
    (noSep_cons (sp (by simp)) (noSep_cons (sp (by simp)) (noSep_rel _))) (by simp) _ (parseSingle_compat a [b, c] true), rfl⟩, ?_⟩
  rw [evalItem_py_compat E _ a b [c] [X, Y, Z] (Or.inr rfl) (by simp) hE.2]
  congr 1
  apply bool_iff
  have hprec : ∀ l, (finalV l).precision = l.length := fun _ => rfl
  have hrel : ∀ l, (finalV l).release = l := fun _ => rfl
  simp only [VC.allowsPlain, VC.flatten, List.any_cons, List.any_nil, Bool.or_false, RC.allows,
    finalV_stable, finalV_nextMinor, hprec, List.length_cons, List.length_nil, Nat.reduceAdd, Nat.reduceBEq,
    Bool.false_eq_true, if_false, Nat.le_refl, if_true]
  rw [allows_both (finalV [a, b, c]) (finalV (relNextMinor [a, b, c])) true false
      (PyBound_finalV _ (by simp) (by simp)) (PyBound_finalV _ (by simp [relNextMinor, zeros]) (by simp [relNextMinor, zeros])) X Y Z]
  simp only [Bool.and_eq_true, bne_iff_ne, ne_eq, sz3, prefixMatch, List.dropLast, List.length_cons,
    List.length_nil, beq_iff_eq]
  simp only [hrel, pad3, relNextMinor, zeros, List.replicate, List.length_cons, List.length_nil, if_true, ne_eq, lex3_gt, lex3_lt, Bool.false_eq_true, if_false]
  simp
  omega


/-- `python_full_version != "a.b.c"` ↦ `!=a.b.c` -/
theorem norm3_ne (a b c : Nat) : ∃ item bb, normalizePyPair "!=" (relText [a, b, c]) = .ok item ∧
    ClauseMeans item X Y Z bb ∧ evalItem "python_full_version" "!=" (relText [a, b, c]) false E = some bb := by
  refine ⟨_, _, by rw [normPair3], ⟨_, clause_of_parse _ ('!' :: '=' :: relChars [a, b, c]) (by simp [relText_toList])
    (noSep_cons (sp (by simp)) (noSep_cons (sp (by simp)) (noSep_rel _))) (by simp) _
    (parseSingle_ne true a [b, c] (xCore_none3 true a b c)), rfl⟩, ?_⟩
  rw [evalItem_py_ne E _ [a, b, c] [X, Y, Z] (Or.inr rfl) (by simp) (by simp) hE.2]
  congr 1
  apply bool_iff
  have hrel : ∀ l, (finalV l).release = l := fun _ => rfl
  simp only [VC.allowsPlain, VC.flatten, List.any_cons, List.any_nil, Bool.or_false, RC.allows, Bool.or_eq_true]
  rw [allows_hi (finalV [a, b, c]) false (PyBound_finalV _ (by simp) (by simp)) X Y Z,
    allows_lo (finalV [a, b, c]) false (PyBound_finalV _ (by simp) (by simp)) X Y Z]
  simp only [bne_iff_ne, ne_eq, sz3, lex3_eq]
  simp only [hrel, pad3, if_true, ne_eq, lex3_gt, lex3_lt, lex3_eq, Bool.false_eq_true, if_false, and_true]
  omega


/-- `python_version != "a.b"` ↦ `!=a.b.*` -/
theorem norm2_ne (a b : Nat) : ∃ item bb, normalizePyPair "!=" (relText [a, b]) = .ok item ∧
    ClauseMeans item X Y Z bb ∧ evalItem "python_version" "!=" (relText [a, b]) false E = some bb := by
  have hp : parseSingle ('!' :: '=' :: (relChars [a, b] ++ ['.', '*'])) true = _ :=
    (parseSingle_neStar true a [b] (xCore_star2 true a b)).trans (xRange_inv2 a b)
  refine ⟨_, _, by rw [normPair2], ⟨_, clause_of_parse _ ('!' :: '=' :: (relChars [a, b] ++ ['.', '*']))
    (by simp [relText_toList])
    (noSep_cons (sp (by simp)) (noSep_cons (sp (by simp)) (noSep_append (noSep_rel _)
      (noSep_cons (sp (by simp)) (noSep_cons (sp (by simp)) (fun _ h => by cases h)))))) (by simp) _ hp, rfl⟩, ?_⟩
  rw [evalItem_py_ne E _ [a, b] [X, Y] (Or.inl rfl) (by simp) (by simp) hE.1]
  congr 1
  apply bool_iff
  have hrel : ∀ l, (finalV l).release = l := fun _ => rfl
  simp only [VC.allowsPlain, VC.flatten, List.any_cons, List.any_nil, Bool.or_false, RC.allows, Bool.or_eq_true]
  rw [allows_hi (finalV [a, b]) false (PyBound_finalV _ (by simp) (by simp)) X Y Z,
    allows_lo (finalV [a, b + 1]) true (PyBound_finalV _ (by simp) (by simp)) X Y Z]
  simp only [bne_iff_ne, ne_eq, sz_pad2, sz3, lex3_eq]
  simp only [hrel, pad3, if_true, ne_eq, lex3_gt, lex3_lt, lex3_eq, Bool.false_eq_true, if_false, and_true]
  omega

end


/-! ### all operators; conjunctions; single python items -/

/-- the operators of version items other than the list operators -/
def RelOp (op : String) : Prop :=
  op = "==" ∨ op = "!=" ∨ op = "<" ∨ op = "<=" ∨ op = ">" ∨ op = ">=" ∨ op = "~="

/-- a `(variable, literal)` combination on which the conversion is exact: `python_version` with a two-component
literal, `python_full_version` with a three-component one (what `SingleMarker.__init__` pads to) -/
inductive PyItem : String → List Nat → Prop where
  | short (a b : Nat) : PyItem "python_version" [a, b]
  | full (a b c : Nat) : PyItem "python_full_version" [a, b, c]

/-- **one pair**: the clause `normalize_python_version_markers` prints for `(op, value)` is read by the
constraint parser as a constraint admitting `X.Y.Z` exactly when the item `name op "value"` holds on the
environment of `X.Y.Z`. -/
theorem normPair_exact (E : Env) (X Y Z : Nat) (hE : EnvPy E X Y Z) (n op : String) (lit : List Nat)
    (hop : RelOp op) (hi : PyItem n lit) :
    ∃ item bb, normalizePyPair op (relText lit) = .ok item ∧ ClauseMeans item X Y Z bb ∧
      evalItem n op (relText lit) false E = some bb := by
  cases hi with
  | short a b =>
    rcases hop with rfl | rfl | rfl | rfl | rfl | rfl | rfl
    · exact norm2_eq E X Y Z hE a b
    · exact norm2_ne E X Y Z hE a b
    · exact norm2_lt E X Y Z hE a b
    · exact norm2_le E X Y Z hE a b
    · exact norm2_gt E X Y Z hE a b
    · exact norm2_ge E X Y Z hE a b
    · exact norm2_compat E X Y Z hE a b
  | full a b c =>
    rcases hop with rfl | rfl | rfl | rfl | rfl | rfl | rfl
    · exact norm3_eq E X Y Z hE a b c
    · exact norm3_ne E X Y Z hE a b c
    · exact norm3_lt E X Y Z hE a b c
    · exact norm3_le E X Y Z hE a b c
    · exact norm3_gt E X Y Z hE a b c
    · exact norm3_ge E X Y Z hE a b c
    · exact norm3_compat E X Y Z hE a b c

theorem relOp_not_list {op : String} (h : RelOp op) : (op == "in") = false ∧ (op == "not in") = false := by
  rcases h with rfl | rfl | rfl | rfl | rfl | rfl | rfl <;> decide

/-- `normalize_python_version_markers` on one conjunction without list operators: one clause per pair, in order -/
theorem normConj_items (pairs : List (String × String)) (items : List String) (alts : List (List String))
    (hops : ∀ p ∈ pairs, RelOp p.1)
    (hit : pairs.mapM (fun p => normalizePyPair p.1 p.2) = .ok items) :
    normalizePyConj pairs alts = .ok (alts.map (· ++ items)) := by
  induction pairs generalizing items alts with
  | nil =>
    simp [List.mapM_nil, pure, Except.pure] at hit; subst hit
    simp [normalizePyConj]
  | cons p ps ih =>
    obtain ⟨op, version⟩ := p
    have hl := relOp_not_list (hops (op, version) (by simp))
    simp only [List.mapM_cons, bind, Except.bind] at hit
    split at hit
    · cases hit
    · rename_i item hitem
      split at hit
      · cases hit
      · rename_i rest hrest
        simp [pure, Except.pure] at hit; subst hit
        simp only [normalizePyConj, hl.1, hl.2, Bool.false_eq_true, if_false, hitem]
        rw [ih rest _ (fun q hq => hops q (by simp [hq])) hrest]
        simp [List.map_map, Function.comp_def]

/-- `get_python_constraint_from_marker` of a single python item is the parse of its one normalised clause -/
theorem gpcLeaf_single (s : Single) (item : String) (hn : isPyName s.name = true) (hop : RelOp s.op)
    (hitem : normalizePyPair s.op s.value = .ok item) :
    gpcLeaf (.single s) = parseMarkerVersionConstraint item := by
  have hc := normConj_items [(s.op, s.value)] [item] [[]] (by simpa using hop)
    (by simp [List.mapM_cons, List.mapM_nil, hitem, bind, Except.bind, pure, Except.pure])
  simp [gpcLeaf, Leaf.name, hn, normalizePyMarkers, hc, bind, Except.bind, pure, Except.pure, joinWith]


theorem pyItem_isPyName {n : String} {lit : List Nat} (h : PyItem n lit) : isPyName n = true := by
  cases h <;> decide

/-- **`get_python_constraint_from_marker` of one python item is exact** (reference value of the item) -/
theorem gpcLeaf_exact (E : Env) (X Y Z : Nat) (hE : EnvPy E X Y Z) (s : Single) (lit : List Nat)
    (hv : s.value = relText lit) (hi : PyItem s.name lit) (hop : RelOp s.op) :
    ∃ vc b, gpcLeaf (.single s) = .ok vc ∧ vc.allowsPlain (pyV X Y Z) = b ∧
      evalItem s.name s.op s.value false E = some b := by
  obtain ⟨item, bb, hitem, ⟨vc, hvc, hb⟩, hev⟩ := normPair_exact E X Y Z hE s.name s.op lit hop hi
  rw [← hv] at hitem hev
  exact ⟨vc, bb, by rw [gpcLeaf_single s item (pyItem_isPyName hi) hop hitem, hvc], hb, hev⟩

/-- a single-marker-like on another variable puts no condition on the interpreter -/
theorem gpcLeaf_foreign (l : Leaf) (h : isPyName l.name = false) : gpcLeaf l = .ok VC.any := by
  simp [gpcLeaf, h]

theorem any_allowsPlain (p : Version) : VC.any.allowsPlain p = true := by
  simp [VC.allowsPlain, VC.any, VC.flatten, RC.allows, VRange.allows, VRange.allowsLo, VRange.allowsHi, VRange.any]


end Poetry
