/-
C18 helper lemmas, part 7: a leaf invariant is preserved by the whole marker simplifier.  For ANY predicate `G` on
leaves closed under `_merge_single_markers` (`MergeClosed G`), every function of the mutual block of
Model/MarkerAlg.lean (intersect, union, intersection(), union(), cnf, dnf, MultiMarker.of, MarkerUnion.of and their
loops, intersect_simplify, union_simplify) maps markers whose leaves satisfy `G` to markers whose leaves satisfy
`G` — for every fuel value and every `detect_recursion` stack.  No semantic hypothesis (unlike `LeafSpec`).
-/
import PoetryVerif.Proofs.MarkerSemCongr
import PoetryVerif.Proofs.MarkerShape

set_option linter.unusedSimpArgs false
set_option linter.unusedVariables false

namespace Poetry.Marker

variable {G : Leaf → Prop}

/-- the leaf predicate is closed under `_merge_single_markers` -/
def MergeClosed (G : Leaf → Prop) : Prop :=
  ∀ l1 l2 im r, G l1 → G l2 → mergeLeaves l1 l2 im = .ok (some r) → M.Good G r

/-- every member satisfies the invariant -/
def GL (G : Leaf → Prop) (l : List M) : Prop := ∀ x ∈ l, M.Good G x

theorem trivCongr (G : Leaf → Prop) : LeafCongr (fun _ => true) G := ⟨fun _ _ _ _ _ => rfl⟩

theorem good_mkMulti {ms : List M} (h : GL G ms) : M.Good G (mkMulti ms) := (mkMulti_specC (trivCongr G) ms h).1
theorem good_mkUnion {ms : List M} (h : GL G ms) : M.Good G (mkUnion ms) := (mkUnion_specC (trivCongr G) ms h).1
theorem good_flatten (b : Bool) {ms : List M} (h : GL G ms) : GL G (flattenMarkers b ms) := by
  cases b
  · exact (flattenUnion_specC (trivCongr G) ms h).1
  · exact (flattenMulti_specC (trivCongr G) ms h).1
theorem good_unwrap (k : Nat) {m : M} (h : M.Good G m) : M.Good G (unwrapSingleton k m) :=
  (unwrapSingleton_spec (ev := fun _ => true) k m h).1

theorem GL.cons {x : M} {l : List M} (hx : M.Good G x) (hl : GL G l) : GL G (x :: l) := by
  intro y hy; simp at hy; rcases hy with rfl | hy
  · exact hx
  · exact hl y hy
theorem GL.tail {x : M} {l : List M} (h : GL G (x :: l)) : GL G l := fun y hy => h y (by simp [hy])
theorem GL.head {x : M} {l : List M} (h : GL G (x :: l)) : M.Good G x := h x (by simp)
theorem GL.nil : GL G [] := by intro x hx; simp at hx
theorem GL.filter {l : List M} (h : GL G l) (p : M → Bool) : GL G (l.filter p) :=
  fun x hx => h x (List.mem_filter.1 hx).1
theorem GL.append {a b : List M} (ha : GL G a) (hb : GL G b) : GL G (a ++ b) := by
  intro x hx; simp at hx; rcases hx with hx | hx
  · exact ha x hx
  · exact hb x hx
theorem GL.setAt {l : List M} {x : M} (hl : GL G l) (hx : M.Good G x) (i : Nat) : GL G (setAt l i x) := by
  intro y hy
  rcases setAt_mem hy with h | rfl
  · exact hl y h
  · exact hx
theorem GL.of_multi {ms : List M} (h : M.Good G (.multi ms)) : GL G ms := by simpa [GL] using h
theorem GL.of_union {ms : List M} (h : M.Good G (.union ms)) : GL G ms := by simpa [GL] using h
theorem good_multi_of {ms : List M} (h : GL G ms) : M.Good G (.multi ms) := by simpa [GL] using h
theorem good_union_of {ms : List M} (h : GL G ms) : M.Good G (.union ms) := by simpa [GL] using h

theorem GL.membersIfMulti {c : M} (h : M.Good G c) : GL G (membersIfMulti c) :=
  (membersIfMulti_spec (ev := fun _ => true) c h).1
theorem GL.membersIfUnion {c : M} (h : M.Good G c) : GL G (membersIfUnion c) :=
  (membersIfUnion_spec (ev := fun _ => true) c h).1

/-- the invariant of all functions of the mutual block at one fuel value -/
structure GAt (G : Leaf → Prop) (n : Nat) : Prop where
  inter : ∀ stk a b r, M.Good G a → M.Good G b → mIntersect n stk a b = .ok r → M.Good G r
  uni : ∀ stk a b r, M.Good G a → M.Good G b → mUnion n stk a b = .ok r → M.Good G r
  interF : ∀ stk ms r, GL G ms → intersectionF n stk ms = .ok r → M.Good G r
  uniF : ∀ stk ms r, GL G ms → unionF n stk ms = .ok r → M.Good G r
  cnf : ∀ stk m r, M.Good G m → cnf n stk m = .ok r → M.Good G r
  dnf : ∀ stk m r, M.Good G m → dnf n stk m = .ok r → M.Good G r
  mOf : ∀ stk ms r, GL G ms → multiOf n stk ms = .ok r → M.Good G r
  mLoop : ∀ stk old new r, GL G new → multiOfLoop n stk old new = .ok r → M.Good G r
  mPass : ∀ stk todo new l, GL G todo → GL G new → multiPass n stk todo new = .ok (some l) → GL G l
  mTry : ∀ stk marker all i rem l, M.Good G marker → GL G all → GL G rem →
    multiTry n stk marker all i rem = .ok (.inr (some l)) → GL G l
  uOf : ∀ stk ms r, GL G ms → unionOf n stk ms = .ok r → M.Good G r
  uLoop : ∀ stk old new r, GL G new → unionOfLoop n stk old new = .ok r → M.Good G r
  uPass : ∀ stk todo new l, GL G todo → GL G new → unionPass n stk todo new = .ok (some l) → GL G l
  uTry : ∀ stk marker all i rem l, M.Good G marker → GL G all → GL G rem →
    unionTry n stk marker all i rem = .ok (.inr (some l)) → GL G l
  iSimp : ∀ stk ours other r, GL G ours → M.Good G other → intersectSimplify n stk ours other = .ok (some r) →
    M.Good G r
  uSimp : ∀ stk ours other r, GL G ours → M.Good G other → unionSimplify n stk ours other = .ok (some r) →
    M.Good G r

/-! ### the list maps -/

theorem mapCnf_good {n : Nat} {stk : Stack} (hc : ∀ m r, M.Good G m → cnf n stk m = .ok r → M.Good G r) :
    ∀ ms rs, GL G ms → mapCnf n stk ms = .ok rs → GL G rs := by
  intro ms
  induction ms with
  | nil => intro rs _ h; rw [mapCnf.eq_def] at h; cases h; exact GL.nil
  | cons m ms ihl =>
    intro rs hg h
    rw [mapCnf.eq_def] at h
    simp only at h
    obtain ⟨x, h1, h⟩ := bind_ok.1 h
    obtain ⟨xs, h2, h3⟩ := bind_ok.1 h
    rw [pure_ok] at h3; subst h3
    exact GL.cons (hc m x hg.head h1) (ihl xs hg.tail h2)

theorem mapDnf_good {n : Nat} {stk : Stack} (hc : ∀ m r, M.Good G m → dnf n stk m = .ok r → M.Good G r) :
    ∀ ms rs, GL G ms → mapDnf n stk ms = .ok rs → GL G rs := by
  intro ms
  induction ms with
  | nil => intro rs _ h; rw [mapDnf.eq_def] at h; cases h; exact GL.nil
  | cons m ms ihl =>
    intro rs hg h
    rw [mapDnf.eq_def] at h
    simp only at h
    obtain ⟨x, h1, h⟩ := bind_ok.1 h
    obtain ⟨xs, h2, h3⟩ := bind_ok.1 h
    rw [pure_ok] at h3; subst h3
    exact GL.cons (hc m x hg.head h1) (ihl xs hg.tail h2)

theorem mapUnionOf_good {n : Nat} {stk : Stack} (hu : ∀ c r, GL G c → unionOf n stk c = .ok r → M.Good G r) :
    ∀ cs rs, (∀ c ∈ cs, GL G c) → mapUnionOf n stk cs = .ok rs → GL G rs := by
  intro cs
  induction cs with
  | nil => intro rs _ h; rw [mapUnionOf.eq_def] at h; cases h; exact GL.nil
  | cons c cs ihl =>
    intro rs hg h
    rw [mapUnionOf.eq_def] at h
    simp only at h
    obtain ⟨x, h1, h⟩ := bind_ok.1 h
    obtain ⟨xs, h2, h3⟩ := bind_ok.1 h
    rw [pure_ok] at h3; subst h3
    exact GL.cons (hu c x (hg c (by simp)) h1) (ihl xs (fun y hy => hg y (by simp [hy])) h2)

theorem mapMultiOf_good {n : Nat} {stk : Stack} (hu : ∀ c r, GL G c → multiOf n stk c = .ok r → M.Good G r) :
    ∀ cs rs, (∀ c ∈ cs, GL G c) → mapMultiOf n stk cs = .ok rs → GL G rs := by
  intro cs
  induction cs with
  | nil => intro rs _ h; rw [mapMultiOf.eq_def] at h; cases h; exact GL.nil
  | cons c cs ihl =>
    intro rs hg h
    rw [mapMultiOf.eq_def] at h
    simp only at h
    obtain ⟨x, h1, h⟩ := bind_ok.1 h
    obtain ⟨xs, h2, h3⟩ := bind_ok.1 h
    rw [pure_ok] at h3; subst h3
    exact GL.cons (hu c x (hg c (by simp)) h1) (ihl xs (fun y hy => hg y (by simp [hy])) h2)

theorem product_good {ls : List (List M)} (h : ∀ l ∈ ls, GL G l) : ∀ c ∈ product ls, GL G c := by
  intro c hc x hx
  obtain ⟨l, hl, hxl⟩ := product_mem hc x hx
  exact h l hl x hxl

/-! ### the steps -/

theorem cnf_gstep {n : Nat} (ih : GAt G n) :
    ∀ stk m r, M.Good G m → cnf (n + 1) stk m = .ok r → M.Good G r := by
  intro stk m r hg h
  rw [cnf.eq_def] at h
  simp only at h
  cases m with
  | union ms =>
    simp only at h
    obtain ⟨cs, h1, h⟩ := bind_ok.1 h
    obtain ⟨unions, h2, h3⟩ := bind_ok.1 h
    have hcs := mapCnf_good (ih.cnf stk) ms cs (GL.of_union hg) h1
    have hprod := product_good (G := G) (ls := cs.map membersIfMulti) (by
      intro l hl; simp only [List.mem_map] at hl
      obtain ⟨c0, hc0, rfl⟩ := hl
      exact GL.membersIfMulti (hcs c0 hc0))
    exact ih.mOf stk unions r (mapUnionOf_good (ih.uOf stk) _ unions hprod h2) h3
  | multi ms =>
    simp only at h
    obtain ⟨cs, h1, h3⟩ := bind_ok.1 h
    exact ih.mOf stk cs r (mapCnf_good (ih.cnf stk) ms cs (GL.of_multi hg) h1) h3
  | any => simp at h; subst h; exact hg
  | empty => simp at h; subst h; exact hg
  | leaf l => simp at h; subst h; exact hg

theorem dnf_gstep {n : Nat} (ih : GAt G n) :
    ∀ stk m r, M.Good G m → dnf (n + 1) stk m = .ok r → M.Good G r := by
  intro stk m r hg h
  rw [dnf.eq_def] at h
  simp only at h
  cases m with
  | multi ms =>
    simp only at h
    obtain ⟨cs, h1, h⟩ := bind_ok.1 h
    obtain ⟨multis, h2, h3⟩ := bind_ok.1 h
    have hcs := mapDnf_good (ih.dnf stk) ms cs (GL.of_multi hg) h1
    have hprod := product_good (G := G) (ls := cs.map membersIfUnion) (by
      intro l hl; simp only [List.mem_map] at hl
      obtain ⟨c0, hc0, rfl⟩ := hl
      exact GL.membersIfUnion (hcs c0 hc0))
    exact ih.uOf stk multis r (mapMultiOf_good (ih.mOf stk) _ multis hprod h2) h3
  | union ms =>
    simp only at h
    obtain ⟨cs, h1, h3⟩ := bind_ok.1 h
    exact ih.uOf stk cs r (mapDnf_good (ih.dnf stk) ms cs (GL.of_union hg) h1) h3
  | any => simp at h; subst h; exact hg
  | empty => simp at h; subst h; exact hg
  | leaf l => simp at h; subst h; exact hg

theorem intersectionF_gstep {n : Nat} (ih : GAt G n) :
    ∀ stk ms r, GL G ms → intersectionF (n + 1) stk ms = .ok r → M.Good G r := by
  intro stk ms r hm h
  rw [intersectionF.eq_def] at h
  simp only at h
  by_cases hs : Stack.has stk false ms = true
  · simp [hs] at h
  · simp only [hs, if_false, Bool.false_eq_true] at h
    have hung : M.Good G (unwrapSingleton (ms.length + 2) (mkMulti (ms.filter (fun m => !m.isAny)))) :=
      good_unwrap _ (good_mkMulti (hm.filter _))
    generalize unwrapSingleton (ms.length + 2) (mkMulti (ms.filter (fun m => !m.isAny))) = U at h hung
    cases hd : dnf n ((false, ms) :: stk) U with
    | error e => simp [hd] at h
    | ok d =>
      simp only [hd] at h
      have hdP := ih.dnf _ U d hung hd
      split at h
      · rename_i us
        cases hc : cnf n ((false, ms) :: stk) (M.union us) with
        | error e =>
          simp only [hc] at h
          cases e <;> simp only at h <;> first
            | exact min_pick (cs := [_, _]) (P := fun r => M.Good G r) h
                (by intro c hc'; simp only [List.mem_cons, List.not_mem_nil, or_false] at hc'
                    rcases hc' with rfl | rfl <;> assumption)
            | cases h
        | ok c =>
          simp only [hc] at h
          have hcP := ih.cnf _ _ c hdP hc
          split at h
          · exact min_pick (cs := [_, _, _]) (P := fun r => M.Good G r) h
              (by intro c' hc'; simp only [List.mem_cons, List.not_mem_nil, or_false] at hc'
                  rcases hc' with rfl | rfl | rfl <;> assumption)
          · cases h; exact hcP
      · cases h; exact hdP

theorem unionF_gstep {n : Nat} (ih : GAt G n) :
    ∀ stk ms r, GL G ms → unionF (n + 1) stk ms = .ok r → M.Good G r := by
  intro stk ms r hm h
  rw [unionF.eq_def] at h
  simp only at h
  by_cases hs : Stack.has stk true ms = true
  · simp [hs] at h
  · simp only [hs, if_false, Bool.false_eq_true] at h
    have hung : M.Good G (unwrapSingleton (ms.length + 2) (mkUnion (ms.filter (fun m => !m.isEmpty)))) :=
      good_unwrap _ (good_mkUnion (hm.filter _))
    generalize unwrapSingleton (ms.length + 2) (mkUnion (ms.filter (fun m => !m.isEmpty))) = U at h hung
    cases hd : cnf n ((true, ms) :: stk) U with
    | error e => simp [hd] at h
    | ok d =>
      simp only [hd] at h
      have hdP := ih.cnf _ U d hung hd
      split at h
      · rename_i us
        cases hc : dnf n ((true, ms) :: stk) (M.multi us) with
        | error e =>
          simp only [hc] at h
          cases e <;> simp only at h <;> first
            | exact min_pick (cs := [_, _]) (P := fun r => M.Good G r) h
                (by intro c hc'; simp only [List.mem_cons, List.not_mem_nil, or_false] at hc'
                    rcases hc' with rfl | rfl <;> assumption)
            | cases h
        | ok c =>
          simp only [hc] at h
          have hcP := ih.dnf _ _ c hdP hc
          split at h
          · exact min_pick (cs := [_, _, _]) (P := fun r => M.Good G r) h
              (by intro c' hc'; simp only [List.mem_cons, List.not_mem_nil, or_false] at hc'
                  rcases hc' with rfl | rfl | rfl <;> assumption)
          · cases h; exact hcP
      · cases h; exact hdP

theorem mIntersect_gstep (MC : MergeClosed G) {n : Nat} (ih : GAt G n) :
    ∀ stk a b r, M.Good G a → M.Good G b → mIntersect (n + 1) stk a b = .ok r → M.Good G r := by
  intro stk a b r ha hb h
  rw [mIntersect.eq_def] at h
  simp only at h
  cases a with
  | any => simp at h; subst h; exact hb
  | empty => simp at h; subst h; simp
  | leaf la =>
    simp only at h
    cases b with
    | leaf lb =>
      simp only at h
      obtain ⟨o, h1, h2⟩ := bind_ok.1 h
      cases o with
      | some x => simp only [pure_ok] at h2; subst h2; exact MC la lb true _ (by simpa using ha) (by simpa using hb) h1
      | none =>
        simp only [pure_ok] at h2; subst h2
        exact good_mkMulti (GL.cons ha (GL.cons hb GL.nil))
    | any => exact ih.inter stk _ _ r hb ha h
    | empty => exact ih.inter stk _ _ r hb ha h
    | multi ms => exact ih.inter stk _ _ r hb ha h
    | union ms => exact ih.inter stk _ _ r hb ha h
  | multi ms => exact ih.interF stk _ r (GL.cons ha (GL.cons hb GL.nil)) h
  | union ms => exact ih.interF stk _ r (GL.cons ha (GL.cons hb GL.nil)) h

theorem mUnion_gstep (MC : MergeClosed G) {n : Nat} (ih : GAt G n) :
    ∀ stk a b r, M.Good G a → M.Good G b → mUnion (n + 1) stk a b = .ok r → M.Good G r := by
  intro stk a b r ha hb h
  rw [mUnion.eq_def] at h
  simp only at h
  cases a with
  | any => simp at h; subst h; simp
  | empty => simp at h; subst h; exact hb
  | leaf la =>
    simp only at h
    cases b with
    | leaf lb =>
      simp only at h
      obtain ⟨o, h1, h2⟩ := bind_ok.1 h
      cases o with
      | some x => simp only [pure_ok] at h2; subst h2; exact MC la lb false _ (by simpa using ha) (by simpa using hb) h1
      | none =>
        simp only [pure_ok] at h2; subst h2
        exact good_mkUnion (GL.cons ha (GL.cons hb GL.nil))
    | any => exact ih.uni stk _ _ r hb ha h
    | empty => exact ih.uni stk _ _ r hb ha h
    | multi ms => exact ih.uni stk _ _ r hb ha h
    | union ms => exact ih.uni stk _ _ r hb ha h
  | multi ms => exact ih.uniF stk _ r (GL.cons ha (GL.cons hb GL.nil)) h
  | union ms => exact ih.uniF stk _ r (GL.cons ha (GL.cons hb GL.nil)) h

/-! ### `MultiMarker.of` / `MarkerUnion.of` -/

theorem multiTry_gstep {n : Nat} (ih : GAt G n) :
    ∀ stk marker all i rem l, M.Good G marker → GL G all → GL G rem →
    multiTry (n + 1) stk marker all i rem = .ok (.inr (some l)) → GL G l := by
  intro stk marker all i rem l hmk hall hrem h
  rw [multiTry.eq_def] at h
  simp only at h
  cases rem with
  | nil => simp at h
  | cons mark more =>
    simp only at h
    have hmark : M.Good G mark := hrem.head
    have hmore : GL G more := hrem.tail
    have recur : multiTry n stk marker all (i + 1) more = .ok (.inr (some l)) → GL G l :=
      fun h' => ih.mTry stk marker all (i + 1) more l hmk hall hmore h'
    have leafTail : ∀ lf, mark = .leaf lf →
        (do
          let nm ← mIntersect n stk mark marker
          if nm.isEmpty = true then pure (Sum.inl ())
          else
            match nm with
            | M.leaf l => pure (Sum.inr (some (setAt all i nm)))
            | x => multiTry n stk marker all (i + 1) more) = Except.ok (Sum.inr (some l)) → GL G l := by
      intro lf hl h
      obtain ⟨nm, h1, h2⟩ := bind_ok.1 h
      have hs := ih.inter stk mark marker nm hmark hmk h1
      by_cases he : nm.isEmpty = true
      · simp only [he, if_true] at h2
        rw [pure_ok] at h2; cases h2
      · simp only [he] at h2
        cases nm with
        | leaf l' =>
          simp only [if_false, Bool.false_eq_true] at h2
          rw [pure_ok] at h2
          cases h2
          exact hall.setAt hs i
        | _ => exact recur (by simpa using h2)
    split at h
    · rename_i x0 us
      obtain ⟨r0, h1, h2⟩ := bind_ok.1 h
      cases r0 with
      | some x =>
        have hs := ih.iSimp stk us marker x (GL.of_union hmark) hmk h1
        simp [pure, Except.pure, bind, Except.bind] at h2; subst h2
        exact hall.setAt hs i
      | none =>
        simp [pure, Except.pure, bind, Except.bind] at h2
        exact recur h2
    · rename_i us _
      obtain ⟨r0, h1, h2⟩ := bind_ok.1 h
      cases r0 with
      | some x =>
        have hs := ih.iSimp stk us mark x (GL.of_union hmk) hmark h1
        simp [pure, Except.pure, bind, Except.bind] at h2; subst h2
        exact hall.setAt hs i
      | none =>
        simp [pure, Except.pure, bind, Except.bind] at h2
        exact recur h2
    · rw [pure_bind] at h
      simp only at h
      cases mark with
      | leaf lf => exact leafTail lf rfl h
      | _ => exact recur (by simpa using h)

theorem unionTry_gstep {n : Nat} (ih : GAt G n) :
    ∀ stk marker all i rem l, M.Good G marker → GL G all → GL G rem →
    unionTry (n + 1) stk marker all i rem = .ok (.inr (some l)) → GL G l := by
  intro stk marker all i rem l hmk hall hrem h
  rw [unionTry.eq_def] at h
  simp only at h
  cases rem with
  | nil => simp at h
  | cons mark more =>
    simp only at h
    have hmark : M.Good G mark := hrem.head
    have hmore : GL G more := hrem.tail
    have recur : unionTry n stk marker all (i + 1) more = .ok (.inr (some l)) → GL G l :=
      fun h' => ih.uTry stk marker all (i + 1) more l hmk hall hmore h'
    have leafTail : ∀ lf, mark = .leaf lf →
        (do
          let nm ← mUnion n stk mark marker
          if nm.isAny = true then pure (Sum.inl ())
          else
            match nm with
            | M.leaf l => pure (Sum.inr (some (setAt all i nm)))
            | x => unionTry n stk marker all (i + 1) more) = Except.ok (Sum.inr (some l)) → GL G l := by
      intro lf hl h
      obtain ⟨nm, h1, h2⟩ := bind_ok.1 h
      have hs := ih.uni stk mark marker nm hmark hmk h1
      by_cases he : nm.isAny = true
      · simp only [he, if_true] at h2
        rw [pure_ok] at h2; cases h2
      · simp only [he] at h2
        cases nm with
        | leaf l' =>
          simp only [if_false, Bool.false_eq_true] at h2
          rw [pure_ok] at h2
          cases h2
          exact hall.setAt hs i
        | _ => exact recur (by simpa using h2)
    split at h
    · rename_i x0 us
      obtain ⟨r0, h1, h2⟩ := bind_ok.1 h
      cases r0 with
      | some x =>
        have hs := ih.uSimp stk us marker x (GL.of_multi hmark) hmk h1
        simp [pure, Except.pure, bind, Except.bind] at h2; subst h2
        exact hall.setAt hs i
      | none =>
        simp [pure, Except.pure, bind, Except.bind] at h2
        exact recur h2
    · rename_i us _
      obtain ⟨r0, h1, h2⟩ := bind_ok.1 h
      cases r0 with
      | some x =>
        have hs := ih.uSimp stk us mark x (GL.of_multi hmk) hmark h1
        simp [pure, Except.pure, bind, Except.bind] at h2; subst h2
        exact hall.setAt hs i
      | none =>
        simp [pure, Except.pure, bind, Except.bind] at h2
        exact recur h2
    · rw [pure_bind] at h
      simp only at h
      cases mark with
      | leaf lf => exact leafTail lf rfl h
      | _ => exact recur (by simpa using h)

theorem multiPass_gstep {n : Nat} (ih : GAt G n) :
    ∀ stk todo new l, GL G todo → GL G new → multiPass (n + 1) stk todo new = .ok (some l) → GL G l := by
  intro stk todo new l ht hn h
  rw [multiPass.eq_def] at h
  simp only at h
  cases todo with
  | nil => simp at h; subst h; exact hn
  | cons marker rest =>
    simp only at h
    have hmk := ht.head
    have hrest := ht.tail
    by_cases hmem : M.mem marker new = true
    · simp only [hmem, if_true] at h
      exact ih.mPass stk rest new l hrest hn h
    · simp only [hmem, if_false, Bool.false_eq_true] at h
      by_cases hany : marker.isAny = true
      · simp only [hany, if_true] at h
        exact ih.mPass stk rest new l hrest hn h
      · simp only [hany, if_false, Bool.false_eq_true] at h
        obtain ⟨t, h1, h2⟩ := bind_ok.1 h
        match t, h1, h2 with
        | .inl (), h1, h2 => simp only [pure_ok] at h2; cases h2
        | .inr (some new'), h1, h2 =>
          simp only at h2
          have hn' := ih.mTry stk marker new 0 new new' hmk hn hn h1
          exact ih.mPass stk rest _ l hrest (good_flatten true hn') h2
        | .inr none, h1, h2 =>
          simp only at h2
          exact ih.mPass stk rest _ l hrest (hn.append (GL.cons hmk GL.nil)) h2

theorem unionPass_gstep {n : Nat} (ih : GAt G n) :
    ∀ stk todo new l, GL G todo → GL G new → unionPass (n + 1) stk todo new = .ok (some l) → GL G l := by
  intro stk todo new l ht hn h
  rw [unionPass.eq_def] at h
  simp only at h
  cases todo with
  | nil => simp at h; subst h; exact hn
  | cons marker rest =>
    simp only at h
    have hmk := ht.head
    have hrest := ht.tail
    by_cases hmem : M.mem marker new = true
    · simp only [hmem, if_true] at h
      exact ih.uPass stk rest new l hrest hn h
    · simp only [hmem, if_false, Bool.false_eq_true] at h
      by_cases hany : marker.isEmpty = true
      · simp only [hany, if_true] at h
        exact ih.uPass stk rest new l hrest hn h
      · simp only [hany, if_false, Bool.false_eq_true] at h
        obtain ⟨t, h1, h2⟩ := bind_ok.1 h
        match t, h1, h2 with
        | .inl (), h1, h2 => simp only [pure_ok] at h2; cases h2
        | .inr (some new'), h1, h2 =>
          simp only at h2
          have hn' := ih.uTry stk marker new 0 new new' hmk hn hn h1
          exact ih.uPass stk rest _ l hrest (good_flatten false hn') h2
        | .inr none, h1, h2 =>
          simp only at h2
          exact ih.uPass stk rest _ l hrest (hn.append (GL.cons hmk GL.nil)) h2

theorem multiOfLoop_gstep {n : Nat} (ih : GAt G n) :
    ∀ stk old new r, GL G new → multiOfLoop (n + 1) stk old new = .ok r → M.Good G r := by
  intro stk old new r hn h
  rw [multiOfLoop.eq_def] at h
  simp only at h
  by_cases hb : M.beqList old new = true
  · simp only [hb, if_true] at h
    by_cases he : new.any M.isEmpty = true
    · simp only [he, if_true] at h; cases h; simp
    · simp only [he, if_false, Bool.false_eq_true] at h
      match new, hn, h with
      | [], _, h => cases h; simp
      | [x], hn, h => cases h; exact hn.head
      | a :: b :: l, hn, h => simp only at h; cases h; exact good_mkMulti hn
  · simp only [hb, if_false, Bool.false_eq_true] at h
    obtain ⟨p, h1, h2⟩ := bind_ok.1 h
    cases p with
    | none => simp only [pure_ok] at h2; subst h2; simp
    | some new' =>
      simp only at h2
      exact ih.mLoop stk new new' r (ih.mPass stk new [] new' hn GL.nil h1) h2

theorem unionOfLoop_gstep {n : Nat} (ih : GAt G n) :
    ∀ stk old new r, GL G new → unionOfLoop (n + 1) stk old new = .ok r → M.Good G r := by
  intro stk old new r hn h
  rw [unionOfLoop.eq_def] at h
  simp only at h
  by_cases hb : M.beqList old new = true
  · simp only [hb, if_true] at h
    by_cases he : new.any M.isAny = true
    · simp only [he, if_true] at h; cases h; simp
    · simp only [he, if_false, Bool.false_eq_true] at h
      match new, hn, h with
      | [], _, h => cases h; simp
      | [x], hn, h => cases h; exact hn.head
      | a :: b :: l, hn, h => simp only at h; cases h; exact good_mkUnion hn
  · simp only [hb, if_false, Bool.false_eq_true] at h
    obtain ⟨p, h1, h2⟩ := bind_ok.1 h
    cases p with
    | none => simp only [pure_ok] at h2; subst h2; simp
    | some new' =>
      simp only at h2
      exact ih.uLoop stk new new' r (ih.uPass stk new [] new' hn GL.nil h1) h2

theorem multiOf_gstep {n : Nat} (ih : GAt G n) :
    ∀ stk ms r, GL G ms → multiOf (n + 1) stk ms = .ok r → M.Good G r := by
  intro stk ms r hm h
  rw [multiOf.eq_def] at h
  simp only at h
  exact ih.mLoop stk [] _ r (good_flatten true hm) h

theorem unionOf_gstep {n : Nat} (ih : GAt G n) :
    ∀ stk ms r, GL G ms → unionOf (n + 1) stk ms = .ok r → M.Good G r := by
  intro stk ms r hm h
  rw [unionOf.eq_def] at h
  simp only at h
  exact ih.uLoop stk [] _ r (good_flatten false hm) h

/-! ### `intersect_simplify` / `union_simplify` -/

theorem intersectSimplify_gstep {n : Nat} (ih : GAt G n) :
    ∀ stk ours other r, GL G ours → M.Good G other → intersectSimplify (n + 1) stk ours other = .ok (some r) →
    M.Good G r := by
  intro stk ours other r ho hot h
  rw [intersectSimplify.eq_def] at h
  simp only at h
  by_cases hmem : M.mem other ours = true
  · simp only [hmem, if_true] at h; cases h; exact hot
  · simp only [hmem, if_false, Bool.false_eq_true] at h
    cases other with
    | union theirs =>
      simp only at h
      have hth : GL G theirs := GL.of_union hot
      by_cases c1 : isSubset ours theirs = true
      · simp only [c1, if_true] at h; cases h; exact good_union_of ho
      · simp only [c1, if_false, Bool.false_eq_true] at h
        by_cases c2 : isSubset theirs ours = true
        · simp only [c2, if_true] at h; cases h; exact hot
        · simp only [c2, if_false, Bool.false_eq_true] at h
          by_cases c3 : (!(ours.any (fun m => M.mem m theirs))) = true
          · simp only [c3, if_true] at h; cases h
          · simp only [c3, if_false, Bool.false_eq_true] at h
            obtain ⟨ui, h1, h2⟩ := bind_ok.1 h
            have hui := ih.inter stk _ _ ui (good_mkUnion (ho.filter _)) (good_mkUnion (hth.filter _)) h1
            have fin : ∀ r', mUnion n stk ui (mkUnion (ours.filter (fun m => M.mem m theirs))) = .ok r' →
                M.Good G r' := fun r' hr => ih.uni stk _ _ r' hui (good_mkUnion (ho.filter _)) hr
            cases ui with
            | leaf l =>
              simp only at h2
              obtain ⟨r', h3, h4⟩ := bind_ok.1 h2
              rw [pure_ok] at h4; cases h4; exact fin _ h3
            | empty =>
              simp only at h2
              obtain ⟨r', h3, h4⟩ := bind_ok.1 h2
              rw [pure_ok] at h4; cases h4; exact fin _ h3
            | any => simp [pure, Except.pure] at h2
            | multi ms => simp [pure, Except.pure] at h2
            | union ms => simp [pure, Except.pure] at h2
    | any => simp at h
    | empty => simp at h
    | leaf l => simp at h
    | multi ms => simp at h

theorem unionSimplify_gstep {n : Nat} (ih : GAt G n) :
    ∀ stk ours other r, GL G ours → M.Good G other → unionSimplify (n + 1) stk ours other = .ok (some r) →
    M.Good G r := by
  intro stk ours other r ho hot h
  rw [unionSimplify.eq_def] at h
  simp only at h
  by_cases hmem : M.mem other ours = true
  · simp only [hmem, if_true] at h; cases h; exact hot
  · simp only [hmem, if_false, Bool.false_eq_true] at h
    cases other with
    | multi theirs =>
      simp only at h
      have hth : GL G theirs := GL.of_multi hot
      by_cases c1 : isSubset ours theirs = true
      · simp only [c1, if_true] at h; cases h; exact good_multi_of ho
      · simp only [c1, if_false, Bool.false_eq_true] at h
        by_cases c2 : isSubset theirs ours = true
        · simp only [c2, if_true] at h; cases h; exact hot
        · simp only [c2, if_false, Bool.false_eq_true] at h
          by_cases c3 : (!(ours.any (fun m => M.mem m theirs))) = true
          · simp only [c3, if_true] at h; cases h
          · simp only [c3, if_false, Bool.false_eq_true] at h
            obtain ⟨uu, h1, h2⟩ := bind_ok.1 h
            have huu := ih.uni stk _ _ uu (good_mkMulti (ho.filter _)) (good_mkMulti (hth.filter _)) h1
            have fin : ∀ r', mIntersect n stk uu (mkMulti (ours.filter (fun m => M.mem m theirs))) = .ok r' →
                M.Good G r' := fun r' hr => ih.inter stk _ _ r' huu (good_mkMulti (ho.filter _)) hr
            cases uu with
            | leaf l =>
              simp only at h2
              obtain ⟨r', h3, h4⟩ := bind_ok.1 h2
              rw [pure_ok] at h4; cases h4; exact fin _ h3
            | any =>
              simp only at h2
              obtain ⟨r', h3, h4⟩ := bind_ok.1 h2
              rw [pure_ok] at h4; cases h4; exact fin _ h3
            | empty => simp [pure, Except.pure] at h2
            | multi ms => simp [pure, Except.pure] at h2
            | union ms => simp [pure, Except.pure] at h2
    | any => simp at h
    | empty => simp at h
    | leaf l => simp at h
    | union ms => simp at h

/-! ### the induction -/

theorem gAt_zero : GAt G 0 where
  inter := by intro _ _ _ _ _ _ h; rw [mIntersect.eq_def] at h; cases h
  uni := by intro _ _ _ _ _ _ h; rw [mUnion.eq_def] at h; cases h
  interF := by intro _ _ _ _ h; rw [intersectionF.eq_def] at h; cases h
  uniF := by intro _ _ _ _ h; rw [unionF.eq_def] at h; cases h
  cnf := by intro _ _ _ _ h; rw [cnf.eq_def] at h; cases h
  dnf := by intro _ _ _ _ h; rw [dnf.eq_def] at h; cases h
  mOf := by intro _ _ _ _ h; rw [multiOf.eq_def] at h; cases h
  mLoop := by intro _ _ _ _ _ h; rw [multiOfLoop.eq_def] at h; cases h
  mPass := by intro _ _ _ _ _ _ h; rw [multiPass.eq_def] at h; cases h
  mTry := by intro _ _ _ _ _ _ _ _ _ h; rw [multiTry.eq_def] at h; cases h
  uOf := by intro _ _ _ _ h; rw [unionOf.eq_def] at h; cases h
  uLoop := by intro _ _ _ _ _ h; rw [unionOfLoop.eq_def] at h; cases h
  uPass := by intro _ _ _ _ _ _ h; rw [unionPass.eq_def] at h; cases h
  uTry := by intro _ _ _ _ _ _ _ _ _ h; rw [unionTry.eq_def] at h; cases h
  iSimp := by intro _ _ _ _ _ _ h; rw [intersectSimplify.eq_def] at h; cases h
  uSimp := by intro _ _ _ _ _ _ h; rw [unionSimplify.eq_def] at h; cases h

theorem gAt (MC : MergeClosed G) : ∀ n, GAt G n
  | 0 => gAt_zero
  | n + 1 =>
    have ih := gAt MC n
    { inter := mIntersect_gstep MC ih
      uni := mUnion_gstep MC ih
      interF := intersectionF_gstep ih
      uniF := unionF_gstep ih
      cnf := cnf_gstep ih
      dnf := dnf_gstep ih
      mOf := multiOf_gstep ih
      mLoop := multiOfLoop_gstep ih
      mPass := multiPass_gstep ih
      mTry := multiTry_gstep ih
      uOf := unionOf_gstep ih
      uLoop := unionOfLoop_gstep ih
      uPass := unionPass_gstep ih
      uTry := unionTry_gstep ih
      iSimp := intersectSimplify_gstep ih
      uSimp := unionSimplify_gstep ih }

end Poetry.Marker
