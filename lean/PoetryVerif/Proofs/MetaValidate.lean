/-
C14: closing the loop "validation ⇒ guard".

`Factory._validate_single_line_fields` (model: `validateSingleLineCore`) returning no error implies the guard
`NoLineBreakInSingleLineFields` of the rendered `Metadata`, given the facts about the strings that the
validator does not look at (`Trusted`).  Hence (`validated_render_parse`) a validated project's METADATA
parses back to exactly the declared headers.

Core Lean only.
-/
import PoetryVerif.Proofs.Meta
import PoetryVerif.Proofs.MetaClassifiers

namespace Poetry.Meta
open Poetry Poetry.Spec Poetry.Spec.Rfc822

/-! ## `SingleLine` algebra -/

theorem hasLineBreak_false_iff (s : String) : hasLineBreak s = false ↔ SingleLine s := by
  unfold hasLineBreak SingleLine NoNL
  rw [List.any_eq_false]
  have e : ∀ c : Char, Gen.singleLineBreakChars.contains c = isNL c := by
    intro c
    simp [Gen.singleLineBreakChars, isNL]
  constructor
  · intro h c hc; have := h c hc; rw [e] at this; simpa using this
  · intro h c hc; rw [e, h c hc]; simp

theorem singleLine_append {a b : String} : SingleLine (a ++ b) ↔ SingleLine a ∧ SingleLine b := by
  unfold SingleLine NoNL
  rw [String.toList_append]
  simp only [List.mem_append]
  constructor
  · intro h; exact ⟨fun c hc => h c (.inl hc), fun c hc => h c (.inr hc)⟩
  · rintro ⟨h1, h2⟩ c (hc | hc)
    · exact h1 c hc
    · exact h2 c hc

theorem singleLine_ofList {l : List Char} : SingleLine (String.ofList l) ↔ NoNL l := by
  unfold SingleLine; rw [String.toList_ofList]

theorem noNL_of_subset {a b : List Char} (h : ∀ c ∈ a, c ∈ b) (hb : NoNL b) : NoNL a :=
  fun c hc => hb c (h c hc)

instance (s : String) : Decidable (SingleLine s) := by unfold SingleLine; exact inferInstance

theorem singleLine_empty : SingleLine "" := by decide

theorem joinWith_singleLine (sep : String) (hs : SingleLine sep) :
    ∀ (xs : List String), (∀ x ∈ xs, SingleLine x) → SingleLine (joinWith sep xs)
  | [], _ => by simp only [joinWith]; exact singleLine_empty
  | [x], h => by simp only [joinWith]; exact h x (by simp)
  | x :: y :: xs, h => by
    simp only [joinWith]
    rw [singleLine_append, singleLine_append]
    exact ⟨⟨h x (by simp), hs⟩, joinWith_singleLine sep hs (y :: xs) (fun z hz => h z (by simp [hz]))⟩

/-! ## What `validateSingleLineCore = []` says about the two tables -/

theorem singleLineErrors_nil {loc : String} {fields : List (String × String)}
    (h : singleLineErrors loc fields = []) : ∀ fv ∈ fields, SingleLine fv.2 := by
  intro fv hfv
  simp only [singleLineErrors, List.map_eq_nil_iff, List.filter_eq_nil_iff] at h
  have := h fv hfv
  rw [← hasLineBreak_false_iff]
  simpa using this

theorem validated_fields {proj : ProjectT} {tool : ToolT} (hv : validateSingleLineCore proj tool = []) :
    (∀ fv ∈ proj.validatorFields, SingleLine fv.2) ∧ (∀ fv ∈ tool.validatorFields, SingleLine fv.2) := by
  simp only [validateSingleLineCore, Gen.singleLineLocations, List.flatMap_cons, List.flatMap_nil,
    List.append_nil, List.append_eq_nil_iff] at hv
  obtain ⟨h1, h2⟩ := hv
  simp only [if_true] at h1 h2
  exact ⟨singleLineErrors_nil h1, singleLineErrors_nil h2⟩

theorem itemFields_str (k : String) : ∀ (xs : List VItem) (i : Nat) (s : String), VItem.str s ∈ xs →
    ∃ f, (f, s) ∈ itemFields k i xs
  | [], _, _, h => by simp at h
  | .str t :: rest, i, s, h => by
    simp only [itemFields]
    rcases List.mem_cons.1 h with h | h
    · cases h; exact ⟨_, List.mem_cons_self⟩
    · obtain ⟨f, hf⟩ := itemFields_str k rest (i + 1) s h
      exact ⟨f, List.mem_cons_of_mem _ hf⟩
  | .dict kvs :: rest, i, s, h => by
    simp only [itemFields]
    rcases List.mem_cons.1 h with h | h
    · cases h
    · obtain ⟨f, hf⟩ := itemFields_str k rest (i + 1) s h
      exact ⟨f, List.mem_append_right _ hf⟩

theorem itemFields_dict (k : String) : ∀ (xs : List VItem) (i : Nat) (kvs : List (String × String)),
    VItem.dict kvs ∈ xs → ∀ kv ∈ kvs, ∃ f, (f, kv.2) ∈ itemFields k i xs
  | [], _, _, h => by simp at h
  | .str t :: rest, i, kvs, h => by
    intro kv hkv
    simp only [itemFields]
    rcases List.mem_cons.1 h with h | h
    · cases h
    · obtain ⟨f, hf⟩ := itemFields_dict k rest (i + 1) kvs h kv hkv
      exact ⟨f, List.mem_cons_of_mem _ hf⟩
  | .dict kvs' :: rest, i, kvs, h => by
    intro kv hkv
    simp only [itemFields]
    rcases List.mem_cons.1 h with h | h
    · cases h
      exact ⟨_, List.mem_append_left _ (List.mem_map.2 ⟨kv, hkv, rfl⟩)⟩
    · obtain ⟨f, hf⟩ := itemFields_dict k rest (i + 1) kvs h kv hkv
      exact ⟨f, List.mem_append_right _ hf⟩

/-- the pieces of `validatorFields` -/
theorem validatorFields_parts {scalar : String → Option (Option String)} {items : String → Option (List VItem)}
    {urls : List (String × String)} {ct : Option String}
    (h : ∀ fv ∈ validatorFields scalar items urls ct, SingleLine fv.2) :
    (∀ k ∈ Gen.singleLineScalarKeys, ∀ v, scalar k = some (some v) → SingleLine v) ∧
    (∀ k ∈ Gen.singleLineListKeys, ∀ xs, items k = some xs → ∀ fv ∈ itemFields k 0 xs, SingleLine fv.2) ∧
    (∀ kv ∈ urls, SingleLine kv.1 ∧ SingleLine kv.2) ∧
    (∀ c, ct = some c → SingleLine c) := by
  unfold validatorFields at h
  refine ⟨?_, ?_, ?_, ?_⟩
  · intro k hk v hkv
    refine h (k, v) ?_
    apply List.mem_append_left; apply List.mem_append_left; apply List.mem_append_left
    exact List.mem_flatMap.2 ⟨k, hk, by simp [hkv]⟩
  · intro k hk xs hkx fv hfv
    refine h fv ?_
    apply List.mem_append_left; apply List.mem_append_left; apply List.mem_append_right
    exact List.mem_flatMap.2 ⟨k, hk, by simpa [hkx] using hfv⟩
  · intro kv hkv
    have h1 : ∀ fv ∈ urlFields urls, SingleLine fv.2 := fun fv hfv =>
      h fv (List.mem_append_left _ (List.mem_append_right _ hfv))
    constructor
    · exact h1 ("urls", kv.1) (List.mem_flatMap.2 ⟨kv, hkv, by simp⟩)
    · exact h1 ("urls." ++ kv.1, kv.2) (List.mem_flatMap.2 ⟨kv, hkv, by simp⟩)
  · intro c hc
    refine h ("readme.content-type", c) ?_
    apply List.mem_append_right
    simp [hc]

/-- what the validator established for `[project]` -/
structure ProjOk (p : ProjectT) : Prop where
  name : ∀ n, p.name = some n → SingleLine n
  description : ∀ d, p.description = some d → SingleLine d
  keywords : ∀ k ∈ p.keywords, SingleLine k
  classifiers : ∀ c ∈ p.classifiers, SingleLine c
  authors : ∀ a ∈ p.authors, (∀ n, a.name = some n → SingleLine n) ∧ (∀ e, a.email = some e → SingleLine e)
  maintainers : ∀ a ∈ p.maintainers, (∀ n, a.name = some n → SingleLine n) ∧ (∀ e, a.email = some e → SingleLine e)
  urls : ∀ kv ∈ p.urls, SingleLine kv.1 ∧ SingleLine kv.2
  readmeFile : ∀ f ct, p.readme = some (.file f ct) → SingleLine ct
  readmeText : ∀ t ct, p.readme = some (.text t ct) → SingleLine ct

/-- what the validator established for `[tool.poetry]` -/
structure ToolOk (t : ToolT) : Prop where
  name : ∀ n, t.name = some n → SingleLine n
  description : ∀ d, t.description = some d → SingleLine d
  keywords : ∀ k ∈ t.keywords, SingleLine k
  classifiers : ∀ c ∈ t.classifiers, SingleLine c
  authors : ∀ a ∈ t.authors, SingleLine a
  maintainers : ∀ a ∈ t.maintainers, SingleLine a
  urls : ∀ us, t.urls = some us → ∀ kv ∈ us, SingleLine kv.1 ∧ SingleLine kv.2

theorem strItems_ok {k : String} {xs : List String}
    (h : ∀ fv ∈ itemFields k 0 (xs.map VItem.str), SingleLine fv.2) : ∀ x ∈ xs, SingleLine x := by
  intro x hx
  obtain ⟨f, hf⟩ := itemFields_str k (xs.map VItem.str) 0 x (List.mem_map.2 ⟨x, hx, rfl⟩)
  exact h _ hf

theorem personItems_ok {k : String} {xs : List Person}
    (h : ∀ fv ∈ itemFields k 0 (xs.map Person.items), SingleLine fv.2) :
    ∀ a ∈ xs, (∀ n, a.name = some n → SingleLine n) ∧ (∀ e, a.email = some e → SingleLine e) := by
  intro a ha
  have hd := itemFields_dict k (xs.map Person.items) 0 _ (List.mem_map.2 ⟨a, ha, rfl⟩)
  constructor
  · intro n hn
    obtain ⟨f, hf⟩ := hd ("name", n) (by simp [hn])
    exact h _ hf
  · intro e he
    obtain ⟨f, hf⟩ := hd ("email", e) (by simp [he])
    exact h _ hf

theorem projOk_of_validated {p : ProjectT} (h : ∀ fv ∈ p.validatorFields, SingleLine fv.2) : ProjOk p := by
  obtain ⟨hs, hl, hu, hc⟩ := validatorFields_parts h
  exact {
    name := fun n hn => hs "name" (by decide) n (by simp [ProjectT.scalar, hn])
    description := fun d hd => hs "description" (by decide) d (by simp [ProjectT.scalar, hd])
    keywords := strItems_ok (hl "keywords" (by decide) _ (by simp [ProjectT.listItems]))
    classifiers := strItems_ok (hl "classifiers" (by decide) _ (by simp [ProjectT.listItems]))
    authors := personItems_ok (hl "authors" (by decide) _ (by simp [ProjectT.listItems]))
    maintainers := personItems_ok (hl "maintainers" (by decide) _ (by simp [ProjectT.listItems]))
    urls := hu
    readmeFile := fun f ct hr => hc ct (by simp [hr])
    readmeText := fun t ct hr => hc ct (by simp [hr]) }

theorem toolOk_of_validated {t : ToolT} (h : ∀ fv ∈ t.validatorFields, SingleLine fv.2) : ToolOk t := by
  obtain ⟨hs, hl, hu, _⟩ := validatorFields_parts h
  exact {
    name := fun n hn => hs "name" (by decide) n (by simp [ToolT.scalar, hn])
    description := fun d hd => hs "description" (by decide) d (by simp [ToolT.scalar, hd])
    keywords := strItems_ok (hl "keywords" (by decide) _ (by simp [ToolT.listItems]))
    classifiers := strItems_ok (hl "classifiers" (by decide) _ (by simp [ToolT.listItems]))
    authors := strItems_ok (hl "authors" (by decide) _ (by simp [ToolT.listItems]))
    maintainers := strItems_ok (hl "maintainers" (by decide) _ (by simp [ToolT.listItems]))
    urls := fun us hus kv hkv => hu kv (by simp [hus, hkv]) }

/-! ## Authors -/

theorem mem_of_mem_dropLast' {α} (l : List α) (a : α) (h : a ∈ l.dropLast) : a ∈ l :=
  (List.dropLast_sublist l).subset h

theorem authorMatch_subset {s n : List Char} {e : Option (List Char)} (h : authorMatch s = some (n, e)) :
    (∀ c ∈ n, c ∈ s) ∧ (∀ e', e = some e' → ∀ c ∈ e', c ∈ s) := by
  unfold authorMatch at h
  simp only at h
  split at h
  · cases h
  · split at h
    · cases h; exact ⟨fun c hc => hc, fun e' he => by cases he⟩
    · rename_i rest hr
      split at h
      · split at h
        · rename_i e1 he1
          split at h
          · cases h
          · cases h
            refine ⟨fun c hc => (List.takeWhile_sublist _).subset (mem_of_mem_dropLast' _ _ hc), ?_⟩
            intro e' he' c hc
            cases he'
            have hrest : ∀ c ∈ rest, c ∈ s := fun c hc =>
              (List.dropWhile_sublist notAngle).subset (by rw [hr]; exact List.mem_cons_of_mem _ hc)
            split at he1
            · rename_i e2 h2
              cases he1
              apply hrest
              rw [← List.mem_reverse, h2]
              exact List.mem_cons_of_mem _ (List.mem_reverse.1 hc)
            · rename_i e2 h2
              cases he1
              apply hrest
              rw [← List.mem_reverse, h2]
              exact List.mem_cons_of_mem _ (List.mem_cons_of_mem _ (List.mem_reverse.1 hc))
            · cases he1
        · cases h
      · cases h
    · cases h

theorem firstPerson_singleLine {xs : List String} {n e : Option String} (h : firstPerson xs = .ok (n, e))
    (hx : ∀ x, xs.head? = some x → SingleLine x) :
    (∀ s, n = some s → SingleLine s) ∧ (∀ s, e = some s → SingleLine s) := by
  cases xs with
  | nil => simp only [firstPerson] at h; cases h; exact ⟨fun s hs => (by cases hs), fun s hs => (by cases hs)⟩
  | cons x rest =>
    have hxs : NoNL x.toList := hx x rfl
    simp only [firstPerson] at h
    cases hm : authorMatch x.toList with
    | none => rw [hm] at h; cases h
    | some ne =>
      obtain ⟨n', e'⟩ := ne
      rw [hm] at h
      cases h
      obtain ⟨h1, h2⟩ := authorMatch_subset hm
      constructor
      · intro s hs; cases hs
        exact singleLine_ofList.2 (noNL_of_subset h1 hxs)
      · intro s hs
        cases e' with
        | none => cases hs
        | some e'' =>
          cases hs
          exact singleLine_ofList.2 (noNL_of_subset (h2 e'' rfl) hxs)

theorem personText_singleLine (p : Person) (hn : ∀ n, p.name = some n → SingleLine n)
    (he : ∀ e, p.email = some e → SingleLine e) : SingleLine p.text := by
  unfold Person.text
  cases h1 : truthy p.name with
  | none =>
    simp only
    cases h2 : p.email with
    | none => exact singleLine_empty
    | some e => exact he e h2
  | some n =>
    have hn' := hn n (truthy_some _ _ h1)
    cases h2 : truthy p.email with
    | none => exact hn'
    | some e =>
      have he' := he e (truthy_some _ _ h2)
      simp only
      rw [singleLine_append, singleLine_append, singleLine_append]
      exact ⟨⟨⟨hn', by decide⟩, he'⟩, by decide⟩

theorem mem_of_lookup {k v : String} : ∀ (l : List (String × String)), l.lookup k = some v → ∃ k', (k', v) ∈ l
  | [], h => by simp [List.lookup] at h
  | (k', v') :: rest, h => by
    simp only [List.lookup] at h
    split at h
    · cases h; exact ⟨k', List.mem_cons_self⟩
    · obtain ⟨k'', hk⟩ := mem_of_lookup rest h
      exact ⟨k'', List.mem_cons_of_mem _ hk⟩

/-- the only licences whose SPDX *name* is printed (in the licence classifier): ids of CLASSIFIER_SUPPORTED that have
no entry in CLASSIFIER_NAMES -/
def NameNeeded (l : License) : Prop :=
  Gen.licenseClassifierSupported.contains l.id = true ∧ Gen.licenseClassifierNames.lookup l.id = none

theorem licenseClassifier_singleLine (l : License) (h : NameNeeded l → SingleLine l.name) : SingleLine l.classifier := by
  unfold License.classifier
  apply joinWith_singleLine _ (by decide)
  intro x hx
  simp only [List.mem_append, List.mem_cons, List.not_mem_nil, or_false] at hx
  rcases hx with (hx | hx) | hx
  · subst hx; decide
  · split at hx
    · simp only [List.mem_cons, List.not_mem_nil, or_false] at hx; subst hx; decide
    · simp at hx
  · cases hc : l.classifierName with
    | none => rw [hc] at hx; simp at hx
    | some nm =>
      rw [hc] at hx
      simp only [List.mem_cons, List.not_mem_nil, or_false] at hx
      subst hx
      unfold License.classifierName at hc
      split at hc
      · split at hc
        · cases hc
        · cases hc; decide
      · rename_i hsup
        have tbl : ∀ kv ∈ Gen.licenseClassifierNames, SingleLine kv.2 := by decide
        cases hl : Gen.licenseClassifierNames.lookup l.id with
        | none => rw [hl] at hc; cases hc; exact h ⟨by simpa using hsup, hl⟩
        | some nm' =>
          rw [hl] at hc; cases hc
          obtain ⟨k', hk⟩ := mem_of_lookup _ hl
          exact tbl _ hk

/-! ## URLs -/

def KVOk (d : List (String × String)) : Prop := ∀ kv ∈ d, SingleLine kv.1 ∧ SingleLine kv.2

theorem kvOk_nil : KVOk [] := fun _ h => by cases h

theorem kvOk_append {a b : List (String × String)} (ha : KVOk a) (hb : KVOk b) : KVOk (a ++ b) := by
  intro kv h
  rcases List.mem_append.1 h with h | h
  · exact ha kv h
  · exact hb kv h

theorem dictSet_ok {d : List (String × String)} {k v : String} (hd : KVOk d) (hk : SingleLine k)
    (hv : SingleLine v) : KVOk (dictSet d k v) := by
  unfold dictSet
  split
  · intro kv h
    obtain ⟨kv', hkv', rfl⟩ := List.mem_map.1 h
    split
    · exact ⟨hk, hv⟩
    · exact hd kv' hkv'
  · apply kvOk_append hd
    intro kv h
    simp only [List.mem_cons, List.not_mem_nil, or_false] at h
    subst h
    exact ⟨hk, hv⟩

theorem foldl_dictSet_ok : ∀ (us base : List (String × String)), KVOk us → KVOk base →
    KVOk (us.foldl (fun d kv => dictSet d kv.1 kv.2) base)
  | [], _, _, hb => hb
  | kv :: us, base, hu, hb => by
    simp only [List.foldl_cons]
    exact foldl_dictSet_ok us _ (fun x hx => hu x (List.mem_cons_of_mem _ hx))
      (dictSet_ok hb (hu kv List.mem_cons_self).1 (hu kv List.mem_cons_self).2)

theorem optUrl_ok (i : Nat) (o : Option String) (h : ∀ u, o = some u → SingleLine u) :
    KVOk (match truthy o with | some u => [(Gen.urlLabels.getD i "", u)] | none => []) := by
  have lbl : ∀ i, SingleLine (Gen.urlLabels.getD i "") := by
    intro i
    match i with
    | 0 => decide
    | 1 => decide
    | 2 => decide
    | n + 3 => exact singleLine_empty
  cases ht : truthy o with
  | none => exact kvOk_nil
  | some u =>
    intro kv hkv
    simp only [List.mem_cons, List.not_mem_nil, or_false] at hkv
    subst hkv
    exact ⟨lbl i, h u (truthy_some _ _ ht)⟩

theorem pkgUrls_ok (p : Pkg) (h1 : ∀ u, p.homepage = some u → SingleLine u)
    (h2 : ∀ u, p.repositoryUrl = some u → SingleLine u) (h3 : ∀ u, p.documentationUrl = some u → SingleLine u)
    (hc : KVOk p.customUrls) : KVOk p.urls := by
  unfold Pkg.urls
  exact foldl_dictSet_ok _ _ hc (kvOk_append (kvOk_append (optUrl_ok 0 _ h1) (optUrl_ok 1 _ h2)) (optUrl_ok 2 _ h3))

/-! ## readme content type -/

theorem contentTypeOfPath_singleLine (r : String) : SingleLine (contentTypeOfPath r) := by
  unfold contentTypeOfPath
  cases h : Gen.readmeContentTypes.lookup (pathSuffix r) with
  | none => decide
  | some t =>
    have tbl : ∀ kv ∈ Gen.readmeContentTypes, SingleLine kv.2 := by decide
    obtain ⟨k, hk⟩ := mem_of_lookup _ h
    exact tbl _ hk

/-! ## classifiers -/

theorem pythonClassifierOf_singleLine : ∀ v ∈ Gen.availablePythons, SingleLine (pythonClassifierOf v) := by decide

theorem allClassifiers_ok (p : Pkg) (cs : List String) (h : p.allClassifiers = .ok cs)
    (hc : ∀ c ∈ p.classifiers, SingleLine c) (hl : ∀ l, p.license = some l → NameNeeded l → SingleLine l.name) :
    ∀ c ∈ cs, SingleLine c := by
  unfold Pkg.allClassifiers at h
  split at h
  · simp only [bind, Except.bind, pure, Except.pure] at h
    cases hpc : p.classifierPython with
    | error e => rw [hpc] at h; cases h
    | ok pc =>
      rw [hpc] at h
      simp only at h
      cases hpy : pythonClassifiers pc with
      | error e => rw [hpy] at h; cases h
      | ok py =>
        rw [hpy] at h
        cases h
        intro c hcm
        rcases mem_allClassifiersFrom.1 hcm with h | h | ⟨l, hl', rfl⟩
        · exact hc c h
        · obtain ⟨v, hv, rfl, _⟩ := (pythonClassifiers_mem hpy c).1 h
          exact pythonClassifierOf_singleLine v hv
        · exact licenseClassifier_singleLine l (hl l hl')
  · cases h; exact hc

/-! ## `Metadata.from_package` -/

/-- the guard for any configured package, from per-field facts -/
theorem toMeta_guard (p : Pkg) (texts : List String) (fp : String) (m : Meta)
    (hm : p.toMeta texts fp = .ok m)
    (hversion : SingleLine m.version)
    (hname : SingleLine p.prettyName) (hdesc : SingleLine p.description)
    (hkw : ∀ k ∈ p.keywords, SingleLine k)
    (hauth : ∀ x, p.authors.head? = some x → SingleLine x)
    (hmaint : ∀ x, p.maintainers.head? = some x → SingleLine x)
    (hcls : ∀ c ∈ p.classifiers, SingleLine c)
    (hlic : ∀ l, p.license = some l → NameNeeded l → SingleLine l.name)
    (hextras : ∀ e ∈ p.extras, SingleLine e) (hrd : ∀ d ∈ p.requiresDist, SingleLine d)
    (hurls : KVOk p.urls)
    (hct : ∀ c, p.readmeContentType = some c → SingleLine c)
    (hrp : p.requiresPython ≠ "*" → SingleLine p.requiresPython)
    (hfp : SingleLine fp) : NoLineBreakInSingleLineFields m := by
  simp only [Pkg.toMeta, bind, Except.bind, pure, Except.pure] at hm
  cases hv : Version.parse p.version with
  | error e => rw [hv] at hm; cases hm
  | ok v =>
  rw [hv] at hm; simp only at hm
  cases ha : firstPerson p.authors with
  | error e => rw [ha] at hm; cases hm
  | ok a =>
  obtain ⟨an, ae⟩ := a
  rw [ha] at hm; simp only at hm
  cases hc : p.allClassifiers with
  | error e => rw [hc] at hm; cases hm
  | ok cs =>
  rw [hc] at hm; simp only at hm
  cases hmt : firstPerson p.maintainers with
  | error e => rw [hmt] at hm; cases hm
  | ok a' =>
  obtain ⟨mn, me⟩ := a'
  rw [hmt] at hm; simp only at hm
  cases hm
  obtain ⟨ha1, ha2⟩ := firstPerson_singleLine ha hauth
  obtain ⟨hm1, hm2⟩ := firstPerson_singleLine hmt hmaint
  exact {
    name := hname
    version := hversion
    summary := hdesc
    keywords := joinWith_singleLine _ (by decide) _ hkw
    author := ha1
    authorEmail := ha2
    maintainer := hm1
    maintainerEmail := hm2
    requiresPython := by
      intro s hs
      simp only at hs
      split at hs
      · cases hs; exact hrp ‹_›
      · split at hs
        · cases hs; exact hfp
        · cases hs
    classifiers := allClassifiers_ok p cs hc hcls hlic
    providesExtra := hextras
    requiresDist := hrd
    projectUrls := by
      intro s hs
      obtain ⟨kv, hkv, rfl⟩ := List.mem_map.1 hs
      rw [singleLine_append, singleLine_append]
      exact ⟨⟨(hurls kv hkv).1, by decide⟩, (hurls kv hkv).2⟩
    contentType := by
      intro s hs
      simp only at hs
      cases ht : truthy p.readmeContentType with
      | some t => rw [ht] at hs; cases hs; exact hct _ (truthy_some _ _ ht)
      | none =>
        rw [ht] at hs
        simp only at hs
        split at hs
        · cases hs; exact contentTypeOfPath_singleLine _
        · cases hs }

/-! ## `Factory._configure_package_metadata` -/

/-- the URL accumulator of `configure` (same expression) -/
def urlAccOfV (proj : ProjectT) (tool : ToolT) : UrlAcc :=
  if proj.urls.isEmpty then
    { homepage := tool.homepage, repository := tool.repository, documentation := tool.documentation,
      custom := tool.urls.getD [] }
  else
    proj.urls.foldl (fun (a : UrlAcc) kv =>
      let l := lowerAscii kv.1
      if l = "homepage" then { a with homepage := some kv.2 }
      else if l = "repository" then { a with repository := some kv.2 }
      else if l = "documentation" then { a with documentation := some kv.2 }
      else { a with custom := dictSet a.custom kv.1 kv.2 }) {}

local macro "rt" : tactic => `(tactic| first | rfl | trivial)

theorem configure_fields (proj : ProjectT) (tool : ToolT) (spdx : String → Option License)
    (stored : Option String) (extras rd : List String) :
    (configure proj tool spdx stored extras rd).prettyName =
      (match truthy proj.name with | some n => n | none => tool.name.getD "non-package-mode") ∧
    (configure proj tool spdx stored extras rd).description =
      (match truthy proj.description with | some d => d | none => tool.description.getD "") ∧
    (configure proj tool spdx stored extras rd).authors =
      (if proj.authors.isEmpty then tool.authors else proj.authors.map Person.text) ∧
    (configure proj tool spdx stored extras rd).maintainers =
      (if proj.maintainers.isEmpty then tool.maintainers else proj.maintainers.map Person.text) ∧
    (configure proj tool spdx stored extras rd).keywords =
      (if proj.keywords.isEmpty then tool.keywords else proj.keywords) ∧
    (configure proj tool spdx stored extras rd).classifiers =
      (if proj.classifiers.isEmpty then tool.classifiers else proj.classifiers) ∧
    (configure proj tool spdx stored extras rd).extras = extras ∧
    (configure proj tool spdx stored extras rd).requiresDist = rd ∧
    (configure proj tool spdx stored extras rd).requiresPython = proj.requiresPython.getD "*" ∧
    (configure proj tool spdx stored extras rd).homepage = (urlAccOfV proj tool).homepage ∧
    (configure proj tool spdx stored extras rd).repositoryUrl = (urlAccOfV proj tool).repository ∧
    (configure proj tool spdx stored extras rd).documentationUrl = (urlAccOfV proj tool).documentation ∧
    (configure proj tool spdx stored extras rd).customUrls = (urlAccOfV proj tool).custom ∧
    (∀ l, (configure proj tool spdx stored extras rd).license = some l → ∃ raw, spdx raw = some l) ∧
    (∀ c, (configure proj tool spdx stored extras rd).readmeContentType = some c →
      (∃ f, proj.readme = some (.file f c)) ∨ (∃ t, proj.readme = some (.text t c))) := by
  have lic : ∀ (raw : String) (l : License), (if raw = "" then none else spdx raw) = some l → ∃ raw, spdx raw = some l := by
    intro raw l h
    split at h
    · cases h
    · exact ⟨raw, h⟩
  unfold configure urlAccOfV
  cases hr : proj.readme with
  | none =>
    refine ⟨rfl, rfl, rfl, rfl, rfl, rfl, rfl, rfl, rfl, rfl, rfl, rfl, rfl, fun l hl => lic _ l hl, fun c hc => ?_⟩
    cases hc
  | some r =>
    cases r with
    | path p =>
      by_cases hp : p = ""
      · simp only [hp, if_true]
        refine ⟨by rt, by rt, by rt, by rt, by rt, by rt, by rt, by rt, by rt, by rt, by rt, by rt, by rt,
          fun l hl => lic _ l hl, fun c hc => ?_⟩
        cases hc
      · simp only [hp, if_false]
        refine ⟨by rt, by rt, by rt, by rt, by rt, by rt, by rt, by rt, by rt, by rt, by rt, by rt, by rt,
          fun l hl => lic _ l hl, fun c hc => ?_⟩
        cases hc
    | file f ct =>
      refine ⟨rfl, rfl, rfl, rfl, rfl, rfl, rfl, rfl, rfl, rfl, rfl, rfl, rfl, fun l hl => lic _ l hl, fun c hc => ?_⟩
      cases hc
      exact .inl ⟨f, rfl⟩
    | text t ct =>
      refine ⟨rfl, rfl, rfl, rfl, rfl, rfl, rfl, rfl, rfl, rfl, rfl, rfl, rfl, fun l hl => lic _ l hl, fun c hc => ?_⟩
      cases hc
      exact .inr ⟨t, rfl⟩

structure UrlAccOk (a : UrlAcc) : Prop where
  homepage : ∀ u, a.homepage = some u → SingleLine u
  repository : ∀ u, a.repository = some u → SingleLine u
  documentation : ∀ u, a.documentation = some u → SingleLine u
  custom : KVOk a.custom

theorem urlFold_ok : ∀ (us : List (String × String)) (a : UrlAcc), KVOk us → UrlAccOk a →
    UrlAccOk (us.foldl (fun (a : UrlAcc) kv =>
      let l := lowerAscii kv.1
      if l = "homepage" then { a with homepage := some kv.2 }
      else if l = "repository" then { a with repository := some kv.2 }
      else if l = "documentation" then { a with documentation := some kv.2 }
      else { a with custom := dictSet a.custom kv.1 kv.2 }) a)
  | [], _, _, ha => ha
  | kv :: us, a, hu, ha => by
    simp only [List.foldl_cons]
    apply urlFold_ok us _ (fun x hx => hu x (List.mem_cons_of_mem _ hx))
    obtain ⟨hk, hv⟩ := hu kv List.mem_cons_self
    by_cases h1 : lowerAscii kv.1 = "homepage"
    · rw [if_pos h1]
      exact ⟨fun u hu' => by cases hu'; exact hv, ha.repository, ha.documentation, ha.custom⟩
    · rw [if_neg h1]
      by_cases h2 : lowerAscii kv.1 = "repository"
      · rw [if_pos h2]
        exact ⟨ha.homepage, fun u hu' => by cases hu'; exact hv, ha.documentation, ha.custom⟩
      · rw [if_neg h2]
        by_cases h3 : lowerAscii kv.1 = "documentation"
        · rw [if_pos h3]
          exact ⟨ha.homepage, ha.repository, fun u hu' => by cases hu'; exact hv, ha.custom⟩
        · rw [if_neg h3]
          exact ⟨ha.homepage, ha.repository, ha.documentation, dictSet_ok ha.custom hk hv⟩

theorem urlAccOfV_ok (proj : ProjectT) (tool : ToolT) (hp : ProjOk proj) (ht : ToolOk tool)
    (hl : ∀ u, (tool.homepage = some u ∨ tool.repository = some u ∨ tool.documentation = some u) → SingleLine u) :
    UrlAccOk (urlAccOfV proj tool) := by
  unfold urlAccOfV
  split
  · refine ⟨fun u h => hl u (.inl h), fun u h => hl u (.inr (.inl h)), fun u h => hl u (.inr (.inr h)), ?_⟩
    cases hu : tool.urls with
    | none => exact kvOk_nil
    | some us => exact ht.urls us hu
  · exact urlFold_ok _ _ hp.urls ⟨fun u h => (by cases h), fun u h => (by cases h), fun u h => (by cases h), kvOk_nil⟩

/-! ## validation ⇒ guard -/

/-- what is NOT checked by `_validate_single_line_fields` and must come from elsewhere -/
structure Trusted (proj : ProjectT) (tool : ToolT) (spdx : String → Option License) (extras rd : List String)
    (fp : String) (m : Meta) : Prop where
  /-- `Version.to_string()` output (C03 printer) -/
  version : SingleLine m.version
  /-- `[project].requires-python` is written verbatim and is not validated -/
  requiresPython : ∀ r, proj.requiresPython = some r → SingleLine r
  /-- `format_python_constraint` output (C15 printer) -/
  formatPython : SingleLine fp
  /-- `canonicalize_name(extra)`, not validated -/
  extras : ∀ e ∈ extras, SingleLine e
  /-- `Dependency.to_pep_508()` output (C10 printer) -/
  requiresDist : ∀ d ∈ rd, SingleLine d
  /-- `[tool.poetry].homepage/repository/documentation`: schema `format: uri`, not validated -/
  toolLinks : ∀ u, (tool.homepage = some u ∨ tool.repository = some u ∨ tool.documentation = some u) → SingleLine u
  /-- licence names in the SPDX table, for the few licences whose name is printed -/
  spdxNames : ∀ raw l, spdx raw = some l → NameNeeded l → SingleLine l.name

theorem validated_guard (proj : ProjectT) (tool : ToolT) (spdx : String → Option License) (stored : Option String)
    (extras rd texts : List String) (fp : String) (m : Meta)
    (hv : validateSingleLineCore proj tool = [])
    (hm : (configure proj tool spdx stored extras rd).toMeta texts fp = .ok m)
    (ht : Trusted proj tool spdx extras rd fp m) :
    NoLineBreakInSingleLineFields m := by
  obtain ⟨hvp, hvt⟩ := validated_fields hv
  have hp := projOk_of_validated hvp
  have hto := toolOk_of_validated hvt
  obtain ⟨e1, e2, e3, e4, e5, e6, e7, e8, e9, e10, e11, e12, e13, e14, e15⟩ :=
    configure_fields proj tool spdx stored extras rd
  have hacc := urlAccOfV_ok proj tool hp hto ht.toolLinks
  have people : ∀ (ps : List Person) (ts : List String),
      (∀ a ∈ ps, (∀ n, a.name = some n → SingleLine n) ∧ (∀ e, a.email = some e → SingleLine e)) →
      (∀ a ∈ ts, SingleLine a) →
      ∀ x, (if ps.isEmpty then ts else ps.map Person.text).head? = some x → SingleLine x := by
    intro ps ts hps hts x hx
    have hmem := List.mem_of_head? hx
    split at hmem
    · exact hts x hmem
    · obtain ⟨a, ha, rfl⟩ := List.mem_map.1 hmem
      exact personText_singleLine a (hps a ha).1 (hps a ha).2
  apply toMeta_guard _ texts fp m hm ht.version
  · -- name
    rw [e1]
    cases h : truthy proj.name with
    | some n => exact hp.name n (truthy_some _ _ h)
    | none =>
      cases h2 : tool.name with
      | none => decide
      | some n => exact hto.name n h2
  · -- summary
    rw [e2]
    cases h : truthy proj.description with
    | some d => exact hp.description d (truthy_some _ _ h)
    | none =>
      cases h2 : tool.description with
      | none => decide
      | some d => exact hto.description d h2
  · -- keywords
    rw [e5]; split
    · exact hto.keywords
    · exact hp.keywords
  · rw [e3]; exact people _ _ hp.authors hto.authors
  · rw [e4]; exact people _ _ hp.maintainers hto.maintainers
  · rw [e6]; split
    · exact hto.classifiers
    · exact hp.classifiers
  · intro l hl
    obtain ⟨raw, hraw⟩ := e14 l hl
    exact ht.spdxNames raw l hraw
  · rw [e7]; exact ht.extras
  · rw [e8]; exact ht.requiresDist
  · apply pkgUrls_ok
    · rw [e10]; exact hacc.homepage
    · rw [e11]; exact hacc.repository
    · rw [e12]; exact hacc.documentation
    · rw [e13]; exact hacc.custom
  · intro c hc
    rcases e15 c hc with ⟨f, hf⟩ | ⟨t, ht'⟩
    · exact hp.readmeFile f c hf
    · exact hp.readmeText t c ht'
  · rw [e9]
    intro hne
    cases h : proj.requiresPython with
    | none => rw [h] at hne; exact absurd rfl hne
    | some r => exact ht.requiresPython r h
  · exact ht.formatPython

/-- a validated project's METADATA parses back (RFC 822 / `email.parser`) to exactly the declared headers -/
theorem validated_render_parse (proj : ProjectT) (tool : ToolT) (spdx : String → Option License)
    (stored : Option String) (extras rd texts : List String) (fp : String) (m : Meta)
    (hv : validateSingleLineCore proj tool = [])
    (hm : (configure proj tool spdx stored extras rd).toMeta texts fp = .ok m)
    (ht : Trusted proj tool spdx extras rd fp m) :
    parseChars (renderChars m) =
      { unixFrom := none, headers := expectedFields m, body := bodyOf (m.description.map String.toList),
        defects := [] } :=
  render_parse_chars m (validated_guard proj tool spdx stored extras rd texts fp m hv hm ht)

end Poetry.Meta
