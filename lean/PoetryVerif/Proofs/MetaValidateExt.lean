/-
C14: the full validator (`validateSingleLine`, including the extras-name and dependency-source checks that exist in
sources where `Gen.singleLineNameKeys` / `Gen.singleLineDependencyKeys` are non-empty) implies the core one, and —
conditionally on the key tables regenerated from source — covers `requires-python`, the extras names and the
dependency sources.  Core Lean only.
-/
import PoetryVerif.Proofs.MetaValidate

set_option linter.unusedSimpArgs false
set_option linter.unusedVariables false

namespace Poetry.Meta
open Poetry

theorem singleLineErrors_append (loc : String) (a b : List (String × String)) :
    singleLineErrors loc (a ++ b) = singleLineErrors loc a ++ singleLineErrors loc b := by
  simp [singleLineErrors, List.filter_append]

theorem validated_fields_all {proj : ProjectT} {tool : ToolT} (hv : validateSingleLine proj tool = []) :
    (∀ fv ∈ proj.validatorFieldsAll, SingleLine fv.2) ∧ (∀ fv ∈ tool.validatorFieldsAll, SingleLine fv.2) := by
  simp only [validateSingleLine, Gen.singleLineLocations, List.flatMap_cons, List.flatMap_nil,
    List.append_nil, List.append_eq_nil_iff] at hv
  obtain ⟨h1, h2⟩ := hv
  simp only [if_true] at h1 h2
  exact ⟨singleLineErrors_nil h1, singleLineErrors_nil h2⟩

/-- the validator as it stands implies its metadata-key core (what `validated_guard` needs) -/
theorem core_of_full {proj : ProjectT} {tool : ToolT} (hv : validateSingleLine proj tool = []) :
    validateSingleLineCore proj tool = [] := by
  obtain ⟨hp, ht⟩ := validated_fields_all hv
  have e : ∀ (loc : String) (fs : List (String × String)), (∀ fv ∈ fs, SingleLine fv.2) → singleLineErrors loc fs = [] := by
    intro loc fs h
    simp only [singleLineErrors, List.map_eq_nil_iff, List.filter_eq_nil_iff]
    intro fv hfv
    have := (hasLineBreak_false_iff fv.2).2 (h fv hfv)
    simp [this]
  simp only [validateSingleLineCore, Gen.singleLineLocations, List.flatMap_cons, List.flatMap_nil, List.append_nil, if_true]
  rw [e "project" proj.validatorFields (fun fv h => hp fv (by simp [ProjectT.validatorFieldsAll, h])),
      e "tool.poetry" tool.validatorFields (fun fv h => ht fv (by simp [ToolT.validatorFieldsAll, h]))]
  simp

/-- **validation ⇒ guard** for the validator as it stands in the source -/
theorem validated_guard_full (proj : ProjectT) (tool : ToolT) (spdx : String → Option License) (stored : Option String)
    (extras rd texts : List String) (fp : String) (m : Meta)
    (hv : validateSingleLine proj tool = [])
    (hm : (configure proj tool spdx stored extras rd).toMeta texts fp = .ok m)
    (ht : Trusted proj tool spdx extras rd fp m) :
    NoLineBreakInSingleLineFields m :=
  validated_guard proj tool spdx stored extras rd texts fp m (core_of_full hv) hm ht

/-- once the source lists `requires-python` among the scalar keys, `[project].requires-python` is validated too
(the `requiresPython` field of `Trusted` is then discharged) -/
theorem validated_requiresPython (proj : ProjectT) (tool : ToolT) (hk : "requires-python" ∈ Gen.singleLineScalarKeys)
    (hv : validateSingleLine proj tool = []) : ∀ r, proj.requiresPython = some r → SingleLine r := by
  intro r hr
  have hp := (validated_fields_all hv).1
  apply hp ("requires-python", r)
  simp only [ProjectT.validatorFieldsAll, ProjectT.validatorFields, validatorFields, List.mem_append, List.mem_flatMap]
  left; left; left; left
  refine ⟨"requires-python", hk, ?_⟩
  simp [ProjectT.scalar, hr]

/-- once the source checks the keys of the extras tables, the names of extras as written are validated
(what remains trusted for Provides-Extra is `canonicalize_name`) -/
theorem validated_extra_names (proj : ProjectT) (tool : ToolT) (hv : validateSingleLine proj tool = []) :
    ("optional-dependencies" ∈ Gen.singleLineNameKeys → ∀ n ∈ proj.optionalDependencyNames, SingleLine n) ∧
    ("extras" ∈ Gen.singleLineNameKeys → ∀ n ∈ tool.extraNames, SingleLine n) := by
  obtain ⟨hp, ht⟩ := validated_fields_all hv
  constructor
  · intro hk n hn
    apply hp ("optional-dependencies", n)
    simp only [ProjectT.validatorFieldsAll, nameFields, List.mem_append, List.mem_flatMap, List.mem_map]
    right
    exact ⟨"optional-dependencies", hk, n, by simpa using hn, rfl⟩
  · intro hk n hn
    apply ht ("extras", n)
    simp only [ToolT.validatorFieldsAll, nameFields, List.mem_append, List.mem_flatMap, List.mem_map]
    left; right
    exact ⟨"extras", hk, n, by simpa using hn, rfl⟩

/-- once the source checks `[tool.poetry.dependencies]`, every dependency name, every listed source key of every
specification table and every requested extra is single-line (what remains trusted for Requires-Dist is the
printer `to_pep_508` on single-line inputs) -/
theorem validated_dependency_sources (proj : ProjectT) (tool : ToolT) (hne : Gen.singleLineDependencyKeys ≠ [])
    (hv : validateSingleLine proj tool = []) :
    ∀ d ∈ tool.dependencies, SingleLine d.1 ∧ ∀ spec ∈ d.2,
      (∀ k ∈ Gen.singleLineDependencyKeys, ∀ v, spec.kvs.lookup k = some v → SingleLine v) ∧
      (∀ e ∈ spec.extras, SingleLine e) := by
  have ht := (validated_fields_all hv).2
  have hempty : Gen.singleLineDependencyKeys.isEmpty = false := by
    cases h : Gen.singleLineDependencyKeys with
    | nil => exact absurd h hne
    | cons _ _ => rfl
  have mem : ∀ fv, fv ∈ dependencyFields tool.dependencies → SingleLine fv.2 := by
    intro fv h
    exact ht fv (by simp [ToolT.validatorFieldsAll, h])
  intro d hd
  refine ⟨?_, ?_⟩
  · apply mem ("dependencies", d.1)
    simp only [dependencyFields, hempty, Bool.false_eq_true, if_false, List.mem_flatMap]
    exact ⟨d, hd, by simp⟩
  · intro spec hspec
    refine ⟨?_, ?_⟩
    · intro k hk v hv'
      apply mem ("dependencies." ++ d.1 ++ "." ++ k, v)
      simp only [dependencyFields, hempty, Bool.false_eq_true, if_false, List.mem_flatMap]
      refine ⟨d, hd, ?_⟩
      simp only [List.mem_cons, List.mem_flatMap, List.mem_append, List.mem_filterMap, List.mem_map]
      right
      exact ⟨spec, hspec, Or.inl ⟨k, hk, by simp [hv']⟩⟩
    · intro e he
      apply mem ("dependencies." ++ d.1 ++ ".extras", e)
      simp only [dependencyFields, hempty, Bool.false_eq_true, if_false, List.mem_flatMap]
      refine ⟨d, hd, ?_⟩
      simp only [List.mem_cons, List.mem_flatMap, List.mem_append, List.mem_filterMap, List.mem_map]
      right
      exact ⟨spec, hspec, Or.inr ⟨e, he, rfl⟩⟩

end Poetry.Meta
