/-
Marker text for the domain with `python_version` lists AND `python_full_version` leaves (quotable values).
-/
import PoetryVerif.Proofs.MarkerPrint4
import PoetryVerif.Proofs.MarkerAlgSoundListCtor

set_option linter.unusedSimpArgs false
set_option linter.unusedVariables false

namespace Poetry.Marker
open Poetry Poetry.Generic

/-- four-operator strings, `extra` (quotable values), `python_version` with the seven operators and lists,
`python_full_version` with the seven operators -/
def FullQLP (C : String → Prop) (E : Env) (l : Leaf) : Prop := Plain4Q C E l ∨ PyLeafL l

theorem leafSpec_fullQLP {C : String → Prop} (hC : ∀ u v, C u → C v → strIn u v = true ∨ strIn v u = true)
    {E : Env} {ex : List String} (hX : E.extras = some ex) {X Y Z : Nat} (hE : EnvPy E X Y Z) :
    LeafSpec (leafEval E) (FullQLP C E) := by
  refine LeafSpec.or (leafSpec_plain4Q hC hX) (leafSpec_pyL hE (pairSound_pyLists hE)) ?_
  intro a b ha hb
  have hb' := pyLeafL_name hb
  rcases plain4Q_name ha with h | h
  · rcases hb' with hb' | hb' <;> (rw [pyPair, pyPair, h, hb']; decide)
  · simp only [plainStringVars, List.mem_cons, List.mem_nil_iff, or_false] at h
    rcases hb' with hb' | hb' <;>
      rcases h with h | h | h | h | h | h | h <;> (rw [pyPair, pyPair, h, hb']; decide)

theorem printOK_pyL {ev : Leaf → Bool} : ∀ l, PyLeafL l → LeafPrintOK ev PyLeafL l := by
  intro l hl
  rcases hl with hl | hl
  · exact (printOK_pvL l hl).mono (fun l h => Or.inl h)
  · exact (printOK_pyC l (Or.inr hl)).mono (fun l h => by
      rcases h with h | h
      · exact Or.inl (Or.inl h)
      · exact Or.inr h)

theorem lexable_pyL : ∀ l, PyLeafL l → Leaf.Lexable l := by
  intro l hl
  rcases hl with hl | hl
  · exact lexable_pvL l hl
  · exact lexable_pyC l (Or.inr hl)

theorem printOK_fullQLP {C : String → Prop} {E : Env} {ex : List String} (hX : E.extras = some ex) :
    ∀ l, FullQLP C E l → LeafPrintOK (leafEval E) (FullQLP C E) l := by
  intro l hl
  rcases hl with hl | hl
  · exact (printOK_plain4Q hX l hl).mono (fun l h => Or.inl h)
  · exact (printOK_pyL l hl).mono (fun l h => Or.inr h)

theorem lexable_fullQLP {C : String → Prop} {E : Env} : ∀ l, FullQLP C E l → Leaf.Lexable l := by
  intro l hl
  rcases hl with hl | hl
  · exact lexable_plain4Q l hl
  · exact lexable_pyL l hl

theorem fullQLP_evaluable {C : String → Prop} {E : Env} {ex : List String} (hX : E.extras = some ex) {X Y Z : Nat}
    (hE : EnvPy E X Y Z) {l : Leaf} (h : FullQLP C E l) : ∃ b, l.validate E = .ok b := by
  rcases h with h | h
  · exact plain4Q_evaluable hX h
  · exact pyLeafL_evaluable hE h

end Poetry.Marker
