/-
The python_version / python_full_version pairing for `python_version` LIST leaves (`in` / `not in`), relative to
one constructor fact: `SingleMarker("python_full_version", str(c))` for the conversion `c` of a list (a constraint
of the regular setting over two-component Python bounds, in general not simple) means `c` (`MkListOK`).  Everything
else — the conversion, the inner merge with its outcome text, the rewriting of the merged marker — is as for the
comparison operators (`pairCtx_genL` is the C11/C17 builder's `pairCtx_gen` with a list operand admitted).
-/
import PoetryVerif.Proofs.PyConvPairCompat
import PoetryVerif.Proofs.MarkerAlgSoundPvLists

set_option linter.unusedSimpArgs false
set_option linter.unusedVariables false

namespace Poetry.Marker
open Poetry Poetry.Spec Poetry.Spec.Pep508 Poetry.VParser Poetry.Version

theorem pairCtx_genL {E : Env} {X Y Z : Nat} (hE : EnvPy E X Y Z) (B : List Version)
    (hpb : ∀ e ∈ B, PyBound e = true) (hpad : ∀ x r, litV x r ∈ B → litV x (padR r) ∈ B)
    (vm fm : Single) (nc : VC) (hvn : vm.name = "python_version") (hfn : fm.name = "python_full_version")
    (hvo : PvLeafL (.single vm)) (hgpc : gpcLeaf (.single vm) = .ok nc)
    (hex : nc.allowsPlain (pyV X Y Z) = leafEval E (.single vm))
    (hmk : ∀ nm, mkSingleOfC "python_full_version" (.ver nc) = .ok nm →
      VerLeaf B "python_full_version" (.single nm) ∧ leafEval E (.single nm) = nc.allowsPlain (pyV X Y Z))
    (hfF : VerLeaf B "python_full_version" (.single fm)) (hfT : Pfv3LeafC (.single fm)) :
    PairCtx (leafEval E)
      (fun l => l = .single vm ∨ l = .single fm)
      (fun l => PvLeafL l ∨ Pfv3LeafC l)
      (VerLeaf B "python_full_version")
      (fun ms => Pfv3LeafC (.single ms))
      (fun c => c = nc)
      (pyV X Y Z) where
  out := by
    rintro l (rfl | rfl)
    · exact Or.inl hvo
    · exact Or.inr hfT
  gpc := by
    rintro v c (hv | hv) hn hg
    · cases hv
      rw [hgpc] at hg
      cases hg
      exact ⟨rfl, hex⟩
    · cases hv
      rw [hfn] at hn
      exact absurd hn (by decide)
  mkpfv := by
    rintro c nm rfl hm
    exact hmk nm hm
  fm := by
    rintro f (hv | hv) hn
    · cases hv
      rw [hvn] at hn
      exact absurd hn (by decide)
    · cases hv
      exact ⟨hfF, hfT⟩
  single := by
    intro l hl
    cases l with
    | single s => exact ⟨s, rfl, hl.1⟩
    | amulti _ _ => exact hl.elim
    | aunion _ _ => exact hl.elim
  congr := verLeaf_congr (regB_of_pyBound _ hpb) (verEnv_py hpb hE) (by decide)
  inner := by
    intro dd nm f im mm h1 h2 hm
    obtain ⟨g, e, _⟩ := verLeaf_merge_text hpb hpad hE.2 dd _ _ im mm h1 h2 hm
    exact ⟨g, e⟩
  leafOnly := by
    intro dd nm f im mm h1 h2 hm
    obtain ⟨_, _, o⟩ := verLeaf_merge_text hpb hpad hE.2 dd _ _ im mm h1 h2 hm
    rcases o with rfl | rfl | rfl | rfl | ⟨s, rfl, _⟩
    · exact Or.inr (Or.inl rfl)
    · exact Or.inl rfl
    · exact Or.inr (Or.inr ⟨_, rfl⟩)
    · exact Or.inr (Or.inr ⟨_, rfl⟩)
    · exact Or.inr (Or.inr ⟨_, rfl⟩)
  text := by
    rintro dd c nm f ms im rfl hm' hF hT hm hb
    obtain ⟨g, _⟩ := hmk nm hm'
    obtain ⟨_, _, o⟩ := verLeaf_merge_text hpb hpad hE.2 dd _ _ im _ g hF hm
    rcases o with e | e | e | e | ⟨s, e, hs⟩
    · cases e
    · cases e
    · cases e
      simp [Leaf.beq] at hb
    · cases e; exact hT
    · cases e; exact Or.inl hs
  notList := by
    rintro ms (⟨s, o, a', b', c', hm, he⟩ | ⟨a', b', c', he⟩)
    · cases he
      simp only [pvOps, List.mem_cons, Prod.mk.injEq, List.mem_nil_iff, or_false] at hm
      rcases hm with ⟨_, rfl⟩ | ⟨_, rfl⟩ | ⟨_, rfl⟩ | ⟨_, rfl⟩ | ⟨_, rfl⟩ | ⟨_, rfl⟩ <;> simp only [pfvLeafOf] <;> decide
    · cases he
      simp only [pfvCompatOf]; decide
  rewrite := by
    rintro ms r hF (⟨s, o, a', b', c', hm, he⟩ | ⟨a', b', c', he⟩) hr
    · cases he
      have := reparse_rewrite hm a' b' c' (pfvLeafOf s o a' [b', c']).c
      rw [show (⟨"python_full_version", o, Version.relText [a', b', c'], false, (pfvLeafOf s o a' [b', c']).c⟩ : Single) =
        pfvLeafOf s o a' [b', c'] from rfl, hr] at this
      injection this with this
      subst this
      by_cases hc : ((o == "<" || o == ">=") && c' == 0) = true
      · rw [if_pos hc]
        simp only [Bool.and_eq_true, Bool.or_eq_true, beq_iff_eq] at hc
        obtain ⟨hlg, rfl⟩ := hc
        refine ⟨by simp only [M.good_leaf]; exact Or.inl (Or.inl (Or.inl ⟨s, o, a', b', hm, rfl⟩)), ?_⟩
        rw [M.sem_leaf, pv_pfv_same hE hm hlg a' b']
        rfl
      · rw [if_neg hc]
        exact ⟨by simp only [M.good_leaf]; exact Or.inr (Or.inl ⟨s, o, a', b', c', hm, rfl⟩), rfl⟩
    · cases he
      have := reparse_compat a' b' c' (pfvCompatOf a' b' c').c
      rw [show (⟨"python_full_version", "~=", Version.relText [a', b', c'], false, (pfvCompatOf a' b' c').c⟩ : Single) =
        pfvCompatOf a' b' c' from rfl, hr] at this
      injection this with this
      subst this
      exact ⟨by simp only [M.good_leaf]; exact Or.inr (Or.inr ⟨a', b', c', rfl⟩), rfl⟩


/-- **the constructor fact for list conversions**: for a constraint `c` of the regular setting over two-component
Python bounds (what `get_python_constraint_from_marker` returns for a `python_version` list — in general a union of
ranges, not simple), `SingleMarker("python_full_version", str(c))` is a leaf of the regular fragment that means `c`
at interpreter `p`.  A statement about `str()` of a union of ranges, the constraint pattern and the constraint
parser only. -/
def MkListOK (E : Env) (p : Version) : Prop :=
  ∀ (c : VC) (B : List Version), (∀ e ∈ B, PyBound e = true) → (∀ x r, litV x r ∈ B → litV x (padR r) ∈ B) →
    RegVC B c → Lit2 c → (∃ q, c.allowsPlain q = true) → (∃ q, c.allowsPlain q = false) → ∀ nm, mkSingleOfC "python_full_version" (.ver c) = .ok nm →
      VerLeaf B "python_full_version" (.single nm) ∧ leafEval E (.single nm) = c.allowsPlain p

/-- the conversion of a list leaf is exact at every interpreter `X.Y.Z` -/
theorem list_exact {E : Env} {X Y Z : Nat} (hE : EnvPy E X Y Z) (isIn : Bool) (p0 : Nat × Nat)
    (rest : List (String × (Nat × Nat))) (hs : ∀ q ∈ rest, SepRun q.1) {res : VC}
    (hres : parseMarkerVersionConstraint (listText isIn p0 (rest.map (·.2))) = .ok res) :
    res.allowsPlain (pyV X Y Z) =
      leafEval E (.single ⟨"python_version", listOp isIn, verList2 p0 rest, false, .ver res⟩) ∧
    (∃ q, res.allowsPlain q = true) ∧ ∃ q, res.allowsPlain q = false := by
  obtain ⟨s, hs1, hop⟩ := pvOperand_list hE.1 ⟨isIn, p0, rest, res, hs, hres, rfl⟩
  cases hs1
  obtain ⟨_, v, hv, hok, _, hev, _⟩ := hop
  cases hv
  -- the value at `X.Y.Z` does not depend on `Z`
  have key : ∀ X' Y' Z', res.allowsPlain (pyV X' Y' Z') =
      (if isIn then (p0 :: rest.map (·.2)).any (fun p => decide (X' = p.1 ∧ Y' = p.2))
        else !(p0 :: rest.map (·.2)).any (fun p => decide (X' = p.1 ∧ Y' = p.2))) := by
    intro X' Y' Z'
    cases isIn
    · obtain ⟨vc, hvc, hb⟩ := neEntry_means p0 (rest.map (·.2)) X' Y' Z'
      simp only [listText, Bool.false_eq_true, if_false] at hres ⊢
      rw [hres] at hvc; cases hvc; exact hb
    · obtain ⟨r', h1, h2, _⟩ := parse_starList p0 (rest.map (·.2)) X' Y' Z'
      simp only [listText, if_true] at hres ⊢
      rw [hres] at h1; cases h1; exact h2
  have big : ∃ N, ∀ p ∈ (p0 :: rest.map (·.2)), p.1 < N := by
    refine ⟨((p0 :: rest.map (·.2)).map (·.1)).foldl max 0 + 1, fun p hp => ?_⟩
    have hm : p.1 ∈ (p0 :: rest.map (·.2)).map (·.1) := List.mem_map.2 ⟨p, hp, rfl⟩
    have gen : ∀ (l : List Nat) (a x : Nat), x ∈ l → x ≤ l.foldl max a := by
      intro l
      induction l with
      | nil => intro a x hx; cases hx
      | cons y ys ih =>
        intro a x hx
        simp only [List.foldl_cons]
        rcases List.mem_cons.1 hx with rfl | hx
        · have mono : ∀ (l : List Nat) (a : Nat), a ≤ l.foldl max a := by
            intro l; induction l with
            | nil => intro a; exact Nat.le_refl _
            | cons z zs ih2 => intro a; simp only [List.foldl_cons]; exact Nat.le_trans (Nat.le_max_left _ _) (ih2 _)
          exact Nat.le_trans (Nat.le_max_right _ _) (mono ys _)
        · exact ih _ _ hx
    have := gen _ 0 _ hm
    omega
  obtain ⟨N, hN⟩ := big
  have hfar : (p0 :: rest.map (·.2)).any (fun p => decide (N = p.1 ∧ 0 = p.2)) = false := by
    simp only [List.any_eq_false, decide_eq_true_eq]
    intro p hp h
    have := hN p hp
    omega
  have hnear : (p0 :: rest.map (·.2)).any (fun p => decide (p0.1 = p.1 ∧ p0.2 = p.2)) = true := by simp
  refine ⟨?_, ?_, ?_⟩
  · rw [hev, ← allowsPlain_pad hok, key X Y Z, key X Y 0]
  · cases isIn
    · exact ⟨pyV N 0 0, by rw [key N 0 0, hfar]; rfl⟩
    · exact ⟨pyV p0.1 p0.2 0, by rw [key p0.1 p0.2 0, hnear]; rfl⟩
  · cases isIn
    · exact ⟨pyV p0.1 p0.2 0, by rw [key p0.1 p0.2 0, hnear]; rfl⟩
    · exact ⟨pyV N 0 0, by rw [key N 0 0, hfar]; rfl⟩

/-- the pair of a two-component final release -/
def pairOf (e : Version) : Nat × Nat := (e.release.headD 0, e.release.tail.headD 0)

/-- **the python_version / python_full_version pairing with `python_version` lists, relative to the constructor fact
for list conversions** -/
theorem pairSound_pyL {E : Env} {X Y Z : Nat} (hE : EnvPy E X Y Z) (HM : MkListOK E (pyV X Y Z)) :
    PairSound (leafEval E) PvLeafL Pfv3LeafC := by
  intro l1 l2 im r hG hm
  -- the comparison / `~=` operands are the C11/C17 builder's theorem
  by_cases hc : (PvLeafC l1 ∧ Pfv3LeafC l2) ∨ (Pfv3LeafC l1 ∧ PvLeafC l2)
  · obtain ⟨g, e⟩ := pairSound_pyC hE l1 l2 im r hc hm
    refine ⟨M.good_mono ?_ r g, e⟩
    rintro l (h | h)
    · exact Or.inl (Or.inl h)
    · exact Or.inr h
  -- a list operand
  obtain ⟨vl, fl, hv, hf, hsw⟩ : ∃ vl fl, PvListLeaf vl ∧ Pfv3LeafC fl ∧ ((l1 = vl ∧ l2 = fl) ∨ (l1 = fl ∧ l2 = vl)) := by
    rcases hG with ⟨h1 | h1, h2⟩ | ⟨h1, h2 | h2⟩
    · exact absurd (Or.inl ⟨h1, h2⟩) hc
    · exact ⟨l1, l2, h1, h2, Or.inl ⟨rfl, rfl⟩⟩
    · exact absurd (Or.inr ⟨h1, h2⟩) hc
    · exact ⟨l2, l1, h2, h1, Or.inr ⟨rfl, rfl⟩⟩
  obtain ⟨fm, rfl⟩ : ∃ fm, fl = .single fm := by
    rcases hf with ⟨_, _, _, _, _, _, rfl⟩ | ⟨_, _, _, rfl⟩ <;> exact ⟨_, rfl⟩
  have hfn : fm.name = "python_full_version" := by simpa [Leaf.name] using pfv3LeafC_name hf
  have hvL : PvLeafL vl := Or.inr hv
  obtain ⟨isIn, p0, rest, res, hs, hres, rfl⟩ := hv
  obtain ⟨res', B0, hres', hreg, hpb0, hlit⟩ := parse_list_reg isIn p0 (rest.map (·.2))
  rw [hres] at hres'; cases hres'
  obtain ⟨hex, hne, hna⟩ := list_exact hE isIn p0 rest hs hres
  let L : List (Nat × Nat) := B0.map pairOf
  have hL : ∀ e ∈ B0, e ∈ pairB L (.single fm) := by
    intro e he
    obtain ⟨a, b, rfl⟩ := hlit e he
    have : (a, b) ∈ L := List.mem_map.2 ⟨litV a [b], he, rfl⟩
    exact (pairB_mem2 L (.single fm) (a, b) this).1
  have hpb := pairB_py L hf
  have hpad := pairB_pad L hf
  have hregB : RegVC (pairB L (.single fm)) res := RegVC.mono hL hreg
  have hl2 : Lit2 res := lit2_of_reg hlit hreg
  have hfF : VerLeaf (pairB L (.single fm)) "python_full_version" (.single fm) :=
    pfv3LeafC_verLeaf hf (fun e he => List.mem_append_right _ he)
  have C := pairCtx_genL hE _ hpb hpad ⟨"python_version", listOp isIn, verList2 p0 rest, false, .ver res⟩ fm res rfl hfn
    hvL (by rw [gpcLeaf_pvList isIn p0 rest hs, hres]) hex
    (fun nm hnm => HM res _ hpb hpad hregB hl2 hne hna nm hnm) hfF hf
  rcases hsw with ⟨rfl, rfl⟩ | ⟨rfl, rfl⟩
  · have hcall : mergeLeaves (.single ⟨"python_version", listOp isIn, verList2 p0 rest, false, .ver res⟩) (.single fm) im =
        mergePythonVersion 1 ⟨"python_version", listOp isIn, verList2 p0 rest, false, .ver res⟩ fm im := by
      simp only [mergeLeaves]
      rw [mergeSingle.eq_def]
      dsimp only
      simp [Leaf.name, hfn]
    rw [hcall] at hm
    exact mergePythonVersion_sound C 1 _ fm im r (Or.inl rfl) (Or.inr rfl) (Or.inl ⟨rfl, hfn⟩) hm
  · have hcall : mergeLeaves (.single fm) (.single ⟨"python_version", listOp isIn, verList2 p0 rest, false, .ver res⟩) im =
        mergePythonVersion 1 fm ⟨"python_version", listOp isIn, verList2 p0 rest, false, .ver res⟩ im := by
      simp only [mergeLeaves]
      rw [mergeSingle.eq_def]
      dsimp only
      simp [Leaf.name, hfn]
    rw [hcall] at hm
    exact mergePythonVersion_sound C 1 fm _ im r (Or.inr rfl) (Or.inl rfl) (Or.inr ⟨hfn, rfl⟩) hm

end Poetry.Marker
