/-
Domains with `python_version` list leaves: without `python_full_version` leaves (no pairing needed), and with them
relative to the pairing.
-/
import PoetryVerif.Proofs.MarkerAlgSoundFull4
import PoetryVerif.Proofs.MarkerAlgSoundPvLists

set_option linter.unusedSimpArgs false
set_option linter.unusedVariables false

namespace Poetry.Marker
open Poetry Poetry.Generic

/-- strings with the four operators, `extra`, `python_version` with the seven operators and lists, `platform_release`
over `B` — no `python_full_version` leaf -/
def FullLeafL (C : String → Prop) (B : List Version) (E : Env) (l : Leaf) : Prop :=
  (Plain4Leaf C E l ∨ PvLeafL l) ∨ VerLeaf B "platform_release" l

theorem leafSpec_fullL {C : String → Prop} (hC : ∀ u v, C u → C v → strIn u v = true ∨ strIn v u = true)
    {B : List Version} (hpb : ∀ e ∈ B, PyBound e = true) {E : Env} {ex : List String}
    (hX : E.extras = some ex) {X Y : Nat} (hE : E.get? "python_version" = some (Version.relText [X, Y]))
    {P : Nat} {Q : List Nat} (hP : E.get? "platform_release" = some (Version.relText (P :: Q))) :
    LeafSpec (leafEval E) (FullLeafL C B E) := by
  have S1 : LeafSpec (leafEval E) (fun l => Plain4Leaf C E l ∨ PvLeafL l) := by
    refine LeafSpec.or (leafSpec_plain4 hC hX) (leafSpec_pvL hE) ?_
    intro a b ha hb
    have hb' := pvLeafL_name hb
    rcases plain4Leaf_name ha with h | h
    · rw [pyPair, pyPair, h, hb']; decide
    · simp only [plainStringVars, List.mem_cons, List.mem_nil_iff, or_false] at h
      rcases h with h | h | h | h | h | h | h <;> (rw [pyPair, pyPair, h, hb']; decide)
  refine LeafSpec.or S1 (leafSpec_pr hpb hP) ?_
  intro a b ha hb
  have hb' := verLeaf_name hb
  have ha' : a.name = "extra" ∨ a.name ∈ plainStringVars ∨ a.name = "python_version" := by
    rcases ha with ha | ha
    · rcases plain4Leaf_name ha with h | h
      · exact Or.inl h
      · exact Or.inr (Or.inl h)
    · exact Or.inr (Or.inr (pvLeafL_name ha))
  rcases ha' with h | h | h
  · rw [pyPair, pyPair, h, hb']; decide
  · simp only [plainStringVars, List.mem_cons, List.mem_nil_iff, or_false] at h
    rcases h with h | h | h | h | h | h | h <;> (rw [pyPair, pyPair, h, hb']; decide)
  · rw [pyPair, pyPair, h, hb']; decide

theorem fullLeafL_evaluable {C : String → Prop} {B : List Version} (hpb : ∀ e ∈ B, PyBound e = true) {E : Env}
    {ex : List String} (hX : E.extras = some ex) {X Y : Nat}
    (hE : E.get? "python_version" = some (Version.relText [X, Y])) {P : Nat} {Q : List Nat}
    (hP : E.get? "platform_release" = some (Version.relText (P :: Q))) {l : Leaf} (h : FullLeafL C B E l) :
    ∃ b, l.validate E = .ok b := by
  rcases h with (h | h) | h
  · exact plain4Leaf_evaluable hX h
  · exact pvLeafL_evaluable hE h
  · exact verLeaf_evaluable (regB_of_pyBound B hpb) (verEnv_pr hpb P Q hP) (by decide) h

/-- the python leaves with lists on `python_version`, relative to the pairing -/
def PyLeafL (l : Leaf) : Prop := PvLeafL l ∨ Pfv3LeafC l

theorem leafSpec_pyL {E : Env} {X Y Z : Nat} (hE : EnvPy E X Y Z)
    (HP : PairSound (leafEval E) PvLeafL Pfv3LeafC) : LeafSpec (leafEval E) PyLeafL :=
  LeafSpec.pair (leafSpec_pvL hE.1) (leafSpec_pfv3C hE.2)
    (fun a b ha hb => by rw [pvLeafL_name ha, pfv3LeafC_name hb]; decide) HP

end Poetry.Marker
