/-
`python_full_version in "…"` / `python_full_version not in "…"` on lists of two- and three-component versions, as
leaves of the same-name merge: a three-component token `a.b.c` contributes the clause `==a.b.c` / `!=a.b.c`, a
two-component token `a.b` the wildcard clause `a.b.*` / `!=a.b.*`, a one-component token `a` the clause `a.*` / `!=a.*` (poetry's reading of
a short version in a list).
The constraint string the constructor builds is read by the constraint parser as a constraint of the regular
setting over Python bounds, so the leaf is a `VerLeaf` and the text-tracking merge theorem applies.
-/
import PoetryVerif.Proofs.MarkerAlgSoundPfvC
import PoetryVerif.Proofs.MarkerAlgSoundPvLists
import PoetryVerif.Proofs.PyConvPairSound
import PoetryVerif.Proofs.PyConvWildRange

set_option linter.unusedSimpArgs false
set_option linter.unusedVariables false

namespace Poetry
open Poetry.Marker Poetry.Version VParser Std

theorem lt_step1 (a : Nat) : Version.cmp (finalV [a]) (finalV [a + 1]) = .lt := by
  refine cmp_lt_of_rel_lt (a := finalV [a]) (b := finalV [a + 1]) ?_ ?_
  · rfl
  show compare (stripZeros [a]) (stripZeros [a + 1]) = .lt
  exact sz_cmp_lt_head (by omega) _ _

theorem firstDev_lt_step1 (a : Nat) : Version.cmp (finalV [a]).firstDevrelease (finalV [a + 1]) = .lt := by
  refine cmp_lt_of_rel_lt (a := (finalV [a]).firstDevrelease) (b := finalV [a + 1]) ?_ ?_
  · rfl
  show compare (stripZeros [a]) (stripZeros [a + 1]) = .lt
  exact sz_cmp_lt_head (by omega) _ _

/-- `a.*` in a marker constraint is `[a, a+1)` -/
theorem makeX_star1 (a : Nat) : makeXConstraintRange (finalV [a]) false true =
    .ok (.single (.rng ⟨some (finalV [a]), some (finalV [a + 1]), true, false⟩)) := by
  have hp : (finalV [a]).isPostrelease = false := rfl
  have hs : (finalV [a]).isStable = true := rfl
  have hdv : (finalV [a]).isDevrelease = false := rfl
  simp [makeXConstraintRange, hdv, hp, hs, finalV_nextStable1]

/-- `!=a.*` in a marker constraint is `<a || >=a+1` -/
theorem xRange_inv1 (a : Nat) :
    makeXConstraintRange (finalV [a]) true true =
      .ok (.union [.rng ⟨none, some (finalV [a]), false, false⟩, .rng ⟨some (finalV [a + 1]), none, true, false⟩]) := by
  have h1 := lt_step1 a
  have h2 := firstDev_lt_step1 a
  have hu : (finalV [a]).isUnstable = false := rfl
  have hp : (finalV [a]).isPostrelease = false := rfl
  have hs : (finalV [a]).isStable = true := rfl
  have hdv : (finalV [a]).isDevrelease = false := rfl
  simp only [makeXConstraintRange, hdv, hp, hs, finalV_nextStable1, if_true, Bool.false_eq_true, if_false]
  simp [VC.difference, VC.any, RC.difference, RC.rngDifferenceRng, RC.allowsAny, VRange.isStrictlyLower, VRange.isStrictlyHigher,
    VRange.allowedMax, VRange.allowedMin, VRange.any, VRange.allowsLower, VRange.allowsHigher, optVerEq, bind, Except.bind,
    pure, Except.pure, hu]
  have hu' : (finalV [a + 1]).isUnstable = false := rfl
  have heq : (finalV [a]).eqv (finalV [a + 1]) = false := by simp [Version.eqv, h1]
  have hlt : Version.lt (finalV [a]).firstDevrelease (finalV [a + 1]) = true := by simp [Version.lt, h2]
  simp [hu', heq, unionOfFlat, RC.isAny, VRange.isAny, sortRCs, insertSorted, RC.lt, VRange.cmp, RC.view, RC.min, RC.max,
    RC.imin, RC.imax, mergeLoop, RC.allowsAny, VRange.isStrictlyLower, VRange.isStrictlyHigher, VRange.allowedMax,
    VRange.allowedMin, optVerEq, hu, hlt, VRange.isAdjacentTo, bind, Except.bind, pure, Except.pure]

/-- the clause `a.*` -/
def star1Item (a : Nat) : List Char := relChars [a] ++ ['.', '*']
def star1VC (a : Nat) : VC := .single (.rng ⟨some (finalV [a]), some (finalV [a + 1]), true, false⟩)
def neStar1VC (a : Nat) : VC :=
  .union [.rng ⟨none, some (finalV [a]), false, false⟩, .rng ⟨some (finalV [a + 1]), none, true, false⟩]

theorem parseSingle_star1 (a : Nat) : parseSingle (star1Item a) true = .ok (star1VC a) := by
  rw [star1Item, parseSingle_star true a [] (xCore_star1 false a), makeX_star1]; rfl

theorem parseSingle_neStar1 (a : Nat) : parseSingle ('!' :: '=' :: star1Item a) true = .ok (neStar1VC a) :=
  (parseSingle_neStar true a [] (xCore_star1 true a)).trans (xRange_inv1 a)

theorem star1Item_ok (a : Nat) : ItemOK (star1Item a) ∧ star1Item a ≠ ['*'] ∧ PyVCok (star1VC a) := by
  obtain ⟨c, cs, hc, hd⟩ := relChars_head a []
  refine ⟨⟨?_, ?_, ?_⟩, ?_, ?_⟩
  · exact noSep_append (noSep_rel _) (noSep_cons (sp (by simp)) (noSep_cons (sp (by simp)) (fun _ h => by cases h)))
  · exact ⟨c, cs ++ ['.', '*'], by simp [star1Item, hc], digit_startOK hd⟩
  · exact lastOK_star _
  · simp [star1Item, hc]
  · exact ok_both _ _ (pb _) (pb _) (lt_step1 a)

theorem neStar1Item_ok (a : Nat) :
    ItemOK ('!' :: '=' :: star1Item a) ∧ ('!' :: '=' :: star1Item a) ≠ ['*'] ∧ PyVCok (neStar1VC a) := by
  refine ⟨⟨?_, ?_, ?_⟩, ?_, ?_⟩
  · exact noSep_cons (sp (by simp)) (noSep_cons (sp (by simp)) (noSep_append (noSep_rel _)
      (noSep_cons (sp (by simp)) (noSep_cons (sp (by simp)) (fun _ h => by cases h)))))
  · exact ⟨'!', _, rfl, startOK_op (by simp)⟩
  · exact lastOK_star ('!' :: '=' :: relChars [a])
  · simp
  · exact ok_neStar _ _ (pb _) (pb _) (lt_step1 a)

theorem star1VC_allows (a X Y Z : Nat) : (star1VC a).allowsPlain (pyV X Y Z) = decide (X = a) := by
  apply bool_iff
  have hrel : ∀ l, (finalV l).release = l := fun _ => rfl
  simp only [star1VC, VC.allowsPlain, VC.flatten, List.any_cons, List.any_nil, Bool.or_false, RC.allows]
  rw [allows_both (finalV [a]) (finalV [a + 1]) true false (pb _) (pb _) X Y Z]
  simp only [hrel, pad3, if_true, ne_eq, lex3_gt, lex3_lt, Bool.false_eq_true, if_false, decide_eq_true_eq]
  omega

theorem neStar1VC_allows (a X Y Z : Nat) : (neStar1VC a).allowsPlain (pyV X Y Z) = !decide (X = a) := by
  rw [Bool.eq_iff_iff]
  have hrel : ∀ l, (finalV l).release = l := fun _ => rfl
  simp only [neStar1VC, VC.allowsPlain, VC.flatten, List.any_cons, List.any_nil, Bool.or_false, RC.allows,
    Bool.or_eq_true, allows_hi _ false (pb [a]), allows_lo _ true (pb [a + 1]), hrel, pad3, if_true,
    Bool.false_eq_true, if_false, ne_eq, lex3_gt, lex3_lt, Bool.not_eq_true', decide_eq_false_iff_not]
  omega

end Poetry

namespace Poetry.Marker
open Poetry Poetry.Spec Poetry.Spec.Pep508 Poetry.VParser Poetry.Version

/-- a version token of one, two or three components -/
inductive PTok where
  | one (a : Nat)
  | two (a b : Nat)
  | three (a b c : Nat)

def PTok.vtok : PTok → VTok
  | .one a => (a, [])
  | .two a b => (a, [b])
  | .three a b c => (a, [b, c])

/-- the clause a token contributes -/
def PTok.item (isIn : Bool) : PTok → String
  | .one a => String.ofList (if isIn then star1Item a else '!' :: '=' :: star1Item a)
  | .two a b => String.ofList (if isIn then starItem (a, b) else neStarItem (a, b))
  | .three a b c => (if isIn then "==" else "!=") ++ Version.relText [a, b, c]

theorem ptok_itemShape (isIn : Bool) (t : PTok) : ItemShape (t.item isIn) := by
  cases t with
  | one a =>
    cases isIn
    · exact ⟨by simpa [PTok.item] using (neStar1Item_ok a).1, by simpa [PTok.item] using (neStar1Item_ok a).2.1,
        _, by simpa [PTok.item] using parseSingle_neStar1 a, (neStar1Item_ok a).2.2⟩
    · exact ⟨by simpa [PTok.item] using (star1Item_ok a).1, by simpa [PTok.item] using (star1Item_ok a).2.1,
        _, by simpa [PTok.item] using parseSingle_star1 a, (star1Item_ok a).2.2⟩
  | two a b =>
    cases isIn
    · exact ⟨by simpa [PTok.item] using (neStarItem_ok (a, b)).1, by simpa [PTok.item] using (neStarItem_ok (a, b)).2.1,
        _, by simpa [PTok.item] using parseSingle_neStarItem (a, b), (neStarItem_ok (a, b)).2.2⟩
    · exact ⟨by simpa [PTok.item] using (starItem_ok (a, b)).1, by simpa [PTok.item] using (starItem_ok (a, b)).2.1,
        _, by simpa [PTok.item] using parseSingle_starItem (a, b), (starItem_ok (a, b)).2.2⟩
  | three a b c =>
    cases isIn
    · obtain ⟨item, h, hs⟩ := shape3_ne a b c
      rw [normPair3] at h
      cases h
      simpa [PTok.item] using hs
    · obtain ⟨item, h, hs⟩ := shape3_eq a b c
      rw [normPair3] at h
      cases h
      simpa [PTok.item] using hs

/-- the clause the constructor prints for a token -/
theorem versionListItem_ptok (isIn : Bool) (t : PTok) :
    (let split := splitDots t.vtok.chars
     if split.length == 1 || split.length == 2 then
       (if isIn then "" else "!=") ++ joinChars "." (split ++ [['*']])
     else (if isIn then "==" else "!=") ++ joinChars "." split) = t.item isIn := by
  cases t with
  | one a =>
    have h1 : (splitDots (Marker.relChars a [])).length = 1 := by rw [splitDots_relChars]; simp
    simp only [PTok.vtok, VTok.chars, h1]
    have hj : (joinChars "." (splitDots (Marker.relChars a []) ++ [['*']])).toList = star1Item a := by
      rw [splitDots_relChars]
      simp [joinChars, joinWith, star1Item, ← relChars_bridge, Marker.relChars, relTail]
    cases isIn
    · exact str_eq_of_toList (by simp [PTok.item, hj])
    · exact str_eq_of_toList (by simp [PTok.item, hj])
  | two a b =>
    have h2 : (splitDots (Marker.relChars a [b])).length = 2 := by rw [splitDots_relChars]; simp
    simp only [PTok.vtok, VTok.chars, h2]
    cases isIn
    · exact str_eq_of_toList (by
        simp only [PTok.item, Bool.false_eq_true, if_false, String.toList_ofList]
        rw [← neStarChars_eq]; exact versionListItem_two_ne (a, b))
    · exact str_eq_of_toList (by
        simp only [PTok.item, if_true, String.toList_ofList]
        rw [← starChars_eq]; exact versionListItem_two (a, b))
  | three a b c =>
    have hl : (splitDots (PTok.three a b c).vtok.chars).length = 3 := by
      rw [VTok.chars, splitDots_relChars]; simp [PTok.vtok]
    have h1 : ((splitDots (PTok.three a b c).vtok.chars).length == 1) = false := by rw [hl]; decide
    have h2 : ((splitDots (PTok.three a b c).vtok.chars).length == 2) = false := by rw [hl]; decide
    simp only [h1, h2, Bool.or_false, Bool.false_eq_true, if_false, joinChars_splitDots]
    rfl

/-- the list literal of a list of tokens -/
def pfvList (t0 : PTok) (rest : List (String × PTok)) : String :=
  verListN t0.vtok (rest.map fun q => (q.1, q.2.vtok))

theorem pfvList_seps {rest : List (String × PTok)} (hs : ∀ q ∈ rest, SepRun q.1) :
    ∀ q ∈ rest.map (fun q => (q.1, q.2.vtok)), SepRun q.1 := by
  intro q hq
  obtain ⟨r, hr, rfl⟩ := List.mem_map.1 hq
  exact hs r hr

theorem versionListItems_pfv (isIn : Bool) (t0 : PTok) (rest : List (String × PTok)) (hs : ∀ q ∈ rest, SepRun q.1) :
    versionListItems isIn (pfvList t0 rest) = (t0 :: rest.map (·.2)).map (PTok.item isIn) := by
  simp only [versionListItems, pfvList, verListN_split _ _ (pfvList_seps hs), List.map_map, List.map_cons]
  have := versionListItem_ptok isIn
  simp only at this
  rw [this t0]
  congr 1
  apply List.map_congr_left
  intro q _
  simp only [Function.comp]
  exact this q.2

/-- the constraint text of a list of tokens -/
def pfvListText (isIn : Bool) (t0 : PTok) (ts : List PTok) : String :=
  joinWith (if isIn then " || " else ", ") ((t0 :: ts).map (PTok.item isIn))

theorem versionListConstraint_pfv (isIn : Bool) (t0 : PTok) (rest : List (String × PTok))
    (hs : ∀ q ∈ rest, SepRun q.1) :
    versionListConstraint isIn (pfvList t0 rest) = pfvListText isIn t0 (rest.map (·.2)) := by
  simp [versionListConstraint, versionListItems_pfv isIn t0 rest hs, pfvListText]

/-- what the clause of a token denotes -/
def PTok.vc (isIn : Bool) : PTok → VC
  | .one a => if isIn then star1VC a else neStar1VC a
  | .two a b => if isIn then starVC (a, b) else neStarVC2 (a, b)
  | .three a b c =>
    if isIn then .single (.ver (finalV [a, b, c]))
    else .union [.rng ⟨none, some (finalV [a, b, c]), false, false⟩, .rng ⟨some (finalV [a, b, c]), none, false, false⟩]

/-- interpreter `X.Y.Z` is listed by the token: `a.b` lists every `a.b.*` (the wildcard reading), `a.b.c` lists
`a.b.c` only -/
def PTok.hit (X Y Z : Nat) : PTok → Bool
  | .one a => decide (X = a)
  | .two a b => decide (X = a ∧ Y = b)
  | .three a b c => decide (X = a ∧ Y = b ∧ Z = c)

theorem ptok_parse (isIn : Bool) (t : PTok) : parseSingle (t.item isIn).toList true = .ok (t.vc isIn) := by
  cases t with
  | one a =>
    cases isIn
    · simpa [PTok.item, PTok.vc] using parseSingle_neStar1 a
    · simpa [PTok.item, PTok.vc] using parseSingle_star1 a
  | two a b =>
    cases isIn
    · simpa [PTok.item, PTok.vc] using parseSingle_neStarItem (a, b)
    · simpa [PTok.item, PTok.vc] using parseSingle_starItem (a, b)
  | three a b c =>
    cases isIn
    · have := _root_.Poetry.parseSingle_ne true a [b, c] (xCore_none3 true a b c)
      simpa [PTok.item, PTok.vc, _root_.Poetry.relText_toList] using this
    · have := _root_.Poetry.parseSingle_eq true a [b, c] (xCore_none3 false a b c)
      simpa [PTok.item, PTok.vc, _root_.Poetry.relText_toList] using this

theorem ptok_item_ok (isIn : Bool) (t : PTok) :
    ItemOK (t.item isIn).toList ∧ (t.item isIn).toList ≠ ['*'] ∧
      parseSingle (t.item isIn).toList true = .ok (t.vc isIn) ∧ PyVCok (t.vc isIn) := by
  obtain ⟨h1, h2, vc, h3, h4⟩ := ptok_itemShape isIn t
  rw [ptok_parse] at h3
  cases h3
  exact ⟨h1, h2, ptok_parse isIn t, h4⟩

theorem ptok_vc_allows (isIn : Bool) (t : PTok) (X Y Z : Nat) :
    (t.vc isIn).allowsPlain (pyV X Y Z) = (if isIn then t.hit X Y Z else !t.hit X Y Z) := by
  have hrel : ∀ l, (finalV l).release = l := fun _ => rfl
  cases t with
  | one a =>
    cases isIn
    · simpa [PTok.vc, PTok.hit] using neStar1VC_allows a X Y Z
    · simpa [PTok.vc, PTok.hit] using star1VC_allows a X Y Z
  | two a b =>
    cases isIn
    · simpa [PTok.vc, PTok.hit] using neStarVC2_allows (a, b) X Y Z
    · simpa [PTok.vc, PTok.hit] using starVC_allows (a, b) X Y Z
  | three a b c =>
    cases isIn
    · rw [Bool.eq_iff_iff]
      simp only [PTok.vc, PTok.hit, Bool.false_eq_true, if_false, VC.allowsPlain, VC.flatten, List.any_cons,
        List.any_nil, Bool.or_false, RC.allows, Bool.or_eq_true, allows_hi _ false (pb [a, b, c]),
        allows_lo _ false (pb [a, b, c]), hrel, pad3, lex3_gt, lex3_lt, Bool.not_eq_true',
        decide_eq_false_iff_not]
      omega
    · apply bool_iff
      simp only [PTok.vc, PTok.hit, if_true, VC.allowsPlain, VC.flatten, List.any_cons, List.any_nil, Bool.or_false,
        RC.allows, ver_allows_py _ (pb [a, b, c]), hrel, pad3, lex3_eq, decide_eq_true_eq]
      omega

/-- the clauses of a list of tokens with what they denote -/
def ptokItems (isIn : Bool) (ts : List PTok) : List (List Char × VC) :=
  ts.map (fun t => ((t.item isIn).toList, t.vc isIn))

theorem ptokItems_ok (isIn : Bool) (ts : List PTok) : ∀ q ∈ ptokItems isIn ts,
    ItemOK q.1 ∧ q.1 ≠ ['*'] ∧ parseSingle q.1 true = .ok q.2 ∧ PyVCok q.2 := by
  intro q hq
  obtain ⟨t, _, rfl⟩ := List.mem_map.1 hq
  exact ptok_item_ok isIn t

/-- **the list text is read as a constraint of the regular setting over Python bounds, and it admits interpreter
`X.Y.Z` exactly when the list does (`in`) / does not (`not in`) list it** -/
theorem parse_pfvList_reg (isIn : Bool) (t0 : PTok) (ts : List PTok) :
    ∃ res B, parseMarkerVersionConstraint (pfvListText isIn t0 ts) = .ok res ∧ RegVC B res ∧
      (∀ e ∈ B, PyBound e = true) ∧
      ∀ X Y Z, res.allowsPlain (pyV X Y Z) =
        (if isIn then (t0 :: ts).any (PTok.hit X Y Z) else !(t0 :: ts).any (PTok.hit X Y Z)) := by
  have h2 := ptokItems_ok isIn (t0 :: ts)
  cases isIn
  · -- one group, clauses joined by `, `
    let g : GrpE := ⟨((t0.item false).toList, t0.vc false), (ptokItems false ts).map (fun r => (true, r))⟩
    have hgi : g.items = ptokItems false (t0 :: ts) := by
      simp [g, GrpE.items, List.map_map, Function.comp_def, ptokItems]
    have k3 : ∀ g' ∈ [g], ∀ q ∈ g'.items,
        ItemOK q.1 ∧ q.1 ≠ ['*'] ∧ parseSingle q.1 true = .ok q.2 ∧ PyVCok q.2 := by
      intro g' hg' q hq
      simp only [List.mem_singleton] at hg'
      subst hg'
      rw [hgi] at hq
      exact h2 q hq
    obtain ⟨hpb, hreg⟩ := groups_reg _ k3
    have htext : (pfvListText false t0 ts).toList = orJoin ([g].map GrpE.chars) := by
      simp only [pfvListText, Bool.false_eq_true, if_false, List.map_cons, List.map_nil, orJoin]
      rw [commaJoin_toList]
      simp [GrpE.chars, g, GrpE.seps, List.map_map, Function.comp_def, ptokItems]
    have call := fun X Y Z => parse_groupsE hpb X Y Z [g] (by simp) hreg
      (fun g' hg' q hq => (k3 g' hg' q hq).2.1) (pfvListText false t0 ts) htext
    obtain ⟨res, hres, hrr, _⟩ := call 0 0 0
    refine ⟨res, _, by simpa [parseMarkerVersionConstraint] using hres, hrr, hpb, ?_⟩
    intro X Y Z
    obtain ⟨res', hres', _, hm⟩ := call X Y Z
    rw [hres] at hres'
    cases hres'
    rw [hm]
    simp only [List.any_cons, List.any_nil, Bool.or_false, hgi, Bool.false_eq_true, if_false]
    have key : ∀ l : List PTok, ((ptokItems false l).all fun q => q.2.allowsPlain (pyV X Y Z)) =
        !l.any (PTok.hit X Y Z) := by
      intro l
      induction l with
      | nil => rfl
      | cons a as ih =>
        have := ptok_vc_allows false a X Y Z
        simp only [Bool.false_eq_true, if_false] at this
        simp only [ptokItems, List.map_cons, List.all_cons, List.any_cons, Bool.not_or] at ih ⊢
        rw [ih, this]
    have := key (t0 :: ts)
    simpa using this
  · -- one group per clause, joined by ` || `
    let gvs : List GrpE := (ptokItems true (t0 :: ts)).map (fun q => ⟨q, []⟩)
    have k3 : ∀ g' ∈ gvs, ∀ q ∈ g'.items,
        ItemOK q.1 ∧ q.1 ≠ ['*'] ∧ parseSingle q.1 true = .ok q.2 ∧ PyVCok q.2 := by
      intro g' hg' q hq
      obtain ⟨q', hq', rfl⟩ := List.mem_map.1 hg'
      simp only [GrpE.items, List.map_nil, List.mem_singleton] at hq
      subst hq
      exact h2 _ hq'
    obtain ⟨hpb, hreg⟩ := groups_reg _ k3
    have htext : (pfvListText true t0 ts).toList = orJoin (gvs.map GrpE.chars) := by
      simp only [pfvListText, if_true]
      rw [orJoin_toList]
      simp [gvs, ptokItems, List.map_map, Function.comp_def, GrpE.chars, GrpE.seps, cJoin]
    have call := fun X Y Z => parse_groupsE hpb X Y Z gvs (by simp [gvs, ptokItems]) hreg
      (fun g' hg' q hq => (k3 g' hg' q hq).2.1) (pfvListText true t0 ts) htext
    obtain ⟨res, hres, hrr, _⟩ := call 0 0 0
    refine ⟨res, _, by simpa [parseMarkerVersionConstraint] using hres, hrr, hpb, ?_⟩
    intro X Y Z
    obtain ⟨res', hres', _, hm⟩ := call X Y Z
    rw [hres] at hres'
    cases hres'
    rw [hm]
    simp only [gvs, ptokItems, List.any_map, Function.comp_def, GrpE.items, List.map_nil, List.all_cons,
      List.all_nil, Bool.and_true, if_true]
    congr 1
    funext t
    simpa using ptok_vc_allows true t X Y Z

/-- a `python_full_version` list leaf: what the constructor builds from `in` / `not in` and a list of two- or
three-component versions (`res` is the parse of the list text) -/
def PfvListLeaf (l : Leaf) : Prop :=
  ∃ isIn t0 rest res, (∀ q ∈ rest, SepRun q.1) ∧
    parseMarkerVersionConstraint (pfvListText isIn t0 (rest.map (·.2))) = .ok res ∧
    l = .single ⟨"python_full_version", listOp isIn, pfvList t0 rest, false, .ver res⟩

theorem mkSingle_pfvList (isIn : Bool) (t0 : PTok) (rest : List (String × PTok))
    (hs : ∀ q ∈ rest, SepRun q.1) {res : VC}
    (hres : parseMarkerVersionConstraint (pfvListText isIn t0 (rest.map (·.2))) = .ok res) :
    mkSingle "python_full_version" (listOp isIn ++ pfvList t0 rest) false =
      .ok ⟨"python_full_version", listOp isIn, pfvList t0 rest, false, .ver res⟩ := by
  have hvo := listLit_valueOk _ _ (verListN_ok t0.vtok _ (pfvList_seps hs))
  have hp := leafPrepare_list_ver "python_full_version" (by decide) (listOp isIn) isIn
    (by cases isIn <;> simp [listOp]) (pfvList t0 rest) hvo
  rw [versionListConstraint_pfv isIn t0 rest hs] at hp
  simp [mkSingle, hp, bind, Except.bind, parseByKind_ver _ _ hres, pure, Except.pure]

/-- the list leaves exist: the constructor builds them -/
theorem pfvListLeaf_built (isIn : Bool) (t0 : PTok) (rest : List (String × PTok))
    (hs : ∀ q ∈ rest, SepRun q.1) :
    ∃ s, mkSingle "python_full_version" (listOp isIn ++ pfvList t0 rest) false = .ok s ∧ PfvListLeaf (.single s) := by
  obtain ⟨res, B, hres, _⟩ := parse_pfvList_reg isIn t0 (rest.map (·.2))
  exact ⟨_, mkSingle_pfvList isIn t0 rest hs hres, isIn, t0, rest, res, hs, hres, rfl⟩

theorem pfvListLeaf_name {l : Leaf} (h : PfvListLeaf l) : l.name = "python_full_version" := by
  obtain ⟨_, _, _, _, _, _, rfl⟩ := h
  rfl

/-- a list leaf is a leaf of the regular fragment over any bound list that holds its bounds -/
theorem pfvListLeaf_verLeaf {l : Leaf} (h : PfvListLeaf l) :
    (∀ e ∈ pfvCBounds l, PyBound e = true) ∧
    ∀ B, (∀ e ∈ pfvCBounds l, e ∈ B) → VerLeaf B "python_full_version" l := by
  obtain ⟨isIn, t0, rest, res, hs, hres, rfl⟩ := h
  obtain ⟨res', B0, hres', hreg, hpb0, _⟩ := parse_pfvList_reg isIn t0 (rest.map (·.2))
  rw [hres] at hres'; cases hres'
  have hbd : ∀ e ∈ boundsOf res.flatten, e ∈ B0 := by
    intro e he
    simp only [boundsOf, List.mem_flatMap] at he
    obtain ⟨m, hm, hem⟩ := he
    exact (hreg.2 m hm).2.2.2 e hem
  refine ⟨fun e he => hpb0 e (hbd e (by simpa [pfvCBounds] using he)), ?_⟩
  intro B hB
  refine ⟨rfl, ?_, res, rfl, hreg.1, ?_⟩
  · simp only [Single.coherent, itemConstraintString, Bool.false_eq_true, if_false]
    rw [mkSingle_pfvList isIn t0 rest hs hres]
    simp
  · intro m hm
    refine ⟨(hreg.2 m hm).1, (hreg.2 m hm).2.1, (hreg.2 m hm).2.2.1, ?_⟩
    intro e he
    apply hB
    simp only [pfvCBounds, boundsOf, List.mem_flatMap]
    exact ⟨m, hm, he⟩

/-- **what a list leaf means**: on interpreter `X.Y.Z`, `python_full_version in "…"` holds exactly when a token lists
`X.Y.Z` — a two-component token `a.b` lists every `a.b.*`, a three-component token only itself — and `not in`
is the negation -/
theorem pfvListLeaf_means {E : Env} {X Y Z : Nat}
    (hX : E.get? "python_full_version" = some (Version.relText [X, Y, Z]))
    (isIn : Bool) (t0 : PTok) (rest : List (String × PTok)) (hs : ∀ q ∈ rest, SepRun q.1) {res : VC}
    (hres : parseMarkerVersionConstraint (pfvListText isIn t0 (rest.map (·.2))) = .ok res) :
    leafEval E (.single ⟨"python_full_version", listOp isIn, pfvList t0 rest, false, .ver res⟩) =
      (if isIn then (t0 :: rest.map (·.2)).any (PTok.hit X Y Z) else !(t0 :: rest.map (·.2)).any (PTok.hit X Y Z)) := by
  have hl : PfvListLeaf (.single ⟨"python_full_version", listOp isIn, pfvList t0 rest, false, .ver res⟩) :=
    ⟨isIn, t0, rest, res, hs, hres, rfl⟩
  obtain ⟨hpy, hv⟩ := pfvListLeaf_verLeaf hl
  obtain ⟨hn, _, vc, hvc, hw, hm⟩ := hv _ (fun e he => he)
  cases hvc
  obtain ⟨res', B0, hres', _, _, hmean⟩ := parse_pfvList_reg isIn t0 (rest.map (·.2))
  rw [hres] at hres'; cases hres'
  have := verLeaf_eval (regB_of_pyBound _ hpy) (verEnv_final hpy X [Y, Z] hX) (by decide) hn rfl hw hm
  simp only [leafEval, this]
  rw [← hmean X Y Z]
  rfl

/-! ### comparison, `~=` and list leaves on `python_full_version` -/

def PfvLeafL (l : Leaf) : Prop := Pfv3LeafC l ∨ PfvListLeaf l

theorem pfvLeafL_name {l : Leaf} (h : PfvLeafL l) : l.name = "python_full_version" := by
  rcases h with h | h
  · exact pfv3LeafC_name h
  · exact pfvListLeaf_name h

theorem pfvLeafL_py {l : Leaf} (h : PfvLeafL l) : ∀ e ∈ pfvCBounds l, PyBound e = true := by
  rcases h with h | h
  · intro e he
    obtain ⟨a, b, c, rfl⟩ := pfv3LeafC_bounds3 h e he
    exact pb [a, b, c]
  · exact (pfvListLeaf_verLeaf h).1

theorem pfvLeafL_verLeaf {l : Leaf} (h : PfvLeafL l) {B : List Version} (hB : ∀ e ∈ pfvCBounds l, e ∈ B) :
    VerLeaf B "python_full_version" l := by
  rcases h with h | h
  · exact pfv3LeafC_verLeaf h hB
  · exact (pfvListLeaf_verLeaf h).2 B hB

/-- the padded form of a bound -/
def padV (e : Version) : Version := litV (e.release.headD 0) (padR e.release.tail)

/-- a bound list with the padded forms of its bounds -/
def padClose (L : List Version) : List Version := L ++ L.map padV

theorem padR_idem (r : List Nat) : padR (padR r) = padR r := by
  apply padR_long
  simp only [padR, List.length_append, List.length_replicate]
  omega

theorem padV_lit (x : Nat) (r : List Nat) : padV (litV x r) = litV x (padR r) := rfl

theorem padClose_sub (L : List Version) : ∀ e ∈ L, e ∈ padClose L := fun e he => List.mem_append_left _ he

theorem padClose_py {L : List Version} (h : ∀ e ∈ L, PyBound e = true) : ∀ e ∈ padClose L, PyBound e = true := by
  intro e he
  rcases List.mem_append.1 he with he | he
  · exact h e he
  · obtain ⟨e', he', rfl⟩ := List.mem_map.1 he
    obtain ⟨x, r, hr, rfl⟩ := pyBound_lit (h e' he')
    rw [padV_lit]
    exact pb_pad x hr

theorem padClose_pad {L : List Version} (h : ∀ e ∈ L, PyBound e = true) :
    ∀ x r, litV x r ∈ padClose L → litV x (padR r) ∈ padClose L := by
  intro x r he
  rcases List.mem_append.1 he with he | he
  · exact List.mem_append_right _ (List.mem_map.2 ⟨_, he, padV_lit x r⟩)
  · obtain ⟨e', he', hee⟩ := List.mem_map.1 he
    obtain ⟨x', r', _, rfl⟩ := pyBound_lit (h e' he')
    rw [padV_lit] at hee
    have hrel : x' :: padR r' = x :: r := congrArg Version.release hee
    simp only [List.cons.injEq] at hrel
    obtain ⟨rfl, rfl⟩ := hrel
    rw [padR_idem]
    exact List.mem_append_right _ he

theorem pfvLeafL_merge {E : Env} {X : Nat} {R : List Nat}
    (hX : E.get? "python_full_version" = some (Version.relText (X :: R)))
    (l1 l2 : Leaf) (im : Bool) (r : M) (h1 : PfvLeafL l1) (h2 : PfvLeafL l2)
    (h : mergeLeaves l1 l2 im = .ok (some r)) :
    M.Good PfvLeafL r ∧
      M.sem (leafEval E) r = (if im then (leafEval E l1 && leafEval E l2) else (leafEval E l1 || leafEval E l2)) := by
  have hpy : ∀ e ∈ pfvCBounds l1 ++ pfvCBounds l2, PyBound e = true := by
    intro e he
    rcases List.mem_append.1 he with he | he
    · exact pfvLeafL_py h1 e he
    · exact pfvLeafL_py h2 e he
  obtain ⟨_, hsem, hout⟩ := verLeaf_merge_text (padClose_py hpy) (padClose_pad hpy) hX 2 _ _ im r
    (pfvLeafL_verLeaf h1 (fun e he => padClose_sub _ e (List.mem_append_left _ he)))
    (pfvLeafL_verLeaf h2 (fun e he => padClose_sub _ e (List.mem_append_right _ he))) h
  refine ⟨?_, hsem⟩
  rcases hout with rfl | rfl | rfl | rfl | ⟨s, rfl, hs⟩
  · exact M.good_empty
  · exact M.good_any
  · exact (M.good_leaf _).2 h1
  · exact (M.good_leaf _).2 h2
  · exact (M.good_leaf _).2 (Or.inl (Or.inl hs))

/-- every leaf of the fragment is what the constructor builds from its own text -/
theorem pfvLeafL_self {l : Leaf} (h : PfvLeafL l) : ∃ s, l = .single s ∧
    mkSingle s.name (itemConstraintString s.op s.value s.swapped) s.swapped = .ok s := by
  rcases h with (⟨sop, ops, a, b, c, hm, rfl⟩ | ⟨a, b, c, rfl⟩) | ⟨isIn, t0, rest, res, hs, hres, rfl⟩
  · exact ⟨_, rfl, by
      have := mkSingle_pfvLeaf hm a [b, c]
      simpa [pfvLeafOf, itemConstraintString, padR] using this⟩
  · exact ⟨_, rfl, by simpa [pfvCompatOf, itemConstraintString] using mkSingle_pfvCompat a b c⟩
  · exact ⟨_, rfl, by simpa [itemConstraintString] using mkSingle_pfvList isIn t0 rest hs hres⟩

/-- **`LeafSpec` on same-name `python_full_version` leaves: comparison operators, `~=`, and `in` / `not in` lists
of two- and three-component versions** -/
theorem leafSpec_pfvL {E : Env} {X : Nat} {R : List Nat}
    (hX : E.get? "python_full_version" = some (Version.relText (X :: R))) : LeafSpec (leafEval E) PfvLeafL where
  congr := by
    intro a b ha hb h
    obtain ⟨sa, rfl, ma⟩ := pfvLeafL_self ha
    obtain ⟨sb, rfl, mb⟩ := pfvLeafL_self hb
    simp only [Leaf.beq, Bool.and_eq_true, beq_iff_eq] at h
    obtain ⟨⟨⟨h1, h2⟩, h3⟩, h4⟩ := h
    rw [h1, h2, h3, h4, mb] at ma
    rw [Except.ok.inj ma]
  merge := fun l1 l2 im r h1 h2 h => pfvLeafL_merge hX l1 l2 im r h1 h2 h

theorem pfvLeafL_evaluable {E : Env} {X : Nat} {R : List Nat}
    (hX : E.get? "python_full_version" = some (Version.relText (X :: R))) {l : Leaf} (h : PfvLeafL l) :
    ∃ b, l.validate E = .ok b := by
  have hpy := pfvLeafL_py h
  exact verLeaf_evaluable (regB_of_pyBound _ hpy) (verEnv_final hpy X R hX) (by decide)
    (pfvLeafL_verLeaf h (fun e he => he))

end Poetry.Marker
