/- Which named hypotheses of `C09.wheel_from_sdist_eq_of_hypotheses` follow from the selection model, and the decidable
conditions on the configuration that imply the others (no relocated package, no wheel rule reaches PKG-INFO). -/
import PoetryVerif.Proofs.SelectUnpack

set_option linter.unusedSimpArgs false
set_option linter.unusedVariables false

namespace Poetry.Select
open Poetry

/-- `packages` lists a package for the wheel: the package list does not depend on the tree -/
theorem modulePackages_explicit {X T : Tree} {cfg : Cfg}
    (h : (cfg.packages.filter (fun p => p.formats.contains Fmt.wheel.name)).isEmpty = false) :
    modulePackages .wheel X cfg = modulePackages .wheel T cfg := by
  unfold modulePackages; simp only [h]; rfl

theorem mkSel_plain {fmt : Fmt} {o : IncObj} (c : Entry) (hs : o.source = none) (ht : o.target = none) :
    mkSel fmt o c = ⟨c.path, c.path, c.isDir⟩ := by
  unfold mkSel
  cases o.isPackage <;> cases fmt <;> simp [hs, ht, stripBase_nil]

/-- without relocated packages every offer is `source ↦ same path`, so archive names are functional -/
theorem arc_functional_of_plain {fmt : Fmt} {X : Tree} {cfg : Cfg} {ig : List String} {L : List Sel}
    (h : offers fmt X cfg ig = .ok L)
    (hp : ∀ pkgs, modulePackages fmt X cfg = .ok pkgs → plainPkgs pkgs = true) :
    ∀ a ∈ L, ∀ b ∈ L, a.src = b.src → a = b := by
  obtain ⟨pobjs, iobjs, excl, pkgs, _, _, hpk, hiff⟩ := mem_offers h
  have hpl := hp pkgs hpk
  have shape : ∀ t ∈ L, t = ⟨t.src, t.src, false⟩ := by
    intro t ht
    rcases (hiff t).mp ht with ⟨spec, hs, o, pat, hmk, _, c, hy, rfl⟩ | ⟨spec, _, _, o, pat, hmk, _, c, hy, rfl⟩
    · obtain ⟨_, _, hso, hta⟩ := mkPackage_fields hmk
      have hsp := List.all_eq_true.mp hpl spec hs
      simp only [Bool.and_eq_true, Option.isNone_iff_eq_none] at hsp
      rw [hsp.1] at hso; rw [hsp.2] at hta
      obtain ⟨g, _, _, hcf, _⟩ := hy
      rw [mkSel_plain c hso hta, hcf]
    · obtain ⟨_, _, hso, hta⟩ := mkInclude_eq hmk
      obtain ⟨g, _, _, hcf, _⟩ := hy
      rw [mkSel_plain c hso hta, hcf]
  intro a ha b hb e
  rw [shape a ha, shape b hb, e]


/-- one package rule and nothing else: every file is offered once, relocated or not -/
theorem arc_functional_of_single {fmt : Fmt} {X : Tree} (wf : TreeWF X) {cfg : Cfg} {ig : List String} {L : List Sel}
    (h : offers fmt X cfg ig = .ok L)
    (hp : ∀ pkgs, modulePackages fmt X cfg = .ok pkgs →
      pkgs.length ≤ 1 ∧ ∀ i ∈ cfg.includes, fmt.name ∉ i.formats) :
    ∀ a ∈ L, ∀ b ∈ L, a.src = b.src → a = b := by
  obtain ⟨pobjs, iobjs, excl, pkgs, _, _, hpk, hiff⟩ := mem_offers h
  obtain ⟨hlen, hinc⟩ := hp pkgs hpk
  intro a ha b hb e
  rcases (hiff a).mp ha with ⟨sa, hsa, oa, _, hmka, _, ca, hya, rfl⟩ | ⟨i, hi, hf, _⟩
  · rcases (hiff b).mp hb with ⟨sb, hsb, ob, _, hmkb, _, cb, hyb, rfl⟩ | ⟨i, hi, hf, _⟩
    · have hss : sa = sb := by
        match pkgs, hlen, hsa, hsb with
        | [x], _, h1, h2 =>
          simp only [List.mem_singleton] at h1 h2; rw [h1, h2]
      subst hss
      rw [hmka] at hmkb; cases hmkb
      obtain ⟨_, _, hca, _⟩ := hya
      obtain ⟨_, _, hcb, _⟩ := hyb
      have : ca = cb := wf.nodup ca hca cb hcb e
      rw [this]
    · exact absurd hf (hinc i hi)
  · exact absurd hf (hinc i hi)

theorem yields_not_pkgInfo {X : Tree} {excl : List String} {isPkg : Bool} {base : Path} {pat : Pattern} {c : Entry}
    (hy : Yields X excl isPkg base pat c) (hav : avoidsPkgInfo base pat = true) : c.path ≠ [Gen.sdistPkgInfoName] := by
  intro hc
  unfold avoidsPkgInfo at hav
  simp only [Bool.and_eq_true] at hav
  obtain ⟨h1, h2⟩ := hav
  obtain ⟨g, hg, _, hcf, _, hor⟩ := hy
  obtain ⟨_, _, rel, hrel, hm⟩ := mem_globFrom_iff.mp hg
  rcases hor with ⟨rfl, _⟩ | ⟨hgd, hdesc, _⟩
  · rw [hc] at hrel; rw [hrel] at h1; rw [hcf] at hm; simp [hm] at h1
  · obtain ⟨_, r, hr, hp⟩ := mem_descendants_iff.mp hdesc
    rw [hc] at hp
    have hg0 : g.path = [] := by
      cases hgp : g.path with
      | nil => rfl
      | cons x xs =>
        rw [hgp] at hp
        cases r with
        | nil => exact absurd rfl hr
        | cons y ys =>
          have := congrArg List.length hp
          simp at this
    rw [hg0] at hrel
    have hb := stripBase_eq_some.mp hrel
    have hbase : base = [] := by
      cases base with
      | nil => rfl
      | cons _ _ => simp at hb
    subst hbase
    have : rel = [] := by simpa using hb.symm
    subst this
    rw [hgd] at hm
    simp [hm] at h2

theorem offers_not_pkgInfo {X : Tree} {cfg : Cfg} {ig : List String} {L : List Sel}
    (h : offers .wheel X cfg ig = .ok L)
    (hp : ∀ pkgs, modulePackages .wheel X cfg = .ok pkgs → pkgInfoUnreached pkgs cfg = true) :
    ∀ t ∈ L, t.src ≠ [Gen.sdistPkgInfoName] := by
  obtain ⟨pobjs, iobjs, excl, pkgs, _, _, hpk, hiff⟩ := mem_offers h
  have hu := hp pkgs hpk
  unfold pkgInfoUnreached at hu
  simp only [Bool.and_eq_true, List.all_eq_true] at hu
  intro t ht
  rcases (hiff t).mp ht with ⟨spec, hs, o, pat, _, hpat, c, hy, rfl⟩ | ⟨spec, hs, hf, o, pat, _, hpat, c, hy, rfl⟩
  · have := hu.1 spec hs
    unfold specAvoidsPkgInfo at this; rw [hpat] at this
    exact yields_not_pkgInfo hy this
  · have hmem : spec ∈ cfg.includes.filter fun i => i.formats.contains Fmt.wheel.name := by
      rw [List.mem_filter]; exact ⟨hs, by simpa using hf⟩
    have := hu.2 spec hmem
    unfold specAvoidsPkgInfo at this; rw [hpat] at this
    exact yields_not_pkgInfo hy this

end Poetry.Select
