/-
Two shapes named for the harness (C11 / C17): the union `<X.Y || >X.Y` is printed with a `python_full_version`
item, not as `python_version != "X.Y"`; the text back-conversion keeps two-digit components.
-/
import PoetryVerif.Proofs.PyConvNestedBoundary

set_option linter.unusedSimpArgs false
set_option linter.unusedVariables false

namespace Poetry.Marker
open Poetry Poetry.Spec.Pep508

/-- the two ranges meeting at `X.Y` without it: `<X.Y || >X.Y` -/
def meetingVC (X Y : Nat) : VC :=
  .union [.rng ⟨none, some (finalV [X, Y]), false, false⟩, .rng ⟨some (finalV [X, Y]), none, false, false⟩]

/-- the text `create_nested_marker` prints for it -/
def meetingText (X Y : Nat) : String :=
  "(" ++ ("python_version" ++ " " ++ "<" ++ " \"" ++ Version.relText [X, Y] ++ "\"") ++ ")" ++ " or " ++
    ("(" ++ ("python_full_version > \"" ++ Version.relText [X, Y, 0] ++ "\"") ++ ")")

theorem createNested_meetingText (X Y : Nat) :
    createNestedMarker "python_version" (meetingVC X Y) = .ok (meetingText X Y) := by
  have hany : (meetingVC X Y).isAny = false := rfl
  have hp : (finalV [X, Y]).precision = 2 := rfl
  have ht : (finalV [X, Y]).text = Version.relText [X, Y] := rfl
  unfold createNestedMarker
  rw [hany]
  simp only [Bool.false_eq_true, if_false, meetingVC, meetingText]
  simp [joinWith, RC.isAny, VRange.isAny, nestedRC_rng, nestedLo, nestedHi, hp, ht, ← relText_pad2,
    String.append_assoc]

theorem meetingVC_domain (X Y : Nat) : nestedDomain (meetingVC X Y) = true := by
  simp [nestedDomain, meetingVC, PyDomVC, PyDom, PyRange, prec2B, VC.flatten, RC.bounds, RC.view, VRange.bounds,
    RC.min, RC.max, VRange.isAny, finalV, PyBound]

theorem meetingVC_allows (X Y Z : Nat) : (meetingVC X Y).allowsPlain (pyV X Y Z) = decide (0 < Z) := by
  rw [Bool.eq_iff_iff]
  simp only [meetingVC, VC.allowsPlain, VC.flatten, List.any_cons, List.any_nil, Bool.or_false, RC.allows,
    Bool.or_eq_true, allows_hi _ false (pb [X, Y]), allows_lo _ false (pb [X, Y]), Bool.false_eq_true, if_false,
    decide_eq_true_eq]
  simp only [finalV, pad3, lex3_lt]
  simp

theorem meetingText_ne (X Y : Nat) (t : String) (ht : t.toList.head? = some 'p') : meetingText X Y ≠ t := by
  intro e
  have := congrArg (fun s => s.toList.head?) e
  simp only [meetingText, String.toList_append] at this
  rw [ht] at this
  simp at this

/-- **`<X.Y || >X.Y` through `create_nested_marker`, `parse_marker`, `validate`**: the marker read back holds on
`X.Y.Z` exactly when `Z > 0` -/
theorem meeting_validate {E : Env} {X Y Z : Nat} (hE : EnvPy E X Y Z) (m : M)
    (hm : parseMarker (meetingText X Y) = .ok m) : M.validate E m = .ok (decide (0 < Z)) := by
  rw [(createNested_domain hE (meetingVC X Y) (meetingVC_domain X Y) _ m (createNested_meetingText X Y) hm).2,
    meetingVC_allows]

/-- the back-conversion of `python_full_version >= "a.b.0"` / `< "a.b.0"` drops exactly the last component -/
theorem pyRewrite_dropZero {sop : Spec.SOp} {ops : String} (h : (sop, ops) ∈ pvOps) (hlg : ops = "<" ∨ ops = ">=")
    (a b : Nat) (cst : LeafC) :
    pyRewrite ⟨"python_full_version", ops, Version.relText [a, b, 0], false, cst⟩ =
      leafText "python_version" ops (Version.relText [a, b]) false := by
  rw [pyRewrite_pfv3 h a b 0 cst, if_pos]
  rcases hlg with rfl | rfl <;> decide

/-- … and leaves a non-zero last component alone -/
theorem pyRewrite_keep {sop : Spec.SOp} {ops : String} (h : (sop, ops) ∈ pvOps) (a b c : Nat) (hc : c ≠ 0)
    (cst : LeafC) :
    pyRewrite ⟨"python_full_version", ops, Version.relText [a, b, c], false, cst⟩ =
      leafText "python_full_version" ops (Version.relText [a, b, c]) false := by
  rw [pyRewrite_pfv3 h a b c cst, if_neg]
  simp [hc]

end Poetry.Marker
