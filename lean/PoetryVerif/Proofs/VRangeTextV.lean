/-
Text level of the constraint round trip (helper lemmas for C15): the normal-form text `PEP440Version.to_string`
writes — epoch, release, pre/post/dev tags, local label — is consumed entirely by `VERSION_PATTERN` and gives
the same fields back, for ALL numbers and labels (symbolic evaluation of the recogniser); hence `TextOK` for every
version built by the bump functions (`Version.mk'`).
-/
import PoetryVerif.Proofs.VRangeTextC

set_option linter.unusedSimpArgs false
set_option linter.unusedVariables false
set_option linter.unnecessarySeqFocus false

namespace Poetry
open Poetry.Marker
open Version

/-! ### the characters of a normal-form text -/

/-- digits, lower-case letters, `.`, `!`, `+` -/
def nchar (c : Char) : Bool := isDigit c || isLowerAlpha c || c == '.' || c == '!' || c == '+'

theorem nchar_vchar (c : Char) (h : nchar c = true) : vchar c = true := by
  simp only [nchar, Bool.or_eq_true] at h
  simp only [vchar, Bool.or_eq_true]
  rcases h with (((h | h) | h) | h) | h <;> simp [h]

theorem nchar_toNat (c : Char) (h : nchar c = true) :
    (48 ≤ c.toNat ∧ c.toNat ≤ 57) ∨ (97 ≤ c.toNat ∧ c.toNat ≤ 122) ∨ c.toNat = 46 ∨ c.toNat = 33 ∨ c.toNat = 43 := by
  simp only [nchar, isDigit, isLowerAlpha, Bool.or_eq_true, Bool.and_eq_true, decide_eq_true_eq, char_le_iff,
    beq_iff_eq] at h
  rcases h with (((h | h) | h) | h) | h
  · exact Or.inl h
  · exact Or.inr (Or.inl h)
  · subst h; decide
  · subst h; decide
  · subst h; decide

theorem nchar_lower (c : Char) (h : nchar c = true) : lowerChar c = c :=
  lowerChar_of_not_upper c (by have := nchar_toNat c h; omega)

theorem nchar_ne_dash (c : Char) (h : nchar c = true) : c ≠ '-' := by
  intro e; subst e; revert h; decide

theorem map_lower_nchar (l : List Char) (h : ∀ c ∈ l, nchar c = true) : l.map lowerChar = l := by
  induction l with
  | nil => rfl
  | cons c cs ih =>
    simp only [List.map_cons, nchar_lower c (h c (by simp)), ih (fun d hd => h d (List.mem_cons_of_mem _ hd))]

theorem digit_nchar (c : Char) (h : isDigit c = true) : nchar c = true := by simp [nchar, h]

theorem dg_nchar (n : Nat) : ∀ c ∈ dg n, nchar c = true := fun c hc => digit_nchar c (dg_isDigit n c hc)

/-- `N!` when the epoch is not zero -/
def epochChars (e : Nat) : List Char := if e != 0 then dg e ++ ['!'] else []

/-- `a1`, `rc2`, `post3`, `dev4` -/
def tagChars (t : Tag) : List Char := t.phase.str.toList ++ dg t.num

def preChars : Option Tag → List Char
  | none => []
  | some t => tagChars t

def dotTagChars : Option Tag → List Char
  | none => []
  | some t => '.' :: tagChars t

def locChars : Option (List String) → List Char
  | some (p :: ps) => '+' :: joinC ['.'] ((p :: ps).map String.toList)
  | _ => []

/-- the characters `to_string` writes (before its lower-casing) -/
def bodyChars (e x : Nat) (r : List Nat) (pre post dev : Option Tag) (loc : Option (List String)) : List Char :=
  epochChars e ++ (relChars x r ++ (preChars pre ++ (dotTagChars post ++ (dotTagChars dev ++ locChars loc))))

theorem joinWith_dot_strings : ∀ (p : String) (ps : List String),
    (joinWith "." (p :: ps)).toList = joinC ['.'] ((p :: ps).map String.toList)
  | p, [] => rfl
  | p, q :: qs => by
    have ih := joinWith_dot_strings q qs
    simp only [joinWith, String.toList_append, ih, List.map_cons, joinC]
    simp

theorem toStr_toList (e x : Nat) (r : List Nat) (pre post dev : Option Tag) (loc : Option (List String)) :
    (Version.toStr e (x :: r) pre post dev loc).toList = (bodyChars e x r pre post dev loc).map lowerChar := by
  unfold Version.toStr
  simp only [String.toList_ofList]
  congr 1
  rcases loc with _ | _ | ⟨p, ps⟩ <;> cases pre <;> cases post <;> cases dev <;> by_cases he : e = 0 <;>
    simp [bodyChars, epochChars, preChars, dotTagChars, tagChars, Tag.toString, relText_toList, he, dg, natToString,
      locChars, joinWith_dot_strings]

/-! ### the sub-recognisers on the tails that can follow a component -/

theorem parsePre_nil : parsePre [] = (none, []) := by decide
theorem parsePre_plus (cs : List Char) : parsePre ('+' :: cs) = (none, '+' :: cs) := by
  simp [parsePre, parseLabelled, labelled?, optSep, isSep, stripWord?, preWords, stripPrefix?]
theorem parsePre_post (cs : List Char) :
    parsePre ('.' :: 'p' :: 'o' :: 's' :: 't' :: cs) = (none, '.' :: 'p' :: 'o' :: 's' :: 't' :: cs) := by
  simp [parsePre, parseLabelled, labelled?, optSep, isSep, stripWord?, preWords, stripPrefix?]
theorem parsePre_dev (cs : List Char) :
    parsePre ('.' :: 'd' :: 'e' :: 'v' :: cs) = (none, '.' :: 'd' :: 'e' :: 'v' :: cs) := by
  simp [parsePre, parseLabelled, labelled?, optSep, isSep, stripWord?, preWords, stripPrefix?]

theorem parsePost_nil : parsePost [] = (none, []) := by decide
theorem parsePost_plus (cs : List Char) : parsePost ('+' :: cs) = (none, '+' :: cs) := by
  simp [parsePost, parsePostAlt1, parseLabelled, labelled?, optSep, isSep, stripWord?, postWords, stripPrefix?]
theorem parsePost_dev (cs : List Char) :
    parsePost ('.' :: 'd' :: 'e' :: 'v' :: cs) = (none, '.' :: 'd' :: 'e' :: 'v' :: cs) := by
  simp [parsePost, parsePostAlt1, parseLabelled, labelled?, optSep, isSep, stripWord?, postWords, stripPrefix?]

theorem parseDev_nil : parseDev [] = (none, []) := by decide
theorem parseDev_plus (cs : List Char) : parseDev ('+' :: cs) = (none, '+' :: cs) := by
  simp [parseDev, parseLabelled, labelled?, optSep, isSep, stripWord?, devWords, stripPrefix?]

theorem parseLocal_nil : parseLocal [] = (none, []) := by decide

/-- what may follow the local label: nothing -/
def TailL (τ : List Char) : Prop := τ = [] ∨ ∃ cs, τ = '+' :: cs
/-- what may follow the dev tag -/
def TailD (τ : List Char) : Prop := TailL τ ∨ ∃ cs, τ = '.' :: 'd' :: 'e' :: 'v' :: cs
/-- what may follow the pre tag -/
def TailP (τ : List Char) : Prop := TailD τ ∨ ∃ cs, τ = '.' :: 'p' :: 'o' :: 's' :: 't' :: cs

theorem parseDev_none_of {τ : List Char} (h : TailL τ) : parseDev τ = (none, τ) := by
  rcases h with rfl | ⟨cs, rfl⟩
  · exact parseDev_nil
  · exact parseDev_plus cs

theorem parsePost_none_of {τ : List Char} (h : TailD τ) : parsePost τ = (none, τ) := by
  rcases h with (rfl | ⟨cs, rfl⟩) | ⟨cs, rfl⟩
  · exact parsePost_nil
  · exact parsePost_plus cs
  · exact parsePost_dev cs

theorem parsePre_none_of {τ : List Char} (h : TailP τ) : parsePre τ = (none, τ) := by
  rcases h with ((rfl | ⟨cs, rfl⟩) | ⟨cs, rfl⟩) | ⟨cs, rfl⟩
  · exact parsePre_nil
  · exact parsePre_plus cs
  · exact parsePre_dev cs
  · exact parsePre_post cs

theorem TailP.head {τ : List Char} (h : TailP τ) : ∀ c, τ.head? = some c → isDigit c = false := by
  intro c hc
  rcases h with ((rfl | ⟨cs, rfl⟩) | ⟨cs, rfl⟩) | ⟨cs, rfl⟩ <;> simp at hc <;> subst hc <;> decide

/-! ### a tag: word and number -/

theorem dg_cons (n : Nat) : ∃ d ds, dg n = d :: ds ∧ isDigit d = true := by
  cases h : dg n with
  | nil => exact absurd h (dg_ne_nil n)
  | cons d ds => exact ⟨d, ds, rfl, dg_isDigit n d (by simp [h])⟩

theorem digit_not_sep (d : Char) (h : isDigit d = true) : isSep d = false := by
  have h1 := digit_ne d '-' h (by decide)
  have h2 := digit_ne d '_' h (by decide)
  have h3 := digit_ne d '.' h (by decide)
  simp [isSep, h1, h2, h3]

/-- the number of a tag, followed by something that is not a digit -/
theorem number_tail (n : Nat) (τ : List Char) (hτ : ∀ c, τ.head? = some c → isDigit c = false) :
    optSep (dg n ++ τ) = dg n ++ τ ∧ takeDigits (dg n ++ τ) = (dg n, τ) := by
  obtain ⟨d, ds, hd, hdig⟩ := dg_cons n
  refine ⟨?_, takeDigits_append (dg n) τ (dg_isDigit n) hτ⟩
  rw [hd]; simp [optSep, digit_not_sep d hdig]

theorem parsePre_tag (t : Tag) (ht : t.isPre = true) (τ : List Char)
    (hτ : ∀ c, τ.head? = some c → isDigit c = false) : parsePre (tagChars t ++ τ) = (some t, τ) := by
  obtain ⟨ph, n⟩ := t
  obtain ⟨h1, h2⟩ := number_tail n τ hτ
  obtain ⟨d, ds, hd, hdig⟩ := dg_cons n
  have hl : ('l' == d) = false := by simpa using (digit_ne d 'l' hdig (by decide)).symm
  have he : ('e' == d) = false := by simpa using (digit_ne d 'e' hdig (by decide)).symm
  cases ph with
  | a =>
    have e : tagChars ⟨.a, n⟩ ++ τ = 'a' :: (dg n ++ τ) := by simp [tagChars, Phase.str, Gen.phaseIdAlpha]
    rw [e]
    have sw : stripWord? preWords ('a' :: (dg n ++ τ)) = some ("a", dg n ++ τ) := by
      rw [hd]; simp [stripWord?, preWords, stripPrefix?, hl]
    simp only [parsePre, parseLabelled, labelled?, show optSep ('a' :: (dg n ++ τ)) = 'a' :: (dg n ++ τ) from by
      simp [optSep, isSep], sw, h1, h2, digitsToNat_dg]
    rfl
  | b =>
    have e : tagChars ⟨.b, n⟩ ++ τ = 'b' :: (dg n ++ τ) := by simp [tagChars, Phase.str, Gen.phaseIdBeta]
    rw [e]
    have sw : stripWord? preWords ('b' :: (dg n ++ τ)) = some ("b", dg n ++ τ) := by
      rw [hd]; simp [stripWord?, preWords, stripPrefix?, he]
    simp only [parsePre, parseLabelled, labelled?, show optSep ('b' :: (dg n ++ τ)) = 'b' :: (dg n ++ τ) from by
      simp [optSep, isSep], sw, h1, h2, digitsToNat_dg]
    rfl
  | rc =>
    have e : tagChars ⟨.rc, n⟩ ++ τ = 'r' :: 'c' :: (dg n ++ τ) := by simp [tagChars, Phase.str, Gen.phaseIdRc]
    rw [e]
    have sw : stripWord? preWords ('r' :: 'c' :: (dg n ++ τ)) = some ("rc", dg n ++ τ) := by
      simp [stripWord?, preWords, stripPrefix?]
    simp only [parsePre, parseLabelled, labelled?, show optSep ('r' :: 'c' :: (dg n ++ τ)) = 'r' :: 'c' :: (dg n ++ τ)
      from by simp [optSep, isSep], sw, h1, h2, digitsToNat_dg]
    rfl
  | post => simp [Tag.isPre] at ht
  | dev => simp [Tag.isPre] at ht

theorem parsePost_tag (n : Nat) (τ : List Char) (hτ : ∀ c, τ.head? = some c → isDigit c = false) :
    parsePost ('.' :: (tagChars ⟨.post, n⟩ ++ τ)) = (some ⟨.post, n⟩, τ) := by
  obtain ⟨h1, h2⟩ := number_tail n τ hτ
  have e : '.' :: (tagChars ⟨.post, n⟩ ++ τ) = '.' :: 'p' :: 'o' :: 's' :: 't' :: (dg n ++ τ) := by
    simp [tagChars, Phase.str, Gen.phaseIdPost]
  rw [e]
  have sw : stripWord? postWords ('p' :: 'o' :: 's' :: 't' :: (dg n ++ τ)) = some ("post", dg n ++ τ) := by
    simp [stripWord?, postWords, stripPrefix?]
  simp only [parsePost, parsePostAlt1, parseLabelled, labelled?,
    show optSep ('.' :: 'p' :: 'o' :: 's' :: 't' :: (dg n ++ τ)) = 'p' :: 'o' :: 's' :: 't' :: (dg n ++ τ) from by
      simp [optSep, isSep], sw, h1, h2, digitsToNat_dg]
  rfl

theorem parseDev_tag (n : Nat) (τ : List Char) (hτ : ∀ c, τ.head? = some c → isDigit c = false) :
    parseDev ('.' :: (tagChars ⟨.dev, n⟩ ++ τ)) = (some ⟨.dev, n⟩, τ) := by
  obtain ⟨h1, h2⟩ := number_tail n τ hτ
  have e : '.' :: (tagChars ⟨.dev, n⟩ ++ τ) = '.' :: 'd' :: 'e' :: 'v' :: (dg n ++ τ) := by
    simp [tagChars, Phase.str, Gen.phaseIdDev]
  rw [e]
  have sw : stripWord? devWords ('d' :: 'e' :: 'v' :: (dg n ++ τ)) = some ("dev", dg n ++ τ) := by
    simp [stripWord?, devWords, stripPrefix?]
  simp only [parseDev, parseLabelled, labelled?,
    show optSep ('.' :: 'd' :: 'e' :: 'v' :: (dg n ++ τ)) = 'd' :: 'e' :: 'v' :: (dg n ++ τ) from by
      simp [optSep, isSep], sw, h1, h2, digitsToNat_dg]
  rfl

/-! ### epoch and release, followed by a tail -/

/-- what may follow the release: not a digit, not `!`, and a `.` only in front of a non-digit -/
def RelStop (τ : List Char) : Prop :=
  (∀ c, τ.head? = some c → isDigit c = false ∧ c ≠ '!') ∧ (∀ c cs, τ = '.' :: c :: cs → isDigit c = false)

theorem relTail_tail_head (r : List Nat) (τ : List Char) (hτ : RelStop τ) :
    ∀ c, (relTail r ++ τ).head? = some c → isDigit c = false ∧ c ≠ '!' := by
  intro c hc
  cases r with
  | nil => exact hτ.1 c (by simpa [relTail] using hc)
  | cons y r => simp [relTail] at hc; subst hc; exact ⟨by decide, by decide⟩

theorem moreRelease_stop (τ : List Char) (hτ : RelStop τ) (fuel : Nat) : moreRelease fuel τ = ([], τ) := by
  cases fuel with
  | zero => rfl
  | succ fuel =>
    unfold moreRelease
    split
    · rename_i cs
      cases cs with
      | nil => simp [takeDigits]
      | cons c cs' => simp [takeDigits, hτ.2 c cs' rfl]
    · rfl

theorem moreRelease_relTail_tail (τ : List Char) (hτ : RelStop τ) : ∀ (r : List Nat) (fuel : Nat), r.length ≤ fuel →
    moreRelease fuel (relTail r ++ τ) = (r, τ)
  | [], fuel, _ => by simpa [relTail] using moreRelease_stop τ hτ fuel
  | y :: r, fuel, hf => by
    cases fuel with
    | zero => simp at hf
    | succ fuel =>
      have ht := takeDigits_append (dg y) (relTail r ++ τ) (dg_isDigit y)
        (fun c hc => (relTail_tail_head r τ hτ c hc).1)
      have hne : (dg y).isEmpty = false := by
        obtain ⟨d, ds, hd, _⟩ := dg_cons y; rw [hd]; rfl
      simp only [relTail, List.cons_append, List.append_assoc, moreRelease, ht, hne, Bool.false_eq_true, if_false,
        moreRelease_relTail_tail τ hτ r fuel (by simpa using hf), digitsToNat_dg]

theorem parseEpochRelease_tail (e x : Nat) (r : List Nat) (τ : List Char) (hτ : RelStop τ) :
    parseEpochRelease (epochChars e ++ (relChars x r ++ τ)) = some (e, x :: r, τ) := by
  have hR := relTail_tail_head r τ hτ
  have htx := takeDigits_append (dg x) (relTail r ++ τ) (dg_isDigit x) (fun c hc => (hR c hc).1)
  have hnx : (dg x).isEmpty = false := by
    obtain ⟨d, ds, hd, _⟩ := dg_cons x; rw [hd]; rfl
  have hm := moreRelease_relTail_tail τ hτ r (relTail r ++ τ).length (by
    have := relTail_length r; simp; omega)
  by_cases he : e = 0
  · subst he
    simp only [epochChars, bne_self_eq_false, Bool.false_eq_true, if_false, List.nil_append, relChars,
      List.append_assoc]
    unfold parseEpochRelease
    simp only [htx, hnx, Bool.false_eq_true, if_false]
    split
    · rename_i cs hcs
      exact absurd rfl (hR '!' (by rw [hcs]; rfl)).2
    · simp only [hm, digitsToNat_dg]
  · have hne : (e != 0) = true := by simpa using he
    have hte := takeDigits_append (dg e) ('!' :: (dg x ++ (relTail r ++ τ))) (dg_isDigit e)
      (fun c hc => by simp at hc; subst hc; decide)
    have hnee : (dg e).isEmpty = false := by
      obtain ⟨d, ds, hd, _⟩ := dg_cons e; rw [hd]; rfl
    simp only [epochChars, hne, if_true, relChars, List.append_assoc, List.singleton_append, List.cons_append,
      List.nil_append]
    unfold parseEpochRelease
    simp only [hte, hnee, Bool.false_eq_true, if_false, htx, hnx, hm, digitsToNat_dg]

/-! ### the local label -/

theorem takeLocalSeg_append : ∀ (seg rest : List Char), (∀ c ∈ seg, isLocalChar c = true) →
    (∀ c, rest.head? = some c → isLocalChar c = false) → takeLocalSeg (seg ++ rest) = (seg, rest)
  | [], rest, _, hr => by
    cases rest with
    | nil => rfl
    | cons c cs => simp [takeLocalSeg, hr c rfl]
  | c :: cs, rest, hs, hr => by
    simp [takeLocalSeg, hs c (by simp), takeLocalSeg_append cs rest (fun d hd => hs d (List.mem_cons_of_mem _ hd)) hr]

/-- a segment of a local label as the parser stores it: lower-case letters and digits, not empty, a numeric
segment without leading zeros -/
def SegOK (s : String) : Prop :=
  s.toList ≠ [] ∧ (∀ c ∈ s.toList, isLocalChar c = true) ∧ normLocalSeg s = s

theorem localSegs_join : ∀ (p : String) (ps : List String), (∀ s ∈ p :: ps, SegOK s) → ∀ fuel, (p :: ps).length ≤ fuel →
    localSegs fuel (joinC ['.'] ((p :: ps).map String.toList)) = some (p :: ps, [])
  | p, [], h, fuel, hf => by
    cases fuel with
    | zero => simp at hf
    | succ fuel =>
      obtain ⟨hne, hch, _⟩ := h p (by simp)
      have ht := takeLocalSeg_append p.toList [] hch (by simp)
      simp only [List.append_nil] at ht
      have hemp : p.toList.isEmpty = false := by
        cases hp : p.toList with
        | nil => exact absurd hp hne
        | cons _ _ => rfl
      simp only [List.map_cons, List.map_nil, joinC, localSegs, ht, hemp, Bool.false_eq_true, if_false,
        String.ofList_toList]
  | p, q :: qs, h, fuel, hf => by
    cases fuel with
    | zero => simp at hf
    | succ fuel =>
      obtain ⟨hne, hch, _⟩ := h p (by simp)
      have ht := takeLocalSeg_append p.toList ('.' :: joinC ['.'] ((q :: qs).map String.toList)) hch
        (by intro c hc; simp at hc; subst hc; decide)
      have hemp : p.toList.isEmpty = false := by
        cases hp : p.toList with
        | nil => exact absurd hp hne
        | cons _ _ => rfl
      have ih := localSegs_join q qs (fun s hs => h s (List.mem_cons_of_mem _ hs)) fuel (by simpa using hf)
      have e : joinC ['.'] ((p :: q :: qs).map String.toList) =
          p.toList ++ '.' :: joinC ['.'] ((q :: qs).map String.toList) := by simp [joinC]
      rw [e]
      simp only [localSegs, ht, hemp, Bool.false_eq_true, if_false, show isSep '.' = true from by decide, if_true, ih,
        String.ofList_toList]

theorem joinC_length_ge : ∀ (p : String) (ps : List String), (∀ s ∈ p :: ps, SegOK s) →
    (p :: ps).length ≤ (joinC ['.'] ((p :: ps).map String.toList)).length
  | p, [], h => by
    obtain ⟨hne, _, _⟩ := h p (by simp)
    cases hp : p.toList with
    | nil => exact absurd hp hne
    | cons c cs => simp [joinC, hp]
  | p, q :: qs, h => by
    have ih := joinC_length_ge q qs (fun s hs => h s (List.mem_cons_of_mem _ hs))
    simp only [List.map_cons, List.length_cons] at ih ⊢
    simp only [joinC, List.length_append, List.length_cons, List.length_nil]
    omega

/-- the local label of a version as the parser stores it -/
def LocOK (loc : Option (List String)) : Prop := ∀ segs, loc = some segs → ∀ s ∈ segs, SegOK s

theorem parseLocal_chars (loc : Option (List String))
    (hwf : optAll (fun ps : List String => !ps.isEmpty && ps.all (fun s => !s.isEmpty)) loc = true) (hl : LocOK loc) :
    parseLocal (locChars loc) = (loc, []) := by
  cases loc with
  | none => exact parseLocal_nil
  | some segs =>
    cases segs with
    | nil => simp [optAll] at hwf
    | cons p ps =>
      have hs := hl (p :: ps) rfl
      have h1 := localSegs_join p ps hs ((joinC ['.'] ((p :: ps).map String.toList)).length + 1)
        (by have := joinC_length_ge p ps hs; omega)
      have hmap : (p :: ps).map normLocalSeg = p :: ps := by
        have : ∀ l : List String, (∀ s ∈ l, SegOK s) → l.map normLocalSeg = l := by
          intro l; induction l with
          | nil => intro _; rfl
          | cons a as ih => intro h; simp [(h a (by simp)).2.2, ih (fun s hs => h s (List.mem_cons_of_mem _ hs))]
        exact this _ hs
      simp only [locChars, parseLocal, h1, hmap]

/-! ### the whole body -/

theorem locChars_tailL (loc : Option (List String)) : TailL (locChars loc) := by
  rcases loc with _ | _ | ⟨p, ps⟩
  · exact Or.inl rfl
  · exact Or.inl rfl
  · exact Or.inr ⟨_, rfl⟩

theorem devChars_tailD (dev : Option Tag) (hd : optAll (fun t => t.phase == .dev) dev = true) (loc : Option (List String)) :
    TailD (dotTagChars dev ++ locChars loc) := by
  cases dev with
  | none => exact Or.inl (locChars_tailL loc)
  | some t =>
    obtain ⟨ph, n⟩ := t
    have : ph = .dev := by simpa [optAll] using hd
    subst this
    exact Or.inr ⟨dg n ++ locChars loc, by simp [dotTagChars, tagChars, Phase.str, Gen.phaseIdDev]⟩

theorem postChars_tailP (post : Option Tag) (hp : optAll (fun t => t.phase == .post) post = true) (τ : List Char)
    (hτ : TailD τ) : TailP (dotTagChars post ++ τ) := by
  cases post with
  | none => exact Or.inl hτ
  | some t =>
    obtain ⟨ph, n⟩ := t
    have : ph = .post := by simpa [optAll] using hp
    subst this
    exact Or.inr ⟨dg n ++ τ, by simp [dotTagChars, tagChars, Phase.str, Gen.phaseIdPost]⟩

theorem TailP.relStop {τ : List Char} (h : TailP τ) : RelStop τ := by
  rcases h with ((rfl | ⟨cs, rfl⟩) | ⟨cs, rfl⟩) | ⟨cs, rfl⟩
  · exact ⟨by simp, by intro c cs h; cases h⟩
  · exact ⟨by intro c hc; simp at hc; subst hc; exact ⟨by decide, by decide⟩, by intro c cs h; cases h⟩
  · exact ⟨by intro c hc; simp at hc; subst hc; exact ⟨by decide, by decide⟩,
      by intro c cs' h; injection h with _ h; injection h with h _; subst h; decide⟩
  · exact ⟨by intro c hc; simp at hc; subst hc; exact ⟨by decide, by decide⟩,
      by intro c cs' h; injection h with _ h; injection h with h _; subst h; decide⟩

theorem preChars_relStop (pre : Option Tag) (hp : optAll Tag.isPre pre = true) (τ : List Char) (hτ : TailP τ) :
    RelStop (preChars pre ++ τ) := by
  cases pre with
  | none => exact hτ.relStop
  | some t =>
    obtain ⟨ph, n⟩ := t
    cases ph with
    | a => exact ⟨by intro c hc; simp [preChars, tagChars, Phase.str, Gen.phaseIdAlpha] at hc; subst hc; exact ⟨by decide, by decide⟩,
        by intro c cs h; simp [preChars, tagChars, Phase.str, Gen.phaseIdAlpha] at h⟩
    | b => exact ⟨by intro c hc; simp [preChars, tagChars, Phase.str, Gen.phaseIdBeta] at hc; subst hc; exact ⟨by decide, by decide⟩,
        by intro c cs h; simp [preChars, tagChars, Phase.str, Gen.phaseIdBeta] at h⟩
    | rc => exact ⟨by intro c hc; simp [preChars, tagChars, Phase.str, Gen.phaseIdRc] at hc; subst hc; exact ⟨by decide, by decide⟩,
        by intro c cs h; simp [preChars, tagChars, Phase.str, Gen.phaseIdRc] at h⟩
    | post => simp [optAll, Tag.isPre] at hp
    | dev => simp [optAll, Tag.isPre] at hp

theorem bodyChars_head (e x : Nat) (r : List Nat) (pre post dev : Option Tag) (loc : Option (List String)) :
    ∃ d ds, bodyChars e x r pre post dev loc = d :: ds ∧ isDigit d = true := by
  by_cases he : e = 0
  · obtain ⟨d, ds, hd, hdig⟩ := relChars_cons x r
    exact ⟨d, ds ++ (preChars pre ++ (dotTagChars post ++ (dotTagChars dev ++ locChars loc))),
      by simp [bodyChars, epochChars, he, hd], hdig⟩
  · obtain ⟨d, ds, hd, hdig⟩ := dg_cons e
    exact ⟨d, ds ++ '!' :: (relChars x r ++ (preChars pre ++ (dotTagChars post ++ (dotTagChars dev ++ locChars loc)))),
      by simp [bodyChars, epochChars, he, hd], hdig⟩

/-- the tag conditions of `Version.wf` -/
structure TagsOK (pre post dev : Option Tag) (loc : Option (List String)) : Prop where
  pre : optAll Tag.isPre pre = true
  post : optAll (fun t => t.phase == .post) post = true
  dev : optAll (fun t => t.phase == .dev) dev = true
  loc : optAll (fun ps : List String => !ps.isEmpty && ps.all (fun s => !s.isEmpty)) loc = true

/-- **`VERSION_PATTERN` consumes the normal-form text entirely and gives the fields back**, for all numbers,
tags and local labels -/
theorem parseBody_bodyChars (e x : Nat) (r : List Nat) (pre post dev : Option Tag) (loc : Option (List String))
    (ht : TagsOK pre post dev loc) (hl : LocOK loc) :
    parseBody "" (bodyChars e x r pre post dev loc) =
      some ({ epoch := e, release := x :: r, pre := pre, post := post, dev := dev, loc := loc, text := "" }, []) := by
  have tL := locChars_tailL loc
  have tD := devChars_tailD dev ht.dev loc
  have tP := postChars_tailP post ht.post _ tD
  have tR := preChars_relStop pre ht.pre _ tP
  -- the head is a digit
  have hhead := bodyChars_head e x r pre post dev loc
  obtain ⟨d, ds, hd, hdig⟩ := hhead
  have hsv : stripV (bodyChars e x r pre post dev loc) = bodyChars e x r pre post dev loc := by
    rw [hd]; exact stripV_digit d ds hdig
  have h1 := parseEpochRelease_tail e x r _ tR
  have h2 : parsePre (preChars pre ++ (dotTagChars post ++ (dotTagChars dev ++ locChars loc))) =
      (pre, dotTagChars post ++ (dotTagChars dev ++ locChars loc)) := by
    cases pre with
    | none => exact parsePre_none_of tP
    | some t => exact parsePre_tag t (by simpa [optAll] using ht.pre) _ tP.head
  have h3 : parsePost (dotTagChars post ++ (dotTagChars dev ++ locChars loc)) =
      (post, dotTagChars dev ++ locChars loc) := by
    cases post with
    | none => exact parsePost_none_of tD
    | some t =>
      obtain ⟨ph, n⟩ := t
      have : ph = .post := by simpa [optAll] using ht.post
      subst this
      exact parsePost_tag n _ (TailP.head (Or.inl tD))
  have h4 : parseDev (dotTagChars dev ++ locChars loc) = (dev, locChars loc) := by
    cases dev with
    | none => exact parseDev_none_of tL
    | some t =>
      obtain ⟨ph, n⟩ := t
      have : ph = .dev := by simpa [optAll] using ht.dev
      subst this
      exact parseDev_tag n _ (TailP.head (Or.inl (Or.inl tL)))
  have h5 := parseLocal_chars loc ht.loc hl
  unfold parseBody
  rw [hsv]
  simp only [bodyChars, h1, h2, h3, h4, h5]

/-! ### `TextOK` for normal-form texts -/

theorem tagChars_nchar (t : Tag) : ∀ c ∈ tagChars t, nchar c = true := by
  intro c hc
  simp only [tagChars, List.mem_append] at hc
  rcases hc with hc | hc
  · obtain ⟨ph, n⟩ := t
    cases ph <;> simp [Phase.str, Gen.phaseIdAlpha, Gen.phaseIdBeta, Gen.phaseIdRc, Gen.phaseIdPost, Gen.phaseIdDev] at hc <;>
      (try rcases hc with rfl | rfl | rfl | rfl) <;> (try rcases hc with rfl | rfl | rfl) <;>
      (try rcases hc with rfl | rfl) <;> (try subst hc) <;> decide
  · exact dg_nchar _ c hc

theorem localChar_nchar (c : Char) (h : isLocalChar c = true) : nchar c = true := by
  simp only [isLocalChar, Bool.or_eq_true] at h
  rcases h with h | h <;> simp [nchar, h]

theorem joinC_dot_nchar : ∀ (l : List (List Char)), (∀ q ∈ l, ∀ c ∈ q, nchar c = true) → ∀ c ∈ joinC ['.'] l, nchar c = true
  | [], _, c, hc => by simp [joinC] at hc
  | [p], h, c, hc => h p (by simp) c (by simpa [joinC] using hc)
  | p :: q :: qs, h, c, hc => by
    simp only [joinC, List.mem_append, List.mem_singleton] at hc
    rcases hc with (hc | rfl) | hc
    · exact h p (by simp) c hc
    · decide
    · exact joinC_dot_nchar (q :: qs) (fun q' hq' => h q' (List.mem_cons_of_mem _ hq')) c hc

theorem bodyChars_nchar (e x : Nat) (r : List Nat) (pre post dev : Option Tag) (loc : Option (List String))
    (hl : LocOK loc) : ∀ c ∈ bodyChars e x r pre post dev loc, nchar c = true := by
  intro c hc
  simp only [bodyChars, List.mem_append] at hc
  rcases hc with hc | hc | hc | hc | hc | hc
  · unfold epochChars at hc
    split at hc
    · simp only [List.mem_append, List.mem_singleton] at hc
      rcases hc with hc | rfl
      · exact dg_nchar e c hc
      · decide
    · simp at hc
  · rcases relChars_chars x r c hc with h | rfl
    · exact digit_nchar c h
    · decide
  · cases pre with
    | none => simp [preChars] at hc
    | some t => exact tagChars_nchar t c hc
  · cases post with
    | none => simp [dotTagChars] at hc
    | some t =>
      simp only [dotTagChars, List.mem_cons] at hc
      rcases hc with rfl | hc
      · decide
      · exact tagChars_nchar t c hc
  · cases dev with
    | none => simp [dotTagChars] at hc
    | some t =>
      simp only [dotTagChars, List.mem_cons] at hc
      rcases hc with rfl | hc
      · decide
      · exact tagChars_nchar t c hc
  · rcases loc with _ | _ | ⟨p, ps⟩
    · simp [locChars] at hc
    · simp [locChars] at hc
    · simp only [locChars, List.mem_cons] at hc
      rcases hc with rfl | hc
      · decide
      · refine joinC_dot_nchar _ ?_ c hc
        intro q hq d hd
        obtain ⟨s, hs, rfl⟩ := List.mem_map.1 hq
        exact localChar_nchar d ((hl _ rfl s hs).2.1 d hd)

/-- the text is the normal form `to_string()` writes -/
def NormalText (v : Version) : Prop := v.text = Version.toStr v.epoch v.release v.pre v.post v.dev v.loc

/-- **a well-formed version in normal-form text carries a re-parsable text** -/
theorem textOK_of_normal (v : Version) (hwf : v.wf = true) (hn : NormalText v) (hl : LocOK v.loc) : TextOK v := by
  obtain ⟨e, rel, pre, post, dev, loc, text⟩ := v
  simp only [NormalText] at hn
  simp only [Version.wf, Bool.and_eq_true, Bool.not_eq_true'] at hwf
  obtain ⟨⟨⟨⟨hrel, hpre⟩, hpost⟩, hdev⟩, hloc⟩ := hwf
  cases rel with
  | nil => simp at hrel
  | cons x r =>
    have ht : TagsOK pre post dev loc := ⟨hpre, hpost, hdev, hloc⟩
    have hnc := bodyChars_nchar e x r pre post dev loc hl
    have htl : text.toList = bodyChars e x r pre post dev loc := by
      rw [hn, toStr_toList, map_lower_nchar _ hnc]
    have hhead := bodyChars_head e x r pre post dev loc
    refine ⟨?_, ?_, ?_, ?_⟩
    · show parseBody "" (text.toList.map lowerChar) = _
      rw [htl, map_lower_nchar _ hnc, parseBody_bodyChars e x r pre post dev loc ht hl]
    · intro c hc
      show vchar c = true
      exact nchar_vchar c (hnc c (by rw [← htl]; exact hc))
    · obtain ⟨d, ds, hd, hdig⟩ := hhead
      exact ⟨d, ds, by show text.toList = _; rw [htl, hd], hdig⟩
    · obtain ⟨d, ds, hd, _⟩ := hhead
      have hne : bodyChars e x r pre post dev loc ≠ [] := by rw [hd]; simp
      refine ⟨(bodyChars e x r pre post dev loc).dropLast, (bodyChars e x r pre post dev loc).getLast hne, ?_, ?_⟩
      · show text.toList = _
        rw [htl]; exact (List.dropLast_concat_getLast hne).symm
      · exact nchar_ne_dash _ (hnc _ (List.getLast_mem hne))

/-- every version built by a bump function (`Version.mk'`) from well-formed parts -/
theorem textOK_mk' (e : Nat) (rel : List Nat) (pre post dev : Option Tag) (loc : Option (List String))
    (hwf : (mk' e rel pre post dev loc).wf = true) (hl : LocOK loc) : TextOK (mk' e rel pre post dev loc) :=
  textOK_of_normal _ hwf rfl hl

end Poetry
