/-
The leaf specification (C07's `LeafSpec`) on the fragment `python_version >= "L"` (L in `Lo`) / `python_version < "H"`
(H in `Hi`), literals of one or two components, when no lower literal `a.b` meets an upper literal equal to
`a.(b+1)`: a successful `_merge_single_markers` returns Empty, Any or one of its operands and means the
conjunction / disjunction.  No hypothesis about the environment beyond its `python_version`.

The fragment cannot be enlarged to all six operators on one-component literals: `counterexample_one_component_union`
(Props/C11).
-/
import PoetryVerif.Proofs.PyConvOneMerge

set_option linter.unusedSimpArgs false
set_option linter.unusedVariables false

namespace Poetry.Marker
open Poetry Poetry.Version

def OneG (Lo Hi : List Nat → Prop) (l : Leaf) : Prop :=
  (∃ a t, t.length ≤ 1 ∧ Lo (a :: t) ∧ l = .single (geLeafOf a t)) ∨
  (∃ a t, t.length ≤ 1 ∧ Hi (a :: t) ∧ l = .single (ltLeafOf a t))

/-- no lower literal `a.b` with an upper literal equal to `a.(b+1)` -/
def NoAdj (Lo Hi : List Nat → Prop) : Prop :=
  ∀ a b a' t', Lo [a, b] → Hi (a' :: t') → Version.eqv (finalV [a, b + 1]) (litV a' t') = false

theorem litV_inj {a a' : Nat} {t t' : List Nat} (h : litV a t = litV a' t') : a = a' ∧ t = t' := by
  have := congrArg Version.release h
  simpa [litV, relVersion] using this

/-- a leaf of the fragment with its range and the membership of its literal -/
theorem OneG.data {Lo Hi : List Nat → Prop} {l : Leaf} (h : OneG Lo Hi l) :
    ∃ s R, l = .single s ∧ OneLeaf s R ∧ (∀ a t, R = geR (litV a t) → Lo (a :: t)) ∧
      (∀ a t, R = ltR (litV a t) → Hi (a :: t)) := by
  rcases h with ⟨a, t, ht, hl, rfl⟩ | ⟨a, t, ht, hl, rfl⟩
  · refine ⟨_, _, rfl, .ge a t ht, ?_, ?_⟩
    · intro a' t' e
      simp only [geR, VRange.mk.injEq, Option.some.injEq, and_true] at e
      obtain ⟨rfl, rfl⟩ := litV_inj e
      exact hl
    · intro a' t' e; simp [geR, ltR] at e
  · refine ⟨_, _, rfl, .lt a t ht, ?_, ?_⟩
    · intro a' t' e; simp [geR, ltR] at e
    · intro a' t' e
      simp only [ltR, VRange.mk.injEq, Option.some.injEq, and_true, true_and] at e
      obtain ⟨rfl, rfl⟩ := litV_inj e
      exact hl

theorem oneG_evaluable {Lo Hi : List Nat → Prop} {E : Env} {X Y : Nat}
    (hE : E.get? "python_version" = some (Version.relText [X, Y])) {l : Leaf} (h : OneG Lo Hi l) :
    ∃ b, l.validate E = .ok b := by
  obtain ⟨s, R, rfl, hs, _⟩ := h.data
  exact ⟨_, hs.eval hE⟩

theorem oneG_name {Lo Hi : List Nat → Prop} {l : Leaf} (h : OneG Lo Hi l) : l.name = "python_version" := by
  obtain ⟨s, R, rfl, hs, _⟩ := h.data
  exact hs.name

/-- **`LeafSpec` on the fragment** -/
theorem leafSpec_oneG {Lo Hi : List Nat → Prop} (hN : NoAdj Lo Hi) {E : Env} {X Y : Nat}
    (hE : E.get? "python_version" = some (Version.relText [X, Y])) :
    LeafSpec (leafEval E) (OneG Lo Hi) where
  congr := by
    intro x y hx hy h
    rcases hx with ⟨a, t, _, _, rfl⟩ | ⟨a, t, _, _, rfl⟩ <;> rcases hy with ⟨a', t', _, _, rfl⟩ | ⟨a', t', _, _, rfl⟩ <;>
      simp only [Leaf.beq, geLeafOf, ltLeafOf, Bool.and_eq_true, beq_iff_eq] at h
    · have m1 := mkSingle_geLeaf a t
      have m2 := mkSingle_geLeaf a' t'
      rw [h.1.2, m2] at m1
      rw [← Except.ok.inj m1]
    · exact absurd h.1.1.2 (by decide)
    · exact absurd h.1.1.2 (by decide)
    · have m1 := mkSingle_ltLeaf a t
      have m2 := mkSingle_ltLeaf a' t'
      rw [h.1.2, m2] at m1
      rw [← Except.ok.inj m1]
  merge := by
    intro l1 l2 im r g1 g2 h
    obtain ⟨s1, R1, rfl, o1, lo1, hi1⟩ := g1.data
    obtain ⟨s2, R2, rfl, o2, lo2, hi2⟩ := g2.data
    have hna : ∀ a b W, (R1 = geR (litV a [b]) ∨ R2 = geR (litV a [b])) → (R1 = ltR W ∨ R2 = ltR W) →
        Version.eqv (finalV [a, b + 1]) W = false := by
      intro a b W hV hW
      have hlo : Lo [a, b] := by
        rcases hV with e | e
        · exact lo1 a [b] e
        · exact lo2 a [b] e
      rcases hW with e | e
      · obtain ⟨a', t', _, rfl⟩ := o1.lt_form e
        exact hN a b a' t' hlo (hi1 a' t' e)
      · obtain ⟨a', t', _, rfl⟩ := o2.lt_form e
        exact hN a b a' t' hlo (hi2 a' t' e)
    obtain ⟨hout, hsem⟩ := oneLeaf_merge hE o1 o2 hna im r h
    refine ⟨?_, hsem⟩
    rcases hout with rfl | rfl | rfl | rfl
    · trivial
    · trivial
    · exact g1
    · exact g2

end Poetry.Marker
