/-
Version variables at token level (helper lemmas for C06): for a final-release literal `V` and a final-release
environment value `v`, the constraint `parse_single_constraint` builds for `op V` admits `v` exactly when the
reference comparison `Spec.Pep508.versionOp` says so.  Reuses the C04 bridge (`Proofs/VRangeSpec.lean`).
-/
import PoetryVerif.Proofs.VRangeSpec
import PoetryVerif.Spec.Pep508

set_option linter.unusedSimpArgs false
set_option linter.unusedVariables false

namespace Poetry.Marker
open Poetry Version Spec

theorem pep508_final_parts {v : Version} (h : Spec.Pep508.isFinal v = true) :
    v.epoch = 0 ∧ v.pre = none ∧ v.post = none ∧ v.dev = none ∧ v.loc = none := by
  simp only [Spec.Pep508.isFinal, Bool.and_eq_true, beq_iff_eq, Option.isNone_iff_eq_none] at h
  exact ⟨h.1.1.1.1.1, h.1.1.1.1.2, h.1.1.1.2, h.1.1.2, h.1.2⟩

/-- two final releases are equal or of different releases: finals are regular probes for final bounds -/
theorem reg1_of_final {v V : Version} (hv : Spec.Pep508.isFinal v = true) (hV : Spec.Pep508.isFinal V = true) :
    Reg1 v V := by
  obtain ⟨a1, a2, a3, a4, a5⟩ := pep508_final_parts hv
  obtain ⟨b1, b2, b3, b4, b5⟩ := pep508_final_parts hV
  by_cases h : relKey v = relKey V
  · left
    rw [vk_eq_iff_key]
    simp only [relKey, Prod.mk.injEq] at h
    simp [key, preK, postK, devK, a1, a2, a3, a4, a5, b1, b2, b3, b4, b5, h.2]
  · exact Or.inr h

/-- the operators with their specifier tags -/
def orderedOps : List (SOp × String) :=
  [(.eq, "=="), (.ne, "!="), (.lt, "<"), (.le, "<="), (.gt, ">"), (.ge, ">=")]

/-- **version comparison at token level**: `==, !=, <, <=, >, >=` on final releases -/
theorem version_token_agree (sop : SOp) (ops : String) (hop : (sop, ops) ∈ orderedOps) (V v : Version)
    (hV : Spec.Pep508.isFinal V = true) (hv : Spec.Pep508.isFinal v = true) (hVwf : V.wf = true)
    (hvwf : v.wf = true) :
    ∃ c b, clauseVC sop V = .ok c ∧ c.allows v = .ok b ∧ Spec.Pep508.versionOp ops V v = some b := by
  have hreg := reg1_of_final hv hV
  have hloc := (pep508_final_parts hV).2.2.2.2
  have hc : Version.cmp v V = cmpRef v V := cmp_eq_cmpRef v V hvwf hVwf
  simp only [orderedOps, List.mem_cons, Prod.mk.injEq, List.mem_nil_iff, or_false] at hop
  rcases hop with ⟨rfl, rfl⟩ | ⟨rfl, rfl⟩ | ⟨rfl, rfl⟩ | ⟨rfl, rfl⟩ | ⟨rfl, rfl⟩ | ⟨rfl, rfl⟩
  · refine ⟨_, _, rfl, rfl, ?_⟩
    simp only [Spec.Pep508.versionOp, hV, hv, Bool.and_self, Bool.not_true, Bool.false_eq_true, if_false,
      Option.some.injEq, RC.allows]
    apply bool_eq_of_iff
    rw [RC.ver_allows_iff V v hVwf hvwf hreg, ← hc, vk_eq_iff]; simp
  · obtain ⟨b, hb, hiff⟩ := ne_allows V v hVwf hvwf hreg
    refine ⟨_, b, rfl, hb, ?_⟩
    simp only [Spec.Pep508.versionOp, hV, hv, Bool.and_self, Bool.not_true, Bool.false_eq_true, if_false,
      Option.some.injEq]
    apply bool_eq_of_iff
    rw [hiff, ← hc, Ne, vk_eq_iff]; simp
  · refine ⟨_, _, rfl, rfl, ?_⟩
    simp only [Spec.Pep508.versionOp, hV, hv, Bool.and_self, Bool.not_true, Bool.false_eq_true, if_false,
      Option.some.injEq, RC.allows]
    apply bool_eq_of_iff
    rw [upper_allows V v false hVwf hvwf hreg, ← hc]; simp [vk_lt_iff]
  · refine ⟨_, _, rfl, rfl, ?_⟩
    simp only [Spec.Pep508.versionOp, hV, hv, Bool.and_self, Bool.not_true, Bool.false_eq_true, if_false,
      Option.some.injEq, RC.allows]
    apply bool_eq_of_iff
    rw [upper_allows V v true hVwf hvwf hreg, ← hc]; simp [vk_le_iff]
  · refine ⟨_, _, rfl, rfl, ?_⟩
    simp only [Spec.Pep508.versionOp, hV, hv, Bool.and_self, Bool.not_true, Bool.false_eq_true, if_false,
      Option.some.injEq, RC.allows]
    apply bool_eq_of_iff
    rw [lower_allows V v false hVwf hvwf hreg, ← hc]; simp [vk_lt_iff, cmp_gt_iff_lt]
  · refine ⟨_, _, rfl, rfl, ?_⟩
    simp only [Spec.Pep508.versionOp, hV, hv, Bool.and_self, Bool.not_true, Bool.false_eq_true, if_false,
      Option.some.injEq, RC.allows]
    apply bool_eq_of_iff
    rw [lower_allows V v true hVwf hvwf hreg, ← hc]
    simp only [if_true, vk_le_iff]
    rw [cmp_swap V v]
    cases Version.cmp v V <;> simp

end Poetry.Marker
