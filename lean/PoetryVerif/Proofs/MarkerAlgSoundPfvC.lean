/-
`python_full_version` leaves with the comparison operators and `~=`, three-component literals: the leaf facts
(through the text-tracking merge theorem `verLeaf_merge_text`), and the python leaves with `~=` assembled.
-/
import PoetryVerif.Proofs.MarkerAlgSoundPvGen

set_option linter.unusedSimpArgs false
set_option linter.unusedVariables false

namespace Poetry.Marker
open Poetry Poetry.Version

/-- comparison leaves and `~=` leaves on `python_full_version`, three-component literals -/
def Pfv3LeafC (l : Leaf) : Prop := Pfv3Leaf l ∨ ∃ a b c, l = .single (pfvCompatOf a b c)

/-- the bounds of such a leaf: three-component literals -/
def pfvCBounds : Leaf → List Version
  | .single s => match s.c with
    | .ver v => boundsOf v.flatten
    | _ => []
  | _ => []

theorem pfv3LeafC_verLeaf {B : List Version} {l : Leaf} (h : Pfv3LeafC l)
    (hB : ∀ e ∈ pfvCBounds l, e ∈ B) : VerLeaf B "python_full_version" l := by
  rcases h with ⟨sop, ops, a, b, c, hm, rfl⟩ | ⟨a, b, c, rfl⟩
  · refine pfv3_verLeaf hm a b c (hB _ ?_)
    simp only [pfvCBounds, pfvLeafOf, boundsOf, List.mem_flatMap]
    simp only [pvOps, List.mem_cons, List.mem_nil_iff, or_false, Prod.mk.injEq] at hm
    rcases hm with ⟨rfl, rfl⟩ | ⟨rfl, rfl⟩ | ⟨rfl, rfl⟩ | ⟨rfl, rfl⟩ | ⟨rfl, rfl⟩ | ⟨rfl, rfl⟩ <;>
      simp [pvClause, ineqRange, VC.flatten, RC.bounds, RC.view, VRange.bounds, RC.min, RC.max]
  · refine pfvCompat_verLeaf a b c (hB _ ?_) (hB _ ?_) <;>
      simp [pfvCBounds, pfvCompatOf, compatVC, boundsOf, VC.flatten, RC.bounds, RC.view, VRange.bounds, RC.min,
        RC.max]

theorem pfv3LeafC_bounds3 {l : Leaf} (h : Pfv3LeafC l) : ∀ e ∈ pfvCBounds l, ∃ a b c, e = litV a [b, c] := by
  intro e he
  rcases h with ⟨sop, ops, a, b, c, hm, rfl⟩ | ⟨a, b, c, rfl⟩
  · simp only [pfvCBounds, pfvLeafOf, boundsOf, List.mem_flatMap] at he
    obtain ⟨m, hmm, hem⟩ := he
    exact ⟨a, b, c, pvClause_bounds hm _ m hmm e hem⟩
  · simp only [pfvCBounds, pfvCompatOf, boundsOf, List.mem_flatMap] at he
    obtain ⟨m, hmm, hem⟩ := he
    rcases compatVC_bounds _ _ m hmm e hem with rfl | rfl
    · exact ⟨a, b, c, rfl⟩
    · exact ⟨a, b + 1, 0, rfl⟩

theorem pfv3LeafC_eval {E : Env} {X : Nat} {R : List Nat}
    (hX : E.get? "python_full_version" = some (Version.relText (X :: R))) {l : Leaf} (h : Pfv3LeafC l) :
    ∃ b, l.validate E = .ok b := by
  rcases h with h | ⟨a, b, c, rfl⟩
  · exact pfv3_evaluable hX h
  · exact ⟨_, pfvCompat_eval hX a b c⟩

theorem pfv3LeafC_merge {E : Env} {X : Nat} {R : List Nat}
    (hX : E.get? "python_full_version" = some (Version.relText (X :: R)))
    (l1 l2 : Leaf) (im : Bool) (r : M) (h1 : Pfv3LeafC l1) (h2 : Pfv3LeafC l2)
    (h : mergeLeaves l1 l2 im = .ok (some r)) :
    M.Good Pfv3LeafC r ∧
      M.sem (leafEval E) r = (if im then (leafEval E l1 && leafEval E l2) else (leafEval E l1 || leafEval E l2)) := by
  let B : List Version := pfvCBounds l1 ++ pfvCBounds l2
  have hlB : ∀ e ∈ B, ∃ a b c, e = litV a [b, c] := by
    intro e he
    simp only [B, List.mem_append] at he
    rcases he with he | he
    · exact pfv3LeafC_bounds3 h1 e he
    · exact pfv3LeafC_bounds3 h2 e he
  have hpb : ∀ e ∈ B, PyBound e = true := by
    intro e he
    obtain ⟨a, b, c, rfl⟩ := hlB e he
    exact pb [a, b, c]
  obtain ⟨_, hsem, hout⟩ := verLeaf_merge_text hpb (padR_of_mem3 hlB) hX 2 _ _ im r
    (pfv3LeafC_verLeaf (B := B) h1 (fun e he => List.mem_append_left _ he))
    (pfv3LeafC_verLeaf (B := B) h2 (fun e he => List.mem_append_right _ he)) h
  refine ⟨?_, hsem⟩
  rcases hout with rfl | rfl | rfl | rfl | ⟨s, rfl, hs⟩
  · exact M.good_empty
  · exact M.good_any
  · exact (M.good_leaf _).2 h1
  · exact (M.good_leaf _).2 h2
  · exact (M.good_leaf _).2 (Or.inl hs)

/-- **`LeafSpec` on same-name `python_full_version` leaves with the comparison operators and `~=`** -/
theorem leafSpec_pfv3C {E : Env} {X : Nat} {R : List Nat}
    (hX : E.get? "python_full_version" = some (Version.relText (X :: R))) : LeafSpec (leafEval E) Pfv3LeafC where
  congr := by
    intro a b ha hb h
    have key : ∀ l, Pfv3LeafC l → ∃ s, l = .single s ∧
        mkSingle s.name (itemConstraintString s.op s.value s.swapped) s.swapped = .ok s := by
      intro l hl
      rcases hl with ⟨sop, ops, a, b, c, hm, rfl⟩ | ⟨a, b, c, rfl⟩
      · exact ⟨_, rfl, by
          have := mkSingle_pfvLeaf hm a [b, c]
          simpa [pfvLeafOf, itemConstraintString, padR] using this⟩
      · exact ⟨_, rfl, by simpa [pfvCompatOf, itemConstraintString] using mkSingle_pfvCompat a b c⟩
    obtain ⟨sa, rfl, ma⟩ := key a ha
    obtain ⟨sb, rfl, mb⟩ := key b hb
    simp only [Leaf.beq, Bool.and_eq_true, beq_iff_eq] at h
    obtain ⟨⟨⟨h1, h2⟩, h3⟩, h4⟩ := h
    rw [h1, h2, h3, h4, mb] at ma
    rw [Except.ok.inj ma]
  merge := fun l1 l2 im r h1 h2 h => pfv3LeafC_merge hX l1 l2 im r h1 h2 h

theorem pfv3LeafC_name {l : Leaf} (h : Pfv3LeafC l) : l.name = "python_full_version" := by
  rcases h with h | ⟨a, b, c, rfl⟩
  · exact pfv3_name h
  · rfl

/-! ### the python leaves with `~=`, and the full domain -/

def PyLeafC (l : Leaf) : Prop := PvLeafC l ∨ Pfv3LeafC l

theorem leafSpec_pyC {E : Env} {X Y Z : Nat} (hE : EnvPy E X Y Z)
    (HP : PairSound (leafEval E) PvLeafC Pfv3LeafC) : LeafSpec (leafEval E) PyLeafC :=
  LeafSpec.pair (leafSpec_pvC hE.1) (leafSpec_pfv3C hE.2)
    (fun a b ha hb => by rw [pvLeafC_name ha, pfv3LeafC_name hb]; decide) HP

theorem pyLeafC_evaluable {E : Env} {X Y Z : Nat} (hE : EnvPy E X Y Z) {l : Leaf} (h : PyLeafC l) :
    ∃ b, l.validate E = .ok b := by
  rcases h with h | h
  · exact pvLeafC_evaluable hE.1 h
  · exact pfv3LeafC_eval hE.2 h

theorem pyLeafC_name {l : Leaf} (h : PyLeafC l) : l.name = "python_version" ∨ l.name = "python_full_version" := by
  rcases h with h | h
  · exact Or.inl (pvLeafC_name h)
  · exact Or.inr (pfv3LeafC_name h)

/-- plain string variables, `extra`, and the python leaves with `~=` -/
def FullLeafC (E : Env) (l : Leaf) : Prop := PlainLeaf E l ∨ PyLeafC l

theorem leafSpec_fullC {E : Env} {ex : List String} (hX : E.extras = some ex) {X Y Z : Nat} (hE : EnvPy E X Y Z)
    (HP : PairSound (leafEval E) PvLeafC Pfv3LeafC) : LeafSpec (leafEval E) (FullLeafC E) := by
  refine LeafSpec.or (leafSpec_plain hX) (leafSpec_pyC hE HP) ?_
  intro a b ha hb
  have hb' := pyLeafC_name hb
  rcases plainLeaf_name ha with h | h
  · rcases hb' with hb' | hb' <;> (rw [pyPair, pyPair, h, hb']; decide)
  · simp only [plainStringVars, List.mem_cons, List.mem_nil_iff, or_false] at h
    rcases hb' with hb' | hb' <;>
      rcases h with h | h | h | h | h | h | h <;> (rw [pyPair, pyPair, h, hb']; decide)

theorem fullLeafC_evaluable {E : Env} {ex : List String} (hX : E.extras = some ex) {X Y Z : Nat}
    (hE : EnvPy E X Y Z) {l : Leaf} (h : FullLeafC E l) : ∃ b, l.validate E = .ok b := by
  rcases h with h | h
  · exact plainLeaf_evaluable hX h
  · exact pyLeafC_evaluable hE h

end Poetry.Marker
