/-
C14: validation ⇒ guard with the validator as it stands (requires-python, extras names and legacy dependency sources
are validated): what remains trusted are printers only.  Core Lean only.
-/
import PoetryVerif.Proofs.MetaValidateExt
import PoetryVerif.Proofs.MetaVersionText

set_option linter.unusedSimpArgs false
set_option linter.unusedVariables false

namespace Poetry.Meta
open Poetry Poetry.Spec Poetry.Spec.Rfc822

/-! ### `canonicalize_name` keeps a name on one line -/

theorem lowerChar_aux : ∀ k, k < 26 → isNL (Char.ofNat (k + 65 + 32)) = false := by decide

theorem lowerChar_not_nl (c : Char) (h : isNL c = false) : isNL (lowerChar c) = false := by
  unfold lowerChar
  split
  · rename_i hc
    simp only [Bool.and_eq_true, decide_eq_true_eq] at hc
    have hlo : 65 ≤ c.toNat := by
      have := hc.1
      rw [Char.le_def] at this
      exact this
    have hhi : c.toNat ≤ 90 := by
      have := hc.2
      rw [Char.le_def] at this
      exact this
    have := lowerChar_aux (c.toNat - 65) (by omega)
    have e : c.toNat - 65 + 65 + 32 = c.toNat + 32 := by omega
    rw [e] at this
    exact this
  · exact h

theorem collapseSeps_noNL : ∀ (prev : Bool) (s : List Char), NoNL s → NoNL (collapseSeps prev s)
  | _, [], _ => by intro c hc; simp [collapseSeps] at hc
  | prev, c :: cs, h => by
    have ih1 := collapseSeps_noNL true cs (fun d hd => h d (by simp [hd]))
    have ih2 := collapseSeps_noNL false cs (fun d hd => h d (by simp [hd]))
    unfold collapseSeps
    split
    · split
      · exact ih1
      · intro d hd
        simp at hd
        rcases hd with rfl | hd
        · decide
        · exact ih1 d hd
    · intro d hd
      simp at hd
      rcases hd with rfl | hd
      · exact h d (by simp)
      · exact ih2 d hd

/-- **`canonicalize_name` of a single-line name is single-line** (it can neither create nor remove a line break: the
separators it rewrites are `-`, `_`, `.`) -/
theorem canonicalizeName_singleLine (s : String) (h : SingleLine s) : SingleLine (canonicalizeName s) := by
  unfold SingleLine canonicalizeName
  rw [String.toList_ofList]
  intro c hc
  simp only [List.mem_map] at hc
  obtain ⟨d, hd, rfl⟩ := hc
  exact lowerChar_not_nl d (collapseSeps_noNL false _ h d hd)


/-! ### the uri format and the SPDX fallback names -/

theorem space_of_nl (c : Char) (h : isNL c = true) : isSpace c = true := by
  simp [isNL] at h
  rcases h with rfl | rfl <;> decide

theorem isWordAscii_not_nl (c : Char) (h : isWordAscii c = true) : isNL c = false := by
  cases hn : isNL c with
  | false => rfl
  | true =>
    simp [isNL] at hn
    rcases hn with rfl | rfl <;> simp [isWordAscii, isDigit, isLowerAlpha] at h

/-- **a value accepted by the schema's `format: uri` contains no line break** (no white space at all after the scheme) -/
theorem uriFormat_singleLine (u : String) (h : uriFormatMatch u.toList = true) : SingleLine u := by
  unfold SingleLine
  generalize u.toList = s at h
  unfold uriFormatMatch at h
  simp only [Bool.and_eq_true] at h
  obtain ⟨_, h2⟩ := h
  have hsplit : s = s.takeWhile isWordAscii ++ s.dropWhile isWordAscii := (List.takeWhile_append_dropWhile).symm
  intro c hc
  rw [hsplit] at hc
  rcases List.mem_append.1 hc with hc | hc
  · exact isWordAscii_not_nl c (takeWhile_all_mem isWordAscii s c hc)
  · cases hd : s.dropWhile isWordAscii with
    | nil => rw [hd] at hc; simp at hc
    | cons x rest =>
      rw [hd] at h2 hc
      split at h2
      · rename_i rest' heq
        simp at heq
        obtain ⟨rfl, rfl⟩ := heq
        simp only [Bool.and_eq_true, List.all_eq_true] at h2
        simp at hc
        rcases hc with rfl | hc
        · decide
        · have := h2.2 c hc
          cases hn : isNL c with
          | false => rfl
          | true => rw [space_of_nl c hn] at this; simp at this
      · simp at h2

theorem fallbackNames_singleLine (kv : String × String) (h : kv ∈ Gen.licenseFallbackNames) : SingleLine kv.2 := by
  have tbl : ∀ kv ∈ Gen.licenseFallbackNames, SingleLine kv.2 := by decide
  exact tbl kv h

/-! ### what remains trusted: printers only -/

/-- the verbatim parts of the `[tool.poetry.dependencies]` entries are single-line (what the validator guarantees) -/
def DependencySourcesSingleLine (tool : ToolT) : Prop :=
  ∀ d ∈ tool.dependencies, SingleLine d.1 ∧ ∀ spec ∈ d.2,
    (∀ k ∈ Gen.singleLineDependencyKeys, ∀ v, spec.kvs.lookup k = some v → SingleLine v) ∧ (∀ e ∈ spec.extras, SingleLine e)

/-- **The trusted base of `validated_render_parse` once requires-python, the extras names and the dependency sources
are validated: printers and two tables.**  Each field states the exact character-level fact needed (no CR, no LF in
the output) and the property that owns the printer. -/
structure Printers (proj : ProjectT) (tool : ToolT) (spdx : String → Option License) (extras rd : List String)
    (fp : String) : Prop where
  /-- C02/C15 — `format_python_constraint(python_constraint)` (legacy Requires-Python): the printed constraint
  (`str(VersionRange)`, `==V`, or the `>=X.Y, !=A.B.*, …` form) contains no CR/LF -/
  formatPython : SingleLine fp
  /-- C02 — Provides-Extra: every configured extra is `canonicalize_name` of a key of the extras table of its style
  (`canonicalize_name` itself is modelled: `canonicalizeName_singleLine`) -/
  extrasCanonical : ∀ e ∈ extras, ∃ n ∈ proj.optionalDependencyNames ++ tool.extraNames, e = canonicalizeName n
  /-- C10 — `Dependency.to_pep_508()`: no CR/LF in a Requires-Dist line when the parts it prints verbatim (name, url,
  branch, tag, rev, subdirectory, extras) have none; the other parts are printed from parsed objects: the
  constraint (C15 text), the marker (C13 text), a percent-encoded path, a PEP 508 requirement re-printed (C10) -/
  requiresDist : DependencySourcesSingleLine tool → ∀ d ∈ rd, SingleLine d
  /-- schema validation (fastjsonschema engine, trusted) accepted [tool.poetry] homepage / repository / documentation,
  which the schema restricts by `format: uri`; the format's regular expression is modelled (`uriFormatMatch`, pinned
  to the vendored source text) and PROVED line-free (`uriFormat_singleLine`) -/
  toolLinksFormat : ∀ u, (tool.homepage = some u ∨ tool.repository = some u ∨ tool.documentation = some u) →
    uriFormatMatch u.toList = true
  /-- `license_by_id` (trusted lookup) returns the SPDX table's entry: for the few licences whose SPDX *name* is
  printed (`NameNeeded`: supported ids without a classifier name) that is one of `Gen.licenseFallbackNames`,
  regenerated from spdx/data/licenses.json and PROVED line-free by `decide` -/
  spdxTable : ∀ raw l, spdx raw = some l → NameNeeded l → (l.id, l.name) ∈ Gen.licenseFallbackNames

theorem toMeta_version (p : Pkg) (texts : List String) (fp : String) (m : Meta) (h : p.toMeta texts fp = .ok m) :
    ∃ v, Version.parse p.version = .ok v ∧ m.version = v.toString := by
  unfold Pkg.toMeta at h
  simp only [bind, Except.bind, pure, Except.pure] at h
  cases hv : Version.parse p.version with
  | error e => simp [hv] at h
  | ok v =>
    refine ⟨v, rfl, ?_⟩
    simp only [hv] at h
    cases h1 : firstPerson p.authors with
    | error e => simp [h1] at h
    | ok a =>
      simp only [h1] at h
      cases h2 : p.allClassifiers with
      | error e => simp [h2] at h
      | ok cl =>
        simp only [h2] at h
        cases h3 : firstPerson p.maintainers with
        | error e => simp [h3] at h
        | ok b =>
          simp only [h3] at h
          simp at h
          rw [← h]

/-- **validation ⇒ guard, printers only**: with the validator of the current source (it checks requires-python, the
keys of both extras tables and the verbatim parts of `[tool.poetry.dependencies]` — `decide` on the regenerated key
tables; the build breaks if the source drops one of them) nothing but `Printers` is assumed.  The Version header needs
no trust: it is `to_string()` of the parsed version, whose characters are digits, lower-case letters, `.`, `!`, `+`
(`parsed_version_toString_singleLine`, a C03/C15 text fact proved in Proofs/MetaVersionText.lean). -/
theorem validated_guard_printers
    (proj : ProjectT) (tool : ToolT) (spdx : String → Option License) (stored : Option String)
    (extras rd texts : List String) (fp : String) (m : Meta)
    (hv : validateSingleLine proj tool = [])
    (hm : (configure proj tool spdx stored extras rd).toMeta texts fp = .ok m)
    (hp : Printers proj tool spdx extras rd fp) :
    NoLineBreakInSingleLineFields m := by
  have hnames := validated_extra_names proj tool hv
  have hopt := hnames.1 (by decide)
  have hext := hnames.2 (by decide)
  have hdeps : DependencySourcesSingleLine tool := validated_dependency_sources proj tool (by decide) hv
  obtain ⟨v, hpv, hmv⟩ := toMeta_version _ texts fp m hm
  refine validated_guard_full proj tool spdx stored extras rd texts fp m hv hm
    { version := by rw [hmv]; exact parsed_version_toString_singleLine _ v hpv
      requiresPython := validated_requiresPython proj tool (by decide) hv
      formatPython := hp.formatPython
      extras := ?_
      requiresDist := hp.requiresDist hdeps
      toolLinks := fun u hu => uriFormat_singleLine u (hp.toolLinksFormat u hu)
      spdxNames := fun raw l hl hn => fallbackNames_singleLine _ (hp.spdxTable raw l hl hn) }
  intro e he
  obtain ⟨n, hn, rfl⟩ := hp.extrasCanonical e he
  apply canonicalizeName_singleLine
  rcases List.mem_append.1 hn with h | h
  · exact hopt n h
  · exact hext n h

end Poetry.Meta
