/-
Text level of the constraint round trip (helper lemmas for C15): `parse_constraint`'s splitting (`||`, the
and-separator) on printed texts, and what it computes on the texts of versions, ranges and `||` joins.
-/
import PoetryVerif.Proofs.VRangeTextC
import PoetryVerif.Proofs.VRangeDiffU

set_option linter.unusedSimpArgs false
set_option linter.unusedVariables false
set_option linter.unnecessarySeqFocus false

namespace Poetry
open Poetry.Marker
open Version

/-! ### groups: texts without blanks and bars -/

/-- neither a blank nor a bar -/
def oPlain (c : Char) : Prop := isSpace c = false ∧ c ≠ '|'

/-- the text of one `||` group as the printer writes it: not empty, no blanks, no bars, not ending in a comma -/
structure GroupText (g : List Char) : Prop where
  plain : ∀ c ∈ g, oPlain c
  last : ∃ pre d, g = pre ++ [d] ∧ d ≠ ','

theorem GroupText.ne_nil {g : List Char} (h : GroupText g) : g ≠ [] := by
  obtain ⟨pre, d, hg, _⟩ := h.last
  rw [hg]; simp

theorem GroupText.head {g : List Char} (h : GroupText g) : ∃ c cs, g = c :: cs ∧ isSpace c = false := by
  cases g with
  | nil => exact absurd rfl h.ne_nil
  | cons c cs => exact ⟨c, cs, rfl, (h.plain c (by simp)).1⟩

theorem GroupText.getLast {g : List Char} (h : GroupText g) :
    ∃ d, g.getLast? = some d ∧ isSpace d = false ∧ d ≠ ',' := by
  obtain ⟨pre, d, hg, hd⟩ := h.last
  exact ⟨d, by rw [hg]; simp, (h.plain d (by rw [hg]; simp)).1, hd⟩

theorem pieceOk_oPlain (l : List Char) (h : ∀ c ∈ l, oPlain c) : PieceOk Generic.sepOr l := by
  have := PieceOk_plain_append Generic.sepOr oPlain (fun c cs hc => sepOr_none c cs hc) l [] h (PieceOk_nil _)
  simpa using this

/-- the `||` separator as the printer writes it -/
def barSep : List Char := [' ', '|', '|', ' ']

theorem joinC_head (S : List Char) (c : Char) (cs : List Char) (ps : List (List Char)) :
    ∃ r, joinC S ((c :: cs) :: ps) = c :: r := by
  cases ps with
  | nil => exact ⟨cs, rfl⟩
  | cons q qs => exact ⟨cs ++ S ++ joinC S (q :: qs), by simp [joinC]⟩

theorem vtext_strip_ends (l : List Char) (c : Char) (cs : List Char) (hl : l = c :: cs) (hc : isSpace c = false)
    (d : Char) (hd : l.getLast? = some d) (hds : isSpace d = false) : VParser.strip l = l := by
  unfold VParser.strip
  rw [hl, dropSpaces_of_head c cs hc, ← hl]
  exact rstripSpaces_last l d hd hds

theorem mapM_ok_length {α β : Type} (f : α → PyM β) : ∀ (l : List α) (ys : List β), l.mapM f = .ok ys →
    ys.length = l.length
  | [], ys, h => by simp [List.mapM_nil, pure, Except.pure] at h; subst h; rfl
  | a :: as, ys, h => by
    rw [List.mapM_cons] at h
    cases ha : f a with
    | error e => simp [ha, bind, Except.bind] at h
    | ok y =>
      cases has : as.mapM f with
      | error e => simp [ha, has, bind, Except.bind] at h
      | ok ys' =>
        simp [ha, has, bind, Except.bind, pure, Except.pure] at h
        subst h
        simp [mapM_ok_length f as ys' has]

/-- the splitting steps of `_parse_constraint` on `g0 || g1 || …` -/
theorem parseConstraintAux_split (b : Bool) (g : List Char) (gs : List (List Char))
    (hg : ∀ q ∈ g :: gs, GroupText q) (hstar : g.head? ≠ some '*') :
    (String.ofList (joinC barSep (g :: gs)) == "*") = false ∧
    VParser.splitOr (VParser.strip (joinC barSep (g :: gs))) = g :: gs := by
  obtain ⟨c, cs, hgc, hcs⟩ := (hg g (by simp)).head
  obtain ⟨r, hr⟩ := joinC_head barSep c cs gs
  have hne : c ≠ '*' := by intro e; rw [hgc, e] at hstar; simp at hstar
  have hst : (String.ofList (joinC barSep (g :: gs)) == "*") = false := by
    rw [hgc, hr]; exact ofList_ne_star c r hne
  obtain ⟨dl, hdl, hdls⟩ := joinC_lastP barSep (fun d => isSpace d = false) gs g (by
    intro q hq
    obtain ⟨d, h1, h2, _⟩ := (hg q hq).getLast
    exact ⟨d, h1, h2⟩)
  have hstrip : VParser.strip (joinC barSep (g :: gs)) = joinC barSep (g :: gs) :=
    vtext_strip_ends _ c r (by rw [hgc, hr]) hcs dl hdl hdls
  have hor : Generic.reSplit Generic.sepOr (joinC barSep (g :: gs)) = g :: gs :=
    reSplit_join Generic.sepOr barSep (by simp [barSep]) (fun c cs h => sepOr_bars c cs h) g gs (by
      intro q hq
      exact ⟨pieceOk_oPlain q (hg q hq).plain, (hg q hq).head⟩)
  exact ⟨hst, by rw [hstrip, splitOr_eq_reSplit, hor]⟩

/-- **`_parse_constraint` on a text with one group** -/
theorem parseConstraintAux_one (b : Bool) (g : List Char) (hg : GroupText g) (hstar : g.head? ≠ some '*') :
    VParser.parseConstraintAux (String.ofList g) b = VParser.parseGroup g b := by
  obtain ⟨hst, hsp⟩ := parseConstraintAux_split b g [] (by intro q hq; simp at hq; subst hq; exact hg) hstar
  simp only [joinC] at hst hsp
  unfold VParser.parseConstraintAux
  simp only [hst, Bool.false_eq_true, if_false, String.toList_ofList, hsp, List.mapM_cons, List.mapM_nil, bind,
    Except.bind, pure, Except.pure]
  cases VParser.parseGroup g b with
  | error e => rfl
  | ok c => rfl

/-- **`_parse_constraint` on `g0 || g1 || …`** (two groups or more): the groups are parsed one by one and united -/
theorem parseConstraintAux_many (b : Bool) (g g' : List Char) (gs : List (List Char))
    (hg : ∀ q ∈ g :: g' :: gs, GroupText q) (hstar : g.head? ≠ some '*') (xs : List VC)
    (hm : (g :: g' :: gs).mapM (fun q => VParser.parseGroup q b) = .ok xs) :
    VParser.parseConstraintAux (String.ofList (joinC barSep (g :: g' :: gs))) b = VC.unionOf xs := by
  obtain ⟨hst, hsp⟩ := parseConstraintAux_split b g (g' :: gs) hg hstar
  have hlen := mapM_ok_length _ _ _ hm
  unfold VParser.parseConstraintAux
  simp only [hst, Bool.false_eq_true, if_false, String.toList_ofList, hsp, hm, bind, Except.bind]
  cases xs with
  | nil => simp at hlen
  | cons x xs' =>
    cases xs' with
    | nil => simp at hlen
    | cons y ys => rfl

/-- one group without a comma: `parse_single_constraint` on it -/
theorem parseGroup_plain (b : Bool) (l : List Char) (h : ∀ c ∈ l, vPlain c) :
    VParser.parseGroup l b = VParser.parseSingle l b := by
  simp only [VParser.parseGroup, rstripCommas_plain l h, rstripSpaces_plain l h, splitAnd_plain l h,
    List.mapM_cons, List.mapM_nil, bind, Except.bind, pure, Except.pure]
  cases VParser.parseSingle l b with
  | error e => rfl
  | ok c => rfl

/-! ### the and-separator between the two clauses of a range -/

theorem andSep?_comma1 (d : Char) (hd : VParser.badPrev d = false) (hd2 : d ≠ '-') (c : Char) (cs : List Char)
    (h1 : c ≠ '-') (h2 : c ≠ ' ') (h3 : c ≠ ',') (h4 : c ≠ '\n') :
    VParser.andSep? (some d) (',' :: c :: cs) = some (c :: cs) := by
  have e2 : (d == '-') = false := by simpa using hd2
  have hcs : VParser.countSpaces (c :: cs) = 0 := countSpaces_of_head c cs h2
  have htail : VParser.andSepTail (c :: cs) = some (c :: cs) := by
    unfold VParser.andSepTail
    split
    · rename_i heq; simp at heq; exact absurd heq.1 h1
    · simp only [hcs]
      rw [VParser.andSepTail.go]
      simp only [List.drop_zero]
      split
      · rename_i heq; cases heq
      · rename_i heq; simp at heq; exact absurd heq.1 h4
      · rename_i heq; simp at heq; exact absurd heq.1 h3
      · rfl
  simp [VParser.andSep?, hd, VParser.countSpaces, VParser.andSep?.go, e2, htail]

/-- **the and-separator splits `p1,p2` into the two clauses** -/
theorem splitAnd_two (p1 p2 : List Char) (h1 : ∀ c ∈ p1, vPlain c) (h2 : ∀ c ∈ p2, vPlain c)
    (hl : ∃ pre d, p1 = pre ++ [d] ∧ VParser.badPrev d = false ∧ d ≠ '-')
    (hh : ∃ c cs, p2 = c :: cs ∧ c ≠ '-') :
    VParser.splitAnd (p1 ++ ',' :: p2) = [p1, p2] := by
  obtain ⟨pre, d, hpd, hd1, hd2⟩ := hl
  obtain ⟨c, cs, hp2, hc⟩ := hh
  have hcp := h2 c (by rw [hp2]; simp)
  unfold VParser.splitAnd
  have e : (p1 ++ ',' :: p2).length + 1 = p1.length + (p2.length + 2) := by simp; omega
  rw [e, splitAndAux_piece p1 h1 (p2.length + 2) none (',' :: p2) []]
  have hlast : lastOr none p1 = some d := by rw [hpd]; exact lastOr_append_singleton none pre d
  rw [hlast, hp2]
  rw [VParser.splitAndAux.eq_def]
  simp only [andSep?_comma1 d hd1 hd2 c cs hc (vPlain_ne_space c hcp) hcp.2.2 (notSpace_ne_newline c hcp.1)]
  have hcons : ((',' :: c :: cs).take ((',' :: c :: cs).length - (c :: cs).length)).getLast? = some ',' := by
    have : (',' :: c :: cs).length - (c :: cs).length = 1 := by simp
    rw [this]; rfl
  simp only [hcons]
  rw [← hp2, splitAndAux_plain _ (some ',') p2 [] h2 (by simp)]
  simp

theorem parseGroup_two (b : Bool) (p1 p2 : List Char) (h1 : ∀ c ∈ p1, vPlain c) (h2 : ∀ c ∈ p2, vPlain c)
    (hl : ∃ pre d, p1 = pre ++ [d] ∧ VParser.badPrev d = false ∧ d ≠ '-')
    (hh : ∃ c cs, p2 = c :: cs ∧ c ≠ '-') (hne : p2 ≠ []) (c1 c2 : VC)
    (e1 : VParser.parseSingle p1 b = .ok c1) (e2 : VParser.parseSingle p2 b = .ok c2) :
    VParser.parseGroup (p1 ++ ',' :: p2) b = VC.intersect c1 c2 := by
  have hlast : ∃ d, (p1 ++ ',' :: p2).getLast? = some d ∧ isSpace d = false ∧ d ≠ ',' := by
    have hne' : p2 ≠ [] := hne
    refine ⟨p2.getLast hne', ?_, (h2 _ (List.getLast_mem hne')).1, (h2 _ (List.getLast_mem hne')).2.2⟩
    rw [List.getLast?_append]
    simp [List.getLast?_cons_cons, List.getLast?_eq_some_getLast hne']
    cases p2 with
    | nil => exact absurd rfl hne
    | cons x xs => simp [List.getLast?_eq_some_getLast]
  obtain ⟨d, hd, hds, hdc⟩ := hlast
  simp only [VParser.parseGroup, rstripCommas_last _ d hd hdc, rstripSpaces_last _ d hd hds,
    splitAnd_two p1 p2 h1 h2 hl hh, List.mapM_cons, List.mapM_nil, e1, e2, bind, Except.bind, pure, Except.pure,
    List.foldlM_cons, List.foldlM_nil]
  cases VC.intersect c1 c2 <;> rfl

/-! ### the comma is an intersection that gives the range back -/

/-- **`>=v` ∩ `<w` is the range `>=v,<w` itself** (for a well-formed inhabited range) -/
theorem intersect_lo_hi (v w : Version) (i j : Bool) (hwf : (⟨some v, some w, i, j⟩ : VRange).WF)
    (hne : (⟨some v, some w, i, j⟩ : VRange).NE) :
    VC.intersect (.single (.rng ⟨some v, none, i, false⟩)) (.single (.rng ⟨none, some w, false, j⟩)) =
      .ok (.single (.rng ⟨some v, some w, i, j⟩)) := by
  have hlt : vk v < vk w := hwf.2 v w rfl rfl
  have a1 := VRange.allowedMax_eq_of_lt (r := ⟨none, some w, false, j⟩) (M := w) rfl (by intro m hm; cases hm)
  have a2 := VRange.allowedMax_eq_of_lt (r := ⟨some v, some w, i, j⟩) (M := w) rfl
    (by intro m hm; cases hm; exact ne_of_lt hlt)
  simp only at a1 a2
  have hsl : (⟨none, some w, false, j⟩ : VRange).isStrictlyLower ⟨some v, none, i, false⟩ = false := by
    have := hne
    unfold VRange.NE VRange.isStrictlyLower at this
    unfold VRange.isStrictlyLower
    rw [a2] at this; rw [a1]
    exact this
  have hlow : (⟨some v, none, i, false⟩ : VRange).allowsLower ⟨none, some w, false, j⟩ = false := by
    simp [VRange.allowsLower, VRange.allowedMin]
  have hhigh : (⟨some v, none, i, false⟩ : VRange).allowsHigher ⟨none, some w, false, j⟩ = true := by
    unfold VRange.allowsHigher
    rw [a1]
    simp [VRange.allowedMax]
  have heq : optVerEq (some v) (some w) = false := by
    simp only [optVerEq]
    exact (eqv_false_iff v w).2 (ne_of_lt hlt)
  show RC.rngIntersectRng _ _ = _
  rw [VRange.rngIntersectRng_eq]
  simp only [hlow, hsl, hhigh, Bool.false_eq_true, if_false, if_true, VRange.interFinish, Option.isNone_some,
    Bool.false_and, heq]

/-! ### the text of a member and what `parse_constraint` does with it -/

def loOp (i : Bool) : List Char := if i then ['>', '='] else ['>']
def hiOp (j : Bool) : List Char := if j then ['<', '='] else ['<']

/-- the characters `VersionRange.__str__` / `Version.__str__` write for a member that is not spelt with a
wildcard -/
def memberChars : RC → List Char
  | .ver v => v.text.toList
  | .rng ⟨some mn, some mx, i, j⟩ => loOp i ++ mn.text.toList ++ ',' :: (hiOp j ++ mx.text.toList)
  | .rng ⟨some mn, none, i, _⟩ => loOp i ++ mn.text.toList
  | .rng ⟨none, some mx, _, j⟩ => hiOp j ++ mx.text.toList
  | .rng ⟨none, none, _, _⟩ => ['*']

/-- not spelt with a wildcard -/
def RC.plainText : RC → Prop
  | .ver _ => True
  | .rng r => r.isSingleWildcardRange = false

theorem memberChars_toStr (m : RC) (h : m.plainText) : m.toStr = .ok (String.ofList (memberChars m)) := by
  cases m with
  | ver v => simp [RC.toStr, memberChars]
  | rng r =>
    obtain ⟨mn, mx, i, j⟩ := r
    have h' : (⟨mn, mx, i, j⟩ : VRange).isSingleWildcardRange = false := h
    cases mn <;> cases mx <;> cases i <;> cases j <;>
      simp [RC.toStr, VRange.toStr, memberChars, h', loOp, hiOp] <;>
      exact str_eq_of_toList (by simp)

theorem loOp_plain (i : Bool) : ∀ c ∈ loOp i, vPlain c := by
  intro c hc; cases i <;> simp [loOp] at hc <;> (try rcases hc with rfl | rfl) <;> (try subst hc) <;>
    (unfold vPlain; decide)

theorem hiOp_plain (j : Bool) : ∀ c ∈ hiOp j, vPlain c := by
  intro c hc; cases j <;> simp [hiOp] at hc <;> (try rcases hc with rfl | rfl) <;> (try subst hc) <;>
    (unfold vPlain; decide)

theorem oPlain_of_vPlain {c : Char} (h : vPlain c) : oPlain c := ⟨h.1, h.2.1⟩

theorem TextOK.lastChar {v : Version} (h : TextOK v) :
    ∃ pre d, v.text.toList = pre ++ [d] ∧ VParser.badPrev d = false ∧ d ≠ '-' ∧ d ≠ ',' := by
  obtain ⟨pre, d, hpd, hd⟩ := h.last
  have hv := h.chars d (by rw [hpd]; simp)
  exact ⟨pre, d, hpd, vchar_badPrev d hv, hd, vchar_ne d ',' hv (by decide)⟩

/-- the bounds of a member carry re-parsable texts -/
def RC.TextOK (m : RC) : Prop := ∀ e ∈ m.bounds, Poetry.TextOK e

theorem loClause_parse (b : Bool) (i : Bool) {v : Version} (h : TextOK v) :
    VParser.parseSingle (loOp i ++ v.text.toList) b = .ok (.single (.rng ⟨some v, none, i, false⟩)) := by
  cases i
  · exact parseSingle_gt_text b h
  · exact parseSingle_ge_text b h

theorem hiClause_parse (b : Bool) (j : Bool) {v : Version} (h : TextOK v) :
    VParser.parseSingle (hiOp j ++ v.text.toList) b = .ok (.single (.rng ⟨none, some v, false, j⟩)) := by
  cases j
  · exact parseSingle_lt_text b h
  · exact parseSingle_le_text b h

theorem loClause_plain (i : Bool) {v : Version} (h : TextOK v) : ∀ c ∈ loOp i ++ v.text.toList, vPlain c := by
  intro c hc
  rcases List.mem_append.1 hc with hc | hc
  · exact loOp_plain i c hc
  · exact h.plain c hc

theorem hiClause_plain (j : Bool) {v : Version} (h : TextOK v) : ∀ c ∈ hiOp j ++ v.text.toList, vPlain c := by
  intro c hc
  rcases List.mem_append.1 hc with hc | hc
  · exact hiOp_plain j c hc
  · exact h.plain c hc

theorem groupText_of_vPlain (l : List Char) (h : ∀ c ∈ l, vPlain c) (hne : l ≠ []) : GroupText l := by
  refine ⟨fun c hc => oPlain_of_vPlain (h c hc), l.dropLast, l.getLast hne, (List.dropLast_concat_getLast hne).symm, ?_⟩
  exact (h _ (List.getLast_mem hne)).2.2

/-- **the text of a member is one `||` group** -/
theorem memberChars_group (m : RC) (ht : m.TextOK) : GroupText (memberChars m) := by
  cases m with
  | ver v =>
    have hv : TextOK v := ht v (by simp [RC.bounds_ver])
    obtain ⟨d, ds, hd, _⟩ := hv.head
    exact groupText_of_vPlain _ hv.plain (by simp [memberChars, hd])
  | rng r =>
    obtain ⟨mn, mx, i, j⟩ := r
    cases mn with
    | none =>
      cases mx with
      | none =>
        exact groupText_of_vPlain ['*'] (by intro c hc; simp at hc; subst hc; unfold vPlain; decide) (by simp)
      | some w =>
        have hw : TextOK w := ht w (by simp [RC.bounds, RC.view, VRange.bounds, RC.min, RC.max])
        obtain ⟨d, ds, hd, _⟩ := hw.head
        exact groupText_of_vPlain _ (hiClause_plain j hw) (by simp [memberChars, hd])
    | some v =>
      have hv : TextOK v := ht v (by simp [RC.bounds, RC.view, VRange.bounds, RC.min, RC.max])
      cases mx with
      | none =>
        obtain ⟨d, ds, hd, _⟩ := hv.head
        exact groupText_of_vPlain _ (loClause_plain i hv) (by simp [memberChars, hd])
      | some w =>
        have hw : TextOK w := ht w (by simp [RC.bounds, RC.view, VRange.bounds, RC.min, RC.max])
        obtain ⟨pre, d, hpd, _, _, hdc⟩ := hw.lastChar
        refine ⟨?_, loOp i ++ v.text.toList ++ ',' :: (hiOp j ++ pre), d, by simp [memberChars, hpd], hdc⟩
        intro c hc
        simp only [memberChars, List.mem_append, List.mem_cons] at hc
        rcases hc with (hc | hc) | rfl | hc | hc
        · exact oPlain_of_vPlain (loOp_plain i c hc)
        · exact oPlain_of_vPlain (hv.plain c hc)
        · unfold oPlain; decide
        · exact oPlain_of_vPlain (hiOp_plain j c hc)
        · exact oPlain_of_vPlain (hw.plain c hc)

theorem memberChars_head (m : RC) (ht : m.TextOK) (hany : m ≠ .rng ⟨none, none, false, false⟩) (htidy : m.Tidy) :
    (memberChars m).head? ≠ some '*' := by
  cases m with
  | ver v =>
    have hv : TextOK v := ht v (by simp [RC.bounds_ver])
    obtain ⟨d, ds, hd, hdig⟩ := hv.head
    simp only [memberChars, hd, List.head?_cons, ne_eq, Option.some.injEq]
    exact digit_ne d '*' hdig (by decide)
  | rng r =>
    obtain ⟨mn, mx, i, j⟩ := r
    cases mn <;> cases mx <;> cases i <;> cases j <;> simp [memberChars, loOp, hiOp] <;>
      (first | (exact absurd rfl hany) | (exact absurd (htidy.1 rfl) (by decide)) | (exact absurd (htidy.2 rfl) (by decide)))

/-- **`parse_constraint`'s group parser gives a member back from its text** -/
theorem parseGroup_member (b : Bool) (m : RC) (hwf : m.WF) (hne : m.NE) (htidy : m.Tidy) (ht : m.TextOK) :
    VParser.parseGroup (memberChars m) b = .ok (.single m) := by
  cases m with
  | ver v =>
    have hv : TextOK v := ht v (by simp [RC.bounds_ver])
    rw [show memberChars (.ver v) = v.text.toList from rfl, parseGroup_plain b _ hv.plain]
    exact parseSingle_bare_text b hv
  | rng r =>
    obtain ⟨mn, mx, i, j⟩ := r
    cases mn with
    | none =>
      have hi : i = false := htidy.1 rfl
      subst hi
      cases mx with
      | none =>
        have hj : j = false := htidy.2 rfl
        subst hj
        rw [show memberChars (.rng ⟨none, none, false, false⟩) = ['*'] from rfl,
          parseGroup_plain b _ (by intro c hc; simp at hc; subst hc; unfold vPlain; decide)]
        simp [VParser.parseSingle, VParser.isAnyPattern, VParser.isAnyPattern.go, VParser.atEnd, VC.any, VRange.any]
      | some w =>
        have hw : TextOK w := ht w (by simp [RC.bounds, RC.view, VRange.bounds, RC.min, RC.max])
        rw [show memberChars (.rng ⟨none, some w, false, j⟩) = hiOp j ++ w.text.toList from rfl,
          parseGroup_plain b _ (hiClause_plain j hw)]
        exact hiClause_parse b j hw
    | some v =>
      have hv : TextOK v := ht v (by simp [RC.bounds, RC.view, VRange.bounds, RC.min, RC.max])
      cases mx with
      | none =>
        have hj : j = false := htidy.2 rfl
        subst hj
        rw [show memberChars (.rng ⟨some v, none, i, false⟩) = loOp i ++ v.text.toList from rfl,
          parseGroup_plain b _ (loClause_plain i hv)]
        exact loClause_parse b i hv
      | some w =>
        have hw : TextOK w := ht w (by simp [RC.bounds, RC.view, VRange.bounds, RC.min, RC.max])
        obtain ⟨pre, d, hpd, hd1, hd2, _⟩ := hv.lastChar
        have hh : ∃ c cs, hiOp j ++ w.text.toList = c :: cs ∧ c ≠ '-' := by
          cases j
          · exact ⟨'<', w.text.toList, rfl, by decide⟩
          · exact ⟨'<', '=' :: w.text.toList, rfl, by decide⟩
        have hne2 : hiOp j ++ w.text.toList ≠ [] := by
          obtain ⟨c, cs, h, _⟩ := hh; rw [h]; simp
        rw [show memberChars (.rng ⟨some v, some w, i, j⟩) =
            (loOp i ++ v.text.toList) ++ ',' :: (hiOp j ++ w.text.toList) from by simp [memberChars],
          parseGroup_two b _ _ (loClause_plain i hv) (hiClause_plain j hw)
            ⟨loOp i ++ pre, d, by simp [hpd], hd1, hd2⟩ hh hne2 _ _ (loClause_parse b i hv) (hiClause_parse b j hw)]
        exact intersect_lo_hi v w i j hwf hne

end Poetry
