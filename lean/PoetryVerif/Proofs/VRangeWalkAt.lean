/-
The merge walk of `VersionUnion.intersect` at one probe (helper lemmas for C04/C05): the per-probe version of
`unionIntersectLoop_sem` — no regularity for every bound, only that the probe is fine for the members' end shapes
(`RC.OKat`: regular for an exclusive lower end, an inclusive upper end, a `Version` member).
-/
import PoetryVerif.Proofs.VRangeSharp

set_option linter.unusedSimpArgs false
set_option linter.unusedVariables false

namespace Poetry
open Version

namespace RC

/-- a member admits a fine probe iff the probe lies in the plain interval of its view (effective ends) -/
theorem allows_iff_den_at (c : RC) (p : Version) (hc : c.WF) (hp : p.wf = true) (ok : c.OKat p) :
    c.allows p = true ↔ c.den p := by
  cases c with
  | ver x =>
    have hx : x.wf = true := hc
    rw [show (RC.ver x).allows p = x.allows p from rfl, ver_allows_iff x p hx hp ok]
    simp only [den, view, RC.min, RC.max, RC.imin, RC.imax, VRange.den, VRange.denLo, VRange.denHi, VRange.allowedMax,
      Bool.true_or, if_true]
    exact ⟨fun h => ⟨le_of_eq h.symm, le_of_eq h⟩, fun h => le_antisymm h.2 h.1⟩
  | rng r => exact VRange.allows_iff_den_at r p hc.1 hp ok

end RC

theorem anyAllows_false_of_den_at {l : List RC} {p : Version} (hl : ∀ c ∈ l, c.WF ∧ c.OKat p) (hp : p.wf = true)
    (h : ∀ c ∈ l, ¬ c.den p) : anyAllows l p = false := by
  cases hq : anyAllows l p
  · rfl
  · exfalso
    obtain ⟨c, hc, hcp⟩ := List.any_eq_true.1 hq
    exact h c hc ((RC.allows_iff_den_at c p (hl c hc).1 hp (hl c hc).2).1 hcp)

/-- **the merge walk of `VersionUnion.intersect` at a probe that is fine for every member**: with enough fuel it
returns, the parts it collects admit the probe exactly when a member of each list does, and the probe is fine for
every new part -/
theorem unionIntersectLoop_at (p : Version) (hp : p.wf = true) : ∀ (fuel : Nat) (ours theirs : List RC) (acc : List VC),
    ours.length + theirs.length < fuel →
    (∀ c ∈ ours, c.WF ∧ c.OKat p ∧ c.RngNoLocal) → (∀ c ∈ theirs, c.WF ∧ c.OKat p ∧ c.RngNoLocal) →
    SortedRC ours → SortedRC theirs →
    ∃ parts, VC.unionIntersectLoop fuel ours theirs acc = .ok parts ∧
      (anyPart parts p ↔ (anyPart acc p ∨ (anyAllows ours p = true ∧ anyAllows theirs p = true))) ∧
      ∀ q ∈ parts, q ∈ acc ∨ (q.notUnion ∧ ∀ x ∈ q.flatten, x.WF ∧ x.OKat p ∧ x.RngNoLocal)
  | 0, ours, theirs, acc, hf, _, _, _, _ => by omega
  | fuel + 1, [], theirs, acc, _, _, _, _, _ => by
    refine ⟨acc, by simp [VC.unionIntersectLoop], ?_, fun q hq => Or.inl hq⟩
    simp [anyAllows]
  | fuel + 1, o :: os, [], acc, _, _, _, _, _ => by
    refine ⟨acc, by simp [VC.unionIntersectLoop], ?_, fun q hq => Or.inl hq⟩
    simp [anyAllows]
  | fuel + 1, o :: os, t :: ts, acc, hf, ho, ht, hso, hst => by
    obtain ⟨how, hoo, hol⟩ := ho o (by simp)
    obtain ⟨htw, hto, htl⟩ := ht t (by simp)
    obtain ⟨i, hi, hinu, himem, hiex⟩ := RC.intersect_exact_at o t how htw p hp hoo hto hol htl
    have hacc : (anyPart (if i.isEmpty then acc else acc ++ [i]) p ↔ (anyPart acc p ∨ i.allowsPlain p = true)) := by
      by_cases he : i.isEmpty = true
      · have : i.allowsPlain p = false := by
          cases i <;> simp [VC.isEmpty] at he
          simp [VC.allowsPlain, VC.flatten]
        simp [he, this]
      · simp only [he, Bool.false_eq_true, if_false, anyPart, List.mem_append, List.mem_singleton]
        constructor
        · rintro ⟨q, hq | hq, hqp⟩
          · exact Or.inl ⟨q, hq, hqp⟩
          · exact Or.inr (hq ▸ hqp)
        · rintro (⟨q, hq, hqp⟩ | h)
          · exact ⟨q, Or.inl hq, hqp⟩
          · exact ⟨i, Or.inr rfl, h⟩
    have hnew : ∀ q ∈ (if i.isEmpty then acc else acc ++ [i]), q ∈ acc ∨
        (q.notUnion ∧ ∀ x ∈ q.flatten, x.WF ∧ x.OKat p ∧ x.RngNoLocal) := by
      intro q hq
      split at hq
      · exact Or.inl hq
      · simp only [List.mem_append, List.mem_singleton] at hq
        rcases hq with h | rfl
        · exact Or.inl h
        · exact Or.inr ⟨hinu, himem⟩
    simp only [VC.unionIntersectLoop, hi, bind, Except.bind]
    by_cases hh : t.view.allowsHigher o.view = true
    · simp only [hh, if_true]
      obtain ⟨parts, hparts, hsem, hstruct⟩ := unionIntersectLoop_at p hp fuel os (t :: ts)
        (if i.isEmpty then acc else acc ++ [i]) (by simp at hf ⊢; omega)
        (fun c hc => ho c (by simp [hc])) ht (List.pairwise_cons.1 hso).2 hst
      refine ⟨parts, hparts, ?_, fun q hq => ?_⟩
      · rw [hsem, hacc, hiex]
        have key : o.allows p = true → anyAllows ts p = false := by
          intro hop
          have hod := (RC.allows_iff_den_at o p how hp hoo).1 hop
          exact anyAllows_false_of_den_at (fun c hc => ⟨(ht c (by simp [hc])).1, (ht c (by simp [hc])).2.1⟩) hp
            (drop_ours hh hst p hod)
        rw [anyAllows_cons o os, anyAllows_cons t ts]
        cases h1 : o.allows p <;> cases h2 : t.allows p <;> cases h3 : anyAllows os p <;>
          cases h4 : anyAllows ts p <;> simp_all
      · rcases hstruct q hq with h | h
        · exact hnew q h
        · exact Or.inr h
    · simp only [hh, Bool.false_eq_true, if_false]
      simp only [Bool.not_eq_true] at hh
      obtain ⟨parts, hparts, hsem, hstruct⟩ := unionIntersectLoop_at p hp fuel (o :: os) ts
        (if i.isEmpty then acc else acc ++ [i]) (by simp at hf ⊢; omega)
        ho (fun c hc => ht c (by simp [hc])) hso (List.pairwise_cons.1 hst).2
      refine ⟨parts, hparts, ?_, fun q hq => ?_⟩
      · rw [hsem, hacc, hiex]
        have key : t.allows p = true → anyAllows os p = false := by
          intro htp
          have htd := (RC.allows_iff_den_at t p htw hp hto).1 htp
          exact anyAllows_false_of_den_at (fun c hc => ⟨(ho c (by simp [hc])).1, (ho c (by simp [hc])).2.1⟩) hp
            (drop_theirs hh hso p htd)
        rw [anyAllows_cons o os, anyAllows_cons t ts]
        cases h1 : o.allows p <;> cases h2 : t.allows p <;> cases h3 : anyAllows os p <;>
          cases h4 : anyAllows ts p <;> simp_all
      · rcases hstruct q hq with h | h
        · exact hnew q h
        · exact Or.inr h

end Poetry
