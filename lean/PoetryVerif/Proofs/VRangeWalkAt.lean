/-
The merge walk of `VersionUnion.intersect` at one probe (helper lemmas for C04/C05): the per-probe version of
`unionIntersectLoop_sem` — no regularity for every bound, only that the probe is fine for the members' end shapes
(`RC.OKat`: regular for an exclusive lower end, an inclusive upper end, a `Version` member).
-/
import PoetryVerif.Proofs.VRangeSharp

set_option linter.unusedSimpArgs false
set_option linter.unusedVariables false

namespace Poetry
open Version

namespace RC

/-- a member admits a fine probe iff the probe lies in the plain interval of its view (effective ends) -/
theorem allows_iff_den_at (c : RC) (p : Version) (hc : c.WF) (hp : p.wf = true) (ok : c.OKat p) :
    c.allows p = true ↔ c.den p := by
  cases c with
  | ver x =>
    have hx : x.wf = true := hc
    rw [show (RC.ver x).allows p = x.allows p from rfl, ver_allows_iff x p hx hp ok]
    simp only [den, view, RC.min, RC.max, RC.imin, RC.imax, VRange.den, VRange.denLo, VRange.denHi, VRange.allowedMax,
      Bool.true_or, if_true]
    exact ⟨fun h => ⟨le_of_eq h.symm, le_of_eq h⟩, fun h => le_antisymm h.2 h.1⟩
  | rng r => exact VRange.allows_iff_den_at r p hc.1 hp ok

end RC

theorem anyAllows_false_of_den_at {l : List RC} {p : Version} (hl : ∀ c ∈ l, c.WF ∧ c.OKat p) (hp : p.wf = true)
    (h : ∀ c ∈ l, ¬ c.den p) : anyAllows l p = false := by
  cases hq : anyAllows l p
  · rfl
  · exfalso
    obtain ⟨c, hc, hcp⟩ := List.any_eq_true.1 hq
    exact h c hc ((RC.allows_iff_den_at c p (hl c hc).1 hp (hl c hc).2).1 hcp)

/-- **the merge walk of `VersionUnion.intersect` at a probe that is fine for every member**: with enough fuel it
returns, the parts it collects admit the probe exactly when a member of each list does, and the probe is fine for
every new part -/
theorem unionIntersectLoop_at (p : Version) (hp : p.wf = true) : ∀ (fuel : Nat) (ours theirs : List RC) (acc : List VC),
    ours.length + theirs.length < fuel →
    (∀ c ∈ ours, c.WF ∧ c.OKat p ∧ c.RngNoLocal) → (∀ c ∈ theirs, c.WF ∧ c.OKat p ∧ c.RngNoLocal) →
    SortedRC ours → SortedRC theirs →
    ∃ parts, VC.unionIntersectLoop fuel ours theirs acc = .ok parts ∧
      (anyPart parts p ↔ (anyPart acc p ∨ (anyAllows ours p = true ∧ anyAllows theirs p = true))) ∧
      ∀ q ∈ parts, q ∈ acc ∨ (q.notUnion ∧ ∀ x ∈ q.flatten, x.WF ∧ x.OKat p ∧ x.RngNoLocal)
  | 0, ours, theirs, acc, hf, _, _, _, _ => by omega
  | fuel + 1, [], theirs, acc, _, _, _, _, _ => by
    refine ⟨acc, by simp [VC.unionIntersectLoop], ?_, fun q hq => Or.inl hq⟩
    simp [anyAllows]
  | fuel + 1, o :: os, [], acc, _, _, _, _, _ => by
    refine ⟨acc, by simp [VC.unionIntersectLoop], ?_, fun q hq => Or.inl hq⟩
    simp [anyAllows]
  | fuel + 1, o :: os, t :: ts, acc, hf, ho, ht, hso, hst => by
    obtain ⟨how, hoo, hol⟩ := ho o (by simp)
    obtain ⟨htw, hto, htl⟩ := ht t (by simp)
    obtain ⟨i, hi, hinu, himem, hiex⟩ := RC.intersect_exact_at o t how htw p hp hoo hto hol htl
    have hacc : (anyPart (if i.isEmpty then acc else acc ++ [i]) p ↔ (anyPart acc p ∨ i.allowsPlain p = true)) := by
      by_cases he : i.isEmpty = true
      · have : i.allowsPlain p = false := by
          cases i <;> simp [VC.isEmpty] at he
          simp [VC.allowsPlain, VC.flatten]
        simp [he, this]
      · simp only [he, Bool.false_eq_true, if_false, anyPart, List.mem_append, List.mem_singleton]
        constructor
        · rintro ⟨q, hq | hq, hqp⟩
          · exact Or.inl ⟨q, hq, hqp⟩
          · exact Or.inr (hq ▸ hqp)
        · rintro (⟨q, hq, hqp⟩ | h)
          · exact ⟨q, Or.inl hq, hqp⟩
          · exact ⟨i, Or.inr rfl, h⟩
    have hnew : ∀ q ∈ (if i.isEmpty then acc else acc ++ [i]), q ∈ acc ∨
        (q.notUnion ∧ ∀ x ∈ q.flatten, x.WF ∧ x.OKat p ∧ x.RngNoLocal) := by
      intro q hq
      split at hq
      · exact Or.inl hq
      · simp only [List.mem_append, List.mem_singleton] at hq
        rcases hq with h | rfl
        · exact Or.inl h
        · exact Or.inr ⟨hinu, himem⟩
    simp only [VC.unionIntersectLoop, hi, bind, Except.bind]
    by_cases hh : t.view.allowsHigher o.view = true
    · simp only [hh, if_true]
      obtain ⟨parts, hparts, hsem, hstruct⟩ := unionIntersectLoop_at p hp fuel os (t :: ts)
        (if i.isEmpty then acc else acc ++ [i]) (by simp at hf ⊢; omega)
        (fun c hc => ho c (by simp [hc])) ht (List.pairwise_cons.1 hso).2 hst
      refine ⟨parts, hparts, ?_, fun q hq => ?_⟩
      · rw [hsem, hacc, hiex]
        have key : o.allows p = true → anyAllows ts p = false := by
          intro hop
          have hod := (RC.allows_iff_den_at o p how hp hoo).1 hop
          exact anyAllows_false_of_den_at (fun c hc => ⟨(ht c (by simp [hc])).1, (ht c (by simp [hc])).2.1⟩) hp
            (drop_ours hh hst p hod)
        rw [anyAllows_cons o os, anyAllows_cons t ts]
        cases h1 : o.allows p <;> cases h2 : t.allows p <;> cases h3 : anyAllows os p <;>
          cases h4 : anyAllows ts p <;> simp_all
      · rcases hstruct q hq with h | h
        · exact hnew q h
        · exact Or.inr h
    · simp only [hh, Bool.false_eq_true, if_false]
      simp only [Bool.not_eq_true] at hh
      obtain ⟨parts, hparts, hsem, hstruct⟩ := unionIntersectLoop_at p hp fuel (o :: os) ts
        (if i.isEmpty then acc else acc ++ [i]) (by simp at hf ⊢; omega)
        ho (fun c hc => ht c (by simp [hc])) hso (List.pairwise_cons.1 hst).2
      refine ⟨parts, hparts, ?_, fun q hq => ?_⟩
      · rw [hsem, hacc, hiex]
        have key : t.allows p = true → anyAllows os p = false := by
          intro htp
          have htd := (RC.allows_iff_den_at t p htw hp hto).1 htp
          exact anyAllows_false_of_den_at (fun c hc => ⟨(ho c (by simp [hc])).1, (ho c (by simp [hc])).2.1⟩) hp
            (drop_theirs hh hso p htd)
        rw [anyAllows_cons o os, anyAllows_cons t ts]
        cases h1 : o.allows p <;> cases h2 : t.allows p <;> cases h3 : anyAllows os p <;>
          cases h4 : anyAllows ts p <;> simp_all
      · rcases hstruct q hq with h | h
        · exact hnew q h
        · exact Or.inr h

/-! ### the merge walks of `allows_any` / `allows_all` over range members, at one probe -/

/-- a range member the probe is fine for -/
def RC.RngAt (c : RC) (p : Version) : Prop := ∃ r, c = .rng r ∧ r.WF ∧ r.OKat p

theorem RC.RngAt.base {c : RC} {p : Version} (h : c.RngAt p) : c.WF ∧ c.OKat p := by
  obtain ⟨r, rfl, h1, h2⟩ := h; exact ⟨h1, h2⟩

theorem rng_allowsAll_sound_at (r s : VRange) (hr : r.WF) (hs : s.WF)
    (h : RC.allowsAll (.rng r) (.rng s) = true) (p : Version) (hp : p.wf = true) (or' : r.OKat p) (os : s.OKat p)
    (hsp : s.allows p = true) : r.allows p = true := by
  simp only [RC.allowsAll, Bool.and_eq_true, Bool.not_eq_true'] at h
  have hd := (VRange.allows_iff_den_at s p hs.1 hp os).1 hsp
  exact (VRange.allows_iff_den_at r p hr.1 hp or').2
    ⟨VRange.allowsLower_false h.1 p hd.1, VRange.allowsHigher_false h.2 p hd.2⟩

theorem rng_allowsAny_false_sound_at (r s : VRange) (hr : r.WF) (hs : s.WF)
    (h : RC.allowsAny (.rng r) (.rng s) = .ok false) (p : Version) (hp : p.wf = true) (or' : r.OKat p)
    (os : s.OKat p) : ¬ (r.allows p = true ∧ s.allows p = true) := by
  rintro ⟨hap, hbp⟩
  simp only [RC.allowsAny, VRange.isStrictlyHigher, Except.ok.injEq, Bool.not_eq_false', Bool.or_eq_true] at h
  have hd1 := (VRange.allows_iff_den_at r p hr.1 hp or').1 hap
  have hd2 := (VRange.allows_iff_den_at s p hs.1 hp os).1 hbp
  rcases h with h | h
  · exact VRange.strictlyLower_true h p ⟨hd2.2, hd1.1⟩
  · exact VRange.strictlyLower_true h p ⟨hd1.2, hd2.1⟩

/-- **the merge walk of `VersionUnion.allows_any` at a fine probe**: a "no" is right at the probe -/
theorem unionAllowsAnyLoop_at (p : Version) (hp : p.wf = true) : ∀ (fuel : Nat) (ours theirs : List RC),
    ours.length + theirs.length < fuel →
    (∀ c ∈ ours, c.RngAt p) → (∀ c ∈ theirs, c.RngAt p) → SortedRC ours → SortedRC theirs →
    ∃ b, VC.unionAllowsAnyLoop fuel ours theirs = .ok b ∧
      (b = false → ¬ (anyAllows ours p = true ∧ anyAllows theirs p = true))
  | 0, ours, theirs, hf, _, _, _, _ => by omega
  | fuel + 1, [], theirs, _, _, _, _, _ => by
    refine ⟨false, by simp [VC.unionAllowsAnyLoop], fun _ => ?_⟩
    simp [anyAllows]
  | fuel + 1, o :: os, [], _, _, _, _, _ => by
    refine ⟨false, by simp [VC.unionAllowsAnyLoop], fun _ => ?_⟩
    simp [anyAllows]
  | fuel + 1, o :: os, t :: ts, hf, ho, ht, hso, hst => by
    obtain ⟨ro, hro, how, hoo⟩ := ho o (by simp)
    obtain ⟨rt, hrt, htw, hto⟩ := ht t (by simp)
    subst hro; subst hrt
    obtain ⟨a, ha⟩ := RC.allowsAny_ok (.rng ro) (.rng rt)
    simp only [VC.unionAllowsAnyLoop, ha, bind, Except.bind]
    cases a with
    | true => exact ⟨true, by simp [pure, Except.pure], fun h => by cases h⟩
    | false =>
      simp only [Bool.false_eq_true, if_false]
      have hpair : ¬ ((RC.rng ro).allows p = true ∧ (RC.rng rt).allows p = true) :=
        rng_allowsAny_false_sound_at ro rt how htw ha p hp hoo hto
      by_cases hh : (RC.rng rt).view.allowsHigher (RC.rng ro).view = true
      · simp only [hh, if_true]
        obtain ⟨b, hb, hsem⟩ := unionAllowsAnyLoop_at p hp fuel os (.rng rt :: ts) (by simp at hf ⊢; omega)
          (fun c hc => ho c (by simp [hc])) ht (List.pairwise_cons.1 hso).2 hst
        refine ⟨b, hb, fun hbf => ?_⟩
        have ih := hsem hbf
        have key : (RC.rng ro).allows p = true → anyAllows ts p = false := by
          intro hop
          have hod := (RC.allows_iff_den_at (.rng ro) p how hp hoo).1 hop
          exact anyAllows_false_of_den_at (fun c hc => (ht c (by simp [hc])).base) hp (drop_ours hh hst p hod)
        rw [anyAllows_cons (.rng ro) os, anyAllows_cons (.rng rt) ts] at *
        cases h1 : (RC.rng ro).allows p <;> cases h2 : (RC.rng rt).allows p <;> cases h3 : anyAllows os p <;>
          cases h4 : anyAllows ts p <;> simp_all
      · simp only [hh, Bool.false_eq_true, if_false]
        simp only [Bool.not_eq_true] at hh
        obtain ⟨b, hb, hsem⟩ := unionAllowsAnyLoop_at p hp fuel (.rng ro :: os) ts (by simp at hf ⊢; omega)
          ho (fun c hc => ht c (by simp [hc])) hso (List.pairwise_cons.1 hst).2
        refine ⟨b, hb, fun hbf => ?_⟩
        have ih := hsem hbf
        have key : (RC.rng rt).allows p = true → anyAllows os p = false := by
          intro htp
          have htd := (RC.allows_iff_den_at (.rng rt) p htw hp hto).1 htp
          exact anyAllows_false_of_den_at (fun c hc => (ho c (by simp [hc])).base) hp (drop_theirs hh hso p htd)
        rw [anyAllows_cons (.rng ro) os, anyAllows_cons (.rng rt) ts] at *
        cases h1 : (RC.rng ro).allows p <;> cases h2 : (RC.rng rt).allows p <;> cases h3 : anyAllows os p <;>
          cases h4 : anyAllows ts p <;> simp_all

/-- **the merge walk of `VersionUnion.allows_all` at a fine probe**: a "yes" is right at the probe -/
theorem unionAllowsAllLoop_at (p : Version) (hp : p.wf = true) : ∀ (fuel : Nat) (ours theirs : List RC),
    ours.length + theirs.length < fuel → (∀ c ∈ ours, c.RngAt p) → (∀ c ∈ theirs, c.RngAt p) →
    ∃ b, VC.unionAllowsAllLoop fuel ours theirs = .ok b ∧
      (b = true → anyAllows theirs p = true → anyAllows ours p = true)
  | 0, ours, theirs, hf, _, _ => by omega
  | fuel + 1, ours, [], _, _, _ => by
    refine ⟨true, by cases ours <;> simp [VC.unionAllowsAllLoop], fun _ h => ?_⟩
    simp [anyAllows] at h
  | fuel + 1, [], t :: ts, _, _, _ => by
    exact ⟨false, by simp [VC.unionAllowsAllLoop], fun h => by cases h⟩
  | fuel + 1, o :: os, t :: ts, hf, ho, ht => by
    obtain ⟨ro, hro, how, hoo⟩ := ho o (by simp)
    obtain ⟨rt, hrt, htw, hto⟩ := ht t (by simp)
    subst hro; subst hrt
    simp only [VC.unionAllowsAllLoop]
    by_cases hall : RC.allowsAll (.rng ro) (.rng rt) = true
    · simp only [hall, if_true]
      obtain ⟨b, hb, hsem⟩ := unionAllowsAllLoop_at p hp fuel (.rng ro :: os) ts (by simp at hf ⊢; omega)
        ho (fun c hc => ht c (by simp [hc]))
      refine ⟨b, hb, fun hbt hth => ?_⟩
      rw [anyAllows_cons (.rng rt) ts, Bool.or_eq_true] at hth
      rcases hth with hth | hth
      · have := rng_allowsAll_sound_at ro rt how htw hall p hp hoo hto hth
        rw [anyAllows_cons]; simp [RC.allows, this]
      · exact hsem hbt hth
    · simp only [hall, Bool.false_eq_true, if_false]
      obtain ⟨b, hb, hsem⟩ := unionAllowsAllLoop_at p hp fuel os (.rng rt :: ts) (by simp at hf ⊢; omega)
        (fun c hc => ho c (by simp [hc])) ht
      refine ⟨b, hb, fun hbt hth => ?_⟩
      have := hsem hbt hth
      rw [anyAllows_cons]; simp [this]

end Poetry
