/-
`VersionUnion.of` on range members: the merged result is sorted and separated (each member strictly below the
next and not adjacent to it) — helper lemmas for C05.
-/
import PoetryVerif.Proofs.VRangeSort

set_option linter.unusedSimpArgs false
set_option linter.unusedVariables false

namespace Poetry
open Version

namespace VRange

/-- `a`'s lower end is not above `b`'s: `b` does not reach lower than `a` -/
def minLE (a b : VRange) : Prop := b.allowsLower a = false

theorem minPart_nonneg {y x : VRange} (h : 0 ≤ minPart y x) : y.allowsLower x = false := by
  unfold minPart at h; unfold allowsLower allowedMin
  cases hy : y.min <;> cases hx : x.min <;> cases hiy : y.imin <;> cases hix : x.imin <;>
    simp [hy, hx, hiy, hix, lt_iff, gt_iff] at * <;> grind

theorem minLE_of_cmp {x y : VRange} (h : ¬ cmp y x < 0) : minLE x y := by
  apply minPart_nonneg
  rw [cmp_eq] at h
  rcases minPart_range y x with h1 | h1 | h1 <;> simp [h1] at h ⊢

/-- same lower end (up to version equality) -/
def MinEq (a b : VRange) : Prop :=
  ((a.min = none ∧ b.min = none) ∨ ∃ x y, a.min = some x ∧ b.min = some y ∧ vk x = vk y) ∧ a.imin = b.imin

theorem MinEq.refl (a : VRange) : MinEq a a := by
  refine ⟨?_, rfl⟩
  cases h : a.min with
  | none => exact Or.inl ⟨rfl, rfl⟩
  | some x => exact Or.inr ⟨x, x, rfl, rfl, rfl⟩

theorem hull_minEq {a b : VRange} (hta : a.Tidy) (htb : b.Tidy) (h : minLE a b) : MinEq (hull a b) a := by
  unfold minLE at h
  by_cases h1 : a.allowsLower b = true
  · have e1 : (hull a b).min = a.min := by simp [hull, h1]
    have e2 : (hull a b).imin = a.imin := by simp [hull, h1]
    unfold MinEq; rw [e1, e2]; exact MinEq.refl a
  · simp only [Bool.not_eq_true] at h1
    have e1 : (hull a b).min = b.min := by simp [hull, h1]
    have e2 : (hull a b).imin = b.imin := by simp [hull, h1]
    unfold MinEq; rw [e1, e2]
    clear e1 e2
    unfold allowsLower allowedMin at h h1
    cases ha : a.min with
    | none =>
      cases hb : b.min with
      | none => simp [ha, hb, hta.1 ha, htb.1 hb]
      | some y => simp [ha, hb] at h1
    | some x =>
      cases hb : b.min with
      | none => simp [ha, hb] at h
      | some y =>
        simp only [ha, hb, lt_iff, gt_iff] at h h1
        have hxy : vk y = vk x := by
          by_cases c1 : vk x < vk y
          · simp [c1] at h1
          · by_cases c2 : vk y < vk x
            · simp [c2] at h
            · exact le_antisymm (not_lt.1 c1) (not_lt.1 c2)
        refine ⟨Or.inr ⟨y, x, rfl, rfl, hxy⟩, ?_⟩
        simp [hxy] at h h1
        cases hia : a.imin <;> cases hib : b.imin <;> simp_all

theorem sl_congr {a b x : VRange} (h : MinEq a b) : x.isStrictlyLower a = x.isStrictlyLower b := by
  obtain ⟨hm, hi⟩ := h
  unfold isStrictlyLower allowedMin
  rcases hm with ⟨h1, h2⟩ | ⟨p, q, h1, h2, h3⟩
  · simp [h1, h2]
  · rw [h1, h2, hi]
    cases hx : x.allowedMax with
    | none => rfl
    | some M =>
      simp only
      have e1 : Version.lt M p = Version.lt M q := by
        apply bool_eq_of_iff; rw [lt_iff, lt_iff, h3]
      have e2 : Version.gt M p = Version.gt M q := by
        apply bool_eq_of_iff; rw [gt_iff, gt_iff, h3]
      rw [e1, e2]

theorem adj_congr {a b x : VRange} (h : MinEq a b) : x.isAdjacentTo a = x.isAdjacentTo b := by
  obtain ⟨hm, hi⟩ := h
  unfold isAdjacentTo
  rcases hm with ⟨h1, h2⟩ | ⟨p, q, h1, h2, h3⟩
  · simp [h1, h2, hi]
  · rw [h1, h2, hi]
    have : optVerEq x.max (some p) = optVerEq x.max (some q) := by
      cases hx : x.max with
      | none => rfl
      | some M =>
        simp only [optVerEq]
        apply bool_eq_of_iff; rw [eqv_iff, eqv_iff, h3]
    rw [this]

theorem allowsLower_congr_right {a b x : VRange} (h : MinEq a b) : x.allowsLower a = x.allowsLower b := by
  obtain ⟨hm, hi⟩ := h
  unfold allowsLower allowedMin
  rcases hm with ⟨h1, h2⟩ | ⟨p, q, h1, h2, h3⟩
  · rw [h1, h2]; cases x.min <;> rfl
  · rw [h1, h2, hi]
    cases hx : x.min with
    | none => rfl
    | some M =>
      simp only
      have e1 : Version.lt M p = Version.lt M q := by
        apply bool_eq_of_iff; rw [lt_iff, lt_iff, h3]
      have e2 : Version.gt M p = Version.gt M q := by
        apply bool_eq_of_iff; rw [gt_iff, gt_iff, h3]
      rw [e1, e2]

/-- `a` strictly below `b`, `b` inhabited, `b` strictly below `c`: `a` strictly below `c` -/
theorem sl_trans {a b c : VRange} (h1 : a.isStrictlyLower b = true) (hb : b.NE)
    (h2 : b.isStrictlyLower c = true) : a.isStrictlyLower c = true := by
  unfold NE at hb
  unfold isStrictlyLower allowedMin at *
  cases ha : a.allowedMax <;> cases hbm : b.min <;> cases hbM : b.allowedMax <;> cases hc : c.min <;>
    cases hia : a.imax <;> cases hib : b.imin <;> cases hibx : b.imax <;> cases hic : c.imin <;>
    simp [ha, hbm, hbM, hc, hia, hib, hibx, hic, lt_iff, gt_iff] at * <;> grind

/-- the top of `b` reaches at least as high as the top of `a`: whatever `a` is not strictly below, `b` is not either -/
theorem sl_mono_hi {a b x : VRange} (h : a.allowsHigher b = false) (h1 : a.isStrictlyLower x = false) :
    b.isStrictlyLower x = false := by
  unfold allowsHigher at h
  unfold isStrictlyLower allowedMin at *
  cases ha : a.allowedMax <;> cases hb : b.allowedMax <;> cases hx : x.min <;>
    cases hia : a.imax <;> cases hib : b.imax <;> cases hix : x.imin <;>
    simp [ha, hb, hx, hia, hib, hix, lt_iff, gt_iff] at * <;> grind

/-- `is_strictly_lower` reads only the effective top and `include_max` of its receiver -/
theorem sl_congr_left {a b x : VRange} (h1 : a.allowedMax = b.allowedMax) (h2 : a.imax = b.imax) :
    a.isStrictlyLower x = b.isStrictlyLower x := by
  unfold isStrictlyLower; rw [h1, h2]

theorem hull_top (a b : VRange) (ha : a.WF) (hb : b.WF) :
    ((hull a b).allowedMax = if a.allowsHigher b then a.allowedMax else b.allowedMax) ∧
    ((hull a b).imax = if a.allowsHigher b then a.imax else b.imax) := by
  have hw := hull_WF a b ha hb
  have key : ∀ X : VRange, X.WF → (hull a b).max = X.max → (hull a b).imax = X.imax →
      (hull a b).allowedMax = X.allowedMax := by
    intro X hX e1 e2
    cases hM : X.max with
    | none => rw [allowedMax_none (e1.trans hM), allowedMax_none hM]
    | some M =>
      rw [allowedMax_eq_of_lt (e1.trans hM) (fun m hm => ne_of_lt (hw.2 m M hm (e1.trans hM))),
        allowedMax_eq_of_lt hM (fun m hm => ne_of_lt (hX.2 m M hm hM)), e2]
  cases h : a.allowsHigher b
  · have e1 : (hull a b).max = b.max := by simp [hull, h]
    have e2 : (hull a b).imax = b.imax := by simp [hull, h]
    exact ⟨by simpa using key b hb e1 e2, by simpa using e2⟩
  · have e1 : (hull a b).max = a.max := by simp [hull, h]
    have e2 : (hull a b).imax = a.imax := by simp [hull, h]
    exact ⟨by simpa using key a ha e1 e2, by simpa using e2⟩

/-- the hull of an inhabited range with one that does not start lower is inhabited -/
theorem hull_NE {a b : VRange} (ha : a.WF) (hb : b.WF) (hta : a.Tidy) (htb : b.Tidy) (hne : a.NE)
    (h : minLE a b) : (hull a b).NE := by
  unfold NE
  rw [sl_congr (hull_minEq hta htb h)]
  obtain ⟨t1, t2⟩ := hull_top a b ha hb
  cases hh : a.allowsHigher b
  · rw [hh] at t1 t2
    rw [sl_congr_left (b := b) (by simpa using t1) (by simpa using t2)]
    exact sl_mono_hi hh hne
  · rw [hh] at t1 t2
    rw [sl_congr_left (b := a) (by simpa using t1) (by simpa using t2)]
    exact hne

end VRange
/-! ### the merge loop on range members -/

def IsRng (c : RC) : Prop := ∃ r, c = .rng r

/-- the same for the reversed accumulator of the merge loop (head = highest) -/
def RevChain : List RC → Prop
  | [] => True
  | [_] => True
  | y :: x :: l => Sep x y ∧ RevChain (x :: l)

theorem consecSep_snoc : ∀ (l : List RC) (x y : RC), ConsecSep (l ++ [x]) → Sep x y → ConsecSep (l ++ [x, y])
  | [], x, y, _, h => ⟨h, trivial⟩
  | [a], x, y, h1, h => ⟨h1.1, h, trivial⟩
  | a :: b :: l, x, y, h1, h => by
    have := consecSep_snoc (b :: l) x y h1.2 h
    exact ⟨h1.1, this⟩

theorem revChain_reverse : ∀ l : List RC, RevChain l → ConsecSep l.reverse
  | [], _ => trivial
  | [a], _ => trivial
  | y :: x :: l, h => by
    have ih := revChain_reverse (x :: l) h.2
    simp only [List.reverse_cons, List.append_assoc, List.singleton_append] at ih ⊢
    exact consecSep_snoc l.reverse x y (by simpa using ih) h.1

/-- what the theorem assumes of (and guarantees for) a member -/
def RngMember (c : RC) : Prop := c.WF ∧ c.Tidy ∧ c.NE ∧ IsRng c

theorem mergeLoop_sep : ∀ (l acc : List RC), (∀ c ∈ l ++ acc, RngMember c) →
    l.Pairwise (fun x y => VRange.minLE x.view y.view) → RevChain acc →
    (∀ last, acc.head? = some last → ∀ c ∈ l, VRange.minLE last.view c.view) →
    ∃ res, mergeLoop l acc = .ok res ∧ (∀ c ∈ res, RngMember c) ∧ ConsecSep res
  | [], acc, hm, _, hc, _ => by
    refine ⟨acc.reverse, rfl, fun c hc' => hm c (by simpa using hc'), revChain_reverse acc hc⟩
  | c :: rest, [], hm, hp, _, _ => by
    simp only [mergeLoop]
    have hp' := List.pairwise_cons.1 hp
    exact mergeLoop_sep rest [c] (fun x hx => hm x (by simp at hx ⊢; grind)) hp'.2 trivial
      (fun last hl x hx => by simp at hl; subst hl; exact hp'.1 x hx)
  | c :: rest, last :: more, hm, hp, hc, hh => by
    have hp' := List.pairwise_cons.1 hp
    obtain ⟨hlw, hlt, hln, a, rfl⟩ := hm last (by simp)
    obtain ⟨hcw, hct, hcn, b, rfl⟩ := hm c (by simp)
    have hmin : VRange.minLE a b := hh (.rng a) rfl (.rng b) (by simp)
    simp only [mergeLoop, RC.allowsAny, bind, Except.bind, RC.view_rng, VRange.isStrictlyHigher]
    by_cases hb : (!(!(b.isStrictlyLower a || a.isStrictlyLower b)) && !(a.isAdjacentTo b)) = true
    · simp only [hb, if_true]
      simp only [Bool.not_not, Bool.and_eq_true, Bool.or_eq_true, Bool.not_eq_true'] at hb
      have hsl : a.isStrictlyLower b = true := by
        rcases hb.1 with h | h
        · have := VRange.strict_of_lower_false hcn hmin
          rw [this] at h; cases h
        · exact h
      exact mergeLoop_sep rest (.rng b :: .rng a :: more) (fun x hx => hm x (by simp at hx ⊢; grind)) hp'.2
        ⟨⟨hsl, hb.2⟩, hc⟩ (fun last hl x hx => by simp at hl; subst hl; exact hp'.1 x hx)
    · simp only [hb, Bool.false_eq_true, if_false]
      have hcond : (!(VRange.edgesTouch a b) && (b.isStrictlyLower a || a.isStrictlyLower b)) = false := by
        simp only [Bool.not_not, Bool.and_eq_true, Bool.not_eq_true', not_and, Bool.not_eq_false] at hb
        cases h1 : (b.isStrictlyLower a || a.isStrictlyLower b)
        · simp
        · have := isAdjacentTo_edgesTouch (hb h1)
          simp [this]
      rw [VRange.rcUnionSingle_rng_some a b hcond]
      simp only
      have hme := VRange.hull_minEq hlt hct hmin
      have hu : RngMember (.rng (VRange.hull a b)) :=
        ⟨VRange.hull_WF a b hlw hcw, VRange.hull_Tidy a b hlt hct, VRange.hull_NE hlw hcw hlt hct hln hmin, _, rfl⟩
      refine mergeLoop_sep rest (.rng (VRange.hull a b) :: more) ?_ hp'.2 ?_ ?_
      · intro x hx
        simp only [List.mem_append, List.mem_cons] at hx
        rcases hx with hx | rfl | hx
        · exact hm x (by simp [hx])
        · exact hu
        · exact hm x (by simp [hx])
      · cases more with
        | nil => trivial
        | cons x more' =>
          refine ⟨⟨?_, ?_⟩, hc.2⟩
          · show x.view.isStrictlyLower (VRange.hull a b) = true
            rw [VRange.sl_congr hme]; exact hc.1.1
          · show x.view.isAdjacentTo (VRange.hull a b) = false
            rw [VRange.adj_congr hme]; exact hc.1.2
      · intro last hl x hx
        simp at hl; subst hl
        show x.view.allowsLower (VRange.hull a b) = false
        rw [VRange.allowsLower_congr_right hme]
        exact hh (.rng a) rfl x (by simp [hx])

theorem RC.view_NE {c : RC} (h : c.NE) : c.view.NE := by
  cases c with
  | rng r => exact h
  | ver y =>
    have h1 : Version.lt y y = false := by rw [lt_false_iff]
    have h2 : Version.gt y y = false := by rw [gt_false_iff]
    simp [VRange.NE, VRange.isStrictlyLower, VRange.allowedMax, VRange.allowedMin, RC.view, RC.min, RC.max,
      RC.imin, RC.imax, h1, h2]

/-- consecutive separation plus inhabited members gives pairwise "strictly below" -/
theorem consecSep_sorted : ∀ l : List RC, (∀ c ∈ l, c.NE) → ConsecSep l → SortedRC l
  | [], _, _ => List.Pairwise.nil
  | [a], _, _ => by simp [SortedRC]
  | x :: y :: l, hne, h => by
    have ih : SortedRC (y :: l) := consecSep_sorted (y :: l) (fun c hc => hne c (by simp [hc])) h.2
    refine List.pairwise_cons.2 ⟨?_, ih⟩
    intro z hz
    simp only [List.mem_cons] at hz
    rcases hz with rfl | hz
    · exact h.1.1
    · exact VRange.sl_trans h.1.1 (RC.view_NE (hne y (by simp))) ((List.pairwise_cons.1 ih).1 z hz)

theorem mergeLoop_ne_nil : ∀ (l acc : List RC) (res : List RC), mergeLoop l acc = .ok res → l ++ acc ≠ [] → res ≠ []
  | [], acc, res, h, hne => by
    simp only [mergeLoop, Except.ok.injEq] at h; subst h; simpa using hne
  | c :: rest, [], res, h, _ => by
    simp only [mergeLoop] at h
    exact mergeLoop_ne_nil rest [c] res h (by simp)
  | c :: rest, last :: more, res, h, _ => by
    obtain ⟨any, hany⟩ := RC.allowsAny_ok last c
    simp only [mergeLoop, hany, bind, Except.bind] at h
    split at h
    · exact mergeLoop_ne_nil rest _ res h (by simp)
    · cases hu : rcUnionSingle last c with
      | error e => simp [hu] at h
      | ok o =>
        cases o with
        | none => simp [hu] at h
        | some u =>
          simp only [hu] at h
          exact mergeLoop_ne_nil rest _ res h (by simp)

/-- **`VersionUnion.of` on range members**: total; the result is a well-formed constraint (members
well-formed, inhabited, sorted, consecutive ones separated) and admits a regular probe iff some input does -/
theorem unionOfFlat_rng (l : List RC) (hm : ∀ c ∈ l, RngMember c) :
    ∃ res, unionOfFlat l = .ok res ∧ res.WF ∧
      ∀ p, p.wf = true → Regular (boundsOf l) p → res.allowsPlain p = anyAllows l p := by
  have hg : Good l := fun c hc => ⟨(hm c hc).1, (hm c hc).2.1⟩
  have hex : ∃ res, unionOfFlat l = .ok res ∧ res.WF := by
    unfold unionOfFlat
    by_cases h1 : l.isEmpty = true
    · exact ⟨.empty, by simp [h1], trivial⟩
    · by_cases h2 : l.any RC.isAny = true
      · refine ⟨VC.any, by simp [h1, h2], ?_⟩
        refine ⟨⟨by intro e he; simp [VRange.bounds, VRange.any] at he, by intro m M hm'; simp [VRange.any] at hm'⟩, ?_⟩
        show VRange.any.isStrictlyLower VRange.any = false
        simp [VRange.isStrictlyLower, VRange.any, VRange.allowedMax]
      · have hs := sortRCs_sorted l
        have hp : (sortRCs l).Pairwise (fun x y => VRange.minLE x.view y.view) :=
          hs.1.imp (fun {x y} hxy => VRange.minLE_of_cmp (by
            rw [← RC.lt_iff_cmp]; simp [hxy]))
        obtain ⟨merged, hmer, hmem, hsep⟩ := mergeLoop_sep (sortRCs l) []
          (fun c hc => hm c (by simpa [mem_sortRCs] using hc)) hp trivial (fun last hl => by simp at hl)
        have hne : merged ≠ [] := mergeLoop_ne_nil _ _ _ hmer (by
          simp only [List.append_nil]
          intro e
          have : l = [] := by
            cases l with
            | nil => rfl
            | cons a as =>
              have : a ∈ sortRCs (a :: as) := (mem_sortRCs a _).2 (by simp)
              rw [e] at this; simp at this
          simp [this] at h1)
        simp only [h1, h2, Bool.false_eq_true, if_false, hmer, bind, Except.bind]
        cases merged with
        | nil => exact absurd rfl hne
        | cons a as =>
          cases as with
          | nil => exact ⟨.single a, rfl, (hmem a (by simp)).1, (hmem a (by simp)).2.2.1⟩
          | cons b bs =>
            refine ⟨.union (a :: b :: bs), rfl, by simp, fun c hc => ⟨(hmem c hc).1, (hmem c hc).2.2.1⟩, ?_, hsep⟩
            exact consecSep_sorted _ (fun c hc => (hmem c hc).2.2.1) hsep
  obtain ⟨res, hres, hwf⟩ := hex
  exact ⟨res, hres, hwf, (unionOfFlat_sem l res hres hg).2.2⟩

end Poetry
