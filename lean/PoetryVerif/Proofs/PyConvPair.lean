/-
The python_version / python_full_version pairing of `_merge_single_markers`
(`_merge_python_version_single_markers`), structurally: the `python_version` marker is converted to its Python
range (`get_python_constraint_from_marker`), the range is made a `python_full_version` marker, that marker is
merged with the other one by the same-name merge, and a single-marker result is printed, rewritten
(`str.replace`, padding) and parsed again.

`PairCtx` names the four component facts; `mergePythonVersion_sound` composes them into the `merge` field of
`LeafSpec` for a python_version leaf against a python_full_version leaf.
-/
import PoetryVerif.Proofs.MarkerProjVars
import PoetryVerif.Proofs.VRangeOps

set_option linter.unusedSimpArgs false
set_option linter.unusedVariables false

namespace Poetry.Marker
open Poetry

/-- the component facts of the pairing, at leaf truth `ev` and interpreter `p`:
`G` the invariant of the operands, `Go` that of the results, `F` the invariant of the intermediate `python_full_version`
markers, `T` what is known of the text of a merged single marker, `NC` the ranges the conversion returns -/
structure PairCtx (ev : Leaf → Bool) (G Go F : Leaf → Prop) (T : Single → Prop) (NC : VC → Prop) (p : Version) :
    Prop where
  /-- the operands are admissible results -/
  out : ∀ l, G l → Go l
  /-- `get_python_constraint_from_marker` on the `python_version` operand is exact at `p` -/
  gpc : ∀ (vm : Single) (nc : VC), G (.single vm) → vm.name = "python_version" → gpcLeaf (.single vm) = .ok nc →
    NC nc ∧ nc.allowsPlain p = ev (.single vm)
  /-- `SingleMarker("python_full_version", range)` means the range -/
  mkpfv : ∀ (nc : VC) (nm : Single), NC nc → mkSingleOfC "python_full_version" (.ver nc) = .ok nm →
    F (.single nm) ∧ ev (.single nm) = nc.allowsPlain p
  /-- the `python_full_version` operand is an intermediate marker, with known text -/
  fm : ∀ (fm : Single), G (.single fm) → fm.name = "python_full_version" → F (.single fm) ∧ T fm
  /-- the intermediate markers are single markers on `python_full_version` -/
  single : ∀ l, F l → ∃ s, l = .single s ∧ s.name = "python_full_version"
  /-- equal intermediate markers mean the same -/
  congr : ∀ a b, F a → F b → Leaf.beq a b = true → ev a = ev b
  /-- the same-name merge on intermediate markers is sound -/
  inner : ∀ (d : Nat) (nm fm : Single) (im : Bool) (mm : M), F (.single nm) → F (.single fm) →
    mergeSingle d (.single nm) (.single fm) im = .ok (some mm) →
    M.Good F mm ∧ M.sem ev mm = (if im then (ev (.single nm) && ev (.single fm)) else (ev (.single nm) || ev (.single fm)))
  /-- the same-name merge returns the universal marker, the empty marker or a single-marker-like -/
  leafOnly : ∀ (d : Nat) (nm fm : Single) (im : Bool) (mm : M), F (.single nm) → F (.single fm) →
    mergeSingle d (.single nm) (.single fm) im = .ok (some mm) → mm = .any ∨ mm = .empty ∨ ∃ l, mm = .leaf l
  /-- the text of a merged single marker other than the converted operand -/
  text : ∀ (d : Nat) (nc : VC) (nm fm ms : Single) (im : Bool), NC nc →
    mkSingleOfC "python_full_version" (.ver nc) = .ok nm → F (.single fm) → T fm →
    mergeSingle d (.single nm) (.single fm) im = .ok (some (.leaf (.single ms))) →
    Leaf.beq (.single ms) (.single nm) = false → T ms
  /-- a merged single marker with known text is not a list marker (`in` / `not in` are returned as merged) -/
  notList : ∀ ms, T ms → (ms.op == "in" || ms.op == "not in") = false
  /-- printing, rewriting and re-parsing a merged single marker keeps its meaning -/
  rewrite : ∀ (ms : Single) (r : M), F (.single ms) → T ms → parseItemMarker (pyRewrite ms) = .ok r →
    M.Good Go r ∧ M.sem ev r = ev (.single ms)

variable {ev : Leaf → Bool} {G Go F : Leaf → Prop} {T : Single → Prop} {NC : VC → Prop} {p : Version}

/-- **`_merge_python_version_single_markers` is sound**, given the component facts. -/
theorem mergePythonVersion_sound (C : PairCtx ev G Go F T NC p) (depth : Nat) (s1 s2 : Single) (im : Bool) (r : M)
    (h1 : G (.single s1)) (h2 : G (.single s2))
    (hpair : (s1.name = "python_version" ∧ s2.name = "python_full_version") ∨
             (s1.name = "python_full_version" ∧ s2.name = "python_version"))
    (h : mergePythonVersion depth s1 s2 im = .ok (some r)) :
    M.Good Go r ∧ M.sem ev r =
      (if im then (ev (.single s1) && ev (.single s2)) else (ev (.single s1) || ev (.single s2))) := by
  -- which operand is the python_version marker
  obtain ⟨vm, fm, hvf, hvm, hfm, hgv, hgf, hsem⟩ : ∃ vm fm,
      (if s1.name == "python_version" then (s1, s2) else (s2, s1)) = (vm, fm) ∧
      vm.name = "python_version" ∧ fm.name = "python_full_version" ∧ G (.single vm) ∧ G (.single fm) ∧
      (if im then (ev (.single s1) && ev (.single s2)) else (ev (.single s1) || ev (.single s2))) =
        (if im then (ev (.single vm) && ev (.single fm)) else (ev (.single vm) || ev (.single fm))) := by
    rcases hpair with ⟨a, b⟩ | ⟨a, b⟩
    · exact ⟨s1, s2, by simp [a], a, b, h1, h2, rfl⟩
    · refine ⟨s2, s1, by simp [a], b, a, h2, h1, ?_⟩
      cases im <;> simp [Bool.and_comm, Bool.or_comm]
  rw [hsem]
  rw [mergePythonVersion.eq_def] at h
  dsimp only at h
  rw [hvf] at h
  dsimp only at h
  obtain ⟨nc, hnc, h⟩ := bind_ok.1 h
  obtain ⟨nm, hnm, h⟩ := bind_ok.1 h
  obtain ⟨merged, hmerged, h⟩ := bind_ok.1 h
  obtain ⟨hNC, hncp⟩ := C.gpc vm nc hgv hvm hnc
  obtain ⟨hFnm, hevnm⟩ := C.mkpfv nc nm hNC hnm
  obtain ⟨hFfm, hTfm⟩ := C.fm fm hgf hfm
  cases merged with
  | none => simp only [pure_ok] at h; cases h
  | some mm =>
    obtain ⟨hgmm, hsmm⟩ := C.inner depth nm fm im mm hFnm hFfm hmerged
    -- the merged marker means the pair
    have hmean : M.sem ev mm =
        (if im then (ev (.single vm) && ev (.single fm)) else (ev (.single vm) || ev (.single fm))) := by
      rw [hsmm, hevnm, hncp]
    simp only at h
    by_cases hb : M.beq mm (.leaf (.single nm)) = true
    · rw [if_pos hb, pure_ok] at h
      cases h
      refine ⟨by simpa using C.out _ hgv, ?_⟩
      -- the merged marker is the converted operand, which means the `python_version` operand
      cases mm with
      | leaf l =>
        have hl : F l := by simpa using hgmm
        have := C.congr l (.single nm) hl hFnm (by simpa [M.beq] using hb)
        rw [← hmean, M.sem_leaf, M.sem_leaf, this, hevnm, hncp]
      | any => simp [M.beq] at hb
      | empty => simp [M.beq] at hb
      | multi xs => simp [M.beq] at hb
      | union xs => simp [M.beq] at hb
    · rw [if_neg hb] at h
      cases mm with
      | leaf l =>
        have hl : F l := by simpa using hgmm
        obtain ⟨ms, rfl, _⟩ := C.single l hl
        simp only at h
        have hT : T ms := C.text depth nc nm fm ms im hNC hnm hFfm hTfm hmerged (by simpa [M.beq] using hb)
        rw [if_neg (by simp [C.notList ms hT])] at h
        obtain ⟨w, hw, h⟩ := bind_ok.1 h
        rw [pure_ok] at h
        obtain rfl : w = r := by simpa using h
        obtain ⟨hgw, hsw⟩ := C.rewrite ms w hl hT hw
        exact ⟨hgw, by rw [hsw, ← hmean, M.sem_leaf]⟩
      | any => simp only [pure_ok] at h; cases h; exact ⟨by simp [M.Good], hmean⟩
      | empty => simp only [pure_ok] at h; cases h; exact ⟨by simp [M.Good], hmean⟩
      | multi xs =>
        rcases C.leafOnly depth nm fm im _ hFnm hFfm hmerged with e | e | ⟨l, e⟩ <;> cases e
      | union xs =>
        rcases C.leafOnly depth nm fm im _ hFnm hFfm hmerged with e | e | ⟨l, e⟩ <;> cases e

end Poetry.Marker
