/-
C18 helper lemmas, part 10: the two leaf-level facts of marker coherence, discharged on the domain where the other
groups have constructor and text theorems (`FullQLP`, Proofs/MarkerPrint4L.lean: string variables with the four
operators and quotable values, `extra`, `python_version` with the seven operators and `in`/`not in` lists,
`python_full_version` with the seven operators).
-/
import PoetryVerif.Proofs.EqHashAlgOps
import PoetryVerif.Proofs.MarkerPrint4L
import PoetryVerif.Proofs.PyConvPoetry

set_option linter.unusedSimpArgs false
set_option linter.unusedVariables false

namespace Poetry.Marker
open Poetry Poetry.Generic

/-! ### atomic leaves keep their class: an `AtomicMultiMarker` holds a `MultiConstraint`, an `AtomicMarkerUnion` a
`UnionConstraint` — whatever `_merge_single_markers` returns -/

def AS : Leaf → Prop
  | .single _ => True
  | .amulti _ c => ∃ x cs, c = GC.multi x cs
  | .aunion _ c => ∃ ms, c = GC.union ms

theorem good_AS_lit {r : M} (h : r = .any ∨ r = .empty ∨ ∃ s, r = .leaf (.single s)) : M.Good AS r := by
  rcases h with rfl | rfl | ⟨s, rfl⟩ <;> simp [AS]

theorem parseItemMarker_AS {t : String} {r : M} (h : parseItemMarker t = .ok r) : M.Good AS r := by
  unfold parseItemMarker at h
  split at h
  · cases h
  · obtain ⟨s, _, h2⟩ := bind_ok.1 h
    rw [pure_ok] at h2; subst h2; simp [AS]
  · cases h

theorem mergeSingle_nonpy_AS (depth : Nat) (m1 m2 : Leaf) (im : Bool) (r : M) (h1 : AS m1) (h2 : AS m2)
    (hp : ((m1.name == "python_version" && m2.name == "python_full_version") ||
                (m1.name == "python_full_version" && m2.name == "python_version")) = false)
    (h : mergeSingle depth m1 m2 im = .ok (some r)) : M.Good AS r := by
  have g1 : M.Good AS (.leaf m1) := by simpa using h1
  have g2 : M.Good AS (.leaf m2) := by simpa using h2
  rw [mergeSingle.eq_def] at h
  dsimp only at h
  rw [hp] at h
  rw [if_neg Bool.false_ne_true] at h
  by_cases hn : (m1.name != m2.name) = true
  · rw [if_pos hn] at h; cases h
  rw [if_neg hn] at h
  split at h
  · cases h
  · cases h
  · rename_i c1 c2 _ _
    cases im <;> simp only [Bool.false_eq_true, if_false, if_true] at h <;>
    (obtain ⟨rc, _, h⟩ := bind_ok.1 h
     by_cases e1 : rc.isEmpty = true
     · rw [if_pos e1, pure_ok] at h; cases h; simp
     rw [if_neg e1] at h
     by_cases e2 : rc.isAny = true
     · rw [if_pos e2, pure_ok] at h; cases h; simp
     rw [if_neg e2] at h
     by_cases e3 : rc.eqv m1.c = true
     · rw [if_pos e3, pure_ok] at h; cases h; exact g1
     rw [if_neg e3] at h
     by_cases e4 : rc.eqv m2.c = true
     · rw [if_pos e4, pure_ok] at h; cases h; exact g2
     rw [if_neg e4] at h
     obtain ⟨b, _, h⟩ := bind_ok.1 h
     cases b
     · rw [if_neg Bool.false_ne_true] at h
       repeat' (first
         | (split at h)
         | (obtain ⟨_, hq, h⟩ := bind_ok.1 h)
         | (rw [pure_ok] at h))
       all_goals (first
         | (cases h; done)
         | (cases h; simp [AS]; done)
         | (cases h; exact ⟨_, rfl⟩)
         | (cases h; exact ⟨_, _, rfl⟩)
         | (cases h; exact parseItemMarker_AS (by assumption))
         | (cases h; cases hq; done)
         | (cases h; cases hq; simp [AS]; done)
         | (cases h; simp [pure, Except.pure] at hq; done)
         | (cases h; rw [pure_ok] at hq; cases hq; exact parseItemMarker_AS (by assumption))
         | skip)
     · rw [if_pos rfl] at h
       obtain ⟨s, _, h⟩ := bind_ok.1 h
       rw [pure_ok] at h; cases h; simp [AS])

theorem mergePythonVersion_AS (depth : Nat)
    (hs : ∀ m1 m2 im r, AS m1 → AS m2 → mergeSingle depth m1 m2 im = .ok (some r) → M.Good AS r)
    (s1 s2 : Single) (im : Bool) (r : M) (h : mergePythonVersion depth s1 s2 im = .ok (some r)) :
    M.Good AS r := by
  rw [mergePythonVersion.eq_def] at h
  dsimp only at h
  repeat' (first
    | (split at h)
    | (obtain ⟨_, hq, h⟩ := bind_ok.1 h)
    | (rw [pure_ok] at h))
  all_goals (first
    | (cases h; done)
    | (cases h; simp [AS]; done)
    | (cases h; exact parseItemMarker_AS (by assumption))
    | (cases h; exact hs (.single _) (.single _) _ _ True.intro True.intro (by assumption))
    | skip)

theorem mergeSingle_AS : ∀ (depth : Nat) (m1 m2 : Leaf) (im : Bool) (r : M), AS m1 → AS m2 →
    mergeSingle depth m1 m2 im = .ok (some r) → M.Good AS r := by
  intro depth
  induction depth with
  | zero =>
    intro m1 m2 im r h1 h2 h
    cases hp : ((m1.name == "python_version" && m2.name == "python_full_version") ||
                (m1.name == "python_full_version" && m2.name == "python_version")) with
    | false => exact mergeSingle_nonpy_AS 0 m1 m2 im r h1 h2 hp h
    | true =>
      rw [mergeSingle.eq_def] at h
      dsimp only at h
      rw [hp] at h
      rw [if_pos rfl] at h
      cases h
  | succ d ih =>
    intro m1 m2 im r h1 h2 h
    cases hp : ((m1.name == "python_version" && m2.name == "python_full_version") ||
                (m1.name == "python_full_version" && m2.name == "python_version")) with
    | false => exact mergeSingle_nonpy_AS (d + 1) m1 m2 im r h1 h2 hp h
    | true =>
      rw [mergeSingle.eq_def] at h
      dsimp only at h
      rw [hp] at h
      rw [if_pos rfl] at h
      split at h
      · exact mergePythonVersion_AS d ih _ _ im r h
      · cases h

/-- **atomic leaves keep their class under `_merge_single_markers`** (every operand, both merge classes) -/
theorem mergeClosed_AS : MergeClosed AS := fun l1 l2 im r h1 h2 h => mergeSingle_AS 2 l1 l2 im r h1 h2 h

/-! ### conjunction of two closed leaf predicates -/

theorem mergeClosed_and {G1 G2 : Leaf → Prop} (h1 : MergeClosed G1) (h2 : MergeClosed G2) :
    MergeClosed (fun l => G1 l ∧ G2 l) :=
  fun l1 l2 im r a b h => good_and r (h1 l1 l2 im r a.1 b.1 h) (h2 l1 l2 im r a.2 b.2 h)

theorem mergeClosed_of_leafSpec {ev : Leaf → Bool} {G : Leaf → Prop} (S : LeafSpec ev G) : MergeClosed G :=
  fun l1 l2 im r a b h => (S.merge l1 l2 im r a b h).1

/-! ### every `SingleMarker` of the domain is rebuilt by the constructor from its own key -/

theorem str_self {E : Env} {s : Single} (h : InvStrLeaf E (.single s)) :
    mkSingle s.name (itemConstraintString s.op s.value s.swapped) s.swapped = .ok s := by
  obtain ⟨hs, hN, hW⟩ := h
  obtain ⟨hx, hp, ⟨ve, hve⟩, hsw, a, hc, hax, hae, hop, hval⟩ := hs
  have hq : QuotableValue a.value := hW a (by simp [leafAtoms, Leaf.c, hc, GC.atoms, GS.atoms])
  have hca := compactAtom_str s.name hN a hax hae hq
  simp only [compactAtom, bind, Except.bind, pure, Except.pure] at hca
  rw [hsw, hop, hval]
  cases hm : mkSingle s.name (itemConstraintString a.op.str a.value false) false with
  | error e => simp [hm] at hca
  | ok s' =>
    simp only [hm, Except.ok.injEq, M.leaf.injEq, Leaf.single.injEq] at hca
    subst hca
    cases s
    simp_all [strLeafOf]

theorem extra_self {s : Single} (h : XLeafW QuotableValue (.single s)) :
    mkSingle s.name (itemConstraintString s.op s.value s.swapped) s.swapped = .ok s := by
  obtain ⟨hs, hW⟩ := h
  obtain ⟨hnm, hsw, a, hc, hax, hae, hop, hval⟩ := hs
  have hq : QuotableValue a.value := hW a (by simp [leafAtoms, Leaf.c, hc, GC.atoms, GS.atoms])
  have hca := compactAtom_extra a hax hae hq
  simp only [compactAtom, bind, Except.bind, pure, Except.pure] at hca
  rw [hsw, hop, hval, hnm]
  cases hm : mkSingle "extra" (itemConstraintString a.op.str a.value false) false with
  | error e => simp [hm] at hca
  | ok s' =>
    simp only [hm, Except.ok.injEq, M.leaf.injEq, Leaf.single.injEq] at hca
    subst hca
    cases s
    simp_all [sOfAtom]

theorem pfv3C_self {l : Leaf} (hl : Pfv3LeafC l) : ∃ s, l = .single s ∧
    mkSingle s.name (itemConstraintString s.op s.value s.swapped) s.swapped = .ok s := by
  rcases hl with ⟨sop, ops, a, b, c, hm, rfl⟩ | ⟨a, b, c, rfl⟩
  · refine ⟨_, rfl, ?_⟩
    have := mkSingle_pfvLeaf hm a [b, c]
    simpa [pfvLeafOf, itemConstraintString, padR] using this
  · exact ⟨_, rfl, by simpa [pfvCompatOf, itemConstraintString] using mkSingle_pfvCompat a b c⟩

/-- **the constructor applied to the key of a domain leaf rebuilds the leaf** -/
theorem fullQLP_self {C : String → Prop} {E : Env} {s : Single} (h : FullQLP C E (.single s)) :
    mkSingle s.name (itemConstraintString s.op s.value s.swapped) s.swapped = .ok s := by
  rcases h with (h | h) | h | h
  · rcases h with h | ⟨n, ops, gop, v, hop, hn, hv, hq, hev, hC, hl⟩
    · exact str_self h
    · cases hl
      obtain ⟨hn1, hn2⟩ := plainStringVars_facts n hn
      have := mkSingle_rev n v hn1 hv ops gop hop
      rw [hn2] at this
      exact this
  · exact extra_self h
  · obtain ⟨s', hs', h'⟩ := pvLeafL_self h
    cases hs'; exact h'
  · obtain ⟨s', hs', h'⟩ := pfv3C_self h
    cases hs'; exact h'

/-! ### the domain leaf predicate: closed under the merge, and coherent -/

/-- leaves of the domain whose atomic markers hold a constraint of their class -/
def CohDomLeaf (C : String → Prop) (E : Env) (l : Leaf) : Prop := FullQLP C E l ∧ AS l

theorem cohDomLeaf_coherent {C : String → Prop} {E : Env} {l : Leaf} (h : CohDomLeaf C E l) : EqHash.leafCoherent l := by
  cases l with
  | single s => exact ⟨s, fullQLP_self h.1, rfl⟩
  | amulti n c => exact h.2
  | aunion n c => exact h.2

theorem mergeClosed_cohDomLeaf {C : String → Prop}
    (hC : ∀ u v, C u → C v → Generic.strIn u v = true ∨ Generic.strIn v u = true)
    {E : Env} {ex : List String} (hX : E.extras = some ex) {X Y Z : Nat} (hE : EnvPy E X Y Z) :
    MergeClosed (CohDomLeaf C E) :=
  mergeClosed_and (mergeClosed_of_leafSpec (leafSpec_fullQLP hC hX hE)) mergeClosed_AS

theorem good_coherent_of_dom {C : String → Prop} {E : Env} (m : M) (h : M.Good (CohDomLeaf C E) m) :
    EqHash.mCoherent m :=
  (EqHash.mCoherent_iff_good m).2 (M.good_mono (fun l hl => cohDomLeaf_coherent hl) m h)

/-! ### items of the domain -/

mutual
theorem atomItems_mono {G H : Leaf → Prop} (hGH : ∀ l, G l → H l) : ∀ a : Atom, AtomItems G a → AtomItems H a
  | .item n op v sw, h => by intro s hs; exact hGH _ (h s hs)
  | .paren m, h => by simp only [AtomItems] at h ⊢; exact synItems_mono hGH m h
theorem synItems_mono {G H : Leaf → Prop} (hGH : ∀ l, G l → H l) : ∀ s : Syn, SynItems G s → SynItems H s
  | .one a, h => by simp only [SynItems] at h ⊢; exact atomItems_mono hGH a h
  | .more a o rest, h => by
    simp only [SynItems] at h ⊢
    exact ⟨atomItems_mono hGH a h.1, synItems_mono hGH rest h.2⟩
end

mutual
/-- an item builds a `SingleMarker`, so membership in `FullQLP` is membership in `CohDomLeaf` -/
theorem atomItems_dom {C : String → Prop} {E : Env} : ∀ a : Atom, AtomItems (FullQLP C E) a →
    AtomItems (CohDomLeaf C E) a
  | .item n op v sw, h => by intro s hs; exact ⟨h s hs, True.intro⟩
  | .paren m, h => by simp only [AtomItems] at h ⊢; exact synItems_dom m h
theorem synItems_dom {C : String → Prop} {E : Env} : ∀ s : Syn, SynItems (FullQLP C E) s →
    SynItems (CohDomLeaf C E) s
  | .one a, h => by simp only [SynItems] at h ⊢; exact atomItems_dom a h
  | .more a o rest, h => by
    simp only [SynItems] at h ⊢
    exact ⟨atomItems_dom a h.1, synItems_dom rest h.2⟩
end

/-! ### the items of the domain, one theorem per leaf form -/

variable {C : String → Prop} {E : Env}

/-- `name == "value"` / `name != "value"` on a string variable defined in `E`, quotable value -/
theorem item_string (n : String) (hn : n ∈ plainStringVars) (hev : ∃ v, E.get? n = some v) (a : Generic.Atom)
    (hx : a.x = false) (he : a.isEqNe = true) (hq : QuotableValue a.value) :
    AtomItems (FullQLP C E) (.item n a.op.str a.value false) := by
  intro s hs
  have hca := compactAtom_str n hn a hx he hq
  simp only [compactAtom, hs, bind, Except.bind, pure, Except.pure, Except.ok.injEq, M.leaf.injEq,
    Leaf.single.injEq] at hca
  subst hca
  obtain ⟨b1, b2⟩ := plainStringVars_basic hn
  refine Or.inl (Or.inl (Or.inl ⟨⟨b1, b2, hev, rfl, a, rfl, hx, he, rfl, rfl⟩, hn, ?_⟩))
  intro y hy
  simp only [leafAtoms, Leaf.c, strLeafOf, GC.atoms, GS.atoms, List.mem_singleton] at hy
  rw [hy]; exact hq

/-- `"value" in name` / `"value" not in name` on a string variable -/
theorem item_reversed (n ops : String) (gop : Generic.Op) (v : String) (hop : (ops, gop) ∈ inOps)
    (hn : n ∈ plainStringVars) (hv : PlainTok v) (hq : ValOk v) (hev : ∃ ev, E.get? n = some ev)
    (hC : gop = Generic.Op.nc → C v) : AtomItems (FullQLP C E) (.item n ops v true) := by
  intro s hs
  obtain ⟨hn1, hn2⟩ := plainStringVars_facts n hn
  have := mkSingle_rev n v hn1 hv ops gop hop
  rw [hn2, hs] at this
  cases this
  exact Or.inl (Or.inl (Or.inr ⟨n, ops, gop, v, hop, hn, hv, hq, hev, hC, rfl⟩))

/-- `extra == "value"` / `extra != "value"` -/
theorem item_extra (a : Generic.Atom) (hx : a.x = true) (he : a.isEqNe = true) (hq : QuotableValue a.value) :
    AtomItems (FullQLP C E) (.item "extra" a.op.str a.value false) := by
  intro s hs
  have hca := compactAtom_extra a hx he hq
  simp only [compactAtom, hs, bind, Except.bind, pure, Except.pure, Except.ok.injEq, M.leaf.injEq,
    Leaf.single.injEq] at hca
  subst hca
  refine Or.inl (Or.inr ⟨⟨rfl, rfl, a, rfl, hx, he, rfl, rfl⟩, ?_⟩)
  intro y hy
  simp only [leafAtoms, Leaf.c, sOfAtom, GC.atoms, GS.atoms, List.mem_singleton] at hy
  rw [hy]; exact hq

/-- `python_version op "a.b"`, the six comparison operators -/
theorem item_python_version {sop ops} (h : (sop, ops) ∈ pvOps) (a b : Nat) :
    AtomItems (FullQLP C E) (.item "python_version" ops (Version.relText [a, b]) false) := by
  intro s hs
  have := mkSingle_pvLeaf h a b
  simp only [itemConstraintString, Bool.false_eq_true, if_false] at hs
  rw [hs] at this; cases this
  exact Or.inr (Or.inl (Or.inl (Or.inl ⟨sop, ops, a, b, h, rfl⟩)))

/-- `python_version ~= "a.b"` -/
theorem item_python_version_compat (a b : Nat) :
    AtomItems (FullQLP C E) (.item "python_version" "~=" (Version.relText [a, b]) false) := by
  intro s hs
  have := mkSingle_pvCompat a b
  simp only [itemConstraintString, Bool.false_eq_true, if_false] at hs
  rw [hs] at this; cases this
  exact Or.inr (Or.inl (Or.inl (Or.inr ⟨a, b, rfl⟩)))

/-- `python_version in "a.b c.d …"` / `not in` (any run of blanks, commas, bars between the versions) -/
theorem item_python_version_list (isIn : Bool) (p0 : Nat × Nat) (rest : List (String × (Nat × Nat)))
    (hsep : ∀ q ∈ rest, SepRun q.1) :
    AtomItems (FullQLP C E) (.item "python_version" (listOp isIn) (verList2 p0 rest) false) := by
  intro s hs
  simp only [itemConstraintString, Bool.false_eq_true, if_false] at hs
  obtain ⟨s', h1, h2⟩ := pvListLeaf_built isIn p0 rest hsep
  rw [hs] at h1; cases h1
  exact Or.inr (Or.inl (Or.inr h2))

/-- `python_full_version op "x.r…"` with one to three release components (padded to three), six operators -/
theorem item_python_full_version {sop ops} (h : (sop, ops) ∈ pvOps) (x : Nat) (r : List Nat) (hr : r.length ≤ 2) :
    AtomItems (FullQLP C E) (.item "python_full_version" ops (Version.relText (x :: r)) false) := by
  intro s hs
  have := mkSingle_pfvLeaf h x r
  simp only [itemConstraintString, Bool.false_eq_true, if_false] at hs
  rw [hs] at this; cases this
  obtain ⟨b, c, hbc⟩ := padR_two hr
  rw [hbc]
  exact Or.inr (Or.inr (Or.inl ⟨sop, ops, x, b, c, h, rfl⟩))

/-- `python_full_version ~= "a.b.c"` -/
theorem item_python_full_version_compat (a b c : Nat) :
    AtomItems (FullQLP C E) (.item "python_full_version" "~=" (Version.relText [a, b, c]) false) := by
  intro s hs
  have := mkSingle_pfvCompat a b c
  simp only [itemConstraintString, Bool.false_eq_true, if_false] at hs
  rw [hs] at this; cases this
  exact Or.inr (Or.inr (Or.inr ⟨a, b, c, rfl⟩))

/-! ### the two leaf facts hold on the domain: `parse_marker` and the algebra, hypothesis-free -/

/-- **`parse_marker` on a text whose items are of the domain returns a coherent marker (in the domain)** -/
theorem parseMarker_dom (hC : ∀ u v, C u → C v → Generic.strIn u v = true ∨ Generic.strIn v u = true)
    {ex : List String} (hX : E.extras = some ex) {X Y Z : Nat} (hE : EnvPy E X Y Z)
    (text : String) (syn : Syn) (m : M) (hp : parseText text = .ok syn) (hi : SynItems (FullQLP C E) syn)
    (h : parseMarker text = .ok m) : M.Good (CohDomLeaf C E) m := by
  unfold parseMarker at h
  split at h
  · cases h; simp
  · split at h
    · cases h; simp
    · obtain ⟨syn', h1, h⟩ := bind_ok.1 h
      rw [hp] at h1; cases h1
      obtain ⟨subs, h2, h3⟩ := bind_ok.1 h
      have hg := compactSub_good (G := CohDomLeaf C E) syn subs h2 (synItems_dom syn hi)
      exact (gAt (mergeClosed_cohDomLeaf hC hX hE) defaultFuel).uniF [] subs m ((M.goodAll_iff subs).1 hg) h3

/-- **∩, ∪, cnf, dnf, `MultiMarker.of`, `MarkerUnion.of` keep markers in the domain** — every fuel and stack -/
theorem algebra_dom (hC : ∀ u v, C u → C v → Generic.strIn u v = true ∨ Generic.strIn v u = true)
    {ex : List String} (hX : E.extras = some ex) {X Y Z : Nat} (hE : EnvPy E X Y Z) (fuel : Nat) :
    GAt (CohDomLeaf C E) fuel := gAt (mergeClosed_cohDomLeaf hC hX hE) fuel

end Poetry.Marker
