/-
The text back-conversion of `_merge_python_version_single_markers` on a merged marker
`python_full_version op "a.b.c"`: for `<` / `>=` with `c = 0` the text becomes `python_version op "a.b"`
(`str.replace`, the trailing `.0` dropped), otherwise it is left alone; the re-parsed marker has the same truth
on every environment of an interpreter `X.Y.Z`.
-/
import PoetryVerif.Proofs.PyConvPairMk
import PoetryVerif.Proofs.MarkerProjReparse

set_option linter.unusedSimpArgs false
set_option linter.unusedVariables false

namespace Poetry.Marker
open Poetry Poetry.Version VParser

/-! ### `str.replace` on a text without `p` -/

theorem replaceAux_noP (fuel : Nat) : ∀ (s : List Char), 'p' ∉ s → replaceAux pfvL pvL fuel s = s := by
  induction fuel with
  | zero => intro s _; simp [replaceAux]
  | succ f ih =>
    intro s hs
    cases s with
    | nil => simp [replaceAux]
    | cons c cs =>
      have hc : c ≠ 'p' := fun e => hs (by simp [e])
      have hc' : ('p' == c) = false := by
        rw [beq_eq_false_iff_ne]; exact fun e => hc e.symm
      rw [replaceAux]
      have hne : pfvL.isEmpty = false := by simp [pfvL]
      have hsp : stripPrefix? pfvL (c :: cs) = none := by simp [pfvL, stripPrefix?, hc']
      simp only [hne, Bool.false_eq_true, if_false, hsp]
      rw [ih cs (fun h => hs (by simp [h]))]

/-! ### the two texts -/

theorem ops_chars {sop : Spec.SOp} {ops : String} (h : (sop, ops) ∈ pvOps) :
    'p' ∉ ops.toList ∧ countChar '.' ops = 0 ∧ ops ∈ Marker.ops := by
  simp only [pvOps, List.mem_cons, List.mem_nil_iff, or_false, Prod.mk.injEq] at h
  rcases h with ⟨rfl, rfl⟩ | ⟨rfl, rfl⟩ | ⟨rfl, rfl⟩ | ⟨rfl, rfl⟩ | ⟨rfl, rfl⟩ | ⟨rfl, rfl⟩ <;>
    exact ⟨by decide, by decide, by decide⟩

theorem relChars_noP (l : List Nat) : 'p' ∉ _root_.Poetry.relChars l := by
  intro h
  have hp := plain_relChars l 'p' h
  revert hp; decide

/-- a release text holds no double quote (so `_quoted` writes it between double quotes) -/
theorem relText_nodq (l : List Nat) : ∀ c ∈ (Version.relText l).toList, c ≠ '"' ∧ c ≠ '\\' := by
  intro c hc
  rw [_root_.Poetry.relText_toList] at hc
  have hp := plain_relChars l c hc
  constructor <;> (intro h; subst h; revert hp; decide)

theorem leafText_toList (n ops v : String) (hv : ∀ c ∈ v.toList, c ≠ '"' ∧ c ≠ '\\') :
    (leafText n ops v false).toList = n.toList ++ ' ' :: (ops.toList ++ ' ' :: '"' :: (v.toList ++ ['"'])) := by
  have hq1 : ("\"" : String).toList = ['"'] := by decide
  have hsp : (" " : String).toList = [' '] := by decide
  simp [leafText, String.toList_append, hq1, hsp, quoteOf_dq hv]

theorem leafText_dots (n ops v : String) (hv : ∀ c ∈ v.toList, c ≠ '"' ∧ c ≠ '\\') :
    countChar '.' (leafText n ops v false) = countChar '.' n + countChar '.' ops + countChar '.' v := by
  have e1 : ((' ' : Char) == '.') = false := by decide
  have e2 : (('"' : Char) == '.') = false := by decide
  simp [countChar, leafText_toList n ops v hv, List.filter_append, List.filter_cons, e1, e2]
  omega

theorem D_zero : D 0 = ['0'] := by decide

theorem D_eq_zero (c : Nat) (h : D c = ['0']) : c = 0 := by
  have := digitsToNat_D c
  rw [h] at this
  rw [← this]; decide

theorem relChars3_split (a b c : Nat) :
    _root_.Poetry.relChars [a, b, c] = (D a ++ '.' :: D b) ++ '.' :: D c := by
  simp [_root_.Poetry.relChars, tailChars]

theorem relChars3_zero (a b : Nat) :
    _root_.Poetry.relChars [a, b, 0] = _root_.Poetry.relChars [a, b] ++ ['.', '0'] := by
  simp [_root_.Poetry.relChars, tailChars, D_zero]

/-- a text `… . digits` ends with `.0` exactly when the digits are `0` -/
theorem dotZero_suffix (pre : List Char) (c : Nat) : ['.', '0'] <:+ pre ++ '.' :: D c ↔ c = 0 := by
  constructor
  · rintro ⟨t, ht⟩
    apply D_eq_zero
    rcases List.eq_nil_or_concat (D c) with hnil | ⟨ds, l, hl⟩
    · exact absurd hnil (D_ne_nil c)
    · rw [List.concat_eq_append] at hl
      rw [hl] at ht
      have h1 : t ++ ['.'] ++ ['0'] = (pre ++ '.' :: ds) ++ [l] := by simpa using ht
      have hl0 : ['0'] = [l] := List.append_inj_right' h1 rfl
      have ht1 : t ++ ['.'] = pre ++ '.' :: ds := List.append_inj_left' h1 rfl
      rcases List.eq_nil_or_concat ds with hdn | ⟨ds', m, hm⟩
      · rw [hl, hdn]; simpa using hl0.symm
      · exfalso
        rw [List.concat_eq_append] at hm
        rw [hm] at ht1
        have h2 : t ++ ['.'] = (pre ++ '.' :: ds') ++ [m] := by simpa using ht1
        have hm' : ['.'] = [m] := List.append_inj_right' h2 rfl
        have hmd : isDigit m = true := D_isDigit c m (by rw [hl, hm]; simp)
        have : m = '.' := by simpa using hm'.symm
        subst this
        revert hmd; decide
  · rintro rfl
    exact ⟨pre, by simp [D_zero]⟩

theorem ends_iff (s pat : String) : s.endsWith pat = true ↔ pat.toList <:+ s.toList := by
  rw [String.endsWith_eq_endsWith_toSlice, String.Slice.endsWith_string_iff]
  simp

/-- whether the printed marker (without its closing quote) ends with `.0` -/
theorem pfvText_endsDotZero (ops : String) (a b c : Nat) :
    (dropRight (leafText "python_full_version" ops (Version.relText [a, b, c]) false) 1).endsWith ".0" =
      (c == 0) := by
  have hl : (dropRight (leafText "python_full_version" ops (Version.relText [a, b, c]) false) 1).toList =
      ("python_full_version".toList ++ ' ' :: (ops.toList ++ ' ' :: '"' :: (D a ++ '.' :: D b))) ++ '.' :: D c := by
    rw [dropRight_toList, leafText_toList _ _ _ (relText_nodq _), _root_.Poetry.relText_toList, relChars3_split]
    have := take_keep ("python_full_version".toList ++ ' ' :: (ops.toList ++ ' ' :: '"' :: ((D a ++ '.' :: D b) ++ '.' :: D c)))
      ['"'] 1 (by simp)
    simp only [List.take_zero, List.length_singleton, Nat.sub_self, List.append_nil] at this
    simpa using this
  have h0 : (".0" : String).toList = ['.', '0'] := by decide
  rw [Bool.eq_iff_iff, ends_iff, hl, h0, dotZero_suffix]
  simp

/-- **the text `_merge_python_version_single_markers` re-parses**, for `python_full_version op "a.b.c"` -/
theorem pyRewrite_pfv3 {sop : Spec.SOp} {ops : String} (h : (sop, ops) ∈ pvOps) (a b c : Nat) (cst : LeafC) :
    pyRewrite ⟨"python_full_version", ops, Version.relText [a, b, c], false, cst⟩ =
      if ((ops == "<" || ops == ">=") && c == 0) = true then
        leafText "python_version" ops (Version.relText [a, b]) false
      else leafText "python_full_version" ops (Version.relText [a, b, c]) false := by
  obtain ⟨hnp, hdots, _⟩ := ops_chars h
  have hprec : countChar '.' (leafText "python_full_version" ops (Version.relText [a, b, c]) false) + 1 = 3 := by
    have h1 := countChar_relText a [b, c]
    have h2 : countChar '.' "python_full_version" = 0 := by decide
    simp only [List.length_cons, List.length_nil] at h1
    rw [leafText_dots _ _ _ (relText_nodq _), h1, h2, hdots]
  unfold pyRewrite
  simp only [hprec, Nat.lt_irrefl, if_false, beq_self_eq_true, Bool.true_and, pfvText_endsDotZero]
  by_cases hc : ((ops == "<" || ops == ">=") && c == 0) = true
  · rw [if_pos hc, if_pos hc]
    have hc0 : c = 0 := by
      simp only [Bool.and_eq_true, beq_iff_eq] at hc; exact hc.2
    subst hc0
    -- the characters
    rw [← String.toList_inj]
    simp only [String.toList_append, dropRight_toList, strReplace, String.toList_ofList, pfvL_eq, pvL_eq,
      String.length_toList]
    rw [leafText_toList _ _ _ (relText_nodq _), leafText_toList _ _ _ (relText_nodq _), pfvL_eq, pvL_eq, _root_.Poetry.relText_toList,
      _root_.Poetry.relText_toList, relChars3_zero]
    generalize hR0 : ops.toList ++ ' ' :: '"' :: _root_.Poetry.relChars [a, b] = R0
    have hRnp : 'p' ∉ R0 ++ ['.', '0', '"'] := by
      rw [← hR0]
      intro hm
      simp only [List.mem_append, List.mem_cons, List.mem_nil_iff, or_false] at hm
      rcases hm with (hm | hm | hm | hm) | hm
      · exact hnp hm
      · revert hm; decide
      · revert hm; decide
      · exact relChars_noP _ hm
      · rcases hm with hm | hm | hm <;> (revert hm; decide)
    have e1 : pfvL ++ ' ' :: (ops.toList ++ ' ' :: '"' :: ((_root_.Poetry.relChars [a, b] ++ ['.', '0']) ++ ['"'])) =
        pfvL ++ ' ' :: (R0 ++ ['.', '0', '"']) := by rw [← hR0]; simp
    rw [e1]
    have hlen : (pfvL ++ ' ' :: (R0 ++ ['.', '0', '"'])).length + 1 = ((R0 ++ ['.', '0', '"']).length + 19) + 2 := by
      simp [pfvL] <;> omega
    have hL : (leafText "python_full_version" ops (Version.relText [a, b, 0]) false).length =
        (pfvL ++ ' ' :: (R0 ++ ['.', '0', '"'])).length := by
      rw [← String.length_toList, leafText_toList _ _ _ (relText_nodq _), pfvL_eq, _root_.Poetry.relText_toList, relChars3_zero, e1]
    rw [hL, hlen, replace_pfv_head, replaceAux_noP _ _ hRnp]
    have := take_keep (pvL ++ ' ' :: R0) ['.', '0', '"'] 3 (by simp)
    simp only [List.length_cons, List.length_nil, Nat.sub_self, List.take_zero, List.append_nil] at this
    have e2 : pvL ++ ' ' :: (R0 ++ ['.', '0', '"']) = (pvL ++ ' ' :: R0) ++ ['.', '0', '"'] := by simp
    rw [e2, this, ← hR0]
    have hq : ("\"" : String).toList = ['"'] := by decide
    simp [hq]
  · rw [if_neg hc, if_neg hc]

/-! ### the re-parsed markers -/

/-- `python_full_version op "a.b.c"` as `SingleMarker.__init__` stores it -/
def pfv3Single (sop : Spec.SOp) (ops : String) (a b c : Nat) : Single :=
  ⟨"python_full_version", ops, Version.relText [a, b, c], false, .ver (pvClause sop (litV a [b, c]))⟩

theorem mkSingle_pfv3Single {sop ops} (h : (sop, ops) ∈ pvOps) (a b c : Nat) :
    mkSingle "python_full_version" (ops ++ Version.relText [a, b, c]) false = .ok (pfv3Single sop ops a b c) := by
  obtain ⟨h1, h2, _⟩ := pvOps_facts h (litV a [b, c])
  exact mkSingle_pfv3 sop ops h2 a [b, c] (by simp) _ h1

theorem reparse_pv {sop ops} (h : (sop, ops) ∈ pvOps) (a b : Nat) :
    parseItemMarker (leafText "python_version" ops (Version.relText [a, b]) false) =
      .ok (.leaf (.single (pvLeafOf sop ops a b))) := by
  rw [parseItemMarker_leafText _ _ _ false (by decide) (ops_chars h).2.2 (relText_valOk a [b])]
  simp only [itemConstraintString, Bool.false_eq_true, if_false, mkSingle_pvLeaf h a b]

theorem reparse_pfv {sop ops} (h : (sop, ops) ∈ pvOps) (a b c : Nat) :
    parseItemMarker (leafText "python_full_version" ops (Version.relText [a, b, c]) false) =
      .ok (.leaf (.single (pfv3Single sop ops a b c))) := by
  rw [parseItemMarker_leafText _ _ _ false (by decide) (ops_chars h).2.2 (relText_valOk a [b, c])]
  simp only [itemConstraintString, Bool.false_eq_true, if_false, mkSingle_pfv3Single h a b c]

/-- **what the back-conversion returns** for a merged marker `python_full_version op "a.b.c"` -/
theorem reparse_rewrite {sop ops} (h : (sop, ops) ∈ pvOps) (a b c : Nat) (cst : LeafC) :
    parseItemMarker (pyRewrite ⟨"python_full_version", ops, Version.relText [a, b, c], false, cst⟩) =
      .ok (if ((ops == "<" || ops == ">=") && c == 0) = true then .leaf (.single (pvLeafOf sop ops a b))
           else .leaf (.single (pfv3Single sop ops a b c))) := by
  rw [pyRewrite_pfv3 h a b c cst]
  split
  · exact reparse_pv h a b
  · exact reparse_pfv h a b c

/-! ### their truth -/

theorem pb3 (a b c : Nat) : PyBound (litV a [b, c]) = true := pb [a, b, c]

theorem pvClause_ok3 {sop ops} (h : (sop, ops) ∈ pvOps) (a b c : Nat) : PyVCok (pvClause sop (litV a [b, c])) := by
  have hb := pb3 a b c
  simp only [pvOps, List.mem_cons, List.mem_nil_iff, or_false, Prod.mk.injEq] at h
  rcases h with ⟨rfl, rfl⟩ | ⟨rfl, rfl⟩ | ⟨rfl, rfl⟩ | ⟨rfl, rfl⟩ | ⟨rfl, rfl⟩ | ⟨rfl, rfl⟩
  · exact ok_ver _ hb
  · exact ok_ne _ hb
  · exact ok_hi _ false hb
  · exact ok_hi _ true hb
  · exact ok_lo _ false hb
  · exact ok_lo _ true hb

/-- the truth of `python_full_version op "a.b.c"` on an environment of interpreter `X.Y.Z` -/
theorem pfv3Single_eval {E : Env} {X Y Z : Nat} (hE : E.get? "python_full_version" = some (Version.relText [X, Y, Z]))
    {sop ops} (h : (sop, ops) ∈ pvOps) (a b c : Nat) :
    (Leaf.single (pfv3Single sop ops a b c)).validate E =
      .ok ((pvClause sop (litV a [b, c])).allowsPlain (pyV X Y Z)) := by
  have hok := pvClause_ok3 h a b c
  have hBp : ∀ e ∈ (pvClause sop (litV a [b, c])).flatten.flatMap RC.bounds, PyBound e = true := by
    intro e he
    simp only [List.mem_flatMap] at he
    obtain ⟨c', hc, hec⟩ := he
    exact (hok.2 c' hc).2.2.2 e hec
  have hreg := regVC_of_ok (B := (pvClause sop (litV a [b, c])).flatten.flatMap RC.bounds) hok
    (fun c' hc e he => List.mem_flatMap.2 ⟨c', hc, he⟩)
  simp only [Leaf.validate, pfv3Single]
  rw [validateLike_ver "python_full_version" (by decide) _ E X [Y, Z] hE]
  exact VC.allows_of_reg (regB_of_pyBound _ hBp) _ hreg.1 hreg.2 _

/-- `python_version < "a.b"` / `>= "a.b"` and `python_full_version < "a.b.0"` / `>= "a.b.0"` have the same truth -/
theorem pv_pfv_same {E : Env} {X Y Z : Nat} (hE : EnvPy E X Y Z) {sop ops} (h : (sop, ops) ∈ pvOps)
    (hlg : ops = "<" ∨ ops = ">=") (a b : Nat) :
    leafEval E (.single (pvLeafOf sop ops a b)) = leafEval E (.single (pfv3Single sop ops a b 0)) := by
  have e1 := pvLeaf_eval hE.1 h a b
  have e2 := pfv3Single_eval hE.2 h a b 0
  simp only [leafEval, e1, e2]
  rw [← allowsPlain_pad (pvClause_ok h a b)]
  simp only [pvOps, List.mem_cons, List.mem_nil_iff, or_false, Prod.mk.injEq] at h
  rcases hlg with rfl | rfl
  · have hs : sop = .lt := by
      rcases h with ⟨_, h⟩ | ⟨_, h⟩ | ⟨rfl, _⟩ | ⟨_, h⟩ | ⟨_, h⟩ | ⟨_, h⟩ <;>
        first | rfl | exact absurd h (by decide)
    subst hs
    rw [Bool.eq_iff_iff]
    simp only [pvClause, ineqRange, VC.allowsPlain, VC.flatten, List.any_cons, List.any_nil, Bool.or_false, RC.allows,
      allows_hi _ false (pb2 a b), allows_hi _ false (pb3 a b 0), Bool.false_eq_true, if_false]
    simp [litV_eq_finalV, finalV, pad3, lex3_lt]
  · have hs : sop = .ge := by
      rcases h with ⟨_, h⟩ | ⟨_, h⟩ | ⟨_, h⟩ | ⟨_, h⟩ | ⟨_, h⟩ | ⟨rfl, _⟩ <;>
        first | rfl | exact absurd h (by decide)
    subst hs
    rw [Bool.eq_iff_iff]
    simp only [pvClause, ineqRange, VC.allowsPlain, VC.flatten, List.any_cons, List.any_nil, Bool.or_false, RC.allows,
      allows_lo _ true (pb2 a b), allows_lo _ true (pb3 a b 0), if_true]
    simp [litV_eq_finalV, finalV, pad3, lex3_gt]

end Poetry.Marker
