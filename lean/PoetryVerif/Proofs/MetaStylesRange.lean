/-
C14: the two pyproject table styles give the same core metadata when the Python requirement is a single plain
range — with `format_python_constraint` modelled (`Dep02.formatPythonConstraint`) instead of passed in.
-/
import PoetryVerif.Proofs.MetaStyles
import PoetryVerif.Model.Dep02
import PoetryVerif.Props.C15

namespace Poetry.Meta
open Poetry

/-- `Metadata.from_package`, with `format_python_constraint(package.python_constraint)` computed by the model -/
def Pkg.toMetaM (p : Pkg) (texts : List String) : PyM Meta := do
  let fp ← (if p.pythonVersions = "*" then pure ""
            else do
              let c ← VParser.parseConstraint p.pythonVersions
              Dep02.formatPythonConstraint c)
  p.toMeta texts fp

/-- `format_python_constraint` of a single range is the range's own text (C02 `requires_python_range`) -/
theorem formatPython_range (R : VRange) :
    Dep02.formatPythonConstraint (.single (.rng R)) = (VC.single (.rng R)).toStr := rfl

/-- the formatted Python constraint of a package whose `python_versions` parses to a single range -/
theorem toMetaM_of_range (p : Pkg) (texts : List String) (R : VRange) (t : String)
    (hne : p.pythonVersions ≠ "*")
    (hparse : VParser.parseConstraint p.pythonVersions = .ok (.single (.rng R)))
    (hs : (VC.single (.rng R)).toStr = .ok t) :
    p.toMetaM texts = p.toMeta texts t := by
  simp only [Pkg.toMetaM, hne, if_false, hparse, formatPython_range, hs, bind, Except.bind]

/-- `toMeta` depends on `python_versions` only through the `"*"` test and its parse; on `requires_python` only
through `Requires-Python` -/
theorem toMeta_range_congr (p q : Pkg) (texts : List String) (t : String) (R : VRange)
    (h1 : p.prettyName = q.prettyName) (h2 : p.version = q.version) (h3 : p.authors = q.authors)
    (h4 : p.maintainers = q.maintainers) (h5 : p.description = q.description) (h6 : p.license = q.license)
    (h9 : p.keywords = q.keywords) (h10 : p.classifiers = q.classifiers)
    (h11 : p.dynamicClassifiers = q.dynamicClassifiers) (h12 : p.homepage = q.homepage)
    (h13 : p.repositoryUrl = q.repositoryUrl) (h14 : p.documentationUrl = q.documentationUrl)
    (h15 : p.customUrls = q.customUrls) (h16 : p.readmeContent = q.readmeContent)
    (h17 : p.readmeContentType = q.readmeContentType) (h18 : p.readmes = q.readmes)
    (h19 : p.extras = q.extras) (h20 : p.requiresDist = q.requiresDist)
    (hpne : p.pythonVersions ≠ "*") (hqne : q.pythonVersions ≠ "*")
    (hpp : VParser.parseConstraint p.pythonVersions = .ok (.single (.rng R)))
    (hqp : VParser.parseConstraint q.pythonVersions = .ok (.single (.rng R)))
    (hpr : p.requiresPython = t) (ht : t ≠ "*") (hqr : q.requiresPython = "*") :
    p.toMeta texts t = q.toMeta texts t := by
  simp only [Pkg.toMeta, Pkg.allClassifiers, Pkg.classifierPython, Pkg.urls,
    h1, h2, h3, h4, h5, h6, h9, h10, h11, h12, h13, h14, h15, h16, h17, h18, h19, h20,
    hpne, hqne, hpp, hqp, hpr, hqr, ht, if_false, ne_eq, not_true_eq_false, not_false_eq_true, if_true]

/-- **PEP 621 `requires-python = t` and legacy `python = r` give the same metadata** when `r` is a single range and
`t` is the text poetry prints for that range (and reads back to it) -/
theorem project_eq_legacy_range (c : Common) (spdx : String → Option License) (extras rd texts : List String)
    (r t : String) (R : VRange) (hw : c.Wf)
    (hr : VParser.parseConstraint r = .ok (.single (.rng R))) (hr' : r ≠ "*") (ht' : t ≠ "*")
    (hs : (VC.single (.rng R)).toStr = .ok t)
    (hrt : VParser.parseConstraint t = .ok (.single (.rng R))) :
    (configure ({c with python := some t} : Common).toProject.1 ({c with python := some t} : Common).toProject.2
        spdx none extras rd).toMetaM texts =
      (configure {} ({c with python := some r} : Common).toLegacy spdx none extras rd).toMetaM texts := by
  -- the package the legacy spelling of `python = t` configures
  have hpkg := project_eq_legacy_pkg ({c with python := some t} : Common) spdx extras rd
    hw.name_ne hw.version_ne hw.custom_not_special hw.custom_keys_nodup
  rw [toMetaM_of_range _ texts R t (by exact ht') (by exact hrt) hs,
    toMetaM_of_range _ texts R t (by exact hr') (by exact hr) hs]
  apply toMeta_range_congr _ _ texts t R
  · have h := congrArg Pkg.prettyName hpkg; exact h
  · have h := congrArg Pkg.version hpkg; exact h
  · have h := congrArg Pkg.authors hpkg; exact h
  · have h := congrArg Pkg.maintainers hpkg; exact h
  · have h := congrArg Pkg.description hpkg; exact h
  · have h := congrArg Pkg.license hpkg; exact h
  · have h := congrArg Pkg.keywords hpkg; exact h
  · have h := congrArg Pkg.classifiers hpkg; exact h
  · have h := congrArg Pkg.dynamicClassifiers hpkg; exact h
  · have h := congrArg Pkg.homepage hpkg; exact h
  · have h := congrArg Pkg.repositoryUrl hpkg; exact h
  · have h := congrArg Pkg.documentationUrl hpkg; exact h
  · have h := congrArg Pkg.customUrls hpkg; exact h
  · have h := congrArg Pkg.readmeContent hpkg; exact h
  · have h := congrArg Pkg.readmeContentType hpkg; exact h
  · have h := congrArg Pkg.readmes hpkg; exact h
  · have h := congrArg Pkg.extras hpkg; exact h
  · have h := congrArg Pkg.requiresDist hpkg; exact h
  · exact ht'
  · exact hr'
  · exact hrt
  · exact hr
  · rfl
  · exact ht'
  · rfl

/-- the same, with the text obtained from the C15 round trip: for a well-formed, non-empty, tidy range whose bounds
carry re-parsable texts and which is not spelt with a wildcard, poetry's own text `t` of the range serves as the
`requires-python` value -/
theorem project_eq_legacy_range' (c : Common) (spdx : String → Option License) (extras rd texts : List String)
    (r : String) (R : VRange) (hw : c.Wf)
    (hr : VParser.parseConstraint r = .ok (.single (.rng R))) (hr' : r ≠ "*")
    (hwf : R.WF) (hne : R.NE) (htidy : R.Tidy) (ht : ∀ e ∈ R.bounds, TextOK e)
    (hp : R.isSingleWildcardRange = false) :
    ∃ t, (VC.single (.rng R)).toStr = .ok t ∧
      (t ≠ "*" →
        (configure ({c with python := some t} : Common).toProject.1 ({c with python := some t} : Common).toProject.2
            spdx none extras rd).toMetaM texts =
          (configure {} ({c with python := some r} : Common).toLegacy spdx none extras rd).toMetaM texts) := by
  obtain ⟨t, hs, hrt⟩ := C15.range_text_roundtrip R hwf hne htidy ht hp
  exact ⟨t, hs, fun ht' => project_eq_legacy_range c spdx extras rd texts r t R hw hr hr' ht' hs hrt⟩

/-! ## the hypotheses are satisfiable: `python = "^3.8"` vs. `requires-python = ">=3.8,<4.0"` -/

example : ∃ R t, VParser.parseConstraint "^3.8" = .ok (.single (.rng R)) ∧
    (VC.single (.rng R)).toStr = .ok t ∧ t = ">=3.8,<4.0" ∧
    VParser.parseConstraint t = .ok (.single (.rng R)) :=
  ⟨_, _, rfl, by decide +kernel, rfl, by decide +kernel⟩

/-- … and the theorem applied to it, on the demo project of `MetaStyles` -/
example (spdx : String → Option License) (extras rd texts : List String) :
    (configure ({Common.demo with python := some ">=3.8,<4.0"} : Common).toProject.1
        ({Common.demo with python := some ">=3.8,<4.0"} : Common).toProject.2 spdx none extras rd).toMetaM texts =
      (configure {} ({Common.demo with python := some "^3.8"} : Common).toLegacy spdx none extras rd).toMetaM texts :=
  project_eq_legacy_range Common.demo spdx extras rd texts "^3.8" ">=3.8,<4.0" _
    { name_ne := by decide, version_ne := by decide,
      custom_not_special := by decide, custom_keys_nodup := by decide }
    rfl (by decide) (by decide) (by decide +kernel) (by decide +kernel)

end Poetry.Meta

