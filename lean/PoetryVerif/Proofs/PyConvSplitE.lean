/-
The and-split of a group whose clauses are joined by single blanks or by `, ` (what
`normalize_python_version_markers` prints for a conjunction containing a `not in` list) — helper lemmas for C11.
-/
import PoetryVerif.Proofs.PyConvComma

set_option linter.unusedSimpArgs false
set_option linter.unusedVariables false

namespace Poetry
open Poetry.Marker Poetry.Version VParser

/-- the and-separator at `, ` between two clauses -/
theorem andSep_commaSpace (p c : Char) (cs : List Char) (hp : badPrev p = false) (hp' : p ≠ '-') (hc : startOK c) :
    andSep? (some p) (',' :: ' ' :: c :: cs) = some (c :: cs) := by
  have hc1 := hc.1
  have hc2 := hc.2.1
  have hc3 := hc.2.2.1
  have hc4 := hc.2.2.2.1
  simp only [andSep?, hp, Bool.false_eq_true, if_false]
  rw [countSpaces_head (' ' :: c :: cs) (by decide)]
  have hpb : (p == '-') = false := by simpa using hp'
  have htail : andSepTail (' ' :: c :: cs) = some (c :: cs) := by
    unfold andSepTail
    rw [countSpaces_space, countSpaces_head cs hc1]
    simp only [andSepTail.go, Nat.zero_add, List.drop_succ_cons, List.drop_zero]
    split <;> simp_all
  simp only [andSep?.go, List.drop_zero, Nat.lt_irrefl, gt_iff_lt, if_false, hpb, Bool.false_eq_true, htail]

/-- the separator printed before a clause: a blank, or `, ` -/
def sepChars (comma : Bool) : List Char := if comma then [',', ' '] else [' ']

/-- a first clause followed by separated clauses -/
def cJoin (it : List Char) : List (Bool × List Char) → List Char
  | [] => it
  | (b, x) :: rest => it ++ sepChars b ++ cJoin x rest

def cNeed (it : List Char) : List (Bool × List Char) → Nat
  | [] => it.length + 1
  | (_, x) :: rest => it.length + 1 + cNeed x rest

theorem cJoin_head (x : List Char) (rest : List (Bool × List Char)) (c : Char) (cs : List Char) (h : x = c :: cs) :
    ∃ tl, cJoin x rest = c :: tl := by
  cases rest with
  | nil => exact ⟨cs, by simp [cJoin, h]⟩
  | cons q qs => obtain ⟨b, y⟩ := q; exact ⟨cs ++ sepChars b ++ cJoin y qs, by simp [cJoin, h]⟩

theorem splitAndAux_cJoin (it : List Char) (rest : List (Bool × List Char))
    (hall : ∀ x ∈ it :: rest.map (·.2), ItemOK x) (prev : Option Char) (cur : List Char) (k : Nat) :
    splitAndAux (k + cNeed it rest) prev (cJoin it rest) cur = (cur.reverse ++ it) :: rest.map (·.2) := by
  induction rest generalizing it prev cur k with
  | nil =>
    have hi := hall it (by simp)
    have := splitAndAux_item it hi.nosep prev cur [] (k + 1)
    simp only [List.append_nil] at this
    simp only [cJoin, cNeed]
    rw [show k + (it.length + 1) = k + 1 + it.length by omega, this, splitAndAux_nil]
    simp
  | cons q rest ih =>
    obtain ⟨b, it2⟩ := q
    have hi := hall it (by simp)
    have hi2 := hall it2 (by simp)
    obtain ⟨l, hl, hlb, hlm⟩ := hi.fin
    obtain ⟨c2, cs2, hc2, hs2⟩ := hi2.start
    obtain ⟨tl, htl⟩ := cJoin_head it2 rest c2 cs2 hc2
    have hlast : lastOr prev it = some l := by simp [lastOr, hl]
    simp only [cJoin, cNeed, List.append_assoc]
    rw [show k + (it.length + 1 + cNeed it2 rest) = (k + cNeed it2 rest + 1) + it.length by omega,
      splitAndAux_item it hi.nosep prev cur _ _, hlast, htl]
    have ih' := fun pv => ih it2 (fun x hx => hall x (by
      simp only [List.map_cons, List.mem_cons] at hx ⊢
      rcases hx with rfl | hx
      · exact Or.inr (Or.inl rfl)
      · exact Or.inr (Or.inr hx))) pv [] k
    simp only [List.reverse_nil, List.nil_append] at ih'
    cases b
    · simp only [sepChars, Bool.false_eq_true, if_false, List.cons_append, List.nil_append]
      rw [splitAndAux]
      simp only [andSep_space l c2 tl hlb hlm hs2]
      rw [← htl, ih']
      simp
    · simp only [sepChars, if_true, List.cons_append, List.nil_append]
      rw [splitAndAux]
      simp only [andSep_commaSpace l c2 tl hlb hlm hs2]
      rw [← htl, ih']
      simp

theorem length_cJoin (it : List Char) (rest : List (Bool × List Char)) :
    cNeed it rest ≤ (cJoin it rest).length + 1 := by
  induction rest generalizing it with
  | nil => simp [cJoin, cNeed]
  | cons q rest ih =>
    obtain ⟨b, x⟩ := q
    have := ih x
    cases b <;> simp [cJoin, cNeed, sepChars] at this ⊢ <;> omega

/-- **the and-split of a group** whose clauses are separated by blanks or `, ` -/
theorem splitAnd_cJoin (it : List Char) (rest : List (Bool × List Char))
    (hall : ∀ x ∈ it :: rest.map (·.2), ItemOK x) :
    splitAnd (cJoin it rest) = it :: rest.map (·.2) := by
  unfold splitAnd
  obtain ⟨k, hk⟩ : ∃ k, (cJoin it rest).length + 1 = k + cNeed it rest :=
    ⟨(cJoin it rest).length + 1 - cNeed it rest, by have := length_cJoin it rest; omega⟩
  rw [hk]
  have := splitAndAux_cJoin it rest hall none [] k
  simpa using this

/-! ### groups with both kinds of separators -/

/-- a group: first clause with its constraint, then (separator, clause with its constraint) -/
structure GrpE where
  first : List Char × VC
  rest : List (Bool × (List Char × VC))

def GrpE.items (g : GrpE) : List (List Char × VC) := g.first :: g.rest.map (·.2)
def GrpE.seps (g : GrpE) : List (Bool × List Char) := g.rest.map (fun q => (q.1, q.2.1))
def GrpE.chars (g : GrpE) : List Char := cJoin g.first.1 g.seps

theorem GrpE.seps_map (g : GrpE) : g.seps.map (·.2) = (g.rest.map (·.2)).map (·.1) := by
  simp [GrpE.seps, List.map_map, Function.comp_def]

theorem grpE_itemOK (g : GrpE) (h : ∀ q ∈ g.items, ItemOK q.1) : ∀ x ∈ g.first.1 :: g.seps.map (·.2), ItemOK x := by
  intro x hx
  rw [GrpE.seps_map] at hx
  rcases List.mem_cons.1 hx with rfl | hx
  · exact h g.first (by simp [GrpE.items])
  · obtain ⟨q, hq, rfl⟩ := List.mem_map.1 hx
    exact h q (by simp only [GrpE.items, List.mem_cons]; exact Or.inr hq)

theorem cJoin_last (it : List Char) (rest : List (Bool × List Char)) (hall : ∀ x ∈ it :: rest.map (·.2), ItemOK x) :
    ∃ l, (cJoin it rest).getLast? = some l ∧ l ≠ ',' ∧ isSpace l = false := by
  induction rest generalizing it with
  | nil => simpa [cJoin] using itemOK_last (hall it (by simp))
  | cons q rest ih =>
    obtain ⟨b, x⟩ := q
    obtain ⟨l, hl, h1, h2⟩ := ih x (fun y hy => hall y (by
      simp only [List.map_cons, List.mem_cons] at hy ⊢
      rcases hy with rfl | hy
      · exact Or.inr (Or.inl rfl)
      · exact Or.inr (Or.inr hy)))
    refine ⟨l, ?_, h1, h2⟩
    simp only [cJoin]
    rw [List.getLast?_append, hl]; rfl

/-- **one `||` group with blanks and `, `**: it parses to the intersection of its clauses -/
theorem parseGroup_cJoin {B : List Version} (hB : RegB B) (p : Version) (hp : p.wf = true) (hr : Regular B p)
    (g : GrpE) (h : ∀ q ∈ g.items, ItemOK q.1 ∧ parseSingle q.1 true = .ok q.2 ∧ RegVC B q.2) :
    ∃ res, parseGroup g.chars true = .ok res ∧ RegVC B res ∧
      res.allowsPlain p = g.items.all (fun q => q.2.allowsPlain p) := by
  have hall := grpE_itemOK g (fun q hq => (h q hq).1)
  obtain ⟨l, hl, h1, h2⟩ := cJoin_last g.first.1 g.seps hall
  obtain ⟨res, hres, hreg, hex⟩ := fold_intersect hB p hp hr g.first.2 ((g.rest.map (·.2)).map (·.2))
    (h g.first (by simp [GrpE.items])).2.2
    (by
      intro x hx
      obtain ⟨q, hq, rfl⟩ := List.mem_map.1 hx
      exact (h q (by simp only [GrpE.items, List.mem_cons]; exact Or.inr hq)).2.2)
  refine ⟨res, ?_, hreg, ?_⟩
  · simp only [parseGroup, GrpE.chars, rstripCommas_last hl h1, rstripSpaces_last hl h2,
      splitAnd_cJoin _ _ hall, bind, Except.bind]
    have := mapM_parseSingle g.items (fun q hq => (h q hq).2.1)
    simp only [GrpE.items, List.map_cons] at this
    rw [GrpE.seps_map, this]
    exact hres
  · rw [hex]; simp [GrpE.items, List.all_map]; rfl

/-- a group text of this kind -/
def GroupOKE (g : List Char) : Prop := ∃ it rest, (∀ x ∈ it :: rest.map (·.2), ItemOK x) ∧ g = cJoin it rest

theorem groupOKE_head {g : List Char} (h : GroupOKE g) : ∃ c tl, g = c :: tl ∧ startOK c := by
  obtain ⟨it, rest, hall, rfl⟩ := h
  obtain ⟨c, cs, hc, hs⟩ := (hall it (by simp)).start
  obtain ⟨tl, htl⟩ := cJoin_head it rest c cs hc
  exact ⟨c, tl, htl, hs⟩

theorem splitOrAux_groupE (it : List Char) (rest : List (Bool × List Char))
    (hall : ∀ x ∈ it :: rest.map (·.2), ItemOK x) (cur tail : List Char) (fuel : Nat) :
    splitOrAux (fuel + (cJoin it rest).length) (cJoin it rest ++ tail) cur =
      splitOrAux fuel tail ((cJoin it rest).reverse ++ cur) := by
  induction rest generalizing it cur with
  | nil => simpa [cJoin] using splitOrAux_item it (hall it (by simp)).nosep cur tail fuel
  | cons q rest ih =>
    obtain ⟨b, it2⟩ := q
    have hi := hall it (by simp)
    obtain ⟨c2, cs2, hc2, hs2⟩ := (hall it2 (by simp)).start
    obtain ⟨tl, htl⟩ := cJoin_head it2 rest c2 cs2 hc2
    have ih' := ih it2 (fun x hx => hall x (by
      simp only [List.map_cons, List.mem_cons] at hx ⊢
      rcases hx with rfl | hx
      · exact Or.inr (Or.inl rfl)
      · exact Or.inr (Or.inr hx)))
    cases b
    · simp only [cJoin, sepChars, Bool.false_eq_true, if_false, List.length_append, List.length_cons,
        List.length_nil, List.append_assoc, List.cons_append, List.nil_append]
      rw [show fuel + (it.length + ((cJoin it2 rest).length + 1)) =
        (fuel + (cJoin it2 rest).length + 1) + it.length by omega,
        splitOrAux_item it hi.nosep cur _ _]
      rw [splitOrAux.eq_def]
      rw [htl]
      simp only [List.cons_append, orSep_inner_space (tl ++ tail) hs2]
      rw [← List.cons_append, ← htl, ih']
      simp
    · simp only [cJoin, sepChars, if_true, List.length_append, List.length_cons,
        List.length_nil, List.append_assoc, List.cons_append, List.nil_append]
      rw [show fuel + (it.length + ((cJoin it2 rest).length + 1 + 1)) =
        (fuel + (cJoin it2 rest).length + 1 + 1) + it.length by omega,
        splitOrAux_item it hi.nosep cur _ _]
      rw [splitOrAux.eq_def]
      simp only [orSep_item_char (c := ',') (' ' :: (cJoin it2 rest ++ tail)) (by decide) (by decide)]
      rw [splitOrAux.eq_def]
      rw [htl]
      simp only [List.cons_append, orSep_inner_space (tl ++ tail) hs2]
      rw [← List.cons_append, ← htl, ih']
      simp

theorem splitOrAux_groupsE (g : List Char) (gs : List (List Char)) (hall : ∀ x ∈ g :: gs, GroupOKE x)
    (cur : List Char) (k : Nat) :
    splitOrAux (k + needO (g :: gs)) (orJoin (g :: gs)) cur = (cur.reverse ++ g) :: gs := by
  induction gs generalizing g cur k with
  | nil =>
    obtain ⟨it, rest, hi, rfl⟩ := hall g (by simp)
    have := splitOrAux_groupE it rest hi cur [] (k + 1)
    simp only [List.append_nil] at this
    simp only [orJoin, needO]
    rw [show k + ((cJoin it rest).length + 1 + 0) = k + 1 + (cJoin it rest).length by omega, this,
      splitOrAux_nil]
    simp
  | cons g2 gs ih =>
    obtain ⟨it, rest, hi, rfl⟩ := hall g (by simp)
    obtain ⟨c2, tl, hg2, hs2⟩ := groupOKE_head (hall g2 (by simp))
    have hoj : ∃ tl', orJoin (g2 :: gs) = c2 :: tl' := by
      cases gs with
      | nil => exact ⟨tl, by simp [orJoin, hg2]⟩
      | cons r rs => exact ⟨tl ++ ' ' :: '|' :: '|' :: ' ' :: orJoin (r :: rs), by simp [orJoin, hg2]⟩
    obtain ⟨tl', htl'⟩ := hoj
    simp only [orJoin, needO]
    rw [show k + ((cJoin it rest).length + 1 + (g2.length + 1 + needO gs)) =
      (k + (g2.length + 1 + needO gs) + 1) + (cJoin it rest).length by omega,
      splitOrAux_groupE it rest hi cur _ _]
    rw [splitOrAux.eq_def]
    have hos : orSep? (' ' :: '|' :: '|' :: ' ' :: orJoin (g2 :: gs)) = some (orJoin (g2 :: gs)) := by
      rw [orSep?]
      have hsp : isSpace ' ' = true := by decide
      have hb : isSpace '|' = false := by decide
      have : dropSpaces (' ' :: '|' :: '|' :: ' ' :: orJoin (g2 :: gs)) = '|' :: '|' :: ' ' :: orJoin (g2 :: gs) := by
        simp [dropSpaces, hsp, hb]
      rw [this]
      simp only
      rw [htl']
      simp [dropSpaces, hsp, hs2.2.2.2.2.2]
    simp only [hos]
    have := ih g2 (fun x hx => hall x (by simp [hx])) [] k
    simp only [needO, List.reverse_nil, List.nil_append] at this
    rw [this]
    simp

theorem splitOr_groupsE (gs : List (List Char)) (hne : gs ≠ []) (hall : ∀ x ∈ gs, GroupOKE x) :
    splitOr (orJoin gs) = gs := by
  cases gs with
  | nil => exact absurd rfl hne
  | cons g rest =>
    unfold splitOr
    obtain ⟨k, hk⟩ : ∃ k, (orJoin (g :: rest)).length + 1 = k + needO (g :: rest) :=
      ⟨(orJoin (g :: rest)).length + 1 - needO (g :: rest), by have := length_orJoin (g :: rest) hne; omega⟩
    rw [hk]
    have := splitOrAux_groupsE g rest hall [] k
    simpa using this

theorem grpE_groupOKE (g : GrpE) (h : ∀ q ∈ g.items, ItemOK q.1) : GroupOKE g.chars :=
  ⟨g.first.1, g.seps, grpE_itemOK g h, rfl⟩

theorem mapM_parseGroupE {B : List Version} (hB : RegB B) (p : Version) (hp : p.wf = true) (hr : Regular B p)
    (gvs : List GrpE) (h : ∀ g ∈ gvs, ∀ q ∈ g.items, ItemOK q.1 ∧ parseSingle q.1 true = .ok q.2 ∧ RegVC B q.2) :
    ∃ ress : List VC, (gvs.map GrpE.chars).mapM (fun g => parseGroup g true) = .ok ress ∧
      ress.length = gvs.length ∧ (∀ r ∈ ress, RegVC B r) ∧
      ress.map (fun r => r.allowsPlain p) = gvs.map (fun g => g.items.all (fun q => q.2.allowsPlain p)) := by
  induction gvs with
  | nil => exact ⟨[], rfl, rfl, by simp, rfl⟩
  | cons g gs ih =>
    obtain ⟨res, h1, h2, h3⟩ := parseGroup_cJoin hB p hp hr g (h g (by simp))
    obtain ⟨ress, k1, k2, k3, k4⟩ := ih (fun g' hg' => h g' (by simp [hg']))
    refine ⟨res :: ress, ?_, by simp [k2], ?_, ?_⟩
    · simp only [List.map_cons, List.mapM_cons, bind, Except.bind, pure, Except.pure]
      rw [h1, k1]
    · intro r hr'
      rcases List.mem_cons.1 hr' with rfl | hr'
      · exact h2
      · exact k3 r hr'
    · simp only [List.map_cons, k4]
      congr 1

theorem orJoin_lastE (g : List Char) (gs : List (List Char)) (hall : ∀ x ∈ g :: gs, GroupOKE x) :
    ∃ l, (orJoin (g :: gs)).getLast? = some l ∧ isSpace l = false := by
  induction gs generalizing g with
  | nil =>
    obtain ⟨it, rest, hi, rfl⟩ := hall g (by simp)
    obtain ⟨l, hl, _, h2⟩ := cJoin_last it rest hi
    exact ⟨l, by simpa [orJoin] using hl, h2⟩
  | cons g2 gs ih =>
    obtain ⟨l, hl, h2⟩ := ih g2 (fun x hx => hall x (by simp [hx]))
    refine ⟨l, ?_, h2⟩
    have : orJoin (g :: g2 :: gs) = (g ++ [' ', '|', '|', ' ']) ++ orJoin (g2 :: gs) := by simp [orJoin]
    rw [this, List.getLast?_append, hl]; rfl

/-- **a text of normalised clauses with both kinds of separators**: groups joined by ` || `, clauses inside a
group by blanks or `, ` — same conclusion as `parse_groups` -/
theorem parse_groupsE {B : List Version} (hpb : ∀ e ∈ B, PyBound e = true) (X Y Z : Nat)
    (gvs : List GrpE) (hne : gvs ≠ [])
    (h : ∀ g ∈ gvs, ∀ q ∈ g.items, ItemOK q.1 ∧ parseSingle q.1 true = .ok q.2 ∧ RegVC B q.2)
    (hstar : ∀ g ∈ gvs, ∀ q ∈ g.items, q.1 ≠ ['*'])
    (s : String) (hs : s.toList = orJoin (gvs.map GrpE.chars)) :
    ∃ res, parseConstraintAux s true = .ok res ∧ RegVC B res ∧
      res.allowsPlain (pyV X Y Z) = gvs.any (fun g => g.items.all (fun q => q.2.allowsPlain (pyV X Y Z))) := by
  have hB := regB_of_pyBound B hpb
  have hr := regular_pyV B hpb X Y Z
  have hp := pyV_wf X Y Z
  obtain ⟨g, gs, rfl⟩ : ∃ g gs, gvs = g :: gs := by cases gvs <;> simp_all
  have hgo : ∀ x ∈ (g :: gs).map GrpE.chars, GroupOKE x := by
    intro x hx
    obtain ⟨g', hg', rfl⟩ := List.mem_map.1 hx
    exact grpE_groupOKE g' (fun q hq => (h g' hg' q hq).1)
  obtain ⟨c, tl, hch, hcs⟩ := groupOKE_head (hgo g.chars (by simp))
  obtain ⟨tl2, htl2⟩ := orJoin_head g.chars (gs.map GrpE.chars)
  obtain ⟨l, hl, hls⟩ := orJoin_lastE g.chars (gs.map GrpE.chars) (by simpa using hgo)
  -- the text is not the lone `*`
  have hnotstar : (s == "*") = false := by
    cases hb : s == "*" with
    | false => rfl
    | true =>
      exfalso
      have : s = "*" := by simpa using hb
      have ht : orJoin ((g :: gs).map GrpE.chars) = ['*'] := by rw [← hs, this]; rfl
      simp only [List.map_cons] at ht htl2
      rw [htl2] at ht
      -- the first group alone is already the whole text
      have hfirst := (h g (by simp) g.first (by simp [GrpE.items])).1
      obtain ⟨c1, cs1, hc1, _⟩ := hfirst.start
      cases hrest : g.rest with
      | nil =>
        have hg : g.chars = g.first.1 := by simp [GrpE.chars, GrpE.seps, hrest, cJoin]
        rw [hg, hc1] at ht
        simp only [List.cons_append, List.cons.injEq, List.append_eq_nil_iff] at ht
        apply hstar g (by simp) g.first (by simp [GrpE.items])
        rw [hc1, ht.1, ht.2.1]
      | cons q qs =>
        have hlen : 2 ≤ g.chars.length := by
          simp only [GrpE.chars, GrpE.seps, hrest, List.map_cons, cJoin, List.length_append, hc1, List.length_cons]
          cases q.1 <;> simp [sepChars] <;> omega
        have := congrArg List.length ht
        simp only [List.length_append, List.length_cons, List.length_nil] at this
        omega
  have hstrip : strip s.toList = s.toList := by
    rw [hs]
    simp only [List.map_cons] at htl2 hl ⊢
    exact strip_ends (c := c) (t := tl ++ tl2) (by rw [htl2, hch]; simp) hcs.2.2.2.2.2 hl hls
  obtain ⟨ress, k1, k2, k3, k4⟩ := mapM_parseGroupE hB (pyV X Y Z) hp hr (g :: gs) h
  have hsplit : splitOr s.toList = (g :: gs).map GrpE.chars := by
    rw [hs]; exact splitOr_groupsE _ (by simp) hgo
  simp only [parseConstraintAux, hnotstar, Bool.false_eq_true, if_false, hstrip, hsplit, k1, bind, Except.bind]
  cases ress with
  | nil => simp at k2
  | cons r rs =>
    cases rs with
    | nil =>
      have hgs : gs = [] := by
        cases gs with
        | nil => rfl
        | cons _ _ => simp at k2
      subst hgs
      have hr1 := k3 r (by simp)
      refine ⟨r, rfl, hr1, ?_⟩
      simp at k4
      simp [k4]
    | cons r2 rs =>
      obtain ⟨res, h1, h2, h3, h4⟩ := unionOfFlat_reg hB ((r :: r2 :: rs).flatMap VC.flatten) (by
        intro x hx
        obtain ⟨v, hv, hxv⟩ := List.mem_flatMap.1 hx
        exact (k3 v hv).2 x hxv)
      refine ⟨res, ?_, ⟨h2, h3⟩, ?_⟩
      · simp only [VC.unionOf]; exact h1
      · rw [h4 (pyV X Y Z) hp (hr.mono (by
          intro e he
          simp only [boundsOf, List.mem_flatMap] at he
          obtain ⟨x, ⟨v, hv, hxv⟩, hex⟩ := he
          exact ((k3 v hv).2 x hxv).2.2.2 e hex)), anyAllows_flatMap]
        have : (r :: r2 :: rs).any (fun r => r.allowsPlain (pyV X Y Z)) =
            ((r :: r2 :: rs).map (fun r => r.allowsPlain (pyV X Y Z))).any id := by simp [List.any_map]
        rw [this, k4]
        simp [List.any_map]

end Poetry
