/-
C12's two answers at the probe, for constraints of the regular setting over Python bounds: a yes of `allows_all` and a
no of `allows_any` against the project's Python range are sound at the interpreter `X.Y.Z` (helper lemmas for C17
`reduce_exact`).
-/
import PoetryVerif.Proofs.PyConvSplitSem
import PoetryVerif.Proofs.VRangeWalk

set_option linter.unusedSimpArgs false
set_option linter.unusedVariables false

namespace Poetry
open Poetry.Version Std

theorem pyVCok_regular {c : VC} (hc : PyVCok c) (X Y Z : Nat) (rc : RC) (hrc : rc ∈ c.flatten) :
    Regular rc.bounds (pyV X Y Z) :=
  fun e he => regular_py ((hc.2 rc hrc).2.2.2 e he) X Y Z

theorem regular_append {B1 B2 : List Version} {p : Version} (h1 : Regular B1 p) (h2 : Regular B2 p) :
    Regular (B1 ++ B2) p := by
  intro e he
  rcases List.mem_append.1 he with h | h
  · exact h1 e h
  · exact h2 e h

theorem regular_boundsOf {l : List RC} {p : Version} (h : ∀ rc ∈ l, Regular rc.bounds p) : Regular (boundsOf l) p := by
  intro e he
  simp only [boundsOf, List.mem_flatMap] at he
  obtain ⟨rc, hrc, hec⟩ := he
  exact h rc hrc e hec

theorem allowsPlain_any (c : VC) (p : Version) : c.allowsPlain p = anyAllows c.flatten p := rfl

/-- **`c.allows_all(pc)` yes is sound at the probe** -/
theorem allowsAll_py (c pc : VC) (hc : PyVCok c) (hpc : PyVCok pc) (X Y Z : Nat)
    (h : c.allowsAll pc = .ok true) (hp : pc.allowsPlain (pyV X Y Z) = true) :
    c.allowsPlain (pyV X Y Z) = true := by
  have hwf := pyV_wf X Y Z
  have hregc := pyVCok_regular hc X Y Z
  have hregp := pyVCok_regular hpc X Y Z
  -- one member of `pc` admits the probe
  rw [allowsPlain_any, anyAllows, List.any_eq_true] at hp
  obtain ⟨t, ht, hta⟩ := hp
  cases c with
  | empty =>
    simp only [VC.allowsAll, Except.ok.injEq] at h
    cases pc <;> simp [VC.isEmpty, VC.flatten] at h ht
  | single a =>
    have ha := hc.2 a (by simp [VC.flatten])
    cases a with
    | ver v =>
      cases pc with
      | empty => simp [VC.flatten] at ht
      | single b =>
        simp only [VC.flatten, List.mem_singleton] at ht; subst ht
        simp only [VC.allowsAll, Except.ok.injEq] at h
        have := RC.allowsAll_sound (.ver v) t ha.1 (hpc.2 t (by simp [VC.flatten])).1 h _ hwf
          (regular_append (hregc _ (by simp [VC.flatten])) (hregp _ (by simp [VC.flatten]))) hta
        simpa [VC.allowsPlain, VC.flatten] using this
      | union rs => simp [VC.allowsAll] at h
    | rng r =>
      cases pc with
      | empty => simp [VC.flatten] at ht
      | single b =>
        simp only [VC.flatten, List.mem_singleton] at ht; subst ht
        simp only [VC.allowsAll, Except.ok.injEq] at h
        have := RC.allowsAll_sound (.rng r) t ha.1 (hpc.2 t (by simp [VC.flatten])).1 h _ hwf
          (regular_append (hregc _ (by simp [VC.flatten])) (hregp _ (by simp [VC.flatten]))) hta
        simpa [VC.allowsPlain, VC.flatten] using this
      | union rs =>
        simp only [VC.allowsAll, Except.ok.injEq, List.all_eq_true] at h
        simp only [VC.flatten] at ht
        have := RC.allowsAll_sound (.rng r) t ha.1 (hpc.2 t (by simpa [VC.flatten] using ht)).1 (h t ht) _ hwf
          (regular_append (hregc _ (by simp [VC.flatten])) (hregp _ (by simpa [VC.flatten] using ht))) hta
        simpa [VC.allowsPlain, VC.flatten] using this
  | union rs =>
    simp only [VC.allowsAll] at h
    obtain ⟨b, hb, hs⟩ := unionAllowsAllLoop_sound (rs.length + pc.flatten.length + 1) rs pc.flatten (by omega)
      (fun c' hc' => (hc.2 c' (by simpa [VC.flatten] using hc')).1) (fun c' hc' => (hpc.2 c' hc').1)
    rw [hb] at h; injection h with h
    have := hs h _ hwf (regular_append (regular_boundsOf (fun rc hrc => hregc rc (by simpa [VC.flatten] using hrc)))
      (regular_boundsOf hregp)) (by simp only [anyAllows, List.any_eq_true]; exact ⟨t, ht, hta⟩)
    exact this


theorem foldl_allowsAny_false (r : VRange) (rs : List RC) (acc : Bool)
    (h : rs.foldlM (fun acc c => if acc then (pure true : PyM Bool) else RC.allowsAny (.rng r) c) acc = .ok false) :
    acc = false ∧ ∀ c ∈ rs, RC.allowsAny (.rng r) c = .ok false := by
  induction rs generalizing acc with
  | nil => simp [List.foldlM, pure, Except.pure] at h; exact ⟨h, by simp⟩
  | cons c cs ih =>
    simp only [List.foldlM, bind, Except.bind] at h
    cases acc with
    | true =>
      simp only [if_true, pure, Except.pure] at h
      have := (ih true h).1; cases this
    | false =>
      simp only [Bool.false_eq_true, if_false] at h
      cases hc : RC.allowsAny (.rng r) c with
      | error e => simp [hc] at h
      | ok b =>
        simp only [hc] at h
        have := ih b h
        refine ⟨rfl, ?_⟩
        intro x hx
        rcases List.mem_cons.1 hx with rfl | hx
        · rw [hc, this.1]
        · exact this.2 x hx

/-- **`c.allows_any(pc)` no is sound at the probe** -/
theorem allowsAny_py (c pc : VC) (hc : PyVCok c) (hpc : PyVCok pc) (X Y Z : Nat)
    (h : c.allowsAny pc = .ok false) :
    ¬ (c.allowsPlain (pyV X Y Z) = true ∧ pc.allowsPlain (pyV X Y Z) = true) := by
  have hwf := pyV_wf X Y Z
  have hregc := pyVCok_regular hc X Y Z
  have hregp := pyVCok_regular hpc X Y Z
  rintro ⟨hcp, hpp⟩
  cases c with
  | empty => simp [VC.allowsPlain, VC.flatten] at hcp
  | single a =>
    have ha := hc.2 a (by simp [VC.flatten])
    cases a with
    | ver v =>
      -- through the intersection
      let B : List Version := boundsOf (VC.single (.ver v)).flatten ++ boundsOf pc.flatten
      have hpb : ∀ e ∈ B, PyBound e = true := by
        intro e he
        simp only [B, List.mem_append, boundsOf, List.mem_flatMap] at he
        rcases he with ⟨x, hx, hex⟩ | ⟨x, hx, hex⟩
        · exact (hc.2 x hx).2.2.2 e hex
        · exact (hpc.2 x hx).2.2.2 e hex
      have hB := regB_of_pyBound B hpb
      have hrc : RegVC B (.single (.ver v)) := regVC_of_ok hc (by
        intro x hx e he; simp only [B, List.mem_append, boundsOf, List.mem_flatMap]; exact Or.inl ⟨x, hx, he⟩)
      have hrp : RegVC B pc := regVC_of_ok hpc (by
        intro x hx e he; simp only [B, List.mem_append, boundsOf, List.mem_flatMap]; exact Or.inr ⟨x, hx, he⟩)
      obtain ⟨i, hi, _, _, hex⟩ := VC.intersect_reg hB _ _ hrc.1 hrp.1 hrc.2 hrp.2
      simp only [VC.allowsAny, hi, bind, Except.bind, pure, Except.pure, Except.ok.injEq, Bool.not_eq_false'] at h
      have := hex _ hwf (regular_pyV B hpb X Y Z)
      rw [hcp, hpp] at this
      cases i <;> simp [VC.isEmpty] at h
      simp [VC.allowsPlain, VC.flatten] at this
    | rng r =>
      rw [allowsPlain_any, anyAllows, List.any_eq_true] at hpp
      obtain ⟨t, ht, hta⟩ := hpp
      have hra : r.allows (pyV X Y Z) = true := by simpa [VC.allowsPlain, VC.flatten, RC.allows] using hcp
      cases pc with
      | empty => simp [VC.flatten] at ht
      | single b =>
        simp only [VC.flatten, List.mem_singleton] at ht; subst ht
        simp only [VC.allowsAny] at h
        exact RC.allowsAny_false_sound (.rng r) t ha.1 (hpc.2 t (by simp [VC.flatten])).1 h _ hwf
          (regular_append (hregc _ (by simp [VC.flatten])) (hregp _ (by simp [VC.flatten]))) ⟨hra, hta⟩
      | union rs =>
        simp only [VC.allowsAny] at h
        have := (foldl_allowsAny_false r rs false h).2 t (by simpa [VC.flatten] using ht)
        exact RC.allowsAny_false_sound (.rng r) t ha.1 (hpc.2 t ht).1 this _ hwf
          (regular_append (hregc _ (by simp [VC.flatten])) (hregp _ ht)) ⟨hra, hta⟩
  | union rs =>
    simp only [VC.allowsAny] at h
    obtain ⟨b, hb, hs⟩ := unionAllowsAnyLoop_sound (rs.length + pc.flatten.length + 1) rs pc.flatten (by omega)
      (fun c' hc' => (hc.2 c' (by simpa [VC.flatten] using hc')).1) (fun c' hc' => (hpc.2 c' hc').1)
      hc.1.2.2.1 (SortedRC_flatten_of_WF pc hpc.1)
    rw [hb] at h; injection h with h
    exact hs h _ hwf (regular_append (regular_boundsOf (fun rc hrc => hregc rc (by simpa [VC.flatten] using hrc)))
      (regular_boundsOf hregp)) ⟨hcp, hpp⟩

end Poetry
