/-
The character-level print → parse theorem with both quote characters.  `_quoted(value)` writes a value that holds a
double quote or a backslash and no single quote between single quotes (repo fixes 3046ca3, 7b51c5a); the grammar
reads `'…'` as SINGLE_QUOTED_STRING (`/'([^'])*'/`: anything but a single quote, no escapes) and `"…"` as
ESCAPED_STRING.  A value is writable when it holds no `"`, `\`, newline (double quotes) or holds a `"` or a `\` and no
`'` (single quotes; newlines are then harmless).  Not writable, with the reason: a value holding a single quote
together with a `"` or a `\` (no quoting of the grammar can carry both quote characters: there are no escapes in
SINGLE_QUOTED_STRING and `_quoted` does not escape; with `'` and `\` it is written in double quotes, where
ESCAPED_STRING reads `\"` as an escaped quote), and a value without `"` and `\` that holds a newline (written in
double quotes, where `.` does not match a newline).
-/
import PoetryVerif.Proofs.MarkerPrintChars

set_option linter.unusedSimpArgs false
set_option linter.unusedVariables false

namespace Poetry.Marker
open Poetry

/-- a value `_quoted` can write so that the grammar reads it back -/
def ValOkQ (v : String) : Prop :=
  ValOk v ∨ (('"' ∈ v.toList ∨ '\\' ∈ v.toList) ∧ ∀ c ∈ v.toList, c ≠ '\'')

/-- the quote character `_quoted` uses -/
def qch (v : String) : Char :=
  if !v.toList.contains '\'' && (v.toList.contains '"' || v.toList.contains '\\') then '\'' else '"'

theorem quoteOf_qch (v : String) : (quoteOf v).toList = [qch v] := by
  unfold quoteOf qch; split <;> rfl

theorem singleQuoted_ok (l rest : List Char) (h : ∀ c ∈ l, c ≠ '\'') :
    singleQuoted (l ++ '\'' :: rest) = some (l, rest) := by
  induction l with
  | nil => simp [singleQuoted]
  | cons c cs ih =>
    have hc := h c (by simp)
    have := ih (fun d hd => h d (by simp [hd]))
    simp only [List.cons_append]
    rw [singleQuoted]
    · simp [this]
    · intro r; exact hc r

/-- `_marker_value` on a written value -/
theorem markerValue_q (v : String) (rest : List Char) (h : ValOkQ v) :
    markerValue (qch v :: (v.toList ++ qch v :: rest)) = some (v, rest) := by
  rcases h with h | ⟨hd, hs⟩
  · have hq : qch v = '"' := by
      unfold qch
      have h1 : v.toList.contains '"' = false := by
        cases hc : v.toList.contains '"' with
        | false => rfl
        | true => exact absurd rfl ((h _ (List.contains_iff_mem.mp hc)).1)
      have h2 : v.toList.contains '\\' = false := by
        cases hc : v.toList.contains '\\' with
        | false => rfl
        | true => exact absurd rfl ((h _ (List.contains_iff_mem.mp hc)).2.1)
      rw [h1, h2]; simp
    rw [hq, markerValue_dq v.toList rest h, String.ofList_toList]
  · have hq : qch v = '\'' := by
      unfold qch
      have h1 : (v.toList.contains '"' || v.toList.contains '\\') = true := by
        rcases hd with hd | hd
        · rw [List.contains_iff_mem.mpr hd]; rfl
        · rw [List.contains_iff_mem.mpr hd]; simp
      have h2 : v.toList.contains '\'' = false := by
        cases hc : v.toList.contains '\'' with
        | false => rfl
        | true => exact absurd rfl (hs _ (List.contains_iff_mem.mp hc))
      rw [h1, h2]; simp
    rw [hq]
    simp [markerValue, singleQuoted_ok v.toList rest hs]

theorem qch_cases (v : String) : qch v = '"' ∨ qch v = '\'' := by unfold qch; split <;> simp

theorem parseItem_plainQ (n op v : String) (hn : n ∈ names) (ho : op ∈ ops) (hv : ValOkQ v) (rest : List Char) :
    parseItem (n.toList ++ ' ' :: (op.toList ++ ' ' :: qch v :: (v.toList ++ qch v :: rest))) =
      some (.item n op v false, rest) := by
  have h0 := (name_head n hn (' ' :: (op.toList ++ ' ' :: qch v :: (v.toList ++ qch v :: rest)))).1
  have h1 := matchName_sp n hn (op.toList ++ ' ' :: qch v :: (v.toList ++ qch v :: rest))
  have h2 := matchOp_sp op ho (qch v :: (v.toList ++ qch v :: rest))
  have h3 := markerValue_q v rest hv
  unfold parseItem
  simp only [h0, h1, skipWs_sp, op_head op ho, h2]
  have e : skipWs (qch v :: (v.toList ++ qch v :: rest)) = qch v :: (v.toList ++ qch v :: rest) := by
    rcases qch_cases v with h | h <;> simp [h, skipWs]
  simp only [e, h3]

theorem parseItem_swappedQ (n op v : String) (hn : n ∈ names) (ho : op ∈ ops) (hv : ValOkQ v) (rest : List Char)
    (hr : NameStop rest) :
    parseItem (qch v :: (v.toList ++ qch v :: ' ' :: (op.toList ++ ' ' :: (n.toList ++ rest)))) =
      some (.item n op v true, rest) := by
  have h1 := matchName_stop n hn rest hr
  have h2 := matchOp_sp op ho (n.toList ++ rest)
  have h3 := markerValue_q v (' ' :: (op.toList ++ ' ' :: (n.toList ++ rest))) hv
  have h4 := (name_head n hn rest).2.1
  unfold parseItem
  simp only [h3, skipWs_sp, op_head op ho, h2, h4, h1]

mutual
def Atom.charsQ : Atom → List Char
  | .item n op v false => n.toList ++ ' ' :: (op.toList ++ ' ' :: qch v :: (v.toList ++ [qch v]))
  | .item n op v true => qch v :: (v.toList ++ qch v :: ' ' :: (op.toList ++ ' ' :: n.toList))
  | .paren m => '(' :: (m.charsQ ++ [')'])
def Syn.charsQ : Syn → List Char
  | .one a => a.charsQ
  | .more a isOr rest => a.charsQ ++ ((if isOr then " or " else " and ").toList ++ rest.charsQ)
end

mutual
/-- every item uses a name and an operator of the grammar and a writable value -/
def Atom.LexableQ : Atom → Prop
  | .item n op v _ => n ∈ names ∧ op ∈ ops ∧ ValOkQ v
  | .paren m => m.LexableQ
def Syn.LexableQ : Syn → Prop
  | .one a => a.LexableQ
  | .more a _ rest => a.LexableQ ∧ rest.LexableQ
end

mutual
theorem Atom.Lexable.toQ : ∀ a : Atom, a.Lexable → a.LexableQ
  | .item n op v _, h => ⟨h.1, h.2.1, Or.inl h.2.2⟩
  | .paren m, h => Syn.Lexable.toQ m h
theorem Syn.Lexable.toQ : ∀ t : Syn, t.Lexable → t.LexableQ
  | .one a, h => Atom.Lexable.toQ a h
  | .more a _ rest, h => ⟨Atom.Lexable.toQ a h.1, Syn.Lexable.toQ rest h.2⟩
end

mutual
/-- the text of a tree is its characters with the quote character `_quoted` chooses -/
theorem Atom.text_charsQ : ∀ a : Atom, a.text.toList = a.charsQ
  | .item n op v false => by
      simp [Atom.text, Atom.charsQ, leafText, String.toList_append, quoteOf_qch]
  | .item n op v true => by
      simp [Atom.text, Atom.charsQ, leafText, String.toList_append, quoteOf_qch]
  | .paren m => by simp [Atom.text, Atom.charsQ, String.toList_append, Syn.text_charsQ m]
theorem Syn.text_charsQ : ∀ t : Syn, t.text.toList = t.charsQ
  | .one a => by simp [Syn.text, Syn.charsQ, Atom.text_charsQ a]
  | .more a isOr rest => by
      simp [Syn.text, Syn.charsQ, String.toList_append, Atom.text_charsQ a, Syn.text_charsQ rest]
end

mutual
theorem parseAtom_charsQ : ∀ (a : Atom) (fuel : Nat) (rest : List Char), a.LexableQ → a.size < fuel →
    NameStop rest → parseAtom fuel (a.charsQ ++ rest) = some (a, rest)
  | .item n op v false, fuel, rest, hl, hf, hr => by
      obtain ⟨hn, ho, hv⟩ := hl
      cases fuel with
      | zero => simp [Atom.size] at hf
      | succ fuel =>
        have e : (Atom.item n op v false).charsQ ++ rest =
            n.toList ++ ' ' :: (op.toList ++ ' ' :: qch v :: (v.toList ++ qch v :: rest)) := by
          simp [Atom.charsQ]
        rw [e]
        have hh := name_head n hn (' ' :: (op.toList ++ ' ' :: qch v :: (v.toList ++ qch v :: rest)))
        rw [parseAtom_item fuel _ hh.2.1 hh.2.2]
        exact parseItem_plainQ n op v hn ho hv rest
  | .item n op v true, fuel, rest, hl, hf, hr => by
      obtain ⟨hn, ho, hv⟩ := hl
      cases fuel with
      | zero => simp [Atom.size] at hf
      | succ fuel =>
        have e : (Atom.item n op v true).charsQ ++ rest =
            qch v :: (v.toList ++ qch v :: ' ' :: (op.toList ++ ' ' :: (n.toList ++ rest))) := by
          simp [Atom.charsQ]
        rw [e]
        rw [parseAtom_item fuel _ (by rcases qch_cases v with h | h <;> simp [h, skipWs])
          (by intro r h; rcases qch_cases v with hq | hq <;> (rw [hq] at h; cases h))]
        exact parseItem_swappedQ n op v hn ho hv rest hr
  | .paren m, fuel, rest, hl, hf, hr => by
      cases fuel with
      | zero => simp [Atom.size] at hf
      | succ fuel =>
        simp only [Atom.size] at hf
        have ih := parseSyn_charsQ m fuel (')' :: rest) hl (by omega) (Or.inr ⟨rest, rfl⟩)
        have e : (Atom.paren m).charsQ ++ rest = '(' :: (m.charsQ ++ ')' :: rest) := by simp [Atom.charsQ]
        rw [e, parseAtom]
        simp [skipWs, ih]
theorem parseSyn_charsQ : ∀ (t : Syn) (fuel : Nat) (rest : List Char), t.LexableQ → t.size < fuel →
    EndOk rest → parseSyn fuel (t.charsQ ++ rest) = some (t, rest)
  | .one a, fuel, rest, hl, hf, hr => by
      cases fuel with
      | zero => simp [Syn.size] at hf
      | succ fuel =>
        simp only [Syn.size] at hf
        have ih := parseAtom_charsQ a fuel rest hl (by omega) hr.nameStop
        rw [Syn.charsQ, parseSyn, ih]
        simp [noBool_of_endOk hr]
  | .more a isOr r, fuel, rest, hl, hf, hr => by
      cases fuel with
      | zero => simp [Syn.size] at hf
      | succ fuel =>
        simp only [Syn.size] at hf
        have ih2 := parseSyn_charsQ r fuel rest hl.2 (by omega) hr
        cases isOr with
        | false =>
          have e : (Syn.more a false r).charsQ ++ rest =
              a.charsQ ++ (' ' :: 'a' :: 'n' :: 'd' :: ' ' :: (r.charsQ ++ rest)) := by
            simp [Syn.charsQ]
          have ih1 := parseAtom_charsQ a fuel (' ' :: 'a' :: 'n' :: 'd' :: ' ' :: (r.charsQ ++ rest)) hl.1
            (by omega) (Or.inr (Or.inl ⟨_, rfl⟩))
          rw [e, parseSyn, ih1]
          simp [boolOps_list, matchWord, stripPrefix?, skipWs, parseSyn_skip, ih2]
        | true =>
          have e : (Syn.more a true r).charsQ ++ rest =
              a.charsQ ++ (' ' :: 'o' :: 'r' :: ' ' :: (r.charsQ ++ rest)) := by
            simp [Syn.charsQ]
          have ih1 := parseAtom_charsQ a fuel (' ' :: 'o' :: 'r' :: ' ' :: (r.charsQ ++ rest)) hl.1
            (by omega) (Or.inr (Or.inl ⟨_, rfl⟩))
          rw [e, parseSyn, ih1]
          simp [boolOps_list, matchWord, stripPrefix?, skipWs, parseSyn_skip, ih2]
end

mutual
theorem Atom.size_le_charsQ : ∀ a : Atom, a.size ≤ a.charsQ.length
  | .item n op v false => by simp [Atom.size, Atom.charsQ]; omega
  | .item n op v true => by simp [Atom.size, Atom.charsQ]
  | .paren m => by have := Syn.size_le_charsQ m; simp [Atom.size, Atom.charsQ]; omega
theorem Syn.size_le_charsQ : ∀ t : Syn, t.size ≤ t.charsQ.length + 1
  | .one a => by have := Atom.size_le_charsQ a; simp [Syn.size, Syn.charsQ]; omega
  | .more a isOr r => by
      have h1 := Atom.size_le_charsQ a
      have h2 := Syn.size_le_charsQ r
      cases isOr <;> simp [Syn.size, Syn.charsQ] <;> omega
end

/-- **the text of a tree with writable values parses back to the tree**, either quote character -/
theorem parseText_textQ (t : Syn) (hl : t.LexableQ) : parseText t.text = .ok t := by
  have hs := Syn.size_le_charsQ t
  have := parseSyn_charsQ t (2 * t.charsQ.length + 2) [] hl (by omega) (Or.inl rfl)
  simp only [List.append_nil] at this
  simp [parseText, Syn.text_charsQ t, this, skipWs]

end Poetry.Marker
