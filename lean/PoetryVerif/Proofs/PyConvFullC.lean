/-
C11 / C17 on the full domain with `~=` leaves (`FullLeafC E`: plain string variables, `extra`,
`python_version op "a.b"`, `python_full_version op "a.b.c"` with a comparison operator or `~=`): the pairing
theorem `pairSound_pyC` closes C07's leaf specification there, so the theorems against poetry's own `validate`
hold without a leaf-level hypothesis.
-/
import PoetryVerif.Proofs.PyConvPairCompat
import PoetryVerif.Proofs.PyConvFullReduce

set_option linter.unusedSimpArgs false
set_option linter.unusedVariables false

namespace Poetry.Marker
open Poetry Poetry.Spec.Pep508

theorem fullLeaf_C {E : Env} {l : Leaf} (h : FullLeaf E l) : FullLeafC E l := by
  rcases h with h | h | h
  · exact Or.inl h
  · exact Or.inr (Or.inl (Or.inl h))
  · exact Or.inr (Or.inr (Or.inl h))

theorem pvCompat_comp {E : Env} {X Y : Nat} (hE : E.get? "python_version" = some (Version.relText [X, Y]))
    (a b : Nat) : CompLeaf E (.single (pvCompatOf a b)) ∧ PyShaped (.single (pvCompatOf a b)) := by
  refine ⟨⟨_, rfl, ?_, ⟨_, pvCompat_eval hE a b⟩, by simp [Canon, Leaf.name, pvCompatOf]; decide⟩, ?_⟩
  · simp only [Single.coherent, pvCompatOf, itemConstraintString, Bool.false_eq_true, if_false, mkSingle_pvCompat a b]
    simp [pvCompatOf]
  · intro _
    exact ⟨_, [a, b], rfl, rfl, relOp_compat, .short a b, rfl⟩

theorem pfvCompat_comp {E : Env} {X Y Z : Nat}
    (hE : E.get? "python_full_version" = some (Version.relText [X, Y, Z])) (a b c : Nat) :
    CompLeaf E (.single (pfvCompatOf a b c)) ∧ PyShaped (.single (pfvCompatOf a b c)) := by
  refine ⟨⟨_, rfl, ?_, ⟨_, pfvCompat_eval hE a b c⟩, by simp [Canon, Leaf.name, pfvCompatOf]; decide⟩, ?_⟩
  · simp only [Single.coherent, pfvCompatOf, itemConstraintString, Bool.false_eq_true, if_false,
      mkSingle_pfvCompat a b c]
    simp [pfvCompatOf]
  · intro _
    exact ⟨_, [a, b, c], rfl, rfl, relOp_compat, .full a b c, rfl⟩

theorem fullLeafC_clause {E : Env} {X Y Z : Nat} (hE : EnvPy E X Y Z) (l : Leaf) (h : FullLeafC E l)
    (hk : convKey l.name = pyKey) : LeafClause (leafEval E) X Y Z l := by
  rcases h with h | (h | ⟨a, b, rfl⟩) | (h | ⟨a, b, c, rfl⟩)
  · exact fullLeaf_clause hE l (Or.inl h) hk
  · exact fullLeaf_clause hE l (Or.inr (Or.inl h)) hk
  · obtain ⟨hc, hs⟩ := pvCompat_comp hE.1 a b
    exact leafClause_of_comp E X Y Z hE _ hc hs hk
  · exact fullLeaf_clause hE l (Or.inr (Or.inr h)) hk
  · obtain ⟨hc, hs⟩ := pfvCompat_comp hE.2 a b c
    exact leafClause_of_comp E X Y Z hE _ hc hs hk

theorem fullLeafC_canon {E : Env} (l : Leaf) (h : FullLeafC E l) : Canon l := by
  rcases h with h | (h | ⟨a, b, rfl⟩) | (h | ⟨a, b, c, rfl⟩)
  · exact fullLeaf_canon (E := E) l (Or.inl h)
  · exact fullLeaf_canon (E := E) l (Or.inr (Or.inl h))
  · simp only [Canon, Leaf.name, pvCompatOf]; decide
  · exact fullLeaf_canon (E := E) l (Or.inr (Or.inr h))
  · simp only [Canon, Leaf.name, pfvCompatOf]; decide

/-- **C07's leaf specification on the full domain with `~=`, no hypothesis left** -/
theorem leafSpec_fullDomainC {E : Env} {ex : List String} (hX : E.extras = some ex) {X Y Z : Nat}
    (hE : EnvPy E X Y Z) : LeafSpec (leafEval E) (FullLeafC E) :=
  leafSpec_fullC hX hE (pairSound_pyC hE)

theorem gpc_upper_validate_fullC {E : Env} {ex : List String} (hX : E.extras = some ex) {X Y Z : Nat}
    (hE : EnvPy E X Y Z) (m : M) (g : VC) (hg : M.Good (FullLeafC E) m) (h : gpc m = .ok g)
    (hv : M.validate E m = .ok true) : g.allowsPlain (pyV X Y Z) = true :=
  gpc_upper_validate_gen E X Y Z (leafSpec_fullDomainC hX hE) (fun l hl => fullLeafC_evaluable hX hE hl)
    (fun l hl hk => fullLeafC_clause hE l hl hk) m g hg h hv

theorem gpc_exact_validate_fullC {E : Env} {ex : List String} (hX : E.extras = some ex) {X Y Z : Nat}
    (hE : EnvPy E X Y Z) (m : M) (g : VC) (hg : M.Good (FullLeafC E) m)
    (hvars : ∀ n ∈ M.vars m, pyNames.contains n = true) (h : gpc m = .ok g) :
    M.validate E m = .ok (g.allowsPlain (pyV X Y Z)) :=
  gpc_exact_validate_gen E X Y Z (leafSpec_fullDomainC hX hE) (fun l hl => fullLeafC_evaluable hX hE hl)
    (fun l hl hk => fullLeafC_clause hE l hl hk) fullLeafC_canon m g hg hvars h

theorem only_mentions_fullC {E : Env} {ex : List String} (hX : E.extras = some ex) {X Y Z : Nat}
    (hE : EnvPy E X Y Z) (names : List String) (m r : M) (hg : M.Good (FullLeafC E) m)
    (h : m.only names = .ok r) : ∀ n ∈ M.vars r, n ∈ names :=
  only_mentions_thm (leafSpec_fullDomainC hX hE) fullLeafC_canon names m r hg h

/-- **`ReduceCtx` on the full domain with `~=`** -/
theorem reduceCtx_fullC {E : Env} {ex : List String} (hX : E.extras = some ex) {X Y Z : Nat} (hE : EnvPy E X Y Z)
    (pc : VC) (hd : PyDomVC pc = true) (hp2 : PyPrec2 pc) (hpcok : PyVCok pc)
    (hpc : pc.allowsPlain (pyV X Y Z) = true) :
    ReduceCtx (leafEval E) (FullLeafC E) (fun _ => True) PyVCok pc (pyV X Y Z) where
  spec := leafSpec_fullDomainC hX hE
  canon := fullLeafC_canon
  gpcLeaf_exact := fun l c hg _ hn hgl => by
    obtain ⟨s, item, rfl, hop, hitem, ⟨vc, hvc, hb⟩, hshape⟩ :=
      fullLeafC_clause hE l hg (convKey_of_isPyName hn)
    rw [gpcLeaf_single s item hn hop hitem, hvc] at hgl
    injection hgl with hgl; subst hgl
    refine ⟨?_, hb⟩
    obtain ⟨hok, hstar, vc', hp', hvc'⟩ := hshape
    have hne : item ≠ "*" := by intro e; apply hstar; rw [e]; rfl
    rw [VParser.parseMarkerVersionConstraint, parseConstraintAux_single item true hok.nosep hne, hp'] at hvc
    injection hvc with hvc; subst hvc; exact hvc'
  gpc_lower := fun u g hgu hvu hgpc => by
    have S := leafSpec_fullDomainC hX hE
    have hcl : ∀ l, FullLeafC E l → convKey l.name = pyKey → LeafClause (leafEval E) X Y Z l :=
      fun l hl hk => fullLeafC_clause hE l hl hk
    refine ⟨gpc_pyVCok S X Y Z u g hgu (fun l hl hk => leafAlts_of_clause (hcl l hl hk)) hgpc, ?_⟩
    intro hal
    have hvars : ∀ n ∈ M.vars u, pyNames.contains n = true := fun n hn => by simpa using hvu n hn
    have := gpc_exact S X Y Z u g hgu hvars hcl (splitSound_holds X Y Z) (by
      intro d hdd l hl
      have hv := dnf_vars S fullLeafC_canon _ _ u d hgu hdd l.name (leaf_name_mem_vars d l hl)
      exact convKey_of_pyNames (hvars _ hv)) hgpc
    rw [this, hal]
  allowsAll_sound := fun c hw h => allowsAll_py c pc hw hpcok X Y Z h hpc
  allowsAny_sound := fun c hw h hcp => allowsAny_py c pc hw hpcok X Y Z h ⟨hcp, hpc⟩
  nested_true := fun txt pm ht hm => by
    have := createNested_full hX hE pc hd hp2 txt pm ht hm
    exact ⟨M.good_mono (fun l hl => fullLeaf_C hl) pm this.1, by rw [this.2, hpc]⟩

/-- **`reduce_by_python_constraint` is exact against `validate`, full domain with `~=`** -/
theorem reduce_exact_validate_fullC {E : Env} {ex : List String} (hX : E.extras = some ex) {X Y Z : Nat}
    (hE : EnvPy E X Y Z) (pc : VC) (hd : PyDomVC pc = true) (hp2 : PyPrec2 pc) (hpcok : PyVCok pc)
    (hpc : pc.allowsPlain (pyV X Y Z) = true) (m r : M) (hg : M.Good (FullLeafC E) m)
    (h : M.reduce pc m = .ok r) :
    M.Good (FullLeafC E) r ∧ M.validate E r = M.validate E m := by
  have C := reduceCtx_fullC hX hE pc hd hp2 hpcok hpc
  have hr := reduce_exact_aux C m r (M.good_mono (fun l hl => ⟨hl, trivial⟩) m hg) h
  have hev : ∀ x, M.Good (FullLeafC E) x → M.Evaluable E x := fun x hx =>
    M.good_mono (fun l hl => fullLeafC_evaluable hX hE hl) x hx
  exact ⟨hr.1, by rw [M.validate_eq_sem E r (hev r hr.1), M.validate_eq_sem E m (hev m hg), hr.2]⟩

end Poetry.Marker
