/-
`VersionRange ∩ VersionRange` at one probe, from the comparisons alone (helper lemmas for C04/C05): the result
keeps the lower end of one operand and the upper end of one operand; it is exact at a probe as soon as the three
bound comparisons `allows_lower` / `allows_higher` / `is_strictly_lower` are sound AT THAT PROBE (`CmpOK`) — no
regularity, no plain-comparison reading of the ends is needed.
-/
import PoetryVerif.Proofs.VRangeSharp

set_option linter.unusedSimpArgs false
set_option linter.unusedVariables false

namespace Poetry
open Version

namespace VRange

/-- the bound comparisons are sound at the probe `p` -/
structure CmpOK (a b : VRange) (p : Version) : Prop where
  lo1 : a.allowsLower b = true → b.allowsLo p = true → a.allowsLo p = true
  lo2 : a.allowsLower b = false → a.allowsLo p = true → b.allowsLo p = true
  hi1 : a.allowsHigher b = true → b.allowsHi p = true → a.allowsHi p = true
  hi2 : a.allowsHigher b = false → a.allowsHi p = true → b.allowsHi p = true
  sl1 : a.isStrictlyLower b = true → ¬ (a.allowsHi p = true ∧ b.allowsLo p = true)
  sl2 : b.isStrictlyLower a = true → ¬ (b.allowsHi p = true ∧ a.allowsLo p = true)

/-- `[m, M]` with `m == M`: the single version -/
theorem deg_allows (L H : VRange) (m M p : Version) (hm : L.min = some m) (hi : L.imin = true)
    (hM : H.max = some M) (hj : H.imax = true) (hk : vk m = vk M) (hmw : m.wf = true) (hMw : M.wf = true) :
    (L.allowsLo p && H.allowsHi p) = m.allows p := by
  have hA : H.allowedMax = some M := by simp [allowedMax, hM, hj]
  have hl : M.isLocal = m.isLocal := isLocal_of_vk_eq hMw hmw hk.symm
  unfold allowsLo allowsHi Version.allows
  simp only [hm, hi, hM, hA, hj, hl, Bool.not_true, Bool.false_and, Bool.false_eq_true, if_false]
  generalize (if (!m.isLocal && p.isLocal) = true then p.withoutLocal else p) = o
  have key : ((!Version.lt o m) && (!Version.gt o M)) = Version.eqv m o := by
    apply bool_eq_of_iff
    simp only [Bool.and_eq_true, Bool.not_eq_true', lt_false_iff, gt_false_iff, eqv_iff]
    constructor
    · rintro ⟨h1, h2⟩; exact le_antisymm h1 (hk ▸ h2)
    · intro h; exact ⟨le_of_eq h, by rw [← hk]; exact le_of_eq h.symm⟩
  rw [← key]
  cases Version.lt o m <;> cases Version.gt o M <;> rfl

theorem interFinish_at (L H : VRange) (hL : L.WF) (hH : H.WF) (p : Version)
    (ord : ∀ m M, L.min = some m → H.max = some M → vk m < vk M ∨ (vk m = vk M ∧ L.imin = true ∧ H.imax = true)) :
    ∃ c, interFinish L.min L.imin H.max H.imax = .ok c ∧ c.notUnion ∧
      c.allowsPlain p = (L.allowsLo p && H.allowsHi p) ∧
      (c = .single (.rng VRange.any) ∨ (∃ m M, L.min = some m ∧ H.max = some M ∧ vk m = vk M ∧ H.imax = true ∧ c = .single (.ver m)) ∨
        c = .single (.rng ⟨L.min, H.max, L.imin, H.imax⟩)) := by
  unfold interFinish
  by_cases h1 : (L.min.isNone && H.max.isNone) = true
  · simp only [h1, if_true]
    simp only [Bool.and_eq_true, Option.isNone_iff_eq_none] at h1
    refine ⟨_, rfl, trivial, ?_, Or.inl rfl⟩
    simp [VC.allowsPlain, VC.flatten, RC.allows, allows, allowsLo, allowsHi, VRange.any, h1.1, h1.2]
  · simp only [h1, Bool.false_eq_true, if_false]
    by_cases h2 : optVerEq L.min H.max = true
    · cases hm : L.min with
      | none =>
        cases hM : H.max with
        | none => simp [hm, hM] at h1
        | some M => rw [hm, hM] at h2; simp [optVerEq] at h2
      | some m =>
        cases hM : H.max with
        | none => rw [hm, hM] at h2; simp [optVerEq] at h2
        | some M =>
          rw [hm, hM] at h2
          have hk : vk m = vk M := (eqv_iff _ _).1 (by simpa [optVerEq] using h2)
          rcases ord m M hm hM with hlt | ⟨_, hi, hj⟩
          · exact absurd hk (ne_of_lt hlt)
          · simp only [h2, if_true, hi, hj, Bool.and_self]
            refine ⟨_, rfl, trivial, ?_, Or.inr (Or.inl ⟨m, M, rfl, rfl, hk, trivial, rfl⟩)⟩
            simp only [VC.allowsPlain, VC.flatten, List.any_cons, List.any_nil, Bool.or_false, RC.allows]
            exact (deg_allows L H m M p hm hi hM hj hk (hL.1 m (mem_bounds_min hm)) (hH.1 M (mem_bounds_max hM))).symm
    · simp only [h2, Bool.false_eq_true, if_false]
      refine ⟨_, rfl, trivial, ?_, Or.inr (Or.inr rfl)⟩
      simp only [VC.allowsPlain, VC.flatten, List.any_cons, List.any_nil, Bool.or_false, RC.allows, allows]
      congr 1
      -- the effective upper end of the result is that of `H`
      cases hM : H.max with
      | none => simp [allowsHi, hM]
      | some M =>
        have a1 := allowedMax_eq_of_lt (r := ⟨L.min, some M, L.imin, H.imax⟩) (M := M) rfl (by
          intro m hm e
          apply h2
          simp only at hm
          rw [hm, hM]; simp only [optVerEq]; exact (eqv_iff _ _).2 e)
        have a2 := allowedMax_eq_of_lt (r := H) (M := M) hM (fun m hm => ne_of_lt (hH.2 m M hm hM))
        simp only at a1
        unfold allowsHi
        simp only [a1, a2, hM]

/-- **`VersionRange ∩ VersionRange` at a probe where the comparisons are sound** -/
theorem intersect_cmp_at (a b : VRange) (ha : a.WF) (hb : b.WF) (p : Version) (h : CmpOK a b p) :
    ∃ c, RC.rngIntersectRng a b = .ok c ∧ c.notUnion ∧ c.allowsPlain p = (a.allows p && b.allows p) ∧
      (c = .empty ∨ ∃ L H, (L = a ∨ L = b) ∧ (H = a ∨ H = b) ∧
        (c = .single (.rng VRange.any) ∨ (∃ m M, L.min = some m ∧ H.max = some M ∧ vk m = vk M ∧ H.imax = true ∧ c = .single (.ver m)) ∨
          c = .single (.rng ⟨L.min, H.max, L.imin, H.imax⟩))) := by
  have ordSame : ∀ r : VRange, r.WF → ∀ m M, r.min = some m → r.max = some M →
      vk m < vk M ∨ (vk m = vk M ∧ r.imin = true ∧ r.imax = true) :=
    fun r hr m M hm hM => Or.inl (hr.2 m M hm hM)
  have ordCross : ∀ L O : VRange, O.isStrictlyLower L = false → ∀ m M, L.min = some m → O.max = some M →
      vk m < vk M ∨ (vk m = vk M ∧ L.imin = true ∧ O.imax = true) := by
    intro L O hs m M hm hM
    have h := strictlyLower_false hs
    cases hA : O.allowedMax with
    | none => have := allowedMax_isSome (r := O); simp [hA, hM] at this
    | some M' =>
      rw [hA, hm] at h
      simp only at h
      have hle := allowedMax_le hM hA
      rcases h with h | ⟨h1, h2, h3⟩
      · exact Or.inl (lt_of_lt_of_le h hle)
      · rcases lt_or_eq_of_le hle with h4 | h4
        · exact Or.inl (h1 ▸ h4)
        · exact Or.inr ⟨h1.trans h4, h3, h2⟩
  have fin : ∀ L H : VRange, (L = a ∨ L = b) → (H = a ∨ H = b) →
      (∀ m M, L.min = some m → H.max = some M → vk m < vk M ∨ (vk m = vk M ∧ L.imin = true ∧ H.imax = true)) →
      (L.allowsLo p = (a.allowsLo p && b.allowsLo p)) → (H.allowsHi p = (a.allowsHi p && b.allowsHi p)) →
      ∃ c, interFinish L.min L.imin H.max H.imax = .ok c ∧ c.notUnion ∧ c.allowsPlain p = (a.allows p && b.allows p) ∧
        (c = .empty ∨ ∃ L H, (L = a ∨ L = b) ∧ (H = a ∨ H = b) ∧
          (c = .single (.rng VRange.any) ∨ (∃ m M, L.min = some m ∧ H.max = some M ∧ vk m = vk M ∧ H.imax = true ∧ c = .single (.ver m)) ∨
            c = .single (.rng ⟨L.min, H.max, L.imin, H.imax⟩))) := by
    intro L H hL hH ord e1 e2
    have hLw : L.WF := by rcases hL with rfl | rfl <;> assumption
    have hHw : H.WF := by rcases hH with rfl | rfl <;> assumption
    obtain ⟨c, h1, h2, h3, h4⟩ := interFinish_at L H hLw hHw p ord
    refine ⟨c, h1, h2, ?_, Or.inr ⟨L, H, hL, hH, h4⟩⟩
    rw [h3, e1, e2]
    simp only [allows]
    cases a.allowsLo p <;> cases b.allowsLo p <;> cases a.allowsHi p <;> cases b.allowsHi p <;> rfl
  have loPick : ∀ (x y : Bool), (y = true → x = true) → y = (x && y) := by
    intro x y hxy; cases x <;> cases y <;> simp_all
  rw [rngIntersectRng_eq]
  by_cases h1 : a.allowsLower b = true
  · have eLo : b.allowsLo p = (a.allowsLo p && b.allowsLo p) := loPick _ _ (h.lo1 h1)
    by_cases h2 : a.isStrictlyLower b = true
    · simp only [h1, h2, if_true]
      refine ⟨_, rfl, trivial, ?_, Or.inl rfl⟩
      simp only [VC.allowsPlain, VC.flatten, List.any_nil, allows]
      have := h.sl1 h2
      cases x1 : a.allowsHi p
      · simp
      · cases x2 : b.allowsLo p
        · simp
        · exact absurd ⟨x1, x2⟩ this
    · simp only [h1, h2, if_true, Bool.false_eq_true, if_false]
      simp only [Bool.not_eq_true] at h2
      by_cases h3 : a.allowsHigher b = true
      · simp only [h3, if_true]
        exact fin b b (Or.inr rfl) (Or.inr rfl) (ordSame b hb) eLo (loPick _ _ (h.hi1 h3))
      · simp only [h3, Bool.false_eq_true, if_false]
        simp only [Bool.not_eq_true] at h3
        exact fin b a (Or.inr rfl) (Or.inl rfl) (ordCross b a h2) eLo (by
          rw [Bool.and_comm]; exact loPick _ _ (h.hi2 h3))
  · simp only [Bool.not_eq_true] at h1
    have eLo : a.allowsLo p = (a.allowsLo p && b.allowsLo p) := by
      rw [Bool.and_comm]; exact loPick _ _ (h.lo2 h1)
    by_cases h2 : b.isStrictlyLower a = true
    · simp only [h1, h2, if_true, Bool.false_eq_true, if_false]
      refine ⟨_, rfl, trivial, ?_, Or.inl rfl⟩
      simp only [VC.allowsPlain, VC.flatten, List.any_nil, allows]
      have := h.sl2 h2
      cases x1 : b.allowsHi p
      · simp
      · cases x2 : a.allowsLo p
        · simp
        · exact absurd ⟨x1, x2⟩ this
    · simp only [h1, h2, Bool.false_eq_true, if_false]
      simp only [Bool.not_eq_true] at h2
      by_cases h3 : a.allowsHigher b = true
      · simp only [h3, if_true]
        exact fin a b (Or.inl rfl) (Or.inr rfl) (ordCross a b h2) eLo (loPick _ _ (h.hi1 h3))
      · simp only [h3, Bool.false_eq_true, if_false]
        simp only [Bool.not_eq_true] at h3
        exact fin a a (Or.inl rfl) (Or.inl rfl) (ordSame a ha) eLo (by
          rw [Bool.and_comm]; exact loPick _ _ (h.hi2 h3))

end VRange
end Poetry
