/-
A registry dependency that is a member of ONE extra (`in_extras = [x]`, as `factory.py` records it): `to_pep_508`
appends `extra == "x"`, and `create_from_pep_508` puts the membership back through the `marker` setter.
-/
import PoetryVerif.Proofs.DepMarker
import PoetryVerif.Proofs.MarkerAlgSoundStr

set_option linter.unusedSimpArgs false
set_option linter.unusedVariables false

namespace Poetry.Dep
open Poetry Poetry.Marker Poetry.Req
open Poetry.Generic (GC GS)

/-- a normalised extra name as the printers and parsers see it -/
structure ExtraName (x : String) : Prop where
  tok : PlainTok x
  head : ∃ c cs, x.toList = c :: cs ∧ (c ≠ '"' ∧ c ≠ '\'') ∧ (c ≠ '!' ∧ c ≠ '=') ∧ c ≠ '*'
  plain : ∀ d ∈ x.toList, gPlain d
  val : ValOk x
  canon : canonName x = x

/-- the tree of `extra == "x"` -/
def extraSyn (x : String) : Syn := .one (.item "extra" "==" x false)

/-- the marker `_compact_markers` builds from it -/
def extraLeaf (x : String) : M := .leaf (.single ⟨"extra", "==", x, false, .gen (.atom ⟨x, .eq, true⟩)⟩)

theorem extraClause (x : String) (h : ExtraName x) :
    ∃ gc, Generic.parseConstraint x = .ok gc ∧ nestedGC "extra" gc = .ok (extraSyn x).text := by
  obtain ⟨c, cs, hx, hq, hb, hs⟩ := h.head
  have hp := gparseWith_bare false c cs hq hb hs (by rw [← hx]; exact h.plain)
  have hxs : String.ofList (c :: cs) = x := by rw [← hx]; simp
  rw [hxs] at hp
  refine ⟨_, hp, ?_⟩
  simp only [nestedGC, nestedGS, nestedAtom, Generic.Op.str, extraSyn, Syn.text, Atom.text, leafText,
    quoteOf_dq (fun c hc => ⟨(h.val c hc).1, (h.val c hc).2.1⟩), Bool.false_eq_true, if_false]
  congr 1

theorem extraSyn_lexable (x : String) (h : ExtraName x) : (extraSyn x).Lexable := by
  refine ⟨?_, ?_, h.val⟩
  · rw [names_list]; decide
  · rw [ops_list]; decide

theorem extra_head_ne_eq (x : String) (h : ExtraName x) : x.toList.head? ≠ some '=' := by
  obtain ⟨c, cs, hx, _, hb, _⟩ := h.head
  rw [hx]; simp; exact hb.2

/-- `_compact_markers` (with its final `union`) on the tree of `extra == "x"` -/
theorem compactTop_extra (x : String) (h : ExtraName x) : compactTop (extraSyn x) = .ok (extraLeaf x) := by
  have hm := mkSingle_extra_eq x h.tok (extra_head_ne_eq x h)
  have hsub : compactSubMarkers (extraSyn x) = .ok [extraLeaf x] := by
    simp [compactSubMarkers, compactGroups, compactAtom, extraSyn, itemConstraintString, hm, groupMarker, extraLeaf,
      bind, Except.bind, pure, Except.pure]
  unfold compactTop
  simp only [hsub, bind, Except.bind]
  unfold defaultFuel
  rw [unionF]
  simp [Stack.has, extraLeaf, M.isEmpty, mkUnion, flattenMarkers, flattenAux, M.mem, unwrapSingleton, cnf]

/-- the `marker` setter on `extra == "x"`: the dependency becomes an optional member of the extra `x` -/
theorem setMarker_extra (d : Dep) (x : String) (h : ExtraName x) :
    ∃ d', d.setMarker (extraLeaf x) = .ok d' ∧ d'.spec = d.spec ∧ d'.kind = d.kind ∧ d'.constraint = d.constraint ∧
      d'.marker = extraLeaf x ∧ d'.inExtras = d.inExtras ++ [x] ∧ d'.optional = true := by
  have hd : dnf defaultFuel [] (extraLeaf x) = .ok (extraLeaf x) := by
    unfold defaultFuel extraLeaf
    rw [dnf]
    all_goals (intro ms h; cases h)
  have hex : convertMarkersFor "extra" (extraLeaf x) = .ok (some [[("==", x)]]) := by
    unfold convertMarkersFor
    rw [hd]
    simp [bind, Except.bind, pure, Except.pure, membersIfUnion, extraLeaf, conjPairs, convKey, Leaf.name, leafPair,
      dedupGroups]
  have hpy : convertMarkersFor "python_version" (extraLeaf x) = .ok none := by
    unfold convertMarkersFor
    rw [hd]
    simp [bind, Except.bind, pure, Except.pure, membersIfUnion, extraLeaf, conjPairs, convKey, Leaf.name]
  have hin : inExtrasOf [[("==", x)]] = [x] := by simp [inExtrasOf, h.canon]
  have hstar : VParser.parseConstraint "*" = .ok VC.any := by rfl
  refine ⟨{ spec := d.spec, constraint := d.constraint, prettyConstraint := d.prettyConstraint, marker := extraLeaf x,
            pythonVersions := "*", pythonConstraint := VC.any, inExtras := d.inExtras ++ [x], optional := true,
            activated := false, kind := d.kind }, by simp only [Dep.setMarker, hex, hpy, hin, hstar, List.isEmpty_cons, Bool.false_eq_true, if_false, bind, Except.bind, pure, Except.pure],
    rfl, rfl, rfl, rfl, rfl, rfl⟩

end Poetry.Dep
