/-
Helper lemmas for C14: line cracking, header parsing of well-formed header groups, rendering.
Core Lean only.
-/
import PoetryVerif.Model.Meta
import PoetryVerif.Spec.Rfc822

set_option linter.unusedSimpArgs false
set_option linter.unusedVariables false

namespace Poetry.Meta
open Poetry Poetry.Spec Poetry.Spec.Rfc822

/-! ### line cracking -/

theorem linesBy_ne_nil (brk : Char → Bool) : ∀ (s : List Char), s ≠ [] → linesBy brk s ≠ []
  | [], h => absurd rfl h
  | [c], _ => by simp [linesBy]
  | c :: d :: cs, _ => by
    unfold linesBy
    split
    · simp
    · split
      · simp
      · split <;> simp

/-- the cracked lines concatenate to the text (nothing is dropped or changed) -/
theorem linesBy_flatten (brk : Char → Bool) : ∀ (s : List Char), (linesBy brk s).flatten = s
  | [] => by simp [linesBy]
  | [c] => by simp [linesBy]
  | c :: d :: cs => by
    unfold linesBy
    split
    · rename_i h
      have := linesBy_flatten brk cs
      simp [this, h.1, h.2]
    · split
      · have := linesBy_flatten brk (d :: cs)
        simp [this]
      · have ih := linesBy_flatten brk (d :: cs)
        split
        · rename_i h; simp [h] at ih
        · rename_i l ls h
          rw [h] at ih
          simp at ih ⊢
          exact ih

theorem lines_nl_cons (s : List Char) : lines ('\n' :: s) = ['\n'] :: lines s := by
  cases s with
  | nil => simp [lines, linesBy]
  | cons d cs => simp [lines, linesBy, isNL]

/-- a character that is not a line end is glued to the first line of what follows -/
theorem lines_cons_of_not_nl (a : Char) (ha : isNL a = false) (s : List Char) (hs : s ≠ []) :
    lines (a :: s) = match lines s with
      | [] => [[a]]
      | l :: ls => (a :: l) :: ls := by
  cases s with
  | nil => exact absurd rfl hs
  | cons d cs =>
    have h1 : a ≠ '\r' := by intro h; subst h; simp [isNL] at ha
    simp only [lines]
    rw [linesBy]
    simp only [h1, false_and, if_false, ha]
    cases linesBy isNL (d :: cs) <;> rfl

/-- a line end that is not the first half of `\r\n` closes its line -/
theorem lines_nlchar_cons (a b : Char) (s : List Char) (ha : isNL a = true) (h : ¬(a = '\r' ∧ b = '\n')) :
    lines (a :: b :: s) = [a] :: lines (b :: s) := by
  simp only [lines]
  rw [linesBy]
  simp [h, ha]

theorem lines_crlf_cons (s : List Char) : lines ('\r' :: '\n' :: s) = ['\r', '\n'] :: lines s := by
  simp only [lines]
  rw [linesBy]
  simp

/-- **a line that ends in `\n` is complete**: cracking distributes over it, whatever precedes -/
theorem lines_append_nl : ∀ (s t : List Char), lines (s ++ '\n' :: t) = lines (s ++ ['\n']) ++ lines t
  | [], t => by
    rw [List.nil_append, List.nil_append, lines_nl_cons]
    simp [lines, linesBy]
  | [a], t => by
    by_cases h1 : a = '\r'
    · subst h1
      simp only [List.cons_append, List.nil_append]
      rw [lines_crlf_cons, lines_crlf_cons]
      simp [lines, linesBy]
    · by_cases h2 : isNL a = true
      · have : a = '\n' := by simp [isNL, h1] at h2; exact h2
        subst this
        simp only [List.cons_append, List.nil_append]
        rw [lines_nl_cons, lines_nl_cons, lines_nl_cons, lines_nl_cons]
        simp [lines, linesBy]
      · have h2 : isNL a = false := by simpa using h2
        have e1 := lines_cons_of_not_nl a h2 ('\n' :: t) (by simp)
        have e2 := lines_cons_of_not_nl a h2 ['\n'] (by simp)
        simp only [List.cons_append, List.nil_append] at *
        rw [e1, e2, lines_nl_cons, lines_nl_cons]
        simp [lines, linesBy]
  | a :: b :: s, t => by
    have ih1 := lines_append_nl s t
    have ih2 := lines_append_nl (b :: s) t
    by_cases h : a = '\r' ∧ b = '\n'
    · obtain ⟨rfl, rfl⟩ := h
      simp only [List.cons_append]
      rw [lines_crlf_cons, lines_crlf_cons, ih1]
      simp
    · by_cases h2 : isNL a = true
      · simp only [List.cons_append] at ih2 ⊢
        rw [lines_nlchar_cons a b _ h2 h, lines_nlchar_cons a b _ h2 h, ih2]
        simp
      · have h2 : isNL a = false := by simpa using h2
        have e1 := lines_cons_of_not_nl a h2 (b :: s ++ '\n' :: t) (by simp)
        have e2 := lines_cons_of_not_nl a h2 (b :: s ++ ['\n']) (by simp)
        simp only [List.cons_append] at e1 e2 ih2 ⊢
        rw [e1, e2, ih2]
        have hne : lines (b :: (s ++ ['\n'])) ≠ [] := linesBy_ne_nil _ _ (by simp)
        cases hl : lines (b :: (s ++ ['\n'])) with
        | nil => exact absurd hl hne
        | cons l ls => simp

/-- the first cracked line starts like the text -/
theorem lines_head (s : List Char) (l : Line) (ls : List Line) (h : lines s = l :: ls) :
    l.head? = s.head? ∧ l ≠ [] := by
  match s, h with
  | [], h => simp [lines, linesBy] at h
  | [c], h =>
    simp [lines, linesBy] at h
    obtain ⟨rfl, _⟩ := h
    simp
  | c :: d :: cs, h =>
    simp only [lines] at h
    unfold linesBy at h
    split at h
    · rename_i hc
      simp at h
      obtain ⟨rfl, _⟩ := h
      simp [hc.1]
    · split at h
      · simp at h
        obtain ⟨rfl, _⟩ := h
        simp
      · split at h
        · simp at h
          obtain ⟨rfl, _⟩ := h
          simp
        · simp at h
          obtain ⟨rfl, _⟩ := h
          simp

/-- a prefix without line ends is glued to the first line -/
theorem lines_prefix (p : List Char) (hp : ∀ c ∈ p, isNL c = false) (s : List Char) (l : Line) (ls : List Line)
    (h : lines s = l :: ls) : lines (p ++ s) = (p ++ l) :: ls := by
  induction p with
  | nil => simpa using h
  | cons a p ih =>
    have hs : s ≠ [] := by intro e; subst e; simp [lines, linesBy] at h
    have := lines_cons_of_not_nl a (hp a (by simp)) (p ++ s) (by simp [hs])
    simp only [List.cons_append]
    rw [this, ih (fun c hc => hp c (by simp [hc]))]


/-! ### values that stay inside their header -/

/-- every line end inside the value is followed by a blank or tab (`\r` may also be followed by `\n`):
the value's lines after the first are continuation lines -/
def adjOk : List Char → Bool
  | [] => true
  | [_] => true
  | a :: b :: rest =>
    (if a = '\n' then isWS b else if a = '\r' then (b = '\n' || isWS b) else true) && adjOk (b :: rest)

/-- the value does not end in a line end -/
def noTrailNL (v : List Char) : Prop := ∀ c, v.getLast? = some c → isNL c = false

def NoNL (v : List Char) : Prop := ∀ c ∈ v, isNL c = false

instance (v : List Char) : Decidable (NoNL v) := by unfold NoNL; exact inferInstance

theorem adjOk_of_noNL : ∀ (v : List Char), NoNL v → adjOk v = true
  | [], _ => rfl
  | [_], _ => rfl
  | a :: b :: rest, h => by
    have ha : isNL a = false := h a (by simp)
    have h1 : a ≠ '\n' := by intro e; subst e; simp [isNL] at ha
    have h2 : a ≠ '\r' := by intro e; subst e; simp [isNL] at ha
    simp [adjOk, h1, h2]
    exact adjOk_of_noNL (b :: rest) (fun c hc => h c (by simp at hc ⊢; right; exact hc))

theorem noTrailNL_of_noNL (v : List Char) (h : NoNL v) : noTrailNL v := by
  intro c hc
  exact h c (List.mem_of_getLast? hc)

theorem adjOk_tail (a : Char) (v : List Char) (h : adjOk (a :: v) = true) : adjOk v = true := by
  cases v with
  | nil => rfl
  | cons b rest => simp [adjOk] at h; exact h.2

theorem adjOk_append_right : ∀ (a b : List Char), adjOk (a ++ b) = true → adjOk b = true
  | [], b, h => by simpa using h
  | x :: a, b, h => adjOk_append_right a b (adjOk_tail x (a ++ b) (by simpa using h))

theorem adjOk_append_left : ∀ (a b : List Char), adjOk (a ++ b) = true → adjOk a = true
  | [], _, _ => rfl
  | [x], _, _ => rfl
  | x :: y :: a, b, h => by
    have h' : adjOk (x :: y :: (a ++ b)) = true := by simpa using h
    simp only [adjOk, Bool.and_eq_true] at h' ⊢
    exact ⟨h'.1, adjOk_append_left (y :: a) b (by simpa using h'.2)⟩

theorem noTrailNL_append_right (a b : List Char) (hb : b ≠ []) (h : noTrailNL (a ++ b)) : noTrailNL b := by
  intro c hc
  apply h c
  simp [List.getLast?_append, hc]

def startsWS (l : Line) : Bool := match l with | c :: _ => isWS c | [] => false

theorem startsWS_of_head (l : Line) (c : Char) (h : l.head? = some c) (hc : isWS c = true) : startsWS l = true := by
  cases l with
  | nil => simp at h
  | cons d _ => simp at h; subst h; simpa [startsWS] using hc

/-- **continuation structure**: the lines of a well-behaved value (with its closing `\n`) are one first
line followed by lines that all start with a blank or tab -/
theorem value_lines : ∀ (v : List Char), adjOk v = true → noTrailNL v →
    ∃ l ls, lines (v ++ ['\n']) = l :: ls ∧ (∀ x ∈ ls, startsWS x = true)
  | [], _, _ => ⟨['\n'], [], by simp [lines, linesBy], by simp⟩
  | [a], _, ht => by
    have ha : isNL a = false := ht a (by simp)
    have := lines_cons_of_not_nl a ha ['\n'] (by simp)
    refine ⟨[a, '\n'], [], ?_, by simp⟩
    simp only [List.cons_append, List.nil_append]
    rw [this]; simp [lines, linesBy]
  | a :: b :: v, hadj, ht => by
    have hadj' : adjOk (b :: v) = true := adjOk_tail a _ hadj
    have ht' : noTrailNL (b :: v) := noTrailNL_append_right [a] (b :: v) (by simp) (by simpa using ht)
    obtain ⟨l', ls', hl', hws'⟩ := value_lines (b :: v) hadj' ht'
    have hhead := (lines_head _ _ _ hl').1
    simp only [List.cons_append, List.head?_cons] at hhead
    simp only [adjOk, Bool.and_eq_true] at hadj
    by_cases h1 : a = '\n'
    · subst h1
      simp at hadj
      refine ⟨['\n'], l' :: ls', ?_, ?_⟩
      · simp only [List.cons_append]
        rw [lines_nl_cons]
        simp only [List.cons_append] at hl'
        rw [hl']
      · intro x hx
        simp at hx
        rcases hx with rfl | hx
        · exact startsWS_of_head _ _ hhead hadj.1
        · exact hws' x hx
    · by_cases h2 : a = '\r'
      · subst h2
        simp [h1] at hadj
        by_cases h3 : b = '\n'
        · subst h3
          -- "\r\n": one line end; what follows starts with a blank (it cannot be the end of the value)
          cases v with
          | nil => exact absurd (ht '\n' (by simp)) (by simp [isNL])
          | cons c v =>
            have hadj2 : adjOk (c :: v) = true := adjOk_tail _ _ hadj'
            have ht2 : noTrailNL (c :: v) := noTrailNL_append_right ['\n'] (c :: v) (by simp) (by simpa using ht')
            obtain ⟨l2, ls2, hl2, hws2⟩ := value_lines (c :: v) hadj2 ht2
            have hhead2 := (lines_head _ _ _ hl2).1
            simp only [List.cons_append, List.head?_cons] at hhead2
            have hc : isWS c = true := by
              have := hadj'
              simp [adjOk] at this
              exact this.1
            refine ⟨['\r', '\n'], l2 :: ls2, ?_, ?_⟩
            · simp only [List.cons_append]
              rw [lines_crlf_cons]
              simp only [List.cons_append] at hl2
              rw [hl2]
            · intro x hx
              simp at hx
              rcases hx with rfl | hx
              · exact startsWS_of_head _ _ hhead2 hc
              · exact hws2 x hx
        · have hb : isWS b = true := by
            rcases hadj.1 with h | h
            · exact absurd h h3
            · exact h
          refine ⟨['\r'], l' :: ls', ?_, ?_⟩
          · simp only [List.cons_append]
            rw [lines_nlchar_cons '\r' b _ (by simp [isNL]) (by simp [h3])]
            simp only [List.cons_append] at hl'
            rw [hl']
          · intro x hx
            simp at hx
            rcases hx with rfl | hx
            · exact startsWS_of_head _ _ hhead hb
            · exact hws' x hx
      · have ha : isNL a = false := by simp [isNL, h1, h2]
        refine ⟨a :: l', ls', ?_, hws'⟩
        have := lines_cons_of_not_nl a ha (b :: v ++ ['\n']) (by simp)
        simp only [List.cons_append] at this hl' ⊢
        rw [this, hl']


/-! ### list helpers -/

theorem takeWhile_append_stop {α} (p : α → Bool) (a : List α) (x : α) (rest : List α)
    (ha : ∀ c ∈ a, p c = true) (hx : p x = false) : (a ++ x :: rest).takeWhile p = a := by
  induction a with
  | nil => simp [List.takeWhile, hx]
  | cons c a ih =>
    simp [List.takeWhile, ha c (by simp)]
    exact ih (fun d hd => ha d (by simp [hd]))

theorem dropWhile_append_stop {α} (p : α → Bool) (a : List α) (x : α) (rest : List α)
    (ha : ∀ c ∈ a, p c = true) (hx : p x = false) : (a ++ x :: rest).dropWhile p = x :: rest := by
  induction a with
  | nil => simp [List.dropWhile, hx]
  | cons c a ih =>
    simp [List.dropWhile, ha c (by simp)]
    exact ih (fun d hd => ha d (by simp [hd]))

theorem dropWhile_all_append {α} (p : α → Bool) (a b : List α) (ha : ∀ c ∈ a, p c = true) :
    (a ++ b).dropWhile p = b.dropWhile p := by
  induction a with
  | nil => simp
  | cons c a ih =>
    simp [List.dropWhile, ha c (by simp)]
    exact ih (fun d hd => ha d (by simp [hd]))

theorem dropWhile_of_head {α} (p : α → Bool) (b : List α) (h : ∀ x, b.head? = some x → p x = false) :
    b.dropWhile p = b := by
  cases b with
  | nil => rfl
  | cons x b => simp [List.dropWhile, h x (by simp)]

theorem takeWhile_all_mem {α} (p : α → Bool) (l : List α) : ∀ c ∈ l.takeWhile p, p c = true := by
  intro c hc
  induction l with
  | nil => simp at hc
  | cons x l ih =>
    by_cases hx : p x = true
    · simp [List.takeWhile, hx] at hc
      rcases hc with rfl | hc
      · exact hx
      · exact ih hc
    · simp [List.takeWhile, hx] at hc

theorem head_dropWhile_not {α} (p : α → Bool) (l : List α) : ∀ x, (l.dropWhile p).head? = some x → p x = false := by
  intro x hx
  induction l with
  | nil => simp at hx
  | cons y l ih =>
    by_cases hy : p y = true
    · simp [List.dropWhile, hy] at hx; exact ih hx
    · simp [List.dropWhile, hy] at hx; subst hx; simpa using hy

theorem rstripNL_append_nl (v : List Char) (h : noTrailNL v) : rstripNL (v ++ ['\n']) = v := by
  unfold rstripNL
  simp only [List.reverse_append, List.reverse_cons, List.reverse_nil, List.nil_append, List.singleton_append]
  have : ('\n' :: v.reverse).dropWhile isNL = v.reverse.dropWhile isNL := by simp [List.dropWhile, isNL]
  rw [this, dropWhile_of_head]
  · simp
  · intro x hx
    apply h x
    rw [List.getLast?_eq_head?_reverse]
    exact hx

theorem ftext_facts (c : Char) (h : isFtext c = true) :
    isWS c = false ∧ c ≠ ':' ∧ isNL c = false := by
  refine ⟨?_, ?_, ?_⟩
  · cases hw : isWS c with
    | false => rfl
    | true =>
      simp [isWS] at hw
      rcases hw with rfl | rfl <;> simp [isFtext] at h
  · intro e; subst e; simp [isFtext] at h
  · cases hw : isNL c with
    | false => rfl
    | true =>
      simp [isNL] at hw
      rcases hw with rfl | rfl <;> simp [isFtext] at h

theorem ws_not_nl (c : Char) (h : isWS c = true) : isNL c = false := by
  simp [isWS] at h
  rcases h with rfl | rfl <;> simp [isNL]

/-! ### one written header, cracked and parsed -/

/-- header name: non-empty, printable ASCII without colon, not starting with `F` (hence not `From `) -/
def NameOk (k : List Char) : Prop := k ≠ [] ∧ (∀ c ∈ k, isFtext c = true) ∧ k.head? ≠ some 'F'

structure EntryOk (e : Entry) : Prop where
  name : NameOk e.1
  adj : adjOk e.2 = true
  trail : noTrailNL e.2

/-- a first line that `_parse_headers` treats as the start of a new header -/
def PlainFirst (f : Line) : Prop :=
  ∃ c r, f = c :: r ∧ isWS c = false ∧ startsWithFrom f = false ∧ c ≠ ':'

theorem entry_lines (e : Entry) (h : EntryOk e) :
    ∃ f cs, lines (entryText e) = f :: cs ∧ PlainFirst f ∧ isHeaderLine f = true ∧
      (∀ x ∈ cs, startsWS x = true) ∧ sourceParse f cs = (e.1, lstripWS e.2) := by
  obtain ⟨k, v⟩ := e
  obtain ⟨⟨hk1, hk2, hk3⟩, hadj, htrail⟩ := h
  simp only at hk1 hk2 hk3 hadj htrail
  -- v = ws ++ v0
  have hsplit : v = v.takeWhile isWS ++ v.dropWhile isWS := (List.takeWhile_append_dropWhile).symm
  generalize hws : v.takeWhile isWS = ws at hsplit
  generalize hv0 : v.dropWhile isWS = v0 at hsplit
  have hwsall : ∀ c ∈ ws, isWS c = true := by rw [← hws]; exact takeWhile_all_mem isWS v
  have hv0head : ∀ x, v0.head? = some x → isWS x = false := by rw [← hv0]; exact head_dropWhile_not isWS v
  have hadj0 : adjOk v0 = true := adjOk_append_right ws v0 (by rw [← hsplit]; exact hadj)
  have htrail0 : noTrailNL v0 := by
    by_cases hne : v0 = []
    · subst hne; intro c hc; simp at hc
    · exact noTrailNL_append_right ws v0 hne (by rw [← hsplit]; exact htrail)
  obtain ⟨l0, ls0, hl0, hls0⟩ := value_lines v0 hadj0 htrail0
  have hflat : l0 ++ ls0.flatten = v0 ++ ['\n'] := by
    have := linesBy_flatten isNL (v0 ++ ['\n'])
    simp only [lines] at hl0
    rw [hl0] at this
    simpa using this
  have hl0head := (lines_head _ _ _ hl0).1
  have hl0nws : ∀ x, l0.head? = some x → isWS x = false := by
    intro x hx
    rw [hl0head] at hx
    cases v0 with
    | nil => simp at hx; subst hx; simp [isWS]
    | cons y _ => simp at hx; subst hx; exact hv0head _ (by simp)
  -- the prefix  k ++ ": " ++ ws  has no line end
  let p := k ++ ':' :: ' ' :: ws
  have hp : ∀ c ∈ p, isNL c = false := by
    intro c hc
    simp only [p, List.mem_append, List.mem_cons] at hc
    rcases hc with hc | rfl | rfl | hc
    · exact (ftext_facts c (hk2 c hc)).2.2
    · simp [isNL]
    · simp [isNL]
    · exact ws_not_nl c (hwsall c hc)
  have htext : entryText (k, v) = p ++ (v0 ++ ['\n']) := by
    simp only [entryText, p]
    rw [hsplit]
    simp
  have hlines := lines_prefix p hp (v0 ++ ['\n']) l0 ls0 hl0
  refine ⟨p ++ l0, ls0, by rw [htext]; exact hlines, ?_, ?_, hls0, ?_⟩
  · -- PlainFirst
    cases k with
    | nil => exact absurd rfl hk1
    | cons k0 k' =>
      have hf := ftext_facts k0 (hk2 k0 (by simp))
      refine ⟨k0, k' ++ ':' :: ' ' :: ws ++ l0, by simp [p], hf.1, ?_, hf.2.1⟩
      have hF : k0 ≠ 'F' := by simpa using hk3
      simp [startsWithFrom, fromPrefix, p, List.isPrefixOf, hF]
      intro e; exact absurd e.symm hF
  · -- header line
    have hdw : (p ++ l0).dropWhile isFtext = ':' :: (' ' :: ws ++ l0) := by
      have := dropWhile_append_stop isFtext k ':' (' ' :: ws ++ l0) hk2 (by decide)
      simpa [p] using this
    simp [isHeaderLine, hdw]
  · -- the parsed (name, value)
    have hne : ∀ c ∈ k, (decide (c ≠ ':')) = true := by
      intro c hc; simpa using (ftext_facts c (hk2 c hc)).2.1
    have htw : (p ++ l0).takeWhile (fun c => decide (c ≠ ':')) = k := by
      have := takeWhile_append_stop (fun c => decide (c ≠ ':')) k ':' (' ' :: ws ++ l0) hne (by simp)
      simpa [p] using this
    have hdw : (p ++ l0).dropWhile (fun c => decide (c ≠ ':')) = ':' :: (' ' :: ws ++ l0) := by
      have := dropWhile_append_stop (fun c => decide (c ≠ ':')) k ':' (' ' :: ws ++ l0) hne (by simp)
      simpa [p] using this
    have hstrip : lstripWS (' ' :: ws ++ l0) = l0 := by
      unfold lstripWS
      have : (' ' :: ws ++ l0) = (' ' :: ws) ++ l0 := by simp
      rw [this, dropWhile_all_append isWS (' ' :: ws) l0 (by
        intro c hc; simp at hc; rcases hc with rfl | hc
        · simp [isWS]
        · exact hwsall c hc)]
      exact dropWhile_of_head isWS l0 hl0nws
    have hval : lstripWS v = v0 := by
      unfold lstripWS; exact hv0
    simp only [sourceParse, htw, hdw, List.drop_succ_cons, List.drop_zero, hstrip, hflat, hval]
    rw [rstripNL_append_nl v0 htrail0]


/-! ### `_parse_headers` on well-formed header groups -/

theorem parseHeaders_conts (f : Line) : ∀ (cs : List Line) (acc : List Line) (rest : List Line),
    (∀ x ∈ cs, startsWS x = true) →
    parseHeaders false (some (f, acc)) (cs ++ rest) = parseHeaders false (some (f, acc ++ cs)) rest
  | [], acc, rest, _ => by simp
  | x :: cs, acc, rest, h => by
    have hx := h x (by simp)
    cases x with
    | nil => simp [startsWS] at hx
    | cons c r =>
      simp only [startsWS] at hx
      have ih := parseHeaders_conts f cs (acc ++ [c :: r]) rest (fun y hy => h y (by simp [hy]))
      simp only [List.cons_append]
      rw [parseHeaders.eq_def]
      simp only [hx, if_true]
      rw [ih]
      simp

theorem parseHeaders_plain (first : Bool) (pending : Option (Line × List Line)) (f : Line) (rest : List Line)
    (hf : PlainFirst f) :
    parseHeaders first pending (f :: rest) = flush pending (parseHeaders false (some (f, [])) rest) := by
  obtain ⟨c, r, rfl, hws, hfrom, hcolon⟩ := hf
  rw [parseHeaders.eq_def]
  simp [hws, hfrom, hcolon]

/-- a group = first line + continuation lines -/
abbrev Group := Line × List Line

def GroupOk (g : Group) : Prop := PlainFirst g.1 ∧ ∀ x ∈ g.2, startsWS x = true

def groupLines (gs : List Group) : List Line := gs.flatMap fun g => g.1 :: g.2

theorem flush_flush_none (p : Option (Line × List Line)) (hs : List (List Char × List Char)) :
    flush p ⟨none, hs, [], none⟩ =
      ⟨none, (match p with | some (f, cs) => [sourceParse f cs] | none => []) ++ hs, [], none⟩ := by
  cases p with
  | none => simp [flush]
  | some fc => obtain ⟨f, cs⟩ := fc; simp [flush]

theorem parseHeaders_groups : ∀ (gs : List Group) (first : Bool) (pending : Option (Line × List Line)),
    (∀ g ∈ gs, GroupOk g) →
    parseHeaders first pending (groupLines gs) =
      flush pending ⟨none, gs.map (fun g => sourceParse g.1 g.2), [], none⟩
  | [], first, pending, _ => by simp [groupLines, parseHeaders]
  | g :: gs, first, pending, h => by
    obtain ⟨f, cs⟩ := g
    have hg := h (f, cs) (by simp)
    have ih := parseHeaders_groups gs false (some (f, cs)) (fun g hg => h g (by simp [hg]))
    have e : groupLines ((f, cs) :: gs) = f :: (cs ++ groupLines gs) := by simp [groupLines]
    rw [e, parseHeaders_plain first pending f _ hg.1, parseHeaders_conts f cs [] _ hg.2]
    simp only [List.nil_append]
    rw [ih]
    simp [flush]

/-! ### the whole message -/

def entriesText (es : List Entry) : List Char := (es.map entryText).flatten

theorem lines_entriesText : ∀ (es : List Entry) (t : List Char),
    lines (entriesText es ++ t) = (es.flatMap fun e => lines (entryText e)) ++ lines t
  | [], t => by simp [entriesText]
  | e :: es, t => by
    have ih := lines_entriesText es t
    have : entriesText (e :: es) ++ t = (e.1 ++ [':', ' '] ++ e.2) ++ '\n' :: (entriesText es ++ t) := by
      simp [entriesText, entryText]
    rw [this, lines_append_nl, ih]
    simp [entryText]

theorem takeWhile_append_all {α} (p : α → Bool) (a b : List α) (ha : ∀ c ∈ a, p c = true) :
    (a ++ b).takeWhile p = a ++ b.takeWhile p := by
  induction a with
  | nil => simp
  | cons c a ih => simp [List.takeWhile, ha c (by simp)]; exact ih (fun d hd => ha d (by simp [hd]))

theorem startsWS_isHeaderLine (x : Line) (h : startsWS x = true) : isHeaderLine x = true := by
  cases x with
  | nil => simp [startsWS] at h
  | cons c r => simp [startsWS] at h; simp [isHeaderLine, h]

/-- body part written by `get_metadata_content` -/
def tailChars (d : Option (List Char)) : List Char :=
  match d with
  | some d => '\n' :: d ++ ['\n']
  | none => []

def bodyOf (d : Option (List Char)) : List Char :=
  match d with
  | some d => d ++ ['\n']
  | none => []

/-- **Main parsing theorem.**  A text made of well-formed written headers, optionally followed by a blank
line and an arbitrary body, parses into exactly those headers (values without their leading blanks) and
exactly that body; no envelope line, no defect. -/
theorem parse_entries (es : List Entry) (d : Option (List Char)) (h : ∀ e ∈ es, EntryOk e) :
    parseChars (entriesText es ++ tailChars d) =
      { unixFrom := none, headers := es.map (fun e => (e.1, lstripWS e.2)), body := bodyOf d, defects := [] } := by
  -- choose the cracked group of every entry
  have hgroups : ∃ gs : List Group, (es.flatMap fun e => lines (entryText e)) = groupLines gs ∧
      (∀ g ∈ gs, GroupOk g ∧ isHeaderLine g.1 = true) ∧
      gs.map (fun g => sourceParse g.1 g.2) = es.map (fun e => (e.1, lstripWS e.2)) := by
    clear d
    induction es with
    | nil => exact ⟨[], by simp [groupLines], by simp, by simp⟩
    | cons e es ih =>
      obtain ⟨gs, h1, h2, h3⟩ := ih (fun e' he' => h e' (by simp [he']))
      obtain ⟨f, cs, hl, hpf, hhl, hcs, hsp⟩ := entry_lines e (h e (by simp))
      refine ⟨(f, cs) :: gs, ?_, ?_, ?_⟩
      · simp [groupLines, hl] at h1 ⊢; exact h1
      · intro g hg
        simp at hg
        rcases hg with rfl | hg
        · exact ⟨⟨hpf, hcs⟩, hhl⟩
        · exact h2 g hg
      · simp [hsp, h3]
  obtain ⟨gs, hgl, hgok, hgmap⟩ := hgroups
  have hall : ∀ x ∈ groupLines gs, isHeaderLine x = true := by
    intro x hx
    simp only [groupLines, List.mem_flatMap] at hx
    obtain ⟨g, hg, hx⟩ := hx
    simp at hx
    rcases hx with rfl | hx
    · exact (hgok g hg).2
    · exact startsWS_isHeaderLine x ((hgok g hg).1.2 x hx)
  have hph := parseHeaders_groups gs true none (fun g hg => (hgok g hg).1)
  unfold parseChars
  rw [lines_entriesText, hgl]
  cases d with
  | none =>
    simp only [tailChars, lines, linesBy, List.append_nil]
    unfold parseLines
    have htw : (groupLines gs).takeWhile isHeaderLine = groupLines gs := by
      have := takeWhile_append_all isHeaderLine (groupLines gs) [] hall
      simpa using this
    have hdw : (groupLines gs).dropWhile isHeaderLine = [] := by
      have := dropWhile_all_append isHeaderLine (groupLines gs) [] hall
      simpa using this
    simp only [htw, hdw, hph, flush, hgmap, bodyOf]
    simp
  | some d =>
    have ht : lines (tailChars (some d)) = ['\n'] :: lines (d ++ ['\n']) := by
      simp only [tailChars]; exact lines_nl_cons _
    rw [ht]
    unfold parseLines
    have hblank : isHeaderLine ['\n'] = false := by decide
    have htw : (groupLines gs ++ ['\n'] :: lines (d ++ ['\n'])).takeWhile isHeaderLine = groupLines gs :=
      takeWhile_append_stop isHeaderLine _ _ _ hall hblank
    have hdw : (groupLines gs ++ ['\n'] :: lines (d ++ ['\n'])).dropWhile isHeaderLine = ['\n'] :: lines (d ++ ['\n']) :=
      dropWhile_append_stop isHeaderLine _ _ _ hall hblank
    have hflat : (lines (d ++ ['\n'])).flatten = d ++ ['\n'] := linesBy_flatten isNL _
    simp only [htw, hdw, hph, flush, hgmap, bodyOf]
    simp [startsWithNL, isNL, hflat]


/-! ### `METADATA_BASE.format(...)` -/

def baseEntries (n v s : List Char) : List Entry :=
  [("Metadata-Version".toList, "2.3".toList), ("Name".toList, n), ("Version".toList, v), ("Summary".toList, s)]

theorem metadataBase_chars : Gen.metadataBase.toList =
    "Metadata-Version: 2.3\nName: ".toList ++ '{' :: "name".toList ++ '}' :: "\nVersion: ".toList ++ '{' :: "version".toList ++
      '}' :: "\nSummary: ".toList ++ '{' :: "summary".toList ++ '}' :: ['\n'] := by decide

theorem fmtAux_lit (env : List Char → Option (List Char)) (lit rest : List Char)
    (h : ∀ c ∈ lit, c ≠ '{' ∧ c ≠ '}') :
    fmtAux env (lit ++ rest) none = (fmtAux env rest none).map (lit ++ ·) := by
  induction lit with
  | nil => simp
  | cons c lit ih =>
    have hc := h c (by simp)
    simp [fmtAux, hc.1, hc.2, ih (fun d hd => h d (by simp [hd]))]
    cases fmtAux env rest none <;> simp

theorem fmtAux_field (env : List Char → Option (List Char)) (name rest : List Char)
    (h : ∀ c ∈ name, c ≠ '{' ∧ c ≠ '}') : ∀ acc : List Char,
    fmtAux env (name ++ '}' :: rest) (some acc) =
      (env (acc.reverse ++ name)).bind fun v => (fmtAux env rest none).map (v ++ ·) := by
  induction name with
  | nil =>
    intro acc
    simp only [List.nil_append, fmtAux, if_true, List.append_nil]
    cases env acc.reverse <;> cases fmtAux env rest none <;> rfl
  | cons c name ih =>
    intro acc
    have hc := h c (by simp)
    simp only [List.cons_append, fmtAux, hc.1, hc.2, if_false]
    rw [ih (fun d hd => h d (by simp [hd])) (c :: acc)]
    simp

theorem formatBase_eq (n v s : List Char) : formatBase n v s = some (entriesText (baseEntries n v s)) := by
  unfold formatBase
  rw [metadataBase_chars]
  simp only [List.append_assoc]
  rw [fmtAux_lit _ _ _ (by decide)]
  simp only [List.cons_append, fmtAux, if_true]
  rw [fmtAux_field _ _ _ (by decide)]
  rw [fmtAux_lit _ _ _ (by decide)]
  simp only [fmtAux, if_true]
  rw [fmtAux_field _ _ _ (by decide)]
  rw [fmtAux_lit _ _ _ (by decide)]
  simp only [fmtAux, if_true]
  rw [fmtAux_field _ _ _ (by decide)]
  simp [fmtAux, entriesText, entryText, baseEntries]

/-! ### the licence indentation rule -/

theorem adjOk_cons_of_not_nl (a : Char) (ha : isNL a = false) (v : List Char) : adjOk (a :: v) = adjOk v := by
  have h1 : a ≠ '\n' := by intro e; subst e; simp [isNL] at ha
  have h2 : a ≠ '\r' := by intro e; subst e; simp [isNL] at ha
  cases v with
  | nil => simp [adjOk]
  | cons b r => simp [adjOk, h1, h2]

theorem adjOk_prefix_noNL (p : List Char) (hp : NoNL p) (x : List Char) : adjOk (p ++ x) = adjOk x := by
  induction p with
  | nil => simp
  | cons a p ih =>
    simp only [List.cons_append]
    rw [adjOk_cons_of_not_nl a (hp a (by simp)), ih (fun c hc => hp c (by simp [hc]))]

/-- every line produced by the cracking keeps line ends at its end only -/
theorem linesBy_adjOk (brk : Char → Bool) (hn : brk '\n' = true) (hr : brk '\r' = true) :
    ∀ (s : List Char), ∀ l ∈ linesBy brk s, adjOk l = true
  | [], l, h => by simp [linesBy] at h
  | [c], l, h => by simp [linesBy] at h; subst h; rfl
  | c :: d :: cs, l, h => by
    rw [linesBy] at h
    split at h
    · simp at h
      rcases h with rfl | h
      · decide
      · exact linesBy_adjOk brk hn hr cs l h
    · split at h
      · simp at h
        rcases h with rfl | h
        · rfl
        · exact linesBy_adjOk brk hn hr (d :: cs) l h
      · rename_i hb
        have hc : isNL c = false := by
          cases hnl : isNL c with
          | false => rfl
          | true =>
            simp [isNL] at hnl
            rcases hnl with rfl | rfl
            · exact absurd hn hb
            · exact absurd hr hb
        split at h
        · simp at h; subst h; rfl
        · rename_i l' ls' hl'
          simp at h
          rcases h with rfl | h
          · rw [adjOk_cons_of_not_nl c hc]
            exact linesBy_adjOk brk hn hr (d :: cs) l' (by rw [hl']; simp)
          · exact linesBy_adjOk brk hn hr (d :: cs) l (by rw [hl']; simp [h])

theorem adjOk_append_ws (A : List Char) (w : Char) (B : List Char) (hA : adjOk A = true) (hw : isWS w = true)
    (hB : adjOk (w :: B) = true) : adjOk (A ++ w :: B) = true := by
  match A, hA with
  | [], _ => simpa using hB
  | [a], _ =>
    simp only [List.cons_append, List.nil_append, adjOk, Bool.and_eq_true]
    refine ⟨?_, hB⟩
    by_cases h1 : a = '\n'
    · simp [h1, hw]
    · by_cases h2 : a = '\r'
      · simp [h1, h2, hw]
      · simp [h1, h2]
  | a :: b :: A', hA =>
    simp only [adjOk, Bool.and_eq_true] at hA
    have ih := adjOk_append_ws (b :: A') w B hA.2 hw hB
    simp only [List.cons_append, adjOk, Bool.and_eq_true] at ih ⊢
    exact ⟨hA.1, ih⟩

theorem adjOk_indent (w : Char) (pre : List Char) (hw : isWS w = true) (hpre : NoNL (w :: pre)) :
    ∀ (ls : List (List Char)), (∀ l ∈ ls, adjOk l = true) →
      adjOk (ls.map ((w :: pre) ++ ·)).flatten = true
  | [], _ => rfl
  | l :: ls, h => by
    have ih := adjOk_indent w pre hw hpre ls (fun x hx => h x (by simp [hx]))
    have hl : adjOk ((w :: pre) ++ l) = true := by rw [adjOk_prefix_noNL _ hpre]; exact h l (by simp)
    simp only [List.map_cons, List.flatten_cons]
    cases ls with
    | nil => simpa using hl
    | cons l2 ls2 =>
      simp only [List.map_cons, List.flatten_cons, List.cons_append] at ih ⊢
      exact adjOk_append_ws _ w _ (by simpa using hl) hw ih

theorem licensePrefix_eq : licensePrefix = ' ' :: List.replicate 8 ' ' := by decide

theorem nl_isSpace (c : Char) (h : isNL c = true) : isSpace c = true := by
  simp [isNL] at h
  rcases h with rfl | rfl <;> decide

theorem ws_isSpace (c : Char) (h : isWS c = true) : isSpace c = true := by
  simp [isWS] at h
  rcases h with rfl | rfl <;> decide

theorem pyStrip_infix (s : List Char) : ∃ A B, s = A ++ pyStrip s ++ B := by
  refine ⟨s.takeWhile isSpace, (((s.dropWhile isSpace).reverse).takeWhile isSpace).reverse, ?_⟩
  have h1 : s = s.takeWhile isSpace ++ s.dropWhile isSpace := (List.takeWhile_append_dropWhile).symm
  have h2 : (s.dropWhile isSpace).reverse =
      ((s.dropWhile isSpace).reverse).takeWhile isSpace ++ ((s.dropWhile isSpace).reverse).dropWhile isSpace :=
    (List.takeWhile_append_dropWhile).symm
  have h3 : s.dropWhile isSpace = (((s.dropWhile isSpace).reverse).dropWhile isSpace).reverse ++
      (((s.dropWhile isSpace).reverse).takeWhile isSpace).reverse := by
    have := congrArg List.reverse h2
    rw [List.reverse_reverse, List.reverse_append] at this
    exact this
  unfold pyStrip
  rw [List.append_assoc, ← h3]
  exact h1

/-- **the licence field never leaves its header**: whatever the licence text, the indented and stripped
value has every line end followed by a blank, does not end in a line end and does not start with a blank -/
theorem licenseValue_ok (l : List Char) :
    adjOk (licenseValue l) = true ∧ noTrailNL (licenseValue l) ∧ lstripWS (licenseValue l) = licenseValue l := by
  have hind : adjOk (indentAll licensePrefix l) = true := by
    unfold indentAll
    rw [licensePrefix_eq]
    apply adjOk_indent ' ' _ (by decide) (by intro c hc; simp at hc; rcases hc with rfl | ⟨_, rfl⟩ <;> decide)
    exact linesBy_adjOk isPyLineBreak (by decide) (by decide) l
  obtain ⟨A, B, hAB⟩ := pyStrip_infix (indentAll licensePrefix l)
  have hadj : adjOk (licenseValue l) = true := by
    unfold licenseValue
    rw [hAB, List.append_assoc] at hind
    exact adjOk_append_left _ B (adjOk_append_right A _ hind)
  refine ⟨hadj, ?_, ?_⟩
  · intro c hc
    unfold licenseValue pyStrip at hc
    rw [List.getLast?_reverse] at hc
    have := head_dropWhile_not isSpace _ c hc
    cases hn : isNL c with
    | false => rfl
    | true => rw [nl_isSpace c hn] at this; exact absurd this (by simp)
  · unfold lstripWS
    apply dropWhile_of_head
    intro x hx
    cases hw : isWS x with
    | false => rfl
    | true =>
      exfalso
      -- the head of the stripped text is the head of `dropWhile isSpace …`, which is not a space
      unfold licenseValue pyStrip at hx
      generalize hY : (indentAll licensePrefix l).dropWhile isSpace = Y at hx
      have hYhead : ∀ y, Y.head? = some y → isSpace y = false := by rw [← hY]; exact head_dropWhile_not isSpace _
      have hsplit : Y.reverse = Y.reverse.takeWhile isSpace ++ Y.reverse.dropWhile isSpace :=
        (List.takeWhile_append_dropWhile).symm
      have hY2 : Y = (Y.reverse.dropWhile isSpace).reverse ++ (Y.reverse.takeWhile isSpace).reverse := by
        have := congrArg List.reverse hsplit
        rw [List.reverse_reverse, List.reverse_append] at this
        exact this
      generalize (Y.reverse.dropWhile isSpace).reverse = P at hx hY2
      cases P with
      | nil => simp at hx
      | cons p0 P' =>
        simp at hx; subst hx
        have := hYhead p0 (by rw [hY2]; simp)
        rw [ws_isSpace p0 hw] at this
        exact absurd this (by simp)


/-! ### rendering = written headers + body -/

def allEntries (m : Meta) : List Entry :=
  baseEntries m.name.toList m.version.toList m.summary.toList ++ optionalEntries m

theorem renderChars_eq (m : Meta) :
    renderChars m = entriesText (allEntries m) ++ tailChars (m.description.map String.toList) := by
  unfold renderChars allEntries
  rw [formatBase_eq]
  cases hd : m.description <;> simp [entriesText, descriptionTail, tailChars]

def SingleLine (s : String) : Prop := NoNL s.toList

/-- what validation has to guarantee: no `\n` / `\r` in the fields written as one header line
(licence and description are free) -/
structure NoLineBreakInSingleLineFields (m : Meta) : Prop where
  name : SingleLine m.name
  version : SingleLine m.version
  summary : SingleLine m.summary
  keywords : SingleLine m.keywords
  author : ∀ s, m.author = some s → SingleLine s
  authorEmail : ∀ s, m.authorEmail = some s → SingleLine s
  maintainer : ∀ s, m.maintainer = some s → SingleLine s
  maintainerEmail : ∀ s, m.maintainerEmail = some s → SingleLine s
  requiresPython : ∀ s, m.requiresPython = some s → SingleLine s
  classifiers : ∀ s ∈ m.classifiers, SingleLine s
  providesExtra : ∀ s ∈ m.providesExtra, SingleLine s
  requiresDist : ∀ s ∈ m.requiresDist, SingleLine s
  projectUrls : ∀ s ∈ m.projectUrls, SingleLine s
  contentType : ∀ s, m.descriptionContentType = some s → SingleLine s

/-- executable form of the guard (for examples and the driver) -/
def noNLs (s : String) : Bool := s.toList.all fun c => !isNL c

def optNoNLs (o : Option String) : Bool := match o with | some s => noNLs s | none => true

def guardB (m : Meta) : Bool :=
  noNLs m.name && noNLs m.version && noNLs m.summary && noNLs m.keywords && optNoNLs m.author &&
  optNoNLs m.authorEmail && optNoNLs m.maintainer && optNoNLs m.maintainerEmail && optNoNLs m.requiresPython &&
  m.classifiers.all noNLs && m.providesExtra.all noNLs && m.requiresDist.all noNLs && m.projectUrls.all noNLs &&
  optNoNLs m.descriptionContentType

theorem singleLine_of_noNLs (s : String) (h : noNLs s = true) : SingleLine s := by
  intro c hc
  simp only [noNLs, List.all_eq_true] at h
  simpa using h c hc

theorem guard_of_guardB (m : Meta) (h : guardB m = true) : NoLineBreakInSingleLineFields m := by
  simp only [guardB, Bool.and_eq_true, List.all_eq_true] at h
  obtain ⟨⟨⟨⟨⟨⟨⟨⟨⟨⟨⟨⟨⟨h1, h2⟩, h3⟩, h4⟩, h5⟩, h6⟩, h7⟩, h8⟩, h9⟩, h10⟩, h11⟩, h12⟩, h13⟩, h14⟩ := h
  have opt : ∀ (o : Option String), optNoNLs o = true → ∀ s, o = some s → SingleLine s := by
    intro o ho s hs; subst hs; exact singleLine_of_noNLs s ho
  exact { name := singleLine_of_noNLs _ h1, version := singleLine_of_noNLs _ h2, summary := singleLine_of_noNLs _ h3,
          keywords := singleLine_of_noNLs _ h4, author := opt _ h5, authorEmail := opt _ h6, maintainer := opt _ h7,
          maintainerEmail := opt _ h8, requiresPython := opt _ h9,
          classifiers := fun s hs => singleLine_of_noNLs s (h10 s hs),
          providesExtra := fun s hs => singleLine_of_noNLs s (h11 s hs),
          requiresDist := fun s hs => singleLine_of_noNLs s (h12 s hs),
          projectUrls := fun s hs => singleLine_of_noNLs s (h13 s hs), contentType := opt _ h14 }

theorem truthy_some (o : Option String) (s : String) (h : truthy o = some s) : o = some s := by
  cases o with
  | none => simp [truthy] at h
  | some x =>
    simp only [truthy] at h
    split at h
    · simp at h
    · simpa using h

theorem valueOk_of_singleLine (s : String) (h : SingleLine s) : adjOk s.toList = true ∧ noTrailNL s.toList :=
  ⟨adjOk_of_noNL _ h, noTrailNL_of_noNL _ h⟩

theorem optEntry_ok (hd : String) (v : Option String) (hv : ∀ s, v = some s → SingleLine s) :
    ∀ e ∈ optEntry hd v, e.1 = hd.toList ∧ adjOk e.2 = true ∧ noTrailNL e.2 := by
  intro e he
  unfold optEntry at he
  split at he
  · rename_i s hs
    simp at he; subst he
    exact ⟨rfl, valueOk_of_singleLine s (hv s (truthy_some v s hs))⟩
  · simp at he

theorem mapEntry_ok (hd : String) (xs : List String) (hx : ∀ s ∈ xs, SingleLine s) :
    ∀ e ∈ xs.map (fun c => (hd.toList, c.toList)), e.1 = hd.toList ∧ adjOk e.2 = true ∧ noTrailNL e.2 := by
  intro e he
  simp at he
  obtain ⟨c, hc, rfl⟩ := he
  exact ⟨rfl, valueOk_of_singleLine c (hx c hc)⟩

theorem mem_sortStrs_iff (xs : List String) (s : String) : s ∈ sortStrs xs ↔ s ∈ xs :=
  (List.mergeSort_perm xs leStr).mem_iff

theorem mem_sortByFirstChar (xs : List String) (s : String) : s ∈ sortByFirstChar xs ↔ s ∈ xs :=
  (List.mergeSort_perm xs _).mem_iff

theorem fieldEntries_ok (m : Meta) (hm : NoLineBreakInSingleLineFields m) (hd : String) :
    ∀ e ∈ fieldEntries m hd, e.1 = hd.toList ∧ adjOk e.2 = true ∧ noTrailNL e.2 := by
  unfold fieldEntries
  by_cases h1 : hd = "License"
  · rw [if_pos h1]
    intro e he
    split at he
    · simp at he; subst he
      exact ⟨by rw [h1], (licenseValue_ok _).1, (licenseValue_ok _).2.1⟩
    · simp at he
  rw [if_neg h1]
  by_cases h2 : hd = "Keywords"
  · rw [if_pos h2]; exact optEntry_ok hd _ (fun s hs => by simp at hs; subst hs; exact hm.keywords)
  rw [if_neg h2]
  by_cases h3 : hd = "Author"
  · rw [if_pos h3]; exact optEntry_ok hd _ hm.author
  rw [if_neg h3]
  by_cases h4 : hd = "Author-email"
  · rw [if_pos h4]; exact optEntry_ok hd _ hm.authorEmail
  rw [if_neg h4]
  by_cases h5 : hd = "Maintainer"
  · rw [if_pos h5]; exact optEntry_ok hd _ hm.maintainer
  rw [if_neg h5]
  by_cases h6 : hd = "Maintainer-email"
  · rw [if_pos h6]; exact optEntry_ok hd _ hm.maintainerEmail
  rw [if_neg h6]
  by_cases h7 : hd = "Requires-Python"
  · rw [if_pos h7]; exact optEntry_ok hd _ hm.requiresPython
  rw [if_neg h7]
  by_cases h8 : hd = "Classifier"
  · rw [if_pos h8]; exact mapEntry_ok hd _ hm.classifiers
  rw [if_neg h8]
  by_cases h9 : hd = "Provides-Extra"
  · rw [if_pos h9]; exact mapEntry_ok hd _ (fun s hs => hm.providesExtra s ((mem_sortStrs_iff _ _).1 hs))
  rw [if_neg h9]
  by_cases h10 : hd = "Requires-Dist"
  · rw [if_pos h10]; exact mapEntry_ok hd _ (fun s hs => hm.requiresDist s ((mem_sortStrs_iff _ _).1 hs))
  rw [if_neg h10]
  by_cases h11 : hd = "Project-URL"
  · rw [if_pos h11]; exact mapEntry_ok hd _ (fun s hs => hm.projectUrls s ((mem_sortByFirstChar _ _).1 hs))
  rw [if_neg h11]
  by_cases h12 : hd = "Description-Content-Type"
  · rw [if_pos h12]; exact optEntry_ok hd _ hm.contentType
  rw [if_neg h12]
  intro e he
  simp at he; subst he
  have hn : NoNL "<header not modelled>".toList := by decide
  exact ⟨rfl, adjOk_of_noNL _ hn, noTrailNL_of_noNL _ hn⟩

instance (k : List Char) : Decidable (NameOk k) := by unfold NameOk; exact inferInstance

theorem headerOrder_names_ok : ∀ hd ∈ Gen.metadataHeaderOrder, NameOk hd.toList := by decide

theorem baseNames_ok : NameOk "Metadata-Version".toList ∧ NameOk "Name".toList ∧ NameOk "Version".toList ∧
    NameOk "Summary".toList := by decide

theorem allEntries_ok (m : Meta) (hm : NoLineBreakInSingleLineFields m) : ∀ e ∈ allEntries m, EntryOk e := by
  intro e he
  simp only [allEntries, List.mem_append] at he
  rcases he with he | he
  · simp only [baseEntries, List.mem_cons, List.not_mem_nil, or_false] at he
    rcases he with rfl | rfl | rfl | rfl
    · exact ⟨baseNames_ok.1, by decide, by intro c hc; simp at hc; subst hc; decide⟩
    · exact ⟨baseNames_ok.2.1, (valueOk_of_singleLine _ hm.name).1, (valueOk_of_singleLine _ hm.name).2⟩
    · exact ⟨baseNames_ok.2.2.1, (valueOk_of_singleLine _ hm.version).1, (valueOk_of_singleLine _ hm.version).2⟩
    · exact ⟨baseNames_ok.2.2.2, (valueOk_of_singleLine _ hm.summary).1, (valueOk_of_singleLine _ hm.summary).2⟩
  · simp only [optionalEntries, List.mem_flatMap] at he
    obtain ⟨hd, hhd, he⟩ := he
    obtain ⟨h1, h2, h3⟩ := fieldEntries_ok m hm hd e he
    exact ⟨by rw [h1]; exact headerOrder_names_ok hd hhd, h2, h3⟩

/-- the parsed header list the declared fields stand for: every written header, value without leading blanks -/
def expectedFields (m : Meta) : List (List Char × List Char) :=
  (allEntries m).map fun e => (e.1, lstripWS e.2)

theorem render_parse_chars (m : Meta) (hm : NoLineBreakInSingleLineFields m) :
    parseChars (renderChars m) =
      { unixFrom := none, headers := expectedFields m, body := bodyOf (m.description.map String.toList), defects := [] } := by
  rw [renderChars_eq]
  exact parse_entries _ _ (allEntries_ok m hm)

end Poetry.Meta
